import SeqVerif.Model.AggOut
import SeqVerif.Model.AsyncLemmas
import SeqVerif.Base.GoInt
set_option linter.unusedSimpArgs false
set_option linter.unusedVariables false
/-!
# C06: the conversions a partial result goes through (statement level)

* store -> proxy: `storeapi.buildSearchResponse` (bin key -> `Label` + `Ts = timestamppb.New(bin.MID.Time())`)
  and `proxy/search.responseToQPR` (`seq.MID(bin.Ts.AsTime().UnixMilli())`);
* proxy -> client: `proxyapi.makeProtoAggregation` / `makeProtoHistogram`;
* JSON persistence of asynchronous searches: `AggBin.toKey` / `fromKey` - reuses `SV.Async` (C19).

A protobuf `Timestamp` is the pair (Seconds, Nanos).  `time.UnixMilli`, `time.Unix`, `Time.UnixMilli`,
`timestamppb.New` / `AsTime` are written out from the standard library's source (truncated `/` `%` on int64).
-/
namespace SV.Agg
open SV.Async (toI64 toU64)

/-- `time.Unix(sec, nsec)`: normalisation of the nanoseconds into [0, 1e9) -/
def unixNorm (sec nsec : Int) : Int × Int :=
  if nsec < 0 ∨ nsec ≥ 1000000000 then
    let n := Int.tdiv nsec 1000000000
    if nsec - n * 1000000000 < 0 then (sec + n - 1, nsec - n * 1000000000 + 1000000000)
    else (sec + n, nsec - n * 1000000000)
  else (sec, nsec)

/-- `timestamppb.New(m.Time())` with `MID.Time() = time.UnixMilli(int64(m))`:
`Unix(msec/1e3, (msec%1e3)*1e6)`, then (Seconds, Nanos) = (t.Unix(), t.Nanosecond()) -/
def midToTs (m : Nat) : Int × Int :=
  unixNorm (Int.tdiv (toI64 m) 1000) (Int.tmod (toI64 m) 1000 * 1000000)

/-- `seq.MID(ts.AsTime().UnixMilli())`: `AsTime = time.Unix(Seconds, Nanos)`, `UnixMilli = sec*1e3 + nsec/1e6`,
conversion to uint64 -/
def tsToMid (ts : Int × Int) : Nat :=
  toU64 ((unixNorm ts.1 ts.2).1 * 1000 + Int.tdiv (unixNorm ts.1 ts.2).2 1000000)

theorem unixNorm_id {sec nsec : Int} (h0 : 0 ≤ nsec) (h1 : nsec < 1000000000) : unixNorm sec nsec = (sec, nsec) := by
  unfold unixNorm
  have : ¬ (nsec < 0 ∨ nsec ≥ 1000000000) := by omega
  simp [this]

theorem tsToMid_norm (sec nsec : Int) (h0 : 0 ≤ nsec) (h1 : nsec < 1000000000) :
    tsToMid (sec, nsec) = toU64 (sec * 1000 + nsec / 1000000) := by
  unfold tsToMid
  simp only [unixNorm_id h0 h1]
  rw [SV.Go.tdiv_nonneg _ h0]

/-- for MIDs below 2^63 the timestamp is the plain (m / 1000, (m % 1000) * 10^6) -/
theorem midToTs_small (m : Nat) (h : m < 9223372036854775808) :
    midToTs m = (((m / 1000 : Nat) : Int), (((m % 1000) * 1000000 : Nat) : Int)) := by
  unfold midToTs toI64
  simp only [h, if_true]
  rw [SV.Go.tdiv_nonneg _ (Int.natCast_nonneg m), SV.Go.tmod_nonneg _ (Int.natCast_nonneg m)]
  rw [unixNorm_id (by omega) (by omega)]
  simp only [Prod.mk.injEq]
  constructor <;> omega

/-- **timestamp round trip**: every MID of the uint64 range survives `MID -> Timestamp -> MID` (sub-second
MIDs, MID 0, and MIDs >= 2^63 that `int64(m)` turns negative: they become pre-1970 timestamps and come back) -/
theorem ts_roundtrip (m : Nat) (hm : m < 18446744073709551616) : tsToMid (midToTs m) = m := by
  by_cases h : m < 9223372036854775808
  · rw [midToTs_small m h, tsToMid_norm _ _ (by omega) (by omega)]
    unfold toU64
    omega
  · unfold midToTs toI64
    simp only [h, if_false]
    -- x = int64(m) is negative: truncated quotient q and remainder r with x = 1000 q + r, -1000 < r <= 0
    generalize hx : (m : Int) - 18446744073709551616 = x
    have hxneg : x < 0 := by omega
    have hxlo : -9223372036854775808 ≤ x := by omega
    have hq : Int.tdiv x 1000 = -((-x) / 1000) := by
      have := Int.neg_tdiv (-x) 1000
      rw [Int.neg_neg] at this
      rw [this, SV.Go.tdiv_nonneg _ (by omega)]
    have hr : Int.tmod x 1000 = -((-x) % 1000) := by
      have := Int.neg_tmod (-x) 1000
      rw [Int.neg_neg] at this
      rw [this, SV.Go.tmod_nonneg _ (by omega)]
    rw [hq, hr]
    generalize hqd : -((-x) / 1000) = q
    generalize hrd : -((-x) % 1000) = r
    have hqr : 1000 * q + r = x := by omega
    have hr1 : r ≤ 0 := by omega
    have hr2 : -1000 < r := by omega
    by_cases hr0 : r = 0
    · subst hr0
      simp only [Int.zero_mul]
      rw [unixNorm_id (by omega) (by omega), tsToMid_norm _ _ (by omega) (by omega)]
      unfold toU64
      omega
    · have hn : unixNorm q (r * 1000000) = (q - 1, r * 1000000 + 1000000000) := by
        unfold unixNorm
        have h1 : r * 1000000 < 0 ∨ r * 1000000 ≥ 1000000000 := by omega
        have h2 : Int.tdiv (r * 1000000) 1000000000 = 0 := by
          have := Int.neg_tdiv (-(r * 1000000)) 1000000000
          rw [Int.neg_neg] at this
          rw [this, Int.tdiv_eq_zero_of_lt (by omega) (by omega)]; rfl
        simp only [h1, if_true, h2]
        have h3 : r * 1000000 - 0 * 1000000000 < 0 := by omega
        simp only [h3, if_true]
        simp only [Prod.mk.injEq]; constructor <;> omega
      rw [hn, tsToMid_norm _ _ (by omega) (by omega)]
      unfold toU64
      omega

theorem midToTs_injective {a b : Nat} (ha : a < 18446744073709551616) (hb : b < 18446744073709551616)
    (h : midToTs a = midToTs b) : a = b := by
  rw [← ts_roundtrip a ha, ← ts_roundtrip b hb, h]

/-! ## store -> proxy -/

/-- `storeapi.SearchResponse_Bin` (the histogram message has the container's fields one to one) -/
structure PBBin where
  label : String
  ts : Int × Int
  hist : SC
deriving Repr

/-- the part of `storeapi.SearchResponse_Agg` the proxy reads (`Timeseries`, `NotExists`; the deprecated
`Agg` / `AggHistogram` maps are written but not read by `responseToQPR`) -/
structure PBAgg where
  timeseries : List PBBin
  notExists : Nat
deriving Repr

/-- `buildSearchResponse`, one aggregation -/
def buildAgg (a : AS) : PBAgg :=
  ⟨a.bins.map fun kh => ⟨kh.1.token, midToTs kh.1.mid, kh.2⟩, a.notExists⟩

/-- `responseToQPR`, one aggregation: `to[AggBin{MID(ts.AsTime().UnixMilli()), Label}] = container` per bin -/
def aggToAS (p : PBAgg) : AS :=
  ⟨p.timeseries.foldl (fun bs b => put ⟨tsToMid b.ts, b.label⟩ b.hist bs) [], p.notExists⟩

/-- the store -> proxy hop of one aggregation -/
def hop (a : AS) : AS := aggToAS (buildAgg a)

theorem put_absent (k : Bin) (v : SC) (bs : Bins) (h : k ∉ bs.map (·.1)) : put k v bs = bs ++ [(k, v)] := by
  induction bs with
  | nil => rfl
  | cons x bs ih =>
    obtain ⟨kx, vx⟩ := x
    have h' : k ≠ kx ∧ k ∉ bs.map (·.1) := by simpa using h
    have : ¬ kx = k := fun e => h'.1 e.symm
    simp [put, this, ih h'.2]

/-- writing the entries of a map with distinct keys one by one into another map reproduces it -/
theorem foldl_put_id (l acc : Bins) (h : KeysNodup (acc ++ l)) :
    l.foldl (fun bs kh => put kh.1 kh.2 bs) acc = acc ++ l := by
  induction l generalizing acc with
  | nil => simp
  | cons x l ih =>
    simp only [List.foldl_cons]
    have hx : x.1 ∉ acc.map (·.1) := by
      unfold KeysNodup at h
      simp only [List.map_append, List.map_cons] at h
      have := (List.nodup_append.mp h).2.2
      intro hm
      exact this _ hm _ (by simp) rfl
    rw [put_absent _ _ _ hx, ih]
    · simp
    · simpa using h

/-- **`responseToQPR (buildSearchResponse q) = q`** for the aggregations: every result whose bins have distinct
keys (a Go map) and MIDs below 2^64 comes out of the hop unchanged - same bins in the same order, same containers,
same `NotExists` -/
theorem hop_id (a : AS) (hn : KeysNodup a.bins) (hm : ∀ kh, kh ∈ a.bins → kh.1.mid < 18446744073709551616) : hop a = a := by
  unfold hop aggToAS buildAgg
  simp only [List.foldl_map]
  have e : ∀ (l : Bins), (∀ kh, kh ∈ l → kh.1.mid < 18446744073709551616) → ∀ acc : Bins,
      l.foldl (fun bs kh => put ⟨tsToMid (midToTs kh.1.mid), kh.1.token⟩ kh.2 bs) acc =
      l.foldl (fun bs kh => put kh.1 kh.2 bs) acc := by
    intro l
    induction l with
    | nil => intro _ _; rfl
    | cons x l ih =>
      intro hl acc
      simp only [List.foldl_cons]
      rw [ts_roundtrip _ (hl x (by simp))]
      exact ih (fun kh hkh => hl kh (List.mem_cons_of_mem _ hkh)) _
  rw [e a.bins hm [], foldl_put_id a.bins [] (by simpa using hn)]
  rfl

/-! ## proxy -> client -/

/-- `seqproxyapi.Aggregation_Bucket` -/
structure ApiBucket where
  key : String
  value : Val
  notExists : Nat
  quantiles : List Val
  ts : Option (Int × Int)
deriving DecidableEq, Repr

/-- `makeProtoAggregation`, one bucket: `Ts` only `if item.MID != consts.DummyMID` -/
def toApiBucket (b : Bucket) : ApiBucket :=
  ⟨b.name, b.value, b.notExists, b.quantiles, if b.mid ≠ 0 then some (midToTs b.mid) else none⟩

/-- `makeProtoAggregation`: buckets in the order `Aggregate` sorted them, and `NotExists` -/
def makeProtoAggregation (r : AggResult) : List ApiBucket × Nat := (r.buckets.map toApiBucket, r.notExists)

/-- the public bucket determines the internal one: nothing is lost on the way to the client -/
theorem toApiBucket_injective {a b : Bucket} (ha : a.mid < 18446744073709551616) (hb : b.mid < 18446744073709551616)
    (h : toApiBucket a = toApiBucket b) : a = b := by
  unfold toApiBucket at h
  simp only [ApiBucket.mk.injEq] at h
  obtain ⟨h1, h2, h3, h4, h5⟩ := h
  have hmid : a.mid = b.mid := by
    by_cases ea : a.mid = 0 <;> by_cases eb : b.mid = 0
    · omega
    · simp [ea, eb] at h5
    · simp [ea, eb] at h5
    · simp [ea, eb] at h5
      exact midToTs_injective ha hb h5
  cases a; cases b; simp_all

/-- `seq.MIDToTime(m) = time.Unix(0,0).Add(time.Duration(m) * time.Millisecond)` then `timestamppb.New`:
the Duration is an int64 count of nanoseconds, the multiplication wraps -/
def histTs (m : Nat) : Int × Int :=
  let ns := SV.Go.wrapI64 (toI64 m * 1000000)
  (ns / 1000000000, ns % 1000000000)

/-- `makeProtoHistogram` (bucket order is Go map order: unordered) -/
def makeProtoHistogram (h : Hist) : List (Nat × (Int × Int)) := h.map fun kc => (kc.2, histTs kc.1)

/-- exact domain of the histogram timestamps: below 2^63 / 10^6 ms (year 2262) they are the bucket's MID;
(above, `time.Duration` overflows - not reachable: documents that far in the future are re-timed at ingestion) -/
theorem histTs_eq (m : Nat) (h : m ≤ 9223372036854) : histTs m = midToTs m := by
  rw [midToTs_small m (by omega)]
  unfold histTs toI64
  have : m < 9223372036854775808 := by omega
  simp only [this, if_true]
  rw [SV.Go.wrapI64_id (by unfold SV.Go.I64; omega)]
  simp only [Prod.mk.injEq]
  constructor <;> omega

end SV.Agg

namespace SV.Agg

open SV.Async (toI64 toU64)

/-! ## JSON persistence (asynchronous searches): the bin key `<mid>|<token>` - the codec is C19's `SV.Async` -/

/-- `AggBin.toKey` on this model's bins (token as its code points; `|` = 124 in both views) -/
def binToKey (render : Int → List Nat) (k : Bin) : List Nat :=
  SV.Async.toKey render k.mid (k.token.toList.map Char.toNat)

/-- `AggBin.fromKey` -/
def binFromKey (parse : List Nat → Option Int) (bs : List Nat) : Option Bin :=
  (SV.Async.fromKey parse bs).map fun p => ⟨p.1, String.ofList (p.2.map Char.ofNat)⟩

theorem bin_key_roundtrip (render : Int → List Nat) (parse : List Nat → Option Int) (k : Bin)
    (hmid : k.mid < 18446744073709551616)
    (hparse : parse (render (toI64 k.mid)) = some (toI64 k.mid)) (hbar : 124 ∉ render (toI64 k.mid)) :
    binFromKey parse (binToKey render k) = some k := by
  unfold binFromKey binToKey
  rw [SV.Async.key_roundtrip render parse k.mid _ hmid hparse hbar]
  cases k with
  | mk mid token =>
    simp only [Option.map_some, List.map_map]
    have : (Char.ofNat ∘ Char.toNat) = id := by
      funext c; simp [Function.comp]
    rw [this, List.map_id]
    simp

/-- `MarshalJSON` / `UnmarshalJSON` of one aggregation: keys through the codec, containers and `NotExists` as they are -/
def asToJSON (render : Int → List Nat) (a : AS) : List (List Nat × SC) × Nat :=
  (a.bins.map fun kh => (binToKey render kh.1, kh.2), a.notExists)

def asFromJSON (parse : List Nat → Option Int) (j : List (List Nat × SC) × Nat) : AS :=
  ⟨j.1.foldl (fun bs e => put ((binFromKey parse e.1).getD default) e.2 bs) [], j.2⟩

theorem json_roundtrip (render : Int → List Nat) (parse : List Nat → Option Int) (a : AS) (hn : KeysNodup a.bins)
    (hk : ∀ kh, kh ∈ a.bins → kh.1.mid < 18446744073709551616 ∧
      parse (render (toI64 kh.1.mid)) = some (toI64 kh.1.mid) ∧ 124 ∉ render (toI64 kh.1.mid)) :
    asFromJSON parse (asToJSON render a) = a := by
  unfold asFromJSON asToJSON
  simp only [List.foldl_map]
  have e : ∀ (l : Bins), (∀ kh, kh ∈ l → kh ∈ a.bins) → ∀ acc : Bins,
      l.foldl (fun bs kh => put ((binFromKey parse (binToKey render kh.1)).getD default) kh.2 bs) acc =
      l.foldl (fun bs kh => put kh.1 kh.2 bs) acc := by
    intro l
    induction l with
    | nil => intro _ _; rfl
    | cons x l ih =>
      intro hl acc
      simp only [List.foldl_cons]
      have hx := hk x (hl x (by simp))
      rw [bin_key_roundtrip render parse x.1 hx.1 hx.2.1 hx.2.2]
      exact ih (fun kh hkh => hl kh (List.mem_cons_of_mem _ hkh)) _
  rw [e a.bins (fun _ h => h) [], foldl_put_id a.bins [] (by simpa using hn)]
  rfl

end SV.Agg
