import SeqVerif.Base.Search
/-!
# C03 - token blocks and the token table of a sealed fraction

* `genTokenBlocks` = `DiskBlocksProducer.getTokensBlocksGenerator` (frac/disk_blocks_producer.go), parametric in the block
  size rule (`bsOld n c = n / c` is the code before the fix fb6d41d, `bsNew n c = max 1 (n / c)` the current code) and in
  `consts.RegularBlockSize`;
* `pushBlock`/`writeTokens` = `DiskBlocksWriter.writeTokensBlocks`: packing several token blocks into one physical index
  block, `StartIndex`, `BlockIndex`, table entries;
* `getValByTID` = `token.Table.GetEntryByTID` + `BlockLoader.Load` + `Block.GetValByTID`.
Input: per field (sorted by name) its distinct tokens sorted by value; a token is a list of bytes.
-/
namespace SV.C03

abbrev Tok := List Nat

structure TBlock where
  field : Nat
  isStart : Bool
  totalSize : Nat
  startTID : Nat
  tokens : List Tok
deriving Repr, DecidableEq

def bsOld (n blocksCount : Nat) : Nat := n / blocksCount
def bsNew (n blocksCount : Nat) : Nat := max 1 (n / blocksCount)

/-- `for len(tids) > 0 { ... push ... }` of one field.  A block without tokens makes `push` panic in
`createTokenTableEntry` (`tokens[size-1]`): `.error`.  fuel = len(tids). -/
def tokenFieldLoop (blockSize fld fieldSize : Nat) : Nat → List Tok → Bool → Nat → Except String (List TBlock × Nat)
  | 0, _, _, cur => .ok ([], cur)
  | fuel + 1, tids, first, cur =>
    if tids = [] then .ok ([], cur) else
    let right := min blockSize tids.length
    if right = 0 then .error "index out of range [-1]" else
    match tokenFieldLoop blockSize fld fieldSize fuel (tids.drop right) false (cur + right) with
    | .error e => .error e
    | .ok r => .ok ({ field := fld, isStart := first, totalSize := fieldSize, startTID := cur, tokens := tids.take right } :: r.1, r.2)

def fieldSizeOf (toks : List Tok) : Nat := (toks.map List.length).sum

/-- the loop over the sorted fields; `cur` starts at 1 -/
def genTokenFields (bs : Nat → Nat → Nat) (rbs : Nat) : List (List Tok) → Nat → Nat → Except String (List TBlock)
  | [], _, _ => .ok []
  | toks :: rest, fld, cur =>
    let fieldSize := fieldSizeOf toks
    let blocksCount := fieldSize / rbs + 1
    match tokenFieldLoop (bs toks.length blocksCount) fld fieldSize toks.length toks true cur with
    | .error e => .error e
    | .ok r =>
      match genTokenFields bs rbs rest (fld + 1) r.2 with
      | .error e => .error e
      | .ok more => .ok (r.1 ++ more)

def genTokenBlocks (bs : Nat → Nat → Nat) (rbs : Nat) (fields : List (List Tok)) : Except String (List TBlock) :=
  genTokenFields bs rbs fields 0 1

structure TEntry where
  field : Nat
  startIndex : Nat
  startTID : Nat
  blockIndex : Nat
  valCount : Nat
  minVal : Option Tok -- only set for the first entry of a field (FieldData.MinVal)
  maxVal : Tok
deriving Repr, DecidableEq

/-- state of `writeTokensBlocks`: the block former's buffer, the registry position, the table built so far -/
structure TW where
  bufLen : Nat                 -- len(former.packer.Data)
  buf : List Tok               -- tokens packed into the buffer, in order
  startIndex : Nat
  blockIndex : Nat             -- writer.GetBlockIndex()
  phys : List (List Tok)       -- flushed physical blocks, oldest first
  entries : List TEntry
deriving Repr, DecidableEq

def TW.init (firstBlockIndex : Nat) : TW := ⟨0, [], 0, firstBlockIndex, [], []⟩

/-- `former.FlushForced` -/
def TW.flush (w : TW) : TW :=
  if w.bufLen = 0 then w else { w with bufLen := 0, buf := [], blockIndex := w.blockIndex + 1, phys := w.phys ++ [w.buf] }

/-- bytes added by `DiskTokensBlock.pack` -/
def packedLen (tokens : List Tok) : Nat := (tokens.map (fun t => 4 + t.length)).sum + 4

/-- the `push` closure of `writeTokensBlocks` (the block has at least one token) -/
def pushBlock (rbs : Nat) (w : TW) (b : TBlock) : TW :=
  let w1 : TW := if b.isStart && decide (b.totalSize > rbs) then { w.flush with startIndex := 0 } else w
  let isNewField := !(w1.entries.any (fun e => e.field == b.field))
  let e : TEntry := { field := b.field, startIndex := w1.startIndex, startTID := b.startTID, blockIndex := w1.blockIndex,
                      valCount := b.tokens.length, minVal := if isNewField then some (b.tokens.headD []) else none,
                      maxVal := b.tokens.getLastD [] }
  let w2 : TW := { w1 with entries := w1.entries ++ [e], bufLen := w1.bufLen + packedLen b.tokens, buf := w1.buf ++ b.tokens,
                           startIndex := w1.startIndex + b.tokens.length }
  if w2.bufLen > rbs then { w2.flush with startIndex := 0 } else w2

/-- `writeTokensBlocks`: all pushes, the final `FlushForced` (the empty terminator block is not modelled) -/
def writeTokens (rbs firstBlockIndex : Nat) (blocks : List TBlock) : TW :=
  (blocks.foldl (pushBlock rbs) (TW.init firstBlockIndex)).flush

/-- `Table.GetEntryByTID` (tid = 0 -> nil; not found -> panic = none as well) -/
def entryByTID (entries : List TEntry) (tid : Nat) : Option TEntry :=
  if tid = 0 then none else entries.find? (fun e => decide (e.startTID ≤ tid) && decide (tid < e.startTID + e.valCount))

/-- `sealedTokenIndex.GetValByTID`: entry, physical block `entry.BlockIndex`, value `StartIndex + tid - StartTID` -/
def getValByTID (firstBlockIndex : Nat) (w : TW) (tid : Nat) : Option Tok :=
  match entryByTID w.entries tid with
  | none => none
  | some e =>
    if e.blockIndex < firstBlockIndex then none else
    match w.phys[e.blockIndex - firstBlockIndex]? with
    | none => none
    | some toks => toks[e.startIndex + tid - e.startTID]?

/-- a SEQUENCE of `GetValByTID` calls on one `sealedTokenIndex`: the specification is stateless - every answer is a
function of its TID only, whatever was asked before -/
def getValSeq (firstBlockIndex : Nat) (w : TW) (tids : List Nat) : List (Option Tok) :=
  tids.map (getValByTID firstBlockIndex w)

/-! ## `token.Table.SelectEntries`: entries of a field that can hold tokens starting with `hint` -/

/-- Go's `<` on strings (bytes) -/
def lexLT : List Nat → List Nat → Bool
  | _, [] => false
  | [], _ :: _ => true
  | a :: as, b :: bs => if a < b then true else if b < a then false else lexLT as bs

def lexLE (a b : List Nat) : Bool := !lexLT b a

/-- `cut(s, l)` -/
def cut (s : List Nat) (l : Nat) : List Nat := s.take l

/-- `SelectEntries` on one field: `(l, r)` of `data.Entries[l:r]` (at least one entry) -/
def selectEntries (hint minVal : Tok) (maxVals : List Tok) : Nat × Nat :=
  if hint = [] then (0, maxVals.length) else
  if lexLT hint (cut minVal hint.length) then (0, 0) else
  let r := 1 + searchGo (fun i => lexLT hint (cut (maxVals.getD i []) hint.length)) 0 (maxVals.length - 1)
  let l := searchGo (fun i => lexLE hint (cut (maxVals.getD i []) hint.length)) 0 r
  (l, r)

end SV.C03
