import SeqVerif.Model.BulkProc
/-!
# The metas payload: `marshalAppendMeta` / `frac.MetaData.MarshalBinaryTo` and `UnmarshalBinary`

Layout of one record (all integers little endian): `u32 length` then
`u16 magic 0x3F7C, u16 version 1, u64 MID, u64 RID, u32 Size, u32 #tokens, tokens` with a token =
`u32 len(key), key, u32 len(value), value`.  The records are framed exactly like the documents of the docs
payload, so `decodeDocs` splits the metas payload into records.
-/
namespace SV.Bulk

structure Token where
  key : Bytes
  val : Bytes
  deriving Repr, DecidableEq

structure MetaRec where
  mid : Nat
  rid : Nat
  size : Nat
  tokens : List Token
  deriving Repr, DecidableEq

/-- a meta of the ingestion model as the record that is marshalled -/
def Meta.toRec (m : Meta) : MetaRec := ⟨m.mid, m.rid, m.size, m.tokens.map fun t => ⟨t.1, t.2⟩⟩

def le64 (n : Nat) : Bytes :=
  [n % 256, n / 256 % 256, n / 65536 % 256, n / 16777216 % 256, n / 4294967296 % 256,
    n / 1099511627776 % 256, n / 281474976710656 % 256, n / 72057594037927936 % 256]

def encTok (t : Token) : Bytes := le32 t.key.length ++ t.key ++ (le32 t.val.length ++ t.val)

/-- `MetaData.MarshalBinaryTo` -/
def encMeta (m : MetaRec) : Bytes :=
  [124, 63, 1, 0] ++ le64 m.mid ++ le64 m.rid ++ le32 m.size ++ le32 m.tokens.length ++ m.tokens.flatMap encTok

/-- `marshalAppendMeta`: length prefix, then the record -/
def appendMeta (dst : Bytes) (m : MetaRec) : Bytes := dst ++ le32 (encMeta m).length ++ encMeta m

def encodeMetas (ms : List MetaRec) : Bytes := ms.foldl appendMeta []

def rd32 : Bytes → Option (Nat × Bytes)
  | b0 :: b1 :: b2 :: b3 :: r => some (b0 + 256 * b1 + 65536 * b2 + 16777216 * b3, r)
  | _ => none

def rd64 : Bytes → Option (Nat × Bytes)
  | b0 :: b1 :: b2 :: b3 :: b4 :: b5 :: b6 :: b7 :: r =>
    some (b0 + 256 * b1 + 65536 * b2 + 16777216 * b3 + 4294967296 * b4 + 1099511627776 * b5 +
      281474976710656 * b6 + 72057594037927936 * b7, r)
  | _ => none

def rdBytes (b : Bytes) : Option (Bytes × Bytes) :=
  match rd32 b with
  | some (n, r) => if r.length < n then none else some (r.take n, r.drop n)
  | none => none

/-- `MetaToken.UnmarshalBinary` repeated `n` times -/
def decToks : Nat → Bytes → Option (List Token × Bytes)
  | 0, b => some ([], b)
  | n + 1, b =>
    match rdBytes b with
    | none => none
    | some (k, r) =>
      match rdBytes r with
      | none => none
      | some (v, r') => (decToks n r').map fun p => (⟨k, v⟩ :: p.1, p.2)

/-- `MetaData.UnmarshalBinary` (version 1); trailing bytes after the last token are ignored by the Go code -/
def decMeta : Bytes → Option MetaRec
  | 124 :: 63 :: 1 :: 0 :: b =>
    match rd64 b with
    | none => none
    | some (mid, b) =>
      match rd64 b with
      | none => none
      | some (rid, b) =>
        match rd32 b with
        | none => none
        | some (size, b) =>
          match rd32 b with
          | none => none
          | some (n, b) => (decToks n b).map fun p => ⟨mid, rid, size, p.1⟩
  | _ => none

theorem rd32_le32 (n : Nat) (r : Bytes) (h : n < 4294967296) : rd32 (le32 n ++ r) = some (n, r) := by
  simp only [le32, List.cons_append, List.nil_append, rd32]
  congr 2
  omega

theorem rd64_le64 (n : Nat) (r : Bytes) (h : n < 18446744073709551616) : rd64 (le64 n ++ r) = some (n, r) := by
  simp only [le64, List.cons_append, List.nil_append, rd64]
  congr 2
  omega

theorem rdBytes_enc (x r : Bytes) (h : x.length < 4294967296) : rdBytes (le32 x.length ++ (x ++ r)) = some (x, r) := by
  simp [rdBytes, rd32_le32 _ _ h]

def Token.Ok (t : Token) : Prop := t.key.length < 4294967296 ∧ t.val.length < 4294967296

theorem decToks_enc : ∀ (ts : List Token) (r : Bytes), (∀ t, t ∈ ts → t.Ok) →
    decToks ts.length (ts.flatMap encTok ++ r) = some (ts, r) := by
  intro ts
  induction ts with
  | nil => intro r _; rfl
  | cons t ts ih =>
    intro r h
    have ht := h t (by simp)
    simp only [List.length_cons, List.flatMap_cons, encTok, List.append_assoc, decToks,
      rdBytes_enc _ _ ht.1, rdBytes_enc _ _ ht.2]
    rw [ih r (fun x hx => h x (by simp [hx]))]
    rfl

def MetaRec.Ok (m : MetaRec) : Prop :=
  m.mid < 18446744073709551616 ∧ m.rid < 18446744073709551616 ∧ m.size < 4294967296 ∧
    m.tokens.length < 4294967296 ∧ ∀ t, t ∈ m.tokens → t.Ok

/-- one record round-trips -/
theorem decMeta_encMeta (m : MetaRec) (h : m.Ok) : decMeta (encMeta m) = some m := by
  obtain ⟨h1, h2, h3, h4, h5⟩ := h
  have := decToks_enc m.tokens [] h5
  simp only [List.append_nil] at this
  simp only [encMeta, List.cons_append, List.nil_append, List.append_assoc, decMeta, rd64_le64 _ _ h1,
    rd64_le64 _ _ h2, rd32_le32 _ _ h3, rd32_le32 _ _ h4, this]
  rfl

theorem encodeMetas_eq (ms : List MetaRec) : encodeMetas ms = encodeDocs (ms.map encMeta) := by
  have : ∀ acc, ms.foldl appendMeta acc = (ms.map encMeta).foldl appendDoc acc := by
    induction ms with
    | nil => intro acc; rfl
    | cons m ms ih => intro acc; simp only [List.foldl_cons, List.map_cons, ih]; rfl
  exact this []

/-- **metas payload round trip**: splitting the payload into records and unmarshalling each gives back the
metas, in order -/
theorem decode_encodeMetas (ms : List MetaRec) (h : ∀ m, m ∈ ms → m.Ok)
    (hl : ∀ m, m ∈ ms → (encMeta m).length < 4294967296) :
    (decodeDocs (encodeMetas ms).length (encodeMetas ms)).bind (fun rs => rs.mapM decMeta) = some ms := by
  rw [encodeMetas_eq, decode_encode _ (by
    intro d hd
    obtain ⟨m, hm, rfl⟩ := List.mem_map.mp hd
    exact hl m hm)]
  simp only [Option.bind_some]
  induction ms with
  | nil => rfl
  | cons m ms ih =>
    simp only [List.map_cons, List.mapM_cons, decMeta_encMeta m (h m (by simp)), Option.bind_eq_bind, Option.bind_some,
      ih (fun x hx => h x (by simp [hx])) (fun x hx => hl x (by simp [hx]))]
    rfl

end SV.Bulk
