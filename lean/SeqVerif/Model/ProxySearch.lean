/-!
# C16 search side: `proxy/search/ingestor.go` - `searchShard`, `searchStores`, `Search`, `seq.MergeQPRs`, `paginateIDs`

Everything the environment decides is an argument: per replica the outcome of `client.Search` (`Call`), per tier the
order in which the shard goroutines deliver their answers on `respChan` (the `arrival` lists).
A Go panic is a value (`.panic`).  Core-only.
-/
namespace SV.ProxySearch

abbrev ID := Nat × Nat          -- (MID, RID)
abbrev Src := Nat × Nat         -- (shard index, replica index) of the store that answered

/-- `storeapi.SearchErrorCode` -/
inductive Code | none | wod | tmu | tmf
deriving DecidableEq, Repr

/-- outcome of `client.Search` on one replica -/
inductive Call
  | fail                                                       -- transport error, any other message
  | failWod                                                    -- error whose status message is ErrIngestorQueryWantsOldData
  | failTmu                                                    -- error whose status message is ErrTooManyUniqValues
  | resp (code : Code) (ids : List ID) (total : Nat) (nerr : Nat)
deriving DecidableEq, Repr

/-- what `searchShard` returns -/
inductive ShardRes
  | ok (rep : Nat) (ids : List ID) (total : Nat) (nerr : Nat)  -- replica `rep` answered
  | wod | tmu | tmf                                            -- short-circuit codes
  | failed                                                     -- every replica returned an error (at least one replica)
  | nilResp                                                    -- no replica at all: `(nil, 0, nil)`
deriving DecidableEq, Repr

/-- the replica loop of `searchShard` (ShuffleReplicas = false: index order) -/
def searchShardGo : Nat → Bool → List Call → ShardRes
  | _, anyErr, [] => if anyErr then .failed else .nilResp
  | i, _, c :: rest =>
    match c with
    | .fail => searchShardGo (i + 1) true rest
    | .failWod => .wod
    | .failTmu => .tmu
    | .resp .wod _ _ _ => .wod
    | .resp .tmu _ _ _ => .tmu
    | .resp .tmf _ _ _ => .tmf
    | .resp .none ids t e => .ok i ids t e

def searchShard (calls : List Call) : ShardRes := searchShardGo 0 false calls

/-- `ShuffleReplicas = true`: `idx = util.IdxShuffle(len(hosts))`, the loop asks `hosts[idx[i]]` for i = 0, 1, ... and
    `searchHost` returns the source of the host it asked.  `perm = idx`; the replica index in `.ok` is that of the
    replica actually asked (an index outside the host list would be a Go index panic; `IdxShuffle` never yields one -
    such entries are skipped here). -/
def permuted (perm : List Nat) (calls : List Call) : List (Nat × Call) :=
  perm.filterMap fun r => (calls[r]?).map fun c => (r, c)

def searchShardPGo : Bool → List (Nat × Call) → ShardRes
  | anyErr, [] => if anyErr then .failed else .nilResp
  | _, (r, c) :: rest =>
    match c with
    | .fail => searchShardPGo true rest
    | .failWod => .wod
    | .failTmu => .tmu
    | .resp .wod _ _ _ => .wod
    | .resp .tmu _ _ _ => .tmu
    | .resp .tmf _ _ _ => .tmf
    | .resp .none ids t e => .ok r ids t e

/-- `searchShard` with the replica order `perm` -/
def searchShardP (perm : List Nat) (calls : List Call) : ShardRes := searchShardPGo false (permuted perm calls)

def ShardRes.isOk : ShardRes → Bool
  | .ok .. => true
  | _ => false

structure QPR where
  src : Src
  ids : List ID
  total : Nat
  nerr : Nat
deriving DecidableEq, Repr

inductive ErrKind | wod | tmf | tmu | other
deriving DecidableEq, Repr

/-- what `searchStores` returns: `(nil, err)`, `(qprs, nil | ErrPartialResponse)`, or a panic -/
inductive StoresRes
  | err (k : ErrKind)
  | data (qprs : List QPR) (partialResp : Bool)
  | panic
deriving DecidableEq, Repr

/-- the `for resp := range respChan` loop of `searchStores` followed by its epilogue;
    `nerrs = len(errs)`, `anyTmu` = some collected error wraps ErrTooManyUniqValues -/
def storesLoop : List (Nat × ShardRes) → List QPR → Nat → Bool → StoresRes
  | [], qprs, nerrs, anyTmu =>
    if nerrs > 0 then
      if qprs.isEmpty then .err (if anyTmu then .tmu else .other) else .data qprs true
    else .data qprs false
  | (s, r) :: rest, qprs, nerrs, anyTmu =>
    match r with
    | .wod => .err .wod
    | .tmf => .err .tmf
    | .tmu => storesLoop rest qprs (nerrs + 1) true
    | .failed => storesLoop rest qprs (nerrs + 1) anyTmu
    | .nilResp => .panic                                   -- responseToQPR(nil, ...) dereferences nil
    | .ok rep ids t e => storesLoop rest (qprs ++ [⟨(s, rep), ids, t, e⟩]) nerrs anyTmu

def searchStores (arrival : List (Nat × ShardRes)) : StoresRes := storesLoop arrival [] 0 false

/-! ### seq.MergeQPRs (IDs, total, errors) and paginateIDs -/

/-- `seq.Less` -/
def idLt (a b : ID) : Bool := decide (a.1 < b.1) || (decide (a.1 = b.1) && decide (a.2 < b.2))

/-- `before rev a b`: a is placed strictly before b by the sort (`rev` = `order.IsReverse()` = ascending) -/
def before (rev : Bool) (a b : ID) : Bool := if rev then idLt a b else idLt b a

/-- the sort of `MergeQPRs` is only specified up to the order of equal IDs (`sort.Sort` is unstable); modelled as an
insertion sort by `foldr`.  NOTE: it is NOT stable - `insertS` puts `x` behind the entries equal to it and `foldr`
inserts the earlier elements last, so equal IDs end up in REVERSE input order and `dedup` keeps the entry of the LAST
answer that listed the ID (C17's `SV.Repetitions.mergeQPRs`, a stable `List.mergeSort`, keeps the first; witness
`SV.Consistency.cons_seeds_repetitions_mergeQPRs_ne_proxy_mergeQPRs_source_witness`).  No theorem depends on which
source survives; ID lists and totals of the two models are equal on all inputs
(`cons_seeds_repetitions_mergeQPRs_ids_eq_proxy_mergeQPRs`, `..._total_eq_proxy_mergeQPRs`, Consistency/SeedsD.lean). -/
def insertS (rev : Bool) (x : ID × Src) : List (ID × Src) → List (ID × Src)
  | [] => [x]
  | y :: ys => if before rev x.1 y.1 then x :: y :: ys else y :: insertS rev x ys

def sortS (rev : Bool) (xs : List (ID × Src)) : List (ID × Src) := xs.foldr (insertS rev) []

/-- `removeRepetitionsAdvanced`: of each run of equal IDs the first entry survives -/
def dedupGo (last : ID) : List (ID × Src) → List (ID × Src)
  | [] => []
  | y :: ys => if y.1 = last then dedupGo last ys else y :: dedupGo y.1 ys

def dedup : List (ID × Src) → List (ID × Src)
  | [] => []
  | x :: xs => x :: dedupGo x.1 xs

def tagged (q : QPR) : List (ID × Src) := q.ids.map fun i => (i, q.src)

def allTagged (qprs : List QPR) : List (ID × Src) := qprs.flatMap tagged

structure Merged where
  ids : List (ID × Src)
  total : Nat
  nerr : Nat
deriving DecidableEq, Repr

/-- `if dst.Total > 0 { dst.Total -= repetitionsCount }` on uint64 (wraps when more repetitions than total) -/
def subTotal (total reps : Nat) : Nat :=
  if total > 0 then (if reps ≤ total then total - reps else total + 18446744073709551616 - reps) else total

def mergeQPRs (rev : Bool) (limit : Nat) (qprs : List QPR) : Merged :=
  let sorted := sortS rev (allTagged qprs)
  let dd := dedup sorted
  let reps := sorted.length - dd.length
  let tot := (qprs.map (·.total)).sum
  { ids := dd.take limit
    total := subTotal tot reps
    nerr := (qprs.map (·.nerr)).sum }

def paginate (ids : List (ID × Src)) (offset size : Nat) : List (ID × Src) := (ids.drop offset).take size

/-! ### Ingestor.Search (up to the fetch) -/

inductive Outcome
  | err (k : ErrKind)
  | panic
  | ok (ids : List (ID × Src)) (total : Nat) (nerr : Nat) (partialResp : Bool) (cold : Bool)
deriving DecidableEq, Repr

/-- `sr.Offset + sr.Size` is an `int` addition (both operands were checked non-negative): when the mathematical sum
    reaches 2^63 the Go sum is negative, and `dst.IDs = ids[:min(len(ids), limit)]` in `MergeQPRs` panics
    ("slice bounds out of range") - whatever the shards answered.  (Offsets / sizes are Go ints, i.e. below 2^63.) -/
def limitWraps (offset size : Nat) : Bool := decide (9223372036854775808 ≤ offset + size)

def finish (r : StoresRes) (cold : Bool) (offset size : Nat) (rev : Bool) : Outcome :=
  match r with
  | .err k => .err k
  | .panic => .panic
  | .data qprs p =>
    if limitWraps offset size then .panic
    else
      let m := mergeQPRs rev (offset + size) qprs
      .ok (paginate m.ids offset size) m.total m.nerr p cold

/-- `Search`: hot tier first; on ErrIngestorQueryWantsOldData the read stores (if any) are asked instead.
    `hot` / `cold` are the shard answers of the tier in arrival order (`cold = []` iff no read shards). -/
def search (hot cold : List (Nat × ShardRes)) (offset size : Nat) (rev : Bool) : Outcome :=
  match searchStores hot with
  | .err .wod =>
    if cold.isEmpty then .err .wod
    else finish (searchStores cold) true offset size rev
  | r => finish r false offset size rev

/-- `HotReadStores` replace `HotStores` when configured -/
def pickHot (nHotRead : Nat) : Bool := decide (nHotRead > 0)

/-- shard answers tagged with the shard index -/
def indexed {α : Type} : Nat → List α → List (Nat × α)
  | _, [] => []
  | i, x :: xs => (i, x) :: indexed (i + 1) xs

end SV.ProxySearch
