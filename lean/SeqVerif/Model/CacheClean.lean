import SeqVerif.Model.CacheSeq
/-!
# C18 - `Cleaner.Cleanup` (markStale + bucket visits), `CleanEmptyGenerations`, and the sequential theorems
-/
namespace SV.Cache

/-! ## markStale -/

structure MarkSpec (gsize : Nat → Int) (target : Int) (stale : List Bool) (gl : List Nat) (bytes : Int)
    (r : MarkRes) where
  popped : List Nat
  split : gl = popped ++ r.glist
  stale_eq : ∀ g, mget false r.stale g = (mget false stale g || decide (g ∈ popped))
  bytes_eq : r.bytes = bytes + (popped.map gsize).sum
  short : r.bytes < target → r.glist.length ≤ 1
  nonempty : gl ≠ [] → r.glist ≠ []

theorem markLoop_spec (gsize : Nat → Int) (target : Int) (stale : List Bool) (gl : List Nat) (bytes : Int) (n : Nat) :
    Nonempty (MarkSpec gsize target stale gl bytes (markLoop gsize target stale gl bytes n)) := by
  induction stale, gl, bytes, n using markLoop.induct gsize target with
  | case1 stale g g2 rest bytes n hlt ih =>
    obtain ⟨sp⟩ := ih
    rw [markLoop, if_pos hlt]
    refine ⟨⟨g :: sp.popped, congrArg (List.cons g) sp.split, ?_, ?_, sp.short, fun _ => sp.nonempty (by simp)⟩⟩
    · intro x
      rw [sp.stale_eq, mget_mset]
      by_cases hx : x = g
      · subst hx; simp
      · simp [hx]
    · rw [sp.bytes_eq]; simp only [List.map_cons, List.sum_cons]; omega
  | case2 stale g g2 rest bytes n hlt =>
    rw [markLoop, if_neg hlt]
    exact ⟨⟨[], rfl, by simp, by simp, fun h => absurd h hlt, fun _ => by simp⟩⟩
  | case3 stale l bytes n hl =>
    have : markLoop gsize target stale l bytes n = ⟨stale, l, bytes, n⟩ := by
      unfold markLoop
      split
      · rename_i g g2 rest; exact absurd rfl (hl g g2 rest)
      · rfl
    rw [this]
    refine ⟨⟨[], rfl, by simp, by simp, fun _ => ?_, fun h => h⟩⟩
    match l, hl with
    | [], _ => simp
    | [_], _ => simp
    | g :: g2 :: rest, hl => exact absurd rfl (hl g g2 rest)

/-- what the sequential proofs need to know about the state after `markStale` -/
structure MarkPost (cfg : Cfg) (s s1 : St) : Prop where
  heap : s1.heap = s.heap
  gsizeL : s1.gsizeL = s.gsizeL
  buckets : s1.buckets = s.buckets
  pcL : s1.pcL = s.pcL
  relL : s1.relL = s.relL
  ncaches : s1.ncaches = s.ncaches
  todo : s1.todo = s.todo
  managed : Managed s1
  nodup : s1.glist.Nodup
  listed : ∀ g ∈ s1.glist, g < s1.ngens ∧ s1.stale g = false
  last : s1.glist.getLast? = some s1.lastGen
  old : ∀ g ∈ s.glist, g ∈ s1.glist ∨ s1.stale g = true
  new : ∀ g ∈ s1.glist, g ∈ s.glist ∨ s.ngens ≤ g
  fresh : ∀ g, s1.ngens ≤ g → s1.stale g = false
  ngens : s.ngens ≤ s1.ngens

theorem getLast?_append_right {α : Type} (a b : List α) (hb : b ≠ []) : (a ++ b).getLast? = b.getLast? := by
  induction a with
  | nil => rfl
  | cons x xs ih =>
    match hxs : xs ++ b with
    | [] => simp [hb] at hxs
    | y :: ys => rw [List.cons_append, hxs, List.getLast?_cons_cons, ← hxs, ih]

theorem markStale_post {cfg : Cfg} {s : St} (q : QInv cfg s) (target : Int) : MarkPost cfg s (markStale s target).1 := by
  obtain ⟨sp⟩ := markLoop_spec s.gsize target s.staleL s.glist 0 0
  have hne : s.glist ≠ [] := List.ne_nil_of_mem q.lastGen_mem
  have hrne := sp.nonempty hne
  have hsub : ∀ g ∈ (markLoop s.gsize target s.staleL s.glist 0 0).glist, g ∈ s.glist := by
    intro g hg; rw [sp.split]; exact List.mem_append_right _ hg
  have hnd : (sp.popped ++ (markLoop s.gsize target s.staleL s.glist 0 0).glist).Nodup := sp.split ▸ q.gl.1
  have hnd' := List.nodup_append.mp hnd
  have hstale : ∀ g, mget false (markLoop s.gsize target s.staleL s.glist 0 0).stale g = (s.stale g || decide (g ∈ sp.popped)) :=
    sp.stale_eq
  unfold markStale
  simp only
  split
  · -- the whole list did not suffice: rotate, then drop the former last generation as well
    rename_i hlt
    have hlen := sp.short hlt
    obtain ⟨g0, hg0⟩ : ∃ g0, (markLoop s.gsize target s.staleL s.glist 0 0).glist = [g0] := by
      match hm : (markLoop s.gsize target s.staleL s.glist 0 0).glist, hrne, hlen with
      | [g0], _, _ => exact ⟨g0, rfl⟩
      | [], h, _ => exact absurd rfl h
      | _ :: _ :: _, _, h => simp at h
    simp only [doRotate, hg0, List.cons_append, List.nil_append]
    have hg0mem : g0 ∈ s.glist := hsub g0 (by rw [hg0]; simp)
    have hg0lt := (q.gl.2.1 g0 hg0mem).1
    have hall : ∀ g ∈ s.glist, g ∈ sp.popped ∨ g = g0 := by
      intro g hg; rw [sp.split, hg0] at hg
      rcases List.mem_append.mp hg with h | h
      · exact Or.inl h
      · exact Or.inr (by simpa using h)
    refine ⟨rfl, rfl, rfl, rfl, rfl, rfl, rfl, ?_, by simp, ?_, by simp, ?_, ?_, ?_, by show s.ngens ≤ s.ngens + 1; omega⟩
    · have := managed_doRotate (s := { s with staleL := (markLoop s.gsize target s.staleL s.glist 0 0).stale,
                                              glist := (markLoop s.gsize target s.staleL s.glist 0 0).glist }) q.managed
      exact this
    · intro g hg
      simp only [List.mem_singleton] at hg; subst hg
      refine ⟨by show s.ngens < s.ngens + 1; omega, ?_⟩
      show mget false (mset false _ g0 true) s.ngens = false
      rw [mget_mset, if_neg (by omega), hstale, (q.fresh _ (Nat.le_refl _)).2]
      have : s.ngens ∉ sp.popped := fun h => by
        have := (q.gl.2.1 _ (by rw [sp.split]; exact List.mem_append_left _ h)).1; omega
      simp [this]
    · intro g hg
      right
      show mget false (mset false _ g0 true) g = true
      rw [mget_mset]
      rcases hall g hg with h | h
      · split
        · rfl
        · rw [hstale]; simp [h]
      · simp [h]
    · intro g hg
      simp only [List.mem_singleton] at hg; subst hg
      right; exact Nat.le_refl _
    · intro g hg
      have hg' : s.ngens + 1 ≤ g := hg
      show mget false (mset false _ g0 true) g = false
      rw [mget_mset, if_neg (by omega), hstale, (q.fresh g (by omega)).2]
      have : g ∉ sp.popped := fun h => by
        have := (q.gl.2.1 _ (by rw [sp.split]; exact List.mem_append_left _ h)).1; omega
      simp [this]
  · refine ⟨rfl, rfl, rfl, rfl, rfl, rfl, rfl, q.managed, hnd'.2.1, ?_, ?_, ?_, fun g hg => Or.inl (hsub g hg), ?_, Nat.le_refl _⟩
    · intro g hg
      refine ⟨(q.gl.2.1 g (hsub g hg)).1, ?_⟩
      show mget false _ g = false
      rw [hstale, (q.gl.2.1 g (hsub g hg)).2]
      have : g ∉ sp.popped := fun h => hnd'.2.2 g h g hg rfl
      simp [this]
    · show (markLoop s.gsize target s.staleL s.glist 0 0).glist.getLast? = some s.lastGen
      rw [← q.gl.2.2]
      conv => rhs; rw [sp.split]
      exact (getLast?_append_right _ _ hrne).symm
    · intro g hg
      rw [sp.split] at hg
      rcases List.mem_append.mp hg with h | h
      · right
        show mget false _ g = true
        rw [hstale]; simp [h]
      · exact Or.inl h
    · intro g hg
      have hg' : s.ngens ≤ g := hg
      show mget false _ g = false
      rw [hstale, (q.fresh g hg').2]
      have : g ∉ sp.popped := fun h => by
        have := (q.gl.2.1 _ (by rw [sp.split]; exact List.mem_append_left _ h)).1; omega
      simp [this]

/-- after `markStale` with a target of at least `total - limit` the listed generations sum to at most the limit -/
theorem markStale_size {cfg : Cfg} {s : St} (q : QInv cfg s) (target : Int) (ht : getSize s - cfg.sizeLimit ≤ target) :
    getSize (markStale s target).1 ≤ cfg.sizeLimit := by
  obtain ⟨sp⟩ := markLoop_spec s.gsize target s.staleL s.glist 0 0
  have hne : s.glist ≠ [] := List.ne_nil_of_mem q.lastGen_mem
  have hrne := sp.nonempty hne
  have htotal : getSize s = (sp.popped.map s.gsize).sum +
      ((markLoop s.gsize target s.staleL s.glist 0 0).glist.map s.gsize).sum := by
    unfold getSize; conv => lhs; rw [sp.split]
    rw [List.map_append, List.sum_append]
  have hb := sp.bytes_eq
  unfold markStale
  simp only
  split
  · rename_i hlt
    have hlen := sp.short hlt
    obtain ⟨g0, hg0⟩ : ∃ g0, (markLoop s.gsize target s.staleL s.glist 0 0).glist = [g0] := by
      match hm : (markLoop s.gsize target s.staleL s.glist 0 0).glist, hrne, hlen with
      | [g0], _, _ => exact ⟨g0, rfl⟩
      | [], h, _ => exact absurd rfl h
      | _ :: _ :: _, _, h => simp at h
    simp only [doRotate, hg0, List.cons_append, List.nil_append]
    show ([s.ngens].map s.gsize).sum ≤ _
    simp only [List.map_cons, List.map_nil, List.sum_cons, List.sum_nil, (q.fresh _ (Nat.le_refl _)).1]
    omega
  · rename_i hge
    show ((markLoop s.gsize target s.staleL s.glist 0 0).glist.map s.gsize).sum ≤ _
    omega

/-! ## the bucket visits -/

/-- what one pass over the buckets `bs` does to an entry -/
def evictAll (stale : Nat → Bool) (bs : List Nat) (e : Entry) : Entry :=
  if decide (e.cache ∈ bs) && (e.inMap && stale e.gen) then { e with inMap := false, deleted := true } else e

theorem cleanupRest_eq (s : St) (bs : List Nat) :
    (cleanupRest s bs).1 = { s with heap := s.heap.map (evictAll s.stale bs) } := by
  induction bs generalizing s with
  | nil =>
    have : evictAll s.stale [] = id := by funext e; simp [evictAll]
    simp [cleanupRest, this]
  | cons b bs ih =>
    simp only [cleanupRest]
    rw [ih]
    simp only [cacheCleanup, List.map_map]
    congr 1
    apply List.map_congr_left
    intro e _
    simp only [Function.comp, evictAll, evict, St.stale, List.mem_cons]
    by_cases h1 : e.cache = b
    · by_cases h2 : (e.inMap && mget false s.staleL e.gen) = true
      · simp [h1, h2]
      · simp only [Bool.not_eq_true] at h2
        simp [h1, h2]
    · simp [h1]

theorem qinv_cleanup {cfg : Cfg} {s s' : St} {o : List Out} (q : QInv cfg s)
    (hs : seqOp cfg s .cleanup = some (s', o)) : QInv cfg s' ∧ (0 < cfg.sizeLimit → getSize s' ≤ cfg.sizeLimit) := by
  by_cases hno : cfg.sizeLimit = 0 ∨ getSize s ≤ cfg.sizeLimit
  · have hcb : cleanupBegin cfg s = (s, .cleanup false 0 0) := by unfold cleanupBegin; rw [if_pos hno]
    simp only [seqOp, hcb, Option.some.injEq, Prod.mk.injEq] at hs
    rw [← hs.1]
    refine ⟨q, fun hpos => ?_⟩
    rcases hno with h | h
    · omega
    · exact h
  · have hcb : cleanupBegin cfg s = ({ (markStale s (sizeToClean cfg (getSize s))).1 with todo := mkTodo s.buckets },
        .cleanup true (sizeToClean cfg (getSize s)) (markStale s (sizeToClean cfg (getSize s))).2) := by
      unfold cleanupBegin; rw [if_neg hno]
    simp only [seqOp, hcb, Option.some.injEq, Prod.mk.injEq] at hs
    rw [← hs.1, cleanupRest_eq]
    have mp := markStale_post q (sizeToClean cfg (getSize s))
    have hsz := markStale_size q (sizeToClean cfg (getSize s)) (by unfold sizeToClean; omega)
    generalize (markStale s (sizeToClean cfg (getSize s))).1 = s1 at mp hsz ⊢
    have hst0 : ({ s1 with todo := none } : St).stale = s1.stale := rfl
    rw [hst0]
    have hstale : ∀ g, s1.stale g = s1.stale g := fun _ => rfl
    have hgs : ∀ g, s1.gsize g = s.gsize g := fun g => by simp [St.gsize, mp.gsizeL]
    have hrel : ∀ c, s1.released c = s.released c := fun c => by simp [St.released, mp.relL]
    constructor
    · refine ⟨⟨fun t => ?_, rfl⟩, ?_, ⟨mp.nodup, mp.listed, mp.last⟩, ?_, ?_, mp.managed⟩
      · have := q.quiet.1 t; simp only [St.pc, mp.pcL] at this ⊢; exact this
      · intro a ha hain
        simp only [List.mem_map] at ha
        obtain ⟨e, he, rfl⟩ := ha
        rw [mp.heap] at he
        unfold evictAll at hain ⊢
        split at hain
        · simp at hain
        · rename_i hnev
          rw [if_neg hnev]
          have hl := q.live e he hain
          have hb : e.cache ∈ s.buckets := (q.managed e.cache hl.2.2.2.1 hl.2.2.2.2).1
          have hns : s1.stale e.gen = false := by
            cases hst : s1.stale e.gen
            · rfl
            · exfalso; apply hnev; simp [hb, hain, hstale, hst]
          refine ⟨hl.1, hl.2.1, ?_, ?_, ?_⟩
          · rcases mp.old e.gen hl.2.2.1 with h | h
            · exact h
            · rw [hns] at h; cases h
          · show e.cache < s1.ncaches; rw [mp.ncaches]; exact hl.2.2.2.1
          · show s1.released e.cache = false; rw [hrel]; exact hl.2.2.2.2
      · intro g hg
        show s1.gsize g = genLive (s1.heap.map _) g
        have hgns : s1.stale g = false := (mp.listed g hg).2
        rw [mp.heap, genLive_map, hgs]
        · rcases mp.new g hg with h | h
          · exact q.acc g h
          · rw [(q.fresh g h).1, genLive_fresh q h]
        · intro e _
          unfold evictAll
          split
          · rename_i hev
            simp only [Bool.and_eq_true, decide_eq_true_eq] at hev
            have : e.gen ≠ g := fun h => by
              have h2 := hev.2.2; rw [hstale, h, hgns] at h2; cases h2
            simp [contrib, this]
          · rfl
      · intro g hg
        have hg' : s1.ngens ≤ g := hg
        refine ⟨?_, mp.fresh g hg'⟩
        show s1.gsize g = 0
        rw [hgs]; exact (q.fresh g (by have := mp.ngens; omega)).1
    · intro _
      show ((s1.glist.map s1.gsize)).sum ≤ _
      exact hsz

/-! ## CleanEmptyGenerations -/

theorem eq_dropLast_append {α : Type} (l : List α) (a : α) (h : l.getLast? = some a) : l = l.dropLast ++ [a] := by
  have hne : l ≠ [] := by intro h0; subst h0; simp at h
  rw [List.getLast?_eq_some_getLast hne] at h
  simp only [Option.some.injEq] at h
  rw [← h]
  exact (List.dropLast_concat_getLast hne).symm

theorem qinv_cleanEmpty {cfg : Cfg} {s s' : St} {o : List Out} (q : QInv cfg s)
    (hs : seqOp cfg s .cleanEmpty = some (s', o)) : QInv cfg s' := by
  simp only [seqOp, cleanEmpty, q.gl.2.2, Option.map_some, Option.some.injEq, Prod.mk.injEq] at hs
  rw [← hs.1]
  have hsplit : s.glist = s.glist.dropLast ++ [s.lastGen] := eq_dropLast_append _ _ q.gl.2.2
  have hsub : (s.glist.dropLast.filter (fun g => s.gsize g ≠ 0) ++ [s.lastGen]).Sublist s.glist := by
    conv => rhs; rw [hsplit]
    exact List.Sublist.append List.filter_sublist (List.Sublist.refl _)
  refine ⟨q.quiet, ?_, ⟨q.gl.1.sublist hsub, fun g hg => q.gl.2.1 g (hsub.subset hg), by simp⟩,
    fun g hg => q.acc g (hsub.subset hg), q.fresh, q.managed⟩
  intro e he hin
  have hl := q.live e he hin
  refine ⟨hl.1, hl.2.1, ?_, hl.2.2.2⟩
  show e.gen ∈ s.glist.dropLast.filter (fun g => s.gsize g ≠ 0) ++ [s.lastGen]
  have hmem := hl.2.2.1
  rw [hsplit] at hmem
  rcases List.mem_append.mp hmem with h | h
  · apply List.mem_append_left
    rw [List.mem_filter]
    refine ⟨h, ?_⟩
    have h1 := le_genLive s.heap he hin
    rw [← q.acc e.gen hl.2.2.1] at h1
    have h2 := hl.2.1
    simp only [ne_eq, decide_not, Bool.not_eq_eq_eq_not, Bool.not_true, decide_eq_false_iff_not]
    omega
  · exact List.mem_append_right _ h

/-! ## all sequential operations -/

theorem seqOp_qinv {cfg : Cfg} (hes : 0 < cfg.entrySize) {s s' : St} {op : Op} {o : List Out} (q : QInv cfg s)
    (hs : seqOp cfg s op = some (s', o)) : QInv cfg s' := by
  cases op with
  | newCache =>
    simp only [seqOp, Option.some.injEq, Prod.mk.injEq] at hs
    rw [← hs.1]
    have hm : Managed (newCache s) := step_managed cfg q.managed (l := .newCache) (o := .none) rfl
    refine ⟨q.quiet, ?_, q.gl, q.acc, q.fresh, hm⟩
    intro e he hin
    have := q.live e he hin
    refine ⟨this.1, this.2.1, this.2.2.1, by show e.cache < s.ncaches + 1; omega, ?_⟩
    show mget false (mset false s.relL s.ncaches false) e.cache = false
    rw [mget_mset]; split
    · rfl
    · exact this.2.2.2.2
  | get c k oc => exact qinv_get hes q hs
  | release c =>
    simp only [seqOp] at hs
    split at hs
    · rename_i hc
      simp only [Option.some.injEq, Prod.mk.injEq] at hs
      rw [← hs.1]; exact qinv_release q c hc
    · exact absurd hs (by simp)
  | rotate =>
    simp only [seqOp, Option.some.injEq, Prod.mk.injEq] at hs
    rw [← hs.1]
    unfold rotate; split
    · exact q
    · exact qinv_doRotate q
  | cleanup => exact (qinv_cleanup q hs).1
  | cleanEmpty => exact qinv_cleanEmpty q hs
  | releaseBuckets =>
    simp only [seqOp, Option.some.injEq, Prod.mk.injEq] at hs
    rw [← hs.1]
    have hm : Managed { s with buckets := releaseBuckets s.released s.buckets } := by
      have : step cfg s .releaseBuckets = some ({ s with buckets := releaseBuckets s.released s.buckets },
          .count (s.buckets.length - (releaseBuckets s.released s.buckets).length)) := by
        simp [step, q.quiet.2]
      exact step_managed cfg q.managed this
    exact ⟨q.quiet, q.live, q.gl, q.acc, q.fresh, hm⟩

theorem seqReach_qinv {cfg : Cfg} (hes : 0 < cfg.entrySize) {s : St} (h : SeqReach cfg s) : QInv cfg s := by
  induction h with
  | init => exact qinv_init cfg
  | op _ hs ih => exact seqOp_qinv hes ih hs

end SV.Cache
