import SeqVerif.Model.CacheStep
/-!
# C18 - `Cleaner.Cleanup` (markStale + bucket visits), `CleanEmptyGenerations`; `AInv` holds in every reachable state
-/
namespace SV.Cache

/-! ## markStale -/

structure MarkSpec (gsize : Nat → Int) (target : Int) (stale : List Bool) (gl : List Nat) (bytes : Int)
    (r : MarkRes) where
  popped : List Nat
  split : gl = popped ++ r.glist
  stale_eq : ∀ g, mget false r.stale g = (mget false stale g || decide (g ∈ popped))
  bytes_eq : r.bytes = bytes + (popped.map gsize).sum
  short : r.bytes < target → r.glist.length ≤ 1
  nonempty : gl ≠ [] → r.glist ≠ []

theorem markLoop_spec (gsize : Nat → Int) (target : Int) (stale : List Bool) (gl : List Nat) (bytes : Int) (n : Nat) :
    Nonempty (MarkSpec gsize target stale gl bytes (markLoop gsize target stale gl bytes n)) := by
  induction stale, gl, bytes, n using markLoop.induct gsize target with
  | case1 stale g g2 rest bytes n hlt ih =>
    obtain ⟨sp⟩ := ih
    rw [markLoop, if_pos hlt]
    refine ⟨⟨g :: sp.popped, congrArg (List.cons g) sp.split, ?_, ?_, sp.short, fun _ => sp.nonempty (by simp)⟩⟩
    · intro x
      rw [sp.stale_eq, mget_mset]
      by_cases hx : x = g
      · subst hx; simp
      · simp [hx]
    · rw [sp.bytes_eq]; simp only [List.map_cons, List.sum_cons]; omega
  | case2 stale g g2 rest bytes n hlt =>
    rw [markLoop, if_neg hlt]
    exact ⟨⟨[], rfl, by simp, by simp, fun h => absurd h hlt, fun _ => by simp⟩⟩
  | case3 stale l bytes n hl =>
    have : markLoop gsize target stale l bytes n = ⟨stale, l, bytes, n⟩ := by
      unfold markLoop
      split
      · rename_i g g2 rest; exact absurd rfl (hl g g2 rest)
      · rfl
    rw [this]
    refine ⟨⟨[], rfl, by simp, by simp, fun _ => ?_, fun h => h⟩⟩
    match l, hl with
    | [], _ => simp
    | [_], _ => simp
    | g :: g2 :: rest, hl => exact absurd rfl (hl g g2 rest)

/-- what the sequential proofs need to know about the state after `markStale` -/
structure MarkPost (cfg : Cfg) (s s1 : St) : Prop where
  heap : s1.heap = s.heap
  gsizeL : s1.gsizeL = s.gsizeL
  buckets : s1.buckets = s.buckets
  pcL : s1.pcL = s.pcL
  relL : s1.relL = s.relL
  ncaches : s1.ncaches = s.ncaches
  todo : s1.todo = s.todo
  managed : Managed s1
  nodup : s1.glist.Nodup
  listed : ∀ g ∈ s1.glist, g < s1.ngens ∧ s1.stale g = false
  last : s1.glist.getLast? = some s1.lastGen
  old : ∀ g ∈ s.glist, g ∈ s1.glist ∨ s1.stale g = true
  new : ∀ g ∈ s1.glist, g ∈ s.glist ∨ s.ngens ≤ g
  fresh : ∀ g, s1.ngens ≤ g → s1.stale g = false
  ngens : s.ngens ≤ s1.ngens

theorem getLast?_append_right {α : Type} (a b : List α) (hb : b ≠ []) : (a ++ b).getLast? = b.getLast? := by
  induction a with
  | nil => rfl
  | cons x xs ih =>
    match hxs : xs ++ b with
    | [] => simp [hb] at hxs
    | y :: ys => rw [List.cons_append, hxs, List.getLast?_cons_cons, ← hxs, ih]

theorem markStale_post {cfg : Cfg} {s : St} (q : AInv cfg s) (target : Int) : MarkPost cfg s (markStale s target).1 := by
  obtain ⟨sp⟩ := markLoop_spec s.gsize target s.staleL s.glist 0 0
  have hne : s.glist ≠ [] := List.ne_nil_of_mem q.lastGen_mem
  have hrne := sp.nonempty hne
  have hsub : ∀ g ∈ (markLoop s.gsize target s.staleL s.glist 0 0).glist, g ∈ s.glist := by
    intro g hg; rw [sp.split]; exact List.mem_append_right _ hg
  have hnd : (sp.popped ++ (markLoop s.gsize target s.staleL s.glist 0 0).glist).Nodup := sp.split ▸ q.gl.1
  have hnd' := List.nodup_append.mp hnd
  have hstale : ∀ g, mget false (markLoop s.gsize target s.staleL s.glist 0 0).stale g = (s.stale g || decide (g ∈ sp.popped)) :=
    sp.stale_eq
  unfold markStale
  simp only
  split
  · -- the whole list did not suffice: rotate, then drop the former last generation as well
    rename_i hlt
    have hlen := sp.short hlt
    obtain ⟨g0, hg0⟩ : ∃ g0, (markLoop s.gsize target s.staleL s.glist 0 0).glist = [g0] := by
      match hm : (markLoop s.gsize target s.staleL s.glist 0 0).glist, hrne, hlen with
      | [g0], _, _ => exact ⟨g0, rfl⟩
      | [], h, _ => exact absurd rfl h
      | _ :: _ :: _, _, h => simp at h
    simp only [doRotate, hg0, List.cons_append, List.nil_append]
    have hg0mem : g0 ∈ s.glist := hsub g0 (by rw [hg0]; simp)
    have hg0lt := (q.gl.2.1 g0 hg0mem).1
    have hall : ∀ g ∈ s.glist, g ∈ sp.popped ∨ g = g0 := by
      intro g hg; rw [sp.split, hg0] at hg
      rcases List.mem_append.mp hg with h | h
      · exact Or.inl h
      · exact Or.inr (by simpa using h)
    refine ⟨rfl, rfl, rfl, rfl, rfl, rfl, rfl, ?_, by simp, ?_, by simp, ?_, ?_, ?_, by show s.ngens ≤ s.ngens + 1; omega⟩
    · have := managed_doRotate (s := { s with staleL := (markLoop s.gsize target s.staleL s.glist 0 0).stale,
                                              glist := (markLoop s.gsize target s.staleL s.glist 0 0).glist }) q.managed
      exact this
    · intro g hg
      simp only [List.mem_singleton] at hg; subst hg
      refine ⟨by show s.ngens < s.ngens + 1; omega, ?_⟩
      show mget false (mset false _ g0 true) s.ngens = false
      rw [mget_mset, if_neg (by omega), hstale, (q.fresh _ (Nat.le_refl _)).2]
      have : s.ngens ∉ sp.popped := fun h => by
        have := (q.gl.2.1 _ (by rw [sp.split]; exact List.mem_append_left _ h)).1; omega
      simp [this]
    · intro g hg
      right
      show mget false (mset false _ g0 true) g = true
      rw [mget_mset]
      rcases hall g hg with h | h
      · split
        · rfl
        · rw [hstale]; simp [h]
      · simp [h]
    · intro g hg
      simp only [List.mem_singleton] at hg; subst hg
      right; exact Nat.le_refl _
    · intro g hg
      have hg' : s.ngens + 1 ≤ g := hg
      show mget false (mset false _ g0 true) g = false
      rw [mget_mset, if_neg (by omega), hstale, (q.fresh g (by omega)).2]
      have : g ∉ sp.popped := fun h => by
        have := (q.gl.2.1 _ (by rw [sp.split]; exact List.mem_append_left _ h)).1; omega
      simp [this]
  · refine ⟨rfl, rfl, rfl, rfl, rfl, rfl, rfl, q.managed, hnd'.2.1, ?_, ?_, ?_, fun g hg => Or.inl (hsub g hg), ?_, Nat.le_refl _⟩
    · intro g hg
      refine ⟨(q.gl.2.1 g (hsub g hg)).1, ?_⟩
      show mget false _ g = false
      rw [hstale, (q.gl.2.1 g (hsub g hg)).2]
      have : g ∉ sp.popped := fun h => hnd'.2.2 g h g hg rfl
      simp [this]
    · show (markLoop s.gsize target s.staleL s.glist 0 0).glist.getLast? = some s.lastGen
      rw [← q.gl.2.2]
      conv => rhs; rw [sp.split]
      exact (getLast?_append_right _ _ hrne).symm
    · intro g hg
      rw [sp.split] at hg
      rcases List.mem_append.mp hg with h | h
      · right
        show mget false _ g = true
        rw [hstale]; simp [h]
      · exact Or.inl h
    · intro g hg
      have hg' : s.ngens ≤ g := hg
      show mget false _ g = false
      rw [hstale, (q.fresh g hg').2]
      have : g ∉ sp.popped := fun h => by
        have := (q.gl.2.1 _ (by rw [sp.split]; exact List.mem_append_left _ h)).1; omega
      simp [this]

/-- after `markStale` with a target of at least `total - limit` the listed generations sum to at most the limit -/
theorem markStale_size {cfg : Cfg} {s : St} (q : AInv cfg s) (target : Int) (ht : getSize s - cfg.sizeLimit ≤ target) :
    getSize (markStale s target).1 ≤ cfg.sizeLimit := by
  obtain ⟨sp⟩ := markLoop_spec s.gsize target s.staleL s.glist 0 0
  have hne : s.glist ≠ [] := List.ne_nil_of_mem q.lastGen_mem
  have hrne := sp.nonempty hne
  have htotal : getSize s = (sp.popped.map s.gsize).sum +
      ((markLoop s.gsize target s.staleL s.glist 0 0).glist.map s.gsize).sum := by
    unfold getSize; conv => lhs; rw [sp.split]
    rw [List.map_append, List.sum_append]
  have hb := sp.bytes_eq
  unfold markStale
  simp only
  split
  · rename_i hlt
    have hlen := sp.short hlt
    obtain ⟨g0, hg0⟩ : ∃ g0, (markLoop s.gsize target s.staleL s.glist 0 0).glist = [g0] := by
      match hm : (markLoop s.gsize target s.staleL s.glist 0 0).glist, hrne, hlen with
      | [g0], _, _ => exact ⟨g0, rfl⟩
      | [], h, _ => exact absurd rfl h
      | _ :: _ :: _, _, h => simp at h
    simp only [doRotate, hg0, List.cons_append, List.nil_append]
    show ([s.ngens].map s.gsize).sum ≤ _
    simp only [List.map_cons, List.map_nil, List.sum_cons, List.sum_nil, (q.fresh _ (Nat.le_refl _)).1]
    omega
  · rename_i hge
    show ((markLoop s.gsize target s.staleL s.glist 0 0).glist.map s.gsize).sum ≤ _
    omega

/-! ## the bucket visits -/

theorem mkTodo_getD (l : List Nat) : (mkTodo l).getD [] = l := by
  unfold mkTodo; cases l <;> simp

theorem ainv_cleanupBegin {cfg : Cfg} {s : St} (a : AInv cfg s) (ht : s.todo = none) (target : Int) :
    AInv cfg { (markStale s target).1 with todo := mkTodo s.buckets } := by
  have mp := markStale_post a target
  generalize (markStale s target).1 = s1 at mp
  have hgs : ∀ g, s1.gsize g = s.gsize g := fun g => by simp [St.gsize, mp.gsizeL]
  have hrel : ∀ c, s1.released c = s.released c := fun c => by simp [St.released, mp.relL]
  refine ⟨⟨mp.nodup, mp.listed, mp.last⟩, ?_, mp.managed, ?_, ?_, ?_, ?_, ?_, ?_⟩
  rotate_right
  · intro e he; rw [mp.heap] at he; show e.cache < s1.ncaches; rw [mp.ncaches]; exact a.cachelt e he
  · intro g hg
    have hg' : s1.ngens ≤ g := hg
    exact ⟨(hgs g).trans (a.fresh g (by have := mp.ngens; omega)).1, mp.fresh g hg'⟩
  · intro g hg
    show s1.gsize g = genLive s1.heap g
    rw [mp.heap, hgs]
    rcases mp.new g hg with h | h
    · exact a.acc g h
    · rw [(a.fresh g h).1, genLive_fresh a h]
  · intro e he; rw [mp.heap] at he; exact a.loading0 e he
  · intro e he hin
    rw [mp.heap] at he
    have := a.inmap e he hin
    refine ⟨by show e.cache < s1.ncaches; rw [mp.ncaches]; exact this.1, (hrel _).trans this.2.1, this.2.2.1, ?_, this.2.2.2.2⟩
    show e.gen < s1.ngens
    have := mp.ngens; omega
  · intro e he; rw [mp.heap] at he; exact a.orphan e he
  · intro e he hin hst
    rw [mp.heap] at he
    have hv := a.valid e he hin hst
    have him := a.inmap e he hin
    refine ⟨hv.1, ?_⟩
    have hgl : e.gen ∈ s.glist := by
      rcases hv.2 with h | h
      · exact h
      · simp [St.pending, ht] at h
    rcases mp.old e.gen hgl with h | h
    · exact Or.inl h
    · refine Or.inr ⟨h, ?_⟩
      show e.cache ∈ (mkTodo s.buckets).getD []
      rw [mkTodo_getD]
      exact (a.managed e.cache him.1 him.2.1).1

theorem ainv_cleanupBucket {cfg : Cfg} {s : St} (a : AInv cfg s) {b : Nat} {rest : List Nat}
    (ht : s.todo = some (b :: rest)) : AInv cfg { (cacheCleanup s b).1 with todo := mkTodo rest } := by
  have hmem : ∀ x ∈ (cacheCleanup s b).1.heap, ∃ e ∈ s.heap,
      x = if evict s.stale b e then { e with inMap := false, deleted := true } else e := by
    intro x hx
    rw [cacheCleanup_heap] at hx
    simp only [evicted, List.mem_map] at hx
    obtain ⟨e, he, rfl⟩ := hx
    exact ⟨e, he, rfl⟩
  refine ⟨a.gl, a.fresh, a.managed, ?_, ?_, ?_, ?_, ?_, ?_⟩
  rotate_right
  · intro x hx
    obtain ⟨e, he, rfl⟩ := hmem x hx
    split <;> exact a.cachelt e he
  · intro g hg
    show s.gsize g = genLive (cacheCleanup s b).1.heap g
    rw [cacheCleanup_heap]
    show s.gsize g = genLive (s.heap.map _) g
    rw [genLive_map, a.acc g hg]
    intro e _
    split
    · rename_i hev
      simp only [evict, Bool.and_eq_true, beq_iff_eq] at hev
      have : e.gen ≠ g := fun h => by
        have h2 := hev.2.2; rw [h, (a.gl.2.1 g hg).2] at h2; cases h2
      simp [contrib, this]
    · rfl
  · intro x hx hst
    obtain ⟨e, he, rfl⟩ := hmem x hx
    split at hst <;> rename_i hev <;> simp only [hev, if_true, if_false] <;> exact a.loading0 e he hst
  · intro x hx hin
    obtain ⟨e, he, rfl⟩ := hmem x hx
    split at hin
    · simp at hin
    · rename_i hev; simp only [hev, if_false]; exact a.inmap e he hin
  · intro x hx hin hst
    obtain ⟨e, he, rfl⟩ := hmem x hx
    split at hin
    · rename_i hev; simp [hev]
    · rename_i hev; simp only [hev, if_false] at hst ⊢; exact a.orphan e he hin hst
  · intro x hx hin hst
    obtain ⟨e, he, rfl⟩ := hmem x hx
    split at hin
    · simp at hin
    · rename_i hev
      simp only [hev, if_false] at hst ⊢
      have hv := a.valid e he hin hst
      refine ⟨hv.1, ?_⟩
      rcases hv.2 with h | h
      · exact Or.inl h
      · refine Or.inr ⟨h.1, ?_⟩
        show e.cache ∈ (mkTodo rest).getD []
        rw [mkTodo_getD]
        have hp : e.cache ∈ b :: rest := by have := h.2; simpa [St.pending, ht] using this
        rcases List.mem_cons.mp hp with hb | hr
        · exfalso; apply hev; simp [evict, hb, hin, h.1]
        · exact hr

/-! ## CleanEmptyGenerations -/

theorem eq_dropLast_append {α : Type} (l : List α) (a : α) (h : l.getLast? = some a) : l = l.dropLast ++ [a] := by
  have hne : l ≠ [] := by intro h0; subst h0; simp at h
  rw [List.getLast?_eq_some_getLast hne] at h
  simp only [Option.some.injEq] at h
  rw [← h]
  exact (List.dropLast_concat_getLast hne).symm

theorem ainv_cleanEmpty {cfg : Cfg} {s s' : St} {o : Out} (a : AInv cfg s) (ht : s.todo = none)
    (hs : cleanEmpty s = some (s', o)) : AInv cfg s' := by
  simp only [cleanEmpty, a.gl.2.2, Option.some.injEq, Prod.mk.injEq] at hs
  rw [← hs.1]
  have hsplit : s.glist = s.glist.dropLast ++ [s.lastGen] := eq_dropLast_append _ _ a.gl.2.2
  have hsub : (s.glist.dropLast.filter (fun g => s.gsize g ≠ 0) ++ [s.lastGen]).Sublist s.glist := by
    conv => rhs; rw [hsplit]
    exact List.Sublist.append List.filter_sublist (List.Sublist.refl _)
  refine ⟨⟨a.gl.1.sublist hsub, fun g hg => a.gl.2.1 g (hsub.subset hg), by simp⟩, a.fresh, a.managed,
    fun g hg => a.acc g (hsub.subset hg), a.loading0, a.inmap, a.orphan, ?_, a.cachelt⟩
  intro e he hin hst
  have hv := a.valid e he hin hst
  refine ⟨hv.1, Or.inl ?_⟩
  show e.gen ∈ s.glist.dropLast.filter (fun g => s.gsize g ≠ 0) ++ [s.lastGen]
  have hgl : e.gen ∈ s.glist := by
    rcases hv.2 with h | h
    · exact h
    · simp [St.pending, ht] at h
  have hmem := hgl
  rw [hsplit] at hmem
  rcases List.mem_append.mp hmem with h | h
  · apply List.mem_append_left
    rw [List.mem_filter]
    refine ⟨h, ?_⟩
    have h1 := le_genLive s.heap he hin
    rw [← a.acc e.gen hgl] at h1
    have h2 := hv.1
    simp only [ne_eq, decide_not, Bool.not_eq_eq_eq_not, Bool.not_true, decide_eq_false_iff_not]
    omega
  · exact List.mem_append_right _ h

/-! ## every step, every reachable state -/

theorem step_ainv (cfg : Cfg) (hes : 0 < cfg.entrySize) {s s' : St} {l : Label} {o : Out} (a : AInv cfg s) (v : VInv s)
    (hs : step cfg s l = some (s', o)) : AInv cfg s' := by
  cases l with
  | newCache =>
    simp only [step, Option.some.injEq, Prod.mk.injEq] at hs
    rw [← hs.1]; exact ainv_newCache a
  | get t c k =>
    simp only [step] at hs
    split at hs
    · rename_i h
      simp only [Option.some.injEq] at hs
      rw [← fst_of_eq hs]; exact ainv_acquire a t c k h.2.1 h.2.2
    · exact absurd hs (by simp)
  | wake t =>
    simp only [step] at hs
    split at hs
    · rename_i c k eid hpc
      split at hs
      · rename_i e he
        split at hs
        · simp only [Option.some.injEq, Prod.mk.injEq] at hs
          rw [← hs.1]; exact a.setPc t _
        · split at hs
          · rename_i hrel
            simp only [Option.some.injEq] at hs
            rw [← fst_of_eq hs]
            -- the cache of a blocked thread exists: its entry was in that cache's map
            obtain ⟨e', he', hc', -⟩ := v.waiting_key t c k eid hpc
            exact ainv_acquire a t c k (hc' ▸ a.cachelt e' (List.mem_of_getElem? he')) hrel
          · exact absurd hs (by simp)
        · exact absurd hs (by simp)
      · exact absurd hs (by simp)
    · exact absurd hs (by simp)
  | finish t oc =>
    simp only [step] at hs
    split at hs
    · rename_i c k eid hpc
      split at hs
      · simp only [Option.some.injEq] at hs
        rw [← fst_of_eq hs]; exact ainv_save hes a v t c k eid _ _ hpc
      · simp only [Option.some.injEq, Prod.mk.injEq] at hs
        rw [← hs.1]; exact ainv_recover a v t c k eid hpc
      · simp only [Option.some.injEq, Prod.mk.injEq] at hs
        rw [← hs.1]; exact ainv_recover a v t c k eid hpc
    · exact absurd hs (by simp)
  | release c =>
    simp only [step] at hs
    split at hs
    · rename_i hc
      simp only [Option.some.injEq, Prod.mk.injEq] at hs
      rw [← hs.1]; exact ainv_release a c hc
    · exact absurd hs (by simp)
  | rotate =>
    simp only [step] at hs
    split at hs
    · simp only [Option.some.injEq] at hs
      rw [← fst_of_eq hs]
      unfold rotate; split
      · exact a
      · exact ainv_doRotate a
    · exact absurd hs (by simp)
  | cleanupBegin =>
    simp only [step] at hs
    split at hs
    · rename_i ht
      simp only [Option.some.injEq] at hs
      rw [← fst_of_eq hs]
      unfold cleanupBegin; split
      · exact a
      · exact ainv_cleanupBegin a ht _
    · exact absurd hs (by simp)
  | cleanupBucket =>
    simp only [step] at hs
    split at hs
    · rename_i b rest ht
      simp only [Option.some.injEq, Prod.mk.injEq] at hs
      rw [← hs.1]; exact ainv_cleanupBucket a ht
    · exact absurd hs (by simp)
  | cleanEmpty =>
    simp only [step] at hs
    split at hs
    · rename_i ht
      exact ainv_cleanEmpty a ht hs
    · exact absurd hs (by simp)
  | releaseBuckets =>
    simp only [step] at hs
    split at hs
    · rename_i ht
      simp only [Option.some.injEq, Prod.mk.injEq] at hs
      rw [← hs.1]; exact ainv_releaseBuckets a ht
    · exact absurd hs (by simp)

/-- the accounting invariant holds in every reachable state, whatever the interleaving -/
theorem reach_ainv (cfg : Cfg) (hes : 0 < cfg.entrySize) {s : St} (h : Reach cfg s) : AInv cfg s := by
  induction h with
  | init => exact ainv_init cfg
  | step hr hs ih => exact step_ainv cfg hes ih (reach_vinv cfg hr) hs

end SV.Cache
