import SeqVerif.Model.CollectorLemmas
/-!
# The index worker's collector is REUSED across bulks (C17)

`appendWorker` creates one `metaDataCollector` and calls `Init(blockIndex)` on it before every bulk.  `Init` asks a
`util.ReallocSolver` per buffer group (`ids`, `tokensBuf`, `tokensIndex`, `tokensValues`) whether to re-allocate
(`make`) or to reuse (`x[:0]`, `clear(map)`).  The solver decides from a 200-sample rolling average in `float32`
arithmetic; here its four decisions are an **oracle** (`InitDec`: `none` = reuse, `some size` = re-allocate with that
size) and the theorems hold for every oracle.  Capacities are not modelled - they only feed the solver.

`RCollector` carries what survives from bulk to bulk and what the per-bulk model (`SV.Collector.Collector`) hides:
the `tokensMap` (token bytes -> index in `TokensValues`) as an association list.  `extractTokenM` is the loop body
of `extractTokens` *with the map* as the code has it; `MapOk` says the map mirrors `TokensValues`
(`tokensMap[TokensValues[i]] = i` and nothing else), under which it coincides with the `List.idxOf` model.

`Init` with `need = true` for `tokensValues` computes `len(tokensMap) * size / len(TokensValues)`: with an empty
`TokensValues` this is an integer division by zero (`initPanics`); every meta the proxy emits carries `_all_`, so the
previous bulk of a worker is never token-free unless it was empty.
Core-only.
-/
namespace SV.Collector

structure InitDec where
  ids : Option Nat
  tokensBuf : Option Nat
  tokensIndex : Option Nat
  tokensValues : Option Nat
deriving DecidableEq, Repr

structure RCollector where
  c : Collector
  tokensMap : List (Bytes × Nat)
deriving DecidableEq, Repr

/-- `newMetaDataCollector()` -/
def RCollector.new : RCollector := ⟨init 0, []⟩

/-- `x = x[:0]` -/
def reset0 {α} (xs : List α) : List α := xs.take 0

/-- `Init` panics (integer divide by zero) when the solver re-allocates `TokensValues` while it is empty -/
def initPanics (s : RCollector) (d : InitDec) : Bool := d.tokensValues.isSome && s.c.tokensValues.isEmpty

/-- `metaDataCollector.Init(blockIndex)`, branch by branch -/
def initM (s : RCollector) (d : InitDec) (blockIndex : Nat) : RCollector :=
  let c0 := s.c
  -- c.nextDocOffset = 0; c.blockIndex = blockIndex; MaxMID = 0; MinMID = MaxUint64; DocsCounter = 0; SizeCounter = 0
  let c1 : Collector := { c0 with nextDocOffset := 0, blockIndex := blockIndex, maxMID := 0, minMID := maxU64,
                                  docsCounter := 0, sizeCounter := 0 }
  -- solvers.ids: IDs, tokensInDocs, Positions
  let c2 : Collector := match d.ids with
    | some _ => { c1 with ids := [], tokensInDocs := [], positions := [] }
    | none => { c1 with ids := reset0 c1.ids, tokensInDocs := reset0 c1.tokensInDocs, positions := reset0 c1.positions }
  -- solvers.tokensBuf: tokensBuf (the bytes behind TokensValues; not a field of the model)
  -- solvers.tokensIndex: lids (scratch of GroupLIDsByToken), tokensIndex
  let c3 : Collector := match d.tokensIndex with
    | some _ => { c2 with tokensIndex := [] }
    | none => { c2 with tokensIndex := reset0 c2.tokensIndex }
  -- solvers.tokensValues: tokensMap, FieldsLengths, TokensValues, tokenLIDsPlaces
  match d.tokensValues with
  | some _ => ⟨{ c3 with fieldsLengths := [], tokensValues := [] }, []⟩                       -- make(map), make, make, make
  | none => ⟨{ c3 with tokensValues := reset0 c3.tokensValues, fieldsLengths := reset0 c3.fieldsLengths },
             s.tokensMap.filter (fun _ => false)⟩                                             -- [:0], [:0], [:0], clear(map)

/-- one iteration of the loop of `extractTokens`, with the map -/
def extractTokenM (s : RCollector) (t : MetaToken) : RCollector :=
  let b := t.bytes
  match s.tokensMap.lookup b with
  | some i => ⟨{ s.c with tokensIndex := s.c.tokensIndex ++ [i] }, s.tokensMap⟩
  | none =>
    ⟨{ s.c with tokensValues := s.c.tokensValues ++ [b], fieldsLengths := s.c.fieldsLengths ++ [t.key.length],
                tokensIndex := s.c.tokensIndex ++ [s.c.tokensValues.length] },
     (b, s.c.tokensValues.length) :: s.tokensMap⟩

def appendMetaM (s : RCollector) (m : Meta) : RCollector :=
  m.tokens.foldl extractTokenM ⟨appendMetaPre s.c m, s.tokensMap⟩

/-- one bulk on the reused collector: `Init`, `AppendMeta` per meta, `Filter` when `appended` is given -/
def bulkM (s : RCollector) (d : InitDec) (blockIndex : Nat) (ms : List Meta) (app : Option (List ID)) : RCollector :=
  let s1 := ms.foldl appendMetaM (initM s d blockIndex)
  match app with
  | none => s1
  | some a => ⟨filter s1.c a, s1.tokensMap⟩

structure Step where
  dec : InitDec
  blockIndex : Nat
  metas : List Meta
  app : Option (List ID)

/-- the collector states after each bulk of a sequence driven through ONE collector -/
def reuseRun (s : RCollector) : List Step → List Collector
  | [] => []
  | st :: rest => (bulkM s st.dec st.blockIndex st.metas st.app).c :: reuseRun (bulkM s st.dec st.blockIndex st.metas st.app) rest

/-- what a fresh collector gives for the same bulk -/
def freshBulk (st : Step) : Collector :=
  match st.app with
  | none => collect st.blockIndex st.metas
  | some a => filter (collect st.blockIndex st.metas) a

/-- the map mirrors `TokensValues` -/
def MapOk (s : RCollector) : Prop :=
  ∀ b, s.tokensMap.lookup b = if s.c.tokensValues.idxOf b < s.c.tokensValues.length then some (s.c.tokensValues.idxOf b) else none

/-! ## theorems -/

/-- **whatever the solvers decide, `Init` hands over a fresh collector**: every modelled field and the map are those
of `newMetaDataCollector()` + `Init` on it -/
theorem initM_fresh (s : RCollector) (d : InitDec) (b : Nat) : initM s d b = ⟨init b, []⟩ := by
  obtain ⟨d1, d2, d3, d4⟩ := d
  cases d1 <;> cases d3 <;> cases d4 <;> simp [initM, init, reset0]

theorem mapOk_fresh (b : Nat) : MapOk ⟨init b, []⟩ := by
  intro t; simp [init]

theorem extractTokenM_eq (s : RCollector) (t : MetaToken) (h : MapOk s) :
    (extractTokenM s t).c = extractToken s.c t ∧ MapOk (extractTokenM s t) := by
  have hb := h t.bytes
  unfold extractTokenM extractToken
  by_cases hi : s.c.tokensValues.idxOf t.bytes < s.c.tokensValues.length
  · simp only [hi, if_true] at hb ⊢
    rw [hb]
    exact ⟨rfl, h⟩
  · simp only [hi, if_false] at hb ⊢
    rw [hb]
    refine ⟨rfl, ?_⟩
    intro b'
    have hnm : t.bytes ∉ s.c.tokensValues := fun hm => hi (List.idxOf_lt_length_iff.mpr hm)
    show List.lookup b' ((t.bytes, s.c.tokensValues.length) :: s.tokensMap) = _
    have hidx : List.idxOf b' (s.c.tokensValues ++ [t.bytes]) =
        (if b' ∈ s.c.tokensValues then List.idxOf b' s.c.tokensValues
         else if b' = t.bytes then s.c.tokensValues.length else s.c.tokensValues.length + 1) := by
      rw [List.idxOf_append]
      by_cases hm : b' ∈ s.c.tokensValues
      · simp [hm]
      · by_cases hbt : b' = t.bytes
        · subst hbt; simp [hm, List.idxOf_cons]
        · have hne2 : (t.bytes == b') = false := by simpa using (fun hh => hbt hh.symm)
          simp [hm, hbt, List.idxOf_cons, hne2, Nat.add_comm]
    by_cases hbt : b' = t.bytes
    · subst hbt
      simp [List.lookup, hidx, hnm]
    · have hne : (b' == t.bytes) = false := by simpa using hbt
      simp only [List.lookup, hne, h b', hidx, hbt, if_false, List.length_append, List.length_cons, List.length_nil]
      by_cases hm : b' ∈ s.c.tokensValues
      · have h1 := List.idxOf_lt_length_iff.mpr hm
        have h2 : List.idxOf b' s.c.tokensValues < s.c.tokensValues.length + 1 := by omega
        simp [hm, h1, h2]
      · have hn : ¬ List.idxOf b' s.c.tokensValues < s.c.tokensValues.length := fun hh => hm (List.idxOf_lt_length_iff.mp hh)
        simp [hm, hn]

theorem foldl_extractTokenM_eq (s : RCollector) (ts : List MetaToken) (h : MapOk s) :
    (ts.foldl extractTokenM s).c = extractTokens s.c ts ∧ MapOk (ts.foldl extractTokenM s) := by
  induction ts generalizing s with
  | nil => exact ⟨rfl, h⟩
  | cons t ts ih =>
    obtain ⟨e1, e2⟩ := extractTokenM_eq s t h
    obtain ⟨i1, i2⟩ := ih (extractTokenM s t) e2
    simp only [List.foldl_cons, extractTokens] at i1 ⊢
    exact ⟨by rw [i1, e1], i2⟩

theorem appendMetaM_eq (s : RCollector) (m : Meta) (h : MapOk s) :
    (appendMetaM s m).c = appendMeta s.c m ∧ MapOk (appendMetaM s m) := by
  have h' : MapOk ⟨appendMetaPre s.c m, s.tokensMap⟩ := h
  exact foldl_extractTokenM_eq ⟨appendMetaPre s.c m, s.tokensMap⟩ m.tokens h'

theorem foldl_appendMetaM_eq (s : RCollector) (ms : List Meta) (h : MapOk s) :
    (ms.foldl appendMetaM s).c = ms.foldl appendMeta s.c := by
  induction ms generalizing s with
  | nil => rfl
  | cons m ms ih =>
    obtain ⟨e1, e2⟩ := appendMetaM_eq s m h
    simp only [List.foldl_cons]
    rw [ih (appendMetaM s m) e2, e1]

/-- one bulk on a reused collector - in any state, after any oracle - is the bulk on a fresh collector -/
theorem bulkM_fresh (s : RCollector) (st : Step) :
    (bulkM s st.dec st.blockIndex st.metas st.app).c = freshBulk st := by
  unfold bulkM freshBulk
  rw [initM_fresh]
  have := foldl_appendMetaM_eq ⟨init st.blockIndex, []⟩ st.metas (mapOk_fresh st.blockIndex)
  cases st.app with
  | none => simpa [collect] using this
  | some a => simp only []; rw [this]; rfl

/-- **reuse is invisible**: driving any sequence of bulks (with or without `Filter`) through one collector, whatever
the solvers decide before each bulk and whatever the earlier bulks left behind, yields for every bulk exactly the
collector a fresh one would hold -/
theorem reuseRun_fresh (s : RCollector) (steps : List Step) : reuseRun s steps = steps.map freshBulk := by
  induction steps generalizing s with
  | nil => rfl
  | cons st rest ih => simp only [reuseRun, List.map_cons, bulkM_fresh, ih]

end SV.Collector
