import SeqVerif.Model.Bulk
/-!
# Line-level description of the bulk reader and the proof that the byte-level model equals it

`render ls` is a body whose lines `ls` (none containing `'\n'`) are each terminated by `'\n'`.
`next` / `frame` describe `ReadDoc` / the whole `ReadDoc` sequence on such a body purely in terms of the lines:
a line *fits* iff its bytes plus the `'\n'` fit the buffer (`c.length + 1 ≤ B`; the `'\r'` of a `"\r\n"`
terminator counts as a byte of the line).
-/
namespace SV.Bulk

def render (ls : List Bytes) : Bytes := ls.flatMap (· ++ [10])

@[simp] theorem render_nil : render [] = [] := rfl
@[simp] theorem render_cons (c : Bytes) (ls : List Bytes) : render (c :: ls) = c ++ 10 :: render ls := by
  simp [render]

theorem render_append (a b : List Bytes) : render (a ++ b) = render a ++ render b := by
  simp [render]

def fits (B : Nat) (c : Bytes) : Bool := decide (c.length + 1 ≤ B)

/-! ## `splitNL`, `readLine` on a terminated line -/

theorem splitNL_line (c r : Bytes) (h : 10 ∉ c) : splitNL (c ++ 10 :: r) = some (c, r) := by
  induction c with
  | nil => simp [splitNL]
  | cons b c ih =>
    have hb : b ≠ 10 := fun e => h (by simp [e])
    have hc : 10 ∉ c := fun e => h (by simp [e])
    simp [splitNL, hb, ih hc]

theorem splitNL_none (s : Bytes) (h : 10 ∉ s) : splitNL s = none := by
  induction s with
  | nil => rfl
  | cons b s ih =>
    have hb : b ≠ 10 := fun e => h (by simp [e])
    have hs : 10 ∉ s := fun e => h (by simp [e])
    simp [splitNL, hb, ih hs]

theorem readLine_fit (E : Env) (c r : Bytes) (h : 10 ∉ c) (hf : c.length + 1 ≤ E.B) :
    readLine E (c ++ 10 :: r) = .line (dropCR c) false r := by
  have hne : c ++ 10 :: r ≠ [] := by simp
  simp [readLine, hne, splitNL_line c r h, hf]

/-- an over-long terminated line: ReadLine returns a prefix and what remains is a strictly shorter
terminated line followed by the same rest -/
theorem readLine_long (E : Env) (c r : Bytes) (h : 10 ∉ c) (hB : 2 ≤ E.B) (hf : ¬ c.length + 1 ≤ E.B) :
    ∃ l c', readLine E (c ++ 10 :: r) = .line l true (c' ++ 10 :: r) ∧ 10 ∉ c' ∧ c'.length < c.length := by
  have hne : c ++ 10 :: r ≠ [] := by simp
  have hlen : E.B ≤ c.length := by omega
  simp only [readLine, hne, if_false, splitNL_line c r h, hf, chunk]
  by_cases hcr : (List.take E.B (c ++ 10 :: r)).getLast? = some 13
  · rw [if_pos hcr]
    refine ⟨List.take (E.B - 1) (c ++ 10 :: r), c.drop (E.B - 1), ?_, ?_, ?_⟩
    · rw [List.drop_append_of_le_length (by omega)]
    · exact fun e => h (List.mem_of_mem_drop e)
    · simp; omega
  · rw [if_neg hcr]
    refine ⟨List.take E.B (c ++ 10 :: r), c.drop E.B, ?_, ?_, ?_⟩
    · rw [List.drop_append_of_le_length hlen]
    · exact fun e => h (List.mem_of_mem_drop e)
    · simp; omega

theorem splitNL_some : ∀ (s c r : Bytes), splitNL s = some (c, r) → s = c ++ 10 :: r := by
  intro s
  induction s with
  | nil => intro c r h; simp [splitNL] at h
  | cons b s ih =>
    intro c r h
    simp only [splitNL] at h
    by_cases hb : b = 10
    · simp [hb] at h; obtain ⟨rfl, rfl⟩ := h; simp [hb]
    · simp only [hb, if_false, Option.map_eq_some_iff] at h
      obtain ⟨⟨c', r'⟩, h1, h2⟩ := h
      simp only [Prod.mk.injEq] at h2
      obtain ⟨rfl, rfl⟩ := h2
      simp [ih c' r' h1]

/-- every successful ReadLine consumes at least one byte (needs a buffer of at least 2 bytes; bufio's
minimum is 16) -/
theorem readLine_rest_lt (E : Env) (hB : 2 ≤ E.B) (s l rest : Bytes) (pre : Bool)
    (h : readLine E s = .line l pre rest) : rest.length < s.length := by
  unfold readLine at h
  by_cases hs : s = []
  · simp [hs] at h; split at h <;> cases h
  · have hpos : 0 < s.length := List.length_pos_iff.mpr hs
    simp only [hs, if_false] at h
    have hchunk : ∀ l pre rest, chunk E.B s = .line l pre rest → rest.length < s.length := by
      intro l pre rest hc
      unfold chunk at hc
      split at hc <;> (injection hc with _ _ h3; subst h3; simp; omega)
    split at h
    · rename_i c r hsp
      split at h
      · injection h with _ _ h3; subst h3
        have := splitNL_some s c r hsp
        subst this; simp; omega
      · exact hchunk _ _ _ h
    · split at h
      · injection h with _ _ h3; subst h3; simpa using hpos
      · exact hchunk _ _ _ h

/-! ## the two inner loops -/

theorem skipLongF_line (E : Env) (hB : 2 ≤ E.B) (r : Bytes) :
    ∀ (f : Nat) (c : Bytes), 10 ∉ c → c.length < f → skipLongF E f (c ++ 10 :: r) = .skipped r := by
  intro f
  induction f with
  | zero => intro c _ h; omega
  | succ f ih =>
    intro c hc hlen
    by_cases hf : c.length + 1 ≤ E.B
    · simp [skipLongF, readLine_fit E c r hc hf]
    · obtain ⟨l, c', h1, h2, h3⟩ := readLine_long E c r hc hB hf
      simp only [skipLongF, h1, if_true]
      exact ih c' h2 (by omega)

theorem skipLong_line (E : Env) (hB : 2 ≤ E.B) (c r : Bytes) (hc : 10 ∉ c) :
    skipLong E (c ++ 10 :: r) = .skipped r :=
  skipLongF_line E hB r _ c hc (by simp; omega)

theorem readDocLine_line (E : Env) (hB : 2 ≤ E.B) (c r : Bytes) (hc : 10 ∉ c) :
    readDocLine E (c ++ 10 :: r) = if fits E.B c then .doc (dropCR c) r else .skipped r := by
  by_cases hf : c.length + 1 ≤ E.B
  · simp [readDocLine, readLine_fit E c r hc hf, fits, hf]
  · obtain ⟨l, c', h1, h2, _⟩ := readLine_long E c r hc hB hf
    simp [readDocLine, h1, fits, hf, skipLong_line E hB c' r h2]

/-- the amount of fuel does not matter once it exceeds the number of remaining bytes -/
theorem skipActionF_fuel (E : Env) (hB : 2 ≤ E.B) (checkN n : Nat) :
    ∀ (f f' : Nat) (s : Bytes), s.length < f → s.length < f' →
      skipActionF E checkN n f s = skipActionF E checkN n f' s := by
  intro f
  induction f with
  | zero => intro f' s h; omega
  | succ f ih =>
    intro f' s h h'
    cases f' with
    | zero => omega
    | succ f' =>
      simp only [skipActionF]
      cases hr : readLine E s with
      | eof => rfl
      | fail => rfl
      | line l pre rest =>
        have := readLine_rest_lt E hB s l rest pre hr
        simp only
        split
        · rfl
        · split
          · exact ih f' rest (by omega) (by omega)
          · rfl

theorem skipAction_line (E : Env) (hB : 2 ≤ E.B) (checkN n : Nat) (c r : Bytes) (hc : 10 ∉ c) :
    skipAction E checkN n (c ++ 10 :: r) =
      if !fits E.B c then .err .actionTooLong
      else if dropCR c = [] then skipAction E checkN n r
      else if unknownAction checkN n (dropCR c) then .err .unknownAction
      else .ok r := by
  unfold skipAction
  by_cases hf : c.length + 1 ≤ E.B
  · rw [skipActionF]
    simp only [readLine_fit E c r hc hf, fits, hf, decide_true, Bool.not_true]
    simp only [Bool.false_eq_true, if_false]
    split
    · apply skipActionF_fuel E hB checkN n
      · simp; omega
      · omega
    · rfl
  · obtain ⟨l, c', h1, _, _⟩ := readLine_long E c r hc hB hf
    simp [skipActionF, h1, fits, hf]

/-! ## an unterminated remainder (no `'\n'`) -/

/-- ReadLine returns an unterminated remainder as one line iff it is shorter than the buffer, or exactly fills
it while the end of the stream is already known -/
def fitsTail (E : Env) (t : Bytes) : Bool := decide (t.length < E.B ∨ (t.length = E.B ∧ E.eager = true))

theorem readLine_tail_fit (E : Env) (t : Bytes) (hn : 10 ∉ t) (hne : t ≠ []) (hf : fitsTail E t = true) :
    readLine E t = .line t false [] := by
  simp only [fitsTail, decide_eq_true_eq] at hf
  simp [readLine, hne, splitNL_none t hn, hf]

theorem readLine_tail_long (E : Env) (t : Bytes) (hn : 10 ∉ t) (hB : 2 ≤ E.B) (hf : fitsTail E t = false) :
    ∃ l t', readLine E t = .line l true t' ∧ 10 ∉ t' ∧ t'.length < t.length := by
  simp only [fitsTail, decide_eq_false_iff_not] at hf
  have hlen : E.B ≤ t.length := by omega
  have hne : t ≠ [] := by intro h; subst h; simp at hlen; omega
  simp only [readLine, hne, if_false, splitNL_none t hn, hf, chunk]
  by_cases hcr : (List.take E.B t).getLast? = some 13
  · rw [if_pos hcr]
    exact ⟨_, _, rfl, fun e => hn (List.mem_of_mem_drop e), by simp; omega⟩
  · rw [if_neg hcr]
    exact ⟨_, _, rfl, fun e => hn (List.mem_of_mem_drop e), by simp; omega⟩

/-- skipping an over-long unterminated remainder either reaches the end of the stream inside the line
(`reading document: EOF`) or consumes everything -/
theorem skipLongF_tail (E : Env) (hB : 2 ≤ E.B) :
    ∀ (f : Nat) (t : Bytes), 10 ∉ t → t.length < f →
      skipLongF E f t = .skipped [] ∨ skipLongF E f t = .err .readDoc := by
  intro f
  induction f with
  | zero => intro t _ h; omega
  | succ f ih =>
    intro t hn hlen
    by_cases hne : t = []
    · subst hne
      right
      cases hc : E.clean <;> simp [skipLongF, readLine, hc]
    · by_cases hf : fitsTail E t = true
      · left; simp [skipLongF, readLine_tail_fit E t hn hne hf]
      · obtain ⟨l, t', h1, h2, h3⟩ := readLine_tail_long E t hn hB (by simpa using hf)
        simp only [skipLongF, h1, if_true]
        exact ih t' h2 (by omega)

/-- does skipping the over-long unterminated remainder `t` succeed (true) or hit the end of the stream (false) -/
def tailSkipOk (E : Env) (t : Bytes) : Bool :=
  match readDocLine E t with
  | .skipped _ => true
  | _ => false

theorem readDocLine_tail_long (E : Env) (hB : 2 ≤ E.B) (t : Bytes) (hn : 10 ∉ t) (hf : fitsTail E t = false) :
    readDocLine E t = if tailSkipOk E t then .skipped [] else .err .readDoc := by
  obtain ⟨l, t', h1, h2, _⟩ := readLine_tail_long E t hn hB hf
  have := skipLongF_tail E hB (t'.length + 1) t' h2 (by omega)
  simp only [tailSkipOk, readDocLine, h1, if_true, skipLong]
  rcases this with h | h <;> simp [h]

/-! ## `ReadDoc` on lines -/

inductive Pos
  | action
  | doc
  deriving Repr, DecidableEq

/-- `doc d rest tail n`: a document, the lines and the unterminated remainder still to be read -/
inductive NextL
  | done
  | err (e : Err)
  | doc (d : Bytes) (rest : List Bytes) (tail : Bytes) (n : Nat)
  deriving Repr, DecidableEq

def NextL.lift : NextL → RD
  | .done => .done
  | .err e => .err e
  | .doc d rest tail n => .doc d (render rest ++ tail) n

def endNext (E : Env) : NextL := if E.clean then .done else .err .scan

/-- `ReadDoc` at an action position when only the unterminated remainder `t` is left -/
def tailAct (E : Env) (checkN n : Nat) (t : Bytes) : NextL :=
  if t = [] then endNext E
  else if fitsTail E t then (if unknownAction checkN n t then .err .unknownAction else .err .readDoc)
  else .err .actionTooLong

/-- `ReadDoc` after an action line when only the unterminated remainder `t` is left: it is the document (not
stripped), or it is over-long and skipped / cut short by the end of the stream -/
def tailDoc (E : Env) (n : Nat) (t : Bytes) : NextL :=
  if t = [] then .err .readDoc
  else if fitsTail E t then .doc t [] [] (n + 1)
  else if tailSkipOk E t then endNext E
  else .err .readDoc

theorem tailAct_not_doc (E : Env) (checkN n : Nat) (t d : Bytes) (r : List Bytes) (t' : Bytes) (n' : Nat) :
    tailAct E checkN n t ≠ .doc d r t' n' := by
  unfold tailAct endNext
  by_cases h1 : t = [] <;> by_cases h2 : fitsTail E t = true <;>
    by_cases h3 : unknownAction checkN n t = true <;> cases hc : E.clean <;> simp [h1, h2, h3]

theorem tailDoc_doc (E : Env) (n : Nat) (t d : Bytes) (r : List Bytes) (t' : Bytes) (n' : Nat)
    (h : tailDoc E n t = .doc d r t' n') : d = t ∧ t ≠ [] ∧ r = [] ∧ t' = [] := by
  unfold tailDoc endNext at h
  by_cases h1 : t = []
  · simp [h1] at h
  · by_cases h2 : fitsTail E t = true
    · simp only [h1, h2, if_false, if_true] at h
      injection h with a b c _
      exact ⟨a.symm, h1, b.symm, c.symm⟩
    · by_cases h3 : tailSkipOk E t = true <;> cases hc : E.clean <;> simp [h1, h2, h3, hc] at h

/-- one `ReadDoc` call described on lines (`tail` = unterminated remainder after the last `'\n'`);
`n` = action lines read so far -/
def next (E : Env) (checkN : Nat) (tail : Bytes) : Pos → Nat → List Bytes → NextL
  | .action, n, [] => tailAct E checkN n tail
  | .action, n, c :: ls =>
    if !fits E.B c then .err .actionTooLong
    else if dropCR c = [] then next E checkN tail .action n ls
    else if unknownAction checkN n (dropCR c) then .err .unknownAction
    else next E checkN tail .doc n ls
  | .doc, n, [] => tailDoc E n tail
  | .doc, n, c :: ls =>
    if !fits E.B c then next E checkN tail .action (n + 1) ls
    else if dropCR c = [] then .err .emptyDoc
    else .doc (dropCR c) ls tail (n + 1)

theorem skipAction_nil (E : Env) (checkN n : Nat) :
    skipAction E checkN n [] = if E.clean then .eof else .err .scan := by
  cases hc : E.clean <;> simp [skipAction, skipActionF, readLine, hc]

theorem readDocLine_nil (E : Env) : readDocLine E [] = .err .readDoc := by
  cases hc : E.clean <;> simp [readDocLine, readLine, hc]

def NoNL (ls : List Bytes) : Prop := ∀ c, c ∈ ls → 10 ∉ c

instance (ls : List Bytes) : Decidable (NoNL ls) := by unfold NoNL; infer_instance

theorem readDocF_nil (E : Env) (checkN f n : Nat) : readDocF E checkN (f + 1) n [] = (endNext E).lift := by
  cases hc : E.clean <;> simp [readDocF, skipAction_nil, endNext, hc, NextL.lift]

theorem skipAction_tail (E : Env) (hB : 2 ≤ E.B) (checkN n : Nat) (t : Bytes) (hn : 10 ∉ t) (hne : t ≠ []) :
    skipAction E checkN n t =
      if fitsTail E t then (if unknownAction checkN n t then .err .unknownAction else .ok [])
      else .err .actionTooLong := by
  unfold skipAction
  rw [skipActionF]
  by_cases hf : fitsTail E t = true
  · simp [readLine_tail_fit E t hn hne hf, hf, hne]
  · obtain ⟨l, t', h1, _, _⟩ := readLine_tail_long E t hn hB (by simpa using hf)
    simp [h1, hf]

theorem readDocF_lines (E : Env) (hB : 2 ≤ E.B) (checkN : Nat) (tail : Bytes) (htail : 10 ∉ tail) :
    ∀ (ls : List Bytes), NoNL ls → ∀ (f n : Nat), (render ls ++ tail).length < f →
      readDocF E checkN f n (render ls ++ tail) = (next E checkN tail .action n ls).lift ∧
      docStep E (readDocF E checkN f) n (render ls ++ tail) = (next E checkN tail .doc n ls).lift := by
  intro ls
  induction ls with
  | nil =>
    intro _ f n hf
    simp only [render_nil, List.nil_append] at hf ⊢
    cases f with
    | zero => omega
    | succ f =>
      by_cases hne : tail = []
      · subst hne
        constructor
        · simp [next, tailAct, readDocF_nil]
        · simp [docStep, readDocLine_nil, next, tailDoc, NextL.lift]
      · constructor
        · simp only [readDocF, skipAction_tail E hB checkN n tail htail hne, next, tailAct, hne, if_false]
          by_cases hf' : fitsTail E tail = true
          · simp only [hf', if_true]
            by_cases hu : unknownAction checkN n tail = true
            · simp [hu, NextL.lift]
            · simp [hu, NextL.lift, docStep, readDocLine_nil]
          · simp [hf', NextL.lift]
        · simp only [docStep, next, tailDoc, hne, if_false]
          by_cases hf' : fitsTail E tail = true
          · simp [readDocLine, readLine_tail_fit E tail htail hne hf', hf', hne, NextL.lift]
          · have hff : fitsTail E tail = false := by simpa using hf'
            rw [readDocLine_tail_long E hB tail htail hff]
            simp only [hff, Bool.false_eq_true, if_false]
            by_cases hs : tailSkipOk E tail = true
            · simp only [hs, if_true]
              exact readDocF_nil E checkN f (n + 1)
            · simp [hs, NextL.lift]
  | cons c ls ih =>
    intro hnl f n hf
    have hc : 10 ∉ c := hnl c (by simp)
    have hls : NoNL ls := fun x hx => hnl x (by simp [hx])
    have ih := ih hls
    simp only [render_cons, List.length_append, List.length_cons, List.append_assoc, List.cons_append] at hf
    constructor
    · cases f with
      | zero => omega
      | succ f =>
        simp only [render_cons, List.append_assoc, List.cons_append, readDocF,
          skipAction_line E hB checkN n c _ hc, next]
        by_cases h1 : fits E.B c = true
        · simp only [h1, Bool.not_true, Bool.false_eq_true, if_false]
          by_cases h2 : dropCR c = []
          · simp only [h2, if_true]
            have := (ih (f + 1) n (by simp only [List.length_append]; omega)).1
            simpa only [readDocF] using this
          · simp only [h2, if_false]
            by_cases h3 : unknownAction checkN n (dropCR c) = true
            · simp [h3, NextL.lift]
            · simp only [h3]
              exact (ih f n (by simp only [List.length_append]; omega)).2
        · simp [h1, NextL.lift]
    · simp only [render_cons, List.append_assoc, List.cons_append, docStep, readDocLine_line E hB c _ hc, next]
      by_cases h1 : fits E.B c = true
      · simp only [h1, if_true, Bool.not_true, Bool.false_eq_true, if_false]
        by_cases h2 : dropCR c = []
        · simp [h2, NextL.lift]
        · simp [h2, NextL.lift]
      · simp only [h1, Bool.not_false, if_true]
        exact (ih f (n + 1) (by simp only [List.length_append]; omega)).1

theorem readDoc_lines (E : Env) (hB : 2 ≤ E.B) (checkN n : Nat) (ls : List Bytes) (tail : Bytes)
    (h : NoNL ls) (htail : 10 ∉ tail) :
    readDoc E checkN n (render ls ++ tail) = (next E checkN tail .action n ls).lift :=
  (readDocF_lines E hB checkN tail htail ls h _ n (by omega)).1

/-! ## the whole sequence of `ReadDoc` calls -/

def endOf (E : Env) : End := if E.clean then .done else .err .scan

def NextL.toFrame (rec : Bytes → Nat → List Bytes → List Bytes × End) : NextL → List Bytes × End
  | .done => ([], .done)
  | .err e => ([], .err e)
  | .doc d rest tail n => (d :: (rec tail n rest).1, (rec tail n rest).2)

/-- documents yielded by the reader, and how the sequence ends, described on lines and the unterminated
remainder `tail` -/
def frame (E : Env) (checkN : Nat) (tail : Bytes) : Pos → Nat → List Bytes → List Bytes × End
  | .action, n, [] =>
    match tailAct E checkN n tail with
    | .done => ([], .done)
    | .err e => ([], .err e)
    | .doc _ _ _ _ => ([], .err .fuel)      -- not produced by `tailAct`
  | .action, n, c :: ls =>
    if !fits E.B c then ([], .err .actionTooLong)
    else if dropCR c = [] then frame E checkN tail .action n ls
    else if unknownAction checkN n (dropCR c) then ([], .err .unknownAction)
    else frame E checkN tail .doc n ls
  | .doc, n, [] =>
    match tailDoc E n tail with
    | .done => ([], .done)
    | .err e => ([], .err e)
    | .doc d _ _ _ => ([d], endOf E)        -- the remainder was the last document
  | .doc, n, c :: ls =>
    if !fits E.B c then frame E checkN tail .action (n + 1) ls
    else if dropCR c = [] then ([], .err .emptyDoc)
    else (dropCR c :: (frame E checkN tail .action (n + 1) ls).1, (frame E checkN tail .action (n + 1) ls).2)

theorem frame_nil_nil (E : Env) (checkN n : Nat) : frame E checkN [] .action n [] = ([], endOf E) := by
  cases hc : E.clean <;> simp [frame, tailAct, endNext, endOf, hc]

theorem frame_next (E : Env) (checkN : Nat) (tail : Bytes) :
    ∀ (ls : List Bytes) (p : Pos) (n : Nat), frame E checkN tail p n ls =
      match next E checkN tail p n ls with
      | .done => ([], .done)
      | .err e => ([], .err e)
      | .doc d rest t n' => (d :: (frame E checkN t .action n' rest).1, (frame E checkN t .action n' rest).2) := by
  intro ls
  induction ls with
  | nil =>
    intro p n
    cases p
    · simp only [frame, next]
      cases h : tailAct E checkN n tail with
      | done => rfl
      | err e => rfl
      | doc d r t n' => exact absurd h (tailAct_not_doc E checkN n tail d r t n')
    · simp only [frame, next]
      cases h : tailDoc E n tail with
      | done => rfl
      | err e => rfl
      | doc d r t n' =>
        obtain ⟨_, _, rfl, rfl⟩ := tailDoc_doc E n tail d r t n' h
        simp [frame_nil_nil]
  | cons c ls ih =>
    intro p n
    cases p
    · simp only [frame, next]
      split
      · rfl
      · split
        · exact ih .action n
        · split
          · rfl
          · exact ih .doc n
    · simp only [frame, next]
      split
      · exact ih .action (n + 1)
      · split <;> rfl

theorem next_doc_shorter (E : Env) (checkN : Nat) (tail : Bytes) :
    ∀ (ls : List Bytes) (p : Pos) (n : Nat) (d : Bytes) (rest : List Bytes) (t : Bytes) (n' : Nat),
      next E checkN tail p n ls = .doc d rest t n' →
        (render rest ++ t).length < (render ls ++ tail).length ∧ (∀ x, x ∈ rest → x ∈ ls) ∧ (t = tail ∨ t = []) := by
  intro ls
  induction ls with
  | nil =>
    intro p n d rest t n' h
    cases p <;> simp only [next] at h
    · exact absurd h (tailAct_not_doc E checkN n tail d rest t n')
    · obtain ⟨rfl, hne, rfl, rfl⟩ := tailDoc_doc E n tail d rest t n' h
      have : 0 < d.length := List.length_pos_iff.mpr hne
      exact ⟨by simpa using this, fun x hx => (by cases hx), Or.inr rfl⟩
  | cons c ls ih =>
    intro p n d rest t n' h
    have step : ∀ p n, next E checkN tail p n ls = .doc d rest t n' →
        (render rest ++ t).length < (render (c :: ls) ++ tail).length ∧ (∀ x, x ∈ rest → x ∈ c :: ls) ∧
          (t = tail ∨ t = []) := by
      intro p n h
      have := ih p n d rest t n' h
      refine ⟨by simp only [render_cons, List.length_append, List.length_cons] at *; omega, fun x hx => ?_, this.2.2⟩
      exact List.mem_cons_of_mem _ (this.2.1 x hx)
    cases p <;> simp only [next] at h
    · split at h
      · cases h
      · split at h
        · exact step _ _ h
        · split at h
          · cases h
          · exact step _ _ h
    · split at h
      · exact step _ _ h
      · split at h
        · cases h
        · injection h with h1 h2 h3 h4
          subst h2 h3
          exact ⟨by simp only [render_cons, List.length_append, List.length_cons]; omega,
            fun x hx => List.mem_cons_of_mem _ hx, Or.inl rfl⟩

theorem readAllF_lines (E : Env) (hB : 2 ≤ E.B) (checkN : Nat) :
    ∀ (f : Nat) (ls : List Bytes) (tail : Bytes) (n : Nat), NoNL ls → 10 ∉ tail → (render ls ++ tail).length < f →
      readAllF E checkN f n (render ls ++ tail) = frame E checkN tail .action n ls := by
  intro f
  induction f with
  | zero => intro ls tail n _ _ h; omega
  | succ f ih =>
    intro ls tail n hnl htail hf
    rw [frame_next]
    simp only [readAllF, readDoc_lines E hB checkN n ls tail hnl htail]
    cases hn : next E checkN tail .action n ls with
    | done => rfl
    | err e => rfl
    | doc d rest t n' =>
      have := next_doc_shorter E checkN tail ls .action n d rest t n' hn
      have ht : 10 ∉ t := by rcases this.2.2 with h | h <;> simp [h, htail]
      simp only [NextL.lift]
      rw [ih rest t n' (fun x hx => hnl x (this.2.1 x hx)) ht (by omega)]

/-- **framing theorem**: on any body - terminated lines `ls` followed by an unterminated remainder `tail` -
the byte-level reader (bufio.ReadLine with prefix chunks, `'\r'` put-back, blank-line and oversize skipping)
yields exactly the documents of `frame` -/
theorem readAll_render_tail (E : Env) (hB : 2 ≤ E.B) (checkN : Nat) (ls : List Bytes) (tail : Bytes)
    (h : NoNL ls) (htail : 10 ∉ tail) :
    readAll E checkN (render ls ++ tail) = frame E checkN tail .action 0 ls :=
  readAllF_lines E hB checkN _ ls tail 0 h htail (by omega)

theorem readAll_render (E : Env) (hB : 2 ≤ E.B) (checkN : Nat) (ls : List Bytes) (h : NoNL ls) :
    readAll E checkN (render ls) = frame E checkN [] .action 0 ls := by
  have := readAll_render_tail E hB checkN ls [] h (by simp)
  simpa using this

/-- every byte string is a sequence of terminated lines followed by an unterminated remainder -/
theorem exists_lines : ∀ s : Bytes, ∃ ls tail, s = render ls ++ tail ∧ NoNL ls ∧ 10 ∉ tail := by
  intro s
  induction s with
  | nil => exact ⟨[], [], rfl, fun c hc => (by cases hc), by simp⟩
  | cons b s ih =>
    obtain ⟨ls, tail, hs, hnl, ht⟩ := ih
    by_cases hb : b = 10
    · refine ⟨[] :: ls, tail, by simp [hs, hb], ?_, ht⟩
      intro c hc
      rcases List.mem_cons.mp hc with rfl | hc
      · simp
      · exact hnl c hc
    · cases ls with
      | nil =>
        refine ⟨[], b :: tail, by simp [hs], fun c hc => (by cases hc), ?_⟩
        intro h
        rcases List.mem_cons.mp h with h | h
        · exact hb h.symm
        · exact ht h
      | cons c ls =>
        refine ⟨(b :: c) :: ls, tail, by simp [hs], ?_, ht⟩
        intro x hx
        rcases List.mem_cons.mp hx with rfl | hx
        · intro h
          rcases List.mem_cons.mp h with h | h
          · exact hb h.symm
          · exact hnl c (by simp) h
        · exact hnl x (by simp [hx])

end SV.Bulk
