import SeqVerif.Model.CacheInv
/-!
# C18 - value coherence invariant `VInv`, preserved by every step (all interleavings)
-/
namespace SV.Cache

structure VInv (s : St) : Prop where
  /-- the value of a valid entry was produced by a loader run for the entry's (cache, key) -/
  valid_produced : ∀ (eid : Nat) (e : Entry), s.heap[eid]? = some e → e.st = .valid → (e.cache, e.key, e.val) ∈ s.produced
  /-- a thread blocked in `wg.Wait()` holds an entry of the key it asked for -/
  waiting_key : ∀ t c k eid, s.pc t = .waiting c k eid → ∃ e, s.heap[eid]? = some e ∧ e.cache = c ∧ e.key = k
  /-- a thread running a loader holds a `loading` entry of the key it asked for -/
  loading_own : ∀ t c k eid, s.pc t = .loading c k eid →
    ∃ e, s.heap[eid]? = some e ∧ e.cache = c ∧ e.key = k ∧ e.st = .loading
  /-- ... and no other thread loads into the same entry -/
  loading_inj : ∀ t1 t2 c1 k1 c2 k2 eid, s.pc t1 = .loading c1 k1 eid → s.pc t2 = .loading c2 k2 eid → t1 = t2
  /-- an abandoned entry (failed load) is in no map -/
  no_abandoned : ∀ (eid : Nat) (e : Entry), s.heap[eid]? = some e → e.inMap = true → e.st ≠ .abandoned
  /-- every `loading` entry has a thread that is running its loader -/
  loading_owner : ∀ (eid : Nat) (e : Entry), s.heap[eid]? = some e → e.st = .loading →
    ∃ t c k, s.pc t = .loading c k eid

/-- pointwise: same identity, state and value; `inMap` may only be cleared -/
def Sim (h h' : List Entry) : Prop :=
  h.length = h'.length ∧ ∀ (i : Nat) (e e' : Entry), h[i]? = some e → h'[i]? = some e' →
    e'.cache = e.cache ∧ e'.key = e.key ∧ e'.st = e.st ∧ e'.val = e.val ∧ (e'.inMap = true → e.inMap = true)

theorem Sim.refl (h : List Entry) : Sim h h :=
  ⟨rfl, fun i e e' h1 h2 => by rw [h1] at h2; cases h2; simp⟩

theorem Sim.get {h h' : List Entry} (hs : Sim h h') {i : Nat} {e' : Entry} (h2 : h'[i]? = some e') :
    ∃ e, h[i]? = some e ∧ e'.cache = e.cache ∧ e'.key = e.key ∧ e'.st = e.st ∧ e'.val = e.val ∧
      (e'.inMap = true → e.inMap = true) := by
  have hi : i < h.length := by
    have := (List.getElem?_eq_some_iff.mp h2).1; rw [hs.1]; exact this
  exact ⟨h[i], List.getElem?_eq_getElem hi, hs.2 i _ _ (List.getElem?_eq_getElem hi) h2⟩

theorem Sim.get' {h h' : List Entry} (hs : Sim h h') {i : Nat} {e : Entry} (h1 : h[i]? = some e) :
    ∃ e', h'[i]? = some e' ∧ e'.cache = e.cache ∧ e'.key = e.key ∧ e'.st = e.st ∧ e'.val = e.val ∧
      (e'.inMap = true → e.inMap = true) := by
  have hi : i < h'.length := by
    have := (List.getElem?_eq_some_iff.mp h1).1; rw [← hs.1]; exact this
  exact ⟨h'[i], List.getElem?_eq_getElem hi, hs.2 i _ _ h1 (List.getElem?_eq_getElem hi)⟩

theorem sim_map (h : List Entry) (f : Entry → Entry)
    (hf : ∀ e, (f e).cache = e.cache ∧ (f e).key = e.key ∧ (f e).st = e.st ∧ (f e).val = e.val ∧
      ((f e).inMap = true → e.inMap = true)) : Sim h (h.map f) := by
  refine ⟨by simp, fun i e e' h1 h2 => ?_⟩
  rw [List.getElem?_map, h1] at h2
  simp only [Option.map_some, Option.some.injEq] at h2
  subst h2
  exact hf e

theorem sim_set (h : List Entry) (i : Nat) (e e' : Entry) (hi : h[i]? = some e)
    (hf : e'.cache = e.cache ∧ e'.key = e.key ∧ e'.st = e.st ∧ e'.val = e.val ∧ (e'.inMap = true → e.inMap = true)) :
    Sim h (h.set i e') := by
  refine ⟨by simp, fun j a a' h1 h2 => ?_⟩
  rw [List.getElem?_set] at h2
  by_cases hij : i = j
  · subst hij
    rw [hi] at h1; cases h1
    split at h2
    · split at h2
      · cases h2; exact hf
      · cases h2
    · contradiction
  · rw [if_neg hij, h1] at h2; cases h2; simp

theorem VInv.of_sim {s s' : St} (hs : Sim s.heap s'.heap) (hpc : s'.pcL = s.pcL) (hp : s'.produced = s.produced)
    (v : VInv s) : VInv s' := by
  have hpc' : ∀ t, s'.pc t = s.pc t := fun t => by simp [St.pc, hpc]
  constructor
  · intro eid e' h2 hv
    obtain ⟨e, h1, hc, hk, hst, hval, -⟩ := hs.get h2
    rw [hp, hc, hk, hval]; exact v.valid_produced eid e h1 (hst ▸ hv)
  · intro t c k eid hw
    obtain ⟨e, h1, hc, hk⟩ := v.waiting_key t c k eid (hpc' t ▸ hw)
    obtain ⟨e', h2, hc', hk', -⟩ := hs.get' h1
    exact ⟨e', h2, hc'.trans hc, hk'.trans hk⟩
  · intro t c k eid hw
    obtain ⟨e, h1, hc, hk, hst⟩ := v.loading_own t c k eid (hpc' t ▸ hw)
    obtain ⟨e', h2, hc', hk', hst', -⟩ := hs.get' h1
    exact ⟨e', h2, hc'.trans hc, hk'.trans hk, hst'.trans hst⟩
  · intro t1 t2 c1 k1 c2 k2 eid h1 h2
    exact v.loading_inj t1 t2 c1 k1 c2 k2 eid (hpc' t1 ▸ h1) (hpc' t2 ▸ h2)
  · intro eid e' h2 hin
    obtain ⟨e, h1, -, -, hst, -, hin'⟩ := hs.get h2
    rw [hst]; exact v.no_abandoned eid e h1 (hin' hin)
  · intro eid e' h2 hl
    obtain ⟨e, h1, -, -, hst, -, -⟩ := hs.get h2
    obtain ⟨t, c, k, ht⟩ := v.loading_owner eid e h1 (hst ▸ hl)
    exact ⟨t, c, k, (hpc' t).trans ht⟩

/-- a thread that stops loading / waiting only removes obligations -/
theorem VInv.setPc_nonloading {s : St} (v : VInv s) (t : Nat) (p : Pc)
    (hp : (∀ c k eid, p = .waiting c k eid → ∃ e, s.heap[eid]? = some e ∧ e.cache = c ∧ e.key = k))
    (hl : ∀ c k eid, p ≠ .loading c k eid) (hold : ∀ c k eid, s.pc t ≠ .loading c k eid) : VInv (setPc s t p) := by
  constructor
  · exact v.valid_produced
  · intro t' c k eid hw
    rw [setPc_pc] at hw
    split at hw
    · exact hp c k eid hw
    · exact v.waiting_key t' c k eid hw
  · intro t' c k eid hw
    rw [setPc_pc] at hw
    split at hw
    · exact absurd hw (hl c k eid)
    · exact v.loading_own t' c k eid hw
  · intro t1 t2 c1 k1 c2 k2 eid h1 h2
    rw [setPc_pc] at h1 h2
    split at h1
    · exact absurd h1 (hl _ _ _)
    · split at h2
      · exact absurd h2 (hl _ _ _)
      · exact v.loading_inj t1 t2 c1 k1 c2 k2 eid h1 h2
  · exact v.no_abandoned
  · intro eid e h hl'
    obtain ⟨t', c, k, ht'⟩ := v.loading_owner eid e h hl'
    refine ⟨t', c, k, ?_⟩
    rw [setPc_pc, if_neg]
    · exact ht'
    · intro heq; subst heq; exact hold c k eid ht'

theorem VInv.setPc_idle {s : St} (v : VInv s) (t : Nat) (hold : ∀ c k eid, s.pc t ≠ .loading c k eid) :
    VInv (setPc s t .idle) :=
  v.setPc_nonloading t .idle (fun _ _ _ h => by cases h) (fun _ _ _ h => by cases h) hold

theorem lookup_sound {h : List Entry} {c k eid : Nat} (hl : lookup h c k = some eid) :
    ∃ e, h[eid]? = some e ∧ e.cache = c ∧ e.key = k ∧ e.inMap = true := by
  unfold lookup at hl
  obtain ⟨hlt, hp, -⟩ := List.findIdx?_eq_some_iff_getElem.mp hl
  refine ⟨h[eid], List.getElem?_eq_getElem hlt, ?_⟩
  simp only [matchKey, Bool.and_eq_true, beq_iff_eq] at hp
  exact ⟨hp.2.1, hp.2.2, hp.1⟩

theorem sim_updGen (s : St) (eid ng : Nat) : Sim s.heap (updGen s eid ng).heap := by
  unfold updGen
  split
  · exact Sim.refl _
  · split
    · exact Sim.refl _
    · exact sim_set _ _ _ _ ‹_› (by simp)

theorem VInv.updGen {s : St} (v : VInv s) (eid ng : Nat) : VInv (updGen s eid ng) :=
  v.of_sim (sim_updGen s eid ng) (updGen_pcL s eid ng) (updGen_produced s eid ng)

theorem VInv.acquire {s : St} (v : VInv s) (t c k : Nat) (ht : ∀ c' k' eid, s.pc t ≠ .loading c' k' eid) :
    VInv (acquire s t c k).1 := by
  unfold SV.Cache.acquire
  split
  · rename_i eid hl
    obtain ⟨e0, he0, hc0, hk0, -⟩ := lookup_sound hl
    split
    · exact v
    · split
      · exact (v.updGen _ _).setPc_idle t (by intro c' k' e'; simp only [St.pc, updGen_pcL]; exact ht c' k' e')
      · refine (v.updGen _ _).setPc_nonloading t _ ?_ (fun _ _ _ h => by cases h)
          (by intro c' k' e'; simp only [St.pc, updGen_pcL]; exact ht c' k' e')
        intro c' k' eid' h; cases h
        obtain ⟨e', h2, hc', hk', -⟩ := (sim_updGen s eid (s.cur c)).get' he0
        exact ⟨e', h2, hc'.trans hc0, hk'.trans hk0⟩
  · -- create
    have hnew : ∀ i e, (s.heap ++ [(⟨c, k, .loading, 0, s.cur c, 0, false, true⟩ : Entry)])[i]? = some e →
        s.heap[i]? = some e ∨ (i = s.heap.length ∧ e = ⟨c, k, .loading, 0, s.cur c, 0, false, true⟩) := by
      intro i e h
      rw [List.getElem?_append] at h
      split at h
      · exact Or.inl h
      · right
        rcases hd : i - s.heap.length with _ | n
        · rw [hd] at h; simp at h; exact ⟨by omega, h.symm⟩
        · rw [hd] at h; simp at h
    have hold : ∀ (i : Nat) (e : Entry), s.heap[i]? = some e →
        (s.heap ++ [(⟨c, k, .loading, 0, s.cur c, 0, false, true⟩ : Entry)])[i]? = some e := by
      intro i e h
      rw [List.getElem?_append_left (List.getElem?_eq_some_iff.mp h).1]; exact h
    constructor
    · intro eid e h hv
      rcases hnew eid e h with h | ⟨-, rfl⟩
      · exact v.valid_produced eid e h hv
      · cases hv
    · intro t' c' k' eid hw
      rw [setPc_pc] at hw
      split at hw
      · cases hw
      · obtain ⟨e, h1, h2⟩ := v.waiting_key t' c' k' eid hw
        exact ⟨e, hold _ _ h1, h2⟩
    · intro t' c' k' eid hw
      rw [setPc_pc] at hw
      split at hw
      · cases hw
        exact ⟨⟨c, k, .loading, 0, s.cur c, 0, false, true⟩,
          (List.getElem?_append_right (Nat.le_refl _)).trans (by simp), rfl, rfl, rfl⟩
      · obtain ⟨e, h1, h2⟩ := v.loading_own t' c' k' eid hw
        exact ⟨e, hold _ _ h1, h2⟩
    · intro t1 t2 c1 k1 c2 k2 eid h1 h2
      rw [setPc_pc] at h1 h2
      split at h1
      · split at h2
        · omega
        · cases h1
          obtain ⟨e, he, -⟩ := v.loading_own t2 c2 k2 _ h2
          have := (List.getElem?_eq_some_iff.mp he).1
          omega
      · split at h2
        · cases h2
          obtain ⟨e, he, -⟩ := v.loading_own t1 c1 k1 _ h1
          have := (List.getElem?_eq_some_iff.mp he).1
          omega
        · exact v.loading_inj t1 t2 c1 k1 c2 k2 eid h1 h2
    · intro eid e h hin
      rcases hnew eid e h with h | ⟨-, rfl⟩
      · exact v.no_abandoned eid e h hin
      · simp
    · intro eid e h hl
      rcases hnew eid e h with h | ⟨rfl, rfl⟩
      · obtain ⟨t', c', k', ht'⟩ := v.loading_owner eid e h hl
        refine ⟨t', c', k', ?_⟩
        rw [setPc_pc, if_neg]
        · exact ht'
        · intro heq; subst heq; exact ht c' k' eid ht'
      · exact ⟨t, c, k, by rw [setPc_pc, if_pos rfl]⟩

/-- the heap after a `set` at the index a loading thread owns -/
theorem get_set_cases {h : List Entry} {eid i : Nat} {e1 a : Entry} (h1 : (h.set eid e1)[i]? = some a) :
    (i = eid ∧ a = e1) ∨ (i ≠ eid ∧ h[i]? = some a) := by
  rw [List.getElem?_set] at h1
  split at h1
  · split at h1
    · cases h1; exact Or.inl ⟨by omega, rfl⟩
    · cases h1
  · exact Or.inr ⟨by omega, h1⟩

/-- replacing the entry a loader owns by `e1` (same identity, no longer `loading`, not abandoned-in-map) and
setting the loader idle keeps `VInv`, provided a valid `e1` carries a produced value -/
theorem VInv.finish_set {s : St} (v : VInv s) {t c k eid : Nat} (ht : s.pc t = .loading c k eid) {e e1 : Entry}
    (he : s.heap[eid]? = some e) (hc : e1.cache = e.cache) (hk : e1.key = e.key) (hst : e1.st ≠ .loading)
    (hab : e1.inMap = true → e1.st ≠ .abandoned) (gs : List Int) (prod : List (Nat × Nat × Nat))
    (hsub : ∀ x ∈ s.produced, x ∈ prod) (hval : e1.st = .valid → (e1.cache, e1.key, e1.val) ∈ prod) :
    VInv (setPc { s with heap := s.heap.set eid e1, gsizeL := gs, produced := prod } t .idle) := by
  obtain ⟨e0, he0, hc0, hk0, -⟩ := v.loading_own t c k eid ht
  rw [he] at he0; cases he0
  have hother : ∀ t' c' k' eid', t' ≠ t → s.pc t' = .loading c' k' eid' → eid' ≠ eid := by
    intro t' c' k' eid' hne h heq
    subst heq
    exact hne (v.loading_inj t' t c' k' c k _ h ht)
  have hlen : eid < s.heap.length := (List.getElem?_eq_some_iff.mp he).1
  constructor
  · intro i a h hv
    rcases get_set_cases h with ⟨-, rfl⟩ | ⟨-, h⟩
    · exact hval hv
    · exact hsub _ (v.valid_produced i a h hv)
  · intro t' c' k' eid' hw
    rw [setPc_pc] at hw
    split at hw
    · cases hw
    · obtain ⟨a, h1, h2⟩ := v.waiting_key t' c' k' eid' hw
      by_cases hee : eid' = eid
      · subst hee; rw [he] at h1; cases h1
        exact ⟨e1, List.getElem?_set_self hlen, hc.trans h2.1, hk.trans h2.2⟩
      · exact ⟨a, (List.getElem?_set_ne (Ne.symm hee)).trans h1, h2⟩
  · intro t' c' k' eid' hw
    rw [setPc_pc] at hw
    split at hw
    · cases hw
    · rename_i hne
      obtain ⟨a, h1, h2⟩ := v.loading_own t' c' k' eid' hw
      have hee := hother t' c' k' eid' hne hw
      exact ⟨a, (List.getElem?_set_ne (Ne.symm hee)).trans h1, h2⟩
  · intro t1 t2 c1 k1 c2 k2 eid' h1 h2
    rw [setPc_pc] at h1 h2
    split at h1
    · cases h1
    · split at h2
      · cases h2
      · exact v.loading_inj t1 t2 c1 k1 c2 k2 eid' h1 h2
  · intro i a h hin
    rcases get_set_cases h with ⟨-, rfl⟩ | ⟨-, h⟩
    · exact hab hin
    · exact v.no_abandoned i a h hin
  · intro i a h hl
    rcases get_set_cases h with ⟨-, rfl⟩ | ⟨hne, h⟩
    · exact absurd hl hst
    · obtain ⟨t', c', k', ht'⟩ := v.loading_owner i a h hl
      refine ⟨t', c', k', ?_⟩
      rw [setPc_pc, if_neg]
      · exact ht'
      · intro heq; subst heq; rw [ht] at ht'; cases ht'; exact hne rfl

theorem VInv.save {s : St} (v : VInv s) (cfg : Cfg) (t c k eid val sz : Nat) (ht : s.pc t = .loading c k eid) :
    VInv (save cfg s t c k eid val sz).1 := by
  obtain ⟨e, he, hc, hk, hst⟩ := v.loading_own t c k eid ht
  unfold SV.Cache.save
  rw [he]
  simp only
  split
  · exact v.finish_set ht he (e1 := { e with val := val, size := 0, st := .valid }) rfl rfl (by simp) (by simp)
      s.gsizeL ((c, k, val) :: s.produced) (fun x hx => List.mem_cons_of_mem _ hx) (fun _ => by simp [hc, hk])
  · exact v.finish_set ht he (e1 := { e with val := val, size := cfg.entrySize + sz, st := .valid, gen := s.cur c })
      rfl rfl (by simp) (by simp) _ ((c, k, val) :: s.produced) (fun x hx => List.mem_cons_of_mem _ hx)
      (fun _ => by simp [hc, hk])

theorem VInv.recover {s : St} (v : VInv s) (t c k eid : Nat) (ht : s.pc t = .loading c k eid) :
    VInv (recover s t c k eid) := by
  obtain ⟨e, he, hc, hk, hst⟩ := v.loading_own t c k eid ht
  unfold SV.Cache.recover
  rw [he]
  simp only
  exact v.finish_set ht he (e1 := { e with st := .abandoned, inMap := false }) rfl rfl (by simp) (by simp)
    s.gsizeL s.produced (fun x hx => hx) (fun h => by cases h)

theorem sim_release (s : St) (c : Nat) : Sim s.heap (release s c).heap := by
  unfold release
  apply sim_map
  intro e; split <;> simp

theorem sim_cacheCleanup (s : St) (c : Nat) : Sim s.heap (cacheCleanup s c).1.heap := by
  rw [cacheCleanup_heap]
  unfold evicted
  apply sim_map
  intro e; split <;> simp

theorem doRotate_heap (s : St) : (doRotate s).heap = s.heap ∧ (doRotate s).pcL = s.pcL ∧ (doRotate s).produced = s.produced :=
  ⟨rfl, rfl, rfl⟩

theorem markStale_heap (s : St) (target : Int) :
    (markStale s target).1.heap = s.heap ∧ (markStale s target).1.pcL = s.pcL ∧
      (markStale s target).1.produced = s.produced := by
  unfold markStale
  simp only
  split
  · split <;> exact ⟨rfl, rfl, rfl⟩
  · exact ⟨rfl, rfl, rfl⟩

theorem VInv.of_eq {s s' : St} (v : VInv s) (h1 : s'.heap = s.heap) (h2 : s'.pcL = s.pcL) (h3 : s'.produced = s.produced) :
    VInv s' := v.of_sim (h1 ▸ Sim.refl _) h2 h3

theorem step_vinv (cfg : Cfg) {s s' : St} {l : Label} {o : Out} (v : VInv s)
    (hs : step cfg s l = some (s', o)) : VInv s' := by
  cases l with
  | newCache =>
    simp only [step, Option.some.injEq, Prod.mk.injEq] at hs
    obtain ⟨rfl, -⟩ := hs
    exact v.of_eq rfl rfl rfl
  | get t c k =>
    simp only [step] at hs
    split at hs
    · rename_i h
      simp only [Option.some.injEq] at hs
      rw [← fst_of_eq hs]
      exact v.acquire t c k (by intro c' k' eid hh; rw [h.1] at hh; cases hh)
    · exact absurd hs (by simp)
  | wake t =>
    simp only [step] at hs
    split at hs
    · rename_i c k eid hpc
      split at hs
      · split at hs
        · simp only [Option.some.injEq, Prod.mk.injEq] at hs
          obtain ⟨rfl, -⟩ := hs
          exact v.setPc_idle t (by intro c' k' eid' hh; rw [hpc] at hh; cases hh)
        · split at hs
          · simp only [Option.some.injEq] at hs
            rw [← fst_of_eq hs]
            exact v.acquire t c k (by intro c' k' eid' hh; rw [hpc] at hh; cases hh)
          · exact absurd hs (by simp)
        · exact absurd hs (by simp)
      · exact absurd hs (by simp)
    · exact absurd hs (by simp)
  | finish t oc =>
    simp only [step] at hs
    split at hs
    · rename_i c k eid hpc
      split at hs
      · simp only [Option.some.injEq] at hs
        rw [← fst_of_eq hs]
        exact v.save cfg t c k eid _ _ hpc
      · simp only [Option.some.injEq, Prod.mk.injEq] at hs
        obtain ⟨rfl, -⟩ := hs
        exact v.recover t c k eid hpc
      · simp only [Option.some.injEq, Prod.mk.injEq] at hs
        obtain ⟨rfl, -⟩ := hs
        exact v.recover t c k eid hpc
    · exact absurd hs (by simp)
  | release c =>
    simp only [step] at hs
    split at hs
    · simp only [Option.some.injEq, Prod.mk.injEq] at hs
      obtain ⟨rfl, -⟩ := hs
      exact v.of_sim (sim_release s c) rfl rfl
    · exact absurd hs (by simp)
  | rotate =>
    simp only [step] at hs
    split at hs
    · simp only [Option.some.injEq] at hs
      unfold rotate at hs
      split at hs
      · simp only [Prod.mk.injEq] at hs; obtain ⟨rfl, -⟩ := hs; exact v
      · simp only [Prod.mk.injEq] at hs; obtain ⟨rfl, -⟩ := hs; exact v.of_eq rfl rfl rfl
    · exact absurd hs (by simp)
  | cleanupBegin =>
    simp only [step] at hs
    split at hs
    · simp only [Option.some.injEq] at hs
      unfold cleanupBegin at hs
      split at hs
      · simp only [Prod.mk.injEq] at hs; obtain ⟨rfl, -⟩ := hs; exact v
      · simp only [Prod.mk.injEq] at hs; obtain ⟨rfl, -⟩ := hs
        have := markStale_heap s (sizeToClean cfg (getSize s))
        exact v.of_eq this.1 this.2.1 this.2.2
    · exact absurd hs (by simp)
  | cleanupBucket =>
    simp only [step] at hs
    split at hs
    · simp only [Option.some.injEq, Prod.mk.injEq] at hs
      obtain ⟨rfl, -⟩ := hs
      exact v.of_sim (sim_cacheCleanup s _) rfl rfl
    · exact absurd hs (by simp)
  | cleanEmpty =>
    simp only [step] at hs
    split at hs
    · unfold cleanEmpty at hs
      split at hs
      · exact absurd hs (by simp)
      · simp only [Option.some.injEq, Prod.mk.injEq] at hs
        obtain ⟨rfl, -⟩ := hs
        exact v.of_eq rfl rfl rfl
    · exact absurd hs (by simp)
  | releaseBuckets =>
    simp only [step] at hs
    split at hs
    · simp only [Option.some.injEq, Prod.mk.injEq] at hs
      obtain ⟨rfl, -⟩ := hs
      exact v.of_eq rfl rfl rfl
    · exact absurd hs (by simp)

theorem vinv_init : VInv init := by
  constructor <;> intros <;> simp_all [init, St.pc, mget]

theorem reach_vinv (cfg : Cfg) {s : St} (h : Reach cfg s) : VInv s := by
  induction h with
  | init => exact vinv_init
  | step _ hs ih => exact step_vinv cfg ih hs

end SV.Cache
