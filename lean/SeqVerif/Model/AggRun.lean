import SeqVerif.Model.AggLemmas
set_option linter.unusedSimpArgs false
set_option linter.unusedVariables false
/-!
Helper lemmas for C06, part 3: the aggregators compute, per bin, a summary (`Rep`) of exactly the values of the
matching documents of that bin.
-/
namespace SV.Agg

/-! ## map operations -/

theorem lookup_upsert (k k' : Bin) (f : SC → SC) (bs : Bins) :
    (upsert k' f bs).lookup k = if k = k' then some (f ((bs.lookup k').getD SC.new)) else bs.lookup k := by
  induction bs with
  | nil =>
    by_cases h : k = k'
    · subst h; simp [upsert, List.lookup]
    · have : (k == k') = false := by simp [h]
      simp [upsert, List.lookup, h, this]
  | cons x bs ih =>
    obtain ⟨kx, v⟩ := x
    by_cases hx : kx = k'
    · subst hx
      by_cases h : k = kx
      · subst h; simp [upsert, List.lookup]
      · have : (k == kx) = false := by simp [h]
        simp [upsert, List.lookup, h, this]
    · by_cases h : k = k'
      · subst h
        have h1 : (k == kx) = false := by simp; exact fun e => hx e.symm
        have h2 : (k == kx) = false := h1
        simp [upsert, hx, List.lookup, h1, ih]
      · by_cases h2 : k = kx
        · subst h2; simp [upsert, hx, List.lookup, h]
        · have : (k == kx) = false := by simp [h2]
          simp [upsert, hx, List.lookup, this, ih, h]

theorem lookup_put (k k' : Bin) (v : SC) (bs : Bins) :
    (put k' v bs).lookup k = if k = k' then some v else bs.lookup k := by
  induction bs with
  | nil =>
    by_cases h : k = k'
    · subst h; simp [put, List.lookup]
    · have : (k == k') = false := by simp [h]
      simp [put, List.lookup, h, this]
  | cons x bs ih =>
    obtain ⟨kx, v'⟩ := x
    by_cases hx : kx = k'
    · subst hx
      by_cases h : k = kx
      · subst h; simp [put, List.lookup]
      · have : (k == kx) = false := by simp [h]
        simp [put, List.lookup, h, this]
    · by_cases h : k = k'
      · subst h
        have h1 : (k == kx) = false := by simp; exact fun e => hx e.symm
        simp [put, hx, List.lookup, h1, ih]
      · by_cases h2 : k = kx
        · subst h2; simp [put, hx, List.lookup, h]
        · have : (k == kx) = false := by simp [h2]
          simp [put, hx, List.lookup, this, ih, h]

/-- a sequence of `m[key e] = upd e (m[key e])` statements seen from one key -/
theorem lookup_foldl_upsert {ε : Type} (key : ε → Bin) (upd : ε → SC → SC) (es : List ε) (bs : Bins) (k : Bin) :
    (es.foldl (fun bs e => upsert (key e) (upd e) bs) bs).lookup k =
      if es.filter (fun e => key e = k) = [] then bs.lookup k
      else some ((es.filter (fun e => key e = k)).foldl (fun c e => upd e c) ((bs.lookup k).getD SC.new)) := by
  induction es generalizing bs with
  | nil => simp
  | cons e es ih =>
    simp only [List.foldl_cons]
    rw [ih]
    by_cases hk : key e = k
    · subst hk
      simp [List.filter_cons, lookup_upsert]
      intro h
      have : es.filter (fun e_1 => decide (key e_1 = key e)) = [] := by
        rw [List.filter_eq_nil_iff]; intro a ha; simpa using h a ha
      simp [this]
    · have hk' : ¬ k = key e := fun h => hk h.symm
      simp [List.filter_cons, hk, lookup_upsert, hk']

/-! ## SingleSourceHistogramAggregator -/

/-- the update one matching document applies to the container of its time bin (`fv` = parsed field value) -/
def histUpd (lim : Nat) (pick : List Int → Nat) (collect : Bool) (fv : Nat → Int) (ev : Ev) (c : SC) : SC :=
  match ev.f with
  | none => { c with notExists := c.notExists + 1 }
  | some s => histIns lim pick collect (fv s) c

/-- field values / missing-field count of a list of documents -/
def evVals (fv : Nat → Int) (evs : List Ev) : List Int := evs.filterMap fun ev => ev.f.map fv
def evNe (evs : List Ev) : Nat := (evs.filter fun ev => ev.f.isNone).length

def ParseOk (fval : Nat → Option Int) (evs : List Ev) : Prop :=
  ∀ ev, ev ∈ evs → ∀ s, ev.f = some s → (fval s).isSome = true

theorem histAgg_fold (lim : Nat) (pick : List Int → Nat) (collect : Bool) (fval : Nat → Option Int) (evs : List Ev)
    (hp : ParseOk fval evs) (m : Bins) :
    evs.foldl (histAggStep lim pick collect fval) (some m) =
      some (evs.foldl (fun bs ev => upsert ⟨ev.bin, ""⟩ (histUpd lim pick collect (fun s => (fval s).getD 0) ev) bs) m) := by
  induction evs generalizing m with
  | nil => rfl
  | cons ev evs ih =>
    have hp' : ParseOk fval evs := fun e he => hp e (List.mem_cons_of_mem _ he)
    simp only [List.foldl_cons]
    have : histAggStep lim pick collect fval (some m) ev =
        some (upsert ⟨ev.bin, ""⟩ (histUpd lim pick collect (fun s => (fval s).getD 0) ev) m) := by
      unfold histAggStep histUpd
      cases hf : ev.f with
      | none => simp
      | some s =>
        have := hp ev (by simp) s hf
        cases hv : fval s with
        | none => simp [hv] at this
        | some num => simp [hv]
    rw [this, ih hp']

theorem insertSampleNTimes_one (lim : Nat) (pick : List Int → Nat) (c : SC) (v : Int) :
    c.insertSampleNTimes lim pick v 1 = c.insertSample lim pick v := by
  simp [SC.insertSampleNTimes]

theorem histUpd_rep (lim : Nat) (pick : List Int → Nat) (collect : Bool) (fv : Nat → Int) (evs : List Ev)
    (xs : List Int) (ne : Nat) (c : SC) (h : Rep xs ne collect c)
    (hl : collect = true → xs.length + (evVals fv evs).length ≤ lim) :
    Rep (xs ++ evVals fv evs) (ne + evNe evs) collect (evs.foldl (fun c ev => histUpd lim pick collect fv ev c) c) := by
  induction evs generalizing xs ne c with
  | nil => simpa [evVals, evNe] using h
  | cons ev evs ih =>
    simp only [List.foldl_cons]
    cases hf : ev.f with
    | none =>
      have h' : Rep xs (ne + 1) collect (histUpd lim pick collect fv ev c) := by
        unfold histUpd; simp only [hf]
        exact ⟨h.total, by simp [h.notExists], h.sum, h.min, h.max, h.samples⟩
      have := ih xs (ne + 1) _ h' (by intro hc; have := hl hc; simpa [evVals, hf] using this)
      simpa [evVals, evNe, hf, List.filter_cons, Nat.add_assoc, Nat.add_comm 1] using this
    | some s =>
      have h' : Rep (xs ++ [fv s]) ne collect (histUpd lim pick collect fv ev c) := by
        unfold histUpd histIns; simp only [hf]
        have := Rep.insert (lim := lim) (pick := pick) h (fv s) 1 (by omega)
          (by intro hc; have := hl hc; simp [evVals, hf] at this; omega)
        simpa [insertSampleNTimes_one] using this
      have := ih (xs ++ [fv s]) ne _ h' (by intro hc; have := hl hc; simp [evVals, hf] at this ⊢; omega)
      simpa [evVals, evNe, hf, List.filter_cons] using this

/-- **SingleSourceHistogramAggregator**: for every time bin `b` the result holds a container exactly when a
matching document falls into `b`, and that container summarises exactly those documents' field values -/
theorem histAggRun_spec (lim : Nat) (pick : List Int → Nat) (collect : Bool) (fval : Nat → Option Int) (evs : List Ev)
    (hp : ParseOk fval evs)
    (hl : collect = true → ∀ b, (evVals (fun s => (fval s).getD 0) (evs.filter fun ev => ev.bin = b)).length ≤ lim) :
    ∃ a, histAggRun lim pick collect fval evs = some a ∧ a.notExists = 0 ∧
      (∀ k, k.token ≠ "" → a.get k = none) ∧
      ∀ b, (evs.filter (fun ev => ev.bin = b) = [] → a.get ⟨b, ""⟩ = none) ∧
           (evs.filter (fun ev => ev.bin = b) ≠ [] → ∃ c, a.get ⟨b, ""⟩ = some c ∧
              Rep (evVals (fun s => (fval s).getD 0) (evs.filter fun ev => ev.bin = b))
                  (evNe (evs.filter fun ev => ev.bin = b)) collect c) := by
  refine ⟨_, by unfold histAggRun; rw [histAgg_fold _ _ _ _ _ hp]; rfl, rfl, ?_, ?_⟩
  · intro k hk
    simp only [AS.get]
    rw [lookup_foldl_upsert (fun ev : Ev => (⟨ev.bin, ""⟩ : Bin))]
    have : evs.filter (fun ev => (⟨ev.bin, ""⟩ : Bin) = k) = [] := by
      rw [List.filter_eq_nil_iff]
      intro ev _
      simp only [decide_eq_true_eq]
      intro e; rw [← e] at hk; exact hk rfl
    simp [this]
  · intro b
    simp only [AS.get]
    rw [lookup_foldl_upsert (fun ev : Ev => (⟨ev.bin, ""⟩ : Bin))]
    have hf : evs.filter (fun ev => (⟨ev.bin, ""⟩ : Bin) = ⟨b, ""⟩) = evs.filter (fun ev => ev.bin = b) := by
      apply List.filter_congr
      intro ev _
      simp
    rw [hf]
    constructor
    · intro h; simp [h]
    · intro h
      simp only [h, if_false]
      refine ⟨_, rfl, ?_⟩
      have := histUpd_rep lim pick collect (fun s => (fval s).getD 0) (evs.filter fun ev => ev.bin = b) [] 0 SC.new
        (Rep.new collect) (by intro hc; simpa using hl hc b)
      simpa using this

end SV.Agg
