import SeqVerif.Model.FetchIDs
/-!
# C04 - from document positions to documents (`seq/doc_pos.go`, `frac/processor/fetch.go: IndexFetch`)

`packDocPos` / `unpackDocPos` are `seq.PackDocPos` / `DocPos.Unpack` (uint64 arithmetic, `bits = docOffsetBits`),
`groupDocsOffsets` is `seq.GroupDocsOffsets` (the `uniq` map is the search for the group of the block, groups in
first-appearance order), `indexFetch` is `processor.IndexFetch`: one `ReadDocs` per block, results scattered
through the `index` lists.  `readDoc block off` stands for the document `ReadDocs` yields for one offset of one
block (its byte-level form is `extractDoc` in Model/FetchBytes.lean); read errors are outside the model.
-/
namespace SV.Fetch

/-- seq.DocPosNotFound = math.MaxUint64 -/
def notFound : Nat := 18446744073709551615

/-- seq.PackDocPos (for `off ≤ maxDocOffset`; a larger offset is `logger.Panic`) -/
def packDocPos (bits block off : Nat) : Nat := block * 2 ^ bits + off + 1

/-- DocPos.Unpack: `pos--` wraps in uint64, the block index is truncated to uint32 -/
def unpackDocPos (bits pos : Nat) : Nat × Nat :=
  let p := (pos + 18446744073709551615) % 18446744073709551616
  (p / 2 ^ bits % 4294967296, p % 2 ^ bits)

theorem unpack_pack (bits block off : Nat) (ho : off < 2 ^ bits) (hb : block < 4294967296)
    (hfit : block * 2 ^ bits + off + 1 < 18446744073709551616) :
    unpackDocPos bits (packDocPos bits block off) = (block, off) := by
  unfold unpackDocPos packDocPos
  have h1 : (block * 2 ^ bits + off + 1 + 18446744073709551615) % 18446744073709551616 = block * 2 ^ bits + off := by
    omega
  simp only [h1]
  have hpos : 0 < 2 ^ bits := Nat.two_pow_pos bits
  have h2 : (block * 2 ^ bits + off) / 2 ^ bits = block := by
    rw [Nat.add_comm, Nat.add_mul_div_right _ _ hpos, Nat.div_eq_of_lt ho, Nat.zero_add]
  have h3 : (block * 2 ^ bits + off) % 2 ^ bits = off := by
    rw [Nat.add_comm, Nat.add_mul_mod_self_right, Nat.mod_eq_of_lt ho]
  rw [h2, h3, Nat.mod_eq_of_lt hb]

theorem pack_ne_notFound (bits block off : Nat) (hfit : block * 2 ^ bits + off + 1 < 18446744073709551615) :
    packDocPos bits block off ≠ notFound := by
  unfold packDocPos notFound; omega

structure Group where
  block : Nat
  offsets : List Nat
  index : List Nat
deriving Repr, DecidableEq

/-- `b, ok := uniq[block]; if !ok { new group }; index[b] = append(..., i); offsets[b] = append(..., offset)` -/
def addPos : List Group → Nat → Nat → Nat → List Group
  | [], b, o, i => [⟨b, [o], [i]⟩]
  | g :: rest, b, o, i =>
    if g.block = b then ⟨g.block, g.offsets ++ [o], g.index ++ [i]⟩ :: rest else g :: addPos rest b o i

def groupGo (bits : Nat) : List Group → Nat → List Nat → List Group
  | gs, _, [] => gs
  | gs, i, p :: ps =>
    if p = notFound then groupGo bits gs (i + 1) ps
    else groupGo bits (addPos gs (unpackDocPos bits p).1 (unpackDocPos bits p).2 i) (i + 1) ps

/-- seq.GroupDocsOffsets -/
def groupDocsOffsets (bits : Nat) (ps : List Nat) : List Group := groupGo bits [] 0 ps

/-- `for src, dst := range index[i] { res[dst] = docs[src] }` with `docs = ReadDocs(block, offsets[i])` -/
def scatterGroup {D : Type} (readDoc : Nat → Nat → D) (res : List (Option D)) (g : Group) : List (Option D) :=
  (g.index.zip (g.offsets.map (readDoc g.block))).foldl (fun r p => r.set p.1 (some p.2)) res

/-- processor.IndexFetch on the positions `GetDocPos(ids)`; `res` starts as `make([][]byte, len(ids))` -/
def indexFetch {D : Type} (bits : Nat) (readDoc : Nat → Nat → D) (ps : List Nat) : List (Option D) :=
  (groupDocsOffsets bits ps).foldl (scatterGroup readDoc) (List.replicate ps.length none)

/-- what it means: position by position, not found or the document at the unpacked position -/
def posDoc {D : Type} (bits : Nat) (readDoc : Nat → Nat → D) (p : Nat) : Option D :=
  if p = notFound then none else some (readDoc (unpackDocPos bits p).1 (unpackDocPos bits p).2)

/-! ## proof that the scatter is the map -/

def setAll {D : Type} (l : List (Nat × D)) (res : List (Option D)) : List (Option D) :=
  l.foldl (fun r p => r.set p.1 (some p.2)) res

theorem setAll_length {D : Type} (l : List (Nat × D)) (res : List (Option D)) :
    (setAll l res).length = res.length := by
  induction l generalizing res with
  | nil => rfl
  | cons x t ih => simp [setAll, List.foldl_cons] at *; rw [ih]; simp

theorem setAll_not_mem {D : Type} (l : List (Nat × D)) (res : List (Option D)) (k : Nat)
    (h : ∀ x, x ∈ l → x.1 ≠ k) : (setAll l res)[k]? = res[k]? := by
  induction l generalizing res with
  | nil => rfl
  | cons x t ih =>
    have hx : x.1 ≠ k := h x (by simp)
    simp only [setAll, List.foldl_cons] at *
    rw [ih _ (fun y hy => h y (by simp [hy]))]
    exact List.getElem?_set_ne hx

theorem setAll_mem {D : Type} (l : List (Nat × D)) (res : List (Option D)) (k : Nat) (d : D)
    (hnd : (l.map Prod.fst).Nodup) (hm : (k, d) ∈ l) (hk : k < res.length) :
    (setAll l res)[k]? = some (some d) := by
  induction l generalizing res with
  | nil => cases hm
  | cons x t ih =>
    simp only [List.map_cons, List.nodup_cons] at hnd
    rcases List.mem_cons.mp hm with heq | hmem
    · subst heq
      have : (setAll t (res.set k (some d)))[k]? = (res.set k (some d))[k]? :=
        setAll_not_mem t _ k (fun y hy hyk => hnd.1 (by rw [← hyk]; exact List.mem_map.mpr ⟨y, hy, rfl⟩))
      simp only [setAll, List.foldl_cons] at *
      rw [this]; simp [hk]
    · simp only [setAll, List.foldl_cons] at *
      exact ih _ hnd.2 hmem (by simp [hk])

def entries {D : Type} (readDoc : Nat → Nat → D) (gs : List Group) : List (Nat × D) :=
  gs.flatMap fun g => g.index.zip (g.offsets.map (readDoc g.block))

theorem scatter_eq_setAll {D : Type} (readDoc : Nat → Nat → D) (gs : List Group) (res : List (Option D)) :
    gs.foldl (scatterGroup readDoc) res = setAll (entries readDoc gs) res := by
  induction gs generalizing res with
  | nil => rfl
  | cons g t ih =>
    simp only [List.foldl_cons, entries, List.flatMap_cons, setAll, List.foldl_append]
    rw [ih]; rfl

def GroupsWF (gs : List Group) : Prop := ∀ g, g ∈ gs → g.index.length = g.offsets.length

theorem addPos_wf (gs : List Group) (b o i : Nat) (h : GroupsWF gs) : GroupsWF (addPos gs b o i) := by
  induction gs with
  | nil => intro g hg; simp [addPos] at hg; subst hg; rfl
  | cons g t ih =>
    unfold addPos
    split
    · intro g' hg'
      rcases List.mem_cons.mp hg' with rfl | hm
      · simp [h g (by simp)]
      · exact h g' (by simp [hm])
    · intro g' hg'
      rcases List.mem_cons.mp hg' with rfl | hm
      · exact h g' (by simp)
      · exact ih (fun x hx => h x (by simp [hx])) g' hm

theorem entries_addPos {D : Type} (readDoc : Nat → Nat → D) (gs : List Group) (b o i : Nat) (h : GroupsWF gs) :
    (entries readDoc (addPos gs b o i)).Perm ((i, readDoc b o) :: entries readDoc gs) := by
  induction gs with
  | nil => simp [addPos, entries]
  | cons g t ih =>
    unfold addPos
    split
    · rename_i hb
      have hl := h g (by simp)
      simp only [entries, List.flatMap_cons, List.map_append, List.map_cons, List.map_nil]
      rw [List.zip_append (by simp [hl])]
      simp only [List.zip_cons_cons, List.zip_nil_right, hb]
      refine List.Perm.trans ?_ (List.perm_middle (l₁ := g.index.zip (g.offsets.map (readDoc b))))
      simp [List.append_assoc]
    · have ih' := ih (fun x hx => h x (by simp [hx]))
      simp only [entries, List.flatMap_cons] at *
      exact (List.Perm.append_left _ ih').trans List.perm_middle

/-- the entries `GroupDocsOffsets` will add for the positions `ps` whose first one has index `i` -/
def foundFrom {D : Type} (bits : Nat) (readDoc : Nat → Nat → D) : Nat → List Nat → List (Nat × D)
  | _, [] => []
  | i, p :: ps =>
    if p = notFound then foundFrom bits readDoc (i + 1) ps
    else (i, readDoc (unpackDocPos bits p).1 (unpackDocPos bits p).2) :: foundFrom bits readDoc (i + 1) ps

theorem groupGo_wf (bits : Nat) (gs : List Group) (i : Nat) (ps : List Nat) (h : GroupsWF gs) :
    GroupsWF (groupGo bits gs i ps) := by
  induction ps generalizing gs i with
  | nil => exact h
  | cons p t ih =>
    unfold groupGo
    split
    · exact ih _ _ h
    · exact ih _ _ (addPos_wf _ _ _ _ h)

theorem entries_groupGo {D : Type} (bits : Nat) (readDoc : Nat → Nat → D) (gs : List Group) (i : Nat)
    (ps : List Nat) (h : GroupsWF gs) :
    (entries readDoc (groupGo bits gs i ps)).Perm (entries readDoc gs ++ foundFrom bits readDoc i ps) := by
  induction ps generalizing gs i with
  | nil => simp [groupGo, foundFrom]
  | cons p t ih =>
    unfold groupGo foundFrom
    split
    · exact ih _ _ h
    · refine (ih _ _ (addPos_wf _ _ _ _ h)).trans ?_
      refine (List.Perm.append_right _ (entries_addPos readDoc gs _ _ i h)).trans ?_
      simp only [List.cons_append]
      exact List.perm_middle.symm

theorem foundFrom_ge {D : Type} (bits : Nat) (readDoc : Nat → Nat → D) (i : Nat) (ps : List Nat) :
    ∀ x, x ∈ foundFrom bits readDoc i ps → i ≤ x.1 := by
  induction ps generalizing i with
  | nil => intro x hx; cases hx
  | cons p t ih =>
    intro x hx
    unfold foundFrom at hx
    split at hx
    · have := ih (i + 1) x hx; omega
    · rcases List.mem_cons.mp hx with rfl | hm
      · exact Nat.le_refl _
      · have := ih (i + 1) x hm; omega

theorem foundFrom_nodup {D : Type} (bits : Nat) (readDoc : Nat → Nat → D) (i : Nat) (ps : List Nat) :
    ((foundFrom bits readDoc i ps).map Prod.fst).Nodup := by
  induction ps generalizing i with
  | nil => simp [foundFrom]
  | cons p t ih =>
    unfold foundFrom
    split
    · exact ih _
    · simp only [List.map_cons, List.nodup_cons]
      refine ⟨?_, ih _⟩
      intro hm
      rcases List.mem_map.mp hm with ⟨x, hx, hxi⟩
      have := foundFrom_ge bits readDoc (i + 1) t x hx
      omega

theorem foundFrom_mem {D : Type} (bits : Nat) (readDoc : Nat → Nat → D) (i : Nat) (ps : List Nat) (j : Nat)
    (hj : j < ps.length) (hp : ps[j] ≠ notFound) :
    (i + j, readDoc (unpackDocPos bits ps[j]).1 (unpackDocPos bits ps[j]).2) ∈ foundFrom bits readDoc i ps := by
  induction ps generalizing i j with
  | nil => cases hj
  | cons p t ih =>
    unfold foundFrom
    cases j with
    | zero =>
      simp only [List.getElem_cons_zero] at hp ⊢
      rw [if_neg hp]; simp
    | succ j =>
      simp only [List.getElem_cons_succ] at hp ⊢
      have := ih (i + 1) j (by simpa using hj) hp
      rw [show i + (j + 1) = i + 1 + j by omega]
      split
      · exact this
      · exact List.mem_cons_of_mem _ this

theorem foundFrom_not_mem {D : Type} (bits : Nat) (readDoc : Nat → Nat → D) (i : Nat) (ps : List Nat) (j : Nat)
    (hj : j < ps.length) (hp : ps[j] = notFound) :
    ∀ x, x ∈ foundFrom bits readDoc i ps → x.1 ≠ i + j := by
  induction ps generalizing i j with
  | nil => cases hj
  | cons p t ih =>
    intro x hx
    unfold foundFrom at hx
    cases j with
    | zero =>
      simp only [List.getElem_cons_zero] at hp
      rw [if_pos hp] at hx
      have := foundFrom_ge bits readDoc (i + 1) t x hx
      omega
    | succ j =>
      simp only [List.getElem_cons_succ] at hp
      have ih' := ih (i + 1) j (by simpa using hj) hp
      split at hx
      · have := ih' x hx; omega
      · rcases List.mem_cons.mp hx with rfl | hm
        · simp
        · have := ih' x hm; omega

/-- **`IndexFetch` returns, position by position, the document at the looked-up position or nothing** -/
theorem indexFetch_spec {D : Type} (bits : Nat) (readDoc : Nat → Nat → D) (ps : List Nat) :
    indexFetch bits readDoc ps = ps.map (posDoc bits readDoc) := by
  unfold indexFetch groupDocsOffsets
  rw [scatter_eq_setAll]
  have hperm := entries_groupGo bits readDoc [] 0 ps (fun g hg => by cases hg)
  simp only [entries, List.flatMap_nil, List.nil_append] at hperm
  have hnd : ((entries readDoc (groupGo bits [] 0 ps)).map Prod.fst).Nodup :=
    ((hperm.map Prod.fst).nodup_iff).mpr (foundFrom_nodup bits readDoc 0 ps)
  apply List.ext_getElem?
  intro k
  by_cases hk : k < ps.length
  · rw [List.getElem?_map, List.getElem?_eq_getElem hk, Option.map_some]
    by_cases hp : ps[k] = notFound
    · rw [setAll_not_mem]
      · simp [hk, posDoc, hp]
      · intro x hx
        have := foundFrom_not_mem bits readDoc 0 ps k hk hp x ((hperm.mem_iff).mp hx)
        omega
    · have hm := foundFrom_mem bits readDoc 0 ps k hk hp
      rw [Nat.zero_add] at hm
      rw [setAll_mem _ _ k _ hnd ((hperm.mem_iff).mpr hm) (by simp [hk])]
      simp [posDoc, hp]
  · have h1 : (ps.map (posDoc bits readDoc))[k]? = none := by simp; omega
    rw [h1]
    apply List.getElem?_eq_none
    rw [setAll_length]; simp; omega

end SV.Fetch

namespace SV.Fetch

/-! ## reading one block in several steps -/

/-- cut a list into consecutive pieces of at most `n` elements (`fuel` >= length) -/
def piecesOf {α : Type} (n : Nat) : Nat → List α → List (List α)
  | 0, _ => []
  | _ + 1, [] => []
  | fuel + 1, x :: xs => (x :: xs).take n :: piecesOf n fuel ((x :: xs).drop n)

theorem piecesOf_flatten {α : Type} (n : Nat) (hn : 1 ≤ n) (fuel : Nat) (l : List α) (hf : l.length ≤ fuel) :
    (piecesOf n fuel l).flatten = l := by
  induction fuel generalizing l with
  | zero =>
    have : l = [] := List.eq_nil_of_length_eq_zero (by omega)
    subst this; rfl
  | succ fuel ih =>
    cases l with
    | nil => rfl
    | cons x xs =>
      unfold piecesOf
      rw [List.flatten_cons, ih _ (by simp only [List.length_drop, List.length_cons] at *; omega),
        List.take_append_drop]

/-- one block read in steps of at most `n` (offset, destination) pairs: every step reads its offsets and stores each
document at the destination paired with ITS offset -/
def scatterGroupBatched {D : Type} (readDoc : Nat → Nat → D) (n : Nat) (res : List (Option D)) (g : Group) :
    List (Option D) :=
  (piecesOf n (g.index.zip g.offsets).length (g.index.zip g.offsets)).foldl
    (fun r piece => piece.foldl (fun r p => r.set p.1 (some (readDoc g.block p.2))) r) res

theorem foldl_pieces {α β : Type} (f : β → α → β) (ps : List (List α)) (b : β) :
    ps.foldl (fun r piece => piece.foldl f r) b = ps.flatten.foldl f b := by
  induction ps generalizing b with
  | nil => rfl
  | cons p t ih => simp only [List.foldl_cons, List.flatten_cons, List.foldl_append, ih]

/-- **the result of a block does not depend on how its requested documents are batched**: for every step size
`n >= 1` the stepwise read equals the single read - a batched implementation has to advance offsets and destinations
together -/
theorem scatterGroupBatched_eq {D : Type} (readDoc : Nat → Nat → D) (n : Nat) (hn : 1 ≤ n) (res : List (Option D))
    (g : Group) : scatterGroupBatched readDoc n res g = scatterGroup readDoc res g := by
  unfold scatterGroupBatched scatterGroup
  rw [foldl_pieces, piecesOf_flatten n hn _ _ (Nat.le_refl _)]
  rw [List.zip_map_right, List.foldl_map]
  rfl

end SV.Fetch
