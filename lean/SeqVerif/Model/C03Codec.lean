import SeqVerif.Model.Chunks
/-!
# C03 - byte level codecs used by the sealed index

* `putVarint` / `getVarint`: Go's `binary.PutVarint` / `binary.Varint` (zig-zag + LEB128, with the 10 byte overflow rule)
* `packBytes` / `unpackBytes`: `lids.Chunks.Pack` / `lids.Chunks.unpack` down to bytes (delta level is `SV.Chunks`)
* `packDocPos` / `unpackDocPos`: `seq.PackDocPos` / `DocPos.Unpack`
* `lidExt` / `lidExtLoad`: `lids.Block.GetExtForRegistry` / the loader's `loadLIDsBlocksTable` decoding
* `packDeltas` / `unpackDeltas`: `DiskIDsBlock.packMIDs|packPos`, `DiskPositionsBlock.pack` / `unpackRawIDsVarint` (uint64 wrap-around deltas)
Bytes are `Nat`s below 256.
-/
namespace SV.C03

/-! ## varint -/

/-- `binary.PutUvarint` -/
def uvarintEnc (n : Nat) : List Nat :=
  if n < 128 then [n] else (n % 128 + 128) :: uvarintEnc (n / 128)
termination_by n
decreasing_by omega

/-- `binary.Uvarint` loop: `i` = index of the byte, `acc` = x, shift s = 7*i.  `none` = "n <= 0" (short buffer or overflow). -/
def uvarintDecGo : List Nat → Nat → Nat → Option (Nat × List Nat)
  | [], _, _ => none
  | b :: rest, i, acc =>
    if i = 10 then none
    else if b < 128 then (if i = 9 ∧ b > 1 then none else some (acc + b * 2 ^ (7 * i), rest))
    else uvarintDecGo rest (i + 1) (acc + (b - 128) * 2 ^ (7 * i))

/-- zig-zag of `binary.PutVarint`: `ux := uint64(x) << 1; if x < 0 { ux = ^ux }` -/
def zig (x : Int) : Nat := if x ≥ 0 then (2 * x).toNat else (-2 * x - 1).toNat

/-- `x := int64(ux >> 1); if ux&1 != 0 { x = ^x }` -/
def zag (u : Nat) : Int := if u % 2 = 0 then ((u / 2 : Nat) : Int) else -((u / 2 : Nat) : Int) - 1

def putVarint (x : Int) : List Nat := uvarintEnc (zig x)

def getVarint (bs : List Nat) : Option (Int × List Nat) :=
  match uvarintDecGo bs 0 0 with
  | none => none
  | some r => some (zag r.1, r.2)

theorem uvarintEnc_ne_nil (n : Nat) : uvarintEnc n ≠ [] := by
  unfold uvarintEnc; split <;> simp

theorem uvarint_roundtrip_go (n : Nat) : ∀ (i acc : Nat) (rest : List Nat), i ≤ 9 → n < 2 ^ (64 - 7 * i) →
    uvarintDecGo (uvarintEnc n ++ rest) i acc = some (acc + n * 2 ^ (7 * i), rest) := by
  induction n using Nat.strongRecOn with
  | _ n ih =>
    intro i acc rest hi hn
    have hcases : i = 0 ∨ i = 1 ∨ i = 2 ∨ i = 3 ∨ i = 4 ∨ i = 5 ∨ i = 6 ∨ i = 7 ∨ i = 8 ∨ i = 9 := by omega
    unfold uvarintEnc
    by_cases hlt : n < 128
    · simp only [hlt, if_true, List.cons_append, List.nil_append, uvarintDecGo]
      have h10 : i ≠ 10 := by omega
      simp only [h10, if_false]
      have : ¬ (i = 9 ∧ n > 1) := by
        rintro ⟨rfl, h1⟩
        simp at hn
        omega
      simp [this]
    · simp only [hlt, if_false, List.cons_append, uvarintDecGo]
      have h10 : i ≠ 10 := by omega
      have hb : ¬ (n % 128 + 128 < 128) := by omega
      simp only [h10, if_false, hb]
      have hi8 : i ≤ 8 := by
        rcases hcases with rfl | rfl | rfl | rfl | rfl | rfl | rfl | rfl | rfl | rfl <;> simp at hn <;> omega
      have hdiv : n / 128 < 2 ^ (64 - 7 * (i + 1)) := by
        rcases hcases with rfl | rfl | rfl | rfl | rfl | rfl | rfl | rfl | rfl | rfl <;> simp at hn ⊢ <;> omega
      rw [ih (n / 128) (by omega) (i + 1) _ rest (by omega) hdiv]
      congr 2
      rcases hcases with rfl | rfl | rfl | rfl | rfl | rfl | rfl | rfl | rfl | rfl <;> simp <;> omega

theorem zag_zig (x : Int) : zag (zig x) = x := by
  unfold zag zig
  by_cases h : x ≥ 0
  · simp only [h, if_true]
    have : (2 * x).toNat % 2 = 0 := by omega
    simp only [this, if_true]
    omega
  · simp only [h, if_false]
    have : (-2 * x - 1).toNat % 2 ≠ 0 := by omega
    simp only [this, if_false]
    omega

theorem zig_lt (x : Int) (h1 : -9223372036854775808 ≤ x) (h2 : x < 9223372036854775808) :
    zig x < 18446744073709551616 := by
  unfold zig; split <;> omega

/-- **varint round trip** for every int64 -/
theorem varint_roundtrip (x : Int) (rest : List Nat) (h1 : -9223372036854775808 ≤ x) (h2 : x < 9223372036854775808) :
    getVarint (putVarint x ++ rest) = some (x, rest) := by
  unfold getVarint putVarint
  rw [uvarint_roundtrip_go (zig x) 0 0 rest (by omega) (by simpa using zig_lt x h1 h2)]
  simp [zag_zig]

/-- decode a whole buffer as a sequence of varints (`for data.Len() > 0 { GetVarint }`); fuel = byte count -/
def decodeAllGo : Nat → List Nat → Option (List Int)
  | _, [] => some []
  | 0, _ :: _ => none
  | fuel + 1, b :: bs =>
    match getVarint (b :: bs) with
    | none => none
    | some r => (decodeAllGo fuel r.2).map (r.1 :: ·)

def decodeAll (bs : List Nat) : Option (List Int) := decodeAllGo bs.length bs

def encodeAll (ds : List Int) : List Nat := ds.flatMap putVarint

def I64 (x : Int) : Prop := -9223372036854775808 ≤ x ∧ x < 9223372036854775808

theorem putVarint_ne_nil (x : Int) : putVarint x ≠ [] := uvarintEnc_ne_nil _

theorem decodeAllGo_encodeAll (ds : List Int) (h : ∀ d, d ∈ ds → I64 d) :
    ∀ fuel, ds.length ≤ fuel → decodeAllGo fuel (encodeAll ds) = some ds := by
  induction ds with
  | nil => intro fuel _; simp [encodeAll, decodeAllGo]
  | cons d ds ih =>
    intro fuel hf
    cases fuel with
    | zero => simp at hf
    | succ fuel =>
      have hd := h d (by simp)
      have hrt := varint_roundtrip d (encodeAll ds) hd.1 hd.2
      simp only [encodeAll, List.flatMap_cons] at hrt ⊢
      cases hp : putVarint d with
      | nil => exact absurd hp (putVarint_ne_nil d)
      | cons b bs =>
        rw [hp] at hrt
        simp only [List.cons_append, decodeAllGo]
        simp only [List.cons_append] at hrt
        rw [hrt]
        have := ih (fun x hx => h x (List.mem_cons_of_mem _ hx)) fuel (by simpa using hf)
        simp only [encodeAll] at this
        simp [this]

theorem length_le_encodeAll (ds : List Int) : ds.length ≤ (encodeAll ds).length := by
  induction ds with
  | nil => simp [encodeAll]
  | cons d ds ih =>
    simp only [encodeAll, List.flatMap_cons, List.length_append, List.length_cons] at ih ⊢
    have : 0 < (putVarint d).length := List.length_pos_iff.mpr (putVarint_ne_nil d)
    omega

theorem decodeAll_encodeAll (ds : List Int) (h : ∀ d, d ∈ ds → I64 d) : decodeAll (encodeAll ds) = some ds :=
  decodeAllGo_encodeAll ds h _ (length_le_encodeAll ds)

/-! ## lids.Chunks down to bytes -/

open SV.Chunks in
def packBytes (cs : List (List Nat)) (isLast : Bool) : List Nat := encodeAll (pack cs isLast 0)

open SV.Chunks in
/-- `Chunks.unpack`: `none` = a varint error -/
def unpackBytes (bs : List Nat) : Option (List (List Nat) × Bool) := (decodeAll bs).map unpack

open SV.Chunks in
theorem packChunk_range (c : List Nat) (hc : Small c) (last : Nat) (hl : last < marker) :
    (∀ d, d ∈ (packChunk c last).1 → I64 d) ∧ (packChunk c last).2 < marker := by
  induction c generalizing last with
  | nil => simp [packChunk]; exact hl
  | cons l rest ih =>
    have hlt : l < marker := hc l (by simp)
    have := ih (fun x hx => hc x (List.mem_cons_of_mem _ hx)) l hlt
    simp only [packChunk]
    refine ⟨?_, this.2⟩
    intro d hd
    rcases List.mem_cons.mp hd with rfl | hd
    · unfold marker at *; unfold I64; omega
    · exact this.1 d hd

open SV.Chunks in
theorem pack_range (cs : List (List Nat)) (isLast : Bool) (hs : ∀ c, c ∈ cs → Small c) :
    ∀ last, last < marker → ∀ d, d ∈ pack cs isLast last → I64 d := by
  induction cs with
  | nil => intro last _ d hd; simp [pack] at hd
  | cons c cs ih =>
    intro last hl d hd
    have hp := packChunk_range c (hs c (by simp)) last hl
    have hmark : I64 ((-1 : Int) - (packChunk c last).2) := by
      have := hp.2; unfold marker at this; unfold I64; omega
    cases cs with
    | nil =>
      simp only [pack] at hd
      split at hd
      · rcases List.mem_append.mp hd with hd | hd
        · exact hp.1 d hd
        · simp at hd; subst hd; exact hmark
      · exact hp.1 d hd
    | cons c' cs' =>
      simp only [pack, List.mem_append, List.mem_cons, List.not_mem_nil, or_false] at hd
      rcases hd with (hd | hd) | hd
      · exact hp.1 d hd
      · subst hd; exact hmark
      · exact ih (fun x hx => hs x (List.mem_cons_of_mem _ hx)) _ hp.2 d hd

open SV.Chunks in
/-- **chunk codec round trip at byte level**: for every chunk list the block generator can emit
(LIDs below MaxUint32, at least one chunk, last chunk non-empty unless IsLastLID) -/
theorem chunks_roundtrip (cs : List (List Nat)) (isLast : Bool) (hne : cs ≠ [])
    (hs : ∀ c, c ∈ cs → Small c) (hlast : isLast = false → cs.getLast hne ≠ []) :
    unpackBytes (packBytes cs isLast) = some (cs, isLast) := by
  unfold unpackBytes packBytes
  rw [decodeAll_encodeAll _ (pack_range cs isLast hs 0 (by decide))]
  simp [unpack_pack cs isLast hne hs hlast]

/-! ## DocPos -/

def docOffsetBits : Nat := 30

/-- `seq.PackDocPos` (the panic for offset > maxDocOffset is `none`); 1073741824 = 2^30 -/
def packDocPos (blockIndex offset : Nat) : Option Nat :=
  if offset > 1073741823 then none else some (blockIndex * 1073741824 + offset + 1)

/-- `DocPos.Unpack`: `pos--`, `uint32(pos >> 30)`, `pos & mask` -/
def unpackDocPos (pos : Nat) : Nat × Nat := ((pos - 1) / 1073741824 % 4294967296, (pos - 1) % 1073741824)

theorem docpos_roundtrip (b off : Nat) (hb : b < 4294967296) (ho : off ≤ 1073741823) :
    (packDocPos b off).map unpackDocPos = some (b, off) := by
  have ho' : ¬ off > 1073741823 := by omega
  simp only [packDocPos, ho', if_false, Option.map_some, unpackDocPos, Option.some.injEq, Prod.mk.injEq]
  omega

/-- a packed position is never the "not found" value `math.MaxUint64` and never 0 -/
theorem docpos_found (b off p : Nat) (hb : b < 4294967296) (h : packDocPos b off = some p) :
    p ≠ 18446744073709551615 ∧ p ≠ 0 := by
  unfold packDocPos at h
  split at h
  · simp at h
  · simp at h; omega

/-! ## registry extents of a LID block -/

/-- `lids.Block.GetExtForRegistry`: `(ext1, ext2)` -/
def lidExt (minTID maxTID : Nat) (isContinued : Bool) : Nat × Nat :=
  (if isContinued then 1 else 0, maxTID * 4294967296 + minTID)

/-- `Loader.loadLIDsBlocksTable`: `(minTID, maxTID, isContinued)` from `(ext1, ext2)` -/
def lidExtLoad (ext : Nat × Nat) : Nat × Nat × Bool :=
  (ext.2 % 4294967296, ext.2 / 4294967296 % 4294967296, ext.1 == 1)

theorem registry_ext_roundtrip (minTID maxTID : Nat) (c : Bool) (h1 : minTID < 4294967296) (h2 : maxTID < 4294967296) :
    lidExtLoad (lidExt minTID maxTID c) = (minTID, maxTID, c) := by
  simp only [lidExtLoad, lidExt, Prod.mk.injEq]
  refine ⟨by omega, by omega, ?_⟩
  cases c <;> simp

/-! ## uint64 delta varints (MIDs, positions, doc block offsets) -/

def W64 : Nat := 18446744073709551616

/-- `int64(v - prev)` for uint64 `v`, `prev` -/
def delta64 (v prev : Nat) : Int :=
  let d := (v + W64 - prev) % W64
  if d < 9223372036854775808 then (d : Int) else (d : Int) - 18446744073709551616

/-- `packMIDs` / `packPos` / `DiskPositionsBlock.pack` body: `PutVarint(int64(v - prev)); prev = v` -/
def deltas64 : List Nat → Nat → List Int
  | [], _ => []
  | v :: vs, prev => delta64 v prev :: deltas64 vs v

def packDeltas (vs : List Nat) : List Nat := encodeAll (deltas64 vs 0)

/-- `unpackRawIDsVarint`: `id += uint64(delta)` -/
def undeltas64 : List Int → Nat → List Nat
  | [], _ => []
  | d :: ds, id =>
    let id' := (((id : Int) + d) % 18446744073709551616).toNat
    id' :: undeltas64 ds id'

def unpackDeltas (bs : List Nat) : Option (List Nat) := (decodeAll bs).map (undeltas64 · 0)

theorem delta64_I64 (v prev : Nat) : I64 (delta64 v prev) := by
  unfold delta64 I64 W64
  simp only
  split <;> omega

theorem deltas64_I64 (vs : List Nat) : ∀ prev d, d ∈ deltas64 vs prev → I64 d := by
  induction vs with
  | nil => intro _ d hd; simp [deltas64] at hd
  | cons v vs ih =>
    intro prev d hd
    simp only [deltas64, List.mem_cons] at hd
    rcases hd with rfl | hd
    · exact delta64_I64 _ _
    · exact ih _ _ hd

theorem undeltas_deltas (vs : List Nat) (h : ∀ v, v ∈ vs → v < W64) :
    ∀ prev, prev < W64 → undeltas64 (deltas64 vs prev) prev = vs := by
  induction vs with
  | nil => intro _ _; rfl
  | cons v vs ih =>
    intro prev hp
    have hv := h v (by simp)
    simp only [deltas64, undeltas64]
    have : (((prev : Int) + delta64 v prev) % 18446744073709551616).toNat = v := by
      unfold delta64 W64 at *
      simp only
      split <;> omega
    rw [this, ih (fun x hx => h x (List.mem_cons_of_mem _ hx)) v hv]

/-- **delta/varint round trip for uint64 sequences** (MIDs need not be monotone: the delta wraps) -/
theorem deltas_roundtrip (vs : List Nat) (h : ∀ v, v ∈ vs → v < W64) : unpackDeltas (packDeltas vs) = some vs := by
  unfold unpackDeltas packDeltas
  rw [decodeAll_encodeAll _ (deltas64_I64 vs 0)]
  simp [undeltas_deltas vs h 0 (by decide)]


end SV.C03
