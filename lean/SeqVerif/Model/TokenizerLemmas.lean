import SeqVerif.Model.Tokenizer
import SeqVerif.Model.SeqQLFilterLemmas
/-!
Lemmas for C11: `toLowerTryInplace` is the rune-wise lower-case map; the index-side word / keyword / path tokens are
byte-for-byte the UTF-8 of the terms the query-side builders make of the same runes.
`enc : Nat → List Nat` is the UTF-8 encoder (`utf8.AppendRune`), a parameter.
-/
namespace SV.Tok
open SV.Parser

/-- what Go guarantees about one decoded rune (checked over all code points by the harness' `unicode` oracle):
the recorded encodings are those of `ToLower`, `ToLower` is idempotent, and on ASCII the tokenizer's byte tables are
the `unicode` functions -/
structure WF (enc : Nat → List Nat) (r : TRn) : Prop where
  lower1 : r.lowerBytes = enc r.r.lower
  lower2 : r.lower2Bytes = enc r.r.lower
  ascii : isAsciiRn r = true → enc r.r.lower = [asciiLower r.r.cp] ∧ r.r.bytes = [r.r.cp] ∧
    r.r.letter = (decide (97 ≤ r.r.cp ∧ r.r.cp ≤ 122) || decide (65 ≤ r.r.cp ∧ r.r.cp ≤ 90)) ∧
    r.r.number = decide (48 ≤ r.r.cp ∧ r.r.cp ≤ 57)
  /-- the decoder yields ASCII code points only from single bytes (over-long encodings are invalid) -/
  asciiWidth : r.r.cp < 128 → r.r.bytes.length = 1
  /-- letters, numbers and ASCII come from valid sequences (an invalid one decodes to U+FFFD, which is neither) -/
  validIfClass : (r.r.letter = true ∨ r.r.number = true ∨ isAsciiRn r = true) → r.r.bytes = enc r.r.cp
  /-- re-encoding what was decoded: the same bytes for a valid sequence, EF BF BD for an invalid byte -/
  normEnc : normBytes r = enc r.r.cp

/-- the rune is a valid UTF-8 sequence: its bytes are the encoding of its code point -/
def Valid (enc : Nat → List Nat) (r : TRn) : Prop := r.r.bytes = enc r.r.cp

theorem mem_takeWhile_mem {β : Type} (p : β → Bool) (l : List β) (x : β) (h : x ∈ l.takeWhile p) : x ∈ l :=
  (List.takeWhile_sublist p).subset h

theorem mem_dropWhile_mem {β : Type} (p : β → Bool) (l : List β) (x : β) (h : x ∈ l.dropWhile p) : x ∈ l :=
  (List.dropWhile_sublist p).subset h

theorem flatMap_congr {β γ : Type} (l : List β) (f g : β → List γ) (h : ∀ x, x ∈ l → f x = g x) : l.flatMap f = l.flatMap g := by
  induction l with
  | nil => rfl
  | cons a l ih =>
    simp only [List.flatMap_cons]
    rw [h a (by simp), ih (fun x hx => h x (by simp [hx]))]

/-- **`toLowerTryInplace` = rune-wise `unicode.ToLower`**, in place or through the `bytes.Map` fallback -/
theorem lowerTok_eq (enc : Nat → List Nat) (rs : List TRn) (h : ∀ r, r ∈ rs → WF enc r) :
    lowerTok rs = rs.flatMap fun r => enc r.r.lower := by
  unfold lowerTok
  split
  · have h1 : (rs.takeWhile fun r => !widthChange r).flatMap mapAfterInplace
        = (rs.takeWhile fun r => !widthChange r).flatMap fun r => enc r.r.lower := by
      apply flatMap_congr
      intro x hx
      have hw := h x (mem_takeWhile_mem _ _ _ hx)
      unfold mapAfterInplace
      split
      · rename_i ha; exact (hw.ascii ha).1.symm
      · exact hw.lower2
    have h2 : (rs.dropWhile fun r => !widthChange r).flatMap (·.lowerBytes)
        = (rs.dropWhile fun r => !widthChange r).flatMap fun r => enc r.r.lower := by
      apply flatMap_congr
      intro x hx
      exact (h x (mem_dropWhile_mem _ _ _ hx)).lower1
    rw [h1, h2, ← List.flatMap_append, List.takeWhile_append_dropWhile]
  · apply flatMap_congr
    intro x hx
    have hw := h x hx
    unfold inplaceLower
    split
    · rename_i ha; exact (hw.ascii ha).1.symm
    · exact hw.lower1

/-- bytes of the text term a query-side builder makes of runes: code points, lower-cased unless case sensitive -/
def termBytes (enc : Nat → List Nat) (data : List Nat) : List Nat := data.flatMap enc

/-- **index token = query term** for any run of runes: the bytes `toLowerIfCaseInsensitive` produces are the UTF-8 of
the code points the query side puts into its term (`lowerIf`), provided - in case-sensitive mode - the runes are valid
UTF-8 (an invalid byte stays a raw byte in the index but is U+FFFD in every query term) -/
theorem token_eq_term (enc : Nat → List Nat) (cs norm : Bool) (rs : List TRn) (hwf : ∀ r, r ∈ rs → WF enc r)
    (hvalid : cs = true → norm = false → ∀ r, r ∈ rs → Valid enc r) :
    lowerIfCI cs norm rs = termBytes enc (lowerIf cs (rs.map (·.r))) := by
  unfold lowerIfCI termBytes lowerIf
  cases cs with
  | true =>
    cases norm with
    | true =>
      simp only [if_true, List.map_map, List.flatMap_map]
      apply flatMap_congr
      intro x hx
      exact (hwf x hx).normEnc
    | false =>
      simp only [if_true, Bool.false_eq_true, if_false, bytesOf, List.map_map, List.flatMap_map]
      apply flatMap_congr
      intro x hx
      exact hvalid rfl rfl x hx
  | false =>
    simp only [Bool.false_eq_true, if_false, List.map_map, List.flatMap_map]
    rw [lowerTok_eq enc rs hwf]
    rfl

/-! ## classes agree -/

/-- the tokenizer's notion of a word byte/rune is the parsers' (`parseSeqQLText`, `textTokenBuilder.isIndexed`) -/
theorem isTextRn_eq_isWordRune (enc : Nat → List Nat) (r : TRn) (h : WF enc r) : isTextRn r = isWordRune r.r := by
  unfold isTextRn isWordRune
  split
  · rename_i ha
    obtain ⟨_, _, hl, hn⟩ := h.ascii ha
    rw [hl, hn]
  · rename_i ha
    -- a non-ASCII rune is neither '_' nor '*'
    have hc : ¬ r.r.cp < 128 := by
      intro hc
      have := h.asciiWidth hc
      simp [isAsciiRn, hc, this] at ha
    have h1 : ¬ (r.r.cp = 95) := by omega
    have h2 : ¬ (r.r.cp = 42) := by omega
    simp [h1, h2]


/-! ## the query-side builders on a run of runes -/

theorem foldl_textStep_words (cs : Bool) (ws : List Rn) (h : ∀ r, r ∈ ws → isWordRune r = true) (s : TextSt) :
    ws.foldl (textStep cs) s = { s with term := s.term ++ ws } := by
  induction ws generalizing s with
  | nil => simp
  | cons r rest ih =>
    rw [List.foldl_cons]
    have hr := h r (by simp)
    rw [show textStep cs s r = { s with term := s.term ++ [r] } by simp [textStep, hr]]
    rw [ih (fun x hx => h x (by simp [hx]))]
    simp

/-- `parseSeqQLText` on a non-empty run of word runes: one literal with one text term -/
theorem seqqlText_word (cs : Bool) (ws : List Rn) (hne : ws ≠ []) (h : ∀ r, r ∈ ws → isWordRune r = true) :
    seqqlText cs ws = [[⟨false, lowerIf cs ws⟩]] := by
  unfold seqqlText
  have he : ws.isEmpty = false := by cases ws <;> simp_all
  simp only [he, Bool.false_eq_true, if_false]
  rw [foldl_textStep_words cs ws h]
  simp [TextSt.flushTerm, he]

theorem keywordLoop_plain (cs : Bool) (ws buf : List Rn) (hnw : ∀ r, r ∈ ws → r.cp ≠ wildcardCp) (hne : buf ++ ws ≠ []) :
    keywordLoop cs buf ws = [⟨false, lowerIf cs (buf ++ ws)⟩] := by
  induction ws generalizing buf with
  | nil =>
    have : buf.isEmpty = false := by cases buf <;> simp_all
    simp [keywordLoop, this]
  | cons r rest ih =>
    have hr := hnw r (by simp)
    simp only [keywordLoop, hr, if_false]
    rw [ih (buf ++ [r]) (fun x hx => hnw x (by simp [hx])) (by simp)]
    simp

/-- `parseSeqQLKeyword` on a non-empty value without wildcard: one text term -/
theorem seqqlKeyword_plain (cs : Bool) (ws : List Rn) (hne : ws ≠ []) (hnw : ∀ r, r ∈ ws → r.cp ≠ wildcardCp) :
    seqqlKeyword cs ws = [⟨false, lowerIf cs ws⟩] := by
  unfold seqqlKeyword
  have he : ws.isEmpty = false := by cases ws <;> simp_all
  simp only [he, Bool.false_eq_true, if_false]
  simpa using keywordLoop_plain cs ws [] hnw (by simpa using hne)

/-- the legacy keyword / text builders fed the same runes (`appendRuneInternal`) end with the same single term -/
theorem legacy_builder_word (cs : Bool) (ws : List Rn) (hne : ws ≠ []) :
    (ws.foldl TB.appendRuneInternal ⟨cs, [], [], []⟩).getTokens = [[⟨false, lowerIf cs ws⟩]] := by
  have key : ∀ (ws : List Rn) (b : TB), ws.foldl TB.appendRuneInternal b
      = { b with term := b.term ++ ws.map fun r => if b.cs then r.cp else r.lower } := by
    intro ws
    induction ws with
    | nil => intro b; simp
    | cons r rest ih =>
      intro b
      rw [List.foldl_cons, ih]
      simp [TB.appendRuneInternal, List.append_assoc]
      intro a _; rfl
  rw [key]
  have he : (ws.map fun r => if cs = true then r.cp else r.lower).isEmpty = false := by cases ws <;> simp_all
  simp [TB.getTokens, TB.finishToken, TB.finishTextTerm, he, lowerIf]

/-! ## words, prefixes, truncation -/

theorem textWords_mem (v cur : List TRn) (w : List TRn) (h : w ∈ textWords cur v) :
    ∀ r, r ∈ w → r ∈ cur ∨ isTextRn r = true := by
  induction v generalizing cur with
  | nil =>
    simp only [textWords, List.mem_singleton] at h
    subst h; intro r hr; exact Or.inl hr
  | cons x rest ih =>
    simp only [textWords] at h
    split at h
    · rename_i hx
      intro r hr
      rcases ih (cur ++ [x]) h r hr with h1 | h1
      · simp only [List.mem_append, List.mem_singleton] at h1
        rcases h1 with h1 | h1
        · exact Or.inl h1
        · right; rw [h1]; exact hx
      · exact Or.inr h1
    · simp only [List.mem_cons] at h
      rcases h with h | h
      · subst h; intro r hr; exact Or.inl hr
      · intro r hr
        rcases ih [] h r hr with h1 | h1
        · simp at h1
        · exact Or.inr h1

theorem bytesOf_cons (r : TRn) (rs : List TRn) : bytesOf (r :: rs) = r.r.bytes ++ bytesOf rs := by
  simp [bytesOf]

/-- truncation is byte exact: the runes of `value[:n]` spell exactly the first `n` bytes -/
theorem truncRunes_bytes (rs : List TRn) (n : Nat) : bytesOf (truncRunes rs n) = (bytesOf rs).take n := by
  induction rs generalizing n with
  | nil => simp [truncRunes, bytesOf]
  | cons r rest ih =>
    simp only [truncRunes]
    split
    · rename_i hle
      rw [bytesOf_cons, bytesOf_cons, ih, List.take_append]
      rw [List.take_of_length_le hle]
    · rename_i hgt
      rw [bytesOf_cons, List.take_append]
      have : n - r.r.bytes.length = 0 := by omega
      rw [this, List.take_zero, List.append_nil]
      simp only [bytesOf, List.flatMap_map]
      induction (List.take n r.r.bytes) with
      | nil => rfl
      | cons b bs ihb => simp [invalidRn, ihb]

theorem truncRunes_full (rs : List TRn) (n : Nat) (h : blen rs ≤ n) : truncRunes rs n = rs := by
  induction rs generalizing n with
  | nil => simp [truncRunes]
  | cons r rest ih =>
    simp only [blen, bytesOf_cons, List.length_append] at h
    have h1 : r.r.bytes.length ≤ n := by omega
    simp only [truncRunes, h1, if_true]
    rw [ih (n - r.r.bytes.length) (by simp only [blen]; omega)]

/-- every proper prefix of the path that ends right before a separator is emitted -/
theorem pathPrefixes_mem (acc p rest : List TRn) (sep : TRn) (first : Bool) (hs : sep.r.cp = 47 ∧ sep.r.bytes = [47])
    (hp : p ≠ [] ∨ first = false) :
    (acc ++ p) ∈ pathPrefixes first acc (p ++ sep :: rest) := by
  induction p generalizing acc first with
  | nil =>
    have hf : first = false := by rcases hp with h | h; exact absurd rfl h; exact h
    simp [pathPrefixes, hs.1, hs.2, hf]
  | cons x xs ih =>
    simp only [List.cons_append, pathPrefixes]
    have := ih (acc ++ [x]) false (Or.inr rfl)
    simp only [List.append_assoc, List.singleton_append] at this
    split
    · exact List.mem_cons_of_mem _ this
    · exact this


/-! ## multi-type fields -/

theorem convertLoop_all (fn : List Nat) (types : List TypeIn) (seen : List (List Nat)) (main : Option MType) (all : List MType)
    (m : Option MType) (a : List MType) (h : convertLoop fn types seen main all = some (m, a)) :
    a = all ++ types.map (fun t => ⟨if t.title.isEmpty then fn else fn ++ [46] ++ t.title, t.tt, t.size⟩) := by
  induction types generalizing seen main all with
  | nil => simp [convertLoop] at h; simp [h.2]
  | cons t rest ih =>
    simp only [convertLoop] at h
    split at h
    · simp at h
    · rw [ih _ _ _ h]; simp

theorem convertLoop_main (fn : List Nat) (types : List TypeIn) (seen : List (List Nat)) (main : Option MType) (all : List MType)
    (m : MType) (a : List MType) (h : convertLoop fn types seen main all = some (some m, a)) :
    (∃ t, t ∈ types ∧ t.title = [] ∧ m = ⟨fn, t.tt, t.size⟩) ∨ main = some m := by
  induction types generalizing seen main all with
  | nil => simp [convertLoop] at h; exact Or.inr h.1
  | cons t rest ih =>
    simp only [convertLoop] at h
    split at h
    · simp at h
    · rcases ih _ _ _ h with ⟨t', ht', h1, h2⟩ | hm
      · exact Or.inl ⟨t', by simp [ht'], h1, h2⟩
      · by_cases he : t.title.isEmpty = true
        · simp only [he, if_true, Option.some.injEq] at hm
          exact Or.inl ⟨t, by simp, by simpa using he, hm.symm⟩
        · simp only [he] at hm
          exact Or.inr hm

end SV.Tok
