/-!
# `SourcedNodeIterator.ValueBySource` (frac/processor/aggregator.go) - the token text of an aggregation source (C05)

A source is the position of a token in the fraction's list of the aggregated field's tokens; `tids[source]` is its TID in
this fraction (TIDs are numbered per fraction), `tokens` the fraction's token table.  Sources seen at least twice go
through `tokensCache`; the cache is keyed by the SOURCE for reads and for the write, so it is an identity.
-/
namespace SV.AggSource

/-- `string(s.ti.GetValByTID(tid))` -/
def tokenOf (tokens : List String) (tid : Nat) : String := tokens.getD tid ""

def lookup (cache : List (Nat × String)) (k : Nat) : Option String := (cache.find? (·.1 = k)).map (·.2)

/-- `ValueBySource` with read key `rk source` and write key `wk source` of the cache (both `source` in the source) -/
def valueBySource (rk wk : Nat → Nat) (tokens : List String) (tids : List Nat) (count : Nat → Nat)
    (cache : List (Nat × String)) (source : Nat) : String × List (Nat × String) :=
  if count source < 2 then (tokenOf tokens (tids.getD source 0), cache)
  else
    match lookup cache (rk source) with
    | some v => (v, cache)
    | none => (tokenOf tokens (tids.getD source 0), (wk source, tokenOf tokens (tids.getD source 0)) :: cache)

/-- every cached text is the text of its key's source -/
def CacheOK (tokens : List String) (tids : List Nat) (cache : List (Nat × String)) : Prop :=
  ∀ k v, (k, v) ∈ cache → v = tokenOf tokens (tids.getD k 0)

theorem lookup_mem (cache : List (Nat × String)) (k : Nat) (v : String) (h : lookup cache k = some v) : (k, v) ∈ cache := by
  unfold lookup at h
  cases hf : cache.find? (·.1 = k) with
  | none => simp [hf] at h
  | some p =>
    simp only [hf, Option.map_some, Option.some.injEq] at h
    have hm := List.mem_of_find?_eq_some hf
    have hk := List.find?_some hf
    simp only [decide_eq_true_eq] at hk
    obtain ⟨a, b⟩ := p
    simp only at hk h
    subst hk h
    exact hm

/-- **the cache is an identity**: with the same key expression for reads and the write, the value returned for a
source is `tokens[tids[source]]` whatever was cached before (any call history), and the cache stays consistent -/
theorem valueBySource_id (tokens : List String) (tids : List Nat) (count : Nat → Nat) (cache : List (Nat × String))
    (source : Nat) (h : CacheOK tokens tids cache) :
    (valueBySource id id tokens tids count cache source).1 = tokenOf tokens (tids.getD source 0) ∧
    CacheOK tokens tids (valueBySource id id tokens tids count cache source).2 := by
  unfold valueBySource
  split
  · exact ⟨rfl, h⟩
  · cases hl : lookup cache (id source) with
    | some v => exact ⟨h source v (lookup_mem cache source v hl), h⟩
    | none =>
      refine ⟨rfl, ?_⟩
      intro k v hm
      rcases List.mem_cons.mp hm with e | e
      · cases e; rfl
      · exact h k v e

/-- a read key that differs from the write key breaks it: sources 0, 1 with TIDs 1, 0 over tokens ["x", "y"]; after
source 0 ("y") was cached under key 0, reading source 1 with key `tids[1] = 0` returns "y" instead of "x" -/
theorem valueBySource_mismatch_witness :
    (valueBySource (fun s => [1, 0].getD s 0) id ["x", "y"] [1, 0] (fun _ => 2)
      (valueBySource (fun s => [1, 0].getD s 0) id ["x", "y"] [1, 0] (fun _ => 2) [] 0).2 1).1 = "y" ∧
    tokenOf ["x", "y"] ([1, 0].getD 1 0) = "x" := by decide

end SV.AggSource
