import SeqVerif.Model.WritePathLemmas
/-!
# C01 - the history invariant and its preservation by every event
-/
namespace SV.WPath

/-- the running store holds exactly the complete bulks `bs` (in file order), followed in the docs file by `junk`
(bytes of an incomplete bulk) and in the meta file by a torn tail -/
structure InvD (st : St) (bs : List (Blk × Blk)) (junk torn : Bytes) : Prop where
  up : st.panicked = false
  docs : st.docs = docsOf bs ++ junk
  mfile : st.mfile = metaOf bs 0 ++ torn
  idx : st.idx = entriesOf bs 0
  offD : st.offD = st.docs.length
  offM : st.offM = st.mfile.length
  wf : AllWF bs
  torn : TornOK torn

theorem inv_init : InvD init [] [] [] :=
  ⟨rfl, rfl, rfl, rfl, rfl, rfl, fun _ h => by simp at h, .inl rfl⟩

theorem restart_inv (bs : List (Blk × Blk)) (junk torn docs mfile : Bytes) (hwf : AllWF bs) (ht : TornOK torn)
    (hd : docs = docsOf bs ++ junk) (hm : mfile = metaOf bs 0 ++ torn) :
    InvD (restart false docs mfile) bs junk torn ∧ InvD (restart true docs mfile) bs [] [] := by
  subst hd; subst hm
  have hr := replay_stamped bs hwf torn ht
  constructor
  · simp only [restart, hr]
    exact ⟨rfl, rfl, rfl, rfl, rfl, rfl, hwf, ht⟩
  · simp only [restart, hr]
    refine ⟨rfl, ?_, ?_, rfl, rfl, rfl, hwf, .inl rfl⟩
    · simp
    · simp

theorem append_inv (st : St) (bs : List (Blk × Blk)) (d m : Blk) (h : InvD st bs [] []) (hd : d.WF) (hm : m.WF) :
    InvD (append st (enc d) (enc m)) (bs ++ [(d, m)]) [] [] := by
  have hdocs : st.docs = docsOf bs := by simpa using h.docs
  have hmf : st.mfile = metaOf bs 0 := by simpa using h.mfile
  have hoffD : st.offD = (docsOf bs).length := by rw [h.offD, hdocs]
  have hone : metaOf [(d, m)] (docsOf bs).length = enc { m with ext1 := (enc d).length, ext2 := (docsOf bs).length } := by
    simp [metaOf, stamped]
  refine ⟨h.up, ?_, ?_, ?_, ?_, ?_, ?_, .inl rfl⟩
  · simp only [append, h.offD, writeAt_end, hdocs, docsOf_append, List.append_nil]
    simp [docsOf]
  · simp only [append, h.offM, writeAt_end, hmf, metaOf_append, List.append_nil, Nat.zero_add, hone,
      stampMeta_enc, hoffD]
  · simp only [append, h.idx, entriesOf_append, Nat.zero_add, stampMeta_enc, hoffD]
    simp [entriesOf, stamped]
  · simp only [append, h.offD, writeAt_end, List.length_append]
  · simp only [append, h.offM, writeAt_end, List.length_append]
  · intro b hb
    simp only [List.mem_append, List.mem_singleton] at hb
    rcases hb with hb | hb
    · exact h.wf b hb
    · subst hb; exact ⟨hd, hm⟩

/-- the files a crash inside a bulk leaves behind: the old complete bulks, possibly the new one, possibly debris -/
theorem crashDisk_shape (st : St) (bs : List (Blk × Blk)) (d m : Blk) (pt : CrashPt) (h : InvD st bs [] [])
    (hd : d.WF) (hm : m.WF) :
    ∃ junk torn, TornOK torn ∧ AllWF (bs ++ completeOf [.tornBulk d m pt]) ∧
      (crashDisk st (enc d) (enc m) pt).1 = docsOf (bs ++ completeOf [.tornBulk d m pt]) ++ junk ∧
      (crashDisk st (enc d) (enc m) pt).2 = metaOf (bs ++ completeOf [.tornBulk d m pt]) 0 ++ torn ∧
      (dirty m pt = false → junk = [] ∧ torn = []) := by
  have hdocs : st.docs = docsOf bs := by simpa using h.docs
  have hmf : st.mfile = metaOf bs 0 := by simpa using h.mfile
  have hoffD : st.offD = (docsOf bs).length := by rw [h.offD, hdocs]
  cases pt with
  | docsTorn k =>
    refine ⟨(enc d).take k, [], .inl rfl, ?_, ?_, ?_, ?_⟩
    · simpa [completeOf] using h.wf
    · simp [crashDisk, completeOf, h.offD, writeAt_end, hdocs]
    · simp [crashDisk, completeOf, hmf]
    · intro hk
      have : k = 0 := by simpa [dirty] using hk
      subst this; simp
  | metaTorn k =>
    have hst : stampMeta (enc m) (enc d).length st.offD = enc { m with ext1 := (enc d).length, ext2 := (docsOf bs).length } := by
      rw [stampMeta_enc, hoffD]
    have hlen : (enc { m with ext1 := (enc d).length, ext2 := (docsOf bs).length }).length = (enc m).length := by
      simp [enc_length]
    by_cases hk : (enc m).length ≤ k
    · -- the whole meta block reached the disk: the bulk is complete (but was never acknowledged)
      have hc : completeOf [.tornBulk d m (.metaTorn k)] = [(d, m)] := by simp [completeOf, hk]
      have hinv := append_inv st bs d m h hd hm
      refine ⟨[], [], .inl rfl, ?_, ?_, ?_, fun _ => ⟨rfl, rfl⟩⟩
      · rw [hc]; exact hinv.wf
      · rw [hc]; simpa [crashDisk, append] using hinv.docs
      · rw [hc]
        have := hinv.mfile
        simp only [append] at this
        simp only [crashDisk]
        rw [List.take_of_length_le (by rw [hst, hlen]; exact hk)]
        exact this
    · have hc : completeOf [.tornBulk d m (.metaTorn k)] = [] := by simp [completeOf, hk]
      refine ⟨enc d, (enc { m with ext1 := (enc d).length, ext2 := (docsOf bs).length }).take k, ?_, ?_, ?_, ?_, ?_⟩
      · exact torn_take { m with ext1 := (enc d).length, ext2 := (docsOf bs).length } hm.size k (by rw [hlen]; omega)
      · rw [hc]; simpa using h.wf
      · simp [crashDisk, hc, h.offD, writeAt_end, hdocs]
      · simp [crashDisk, hc, h.offM, writeAt_end, hmf, hst]
      · intro hdirty
        simp [dirty] at hdirty
        omega

theorem completeOf_cons (e : Ev) (h : List Ev) : completeOf (e :: h) = completeOf [e] ++ completeOf h := by
  cases e with
  | bulk d m => simp [completeOf]
  | restart => simp [completeOf]
  | tornBulk d m pt =>
    cases pt with
    | docsTorn k => simp [completeOf]
    | metaTorn k =>
      by_cases hk : (enc m).length ≤ k <;> simp [completeOf, hk]

/-- **the repaired start-up**: every history keeps the files equal to the concatenation of the complete bulks -/
theorem run_fixed (h : List Ev) (st : St) (bs : List (Blk × Blk)) (hinv : InvD st bs [] [])
    (hwf : ∀ e ∈ h, e.WF) : InvD (run true st h) (bs ++ completeOf h) [] [] := by
  induction h generalizing st bs with
  | nil => simpa [run, completeOf] using hinv
  | cons e h ih =>
    have hwf' : ∀ e ∈ h, e.WF := fun e he => hwf e (by simp [he])
    have he := hwf e (by simp)
    rw [completeOf_cons, ← List.append_assoc]
    simp only [run, List.foldl_cons]
    apply ih _ _ _ hwf'
    cases e with
    | bulk d m =>
      simp only [step, hinv.up]
      simpa [completeOf] using append_inv st bs d m hinv he.1 he.2
    | restart =>
      simp only [step, completeOf, List.append_nil]
      exact (restart_inv bs [] [] st.docs st.mfile hinv.wf (.inl rfl) hinv.docs hinv.mfile).2
    | tornBulk d m pt =>
      simp only [step, hinv.up]
      obtain ⟨junk, torn, ht, hw, h1, h2, _⟩ := crashDisk_shape st bs d m pt hinv he.1 he.2
      exact (restart_inv _ junk torn _ _ hw ht h1 h2).2

theorem completeOf_onlyRestarts (h : List Ev) (hr : onlyRestarts h = true) : completeOf h = [] := by
  induction h with
  | nil => rfl
  | cons e h ih =>
    cases e with
    | restart => simpa [completeOf, onlyRestarts] using ih (by simpa [onlyRestarts] using hr)
    | bulk d m => simp [onlyRestarts] at hr
    | tornBulk d m pt => simp [onlyRestarts] at hr

theorem run_restarts (h : List Ev) (st : St) (bs : List (Blk × Blk)) (junk torn : Bytes)
    (hinv : InvD st bs junk torn) (hr : onlyRestarts h = true) : InvD (run false st h) bs junk torn := by
  induction h generalizing st with
  | nil => simpa [run] using hinv
  | cons e h ih =>
    cases e with
    | restart =>
      simp only [run, List.foldl_cons, step]
      exact ih _ (restart_inv bs junk torn st.docs st.mfile hinv.wf hinv.torn hinv.docs hinv.mfile).1
        (by simpa [onlyRestarts] using hr)
    | bulk d m => simp [onlyRestarts] at hr
    | tornBulk d m pt => simp [onlyRestarts] at hr

/-- **the start-up as it is**: the invariant survives as long as no ingestion follows a crash that left debris -/
theorem run_current_safe (h : List Ev) (st : St) (bs : List (Blk × Blk)) (hinv : InvD st bs [] [])
    (hwf : ∀ e ∈ h, e.WF) (hs : Safe h = true) :
    ∃ junk torn, InvD (run false st h) (bs ++ completeOf h) junk torn := by
  induction h generalizing st bs with
  | nil => exact ⟨[], [], by simpa [run, completeOf] using hinv⟩
  | cons e h ih =>
    have hwf' : ∀ e ∈ h, e.WF := fun e he => hwf e (by simp [he])
    have he := hwf e (by simp)
    rw [completeOf_cons, ← List.append_assoc]
    simp only [run, List.foldl_cons]
    cases e with
    | bulk d m =>
      apply ih _ _ _ hwf' (by simpa [Safe] using hs)
      simp only [step, hinv.up]
      simpa [completeOf] using append_inv st bs d m hinv he.1 he.2
    | restart =>
      apply ih _ _ _ hwf' (by simpa [Safe] using hs)
      simp only [step, completeOf, List.append_nil]
      have := (restart_inv bs [] [] st.docs st.mfile hinv.wf (.inl rfl) hinv.docs hinv.mfile).1
      exact this
    | tornBulk d m pt =>
      simp only [step, hinv.up]
      obtain ⟨junk, torn, ht, hw, h1, h2, hclean⟩ := crashDisk_shape st bs d m pt hinv he.1 he.2
      have hinv' := (restart_inv _ junk torn _ _ hw ht h1 h2).1
      by_cases hd : dirty m pt = true
      · have hr : onlyRestarts h = true := by simpa [Safe, hd] using hs
        rw [completeOf_onlyRestarts h hr, List.append_nil]
        exact ⟨junk, torn, run_restarts h _ _ junk torn hinv' hr⟩
      · have hd' : dirty m pt = false := by simpa using hd
        obtain ⟨hj, ht'⟩ := hclean hd'
        subst hj; subst ht'
        exact ih _ _ hinv' hwf' (by simpa [Safe, hd'] using hs)

/-! ## what the invariant gives -/

theorem inv_paired (st : St) (bs : List (Blk × Blk)) (junk torn : Bytes) (h : InvD st bs junk torn) :
    ∀ e ∈ st.idx, ∃ d m, (d, m) ∈ bs ∧ stampMeta e.blk 0 0 = stampMeta (enc m) 0 0 ∧
      readBlockAt st.docs e.pos = some (enc d) := by
  intro e he
  rw [h.idx, entriesOf, List.mem_map] at he
  obtain ⟨t, ht, rfl⟩ := he
  obtain ⟨m, hm, e1, e2, hst⟩ := stamped_origin bs 0 t ht
  refine ⟨t.1, m, hm, ?_, ?_⟩
  · simp only [hst, stampMeta_enc]
  · have := readBlockAt_stamped bs h.wf [] junk 0 rfl t ht
    simpa [h.docs] using this

theorem inv_present (st : St) (bs : List (Blk × Blk)) (junk torn : Bytes) (h : InvD st bs junk torn)
    (d m : Blk) (hb : (d, m) ∈ bs) : present st d m = true := by
  obtain ⟨t, ht, h1, e1, e2, h2⟩ := mem_stamped_of_mem bs 0 d m hb
  simp only [present, List.any_eq_true, Bool.and_eq_true, decide_eq_true_eq]
  refine ⟨⟨enc t.2.1, t.2.2⟩, ?_, ?_, ?_⟩
  · rw [h.idx, entriesOf, List.mem_map]; exact ⟨t, ht, rfl⟩
  · simp only [h2, stampMeta_enc]
  · have := readBlockAt_stamped bs h.wf [] junk 0 rfl t ht
    rw [h1] at this
    simpa [h.docs] using this

theorem ackedOf_sub_completeOf (h : List Ev) : ∀ b ∈ ackedOf h, b ∈ completeOf h := by
  induction h with
  | nil => intro b hb; simp [ackedOf] at hb
  | cons e h ih =>
    intro b hb
    rw [completeOf_cons]
    cases e with
    | bulk d m =>
      simp only [ackedOf, List.mem_cons] at hb
      rcases hb with hb | hb
      · simp [completeOf, hb]
      · simp [ih b hb]
    | restart => simp only [ackedOf] at hb; simp [ih b hb]
    | tornBulk d m pt => simp only [ackedOf] at hb; simp [ih b hb]

/-- every complete bulk was attempted in the history -/
def attemptedOf : List Ev → List (Blk × Blk)
  | [] => []
  | .bulk d m :: h => (d, m) :: attemptedOf h
  | .tornBulk d m _ :: h => (d, m) :: attemptedOf h
  | .restart :: h => attemptedOf h

theorem completeOf_sub_attemptedOf (h : List Ev) : ∀ b ∈ completeOf h, b ∈ attemptedOf h := by
  induction h with
  | nil => intro b hb; simp [completeOf] at hb
  | cons e h ih =>
    intro b hb
    rw [completeOf_cons] at hb
    cases e with
    | bulk d m =>
      simp only [completeOf, List.cons_append, List.nil_append, List.mem_cons] at hb
      rcases hb with hb | hb
      · simp [attemptedOf, hb]
      · simp [attemptedOf, ih b hb]
    | restart =>
      simp only [completeOf, List.nil_append] at hb
      simp [attemptedOf, ih b hb]
    | tornBulk d m pt =>
      cases pt with
      | docsTorn k =>
        simp only [completeOf, List.nil_append] at hb
        simp [attemptedOf, ih b hb]
      | metaTorn k =>
        by_cases hk : (enc m).length ≤ k
        · simp only [completeOf, hk, if_true, List.cons_append, List.nil_append, List.mem_cons] at hb
          rcases hb with hb | hb
          · simp [attemptedOf, hb]
          · simp [attemptedOf, ih b hb]
        · simp only [completeOf, hk, if_false, List.nil_append] at hb
          simp [attemptedOf, ih b hb]

end SV.WPath

namespace SV.WPath

/-- the invariant with empty debris determines the whole state -/
theorem InvD_unique (s1 s2 : St) (bs : List (Blk × Blk)) (h1 : InvD s1 bs [] []) (h2 : InvD s2 bs [] []) : s1 = s2 := by
  cases s1; cases s2
  have a := h1.up; have b := h2.up
  have c := h1.docs; have d := h2.docs
  have e := h1.mfile; have f := h2.mfile
  have g := h1.idx; have i := h2.idx
  have j := h1.offD; have k := h2.offD
  have l := h1.offM; have m := h2.offM
  simp only at a b c d e f g i j k l m
  subst a b c d e f g i
  subst j k l m
  rfl

/-- **the repaired start-up is itself crash-safe**: whatever a crash inside a bulk left on disk, a recovery that is
killed after cutting the meta file (before cutting the docs file), or after cutting both, followed by another
start-up, ends in the same store as one uninterrupted recovery -/
theorem restart_interrupted (bs : List (Blk × Blk)) (junk torn docs mfile : Bytes) (hwf : AllWF bs) (ht : TornOK torn)
    (hd : docs = docsOf bs ++ junk) (hm : mfile = metaOf bs 0 ++ torn) :
    restart true docs (mfile.take (replay mfile).metaPos) = restart true docs mfile ∧
    restart true (docs.take (replay mfile).docsPos) (mfile.take (replay mfile).metaPos) = restart true docs mfile := by
  have hfull := (restart_inv bs junk torn docs mfile hwf ht hd hm).2
  have hr : replay mfile = ⟨entriesOf bs 0, (docsOf bs).length, (metaOf bs 0).length, false⟩ := by
    rw [hm]; exact replay_stamped bs hwf torn ht
  constructor
  · apply InvD_unique _ _ bs _ hfull
    exact (restart_inv bs junk [] docs _ hwf (.inl rfl) hd (by rw [hr, hm]; simp)).2
  · apply InvD_unique _ _ bs _ hfull
    exact (restart_inv bs [] [] _ _ hwf (.inl rfl) (by rw [hr, hd]; simp) (by rw [hr, hm]; simp)).2

end SV.WPath

namespace SV.WPath

/-! ## which length fields the replay ever evaluates -/

/-- the values of `FullLen` (`make([]byte, l)`) the replay loop computes on a meta file, in order -/
def lensGo : Nat → Bytes → List Nat
  | 0, _ => []
  | fuel + 1, bytes =>
    if bytes.length < headerLen then []
    else
      ((getLen bytes + headerLen) % two64) ::
        match readDocBlock bytes with
        | .full blk rest => if blk.length < headerLen then [] else lensGo fuel rest
        | _ => []

def replayLens (mfile : Bytes) : List Nat := lensGo (mfile.length + 1) mfile

/-- on complete blocks followed by a prefix of the encoding of `b`, every allocation the replay asks for has the
size of one of those blocks or of `b` -/
theorem lensGo_stamped (bs : List (Blk × Blk)) (hwf : AllWF bs) (b : Blk) (hb : 33 + b.payload.length ≤ maxAlloc)
    (k : Nat) (hk : k < (enc b).length) (off fuel : Nat) :
    ∀ l ∈ lensGo fuel (metaOf bs off ++ (enc b).take k),
      (∃ x ∈ bs, l = (enc x.2).length) ∨ l = (enc b).length := by
  induction bs generalizing off fuel with
  | nil =>
    intro l hl
    cases fuel with
    | zero => simp [lensGo] at hl
    | succ fuel =>
      simp only [metaOf, stamped, List.map_nil, List.flatten_nil, List.nil_append, lensGo] at hl
      split at hl
      · simp at hl
      · rename_i hlen
        have hkl : ((enc b).take k).length = k := by simp [List.length_take]; omega
        rw [hkl, headerLen] at hlen
        have ht : (enc b).take k = hdr b.codec b.payload.length b.rawLen b.ext1 b.ext2 ++ b.payload.take (k - 33) := by
          simp only [enc]
          rw [List.take_append, List.take_of_length_le (by rw [hdr_length]; omega)]
          simp [hdr_length]
        have hm : maxAlloc < two64 := by decide
        have hget : (getLen ((enc b).take k) + headerLen) % two64 = (enc b).length := by
          rw [ht, getLen_hdr, headerLen, Nat.mod_eq_of_lt (a := b.payload.length) (by omega),
            Nat.mod_eq_of_lt (by omega), enc_length]; omega
        have hrd := readDocBlock_torn _ (torn_take b hb k hk)
        rcases hrd with hrd | hrd <;> simp [hrd, hget] at hl <;> exact .inr hl
  | cons x bs ih =>
    obtain ⟨d, m⟩ := x
    intro l hl
    cases fuel with
    | zero => simp [lensGo] at hl
    | succ fuel =>
      have hx := hwf (d, m) (by simp)
      have hmeta : metaOf ((d, m) :: bs) off ++ (enc b).take k =
          enc { m with ext1 := (enc d).length, ext2 := off } ++ (metaOf bs (off + (enc d).length) ++ (enc b).take k) := by
        simp [metaOf, stamped]
      rw [hmeta] at hl
      simp only [lensGo] at hl
      have hlen : ¬ (enc { m with ext1 := (enc d).length, ext2 := off } ++
          (metaOf bs (off + (enc d).length) ++ (enc b).take k)).length < headerLen := by
        simp [enc_length, headerLen]; omega
      rw [if_neg hlen, readDocBlock_enc _ (by exact hx.2.size)] at hl
      have hm : maxAlloc < two64 := by decide
      have hget : (getLen (enc { m with ext1 := (enc d).length, ext2 := off } ++
          (metaOf bs (off + (enc d).length) ++ (enc b).take k)) + headerLen) % two64 = (enc m).length := by
        have hsz : 33 + m.payload.length ≤ maxAlloc := hx.2.size
        rw [getLen_enc { m with ext1 := (enc d).length, ext2 := off } hsz]
        show (m.payload.length + headerLen) % two64 = (enc m).length
        rw [enc_length, headerLen, Nat.mod_eq_of_lt (by omega)]; omega
      have hl2 : ¬ (enc { m with ext1 := (enc d).length, ext2 := off }).length < headerLen := by
        simp [enc_length, headerLen]
      simp only [hget, hl2, if_false, List.mem_cons] at hl
      rcases hl with hl | hl
      · exact .inl ⟨(d, m), by simp, hl⟩
      · rcases ih (fun y hy => hwf y (by simp [hy])) _ _ l hl with ⟨y, hy, h⟩ | h
        · exact .inl ⟨y, by simp [hy], h⟩
        · exact .inr h

end SV.WPath

namespace SV.WPath

/-- the meta file a crash inside a bulk leaves: complete blocks of old bulks (and possibly the new one) followed by a
strict prefix of a block that has the size of the new meta block -/
theorem crashDisk_meta_form (st : St) (bs : List (Blk × Blk)) (d m : Blk) (pt : CrashPt) (h : InvD st bs [] [])
    (hd : d.WF) (hm : m.WF) :
    ∃ bs' b k, AllWF bs' ∧ 33 + b.payload.length ≤ maxAlloc ∧ k < (enc b).length ∧ (enc b).length = (enc m).length ∧
      (crashDisk st (enc d) (enc m) pt).2 = metaOf bs' 0 ++ (enc b).take k ∧ (∀ x ∈ bs', x ∈ bs ∨ x = (d, m)) := by
  have hmf : st.mfile = metaOf bs 0 := by simpa using h.mfile
  have hdocs : st.docs = docsOf bs := by simpa using h.docs
  have hoffD : st.offD = (docsOf bs).length := by rw [h.offD, hdocs]
  have hpos : 0 < (enc m).length := by rw [enc_length]; omega
  cases pt with
  | docsTorn k =>
    exact ⟨bs, m, 0, h.wf, hm.size, hpos, rfl, by simp [crashDisk, hmf], fun x hx => .inl hx⟩
  | metaTorn k =>
    have hst : stampMeta (enc m) (enc d).length st.offD = enc { m with ext1 := (enc d).length, ext2 := (docsOf bs).length } := by
      rw [stampMeta_enc, hoffD]
    have hlen : (enc { m with ext1 := (enc d).length, ext2 := (docsOf bs).length }).length = (enc m).length := by
      simp [enc_length]
    by_cases hk : (enc m).length ≤ k
    · have hinv := append_inv st bs d m h hd hm
      refine ⟨bs ++ [(d, m)], m, 0, hinv.wf, hm.size, hpos, rfl, ?_, ?_⟩
      · have := hinv.mfile
        simp only [append] at this
        simp only [crashDisk]
        rw [List.take_of_length_le (by rw [hst, hlen]; exact hk)]
        simpa using this
      · intro x hx
        simp only [List.mem_append, List.mem_singleton] at hx
        exact hx
    · refine ⟨bs, { m with ext1 := (enc d).length, ext2 := (docsOf bs).length }, k, h.wf, hm.size, by rw [hlen]; omega,
        hlen, ?_, fun x hx => .inl hx⟩
      simp [crashDisk, h.offM, writeAt_end, hmf, hst]

theorem attemptedOf_append (a b : List Ev) : attemptedOf (a ++ b) = attemptedOf a ++ attemptedOf b := by
  induction a with
  | nil => rfl
  | cons e a ih => cases e <;> simp [attemptedOf, ih]

end SV.WPath

namespace SV.WPath

/-- what the writer recorded in the header of a complete bulk's meta block: ext1 = length of its docs block,
ext2 = the offset the docs block was written at -/
theorem stamped_fields (bs : List (Blk × Blk)) (off : Nat) :
    ∀ t ∈ stamped bs off, t.2.1.ext2 = t.2.2 ∧ t.2.1.ext1 = (enc t.1).length := by
  induction bs generalizing off with
  | nil => intro t ht; simp [stamped] at ht
  | cons x bs ih =>
    obtain ⟨d, m⟩ := x
    intro t ht
    simp only [stamped, List.mem_cons] at ht
    rcases ht with rfl | ht
    · exact ⟨rfl, rfl⟩
    · exact ih _ t ht

end SV.WPath
