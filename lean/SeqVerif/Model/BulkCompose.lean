import SeqVerif.Model.BulkIndex
import SeqVerif.Model.BulkProc
import SeqVerif.Model.Collector
/-!
# Composition of the ingestor's output (C10) with the store-side collector (C17)

`toCollector` reads a meta of the C10 model as the `SV.Collector.Meta` of the C17 model (same ID, size, token
key/value bytes).  `layout` says where the store must find things for a list of stored documents: document `i`
lies at offset `4·i + Σ_{j<i} len(d_j)` of the docs block (the start of its length prefix in `encodeDocs`), and
every meta of that document - the parent and the size-0 metas of nested elements - carries that position.
-/
namespace SV.Bulk
open SV.Collector (docsFrom docsOf)

def toCollector (m : Meta) : SV.Collector.Meta :=
  { id := (m.mid, m.rid), size := m.size, tokens := m.tokens.map fun t => ⟨t.1, t.2⟩ }

/-- per meta: ID, position of its document in block `b`, token bytes `key:value` -/
def layout (b : Nat) (mk : Bytes → List Meta) : List Bytes → Nat → List (SV.Collector.ID × SV.Collector.DocPos × List Bytes)
  | [], _ => []
  | d :: ds, off =>
    (mk d).map (fun m => ((m.mid, m.rid), (b, off), m.tokens.map fun t => t.1 ++ 58 :: t.2)) ++
      layout b mk ds (off + d.length + 4)

/-- the metas of document `d`: a parent of size `len d ≠ 0` first, then only size-0 metas -/
def DocShaped (ms : List Meta) (d : Bytes) : Prop :=
  ∃ p ns, ms = p :: ns ∧ p.size = d.length ∧ d.length ≠ 0 ∧ ∀ m, m ∈ ns → m.size = 0

theorem toks_bytes (m : Meta) :
    (toCollector m).tokens.map SV.Collector.MetaToken.bytes = m.tokens.map fun t => t.1 ++ 58 :: t.2 := by
  simp [toCollector, SV.Collector.MetaToken.bytes]

theorem docsFrom_nested (b : Nat) (rest : List SV.Collector.Meta) (off : Nat) (last : SV.Collector.DocPos) :
    ∀ ns : List Meta, (∀ m, m ∈ ns → m.size = 0) →
      docsFrom b (ns.map toCollector ++ rest) off last =
        ns.map (fun m => ((m.mid, m.rid), last, m.tokens.map fun t => t.1 ++ 58 :: t.2)) ++ docsFrom b rest off last := by
  intro ns
  induction ns with
  | nil => intro _; rfl
  | cons m ns ih =>
    intro h
    have hm : (toCollector m).size = 0 := h m (by simp)
    simp only [List.map_cons, List.cons_append, docsFrom, hm, if_true, toks_bytes]
    rw [ih (fun x hx => h x (by simp [hx]))]
    rfl

theorem docsFrom_layout (b : Nat) (mk : Bytes → List Meta) :
    ∀ (S : List Bytes) (off : Nat) (last : SV.Collector.DocPos), (∀ d, d ∈ S → DocShaped (mk d) d) →
      docsFrom b ((S.flatMap mk).map toCollector) off last = layout b mk S off := by
  intro S
  induction S with
  | nil => intro off last _; rfl
  | cons d S ih =>
    intro off last h
    obtain ⟨p, ns, hmk, hp, hd, hns⟩ := h d (by simp)
    have hps : (toCollector p).size ≠ 0 := by simp [toCollector, hp, hd]
    simp only [List.flatMap_cons, List.map_append, hmk, List.map_cons, List.cons_append, docsFrom, hps, if_false,
      toks_bytes, layout]
    rw [docsFrom_nested b _ _ _ ns hns, ih _ _ (fun x hx => h x (by simp [hx]))]
    simp [toCollector, hp]

/-- the offset `layout` gives to the document after `ds` is the length of `encodeDocs ds` -/
theorem encodeDocs_length (ds : List Bytes) :
    (encodeDocs ds).length = (ds.map fun d => d.length + 4).sum := by
  rw [encodeDocs_eq]
  induction ds with
  | nil => rfl
  | cons d ds ih => simp [enc1, le32, ih]; omega

end SV.Bulk
