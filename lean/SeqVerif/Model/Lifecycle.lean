import SeqVerif.Model.SealOps
/-!
# The life of one fraction on disk: creation, ingestion, sealing, deletion, restarts          (C15)

Go sources modelled: `frac/active.go` (`NewActive`/`mustOpenFile`, `Suicide`, `removeMetaFile`, `removeDocsFiles`),
`frac/sealed.go` (`Suicide`), `fracmanager/loader.go` (`filterInfos`, `load`, `removeFractionFiles`),
`fracmanager/proxy_frac.go` (`Seal`, `Suicide`), and - through `SV.SealOps.sealTrace` - sealing and release.

Every procedure is its list of file operations in program order; a crash leaves the directory in the state reached by
a prefix.  `Reach` is the set of (role held by the running store, files on disk) reachable by any history of
procedures, crashes and restarts.  The theorems of Props/C15.lean are statements about all of `Reach`.
-/
namespace SV.Lifecycle
open SV.FileSet SV.SealOps

/-- `NewActive`: `mustOpenFile(.docs)`, `mustOpenFile(.meta)`; each = `OpenFile(O_CREATE|O_RDWR)` + `MustSyncPath(dir)` -/
def newActiveOps : List Op := [.touch .docs, .syncDir, .touch .metaF, .syncDir]

/-- `Active.Suicide` of a fraction that was not released: `removeMetaFile`, `removeDocsFiles` -/
def activeSuicideOps : List Op := [.remove .metaF, .remove .docs]

/-- `Sealed.Suicide`: three renames to `.del`, three removes -/
def sealedSuicideOps : List Op :=
  [.rename .docs .docsDel, .rename .sdocs .sdocsDel, .rename .index .indexDel,
   .remove .docsDel, .remove .sdocsDel, .remove .indexDel]

/-- `removeFractionFiles` of the loader, in source order -/
def removeFractionFilesOps : List Op :=
  [.remove .index, .remove .docs, .remove .sdocs, .remove .metaF, .remove .indexDel, .remove .docsDel, .remove .sdocsDel]

/-- what `loader.load` does to the files of one fraction, as operations (so that a crash *during start-up* is covered):
`orphanFatal` = the last rule of `filterInfos` is `logger.Fatal` (no operation) rather than `removeFractionFiles` -/
def startupOps (orphanFatal : Bool) (fs : FileSet) : List Op :=
  match classify fs with
  | .unknown | .skipped => []
  | .cleaned => removeFractionFilesOps
  | .orphan => if orphanFatal then [] else removeFractionFilesOps
  | .sealed .sdocs => (if fs.metaF.has then [.remove .metaF] else []) ++ (if fs.docs.has then [.remove .docs] else [])
  | .sealed _ => []
  | .active => newActiveOps ++ (if fs.metaF = .empty then removeFractionFilesOps else [])   -- replayed, no documents: removed

/-- a start-up whose context is cancelled while the active fractions are being replayed (`Active.Replay` returns
`ctx.Err()` at once, `loader.load` gives up): everything the loader does *before* the replay loop has happened -
deletions are finished, the originals next to a sealed fraction are removed, `NewActive` has opened the files of an
active fraction - but nothing that follows a replay (no `truncateTail`, no removal of an empty fraction).
Always a prefix of `startupOps`. -/
def cancelledStartOps (orphanFatal : Bool) (fs : FileSet) : List Op :=
  match classify fs with
  | .active => newActiveOps
  | _ => startupOps orphanFatal fs

/-- what the running store holds for the fraction -/
inductive Role
  | none       -- nothing (not yet created, deleted, skipped)
  | active     -- `*frac.Active` behind a `proxyFrac`
  | sealed     -- `*frac.Sealed`
  | crashed    -- the process is gone; only a start-up can follow
  deriving DecidableEq, Repr

inductive Proc
  | newActive                                   -- `fm.rotate` -> `NewActive`
  | fill                                        -- an acknowledged bulk
  | sealing (p : Plan) (oi os : List Bool)      -- `proxyFrac.Seal` with the environment's answers to the writes
  | activeSuicide                               -- retention reached a fraction that is still active
  | sealedSuicide                               -- retention reached a sealed fraction
  | startup                                     -- `FracManager.Load`

/-- when the store runs the procedure on this fraction -/
def Proc.enabled (r : Role) (fs : FileSet) : Proc → Prop
  | .newActive => r = .none ∧ fs = {}            -- a fresh ULID: no file with that name exists
  | .fill => r = .active
  | .sealing _ _ _ => r = .active ∧ fs.docs = .full -- only fractions with documents are sealed
  | .activeSuicide => r = .active
  | .sealedSuicide => r = .sealed
  | .startup => True                             -- the store may stop/crash and start at any time

def Proc.ops (c : Cfg) (f : Facts) (orphanFatal : Bool) (fs : FileSet) : Proc → List Op
  | .newActive => newActiveOps
  | .fill => [.fill]
  | .sealing p oi os => (sealTrace c f p oi os).2
  | .activeSuicide => activeSuicideOps
  | .sealedSuicide => sealedSuicideOps
  | .startup => startupOps orphanFatal fs

/-- the role after the procedure ran to its end from files `fs` -/
def Proc.roleAfter (c : Cfg) (f : Facts) (orphanFatal : Bool) (fs : FileSet) : Proc → Role
  | .newActive => .active
  | .fill => .active
  | .sealing p oi os => if (sealTrace c f p oi os).1 then .sealed else .crashed     -- `logger.Fatal("sealing error")`
  | .activeSuicide => .none
  | .sealedSuicide => .none
  | .startup =>
    match (SV.FileSet.startup orphanFatal fs).1 with
    | .none => .none | .active => .active | .sealed => .sealed | .down => .crashed

def run (ops : List Op) (fs : FileSet) : FileSet := (applyOps ops ⟨fs, []⟩).fs

/-- everything a history of procedures, crashes (a prefix of a procedure's operations) and restarts can produce -/
inductive Reach (c : Cfg) (f : Facts) (orphanFatal : Bool) : Role → FileSet → Prop
  | birth : Reach c f orphanFatal .none {}
  | crash {r : Role} {fs : FileSet} (proc : Proc) (pre : List Op) :
      Reach c f orphanFatal r fs → proc.enabled r fs → pre <+: proc.ops c f orphanFatal fs →
      Reach c f orphanFatal .crashed (run pre fs)
  | done {r : Role} {fs : FileSet} (proc : Proc) :
      Reach c f orphanFatal r fs → proc.enabled r fs →
      Reach c f orphanFatal (proc.roleAfter c f orphanFatal fs) (run (proc.ops c f orphanFatal fs) fs)

/-! ## the shapes a fraction's directory can have -/

/-- a deletion is in progress: the next start finishes it -/
def Del (fs : FileSet) : Prop := fs.docsDel ≠ .absent ∨ fs.sdocsDel ≠ .absent ∨ fs.indexDel ≠ .absent

/-- nothing to serve and nothing to complain about: no documents file at all -/
def ShapeN (fs : FileSet) : Prop := fs.docs = .absent ∧ fs.sdocs = .absent

/-- an orphan (or nothing): neither .meta nor .index -/
def ShapeG (fs : FileSet) : Prop := fs.metaF = .absent ∧ fs.index = .absent

/-- a freshly created active fraction without documents -/
def ShapeE (fs : FileSet) : Prop := fs.docs = .empty ∧ fs.metaF = .empty ∧ fs.index = .absent ∧ fs.sdocs = .absent

/-- an active fraction with documents (leftovers of an interrupted seal allowed) -/
def ShapeA (c : Cfg) (fs : FileSet) : Prop :=
  fs.docs = .full ∧ fs.metaF = .full ∧ (c.skipSortDocs = false → fs.index = .absent) ∧
    (c.skipSortDocs = true → fs.sdocs = .absent ∧ (fs.index = .absent ∨ fs.index = .full))

/-- a sealed fraction (the originals possibly not yet removed) -/
def ShapeS (c : Cfg) (fs : FileSet) : Prop :=
  fs.index = .full ∧
    ((fs.sdocs = .full ∧ (fs.docs = .absent ∨ fs.docs = .full) ∧ (fs.metaF = .absent ∨ fs.metaF = .full)) ∨
     (fs.sdocs = .absent ∧ fs.docs = .full ∧ (fs.metaF = .absent ∨ (fs.metaF = .full ∧ c.skipSortDocs = true))))

/-- every directory state a crash can leave behind has one of these shapes -/
def Disk (c : Cfg) (fs : FileSet) : Prop :=
  Del fs ∨ ShapeN fs ∨ ShapeG fs ∨ ShapeE fs ∨ ShapeA c fs ∨ ShapeS c fs

/-- the invariant: the disk has a known shape, and what the store holds agrees with it -/
def Inv (c : Cfg) (r : Role) (fs : FileSet) : Prop :=
  Disk c fs ∧
    (r = .active → ¬ Del fs ∧ (ShapeE fs ∨ ShapeA c fs)) ∧
    (r = .sealed → ¬ Del fs ∧ ShapeS c fs)

/-! ## retention (`FracManager.shrinkSizes`) -/

/-- `shrinkSizes` on the sizes of `fm.fracs` (creation order, oldest first): while the total exceeds the limit pop
the first fraction.  Returns (removed, kept). -/
def shrink (limit : Nat) : List Nat → List Nat × List Nat
  | [] => ([], [])
  | s :: rest =>
    if (s :: rest).sum > limit then ((s :: (shrink limit rest).1), (shrink limit rest).2)
    else ([], s :: rest)

/-! ## the `.frac-cache` file -/

/-- `startup` when the fraction may have an entry in `.frac-cache` (`NewSealed` then skips reading the index header) -/
def startupCached (cached : Bool) (orphanFatal : Bool) (fs : FileSet) : Loaded × FileSet :=
  match classify fs with
  | .sealed _ => (if fs.index = .empty ∧ cached = false then .down else .sealed, loadEffect orphanFatal fs)
  | _ => SV.FileSet.startup orphanFatal fs

/-! ## the order of `fm.fracs` after start-up -/

/-- `loader.load` on the fractions of the data directory, given in the order of their ids (`sort.Strings(fracIDs)`;
ULIDs: id order = creation order) as (id, was it unsealed?): the sealed ones are appended in that order by the first
loop, the unsealed ones - replayed one after the other in that order - behind them -/
def loadOrder (fr : List (Nat × Bool)) : List Nat :=
  (fr.filter (fun x => !x.2)).map (·.1) ++ (fr.filter (fun x => x.2)).map (·.1)

/-- what `.frac-cache` holds for a fraction when the store starts -/
inductive CacheEntry
  | missing      -- no entry (no file, unreadable file, older file)
  | null         -- `"<name>": null` - `GetFracInfo` returns `(nil, true)`
  | untrusted    -- an object without the index size (`{}`, older format, zeroed): `NewSealed` ignores it
  | trusted      -- an object with `index_on_disk > 0`: `NewSealed` takes the Info from it and does not read the header
  deriving DecidableEq, Repr

/-- `NewSealed`'s fast path is taken only for a trusted entry (`info != nil && info.IndexOnDisk > 0`) -/
def CacheEntry.fastPath : CacheEntry → Bool
  | .trusted => true
  | _ => false

def startupWithCache (e : CacheEntry) (orphanFatal : Bool) (fs : FileSet) : Loaded × FileSet :=
  startupCached e.fastPath orphanFatal fs

end SV.Lifecycle
