import SeqVerif.Model.C03Ids
import SeqVerif.Model.C03Lids
import SeqVerif.Model.C03Codec
/-!
# C03 - `frac.Loader.Load`: walking the block registry of an index file

The registry is the list of block headers in file order:
`info | token blocks.. | sep | token table blocks.. | sep | positions | (MIDs, RIDs, Pos)* | sep | LID blocks.. | sep`.
Every section loop PROBES: it reads the next header and stops at the first empty one (`header.Len() == 0`); no block
count is computed from `IDsTotal` or any other number.  `loadTables` = `skipTokens`, `loadIDs`, `loadLIDsBlocksTable`.
-/
namespace SV.C03

structure Hdr where
  len : Nat
  ext1 : Nat
  ext2 : Nat
deriving Repr, DecidableEq

def sepHdr : Hdr := ⟨0, 0, 0⟩

/-- `for { header := l.skipBlock(); if header.Len() == 0 { break } }`: index after the separator; `none` = ran off the registry (logger.Panic) -/
def skipSection : Nat → List Hdr → Nat → Option Nat
  | 0, _, _ => none
  | f + 1, reg, i =>
    match reg[i]? with
    | none => none
    | some h => if h.len = 0 then some (i + 1) else skipSection f reg (i + 1)

/-- the loop of `loadIDs`: MIDs header -> MinBlockIDs from the extents, RIDs and Pos blocks skipped -/
def probeIDs : Nat → List Hdr → Nat → List ID → Option (List ID × Nat)
  | 0, _, _, _ => none
  | f + 1, reg, i, acc =>
    match reg[i]? with
    | none => none
    | some h =>
      if h.len = 0 then some (acc, i + 1)
      else if (reg[i + 1]?).isNone ∨ (reg[i + 2]?).isNone then none
      else probeIDs f reg (i + 3) (acc ++ [(h.ext1, h.ext2)])

/-- the loop of `loadLIDsBlocksTable` -/
def probeLIDs : Nat → List Hdr → Nat → List (Nat × Nat × Bool) → Option (List (Nat × Nat × Bool) × Nat)
  | 0, _, _, _ => none
  | f + 1, reg, i, acc =>
    match reg[i]? with
    | none => none
    | some h => if h.len = 0 then some (acc, i + 1) else probeLIDs f reg (i + 1) (acc ++ [lidExtLoad (h.ext1, h.ext2)])

structure LoadedTables where
  idsStart : Nat
  minBlockIDs : List ID
  lidsStart : Nat
  lids : List (Nat × Nat × Bool)     -- (MinTID, MaxTID, IsContinued) per LID block
deriving Repr, DecidableEq

/-- `Loader.Load` from block 1 (the info block is read before) -/
def loadTables (reg : List Hdr) : Option LoadedTables :=
  let fuel := reg.length + 1
  match skipSection fuel reg 1 with
  | none => none
  | some a =>
    match skipSection fuel reg a with
    | none => none
    | some b =>
      if (reg[b]?).isNone then none else           -- the positions block (nextIndexBlock)
      match probeIDs fuel reg (b + 1) [] with
      | none => none
      | some ids =>
        match probeLIDs fuel reg ids.2 [] with
        | none => none
        | some l => some { idsStart := b + 1, minBlockIDs := ids.1, lidsStart := ids.2, lids := l.1 }

/-- the registry section `writeIDsBlocks` produces: three headers per ID block (the MIDs header carries the block's
minimal ID), then the separator -/
def idsSection (blocks : List (ID × Nat × Nat × Nat)) : List Hdr :=
  (blocks.flatMap fun b => [⟨b.2.1, b.1.1, b.1.2⟩, ⟨b.2.2.1, 0, 0⟩, ⟨b.2.2.2, 0, 0⟩]) ++ [sepHdr]

/-- the registry section `writeLIDsBlocks` produces -/
def lidsSection (blocks : List (Block × Nat)) : List Hdr :=
  (blocks.map fun b => ⟨b.2, (lidExt b.1.minTID b.1.maxTID b.1.isContinued).1, (lidExt b.1.minTID b.1.maxTID b.1.isContinued).2⟩) ++ [sepHdr]

end SV.C03
