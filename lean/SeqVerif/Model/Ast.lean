/-!
# parser.ASTNode, its evaluation, and `propagateNot` (parser/ast_node.go) - model for C12

`Ast α` is `parser.ASTNode` restricted to the shapes the parsers build: a leaf (`*Literal` / `*Range`, payload `α`),
a `LogicalNot` node with one child, or a binary `LogicalOr` / `LogicalAnd` / `LogicalNAnd` node.
`eval` follows `frac/processor.buildEvalTree`: `NewAnd(c0,c1)`, `NewOr(c0,c1)`, `NewNAnd(negative := c0, regular := c1)`,
`NewNot(c0)`; a leaf is an arbitrary set of documents (`env`).
-/
namespace SV.Parser

inductive Op | or | and | nand
deriving DecidableEq, Repr

inductive Ast (α : Type)
  | leaf (a : α)
  | not (c : Ast α)
  | bin (op : Op) (l r : Ast α)
deriving Repr, DecidableEq

variable {α : Type}

/-- evaluation as the eval tree does it: NAND = (¬ children[0]) ∧ children[1] -/
def Ast.eval (env : α → Bool) : Ast α → Bool
  | .leaf a => env a
  | .not c => !(c.eval env)
  | .bin .or l r => l.eval env || r.eval env
  | .bin .and l r => l.eval env && r.eval env
  | .bin .nand l r => !(l.eval env) && r.eval env

/-- parser.propagateNot, statement by statement (the in-place mutation of `node` is the returned tree) -/
def propagateNot : Ast α → Ast α × Bool
  | .leaf a => (.leaf a, false)                     -- `if !is { return node, false }`
  | .not c =>                                       -- `if logical.Operator == LogicalNot`
    let (nested, n) := propagateNot c
    (nested, !n)
  | .bin op l r =>
    let (left, leftNot) := propagateNot l
    let (right, rightNot) := propagateNot r
    -- `if logical.Operator == LogicalOr { if leftNot || rightNot {...} else { return node, false } }`
    let (op1, not1, ln1, rn1, early) :=
      if op = .or then
        if leftNot || rightNot then (Op.and, true, !leftNot, !rightNot, false)
        else (op, false, leftNot, rightNot, true)
      else (op, false, leftNot, rightNot, false)
    if early then (.bin op1 left right, false)
    else if ln1 && rn1 then (.bin .or left right, true)   -- `if leftNot && rightNot`
    else
      let op2 := if ln1 then Op.nand else op1             -- `if leftNot { Operator = LogicalNAnd }`
      if rn1 then (.bin .nand right left, not1)           -- `if rightNot { swap; Operator = LogicalNAnd }`
      else (.bin op2 left right, not1)

/-- `root, not := propagateNot(root); if not { root = newNotNode(root) }` (ParseSeqQL, ParseQuery) -/
def finish (t : Ast α) : Ast α :=
  if (propagateNot t).2 then .not (propagateNot t).1 else (propagateNot t).1

/-- inputs never contain NAND (it is created only by propagateNot) -/
def Ast.NoNand : Ast α → Prop
  | .leaf _ => True
  | .not c => c.NoNand
  | .bin op l r => op ≠ .nand ∧ l.NoNand ∧ r.NoNand

/-- no `LogicalNot` node anywhere -/
def Ast.NotFree : Ast α → Prop
  | .leaf _ => True
  | .not _ => False
  | .bin _ l r => l.NotFree ∧ r.NotFree

/-- leaves left to right -/
def Ast.leaves : Ast α → List α
  | .leaf a => [a]
  | .not c => c.leaves
  | .bin _ l r => l.leaves ++ r.leaves

def Ast.size : Ast α → Nat
  | .leaf _ => 1
  | .not c => c.size + 1
  | .bin _ l r => l.size + r.size + 1

def Ast.height : Ast α → Nat
  | .leaf _ => 1
  | .not c => c.height + 1
  | .bin _ l r => max l.height r.height + 1

theorem propagateNot_sound (env : α → Bool) (t : Ast α) (h : t.NoNand) :
    (((propagateNot t).1.eval env) != (propagateNot t).2) = t.eval env := by
  induction t with
  | leaf n => simp [propagateNot, Ast.eval]
  | not c ih =>
    have := ih h
    simp only [propagateNot, Ast.eval]
    rw [← this]
    cases (propagateNot c).1.eval env <;> cases (propagateNot c).2 <;> rfl
  | bin op l r ihl ihr =>
    obtain ⟨hop, hl, hr⟩ := h
    have hl' := ihl hl
    have hr' := ihr hr
    simp only [propagateNot]
    rcases hpl : propagateNot l with ⟨L, ln⟩
    rcases hpr : propagateNot r with ⟨R, rn⟩
    rw [hpl] at hl'
    rw [hpr] at hr'
    simp only at hl' hr'
    cases op with
    | nand => exact absurd rfl hop
    | or =>
      simp only [Ast.eval, ← hl', ← hr']
      cases ln <;> cases rn <;> simp [Ast.eval] <;>
        (generalize L.eval env = a; generalize R.eval env = b; cases a <;> cases b <;> rfl)
    | and =>
      simp only [Ast.eval, ← hl', ← hr']
      cases ln <;> cases rn <;> simp [Ast.eval] <;>
        (generalize L.eval env = a; generalize R.eval env = b; cases a <;> cases b <;> rfl)

/-- the rewritten tree has no NOT node: only AND / OR / NAND over the leaves -/
theorem propagateNot_notFree (t : Ast α) : (propagateNot t).1.NotFree := by
  induction t with
  | leaf n => simp [propagateNot, Ast.NotFree]
  | not c ih => simpa [propagateNot] using ih
  | bin op l r ihl ihr =>
    simp only [propagateNot]
    rcases hpl : propagateNot l with ⟨L, ln⟩
    rcases hpr : propagateNot r with ⟨R, rn⟩
    rw [hpl] at ihl
    rw [hpr] at ihr
    simp only at ihl ihr
    cases op <;> cases ln <;> cases rn <;> simp [Ast.NotFree, ihl, ihr]

/-- the rewriting keeps the multiset of leaves (as a permutation: the NAND swap reorders two subtrees) -/
theorem propagateNot_leaves (t : Ast α) : ((propagateNot t).1.leaves).Perm t.leaves := by
  induction t with
  | leaf n => simp [propagateNot, Ast.leaves]
  | not c ih => simpa [propagateNot, Ast.leaves] using ih
  | bin op l r ihl ihr =>
    simp only [propagateNot]
    rcases hpl : propagateNot l with ⟨L, ln⟩
    rcases hpr : propagateNot r with ⟨R, rn⟩
    rw [hpl] at ihl
    rw [hpr] at ihr
    simp only at ihl ihr
    have h1 : (L.leaves ++ R.leaves).Perm (l.leaves ++ r.leaves) := List.Perm.append ihl ihr
    have h2 : (R.leaves ++ L.leaves).Perm (l.leaves ++ r.leaves) := List.perm_append_comm.trans h1
    cases op <;> cases ln <;> cases rn <;> simp [Ast.leaves, h1, h2]

theorem finish_sound (env : α → Bool) (t : Ast α) (h : t.NoNand) : (finish t).eval env = t.eval env := by
  have := propagateNot_sound env t h
  unfold finish
  cases hn : (propagateNot t).2 <;> simp [hn, Ast.eval] at this ⊢ <;> exact this

/-- after `finish` there is at most one NOT and it is the root -/
theorem finish_shape (t : Ast α) : (finish t).NotFree ∨ ∃ c, finish t = .not c ∧ c.NotFree := by
  unfold finish
  cases hn : (propagateNot t).2
  · left; simpa using propagateNot_notFree t
  · right; exact ⟨_, by simp, propagateNot_notFree t⟩

end SV.Parser
