import SeqVerif.Model.Chunking
import SeqVerif.Model.FetchDocsSpec
/-!
# C04 - the fetch stream (`storeapi/docs_stream.go: batchLoader`, consumed by `GrpcV1.doFetch`)

The background loader cuts the request into chunks, fetches chunk after chunk and recomputes the chunk size from
the last batch.  What the consumer sees: the concatenation of the batches and how the stream ended
(`done`, `err` = a batch carried an error, `crash` = the loader goroutine panicked, which kills the process).
-/
namespace SV.Fetch

inductive StreamEnd where
  | done
  | err
  | crash
deriving Repr, DecidableEq

/-- `batchLoader`: `fetch` is `Fetcher.FetchDocs`, `csize` is `calcChunkSize` on the lengths of the batch entries
(`none` = integer divide by zero), `fuel` bounds the number of iterations (any value >= number of IDs will do) -/
def batchLoader {I D : Type} (fetch : List I → Res (List (Option D))) (csize : List Nat → Nat → Option Nat)
    (len : D → Nat) : Nat → List I → Nat → List (Option D) × StreamEnd
  | 0, _, _ => ([], .done)
  | _ + 1, [], _ => ([], .done)
  | fuel + 1, i :: rest, size =>
    match fetch ((i :: rest).take size) with
    | .crash => ([], .crash)
    | .err => ([], .err)
    | .ok docs =>
      match csize (docs.map fun d => match d with | none => 0 | some d => len d) size with
      | none => (docs, .crash)
      | some size' =>
        let r := batchLoader fetch csize len fuel ((i :: rest).drop size) size'
        (docs ++ r.1, r.2)

/-- the repaired chunk sizing as the `csize` argument -/
def calcFixedOpt (maxFetch : Nat) (lens : List Nat) (prev : Nat) : Option Nat :=
  some (Chunking.calcFixed maxFetch lens prev)

/-- **chunking is transparent**: whenever every chunk fetch answers the per-entry spec `g` (on non-empty chunks of
entries satisfying an invariant `Q` inherited by sub-chunks) and every computed chunk size is at least one, the
stream delivers exactly `ids.map g` and ends normally - whatever the sequence of chunk sizes is. -/
theorem batchLoader_transparent {I D : Type} (fetch : List I → Res (List (Option D)))
    (csize : List Nat → Nat → Option Nat) (len : D → Nat) (g : I → Option D) (Q : List I → Prop)
    (hQtake : ∀ l n, Q l → Q (l.take n)) (hQdrop : ∀ l n, Q l → Q (l.drop n))
    (hfetch : ∀ c, c ≠ [] → Q c → fetch c = .ok (c.map g))
    (hcalc : ∀ l s, 1 ≤ s → ∃ n, 1 ≤ n ∧ csize l s = some n) :
    ∀ fuel ids size, 1 ≤ size → ids.length ≤ fuel → Q ids →
      batchLoader fetch csize len fuel ids size = (ids.map g, .done) := by
  intro fuel
  induction fuel with
  | zero =>
    intro ids size _ hf _
    have : ids = [] := List.eq_nil_of_length_eq_zero (by omega)
    subst this; rfl
  | succ fuel ih =>
    intro ids size hs hf hq
    cases ids with
    | nil => rfl
    | cons i rest =>
      unfold batchLoader
      have hne : (i :: rest).take size ≠ [] := by
        cases size with
        | zero => omega
        | succ n => simp
      rw [hfetch _ hne (hQtake _ _ hq)]
      dsimp only
      obtain ⟨n, hn1, hn⟩ := hcalc (((i :: rest).take size).map g |>.map fun d => match d with | none => 0 | some d => len d) size hs
      rw [hn]
      dsimp only
      have hlen : ((i :: rest).drop size).length ≤ fuel := by
        simp only [List.length_drop, List.length_cons] at *
        omega
      rw [ih _ n hn1 hlen (hQdrop _ _ hq)]
      dsimp only
      rw [← List.map_append, List.take_append_drop]

theorem calcFixedOpt_pos (maxFetch : Nat) (l : List Nat) (s : Nat) (hs : 1 ≤ s) :
    ∃ n, 1 ≤ n ∧ calcFixedOpt maxFetch l s = some n :=
  ⟨_, Chunking.calcFixed_pos maxFetch l s hs, rfl⟩

/-- the whole store-side fetch: `FetchDocs` under the batch loader with the repaired chunk sizing -/
def fetchStream {D : Type} (bits maxFetch initSize : Nat) (len : D → Nat) (fracs : List (Frac D)) (ids : List IDS) :
    List (Option D) × StreamEnd :=
  batchLoader (fetchDocs bits fracs) (calcFixedOpt maxFetch) len ids.length ids initSize

theorem fetchStream_spec {D : Type} (bits maxFetch initSize : Nat) (len : D → Nat) (P : Frac D → ID → Nat)
    (fracs : List (Frac D)) (ids : List IDS) (hinit : 1 ≤ initSize)
    (hwf : ∀ f, f ∈ fracs → FracWF bits P f) (hnames : (fracs.map (·.name)).Nodup)
    (hnd : (ids.map (·.id)).Nodup) :
    fetchStream bits maxFetch initSize len fracs ids = (ids.map (specDoc bits P fracs), .done) := by
  unfold fetchStream
  apply batchLoader_transparent (fetchDocs bits fracs) (calcFixedOpt maxFetch) len (specDoc bits P fracs)
    (fun l => (l.map (·.id)).Nodup)
  · intro l n h
    exact ((List.take_sublist n l).map _).nodup h
  · intro l n h
    exact ((List.drop_sublist n l).map _).nodup h
  · intro c hne hq
    exact fetchDocs_spec bits P fracs c hwf hnames hne hq
  · exact calcFixedOpt_pos maxFetch
  · exact hinit
  · exact Nat.le_refl _
  · exact hnd

end SV.Fetch
