/-!
# DESIGN-PHASE SEED (superseded by `Model/Ast.lean`, namespace `SV.Parser`) - `parser.propagateNot` (C12)

`SV.Ast` / `SV.Op` / `SV.eval` / `SV.propagateNot` here are the prototype; the C12 theorems are about
`SV.Parser.Ast` / `propagateNot` / `finish` (Model/Ast.lean, reused by ParserCore, SeqQLFilter, LegacyParser).
The two are redundant, not different: `Consistency/PNot.lean` proves them equal on ALL inputs under the bijection
`astToP` / `astOfP` (`cons_pnot_propagateNot_seed_eq_parser`, `cons_pnot_propagateNot_parser_eq_seed`,
`cons_pnot_eval_seed_eq_parser`, `cons_pnot_noNand_seed_eq_parser`, `cons_pnot_astOfP_astToP`, `cons_pnot_astToP_astOfP`).
-/
namespace SV

inductive Op | or | and | nand
deriving DecidableEq, Repr

/-- parser.ASTNode restricted to what the parsers build (leaf / not / binary) -/
inductive Ast
  | leaf (n : Nat)
  | not (c : Ast)
  | bin (op : Op) (l r : Ast)
deriving Repr

/-- evaluation as the eval tree does it: NAND = (¬ children[0]) ∧ children[1] -/
def Ast.eval (env : Nat → Bool) : Ast → Bool
  | .leaf n => env n
  | .not c => !(c.eval env)
  | .bin .or l r => l.eval env || r.eval env
  | .bin .and l r => l.eval env && r.eval env
  | .bin .nand l r => !(l.eval env) && r.eval env

/-- parser.propagateNot, statement by statement -/
def propagateNot : Ast → Ast × Bool
  | .leaf n => (.leaf n, false)
  | .not c =>
    let (nested, n) := propagateNot c
    (nested, !n)
  | .bin op l r =>
    let (left, leftNot) := propagateNot l
    let (right, rightNot) := propagateNot r
    -- if logical.Operator == LogicalOr { ... }
    let (op1, not1, ln1, rn1, early) :=
      if op = .or then
        if leftNot || rightNot then (Op.and, true, !leftNot, !rightNot, false)
        else (op, false, leftNot, rightNot, true)
      else (op, false, leftNot, rightNot, false)
    if early then (.bin op1 left right, false)
    else if ln1 && rn1 then (.bin .or left right, true)
    else
      let op2 := if ln1 then Op.nand else op1
      if rn1 then (.bin .nand right left, not1)
      else (.bin op2 left right, not1)

/-- inputs never contain NAND (it is created only by propagateNot) -/
def Ast.NoNand : Ast → Prop
  | .leaf _ => True
  | .not c => c.NoNand
  | .bin op l r => op ≠ .nand ∧ l.NoNand ∧ r.NoNand

theorem propagateNot_sound (env : Nat → Bool) (t : Ast) (h : t.NoNand) :
    (((propagateNot t).1.eval env) != (propagateNot t).2) = t.eval env := by
  induction t with
  | leaf n => simp [propagateNot, Ast.eval]
  | not c ih =>
    have := ih h
    simp only [propagateNot, Ast.eval]
    rw [← this]
    cases (propagateNot c).1.eval env <;> cases (propagateNot c).2 <;> rfl
  | bin op l r ihl ihr =>
    obtain ⟨hop, hl, hr⟩ := h
    have hl' := ihl hl
    have hr' := ihr hr
    simp only [propagateNot]
    rcases hpl : propagateNot l with ⟨L, ln⟩
    rcases hpr : propagateNot r with ⟨R, rn⟩
    rw [hpl] at hl'
    rw [hpr] at hr'
    simp only at hl' hr'
    cases op with
    | nand => exact absurd rfl hop
    | or =>
      simp only [Ast.eval, ← hl', ← hr']
      cases ln <;> cases rn <;> simp [Ast.eval] <;>
        (generalize L.eval env = a; generalize R.eval env = b; cases a <;> cases b <;> rfl)
    | and =>
      simp only [Ast.eval, ← hl', ← hr']
      cases ln <;> cases rn <;> simp [Ast.eval] <;>
        (generalize L.eval env = a; generalize R.eval env = b; cases a <;> cases b <;> rfl)

end SV
