/-!
# Hand-over of a bulk's metas from the in-memory client to the store (single-binary mode)

`storeapi.inMemoryAPIClient.Bulk` passes the request to `GrpcV1.Bulk`, which writes the blocks and QUEUES an index
task that keeps the `Metas` slice; index workers read it later.  So the buffer handed over is retained by the store
after `Bulk` has returned, until a worker has indexed it.  Model: buffers are numbered, `mem` is what each buffer
currently holds, `queue` the retained tasks (buffer, payload the task was accepted with), `out` what the workers
read.  Two hand-over disciplines: a fresh clone per call (the code: `slices.Clone`), and a pooled buffer that is
released when `Bulk` returns.
-/
namespace SV.Handover

inductive Ev
  | accept (payload : Nat)   -- one Bulk call, from entry to return
  | work                     -- an index worker takes the next task and reads its metas
  deriving Repr, DecidableEq

structure St where
  mem : List (Nat × Nat)      -- latest write first: buffer ↦ contents
  queue : List (Nat × Nat)    -- retained tasks: (buffer, payload accepted)
  next : Nat                  -- first never-used buffer number
  free : List Nat             -- released pooled buffers (LIFO)
  out : List (Nat × Option Nat)   -- (payload accepted, payload the worker read)
  deriving Repr, DecidableEq

def St.init : St := ⟨[], [], 0, [], []⟩

def readBuf (mem : List (Nat × Nat)) (b : Nat) : Option Nat := (mem.find? fun e => e.1 = b).map (·.2)

def work (s : St) : St :=
  match s.queue with
  | [] => s
  | (b, p) :: q => { s with queue := q, out := s.out ++ [(p, readBuf s.mem b)] }

/-- `in.Metas = slices.Clone(in.Metas)`: a buffer nobody else has, never released -/
def stepClone (s : St) : Ev → St
  | .accept p => { s with mem := (s.next, p) :: s.mem, queue := s.queue ++ [(s.next, p)], next := s.next + 1 }
  | .work => work s

/-- a pooled copy released by `defer` when `Bulk` returns: the buffer goes back to the pool while the task that
points at it is still queued -/
def stepPooled (s : St) : Ev → St
  | .accept p =>
    match s.free with
    | b :: _ => { s with mem := (b, p) :: s.mem, queue := s.queue ++ [(b, p)] }          -- acquired and released again
    | [] => { s with mem := (s.next, p) :: s.mem, queue := s.queue ++ [(s.next, p)], next := s.next + 1, free := [s.next] }
  | .work => work s

def run (step : St → Ev → St) (evs : List Ev) : St := evs.foldl step St.init

/-- every retained task points at a buffer that still holds the payload it was accepted with -/
def Inv (s : St) : Prop :=
  (∀ t, t ∈ s.queue → t.1 < s.next ∧ readBuf s.mem t.1 = some t.2) ∧ (∀ o, o ∈ s.out → o.2 = some o.1)

theorem inv_init : Inv St.init := ⟨fun t ht => (by cases ht), fun o ho => (by cases ho)⟩

theorem inv_stepClone (s : St) (e : Ev) (h : Inv s) : Inv (stepClone s e) := by
  obtain ⟨hq, ho⟩ := h
  cases e with
  | accept p =>
    refine ⟨?_, ho⟩
    intro t ht
    simp only [stepClone, List.mem_append, List.mem_singleton] at ht
    rcases ht with ht | rfl
    · obtain ⟨h1, h2⟩ := hq t ht
      refine ⟨Nat.lt_succ_of_lt h1, ?_⟩
      have : ¬ (s.next = t.1) := by omega
      simp only [stepClone, readBuf, List.find?_cons, this, decide_false] at h2 ⊢
      exact h2
    · exact ⟨Nat.lt_succ_self _, by simp [stepClone, readBuf]⟩
  | work =>
    unfold stepClone work
    cases hqq : s.queue with
    | nil => simp only; exact ⟨fun t ht => hq t ht, ho⟩
    | cons t q =>
      obtain ⟨b, p⟩ := t
      have hb := hq (b, p) (by rw [hqq]; simp)
      refine ⟨fun t ht => hq t (by rw [hqq]; exact List.mem_cons_of_mem _ ht), ?_⟩
      intro o hoo
      simp only [List.mem_append, List.mem_singleton] at hoo
      rcases hoo with hoo | rfl
      · exact ho o hoo
      · exact hb.2

/-- **clone per call is safe**: for every interleaving of accepted bulks and worker steps, every worker reads
exactly the metas its task was accepted with -/
theorem clone_safe (evs : List Ev) : ∀ o, o ∈ (run stepClone evs).out → o.2 = some o.1 := by
  have : ∀ (evs : List Ev) (s : St), Inv s → Inv (evs.foldl stepClone s) := by
    intro evs
    induction evs with
    | nil => intro s h; exact h
    | cons e evs ih => intro s h; exact ih _ (inv_stepClone s e h)
  exact (this evs St.init inv_init).2

/-- **a pooled buffer released on return is not**: two bulks accepted before a worker runs - the first task is
indexed with the second bulk's metas -/
theorem pooled_counterexample :
    (run stepPooled [.accept 1, .accept 2, .work, .work]).out = [(1, some 2), (2, some 2)] := by decide

end SV.Handover
