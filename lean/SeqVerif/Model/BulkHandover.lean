/-!
# Hand-over of a bulk's metas from the in-memory client to the store (single-binary mode)

`storeapi.inMemoryAPIClient.Bulk` passes the request to `GrpcV1.Bulk`, which writes the blocks and QUEUES an index
task that keeps the `Metas` slice; index workers read it later.  So the buffer handed over is retained by the store
after `Bulk` has returned, until a worker has indexed it.  Model: buffers are numbered, `mem` is what each buffer
currently holds, `queue` the retained tasks (buffer, payload the task was accepted with), `out` what the workers
read.  Two hand-over disciplines: a fresh clone per call (the code: `slices.Clone`), and a pooled buffer that is
released when `Bulk` returns.
-/
namespace SV.Handover

inductive Ev
  | accept (payload : Nat)   -- one Bulk call, from entry to return
  | work                     -- an index worker takes the next task and reads its metas
  deriving Repr, DecidableEq

structure St where
  mem : List (Nat × Nat)      -- latest write first: buffer ↦ contents
  queue : List (Nat × Nat)    -- retained tasks: (buffer, payload accepted)
  next : Nat                  -- first never-used buffer number
  free : List Nat             -- released pooled buffers (LIFO)
  out : List (Nat × Option Nat)   -- (payload accepted, payload the worker read)
  deriving Repr, DecidableEq

def St.init : St := ⟨[], [], 0, [], []⟩

def readBuf (mem : List (Nat × Nat)) (b : Nat) : Option Nat := (mem.find? fun e => e.1 = b).map (·.2)

def work (s : St) : St :=
  match s.queue with
  | [] => s
  | (b, p) :: q => { s with queue := q, out := s.out ++ [(p, readBuf s.mem b)] }

/-- `in.Metas = slices.Clone(in.Metas)`: a buffer nobody else has, never released -/
def stepClone (s : St) : Ev → St
  | .accept p => { s with mem := (s.next, p) :: s.mem, queue := s.queue ++ [(s.next, p)], next := s.next + 1 }
  | .work => work s

/-- a pooled copy released by `defer` when `Bulk` returns: the buffer goes back to the pool while the task that
points at it is still queued -/
def stepPooled (s : St) : Ev → St
  | .accept p =>
    match s.free with
    | b :: _ => { s with mem := (b, p) :: s.mem, queue := s.queue ++ [(b, p)] }          -- acquired and released again
    | [] => { s with mem := (s.next, p) :: s.mem, queue := s.queue ++ [(s.next, p)], next := s.next + 1, free := [s.next] }
  | .work => work s

def run (step : St → Ev → St) (evs : List Ev) : St := evs.foldl step St.init

/-- every retained task points at a buffer that still holds the payload it was accepted with -/
def Inv (s : St) : Prop :=
  (∀ t, t ∈ s.queue → t.1 < s.next ∧ readBuf s.mem t.1 = some t.2) ∧ (∀ o, o ∈ s.out → o.2 = some o.1)

theorem inv_init : Inv St.init := ⟨fun t ht => (by cases ht), fun o ho => (by cases ho)⟩

theorem inv_stepClone (s : St) (e : Ev) (h : Inv s) : Inv (stepClone s e) := by
  obtain ⟨hq, ho⟩ := h
  cases e with
  | accept p =>
    refine ⟨?_, ho⟩
    intro t ht
    simp only [stepClone, List.mem_append, List.mem_singleton] at ht
    rcases ht with ht | rfl
    · obtain ⟨h1, h2⟩ := hq t ht
      refine ⟨Nat.lt_succ_of_lt h1, ?_⟩
      have : ¬ (s.next = t.1) := by omega
      simp only [stepClone, readBuf, List.find?_cons, this, decide_false] at h2 ⊢
      exact h2
    · exact ⟨Nat.lt_succ_self _, by simp [stepClone, readBuf]⟩
  | work =>
    unfold stepClone work
    cases hqq : s.queue with
    | nil => simp only; exact ⟨fun t ht => hq t ht, ho⟩
    | cons t q =>
      obtain ⟨b, p⟩ := t
      have hb := hq (b, p) (by rw [hqq]; simp)
      refine ⟨fun t ht => hq t (by rw [hqq]; exact List.mem_cons_of_mem _ ht), ?_⟩
      intro o hoo
      simp only [List.mem_append, List.mem_singleton] at hoo
      rcases hoo with hoo | rfl
      · exact ho o hoo
      · exact hb.2

/-- **clone per call is safe**: for every interleaving of accepted bulks and worker steps, every worker reads
exactly the metas its task was accepted with -/
theorem clone_safe (evs : List Ev) : ∀ o, o ∈ (run stepClone evs).out → o.2 = some o.1 := by
  have : ∀ (evs : List Ev) (s : St), Inv s → Inv (evs.foldl stepClone s) := by
    intro evs
    induction evs with
    | nil => intro s h; exact h
    | cons e evs ih => intro s h; exact ih _ (inv_stepClone s e h)
  exact (this evs St.init inv_init).2

/-- **a pooled buffer released on return is not**: two bulks accepted before a worker runs - the first task is
indexed with the second bulk's metas -/
theorem pooled_counterexample :
    (run stepPooled [.accept 1, .accept 2, .work, .work]).out = [(1, some 2), (2, some 2)] := by decide

/-! ## the ingestor -> storage-client boundary

`Ingestor.ProcessDocuments` takes a `DocsMetasCompressor` from a pool, compresses into the compressor's own buffers,
hands those buffers to `client.StoreDocuments` and puts the compressor back only when `ProcessDocuments` returns
(`defer`), i.e. after the client has consumed them.  Here `accept` = "a bulk has compressed and its client call is in
flight", `work` = "that client call consumes the blocks and the bulk returns".  Discipline `stepHeld`: the pooled
buffer is released by the consumer, not at hand-over. -/

def workHeld (s : St) : St :=
  match s.queue with
  | [] => s
  | (b, p) :: q => { s with queue := q, out := s.out ++ [(p, readBuf s.mem b)], free := b :: s.free }

def stepHeld (s : St) : Ev → St
  | .accept p =>
    match s.free with
    | b :: fr => { s with mem := (b, p) :: s.mem, queue := s.queue ++ [(b, p)], free := fr }
    | [] => { s with mem := (s.next, p) :: s.mem, queue := s.queue ++ [(s.next, p)], next := s.next + 1 }
  | .work => workHeld s

/-- no buffer is both pooled and in flight, none is in flight twice, and every in-flight buffer still holds the
blocks of its bulk -/
def InvHeld (s : St) : Prop :=
  (s.queue.map (·.1) ++ s.free).Nodup ∧ (∀ b, b ∈ s.queue.map (·.1) ++ s.free → b < s.next) ∧
  (∀ t, t ∈ s.queue → readBuf s.mem t.1 = some t.2) ∧ (∀ o, o ∈ s.out → o.2 = some o.1)

theorem readBuf_cons_ne (mem : List (Nat × Nat)) (b b' p : Nat) (h : b' ≠ b) :
    readBuf ((b', p) :: mem) b = readBuf mem b := by
  simp [readBuf, h]

theorem readBuf_cons_eq (mem : List (Nat × Nat)) (b p : Nat) : readBuf ((b, p) :: mem) b = some p := by
  simp [readBuf]

theorem invHeld_step (s : St) (e : Ev) (h : InvHeld s) : InvHeld (stepHeld s e) := by
  obtain ⟨hnd, hlt, hq, ho⟩ := h
  cases e with
  | accept p =>
    unfold stepHeld
    cases hf : s.free with
    | nil =>
      simp only
      rw [hf] at hnd hlt
      simp only [List.append_nil] at hnd hlt
      refine ⟨?_, ?_, ?_, ho⟩
      · simp only [List.map_append, List.map_cons, List.map_nil, List.append_nil]
        rw [List.nodup_append]
        refine ⟨hnd, by simp, ?_⟩
        intro a ha b hb
        simp only [List.mem_singleton] at hb
        have := hlt a ha
        omega
      · intro b hb
        simp only [List.map_append, List.map_cons, List.map_nil, List.append_nil, List.mem_append, List.mem_singleton] at hb
        show b < s.next + 1
        rcases hb with hb | rfl
        · have := hlt b hb; omega
        · omega
      · intro t ht
        simp only [List.mem_append, List.mem_singleton] at ht
        rcases ht with ht | rfl
        · have hlt' := hlt t.1 (List.mem_map.mpr ⟨t, ht, rfl⟩)
          rw [readBuf_cons_ne _ _ _ _ (by omega)]
          exact hq t ht
        · exact readBuf_cons_eq _ _ _
    | cons b fr =>
      simp only
      rw [hf] at hnd hlt
      have hperm : (s.queue.map (·.1) ++ b :: fr).Perm ((s.queue ++ [(b, p)]).map (·.1) ++ fr) := by
        simp only [List.map_append, List.map_cons, List.map_nil, List.append_assoc, List.cons_append, List.nil_append]
        exact List.Perm.refl _
      refine ⟨hperm.nodup_iff.mp hnd, ?_, ?_, ho⟩
      · intro x hx; exact hlt x (hperm.mem_iff.mpr hx)
      · intro t ht
        simp only [List.mem_append, List.mem_singleton] at ht
        rcases ht with ht | rfl
        · have hne : b ≠ t.1 := by
            intro hbe
            have hmem : t.1 ∈ s.queue.map (·.1) := List.mem_map.mpr ⟨t, ht, rfl⟩
            rw [List.nodup_append] at hnd
            exact hnd.2.2 t.1 hmem b (by simp) hbe.symm
          rw [readBuf_cons_ne _ _ _ _ hne]
          exact hq t ht
        · exact readBuf_cons_eq _ _ _
  | work =>
    unfold stepHeld workHeld
    cases hqq : s.queue with
    | nil => exact ⟨hnd, hlt, hq, ho⟩
    | cons t q =>
      obtain ⟨b, p⟩ := t
      simp only
      rw [hqq] at hnd hlt hq
      have hperm : (((b, p) :: q).map (·.1) ++ s.free).Perm (q.map (·.1) ++ b :: s.free) := by
        simp only [List.map_cons, List.cons_append]
        exact List.perm_middle.symm
      refine ⟨hperm.nodup_iff.mp hnd, ?_, ?_, ?_⟩
      · intro x hx; exact hlt x (hperm.mem_iff.mpr hx)
      · intro t ht; exact hq t (List.mem_cons_of_mem _ ht)
      · intro o hoo
        simp only [List.mem_append, List.mem_singleton] at hoo
        rcases hoo with hoo | rfl
        · exact ho o hoo
        · exact hq (b, p) (by simp)

/-- **a pooled buffer held until its consumer is done is safe**: for every interleaving of bulks reaching their
client call and client calls completing, every client call sees the blocks of its own bulk -/
theorem held_safe (evs : List Ev) : ∀ o, o ∈ (run stepHeld evs).out → o.2 = some o.1 := by
  have h0 : InvHeld St.init := ⟨by simp [St.init], fun b hb => by simp [St.init] at hb, fun t ht => (by cases ht), fun o ho => (by cases ho)⟩
  have : ∀ (evs : List Ev) (s : St), InvHeld s → InvHeld (evs.foldl stepHeld s) := by
    intro evs
    induction evs with
    | nil => intro s h; exact h
    | cons e evs ih => intro s h; exact ih _ (invHeld_step s e h)
  exact (this evs St.init h0).2.2.2

end SV.Handover
