import SeqVerif.Model.Bulk
import SeqVerif.Model.BulkTime
import SeqVerif.Model.Tokenizer
/-!
# `indexer.Index` (proxy/bulk/indexer.go): from a decoded document to the tokens of its metas

The per-field work (`indexer.index`: tokenizers, titles, one `_exists_` token per type) is C11's
`SV.Tok.indexField`, imported unchanged.  This file models what surrounds it: `appendMeta` (the `_all_` token),
`decodeInternal` (dotted names, `noop` fields skipped, `object` fields flattened into the same meta, `tags` arrays,
`nested` arrays creating one more meta per element), `decodeTags`, `appendNestedMeta`, and the final copy of the
parent's tokens (all but `_all_`) into every nested meta.

A decoded document is a tree `JV` as insane-json presents it to the indexer: for every node the bytes
`AsBytes()` returns (`ab`), the runes of `encodeInsaneNode(node)` (`enc`: `Encode(nil)` for arrays, objects, null,
true, false; `AsBytes()` otherwise), whether it `IsObject` / `IsArray`, its `AsFields()` (name bytes, value) and
its `AsArray()`.  The tree is an oracle (insane-json); the harness reads it off the real decoder.
-/
namespace SV.BulkIndex
open SV.Tok SV.Bulk SV.Parser

inductive Shape
  | obj
  | arr
  | other
  deriving DecidableEq, Repr

inductive JV
  | mk (ab : Bytes) (enc : List TRn) (shape : Shape) (fields : List (Bytes × JV)) (items : List JV)

def JV.ab : JV → Bytes | .mk a _ _ _ _ => a
def JV.enc : JV → List TRn | .mk _ e _ _ _ => e
def JV.fields : JV → List (Bytes × JV) | .mk _ _ _ f _ => f

/-- `mappingTypes.Main.TokenizerType` as far as `decodeInternal` distinguishes it -/
inductive Main
  | noop      -- not in the mapping: skipped
  | object
  | tags
  | nested
  | leaf      -- keyword, text, path, exists
  deriving DecidableEq, Repr

structure MTypes where
  main : Main
  all : List MType

abbrev Tok := Bytes × Bytes
abbrev Toks := List Tok

/-- the `_all_` token every meta starts with (`appendMeta`) -/
def allTok : Tok := (tokenAll, [])

/-- `i.metas[idx].Tokens = append(i.metas[idx].Tokens, ts...)` -/
def addTo (ms : List Toks) (idx : Nat) (ts : Toks) : List Toks := ms.modify idx (· ++ ts)

/-- `bytes.Join([][]byte{name, fieldName}, ".")` when `len(name) != 0` -/
def joinName (name f : Bytes) : Bytes := if name = [] then f else name ++ 46 :: f

/-- `node.Dig(k)` on the fields of an object -/
def dig (fs : List (Bytes × JV)) (k : Bytes) : Option JV := (fs.find? fun p => p.1 = k).map (·.2)

def keyK : Bytes := [107, 101, 121]             -- "key"
def valueK : Bytes := [118, 97, 108, 117, 101]  -- "value"

/-- `decodeTags`: one `index` call per element, name = `<field>.<tag key>`, value = the tag's `value` node (nil
when absent: only the `_exists_` tokens are produced) -/
def decodeTags (c : TokCfg) (mp : Bytes → MTypes) (name : Bytes) (idx : Nat) : List JV → List Toks → List Toks
  | [], ms => ms
  | tag :: rest, ms =>
    let key := match dig tag.fields keyK with
      | some k => k.ab
      | none => []
    let fname := name ++ 46 :: key
    let value := (dig tag.fields valueK).map (·.enc)
    decodeTags c mp name idx rest (addTo ms idx (indexField c (mp fname).all fname value))

mutual
/-- `decodeInternal`: the loop over `n.AsFields()` -/
def decodeFields (c : TokCfg) (mp : Bytes → MTypes) (name : Bytes) (idx : Nat) :
    List (Bytes × JV) → List Toks → List Toks
  | [], ms => ms
  | (f, .mk _ enc shape fs is) :: rest, ms =>
    let fname := joinName name f
    let mt := mp fname
    let ms' :=
      if mt.main = .noop then ms
      else if mt.main = .object ∧ shape = .obj then decodeFields c mp fname idx fs ms
      else if mt.main = .tags ∧ shape = .arr then decodeTags c mp fname idx is ms
      else if mt.main = .nested ∧ shape = .arr then decodeNested c mp fname is ms
      else addTo ms idx (indexField c mt.all fname (some enc))
    decodeFields c mp name idx rest ms'
/-- the loop over the elements of a nested array: `appendNestedMeta`, then `decodeInternal` into the new meta -/
def decodeNested (c : TokCfg) (mp : Bytes → MTypes) (fname : Bytes) : List JV → List Toks → List Toks
  | [], ms => ms
  | .mk _ _ _ fs _ :: rest, ms =>
    decodeNested c mp fname rest (decodeFields c mp fname ms.length fs (ms ++ [[allTok]]))
end

/-- `indexer.Index`: token lists of the metas, the parent's first; every nested meta receives the parent's
tokens except `_all_` -/
def indexDoc (c : TokCfg) (mp : Bytes → MTypes) (root : JV) : List Toks :=
  match decodeFields c mp [] 0 root.fields [[allTok]] with
  | [] => []
  | parent :: nested => parent :: nested.map (· ++ parent.drop 1)

/-- `processor.Process` + `indexer.Index`: the metas of one stored document - the parent (`Size = len(doc)`) and
one `Size = 0` meta with the same ID per nested element -/
def docMetas (mid rid : Nat) (toks : List Toks) (d : Bytes) : List Meta :=
  match toks with
  | [] => []
  | parent :: nested => ⟨mid, rid, d.length % 4294967296, parent⟩ :: nested.map fun t => ⟨mid, rid, 0, t⟩

/-! ## shape of the result -/

def Headed (ms : List Toks) : Prop := ∃ p r, ms = (allTok :: p) :: r ∧ ∀ t, t ∈ r → ∃ q, t = allTok :: q

theorem addTo_headed (ms : List Toks) (idx : Nat) (ts : Toks) (h : Headed ms) : Headed (addTo ms idx ts) := by
  obtain ⟨p, r, rfl, hr⟩ := h
  cases idx with
  | zero => exact ⟨p ++ ts, r, by simp [addTo], hr⟩
  | succ i =>
    refine ⟨p, r.modify i (· ++ ts), by simp [addTo], ?_⟩
    intro t ht
    rw [List.mem_iff_getElem] at ht
    obtain ⟨j, hj, rfl⟩ := ht
    simp only [List.length_modify] at hj
    rw [List.getElem_modify]
    obtain ⟨q, hq⟩ := hr r[j] (List.getElem_mem hj)
    split
    · exact ⟨q ++ ts, by simp [hq]⟩
    · exact ⟨q, hq⟩

theorem push_headed (ms : List Toks) (h : Headed ms) : Headed (ms ++ [[allTok]]) := by
  obtain ⟨p, r, rfl, hr⟩ := h
  refine ⟨p, r ++ [[allTok]], by simp, ?_⟩
  intro t ht
  rcases List.mem_append.mp ht with h | h
  · exact hr t h
  · simp only [List.mem_singleton] at h; exact ⟨[], h⟩

theorem decodeTags_headed (c : TokCfg) (mp : Bytes → MTypes) (name : Bytes) (idx : Nat) :
    ∀ (is : List JV) (ms : List Toks), Headed ms → Headed (decodeTags c mp name idx is ms) := by
  intro is
  induction is with
  | nil => intro ms h; exact h
  | cons t rest ih => intro ms h; exact ih _ (addTo_headed _ _ _ h)

theorem decode_headed (c : TokCfg) (mp : Bytes → MTypes) :
    (∀ (name : Bytes) (idx : Nat) (fs : List (Bytes × JV)) (ms : List Toks),
      Headed ms → Headed (decodeFields c mp name idx fs ms)) ∧
    (∀ (fname : Bytes) (is : List JV) (ms : List Toks), Headed ms → Headed (decodeNested c mp fname is ms)) := by
  apply decodeFields.mutual_induct c mp
    (fun name idx fs ms => Headed ms → Headed (decodeFields c mp name idx fs ms))
    (fun fname is ms => Headed ms → Headed (decodeNested c mp fname is ms))
  · intro name idx ms h; simpa [decodeFields] using h
  · intro name idx f ab enc shape fs is rest ms
    intro fname mt ms' ih1 ih2 _ _ ih5 h
    rw [decodeFields]
    apply ih5
    show Headed ms'
    simp only [ms']
    split
    · exact h
    · split
      · exact ih1 h
      · split
        · exact decodeTags_headed c mp fname idx is ms h
        · split
          · exact ih2 h
          · exact addTo_headed _ _ _ h
  · intro fname ms h; simpa [decodeNested] using h
  · intro fname ab enc shape fs items rest ms ih1 ih2 h
    rw [decodeNested]
    exact ih2 (ih1 (push_headed ms h))

/-- the parent meta exists and every meta starts with `_all_`: `indexDoc` returns at least one token list -/
theorem indexDoc_headed (c : TokCfg) (mp : Bytes → MTypes) (root : JV) : Headed (indexDoc c mp root) := by
  have h0 : Headed [[allTok]] := ⟨[], [], rfl, fun t ht => by cases ht⟩
  obtain ⟨p, r, hp, hr⟩ := (decode_headed c mp).1 [] 0 root.fields [[allTok]] h0
  unfold indexDoc
  rw [hp]
  refine ⟨p, r.map (· ++ (allTok :: p).drop 1), rfl, ?_⟩
  intro t ht
  obtain ⟨x, hx, rfl⟩ := List.mem_map.mp ht
  obtain ⟨q, rfl⟩ := hr x hx
  exact ⟨q ++ (allTok :: p).drop 1, by simp⟩

/-- a stored document has exactly one meta with its size (the parent, first) and `k` nested metas of size 0 with
the same ID, where `k + 1` is the number of token lists of `indexDoc` -/
theorem docMetas_shape (mid rid : Nat) (c : TokCfg) (mp : Bytes → MTypes) (root : JV) (d : Bytes) :
    ∃ p ns, docMetas mid rid (indexDoc c mp root) d =
      ⟨mid, rid, d.length % 4294967296, allTok :: p⟩ :: ns ∧
      ns.length + 1 = (indexDoc c mp root).length ∧
      ∀ m, m ∈ ns → m.mid = mid ∧ m.rid = rid ∧ m.size = 0 ∧ ∃ q, m.tokens = allTok :: q := by
  obtain ⟨p, r, hp, hr⟩ := indexDoc_headed c mp root
  rw [hp]
  refine ⟨p, r.map (fun t => ⟨mid, rid, 0, t⟩), rfl, by simp, ?_⟩
  intro m hm
  obtain ⟨t, ht, rfl⟩ := List.mem_map.mp hm
  exact ⟨rfl, rfl, rfl, hr t ht⟩

end SV.BulkIndex
