import SeqVerif.Model.PatternOrder
/-!
# Range filters: numeric iff every given end is a finite number, else text; open / closed / unbounded ends (C13)
-/
namespace SV.Pattern

/-- the `check` of the searcher `newSearcher` builds for a range token -/
def rangeCheck (pf : Bytes → Option Int) (maxKey : Int) (r : Range) (v : Bytes) : Bool :=
  match newRangeNumberSearch pf maxKey r with
  | some s => s.check pf v
  | none => r.checkText v

theorem newSearcher_range (pf : Bytes → Option Int) (maxKey : Int) (r : Range) (tp : Provider) :
    ∃ s, newSearcher pf maxKey (.range r) tp = some s ∧ s.first = tp.firstTID ∧ s.lastP1 = tp.lastP1 ∧
      ∀ v, s.kind.check pf v = rangeCheck pf maxKey r v := by
  simp only [newSearcher, rangeCheck]
  cases newRangeNumberSearch pf maxKey r with
  | none => exact ⟨_, rfl, rfl, rfl, fun _ => rfl⟩
  | some s => exact ⟨_, rfl, rfl, rfl, fun _ => rfl⟩

/-- every given end is a finite number -/
def EndsNumeric (pf : Bytes → Option Int) (r : Range) : Prop :=
  (∀ f, r.from_ = some f → (pf f).isSome = true) ∧ (∀ t, r.to = some t → (pf t).isSome = true)

/-- the token is a finite number inside the interval given by the numeric ends -/
def InNumeric (pf : Bytes → Option Int) (r : Range) (v : Bytes) : Prop :=
  ∃ x, pf v = some x ∧
    (∀ f fx, r.from_ = some f → pf f = some fx → if r.includeFrom then fx ≤ x else fx < x) ∧
    (∀ t tx, r.to = some t → pf t = some tx → if r.includeTo then x ≤ tx else x < tx)

/-- the token is inside the interval in byte-wise lexicographic order -/
def InText (r : Range) (v : Bytes) : Prop :=
  (∀ f, r.from_ = some f → if r.includeFrom then bLe f v else bLt f v) ∧
  (∀ t, r.to = some t → if r.includeTo then bLe v t else bLt v t)

theorem checkText_iff (r : Range) (v : Bytes) : r.checkText v = true ↔ InText r v := by
  obtain ⟨f, t, fi, ti⟩ := r
  simp only [Range.checkText, InText, Bool.and_eq_true]
  apply and_congr
  · cases f with
    | none => simp
    | some f => cases fi <;> simp [bLe, bLt]
  · cases t with
    | none => simp
    | some t => cases ti <;> simp [bLe, bLt]

theorem forall_end (pf : Bytes → Option Int) (f : Bytes) (fx : Int) (hf : pf f = some fx) (Q : Int → Prop) :
    (∀ f' fx', f = f' → pf f' = some fx' → Q fx') ↔ Q fx := by
  constructor
  · intro h; exact h f fx rfl hf
  · rintro h f' fx' rfl hf'
    rw [hf] at hf'; cases hf'; exact h

theorem range_iff (pf : Bytes → Option Int) (maxKey : Int) (hb : ∀ b x, pf b = some x → -maxKey ≤ x ∧ x ≤ maxKey)
    (r : Range) (v : Bytes) :
    rangeCheck pf maxKey r v = true ↔
      (EndsNumeric pf r ∧ InNumeric pf r v) ∨ (¬ EndsNumeric pf r ∧ InText r v) := by
  obtain ⟨f, t, fi, ti⟩ := r
  unfold rangeCheck
  cases f with
  | none =>
    cases t with
    | none =>
      simp only [newRangeNumberSearch, NumRange.check, EndsNumeric, InNumeric]
      cases hv : pf v with
      | none => simp
      | some x =>
        have := hb v x hv
        simp [this.1, this.2]
    | some t =>
      cases ht : pf t with
      | none =>
        simp only [newRangeNumberSearch, ht, Option.map_none, EndsNumeric, checkText_iff]
        simp [ht]
      | some tx =>
        simp only [newRangeNumberSearch, ht, Option.map_some, NumRange.check, EndsNumeric, InNumeric]
        cases hv : pf v with
        | none => simp [ht]
        | some x =>
          have := hb v x hv
          cases ti <;> simp [ht, this.1, forall_end pf t tx ht]
  | some f =>
    cases hf : pf f with
    | none =>
      simp only [newRangeNumberSearch, hf, Option.map_none, EndsNumeric, checkText_iff]
      simp [hf]
    | some fx =>
      cases t with
      | none =>
        simp only [newRangeNumberSearch, hf, Option.map_some, NumRange.check, EndsNumeric, InNumeric]
        cases hv : pf v with
        | none => simp [hf]
        | some x =>
          have := hb v x hv
          cases fi <;> simp [hf, this.2, forall_end pf f fx hf]
      | some t =>
        cases ht : pf t with
        | none =>
          simp only [newRangeNumberSearch, hf, ht, Option.map_some, Option.map_none, EndsNumeric, checkText_iff]
          simp [ht]
        | some tx =>
          simp only [newRangeNumberSearch, hf, ht, Option.map_some, NumRange.check, EndsNumeric, InNumeric]
          cases hv : pf v with
          | none => simp [hf, ht]
          | some x => cases fi <;> cases ti <;> simp [hf, ht, forall_end pf f fx hf, forall_end pf t tx ht]

/-! ## the ends of a range are the literal's bytes verbatim: outer whitespace is significant -/

theorem bLt_append (v w : Bytes) (hw : w ≠ []) : bLt v (v ++ w) := by
  induction v with
  | nil => cases w with
    | nil => exact absurd rfl hw
    | cons a as => simp [bLt, bcmp]
  | cons x xs ih => simpa [bLt, bcmp] using ih

/-- a text range with the closed lower end `v ++ w` (`w` non-empty, e.g. one trailing space) does NOT contain the
token `v`; with the closed upper end `v` it does not contain `v ++ w`.  (A parser that trimmed the quoted end would
make both wrong; keyword tokens are whole field values.) -/
theorem range_end_suffix_significant (r : Range) (v w : Bytes) (hw : w ≠ []) :
    (r.from_ = some (v ++ w) → r.checkText v = false) ∧
    (r.to = some v → r.checkText (v ++ w) = false) := by
  have hlt := bLt_append v w hw
  have hgt : bcmp (v ++ w) v = .gt := (bcmp_gt_iff _ _).mpr hlt
  obtain ⟨f, t, fi, ti⟩ := r
  constructor
  · intro hf
    simp only at hf
    subst hf
    cases fi <;> simp [Range.checkText, hgt]
  · intro ht
    simp only at ht
    subst ht
    cases ti <;> simp [Range.checkText, hgt]

end SV.Pattern
