import SeqVerif.Model.CacheClean
/-!
# C18 - a sequential call is exactly the run of its critical sections (so `SeqReach ⊆ Reach`)
-/
namespace SV.Cache

theorem set_append_last {α} (l : List α) (a b : α) : (l ++ [a]).set l.length b = l ++ [b] := by
  induction l with
  | nil => rfl
  | cons x xs ih => simp [ih]

theorem st_todo_none (s : St) (h : s.todo = none) : { s with todo := none } = s := by
  cases s; simp_all

theorem cleanupRest_todo (s : St) (t : Option (List Nat)) (bs : List Nat) :
    cleanupRest { s with todo := t } bs = ({ (cleanupRest s bs).1 with todo := t }, (cleanupRest s bs).2) := by
  induction bs generalizing s with
  | nil => rfl
  | cons b bs ih =>
    simp only [cleanupRest]
    have h1 : (cacheCleanup { s with todo := t } b).1 = { (cacheCleanup s b).1 with todo := t } := rfl
    have h2 : (cacheCleanup { s with todo := t } b).2 = (cacheCleanup s b).2 := rfl
    have h3 : rebuilds { s with todo := t } b = rebuilds s b := rfl
    rw [h1, h2, h3, ih]

theorem run_cleanupBuckets (cfg : Cfg) (bs : List Nat) (s : St) (ht : s.todo = mkTodo bs) :
    run cfg s (bs.map fun _ => Label.cleanupBucket) =
      some ({ (cleanupRest s bs).1 with todo := none }, ((cleanupRest s bs).2)) := by
  induction bs generalizing s with
  | nil =>
    simp only [List.map_nil, run, cleanupRest]
    rw [st_todo_none s (by simpa [mkTodo] using ht)]
  | cons b bs ih =>
    have ht' : s.todo = some (b :: bs) := by simpa [mkTodo] using ht
    simp only [List.map_cons, run, step, ht']
    have := ih { (cacheCleanup s b).1 with todo := mkTodo bs } rfl
    rw [this, cleanupRest_todo]
    simp only [cleanupRest]

theorem seqOp_eq_run (cfg : Cfg) {s s' : St} {op : Op} {outs : List Out} (h0 : s.pc 0 = .idle) (ht : s.todo = none)
    (hs : seqOp cfg s op = some (s', outs)) : run cfg s (opLabels cfg s op) = some (s', outs) := by
  cases op with
  | newCache =>
    simp only [seqOp, Option.some.injEq, Prod.mk.injEq] at hs
    simp [opLabels, run, step, hs.1, hs.2.symm]
  | get c k oc =>
    simp only [seqOp] at hs
    split at hs
    · rename_i hpre
      cases hl : lookup s.heap c k with
      | some eid =>
        have hne : (acquire s 0 c k).2 ≠ .loading := by
          unfold acquire; rw [hl]; simp only
          split
          · simp
          · split <;> simp
        simp only [opLabels, hl, Option.isSome_some, if_true, run, step, h0, hpre, and_self]
        generalize hacq : acquire s 0 c k = r at hs hne
        obtain ⟨s1, o1⟩ := r
        simp only at hs hne
        cases o1 <;> first | (exact absurd rfl hne) | (cases oc <;> simp_all)
      | none =>
        have hacq : acquire s 0 c k =
            (setPc { s with heap := s.heap ++ [⟨c, k, .loading, 0, s.cur c, 0, false, true⟩] } 0 (.loading c k s.heap.length),
             .loading) := by
          unfold acquire; rw [hl]
        have hpc1 : (setPc { s with heap := s.heap ++ [(⟨c, k, .loading, 0, s.cur c, 0, false, true⟩ : Entry)] } 0
            (.loading c k s.heap.length)).pc 0 = .loading c k s.heap.length := by rw [setPc_pc]; simp
        have hh1 : (setPc { s with heap := s.heap ++ [(⟨c, k, .loading, 0, s.cur c, 0, false, true⟩ : Entry)] } 0
            (.loading c k s.heap.length)).heap[s.heap.length]? = some ⟨c, k, .loading, 0, s.cur c, 0, false, true⟩ := by
          show (s.heap ++ [_])[s.heap.length]? = _
          rw [List.getElem?_append_right (Nat.le_refl _)]; simp
        have hstep1 : step cfg s (.get 0 c k) = some (setPc { s with heap := s.heap ++ [⟨c, k, .loading, 0, s.cur c, 0, false, true⟩] } 0
            (.loading c k s.heap.length), .loading) := by
          simp only [step, h0, hpre, and_self, if_true, hacq]
        rw [hacq] at hs
        simp only [opLabels, hl, Option.isSome_none, Bool.false_eq_true, if_false]
        generalize setPc { s with heap := s.heap ++ [(⟨c, k, .loading, 0, s.cur c, 0, false, true⟩ : Entry)] } 0
            (.loading c k s.heap.length) = s1 at hs hpc1 hh1 hstep1
        cases oc with
        | ok v sz =>
          simp only [Option.some.injEq, Prod.mk.injEq] at hs
          have hsnd : save cfg s1 0 c k s.heap.length v sz = ((save cfg s1 0 c k s.heap.length v sz).1, .value v) := by
            unfold save; rw [hh1]; simp
          have hstep2 : step cfg s1 (.finish 0 (.ok v sz)) = some ((save cfg s1 0 c k s.heap.length v sz).1, .value v) := by
            simp only [step, hpc1]; rw [← hsnd]
          simp only [run, hstep1, hstep2]
          rw [← hs.1, ← hs.2]
        | err =>
          simp only [Option.some.injEq, Prod.mk.injEq] at hs
          have hstep2 : step cfg s1 (.finish 0 .err) = some (recover s1 0 c k s.heap.length, .err) := by
            simp only [step, hpc1]
          simp only [run, hstep1, hstep2]
          rw [← hs.1, ← hs.2]
        | panic =>
          simp only [Option.some.injEq, Prod.mk.injEq] at hs
          have hstep2 : step cfg s1 (.finish 0 .panic) = some (recover s1 0 c k s.heap.length, .panic) := by
            simp only [step, hpc1]
          simp only [run, hstep1, hstep2]
          rw [← hs.1, ← hs.2]
    · exact absurd hs (by simp)
  | release c =>
    simp only [seqOp] at hs
    split at hs
    · rename_i hc
      simp only [Option.some.injEq, Prod.mk.injEq] at hs
      simp [opLabels, run, step, hc, hs.1, hs.2.symm]
    · exact absurd hs (by simp)
  | rotate =>
    simp only [seqOp, Option.some.injEq, Prod.mk.injEq] at hs
    simp only [opLabels, run, step, ht, if_true]
    rw [← hs.1, ← hs.2]
  | cleanup =>
    simp only [seqOp] at hs
    simp only [opLabels, cleanupLabels]
    generalize hcb : cleanupBegin cfg s = r at hs
    obtain ⟨s1, o1⟩ := r
    have ht1 : ∀ b t g, o1 = .cleanup true t g → b = true → s1.todo = mkTodo s.buckets := by
      intro b t g ho _
      unfold cleanupBegin at hcb
      split at hcb
      · simp only [Prod.mk.injEq] at hcb; rw [ho] at hcb; simp at hcb
      · simp only [Prod.mk.injEq] at hcb; rw [← hcb.1]
    cases o1 with
    | cleanup started t g =>
      cases started with
      | true =>
        simp only [Option.some.injEq, Prod.mk.injEq] at hs
        simp only [run, step, ht, if_true, hcb]
        rw [run_cleanupBuckets cfg s.buckets s1 (ht1 true t g rfl rfl)]
        have := cleanupRest_todo s1 none s.buckets
        rw [this] at hs
        simp only at hs
        rw [← hs.1, ← hs.2]
      | false =>
        simp only [Option.some.injEq, Prod.mk.injEq] at hs
        simp only [run, step, ht, if_true, hcb]
        rw [← hs.1, ← hs.2]
    | _ =>
      simp only [Option.some.injEq, Prod.mk.injEq] at hs
      simp only [run, step, ht, if_true, hcb]
      rw [← hs.1, ← hs.2]
  | cleanEmpty =>
    simp only [seqOp] at hs
    simp only [opLabels, run, step, ht, if_true]
    cases hce : cleanEmpty s with
    | none => rw [hce] at hs; simp at hs
    | some r =>
      rw [hce] at hs
      simp only [Option.map_some, Option.some.injEq, Prod.mk.injEq] at hs
      obtain ⟨a, b⟩ := r
      simp only at hs
      rw [← hs.1, ← hs.2]
  | releaseBuckets =>
    simp only [seqOp, Option.some.injEq, Prod.mk.injEq] at hs
    simp only [opLabels, run, step, ht, if_true]
    rw [← hs.1, ← hs.2, ht]

theorem run_reach {cfg : Cfg} {s s' : St} {ls : List Label} {outs : List Out} (hr : Reach cfg s)
    (h : run cfg s ls = some (s', outs)) : Reach cfg s' := by
  induction ls generalizing s s' outs with
  | nil => simp only [run, Option.some.injEq, Prod.mk.injEq] at h; rw [← h.1]; exact hr
  | cons l ls ih =>
    simp only [run] at h
    split at h
    · exact absurd h (by simp)
    · rename_i s1 o1 hstep
      split at h
      · exact absurd h (by simp)
      · rename_i s2 os hrun
        simp only [Option.some.injEq, Prod.mk.injEq] at h
        rw [← h.1]
        exact ih (Reach.step hr hstep) hrun

/-! ## sequential histories are quiescent -/

/-- between two sequential calls nothing is in flight and every map entry is valid -/
structure SInv (s : St) : Prop where
  idle : ∀ t, s.pc t = .idle
  todo : s.todo = none
  valid : ∀ e ∈ s.heap, e.inMap = true → e.st = .valid

theorem cleanupRest_frame (s : St) (bs : List Nat) :
    (cleanupRest s bs).1.glist = s.glist ∧ (cleanupRest s bs).1.gsizeL = s.gsizeL ∧ (cleanupRest s bs).1.pcL = s.pcL ∧
      (cleanupRest s bs).1.todo = s.todo ∧
      (∀ e ∈ (cleanupRest s bs).1.heap, e.inMap = true → e ∈ s.heap) := by
  induction bs generalizing s with
  | nil => exact ⟨rfl, rfl, rfl, rfl, fun _ h _ => h⟩
  | cons b bs ih =>
    simp only [cleanupRest]
    have := ih (cacheCleanup s b).1
    refine ⟨this.1, this.2.1, this.2.2.1, this.2.2.2.1, ?_⟩
    intro e he hin
    have h1 := this.2.2.2.2 e he hin
    rw [cacheCleanup_heap] at h1
    simp only [evicted, List.mem_map] at h1
    obtain ⟨e0, he0, rfl⟩ := h1
    split at hin
    · simp at hin
    · rename_i hev; simp only [hev, if_false]; exact he0

theorem seqOp_sinv {cfg : Cfg} {s s' : St} {op : Op} {o : List Out} (q : SInv s)
    (hs : seqOp cfg s op = some (s', o)) : SInv s' := by
  have hidle : ∀ (x : St) t0, x.pcL = s.pcL → ∀ t, (setPc x t0 .idle).pc t = .idle := by
    intro x t0 hx t
    rw [setPc_pc]; split
    · rfl
    · have := q.idle t; simp only [St.pc, hx] at this ⊢; exact this
  cases op with
  | newCache =>
    simp only [seqOp, Option.some.injEq, Prod.mk.injEq] at hs
    rw [← hs.1]; exact ⟨q.idle, q.todo, q.valid⟩
  | get c k oc =>
    simp only [seqOp] at hs
    split at hs
    · cases hl : lookup s.heap c k with
      | some eid =>
        obtain ⟨e, he, -, -, hin⟩ := lookup_sound hl
        have hv := q.valid e (List.mem_of_getElem? he) hin
        have hacq : acquire s 0 c k = (setPc (updGen s eid (s.cur c)) 0 .idle, .value e.val) := by
          unfold acquire; rw [hl]; simp only [he, hv, if_true]
        rw [hacq] at hs
        simp only [Option.some.injEq, Prod.mk.injEq] at hs
        rw [← hs.1]
        refine ⟨hidle _ 0 (updGen_pcL _ _ _), by show (updGen s eid (s.cur c)).todo = none; rw [← q.todo]; exact congrArg MView.todo (updGen_mview s eid (s.cur c)), ?_⟩
        intro x hx hxin
        obtain ⟨j, hj⟩ := List.mem_iff_getElem?.mp hx
        obtain ⟨x0, hx0, -, -, hst, -, hin0⟩ := (sim_updGen s eid (s.cur c)).get hj
        rw [hst]; exact q.valid x0 (List.mem_of_getElem? hx0) (hin0 hxin)
      | none =>
        have hacq : acquire s 0 c k =
            (setPc { s with heap := s.heap ++ [⟨c, k, .loading, 0, s.cur c, 0, false, true⟩] } 0 (.loading c k s.heap.length),
             .loading) := by
          unfold acquire; rw [hl]
        rw [hacq] at hs
        have hnew : (s.heap ++ [(⟨c, k, .loading, 0, s.cur c, 0, false, true⟩ : Entry)])[s.heap.length]? =
            some ⟨c, k, .loading, 0, s.cur c, 0, false, true⟩ := by
          rw [List.getElem?_append_right (Nat.le_refl _)]; simp
        cases oc with
        | ok v sz =>
          simp only [Option.some.injEq, Prod.mk.injEq] at hs
          rw [← hs.1]
          unfold save
          simp only [setPc, hnew, set_append_last, Bool.false_eq_true, if_false]
          refine ⟨?_, q.todo, ?_⟩
          · intro t
            have := q.idle t
            simp only [St.pc, mget_mset] at this ⊢
            split <;> simp [this]
          · intro x hx hxin
            rcases List.mem_append.mp hx with hx | hx
            · exact q.valid x hx hxin
            · simp only [List.mem_singleton] at hx; subst hx; rfl
        | err =>
          simp only [Option.some.injEq, Prod.mk.injEq] at hs
          rw [← hs.1]; exact sinv_recover_new q
        | panic =>
          simp only [Option.some.injEq, Prod.mk.injEq] at hs
          rw [← hs.1]; exact sinv_recover_new q
    · exact absurd hs (by simp)
  | release c =>
    simp only [seqOp] at hs
    split at hs
    · simp only [Option.some.injEq, Prod.mk.injEq] at hs
      rw [← hs.1]
      refine ⟨q.idle, q.todo, ?_⟩
      intro x hx hxin
      simp only [release, List.mem_map] at hx
      obtain ⟨e, he, rfl⟩ := hx
      split at hxin
      · simp at hxin
      · rename_i hne; simp only [hne, if_false]; exact q.valid e he hxin
    · exact absurd hs (by simp)
  | rotate =>
    simp only [seqOp, Option.some.injEq, Prod.mk.injEq] at hs
    rw [← hs.1]
    unfold rotate; split
    · exact q
    · exact ⟨q.idle, q.todo, q.valid⟩
  | cleanup =>
    simp only [seqOp] at hs
    generalize hcb : cleanupBegin cfg s = r at hs
    obtain ⟨s1, o1⟩ := r
    have h1 : s1.pcL = s.pcL ∧ s1.heap = s.heap ∧ (s1.todo = none ∨ ∃ t g, o1 = .cleanup true t g) := by
      unfold cleanupBegin at hcb
      split at hcb
      · simp only [Prod.mk.injEq] at hcb; rw [← hcb.1]; exact ⟨rfl, rfl, Or.inl q.todo⟩
      · simp only [Prod.mk.injEq] at hcb; rw [← hcb.1, ← hcb.2]
        exact ⟨(markStale_heap s _).2.1, (markStale_heap s _).1, Or.inr ⟨_, _, rfl⟩⟩
    have hfin : ∀ bs, SInv (cleanupRest { s1 with todo := none } bs).1 := by
      intro bs
      have fr := cleanupRest_frame { s1 with todo := none } bs
      refine ⟨fun t => ?_, fr.2.2.2.1, ?_⟩
      · have e1 : (cleanupRest { s1 with todo := none } bs).1.pcL = s.pcL := fr.2.2.1.trans h1.1
        have := q.idle t; simp only [St.pc, e1] at this ⊢; exact this
      · intro e he hin
        have := fr.2.2.2.2 e he hin
        exact q.valid e (by rw [← h1.2.1]; exact this) hin
    cases o1 with
    | cleanup started t g =>
      cases started with
      | true =>
        simp only [Option.some.injEq, Prod.mk.injEq] at hs
        rw [← hs.1]; exact hfin _
      | false =>
        simp only [Option.some.injEq, Prod.mk.injEq] at hs
        rw [← hs.1]
        rcases h1.2.2 with h | ⟨_, _, h⟩
        · refine ⟨fun t => ?_, h, fun e he => q.valid e (h1.2.1 ▸ he)⟩
          have := q.idle t; simp only [St.pc, h1.1] at this ⊢; exact this
        · cases h
    | _ =>
      simp only [Option.some.injEq, Prod.mk.injEq] at hs
      rw [← hs.1]
      rcases h1.2.2 with h | ⟨_, _, h⟩
      · refine ⟨fun t => ?_, h, fun e he => q.valid e (h1.2.1 ▸ he)⟩
        have := q.idle t; simp only [St.pc, h1.1] at this ⊢; exact this
      · cases h
  | cleanEmpty =>
    simp only [seqOp] at hs
    cases hce : cleanEmpty s with
    | none => rw [hce] at hs; simp at hs
    | some r =>
      rw [hce] at hs
      simp only [Option.map_some, Option.some.injEq, Prod.mk.injEq] at hs
      rw [← hs.1]
      unfold cleanEmpty at hce
      split at hce
      · cases hce
      · simp only [Option.some.injEq] at hce; rw [← hce]; exact ⟨q.idle, q.todo, q.valid⟩
  | releaseBuckets =>
    simp only [seqOp, Option.some.injEq, Prod.mk.injEq] at hs
    rw [← hs.1]; exact ⟨q.idle, q.todo, q.valid⟩
where
  sinv_recover_new {s : St} {c k : Nat} (q : SInv s) :
      SInv (recover (setPc { s with heap := s.heap ++ [⟨c, k, .loading, 0, s.cur c, 0, false, true⟩] } 0
        (.loading c k s.heap.length)) 0 c k s.heap.length) := by
    have hnew : (s.heap ++ [(⟨c, k, .loading, 0, s.cur c, 0, false, true⟩ : Entry)])[s.heap.length]? =
        some ⟨c, k, .loading, 0, s.cur c, 0, false, true⟩ := by
      rw [List.getElem?_append_right (Nat.le_refl _)]; simp
    unfold recover
    simp only [setPc, hnew, set_append_last]
    refine ⟨?_, q.todo, ?_⟩
    · intro t
      have := q.idle t
      simp only [St.pc, mget_mset] at this ⊢
      split <;> simp [this]
    · intro x hx hxin
      rcases List.mem_append.mp hx with hx | hx
      · exact q.valid x hx hxin
      · simp only [List.mem_singleton] at hx; subst hx; simp at hxin

theorem seqReach_sinv {cfg : Cfg} {s : St} (h : SeqReach cfg s) : SInv s := by
  induction h with
  | init => exact ⟨fun t => by simp [init, St.pc, mget], rfl, by simp [init]⟩
  | op _ hs ih => exact seqOp_sinv ih hs

/-- every sequentially reachable state is reachable in the small-step system -/
theorem seqReach_reach {cfg : Cfg} {s : St} (h : SeqReach cfg s) : Reach cfg s := by
  induction h with
  | init => exact Reach.init
  | op hprev hs ih =>
    have q := seqReach_sinv hprev
    exact run_reach ih (seqOp_eq_run cfg (q.idle 0) q.todo hs)

/-! ## a whole `Cleanup` call, started with no other pass in progress (loads may be in flight) -/

theorem run_cleanup_size {cfg : Cfg} {s s' : St} {outs : List Out} (a : AInv cfg s) (ht : s.todo = none)
    (hlim : 0 < cfg.sizeLimit) (hs : run cfg s (cleanupLabels cfg s) = some (s', outs)) :
    getSize s' ≤ cfg.sizeLimit ∧ s'.todo = none := by
  unfold cleanupLabels at hs
  by_cases hno : cfg.sizeLimit = 0 ∨ getSize s ≤ cfg.sizeLimit
  · have hcb : cleanupBegin cfg s = (s, .cleanup false 0 0) := by unfold cleanupBegin; rw [if_pos hno]
    simp only [hcb, run, step, ht, if_true, Option.some.injEq, Prod.mk.injEq] at hs
    rw [← hs.1]
    rcases hno with h | h
    · omega
    · exact ⟨h, ht⟩
  · have hcb : cleanupBegin cfg s = ({ (markStale s (sizeToClean cfg (getSize s))).1 with todo := mkTodo s.buckets },
        .cleanup true (sizeToClean cfg (getSize s)) (markStale s (sizeToClean cfg (getSize s))).2) := by
      unfold cleanupBegin; rw [if_neg hno]
    have hsz := markStale_size a (sizeToClean cfg (getSize s)) (by unfold sizeToClean; omega)
    simp only [hcb, run, step, ht, if_true] at hs
    rw [run_cleanupBuckets cfg s.buckets _ rfl] at hs
    simp only [Option.some.injEq, Prod.mk.injEq] at hs
    rw [← hs.1]
    have fr := cleanupRest_frame { (markStale s (sizeToClean cfg (getSize s))).1 with todo := mkTodo s.buckets } s.buckets
    refine ⟨?_, rfl⟩
    show ((cleanupRest _ s.buckets).1.glist.map fun g => mget 0 (cleanupRest _ s.buckets).1.gsizeL g).sum ≤ _
    rw [fr.1, fr.2.1]
    exact hsz

/-! ## maintenance ticks and released cache sets -/

theorem seqReach_runSeq {cfg : Cfg} {s s' : St} {ops : List Op} {outs : List (List Out)} (hr : SeqReach cfg s)
    (h : runSeq cfg s ops = some (s', outs)) : SeqReach cfg s' := by
  induction ops generalizing s s' outs with
  | nil => simp only [runSeq, Option.some.injEq, Prod.mk.injEq] at h; rw [← h.1]; exact hr
  | cons o os ih =>
    simp only [runSeq] at h
    split at h
    · exact absurd h (by simp)
    · rename_i s1 o1 hop
      split at h
      · exact absurd h (by simp)
      · rename_i s2 os2 hrun
        simp only [Option.some.injEq, Prod.mk.injEq] at h
        rw [← h.1]
        exact ih (SeqReach.op hr hop) hrun

/-- `CleanEmptyGenerations` and `ReleaseBuckets` do not touch the maps -/
theorem seqOp_gc_heap {cfg : Cfg} {s s' : St} {o : List Out} {op : Op} (hop : op = .cleanEmpty ∨ op = .releaseBuckets)
    (h : seqOp cfg s op = some (s', o)) : s'.heap = s.heap := by
  rcases hop with rfl | rfl
  · simp only [seqOp] at h
    cases hce : cleanEmpty s with
    | none => rw [hce] at h; simp at h
    | some r =>
      rw [hce] at h
      simp only [Option.map_some, Option.some.injEq, Prod.mk.injEq] at h
      rw [← h.1]
      unfold cleanEmpty at hce
      split at hce
      · cases hce
      · simp only [Option.some.injEq] at hce; rw [← hce]
  · simp only [seqOp, Option.some.injEq, Prod.mk.injEq] at h
    rw [← h.1]

/-- after a quiet tick the maps hold at most `sizeLimit`, whether or not the tick rotated -/
theorem tick_bounded {cfg : Cfg} (hes : 0 < cfg.entrySize) (hlim : 0 < cfg.sizeLimit) {s s' : St} {gc : Bool}
    {outs : List (List Out)} (hr : SeqReach cfg s) (h : runSeq cfg s (tickOps gc) = some (s', outs)) :
    liveSum s'.heap ≤ cfg.sizeLimit := by
  have split2 : ∀ {a : St} {ops : List Op} {op : Op} {b : St} {o : List (List Out)},
      runSeq cfg a (op :: ops) = some (b, o) → ∃ m om o', seqOp cfg a op = some (m, om) ∧ runSeq cfg m ops = some (b, o') := by
    intro a ops op b o h
    simp only [runSeq] at h
    split at h
    · exact absurd h (by simp)
    · rename_i m om hop
      split at h
      · exact absurd h (by simp)
      · rename_i b' o' hrun
        simp only [Option.some.injEq, Prod.mk.injEq] at h
        exact ⟨m, om, o', hop, by rw [hrun, h.1]⟩
  unfold tickOps at h
  obtain ⟨s1, _, _, h1, hrest⟩ := split2 h
  obtain ⟨s2, _, _, h2, hrest2⟩ := split2 hrest
  have hr1 : SeqReach cfg s1 := SeqReach.op hr h1
  have q1 := seqReach_sinv hr1
  have hb : liveSum s2.heap ≤ cfg.sizeLimit := by
    have hrun := seqOp_eq_run cfg (q1.idle 0) q1.todo h2
    have hsz := run_cleanup_size (reach_ainv cfg hes (seqReach_reach hr1)) q1.todo hlim hrun
    have hacc := (reach_ainv cfg hes (run_reach (seqReach_reach hr1) hrun)).accounting hsz.2
    rw [← hacc]; exact hsz.1
  cases gc with
  | false =>
    have : runSeq cfg s2 [] = some (s', _) := hrest2
    simp only [runSeq, Option.some.injEq, Prod.mk.injEq] at this
    rw [← this.1]; exact hb
  | true =>
    have hrest2' : runSeq cfg s2 [.cleanEmpty, .releaseBuckets] = some (s', _) := hrest2
    obtain ⟨s3, _, _, h3, hrest3⟩ := split2 hrest2'
    obtain ⟨s4, _, _, h4, hrest4⟩ := split2 hrest3
    simp only [runSeq, Option.some.injEq, Prod.mk.injEq] at hrest4
    rw [← hrest4.1, seqOp_gc_heap (Or.inr rfl) h4, seqOp_gc_heap (Or.inl rfl) h3]; exact hb

/-- releasing a set of caches marks every one of them released -/
theorem run_releaseAll {cfg : Cfg} {cs : List Nat} {s s' : St} {outs : List Out}
    (h : run cfg s (releaseAllLabels cs) = some (s', outs)) :
    (∀ c ∈ cs, s'.released c = true) ∧ (∀ c, s.released c = true → s'.released c = true) := by
  induction cs generalizing s s' outs with
  | nil =>
    simp only [releaseAllLabels, List.map_nil, run, Option.some.injEq, Prod.mk.injEq] at h
    rw [← h.1]; exact ⟨fun _ hc => absurd hc (by simp), fun _ h => h⟩
  | cons c cs ih =>
    simp only [releaseAllLabels, List.map_cons, run] at h
    split at h
    · exact absurd h (by simp)
    · rename_i s1 o1 hstep
      split at h
      · exact absurd h (by simp)
      · rename_i s2 os hrun
        simp only [Option.some.injEq, Prod.mk.injEq] at h
        rw [← h.1]
        have hrel1 : ∀ x, (x = c ∨ s.released x = true) → s1.released x = true := by
          intro x hx
          simp only [step] at hstep
          split at hstep
          · simp only [Option.some.injEq, Prod.mk.injEq] at hstep
            rw [← hstep.1]
            show mget false (mset false s.relL c true) x = true
            rw [mget_mset]
            rcases hx with rfl | hx
            · simp
            · split
              · rfl
              · exact hx
          · exact absurd hstep (by simp)
        have := ih (s := s1) hrun
        refine ⟨fun x hx => ?_, fun x hx => this.2 x (hrel1 x (Or.inr hx))⟩
        rcases List.mem_cons.mp hx with rfl | hx
        · exact this.2 x (hrel1 x (Or.inl rfl))
        · exact this.1 x hx

end SV.Cache
