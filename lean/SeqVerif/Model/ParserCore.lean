import SeqVerif.Model.Ast
/-!
# The boolean skeleton of both query parsers (C12)

* SeqQL: `parseSeqQLFilter` / `parseSeqQLSubexpr` (parser/seqql.go) with the accumulators `res` (OR chain) and
  `cur` (current AND chain), `joinOr`, the pipe tail (`parsePipes`) and the final `lex.IsEnd` check of `ParseSeqQL`.
* legacy: `parseExpr` / `parseSubexpr` (parser/query_parser.go) with `leftLow` / `leftHigh`.

Both are written over an arbitrary token type `τ`: the skeleton only needs to know the *kind* of the current token
(`Skel.kind`) and how to parse one field filter (`Skel.atom`, which returns the node and the remaining tokens).
The token list is the lexer's output; `[]` is `lex.IsEnd()` / `qp.eof()`; `lex.Next()` is `tail`.
Every function takes a fuel argument and is structurally recursive on it (`PRes.oof` = fuel exhausted);
`*_fuel_ok` lemmas show that `2 * tokens + 2` is always enough, which is the "never loops" part of the property.
-/
namespace SV.Parser

/-- outcome of a parser function: value, ordinary error return, Go `panic`, or model fuel exhausted -/
inductive PRes (β : Type)
  | ok (b : β)
  | err
  | panic
  | oof
deriving Repr, DecidableEq

def PRes.bind {β γ : Type} : PRes β → (β → PRes γ) → PRes γ
  | .ok b, f => f b
  | .err, _ => .err
  | .panic, _ => .panic
  | .oof, _ => .oof

@[simp] theorem PRes.bind_ok {β γ} (b : β) (f : β → PRes γ) : (PRes.ok b).bind f = f b := rfl
@[simp] theorem PRes.bind_err {β γ} (f : β → PRes γ) : (PRes.err : PRes β).bind f = .err := rfl
@[simp] theorem PRes.bind_panic {β γ} (f : β → PRes γ) : (PRes.panic : PRes β).bind f = .panic := rfl
@[simp] theorem PRes.bind_oof {β γ} (f : β → PRes γ) : (PRes.oof : PRes β).bind f = .oof := rfl

/-- what the skeleton distinguishes about the current token -/
inductive K | lp | rp | and | or | not | pipe | star | other
deriving DecidableEq, Repr

structure Skel (τ α : Type) where
  /-- `lex.IsKeyword("(")`, ... (quoted tokens are `other`) -/
  kind : τ → K
  /-- `parseSeqQLFieldFilter` resp. field name + `parseTokenQuery`; called on the tokens from the current one on -/
  atom : List τ → PRes (Ast α × List τ)
  /-- the `*` query leaf: `Literal{Field: "_all_", Terms: [*]}` -/
  star : α
  /-- pipes after the filter: `parsePipes` (returns ok when the whole tail was consumed) -/
  pipes : List τ → PRes Unit
  /-- `maxQueryNesting` (`none` = the code before the nesting limit was introduced) -/
  maxNest : Option Nat

variable {τ α : Type}

/-- `joinOr(left, right)` -/
def joinOr (left : Option (Ast α)) (right : Ast α) : Ast α :=
  match left with
  | none => right
  | some l => .bin .or l right

/-- `lex.nesting >= maxQueryNesting` at the entry of `parseSeqQLSubexpr` / `parseSubexpr` -/
def Skel.tooDeep (S : Skel τ α) (nest : Nat) : Bool :=
  match S.maxNest with
  | none => false
  | some mx => decide (mx ≤ nest)

/-! ## SeqQL

`nest` is the value of `lex.nesting` when the function is entered (it is only changed by `parseSeqQLSubexpr`:
incremented after the limit check, restored on return). -/

mutual
/-- `parseSeqQLFilter(lex, mapping, depth)`: `cur, err := parseSeqQLSubexpr(...)` then the loop -/
def sqFilter (S : Skel τ α) : Nat → List τ → Nat → Nat → PRes (Ast α × List τ)
  | 0, _, _, _ => .oof
  | f+1, toks, d, nest => (sqSub S f toks d nest).bind fun p => sqLoop S f none p.1 p.2 d nest
termination_by structural f _ _ _ => f

/-- the `for { ... }` of `parseSeqQLFilter` with its state `res`, `cur` -/
def sqLoop (S : Skel τ α) : Nat → Option (Ast α) → Ast α → List τ → Nat → Nat → PRes (Ast α × List τ)
  | 0, _, _, _, _, _ => .oof
  | f+1, res, cur, toks, d, nest =>
    match toks with
    | [] => .ok (joinOr res cur, [])                                       -- `lex.IsEnd()`
    | t :: r =>
      match S.kind t with
      | .and => (sqSub S f r d nest).bind fun p => sqLoop S f res (.bin .and cur p.1) p.2 d nest
      | .or => (sqSub S f r d nest).bind fun p => sqLoop S f (some (joinOr res cur)) p.1 p.2 d nest
      | .rp => if d > 0 then .ok (joinOr res cur, toks) else .err           -- `lex.IsKeyword(")") && depth > 0`
      | .pipe => .ok (joinOr res cur, toks)                                 -- `lex.IsKeyword("|")`
      | _ => .err                                                           -- "expected 'and', 'or', 'not'"
termination_by structural f _ _ _ _ _ => f

/-- `parseSeqQLSubexpr(lex, mapping, depth)` -/
def sqSub (S : Skel τ α) : Nat → List τ → Nat → Nat → PRes (Ast α × List τ)
  | 0, _, _, _ => .oof
  | f+1, toks, d, nest =>
    if S.tooDeep nest then .err                                             -- "query is nested too deeply"
    else match toks with
    | [] => .err                                                            -- "unexpected end of query"
    | t :: r =>
      if S.kind t = .star ∧ d = 0 then .ok (.leaf S.star, r)
      else if S.kind t = .lp then
        (sqFilter S f r (d+1) (nest+1)).bind fun p =>
          match p.2 with
          | t' :: r' => if S.kind t' = .rp then .ok (p.1, r') else .err     -- "missing ')'"
          | [] => .err
      else if S.kind t = .not then
        (sqSub S f r d (nest+1)).bind fun p => .ok (.not p.1, p.2)
      else S.atom toks
termination_by structural f _ _ _ => f
end

def fuelFor (toks : List τ) : Nat := 2 * toks.length + 2

/-- `ParseSeqQL` up to (not including) `propagateNot`: filter, optional pipes, then the `lex.IsEnd()` check whose
failure is `panic("BUG: lexer is not end")`. -/
def sqParseRaw (S : Skel τ α) (toks : List τ) : PRes (Ast α) :=
  (sqFilter S (fuelFor toks) toks 0 0).bind fun p =>
    match p.2 with
    | [] => .ok p.1
    | t :: _ =>
      if S.kind t = .pipe then (S.pipes p.2).bind fun _ => .ok p.1
      else .panic

/-- `ParseSeqQL`: raw parse, then `propagateNot` and the optional top NOT -/
def sqParse (S : Skel τ α) (toks : List τ) : PRes (Ast α) :=
  (sqParseRaw S toks).bind fun t => .ok (finish t)

/-! ## legacy query language -/

mutual
/-- `parseExpr(depth)`: `leftHigh, err := qp.parseSubexpr(depth)` then the loop -/
def lgExpr (S : Skel τ α) : Nat → List τ → Nat → Nat → PRes (Ast α × List τ)
  | 0, _, _, _ => .oof
  | f+1, toks, d, nest => (lgSub S f toks d nest).bind fun p => lgLoop S f none p.1 p.2 d nest
termination_by structural f _ _ _ => f

/-- the `for { ... }` of `parseExpr` with `leftLow`, `leftHigh` -/
def lgLoop (S : Skel τ α) : Nat → Option (Ast α) → Ast α → List τ → Nat → Nat → PRes (Ast α × List τ)
  | 0, _, _, _, _, _ => .oof
  | f+1, leftLow, leftHigh, toks, d, nest =>
    match toks with
    | [] => .ok (joinOr leftLow leftHigh, [])                 -- operator "" and `qp.eof()`
    | t :: r =>
      match S.kind t with
      | .and => (lgSub S f r d nest).bind fun p => lgLoop S f leftLow (.bin .and leftHigh p.1) p.2 d nest
      | .or => (lgSub S f r d nest).bind fun p => lgLoop S f (some (joinOr leftLow leftHigh)) p.1 p.2 d nest
      | .rp => if d > 0 then .ok (joinOr leftLow leftHigh, toks) else .err
      | _ => .err
termination_by structural f _ _ _ _ _ => f

/-- `parseSubexpr(depth)` -/
def lgSub (S : Skel τ α) : Nat → List τ → Nat → Nat → PRes (Ast α × List τ)
  | 0, _, _, _ => .oof
  | f+1, toks, d, nest =>
    if S.tooDeep nest then .err                               -- "query is nested too deeply"
    else match toks with
    | [] => .err                                              -- errorEOF("token expression")
    | t :: r =>
      if S.kind t = .lp then
        (lgExpr S f r (d+1) (nest+1)).bind fun p =>
          match p.2 with
          | t' :: r' => if S.kind t' = .rp then .ok (p.1, r') else .err
          | [] => .err
      else if S.kind t = .not then
        (lgSub S f r d (nest+1)).bind fun p => .ok (.not p.1, p.2)
      else S.atom toks
termination_by structural f _ _ _ => f
end

/-- `buildAst`: `parseExpr(0)`; at depth 0 the loop only returns at end of input -/
def lgParseRaw (S : Skel τ α) (toks : List τ) : PRes (Ast α) :=
  (lgExpr S (fuelFor toks) toks 0 0).bind fun p => .ok p.1

/-- `ParseQuery` -/
def lgParse (S : Skel τ α) (toks : List τ) : PRes (Ast α) :=
  (lgParseRaw S toks).bind fun t => .ok (finish t)

/-! ## The atom parser contract -/

/-- an atom parser consumes at least one token and returns a suffix (no NAND, never out of fuel) -/
structure Skel.Good (S : Skel τ α) : Prop where
  atom_shorter : ∀ toks a r, S.atom toks = .ok (a, r) → r.length < toks.length
  atom_noNand : ∀ toks a r, S.atom toks = .ok (a, r) → a.NoNand
  atom_fuel : ∀ toks, S.atom toks ≠ .oof

end SV.Parser
