import SeqVerif.Model.Pattern
/-!
# Declarative glob semantics (the specification side of C13)

`Glob terms v`: the token `v` is the concatenation of one piece per term - exactly `d` for `text d`, anything for
`star`.  `globB` is a naive executable matcher, proved equal to `Glob` (`globB_iff`); the driver exposes it so the
harness can compare it with its own reference matcher.
-/
namespace SV.Pattern

inductive Glob : List Term → Bytes → Prop where
  | nil : Glob [] []
  | text (d : Bytes) {ts : List Term} {v : Bytes} : Glob ts v → Glob (.text d :: ts) (d ++ v)
  | star (x : Bytes) {ts : List Term} {v : Bytes} : Glob ts v → Glob (.star :: ts) (x ++ v)

/-- naive backtracking matcher -/
def globB : List Term → Bytes → Bool
  | [], v => v.isEmpty
  | .text d :: ts, v => d.isPrefixOf v && globB ts (v.drop d.length)
  | .star :: ts, [] => globB ts []
  | .star :: ts, c :: v => globB ts (c :: v) || globB (.star :: ts) v
termination_by ts v => (ts.length, v.length)

/-- no two text terms next to each other -/
def noAdj : List Term → Bool
  | [] => true
  | [_] => true
  | a :: b :: ts => !(a.isText && b.isText) && noAdj (b :: ts)

/-- what the parsers guarantee (parser/seqql_filter.go:parseSeqQLKeyword/parseSeqQLText, parser/term_builder.go):
non-empty, never two text terms next to each other, no empty text term strictly inside; executable, exposed by
the driver for the parser channel -/
def wfB (terms : List Term) : Bool :=
  !terms.isEmpty && noAdj terms && (middleTerms terms).all (fun d => !d.isEmpty)

def WF (terms : List Term) : Prop := wfB terms = true

theorem glob_nil_iff (v : Bytes) : Glob [] v ↔ v = [] := by
  constructor
  · intro h; cases h; rfl
  · rintro rfl; exact .nil

theorem glob_text_iff (d : Bytes) (ts : List Term) (v : Bytes) :
    Glob (.text d :: ts) v ↔ ∃ w, v = d ++ w ∧ Glob ts w := by
  constructor
  · intro h; cases h with | text _ h => exact ⟨_, rfl, h⟩
  · rintro ⟨w, rfl, h⟩; exact .text d h

theorem glob_star_iff (ts : List Term) (v : Bytes) :
    Glob (.star :: ts) v ↔ ∃ x w, v = x ++ w ∧ Glob ts w := by
  constructor
  · intro h; cases h with | star x h => exact ⟨x, _, rfl, h⟩
  · rintro ⟨x, w, rfl, h⟩; exact .star x h

theorem globB_iff (ts : List Term) (v : Bytes) : globB ts v = true ↔ Glob ts v := by
  fun_induction globB ts v with
  | case1 v => rw [glob_nil_iff]; simp
  | case2 d ts v ih =>
    rw [glob_text_iff, Bool.and_eq_true, ih, List.isPrefixOf_iff_prefix]
    constructor
    · rintro ⟨⟨r, hr⟩, hg⟩
      refine ⟨r, hr.symm, ?_⟩
      rw [← hr] at hg; simpa using hg
    · rintro ⟨w, rfl, hg⟩
      exact ⟨⟨w, rfl⟩, by simpa using hg⟩
  | case3 ts ih =>
    rw [ih, glob_star_iff]
    constructor
    · intro h; exact ⟨[], [], rfl, h⟩
    · rintro ⟨x, w, hxw, hg⟩
      have hx : x = [] ∧ w = [] := by simpa using hxw.symm
      rw [hx.2] at hg; exact hg
  | case4 ts c v ih1 ih2 =>
    rw [Bool.or_eq_true, ih1, ih2, glob_star_iff, glob_star_iff]
    constructor
    · rintro (h | ⟨x, w, rfl, hg⟩)
      · exact ⟨[], _, rfl, h⟩
      · exact ⟨c :: x, w, rfl, hg⟩
    · rintro ⟨x, w, hxw, hg⟩
      cases x with
      | nil => left; simp at hxw; rw [hxw]; exact hg
      | cons a x =>
        right
        simp at hxw
        exact ⟨x, w, hxw.2, hg⟩

end SV.Pattern
