import SeqVerif.Model.DedupLemmas
/-!
Concurrent index workers (C17): for every schedule of `start bulk` / `finish k` events the published ids are
duplicate free.  The proof runs the sequential invariant on a *virtual* fraction that already holds the ids of the
collectors waiting to be published.
-/
namespace SV.Collector

theorem indexBulk_eq_phases (a : Active) (ms : List Meta) : indexBulk a ms = phaseI (phaseS a ms).1 (phaseS a ms).2 := rfl

/-- the fraction as it will look once every waiting collector is published (ids in waiting order) -/
def virt (s : CState) : Active :=
  { s.a with ids := s.a.ids ++ s.pending.flatMap (·.ids)
             docsTotal := s.a.docsTotal + (s.pending.map (·.docsCounter)).sum }

theorem ainv_perm (a b : Active) (hA : AInv a) (hp : (docIds b).Perm (docIds a)) (hdp : b.dp = a.dp)
    (hbl : b.blocks = a.blocks) (ht : b.docsTotal = a.docsTotal) (h1 : 1 ≤ b.ids.length) : AInv b := by
  refine ⟨⟨?_, ?_, ?_, h1⟩, ?_⟩
  · intro id; rw [hdp, hp.mem_iff]; exact hA.dom id
  · intro id p hq; rw [hbl]; rw [hdp] at hq; exact hA.blk id p hq
  · rw [ht, hA.total, hp.length_eq]
  · exact hp.nodup_iff.mpr hA.nodup

theorem perm_eraseIdx {α} (l : List α) (k : Nat) (c : α) (h : l[k]? = some c) : l.Perm (c :: l.eraseIdx k) := by
  induction l generalizing k with
  | nil => simp at h
  | cons x l ih =>
    cases k with
    | zero =>
      simp at h
      subst h
      simp
    | succ k =>
      simp at h
      have := ih k h
      rw [List.eraseIdx_cons_succ]
      exact (List.Perm.cons x this).trans (List.Perm.swap c x _)

/-- invariant of a concurrent state -/
def CInvt (s : CState) : Prop := AInv (virt s) ∧ 1 ≤ s.a.ids.length

theorem docIds_virt (s : CState) (h1 : 1 ≤ s.a.ids.length) :
    docIds (virt s) = docIds s.a ++ s.pending.flatMap (·.ids) := by
  show (s.a.ids ++ s.pending.flatMap (·.ids)).drop 1 = _
  exact docIds_append s.a _ h1

theorem cstep_inv (s : CState) (e : Ev) (hI : CInvt s)
    (he : ∀ ms, e = .start ms → (ms.map (·.id)).Nodup ∧ ∀ m ∈ ms, m.size ≠ 0) :
    CInvt (cstep s e) ∧
    (∀ id, id ∈ docIds (virt (cstep s e)) ↔
      (id ∈ docIds (virt s) ∨ ∃ ms, e = .start ms ∧ id ∈ ms.map (·.id))) := by
  obtain ⟨hA, h1⟩ := hI
  cases e with
  | start ms =>
    obtain ⟨hnd, hsz⟩ := he ms rfl
    obtain ⟨e1, -, e3, -, -, e6, -, e8⟩ := indexBulk_spec (virt s) ms hA hnd hsz
    have hcd : dedupCollector s.a ms = dedupCollector (virt s) ms := rfl
    have hids : (virt (cstep s (.start ms))).ids = (indexBulk (virt s) ms).ids := by
      show s.a.ids ++ (s.pending ++ [(dedupCollector s.a ms).1]).flatMap (·.ids) = (virt s).ids ++ (dedupCollector (virt s) ms).1.ids
      rw [List.flatMap_append, ← List.append_assoc, hcd]
      simp [virt]
    have hdoc : docIds (virt (cstep s (.start ms))) = docIds (indexBulk (virt s) ms) := by
      unfold docIds; rw [hids]
    have hinv : AInv (virt (cstep s (.start ms))) := by
      refine ainv_perm (indexBulk (virt s) ms) (virt (cstep s (.start ms))) e8 (by rw [hdoc]) rfl rfl ?_ ?_
      · show s.a.docsTotal + ((s.pending ++ [(dedupCollector s.a ms).1]).map (·.docsCounter)).sum
          = (virt s).docsTotal + (dedupCollector (virt s) ms).1.docsCounter
        rw [hcd]
        simp [virt, Nat.add_assoc]
      · rw [hids, e1, List.length_append]
        have := hA.ids1
        omega
    refine ⟨⟨hinv, h1⟩, ?_⟩
    intro id
    rw [hdoc]
    have hd2 : docIds (indexBulk (virt s) ms) = docIds (virt s) ++ (kept (virt s) ms).map (·.id) := by
      show (indexBulk (virt s) ms).ids.drop 1 = _
      rw [e1, docIds_append (virt s) _ hA.ids1]
    rw [hd2]
    simp only [List.mem_append, kept, List.mem_map, List.mem_filter, decide_eq_true_eq]
    constructor
    · rintro (h | ⟨m, ⟨hm, -⟩, rfl⟩)
      · exact Or.inl h
      · exact Or.inr ⟨ms, rfl, m, hm, rfl⟩
    · rintro (h | ⟨ms', hms, m, hm, rfl⟩)
      · exact Or.inl h
      · cases hms
        by_cases hn : m.id ∈ docIds (virt s)
        · exact Or.inl hn
        · exact Or.inr ⟨m, ⟨hm, hn⟩, rfl⟩
  | finish k =>
    cases hk : s.pending[k]? with
    | none =>
      have : cstep s (.finish k) = s := by simp [cstep, hk]
      rw [this]
      exact ⟨⟨hA, h1⟩, fun id => by simp⟩
    | some c =>
      have hs : cstep s (.finish k) = ⟨phaseI s.a c, s.pending.eraseIdx k⟩ := by simp [cstep, hk]
      rw [hs]
      have hperm := perm_eraseIdx s.pending k c hk
      have h1' : 1 ≤ (phaseI s.a c).ids.length := by
        show 1 ≤ (s.a.ids ++ c.ids).length
        rw [List.length_append]; omega
      have hdocP : (docIds (virt ⟨phaseI s.a c, s.pending.eraseIdx k⟩)).Perm (docIds (virt s)) := by
        rw [docIds_virt _ h1', docIds_virt s h1]
        show ((s.a.ids ++ c.ids).drop 1 ++ _).Perm _
        rw [List.drop_append_of_le_length h1, List.append_assoc]
        apply List.Perm.append_left
        have := (List.Perm.flatMap_right (fun c : Collector => c.ids) hperm).symm
        simpa using this
      have hinv : AInv (virt ⟨phaseI s.a c, s.pending.eraseIdx k⟩) := by
        refine ainv_perm (virt s) (virt ⟨phaseI s.a c, s.pending.eraseIdx k⟩) hA hdocP rfl rfl ?_ ?_
        · show s.a.docsTotal + c.docsCounter + ((s.pending.eraseIdx k).map (·.docsCounter)).sum
            = s.a.docsTotal + (s.pending.map (·.docsCounter)).sum
          have := (List.Perm.map (fun c : Collector => c.docsCounter) hperm).sum_nat
          simp only [List.map_cons, List.sum_cons] at this
          omega
        · show 1 ≤ ((s.a.ids ++ c.ids) ++ _).length
          rw [List.length_append, List.length_append]; omega
      refine ⟨⟨hinv, h1'⟩, ?_⟩
      intro id
      rw [hdocP.mem_iff]
      constructor
      · intro h; exact Or.inl h
      · rintro (h | ⟨ms, hms, -⟩)
        · exact h
        · cases hms

/-- every bulk a schedule starts has pairwise distinct ids and non-empty documents -/
def GoodSchedule (evs : List Ev) : Prop := DistinctBulks (startedBulks evs) ∧ NonEmptyDocs (startedBulks evs)

theorem crun_inv (s : CState) (evs : List Ev) (hI : CInvt s) (hg : GoodSchedule evs) :
    CInvt (crun s evs) ∧
    (∀ id, id ∈ docIds (virt (crun s evs)) ↔ (id ∈ docIds (virt s) ∨ id ∈ allIds (startedBulks evs))) := by
  induction evs generalizing s with
  | nil => simp [crun, hI, allIds, startedBulks]
  | cons e evs ih =>
    have he : ∀ ms, e = .start ms → (ms.map (·.id)).Nodup ∧ ∀ m ∈ ms, m.size ≠ 0 := by
      intro ms hms
      subst hms
      exact ⟨hg.1 ms (by simp [startedBulks]), hg.2 ms (by simp [startedBulks])⟩
    have hg' : GoodSchedule evs := by
      cases e with
      | start ms =>
        exact ⟨fun b hb => hg.1 b (by simp [startedBulks, hb]), fun b hb => hg.2 b (by simp [startedBulks, hb])⟩
      | finish k => exact hg
    obtain ⟨c1, c2⟩ := cstep_inv s e hI he
    obtain ⟨i1, i2⟩ := ih (cstep s e) c1 hg'
    refine ⟨i1, ?_⟩
    intro id
    show id ∈ docIds (virt (crun (cstep s e) evs)) ↔ _
    rw [i2 id, c2 id]
    cases e with
    | start ms =>
      simp only [startedBulks, allIds, List.flatMap_cons, List.mem_append]
      constructor
      · rintro ((h | ⟨ms', hms, hm⟩) | h)
        · exact Or.inl h
        · cases hms; exact Or.inr (Or.inl hm)
        · exact Or.inr (Or.inr h)
      · rintro (h | h | h)
        · exact Or.inl (Or.inl h)
        · exact Or.inl (Or.inr ⟨ms, rfl, h⟩)
        · exact Or.inr h
    | finish k =>
      simp only [startedBulks]
      constructor
      · rintro ((h | ⟨ms', hms, -⟩) | h)
        · exact Or.inl h
        · cases hms
        · exact Or.inr h
      · rintro (h | h)
        · exact Or.inl (Or.inl h)
        · exact Or.inr h

end SV.Collector
