/-!
# C18 - how the configured cache size is split among the cleaners
(`fracmanager.FillConfigWithDefault` for the sort-cache size, `fracmanager.createCleaners` for the six weighted
layers).  Arithmetic on naturals: the Go code computes `s := 0.9*CacheSize - SortCacheSize` and
`uint64(s * weight / totalWeights)` in float64; the exact rational value of a layer's limit is
`(9*C - 10*sort) * w / 1000`, its floor is `limitOf`.  The harness channel `cache.budget` ties the two on a grid
(equal up to one unit of float rounding).
-/
namespace SV.Budget

/-- weights of the six layers that share the remainder (`cleanerConfig`): index, mids-rids-params, token_table,
tokens, lids, docblock; the seventh layer (sorting) has the fixed size `sort` -/
def weights : List Nat := [3, 8, 8, 36, 37, 8]

def totalWeights : Nat := 100

/-- `SortCacheSize` after `FillConfigWithDefault`: an explicit value `S > 0` is kept; unset (`0`) means 8 fraction
sizes, or 80% of the cache when that is more than the whole cache -/
def sortSize (C F S : Nat) : Nat :=
  if S = 0 then (if C < 8 * F then C * 8 / 10 else 8 * F) else S

/-- configurations `FillConfigWithDefault` does not reject (`logger.Fatal` when an explicit value exceeds the cache) -/
def accepted (C S : Nat) : Prop := S ≤ C

instance (C S : Nat) : Decidable (accepted C S) := inferInstanceAs (Decidable (S ≤ C))

/-- floor of `(0.9*C - sort) * w / 100`, meaningful when the remainder is not negative -/
def limitOf (C sort w : Nat) : Nat := (9 * C - 10 * sort) * w / 1000

/-- the remainder `0.9*C - sort` is negative: `uint64` of a negative float is garbage (huge on amd64) -/
def negative (C sort : Nat) : Bool := decide (9 * C < 10 * sort)

def limits (C sort : Nat) : List Nat := weights.map (limitOf C sort)

/-- what the harness observed for the six weighted layers and the sort layer (last) against the model: within one
unit of the exact floor, or - when the remainder is negative - a value above the whole cache -/
def checkLimits (C sort : Nat) (real : List Nat) : List Bool :=
  (List.zipWith (fun r w =>
      if negative C sort then decide (C < r) else decide (r ≤ limitOf C sort w + 1 ∧ limitOf C sort w ≤ r + 1))
    real weights) ++ (real.drop weights.length).map fun r => decide (r = sort)

/-- the repair proposed in /verif/fixes: the default AND an explicit value are capped at 80% of the cache -/
def sortSizeCapped (C F S : Nat) : Nat :=
  if S = 0 then min (8 * F) (C * 8 / 10) else S

def acceptedCapped (C S : Nat) : Prop := S ≤ C * 8 / 10

instance (C S : Nat) : Decidable (acceptedCapped C S) := inferInstanceAs (Decidable (S ≤ C * 8 / 10))

/-- the rule the source currently has (`capped` is the extracted fact `sortCacheCapped`) -/
def sortSizeOf (capped : Bool) (C F S : Nat) : Nat := if capped then sortSizeCapped C F S else sortSize C F S

def acceptedOf (capped : Bool) (C S : Nat) : Bool := if capped then decide (acceptedCapped C S) else decide (accepted C S)

theorem sum_limits_le (C sort : Nat) (h : 10 * sort ≤ 9 * C) : (limits C sort).sum + sort ≤ C := by
  simp only [limits, weights, List.map_cons, List.map_nil, List.sum_cons, List.sum_nil, limitOf]
  omega

theorem limit_pos (C sort w : Nat) (hw : 3 ≤ w) (h : 10 * sort + 334 ≤ 9 * C) : 0 < limitOf C sort w := by
  unfold limitOf
  have h1 : 1000 ≤ (9 * C - 10 * sort) * w := by
    have : 334 ≤ 9 * C - 10 * sort := by omega
    calc 1000 ≤ 334 * 3 := by omega
      _ ≤ (9 * C - 10 * sort) * w := Nat.mul_le_mul this hw
  exact Nat.div_pos h1 (by omega)

end SV.Budget
