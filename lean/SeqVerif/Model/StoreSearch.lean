import SeqVerif.Model.SearchSpec
import SeqVerif.Model.SearchDocsTotals
/-!
# Composition C02 ∘ C05: a store = a list of fraction indexes

C05's model takes the answer of one fraction as a specification (`fracSearch`).  Here that oracle is discharged with
C02's model of `IndexSearch` (`EvalTree.search` on an `Index`, proved equal to `Spec.search` of the documents the index
stores), and `SearchDocs` over any list of well-formed fraction indexes is connected to `Spec.search` of the union of
their documents.  (Histograms are outside C02's `EvalTree.search`, so this composition is about IDs and total, `hi = 0`.)
-/
namespace SV.Merge
open SV SV.Spec SV.EvalTree SV.Borders

/-- the number that stands for a `{MID,RID}` in the merge model -/
def keyOf (id : Spec.ID) : Nat := key id.mid id.rid

/-- a fraction as the searcher holds it: its index and `Info().From/To` -/
structure FracIdx where
  idx : Index
  from_ : Nat
  to_ : Nat

/-- everything C02 needs of one fraction, plus `From ≤ mid ≤ To` for all of its documents and RIDs below 2^64 -/
structure FracIdx.OK (f : FracIdx) (reqFrom : Nat) : Prop where
  wf : WF f.idx
  sorted : SortedDesc f.idx.ids
  rid : ∀ id ∈ f.idx.ids, id.rid ≤ maxU64
  zero : 0 < reqFrom ∨ ∀ id ∈ f.idx.ids, id ≠ ⟨0, 0⟩
  bounds : ∀ id ∈ f.idx.ids, f.from_ ≤ id.mid ∧ id.mid ≤ f.to_

/-- the view `SearchDocs` has of the fraction for one request: `docs` = the keys of its matching documents in range -/
def FracIdx.toFrac (f : FracIdx) (q : Query) (from_ to_ : Nat) : Frac :=
  { docsTotal := f.idx.ids.length, from_ := f.from_, to_ := f.to_,
    docs := (hits (EvalTree.docsOf f.idx) q from_ to_).map (fun d => keyOf d.id) }

/-- a `Spec.Result` (C02's answer type) as a partial result of the merge model (no histogram) -/
def qprOfResult (r : Spec.Result) : QPR := { ids := r.ids.map keyOf, total := r.total, hist := none }

theorem keyOf_lt (a b : Spec.ID) (ha : a.rid ≤ maxU64) (hb : b.rid ≤ maxU64) :
    keyOf a < keyOf b ↔ ID.lt a b = true := by
  have := key_lt_iff a.mid a.rid b.mid b.rid (by unfold R; unfold maxU64 at ha; omega) (by unfold R; unfold maxU64 at hb; omega)
  simpa [keyOf, idLess, ID.lt] using this

theorem midOf_keyOf (a : Spec.ID) (ha : a.rid ≤ maxU64) : midOf (keyOf a) = a.mid :=
  midOf_key a.mid a.rid (by unfold R; unfold maxU64 at ha; omega)

theorem lt_of_le_ne (a b : Spec.ID) (h : ID.le a b = true) (hne : a ≠ b) : ID.lt a b = true := by
  unfold ID.le at h; unfold ID.lt
  split at h
  · rename_i hm
    simp only [hm, if_true]
    simp only [decide_eq_true_eq] at h ⊢
    have : a.rid ≠ b.rid := by
      intro hr; apply hne; cases a; cases b; simp_all
    omega
  · rename_i hm; simp only [hm, if_false]; exact h

/-- the Spec's "sort by (mid,rid), drop repetitions" is the merge model's `sd` under the key encoding -/
theorem map_keyOf_sorted_dedup (asc : Bool) (xs : List Spec.ID) (hr : ∀ id ∈ xs, id.rid ≤ maxU64) :
    (dedupAdj (sortBy (orderLe asc) xs)).map keyOf = sd (!asc) (xs.map keyOf) := by
  have hmem : ∀ id, id ∈ dedupAdj (sortBy (orderLe asc) xs) ↔ id ∈ xs := fun id => by
    rw [mem_dedupAdj, (sortBy_perm _ xs).mem_iff]
  refine sortedBy_ext (!asc) _ _ ?srt (sd_sorted _ _) ?mem
  case mem =>
    intro v
    rw [mem_sd]
    simp only [List.mem_map]
    constructor
    · rintro ⟨id, hid, rfl⟩; exact ⟨id, (hmem id).mp hid, rfl⟩
    · rintro ⟨id, hid, rfl⟩; exact ⟨id, (hmem id).mpr hid, rfl⟩
  case srt =>
    have hstrict := dedupAdj_strict (orderLe asc) (fun _ _ => orderLe_antisymm asc) _
      (sortBy_sorted _ (orderLe_total asc) (fun _ _ _ => orderLe_trans asc) xs)
    apply List.pairwise_map.mpr
    refine List.Pairwise.imp_of_mem ?_ hstrict
    intro a b ha hb hab
    have hra := hr a ((hmem a).mp ha)
    have hrb := hr b ((hmem b).mp hb)
    cases asc with
    | true =>
      have := (keyOf_lt a b hra hrb).mpr (lt_of_le_ne a b (by simpa [orderLe] using hab.1) hab.2)
      simpa [lessFn] using this
    | false =>
      have := (keyOf_lt b a hrb hra).mpr (lt_of_le_ne b a (by simpa [orderLe] using hab.1) (fun h => hab.2 h.symm))
      simpa [lessFn] using this

theorem docsOf_id_mem (idx : Index) (d : Doc) (hd : d ∈ EvalTree.docsOf idx) : d.id ∈ idx.ids := by
  unfold EvalTree.docsOf at hd
  rcases List.mem_map.mp hd with ⟨lid, hlid, rfl⟩
  have := List.mem_range'_1.mp hlid
  rw [docAt_id, idAt_eq idx.ids lid (by omega) (by omega)]
  exact List.getElem_mem _

theorem hit_props (idx : Index) (q : Query) (from_ to_ : Nat) (d : Doc) (hd : d ∈ hits (EvalTree.docsOf idx) q from_ to_) :
    d.id ∈ idx.ids ∧ from_ ≤ d.id.mid ∧ d.id.mid ≤ to_ := by
  unfold hits at hd
  have := List.mem_filter.mp hd
  simp only [Bool.and_eq_true, inWindow, decide_eq_true_eq] at this
  exact ⟨docsOf_id_mem idx d this.1, this.2.1.1, this.2.1.2⟩

/-- **the `fracSearch` oracle of C05 is what C02's `IndexSearch` model computes** (IDs and total; requests without
histogram), for every well-formed fraction index, query, window, order and limit -/
theorem fracSearch_discharged (c : Cfg) (hhi : c.hi = 0) (f : FracIdx) (q : Query) (from_ to_ limit : Nat)
    (hok : f.OK from_) :
    qprOfResult (EvalTree.search f.idx q from_ to_ (!c.desc) limit c.withTotal) = fracSearch c (f.toFrac q from_ to_) limit := by
  rw [search_eq_spec f.idx hok.wf hok.sorted hok.rid q from_ to_ hok.zero]
  unfold Spec.search qprOfResult fracSearch FracIdx.toFrac
  simp only [hhi, Nat.lt_irrefl, if_false, List.length_map, List.map_take]
  have hr : ∀ id ∈ (hits (EvalTree.docsOf f.idx) q from_ to_).map (·.id), id.rid ≤ maxU64 := by
    intro id hid
    rcases List.mem_map.mp hid with ⟨d, hd, rfl⟩
    exact hok.rid _ (hit_props f.idx q from_ to_ d hd).1
  rw [map_keyOf_sorted_dedup _ _ hr, Bool.not_not, List.map_map]
  rfl

theorem hits_flatMap (fs : List FracIdx) (q : Query) (from_ to_ : Nat) :
    hits (fs.flatMap (fun f => EvalTree.docsOf f.idx)) q from_ to_ = fs.flatMap (fun f => hits (EvalTree.docsOf f.idx) q from_ to_) := by
  unfold hits
  induction fs with
  | nil => simp
  | cons f fs ih => simp [List.flatMap_cons, List.filter_append, ih]

theorem docsOf_toFrac (fs : List FracIdx) (q : Query) (from_ to_ : Nat) :
    docsOf (fs.map (·.toFrac q from_ to_)) =
      ((hits (fs.flatMap (fun f => EvalTree.docsOf f.idx)) q from_ to_).map (·.id)).map keyOf := by
  rw [hits_flatMap]
  unfold docsOf FracIdx.toFrac
  induction fs with
  | nil => simp
  | cons f fs ih => simp [List.flatMap_cons, ih]

/-- **store level: `SearchDocs` over fraction indexes = `Spec.search` of the union of their documents.** -/
theorem storeSearch_eq_spec (c : Cfg) (fs : List FracIdx) (q : Query) (from_ to_ L : Nat)
    (hok : ∀ f, f ∈ fs → f.OK from_)
    (hmax : c.maxHits = 0 ∨ (filterInRange (fs.map (·.toFrac q from_ to_)) from_ to_).length ≤ c.maxHits) :
    ∃ r, searchDocs c (fs.map (·.toFrac q from_ to_)) from_ to_ L = some r ∧
      r.ids = (Spec.search (fs.flatMap (fun f => EvalTree.docsOf f.idx)) q from_ to_ (!c.desc) L c.withTotal).ids.map keyOf ∧
      ((docsOf (fs.map (·.toFrac q from_ to_))).Nodup →
        r.total = (Spec.search (fs.flatMap (fun f => EvalTree.docsOf f.idx)) q from_ to_ (!c.desc) L c.withTotal).total) := by
  have hinv : ∀ g, g ∈ fs.map (·.toFrac q from_ to_) → FracInv g := by
    intro g hg
    rcases List.mem_map.mp hg with ⟨f, hf, rfl⟩
    intro d hd
    simp only [FracIdx.toFrac, List.mem_map] at hd
    rcases hd with ⟨doc, hdoc, rfl⟩
    have hp := hit_props f.idx q from_ to_ doc hdoc
    rw [midOf_keyOf _ ((hok f hf).rid _ hp.1)]
    exact (hok f hf).bounds _ hp.1
  have hvis : ∀ g, g ∈ fs.map (·.toFrac q from_ to_) → g.docs ≠ [] → isIntersecting g from_ to_ = true := by
    intro g hg hne
    rcases List.mem_map.mp hg with ⟨f, hf, rfl⟩
    obtain ⟨d, hd⟩ := List.exists_mem_of_ne_nil _ hne
    have hd' := hd
    simp only [FracIdx.toFrac, List.mem_map] at hd'
    rcases hd' with ⟨doc, hdoc, rfl⟩
    have hp := hit_props f.idx q from_ to_ doc hdoc
    apply isIntersecting_of_doc _ from_ to_ _ (hinv _ hg) hd
    · rw [midOf_keyOf _ ((hok f hf).rid _ hp.1)]; exact hp.2
    · simp only [FracIdx.toFrac]
      exact Nat.ne_of_gt (List.length_pos_of_mem hp.1)
  obtain ⟨r, h1, h2⟩ := searchDocs_ids c _ from_ to_ L hinv hvis hmax
  refine ⟨r, h1, ?_, fun hnd => ?_⟩
  · rw [h2, docsOf_toFrac]
    unfold Spec.search
    simp only [List.map_take]
    have hr : ∀ id ∈ (hits (fs.flatMap (fun f => EvalTree.docsOf f.idx)) q from_ to_).map (·.id), id.rid ≤ maxU64 := by
      intro id hid
      rcases List.mem_map.mp hid with ⟨d, hd, rfl⟩
      rw [hits_flatMap] at hd
      rcases List.mem_flatMap.mp hd with ⟨f, hf, hdf⟩
      exact (hok f hf).rid _ (hit_props f.idx q from_ to_ d hdf).1
    rw [map_keyOf_sorted_dedup _ _ hr, Bool.not_not]
  · obtain ⟨r', h1', h2', _, _⟩ := searchDocs_total_hist c _ from_ to_ L hvis hmax hnd
    rw [h1] at h1'
    cases h1'
    rw [h2', docsOf_toFrac]
    unfold Spec.search
    simp

end SV.Merge
