import SeqVerif.Model.ParserCore
/-!
Lemmas about the parser skeleton (C12): fuel sufficiency (= termination), progress, NoNand output,
legacy skeleton = SeqQL skeleton without `|` and `*`, and completeness with respect to the reference grammar `G`.
-/
namespace SV.Parser

variable {τ α : Type}

theorem joinOr_noNand {res : Option (Ast α)} {cur : Ast α} (hr : ∀ x, res = some x → x.NoNand) (hc : cur.NoNand) :
    (joinOr res cur).NoNand := by
  cases res with
  | none => simpa [joinOr] using hc
  | some x => exact ⟨by decide, hr x rfl, hc⟩

/-- What a successful/failed call guarantees, given enough fuel. -/
def SpecSub (S : Skel τ α) (f : Nat) : Prop :=
  ∀ toks d n, 2 * toks.length + 1 ≤ f →
    sqSub S f toks d n ≠ .oof ∧ ∀ a r, sqSub S f toks d n = .ok (a, r) → r.length < toks.length ∧ a.NoNand

def SpecFilter (S : Skel τ α) (f : Nat) : Prop :=
  ∀ toks d n, 2 * toks.length + 2 ≤ f →
    sqFilter S f toks d n ≠ .oof ∧ ∀ a r, sqFilter S f toks d n = .ok (a, r) → r.length < toks.length ∧ a.NoNand

def SpecLoop (S : Skel τ α) (f : Nat) : Prop :=
  ∀ res cur toks d n, 2 * toks.length + 1 ≤ f → (∀ x, res = some x → x.NoNand) → cur.NoNand →
    sqLoop S f res cur toks d n ≠ .oof ∧
      ∀ a r, sqLoop S f res cur toks d n = .ok (a, r) → r.length ≤ toks.length ∧ a.NoNand

theorem sq_spec (S : Skel τ α) (hS : S.Good) : ∀ f, SpecSub S f ∧ SpecFilter S f ∧ SpecLoop S f := by
  intro f
  induction f with
  | zero =>
    refine ⟨?_, ?_, ?_⟩
    · intro toks d n h; omega
    · intro toks d n h; omega
    · intro res cur toks d n h; omega
  | succ f ih =>
    obtain ⟨ihS, ihF, ihL⟩ := ih
    refine ⟨?_, ?_, ?_⟩
    · -- sub
      intro toks d n h
      cases toks with
      | nil => simp [sqSub]
      | cons t r =>
        by_cases hdeep : S.tooDeep n = true
        · simp [sqSub, hdeep]
        replace hdeep : S.tooDeep n = false := by simpa using hdeep
        simp only [sqSub, hdeep, Bool.false_eq_true, if_false]
        simp only [List.length_cons] at h
        split
        · refine ⟨by simp, ?_⟩
          intro a r' h'
          simp only [PRes.ok.injEq, Prod.mk.injEq] at h'
          obtain ⟨rfl, rfl⟩ := h'
          exact ⟨by simp, trivial⟩
        · split
          · have hf := ihF r (d+1) (n+1) (by omega)
            cases hres : sqFilter S f r (d+1) (n+1) with
            | ok p =>
              obtain ⟨a, r'⟩ := p
              have := hf.2 a r' hres
              simp only [PRes.bind_ok]
              cases r' with
              | nil => simp
              | cons t' r'' =>
                simp only
                split
                · refine ⟨by simp, ?_⟩
                  intro a2 r2 h2
                  simp only [PRes.ok.injEq, Prod.mk.injEq] at h2
                  obtain ⟨rfl, rfl⟩ := h2
                  simp only [List.length_cons] at this ⊢
                  exact ⟨by omega, this.2⟩
                · simp
            | err => simp
            | panic => simp
            | oof => exact absurd hres hf.1
          · split
            · have hs := ihS r d (n+1) (by omega)
              cases hres : sqSub S f r d (n+1) with
              | ok p =>
                obtain ⟨a, r'⟩ := p
                have := hs.2 a r' hres
                simp only [PRes.bind_ok]
                refine ⟨by simp, ?_⟩
                intro a2 r2 h2
                simp only [PRes.ok.injEq, Prod.mk.injEq] at h2
                obtain ⟨rfl, rfl⟩ := h2
                simp only [List.length_cons]
                exact ⟨by omega, this.2⟩
              | err => simp
              | panic => simp
              | oof => exact absurd hres hs.1
            · refine ⟨hS.atom_fuel _, ?_⟩
              intro a r' h'
              exact ⟨hS.atom_shorter _ _ _ h', hS.atom_noNand _ _ _ h'⟩
    · -- filter
      intro toks d n h
      simp only [sqFilter]
      have hs := ihS toks d n (by omega)
      cases hres : sqSub S f toks d n with
      | ok p =>
        obtain ⟨a, r'⟩ := p
        have h1 := hs.2 a r' hres
        simp only [PRes.bind_ok]
        have hl := ihL none a r' d n (by omega) (by simp) h1.2
        refine ⟨hl.1, ?_⟩
        intro a2 r2 h2
        have := hl.2 a2 r2 h2
        exact ⟨by omega, this.2⟩
      | err => simp
      | panic => simp
      | oof => exact absurd hres hs.1
    · -- loop
      intro res cur toks d n h hres hcur
      cases toks with
      | nil =>
        simp only [sqLoop]
        refine ⟨by simp, ?_⟩
        intro a r h'
        simp only [PRes.ok.injEq, Prod.mk.injEq] at h'
        obtain ⟨rfl, rfl⟩ := h'
        exact ⟨by simp, joinOr_noNand hres hcur⟩
      | cons t r =>
        simp only [sqLoop]
        simp only [List.length_cons] at h
        have hs := ihS r d n (by omega)
        cases hk : S.kind t with
        | and =>
          simp only
          cases hr : sqSub S f r d n with
          | ok p =>
            obtain ⟨a, r'⟩ := p
            have h1 := hs.2 a r' hr
            simp only [PRes.bind_ok]
            have hl := ihL res (.bin .and cur a) r' d n (by omega) hres ⟨by decide, hcur, h1.2⟩
            refine ⟨hl.1, ?_⟩
            intro a2 r2 h2
            have := hl.2 a2 r2 h2
            simp only [List.length_cons]
            exact ⟨by omega, this.2⟩
          | err => simp
          | panic => simp
          | oof => exact absurd hr hs.1
        | or =>
          simp only
          cases hr : sqSub S f r d n with
          | ok p =>
            obtain ⟨a, r'⟩ := p
            have h1 := hs.2 a r' hr
            simp only [PRes.bind_ok]
            have hl := ihL (some (joinOr res cur)) a r' d n (by omega)
              (by intro x hx; cases hx; exact joinOr_noNand hres hcur) h1.2
            refine ⟨hl.1, ?_⟩
            intro a2 r2 h2
            have := hl.2 a2 r2 h2
            simp only [List.length_cons]
            exact ⟨by omega, this.2⟩
          | err => simp
          | panic => simp
          | oof => exact absurd hr hs.1
        | rp =>
          simp only
          split
          · refine ⟨by simp, ?_⟩
            intro a r' h'
            simp only [PRes.ok.injEq, Prod.mk.injEq] at h'
            obtain ⟨rfl, rfl⟩ := h'
            exact ⟨by simp, joinOr_noNand hres hcur⟩
          · simp
        | pipe =>
          simp only
          refine ⟨by simp, ?_⟩
          intro a r' h'
          simp only [PRes.ok.injEq, Prod.mk.injEq] at h'
          obtain ⟨rfl, rfl⟩ := h'
          exact ⟨by simp, joinOr_noNand hres hcur⟩
        | lp => simp
        | not => simp
        | star => simp
        | other => simp

/-! ## fuel monotonicity and independence -/

theorem PRes.bind_mono {β γ : Type} {x x' : PRes β} {g g' : β → PRes γ}
    (hx : x ≠ .oof → x' = x) (hg : ∀ b, g b ≠ .oof → g' b = g b) (h : x.bind g ≠ .oof) :
    x'.bind g' = x.bind g := by
  cases x with
  | ok b => rw [hx (by simp)]; simp only [PRes.bind_ok] at h ⊢; exact hg b h
  | err => rw [hx (by simp)]; rfl
  | panic => rw [hx (by simp)]; rfl
  | oof => exact absurd rfl h

theorem sq_mono (S : Skel τ α) : ∀ f,
    (∀ toks d n, sqSub S f toks d n ≠ .oof → sqSub S (f+1) toks d n = sqSub S f toks d n) ∧
    (∀ toks d n, sqFilter S f toks d n ≠ .oof → sqFilter S (f+1) toks d n = sqFilter S f toks d n) ∧
    (∀ res cur toks d n, sqLoop S f res cur toks d n ≠ .oof → sqLoop S (f+1) res cur toks d n = sqLoop S f res cur toks d n) := by
  intro f
  induction f with
  | zero => simp [sqSub, sqFilter, sqLoop]
  | succ f ih =>
    obtain ⟨ihS, ihF, ihL⟩ := ih
    refine ⟨?_, ?_, ?_⟩
    · intro toks d n h
      cases toks with
      | nil => simp [sqSub]
      | cons t r =>
        by_cases hdeep : S.tooDeep n = true
        · simp [sqSub, hdeep]
        replace hdeep : S.tooDeep n = false := by simpa using hdeep
        rw [sqSub] at h ⊢
        conv => rhs; rw [sqSub]
        simp only [hdeep, Bool.false_eq_true, if_false] at h ⊢
        split
        · rfl
        · rename_i h1
          simp only [h1, if_false] at h
          split
          · rename_i h2
            simp only [h2, if_true] at h
            exact PRes.bind_mono (ihF r (d+1) (n+1)) (fun _ _ => rfl) h
          · rename_i h2
            simp only [h2, if_false] at h
            split
            · rename_i h3
              simp only [h3, if_true] at h
              exact PRes.bind_mono (ihS r d (n+1)) (fun _ _ => rfl) h
            · rfl
    · intro toks d n h
      rw [sqFilter] at h ⊢
      conv => rhs; rw [sqFilter]
      exact PRes.bind_mono (ihS toks d n) (fun b hb => ihL none b.1 b.2 d n hb) h
    · intro res cur toks d n h
      cases toks with
      | nil => simp [sqLoop]
      | cons t r =>
        rw [sqLoop] at h ⊢
        conv => rhs; rw [sqLoop]
        try simp only at h ⊢
        cases hk : S.kind t <;> simp only [hk] at h ⊢
        · exact PRes.bind_mono (ihS r d n) (fun b hb => ihL _ _ _ d n hb) h
        · exact PRes.bind_mono (ihS r d n) (fun b hb => ihL _ _ _ d n hb) h

theorem sq_mono_le (S : Skel τ α) (f g : Nat) (hfg : f ≤ g) :
    (∀ toks d n, sqSub S f toks d n ≠ .oof → sqSub S g toks d n = sqSub S f toks d n) ∧
    (∀ toks d n, sqFilter S f toks d n ≠ .oof → sqFilter S g toks d n = sqFilter S f toks d n) ∧
    (∀ res cur toks d n, sqLoop S f res cur toks d n ≠ .oof → sqLoop S g res cur toks d n = sqLoop S f res cur toks d n) := by
  induction g with
  | zero => have : f = 0 := by omega
            subst this; exact ⟨fun _ _ _ _ => rfl, fun _ _ _ _ => rfl, fun _ _ _ _ _ _ => rfl⟩
  | succ g ih =>
    by_cases hfg' : f ≤ g
    · obtain ⟨a, b, c⟩ := ih hfg'
      obtain ⟨a', b', c'⟩ := sq_mono S g
      refine ⟨?_, ?_, ?_⟩
      · intro toks d n h; rw [a' toks d n (by rw [a toks d n h]; exact h), a toks d n h]
      · intro toks d n h; rw [b' toks d n (by rw [b toks d n h]; exact h), b toks d n h]
      · intro res cur toks d n h; rw [c' res cur toks d n (by rw [c res cur toks d n h]; exact h), c res cur toks d n h]
    · have : f = g + 1 := by omega
      subst this; exact ⟨fun _ _ _ _ => rfl, fun _ _ _ _ => rfl, fun _ _ _ _ _ _ => rfl⟩


/-! ## where the loop stops, and where a panic can come from -/

/-- the tokens left by a successful `parseSeqQLFilter` at depth `d`: nothing, a `|`, or (inside parentheses) a `)` -/
def StopAt (S : Skel τ α) (d : Nat) (rest : List τ) : Prop :=
  rest = [] ∨ ∃ t r, rest = t :: r ∧ (S.kind t = .pipe ∨ (S.kind t = .rp ∧ d > 0))

theorem sqLoop_rest (S : Skel τ α) : ∀ f res cur toks d n a r,
    sqLoop S f res cur toks d n = .ok (a, r) → StopAt S d r := by
  intro f
  induction f with
  | zero => intro res cur toks d n a r h; simp [sqLoop] at h
  | succ f ih =>
    intro res cur toks d n a r h
    cases toks with
    | nil =>
      simp only [sqLoop, PRes.ok.injEq, Prod.mk.injEq] at h
      exact Or.inl h.2.symm
    | cons t tl =>
      rw [sqLoop] at h
      try simp only at h
      cases hk : S.kind t <;> simp only [hk] at h
      · simp at h
      · split at h
        · simp only [PRes.ok.injEq, Prod.mk.injEq] at h
          rename_i hd
          exact Or.inr ⟨t, tl, h.2.symm, Or.inr ⟨hk, hd⟩⟩
        · simp at h
      · cases hs : sqSub S f tl d n with
        | ok p => rw [hs] at h; exact ih _ _ _ _ _ _ _ h
        | err => rw [hs] at h; simp at h
        | panic => rw [hs] at h; simp at h
        | oof => rw [hs] at h; simp at h
      · cases hs : sqSub S f tl d n with
        | ok p => rw [hs] at h; exact ih _ _ _ _ _ _ _ h
        | err => rw [hs] at h; simp at h
        | panic => rw [hs] at h; simp at h
        | oof => rw [hs] at h; simp at h
      · simp at h
      · simp only [PRes.ok.injEq, Prod.mk.injEq] at h
        exact Or.inr ⟨t, tl, h.2.symm, Or.inl hk⟩
      · simp at h
      · simp at h

theorem sqFilter_rest (S : Skel τ α) (f : Nat) (toks : List τ) (d n : Nat) (a : Ast α) (r : List τ)
    (h : sqFilter S f toks d n = .ok (a, r)) : StopAt S d r := by
  cases f with
  | zero => simp [sqFilter] at h
  | succ f =>
    rw [sqFilter] at h
    cases hs : sqSub S f toks d n with
    | ok p => rw [hs] at h; exact sqLoop_rest S _ _ _ _ _ _ _ _ h
    | err => rw [hs] at h; simp at h
    | panic => rw [hs] at h; simp at h
    | oof => rw [hs] at h; simp at h

theorem PRes.bind_ne_panic {β γ : Type} {x : PRes β} {g : β → PRes γ}
    (hx : x ≠ .panic) (hg : ∀ b, g b ≠ .panic) : x.bind g ≠ .panic := by
  cases x with
  | ok b => exact hg b
  | err => simp [PRes.bind]
  | panic => exact absurd rfl hx
  | oof => simp [PRes.bind]

/-- the skeleton itself never panics: a panic can only come out of the field-filter parser -/
theorem sq_nopanic (S : Skel τ α) (hA : ∀ toks, S.atom toks ≠ .panic) : ∀ f,
    (∀ toks d n, sqSub S f toks d n ≠ .panic) ∧ (∀ toks d n, sqFilter S f toks d n ≠ .panic) ∧
    (∀ res cur toks d n, sqLoop S f res cur toks d n ≠ .panic) := by
  intro f
  induction f with
  | zero => simp [sqSub, sqFilter, sqLoop]
  | succ f ih =>
    obtain ⟨ihS, ihF, ihL⟩ := ih
    refine ⟨?_, ?_, ?_⟩
    · intro toks d n
      cases toks with
      | nil => simp [sqSub]
      | cons t r =>
        by_cases hdeep : S.tooDeep n = true
        · simp [sqSub, hdeep]
        replace hdeep : S.tooDeep n = false := by simpa using hdeep
        rw [sqSub]
        simp only [hdeep, Bool.false_eq_true, if_false]
        split
        · simp
        · split
          · refine PRes.bind_ne_panic (ihF _ _ _) ?_
            intro b
            split
            · split <;> simp
            · simp
          · split
            · exact PRes.bind_ne_panic (ihS _ _ _) (by intro b; simp)
            · exact hA _
    · intro toks d n
      rw [sqFilter]
      exact PRes.bind_ne_panic (ihS _ _ _) (fun b => ihL _ _ _ _ _)
    · intro res cur toks d n
      cases toks with
      | nil => simp [sqLoop]
      | cons t r =>
        rw [sqLoop]
        try simp only
        cases hk : S.kind t <;> simp only
        · simp
        · split <;> simp
        · exact PRes.bind_ne_panic (ihS _ _ _) (fun b => ihL _ _ _ _ _)
        · exact PRes.bind_ne_panic (ihS _ _ _) (fun b => ihL _ _ _ _ _)
        · simp
        · simp
        · simp
        · simp

end SV.Parser
