/-!
# C01 - `frac.FileWriter` (group commit) as a labelled transition system

One label per atomic step of `frac/file_writer.go`:
* writer of one `Write(data)`: `reserve` (`fs.offset.Add`), `written` (`WriteAt` returned), `enqueue` (append the
  result channel to `fs.queue` under `fs.mu`, remembering the queue size), `notify` (the writer that saw size 1 is
  about to send on `fs.notify`), `ret` (it received the result of the fsync and returns it);
* `syncLoop`: `wake` (received from `fs.notify`), `take` (swaps `fs.queue` for an empty one under `fs.mu`),
  `syncBegin` / `syncEnd ok` (`fs.ws.Sync()`), after which every request of the batch is sent the same result
  (folded into `syncEnd`: the result of a request is fixed from then on).
A request is identified by the offset it reserved (lengths are positive).  The state carries, as ghost data, trace
indices: the step at which a block was written travels with its queue entry, the begin/end of the covering fsync
with the finished request.  `exec` is total and computable: the driver replays logged traces of the real
FileWriter through it (trace validation).  `skipSync` is not modelled (the property is about the fsync path).
Core-only.
-/
namespace SV.FWr

inductive Lbl where
  | reserve (off len : Nat)
  | written (off : Nat) (ok : Bool)
  | enqueue (off size : Nat)
  | notify (off : Nat)
  | wake
  | take (n : Nat)
  | syncBegin
  | syncEnd (ok : Bool)
  | ret (off : Nat) (ok : Bool)
deriving DecidableEq, Repr

inductive WPc where
  | reserved
  | failed                                  -- WriteAt returned an error: Write returns it, no fsync
  | written (tw : Nat)                      -- ghost: index of the `written` step
  | mustNotify
  | waiting
  | done (ok : Bool) (sb se : Nat)          -- result fixed; ghost: indices of the covering syncBegin / syncEnd
  | returned (ok : Bool) (sb se : Nat)
deriving DecidableEq, Repr

structure Wr where
  off : Nat
  len : Nat
  pc : WPc
deriving DecidableEq, Repr

inductive SPc where
  | idle
  | woken
  | taken (batch : List (Nat × Nat))          -- (offset, ghost index of its `written` step)
  | syncing (batch : List (Nat × Nat)) (sb : Nat)
deriving DecidableEq, Repr

structure St where
  offset : Nat
  ws : List Wr
  queue : List (Nat × Nat)
  notify : Bool
  syncer : SPc
  now : Nat                                   -- number of steps so far = index of the next label
deriving DecidableEq, Repr

def init (start : Nat) : St := ⟨start, [], [], false, .idle, 0⟩

/-- apply `f` to the pc of the writers of request `off` on which it is defined -/
def upd (ws : List Wr) (off : Nat) (f : WPc → Option WPc) : List Wr :=
  ws.map fun w => if w.off = off then (match f w.pc with | some p => { w with pc := p } | none => w) else w

/-- some writer of request `off` is at a pc on which `f` is defined -/
def can (ws : List Wr) (off : Nat) (f : WPc → Option WPc) : Bool :=
  ws.any fun w => w.off = off && (f w.pc).isSome

def fWritten (now : Nat) (ok : Bool) : WPc → Option WPc
  | .reserved => some (if ok then .written now else .failed)
  | _ => none

def fEnqueue (size : Nat) : WPc → Option WPc
  | .written _ => some (if size = 1 then .mustNotify else .waiting)
  | _ => none

def twOf : WPc → Option Nat
  | .written tw => some tw
  | _ => none

def fNotify : WPc → Option WPc
  | .mustNotify => some .waiting
  | _ => none

def fRet (ok : Bool) : WPc → Option WPc
  | .done ok' sb se => if ok' = ok then some (.returned ok sb se) else none
  | _ => none

/-- the ghost write index of the (first) writer of `off` that is at `written` -/
def writtenAt (ws : List Wr) (off : Nat) : Option Nat :=
  (ws.find? fun w => w.off = off && (twOf w.pc).isSome).bind fun w => twOf w.pc

def step (st : St) : Lbl → Option St
  | .reserve off len =>
    if off = st.offset ∧ 0 < len then
      some { st with offset := st.offset + len, ws := st.ws ++ [⟨off, len, .reserved⟩], now := st.now + 1 }
    else none
  | .written off ok =>
    if can st.ws off (fWritten st.now ok) then
      some { st with ws := upd st.ws off (fWritten st.now ok), now := st.now + 1 }
    else none
  | .enqueue off size =>
    match writtenAt st.ws off with
    | some tw =>
      if size = st.queue.length + 1 then
        some { st with ws := upd st.ws off (fEnqueue size), queue := st.queue ++ [(off, tw)], now := st.now + 1 }
      else none
    | none => none
  | .notify off =>
    if can st.ws off fNotify ∧ st.notify = false then
      some { st with ws := upd st.ws off fNotify, notify := true, now := st.now + 1 }
    else none
  | .wake =>
    if st.syncer = .idle ∧ st.notify = true then some { st with syncer := .woken, notify := false, now := st.now + 1 }
    else none
  | .take n =>
    if st.syncer = .woken ∧ n = st.queue.length then
      some { st with syncer := .taken st.queue, queue := [], now := st.now + 1 }
    else none
  | .syncBegin =>
    match st.syncer with
    | .taken batch => some { st with syncer := .syncing batch st.now, now := st.now + 1 }
    | _ => none
  | .syncEnd ok =>
    match st.syncer with
    | .syncing batch sb =>
      -- every request of the batch is blocked on its result channel and is sent `ok`
      if st.ws.all (fun w => decide (w.off ∈ batch.map (·.1)) → decide (w.pc = .waiting)) then
        some { st with
          ws := st.ws.map fun w => if w.off ∈ batch.map (·.1) then { w with pc := .done ok sb st.now } else w
          syncer := .idle, now := st.now + 1 }
      else none
    | _ => none
  | .ret off ok =>
    if can st.ws off (fRet ok) then some { st with ws := upd st.ws off (fRet ok), now := st.now + 1 }
    else none

def exec (st : St) : List Lbl → Option St
  | [] => some st
  | l :: ls => (step st l).bind fun st' => exec st' ls

/-- the index of the first label that is not a step of the system (`none` = the whole trace is a path) -/
def firstBad (st : St) : List Lbl → Nat → Option Nat
  | [], _ => none
  | l :: ls, i =>
    match step st l with
    | some st' => firstBad st' ls (i + 1)
    | none => some i

/-- the reserved ranges tile `[start, end)` in reservation order, all non-empty -/
def Tiled : Nat → List Wr → Nat → Prop
  | start, [], e => e = start
  | start, w :: ws, e => w.off = start ∧ 0 < w.len ∧ Tiled (start + w.len) ws e

end SV.FWr
