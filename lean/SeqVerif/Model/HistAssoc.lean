import SeqVerif.Model.AsyncLemmas
/-!
Histogram correction of `MergeQPRs` under repetitions, when nothing is cut (helper lemmas for C19's `c19_eq_sync_hist`):
every merge subtracts, per bucket, exactly (IDs handed in) - (distinct IDs), so any sequence of merges over the same
partial results ends with the same histogram - `Σ counts - Σ |distinct IDs of each partial result| + |distinct IDs|`.
All statements are in additive form (no truncated subtraction).
-/
namespace SV.Merge

/-! ## kept ++ removed is a permutation of the input -/

theorem dedupGo_repsGo_perm (last : Nat) (xs : List Nat) : (dedupGo last xs ++ repsGo last xs).Perm xs := by
  induction xs generalizing last with
  | nil => simp [dedupGo, repsGo]
  | cons x xs ih =>
    unfold dedupGo repsGo
    split
    · exact List.Perm.cons x (ih x)
    · rename_i h
      have hx : last = x := by simpa using h
      subst hx
      exact (List.perm_middle).trans (List.Perm.cons last (ih last))

theorem removeRepetitions_perm (l : List Nat) : (removeRepetitions l ++ repetitions l).Perm l := by
  cases l with
  | nil => simp [removeRepetitions, repetitions]
  | cons x xs => exact List.Perm.cons x (dedupGo_repsGo_perm x xs)

theorem insertId_perm (desc : Bool) (a : Nat) (l : List Nat) : (insertId desc a l).Perm (a :: l) := by
  induction l with
  | nil => simp [insertId]
  | cons b bs ih =>
    unfold insertId
    split
    · exact (List.Perm.cons b ih).trans (List.Perm.swap a b bs)
    · exact List.Perm.refl _

theorem sortIds_perm (desc : Bool) (l : List Nat) : (sortIds desc l).Perm l := by
  induction l with
  | nil => simp [sortIds]
  | cons a as ih => exact (insertId_perm desc a _).trans (List.Perm.cons a ih)

/-- per bucket: repetitions + distinct = all -/
theorem cnt_reps_add_sd (desc : Bool) (hi k : Nat) (xs : List Nat) :
    cntBucket hi k (repetitions (sortIds desc xs)) + cntBucket hi k (sd desc xs) = cntBucket hi k xs := by
  have h := cntBucket_perm hi k ((removeRepetitions_perm (sortIds desc xs)).trans (sortIds_perm desc xs))
  rw [cntBucket_append] at h
  unfold sd; omega

theorem cnt_sd_le (desc : Bool) (hi k : Nat) (xs : List Nat) : cntBucket hi k (sd desc xs) ≤ cntBucket hi k xs := by
  have := cnt_reps_add_sd desc hi k xs; omega

theorem cnt_take_le (hi k n : Nat) (xs : List Nat) : cntBucket hi k (xs.take n) ≤ cntBucket hi k xs := by
  unfold cntBucket
  exact List.Sublist.length_le (List.Sublist.filter _ (List.take_sublist n xs))

theorem cnt_allIds (hi k : Nat) (dst : QPR) (qs : List QPR) :
    cntBucket hi k (allIds dst qs) = cntBucket hi k dst.ids + (qs.map (fun q => cntBucket hi k q.ids)).sum := by
  unfold allIds
  rw [cntBucket_append]
  congr 1
  induction qs with
  | nil => rfl
  | cons q qs ih => simp only [List.flatMap_cons, cntBucket_append, List.map_cons, List.sum_cons, ih]

/-- a partial result whose histogram counts at least the IDs it lists -/
def Covers (hi : Nat) (q : QPR) : Prop := ∀ k, cntBucket hi k q.ids ≤ Hist.sumAt (q.hist.getD []) k

theorem sum_le_sum (f g : QPR → Nat) (qs : List QPR) (h : ∀ q, q ∈ qs → f q ≤ g q) :
    (qs.map f).sum ≤ (qs.map g).sum := by
  induction qs with
  | nil => simp
  | cons q qs ih =>
    simp only [List.map_cons, List.sum_cons]
    have := h q (by simp)
    have := ih (fun q hq => h q (List.mem_cons_of_mem _ hq))
    omega

/-- **one merge, additive form**: result + (IDs handed in) = destination + inputs + (distinct IDs), per bucket -/
theorem merge_hist_additive (desc : Bool) (dst : QPR) (qs : List QPR) (limit hi : Nat) (hhi : hi > 0) (k : Nat)
    (hd : cntBucket hi k dst.ids ≤ histGet dst.hist k) (hq : ∀ q, q ∈ qs → Covers hi q) :
    histGet (mergeQPRs desc dst qs limit hi).hist k + cntBucket hi k (allIds dst qs)
      = histGet dst.hist k + (qs.map (fun q => Hist.sumAt (q.hist.getD []) k)).sum
          + cntBucket hi k (sd desc (allIds dst qs)) := by
  have hb := cnt_reps_add_sd desc hi k (allIds dst qs)
  have hall := cnt_allIds hi k dst qs
  have hsum := sum_le_sum (fun q => cntBucket hi k q.ids) (fun q => Hist.sumAt (q.hist.getD []) k) qs (fun q hmem => hq q hmem k)
  have hle : cntBucket hi k (repetitions (sortIds desc (allIds dst qs))) ≤ histGet (mergedHist dst qs) k := by
    rw [mergedHist_get]; omega
  rw [mergeQPRs_hist desc dst qs limit hi hhi k hle]
  rw [mergedHist_get] at hle
  omega

/-! ## accumulator invariant with repetitions allowed, nothing cut -/

/-- `Σ_f |distinct IDs of f in bucket k|` -/
def sdCnt (c : Cfg) (k : Nat) (fs : List Frac) : Nat := (fs.map (fun f => cntBucket c.hi k (sd c.desc f.docs))).sum

theorem sdCnt_append (c : Cfg) (k : Nat) (a b : List Frac) : sdCnt c k (a ++ b) = sdCnt c k a + sdCnt c k b := by
  simp [sdCnt, List.sum_append]

theorem sdCnt_le (c : Cfg) (k : Nat) (fs : List Frac) : sdCnt c k fs ≤ cntBucket c.hi k (docsOf fs) := by
  induction fs with
  | nil => simp [sdCnt, docsOf, cntBucket]
  | cons f fs ih =>
    have : docsOf (f :: fs) = f.docs ++ docsOf fs := by simp [docsOf]
    rw [this, cntBucket_append]
    have := cnt_sd_le c.desc c.hi k f.docs
    simp only [sdCnt, List.map_cons, List.sum_cons] at ih ⊢
    omega

structure HAcc (c : Cfg) (acc : QPR) (P : List Nat) (A B : Nat → Nat) : Prop where
  ids_eq : acc.ids = sd c.desc P
  hist_eq : ∀ k, histGet acc.hist k + B k = A k + cntBucket c.hi k (sd c.desc P)
  ba : ∀ k, B k ≤ A k

theorem cnt_uncut_flatten (c : Cfg) (k m : Nat) (fs : List Frac) (hm : ∀ f, f ∈ fs → (sd c.desc f.docs).length ≤ m) :
    cntBucket c.hi k ((fs.map (fun f => (sd c.desc f.docs).take m)).flatten) = sdCnt c k fs := by
  induction fs with
  | nil => simp [sdCnt, cntBucket]
  | cons f fs ih =>
    simp only [List.map_cons, List.flatten_cons, cntBucket_append, sdCnt, List.sum_cons]
    rw [List.take_of_length_le (hm f (by simp))]
    have := ih (fun g hg => hm g (List.mem_cons_of_mem _ hg))
    simp only [sdCnt] at this
    rw [this]

theorem mem_uncut_flatten (c : Cfg) (m : Nat) (fs : List Frac) (hm : ∀ f, f ∈ fs → (sd c.desc f.docs).length ≤ m) (v : Nat) :
    v ∈ (fs.map (fun f => (sd c.desc f.docs).take m)).flatten ↔ v ∈ docsOf fs := by
  constructor
  · exact mem_cut_flatten c.desc m fs v
  · intro hv
    obtain ⟨f, hf, hvf⟩ := (mem_docsOf fs v).mp hv
    simp only [List.mem_flatten, List.mem_map]
    refine ⟨_, ⟨f, hf, rfl⟩, ?_⟩
    rw [List.take_of_length_le (hm f hf)]
    exact (mem_sd c.desc v _).mpr hvf

theorem covers_fracSearch (c : Cfg) (hhi : c.hi > 0) (f : Frac) (m : Nat) : Covers c.hi (fracSearch c f m) := by
  intro k
  simp only [fracSearch, hhi, if_true, Option.getD_some]
  rw [sumAt_eq_get _ _ (keys_histOf_nodup c.hi f.docs), get_histOf]
  exact Nat.le_trans (cnt_take_le c.hi k m _) (cnt_sd_le c.desc c.hi k f.docs)

/-- one merge of a chunk of fraction answers, none of them cut -/
theorem hacc_step (c : Cfg) (hhi : c.hi > 0) (L m : Nat) (acc : QPR) (P : List Nat) (A B : Nat → Nat) (fs : List Frac)
    (hacc : HAcc c acc P A B) (hm : ∀ f, f ∈ fs → (sd c.desc f.docs).length ≤ m)
    (hL : (sd c.desc (P ++ docsOf fs)).length ≤ L) :
    HAcc c (mergeQPRs c.desc acc (fs.map (fracSearch c · m)) L c.hi) (P ++ docsOf fs)
      (fun k => A k + cntBucket c.hi k (docsOf fs)) (fun k => B k + sdCnt c k fs) := by
  have hall : allIds acc (fs.map (fracSearch c · m)) = sd c.desc P ++ (fs.map (fun f => (sd c.desc f.docs).take m)).flatten := by
    rw [allIds_fracSearch', hacc.ids_eq]
  have hsd : sd c.desc (allIds acc (fs.map (fracSearch c · m))) = sd c.desc (P ++ docsOf fs) := by
    rw [hall]
    apply sd_congr
    intro v
    simp only [List.mem_append, mem_sd, mem_uncut_flatten c m fs hm]
  refine ⟨?_, fun k => ?_, fun k => ?_⟩
  · rw [mergeQPRs_ids, hsd, List.take_of_length_le hL]
  · have hd : cntBucket c.hi k acc.ids ≤ histGet acc.hist k := by
      have h1 := hacc.hist_eq k
      have h2 := hacc.ba k
      rw [hacc.ids_eq]; omega
    have := merge_hist_additive c.desc acc (fs.map (fracSearch c · m)) L c.hi hhi k hd
      (fun q hq => by
        rcases List.mem_map.mp hq with ⟨f, _, rfl⟩
        exact covers_fracSearch c hhi f m)
    rw [hsd, hall, cntBucket_append, cnt_uncut_flatten c k m fs hm, sum_hists_fracSearch] at this
    simp only [hhi, if_true] at this
    have h1 := hacc.hist_eq k
    omega
  · have := hacc.ba k
    have := sdCnt_le c k fs
    omega

theorem length_docs_le_docsOf (fs : List Frac) (f : Frac) (hf : f ∈ fs) : f.docs.length ≤ (docsOf fs).length := by
  induction fs with
  | nil => simp at hf
  | cons g gs ih =>
    have : docsOf (g :: gs) = g.docs ++ docsOf gs := by simp [docsOf]
    rw [this, List.length_append]
    rcases List.mem_cons.mp hf with h | h
    · subst h; omega
    · have := ih h; omega

/-- the synchronous loop with a histogram requested (scan-all: it never stops early), nothing cut -/
theorem searchLoop_hacc (c : Cfg) (hhi : c.hi > 0) (n L : Nat) (acc : QPR) (rest : List Frac) (limit : Nat)
    (P : List Nat) (A B : Nat → Nat) (hacc : HAcc c acc P A B)
    (hsize : (P ++ docsOf rest).length ≤ L) (hlim : (docsOf rest).length ≤ limit) :
    HAcc c (searchLoop c n L acc rest limit) (P ++ docsOf rest)
      (fun k => A k + cntBucket c.hi k (docsOf rest)) (fun k => B k + sdCnt c k rest) := by
  induction hlen : rest.length using Nat.strongRecOn generalizing acc rest limit P A B with
  | _ j ih =>
    unfold searchLoop
    split
    · rename_i hstop
      rcases hstop with hnil | hlim0
      · subst hnil
        simpa [docsOf, sdCnt, cntBucket] using hacc
      · exfalso
        apply hlim0
        left
        simp [Cfg.scanAll, hhi]
    · rename_i hgo
      have hne : rest ≠ [] := fun h => hgo (Or.inl h)
      have hpos : 0 < rest.length := List.length_pos_iff.mpr hne
      have hsplit : docsOf rest = docsOf (rest.take (n + 1)) ++ docsOf (rest.drop (n + 1)) :=
        (docsOf_take_drop (n + 1) rest).symm
      have hlen1 : (docsOf rest).length = (docsOf (rest.take (n + 1))).length + (docsOf (rest.drop (n + 1))).length := by
        rw [hsplit, List.length_append]
      have hm : ∀ f, f ∈ rest.take (n + 1) → (sd c.desc f.docs).length ≤ limit := by
        intro f hf
        have h1 := length_sd_le c.desc f.docs
        have h2 := length_docs_le_docsOf rest f (List.mem_of_mem_take hf)
        omega
      have hL : (sd c.desc (P ++ docsOf (rest.take (n + 1)))).length ≤ L := by
        have h1 := length_sd_le c.desc (P ++ docsOf (rest.take (n + 1)))
        simp only [List.length_append] at h1 hsize
        omega
      have hstep := hacc_step c hhi L limit acc P A B (rest.take (n + 1)) hacc hm hL
      have hle := calcEnsured_le c.desc
        (mergeQPRs c.desc acc ((rest.take (n + 1)).map (fracSearch c · limit)) L c.hi).ids (rest.drop (n + 1))
      have hidslen : (mergeQPRs c.desc acc ((rest.take (n + 1)).map (fracSearch c · limit)) L c.hi).ids.length
          ≤ (P ++ docsOf (rest.take (n + 1))).length := by
        rw [hstep.ids_eq]; exact length_sd_le _ _
      have := ih (rest.drop (n + 1)).length (by simp only [List.length_drop]; omega)
        (mergeQPRs c.desc acc ((rest.take (n + 1)).map (fracSearch c · limit)) L c.hi)
        (rest.drop (n + 1))
        (L - calcEnsured c.desc
          (mergeQPRs c.desc acc ((rest.take (n + 1)).map (fracSearch c · limit)) L c.hi).ids (rest.drop (n + 1)))
        (P ++ docsOf (rest.take (n + 1))) _ _ hstep
        (by rw [List.append_assoc, ← hsplit]; exact hsize)
        (by simp only [List.length_append] at hidslen hsize; omega) rfl
      rw [List.append_assoc, ← hsplit] at this
      refine ⟨this.ids_eq, fun k => ?_, fun k => ?_⟩
      · have h := this.hist_eq k
        have e1 : sdCnt c k rest = sdCnt c k (rest.take (n + 1)) + sdCnt c k (rest.drop (n + 1)) := by
          rw [← sdCnt_append, List.take_append_drop]
        have e2 : cntBucket c.hi k (docsOf rest)
            = cntBucket c.hi k (docsOf (rest.take (n + 1))) + cntBucket c.hi k (docsOf (rest.drop (n + 1))) := by
          rw [hsplit, cntBucket_append]
        omega
      · have h := this.ba k
        have e1 : sdCnt c k rest = sdCnt c k (rest.take (n + 1)) + sdCnt c k (rest.drop (n + 1)) := by
          rw [← sdCnt_append, List.take_append_drop]
        have e2 : cntBucket c.hi k (docsOf rest)
            = cntBucket c.hi k (docsOf (rest.take (n + 1))) + cntBucket c.hi k (docsOf (rest.drop (n + 1))) := by
          rw [hsplit, cntBucket_append]
        omega

end SV.Merge

namespace SV.Async
open SV SV.Merge

theorem hacc_zero (c : Cfg) (acc : QPR) (hids : acc.ids = []) (hh : ∀ k, histGet acc.hist k = 0) :
    HAcc c acc [] (fun _ => 0) (fun _ => 0) := by
  refine ⟨by simp [hids, sd, sortIds, removeRepetitions], fun k => ?_, fun _ => Nat.le_refl _⟩
  simp [hh k, sd, sortIds, removeRepetitions, cntBucket]

/-- the fetch fold at the request's interval over uncut fraction answers -/
theorem fetch_fold_hacc (c : Cfg) (hhi : c.hi > 0) (L : Nat) (fs : List Frac) (acc : QPR) (P : List Nat)
    (A B : Nat → Nat) (hacc : HAcc c acc P A B) (hm : ∀ f, f ∈ fs → (sd c.desc f.docs).length ≤ L)
    (hmax : (P ++ docsOf fs).length ≤ maxInt) :
    HAcc c ((fs.map (fracSearch c · L)).foldl (fetchStepWith c.hi c.desc) acc) (P ++ docsOf fs)
      (fun k => A k + cntBucket c.hi k (docsOf fs)) (fun k => B k + sdCnt c k fs) := by
  induction fs generalizing acc P A B with
  | nil => simpa [docsOf, sdCnt, cntBucket] using hacc
  | cons f fs ih =>
    have hd : docsOf (f :: fs) = docsOf [f] ++ docsOf fs := by simp [docsOf]
    have hstep := hacc_step c hhi maxInt L acc P A B [f] hacc
      (fun g hg => hm g (by simp only [List.mem_singleton] at hg; subst hg; simp))
      (by
        have h1 := length_sd_le c.desc (P ++ docsOf [f])
        rw [hd] at hmax
        simp only [List.length_append] at h1 hmax ⊢
        omega)
    have := ih (fetchStepWith c.hi c.desc acc (fracSearch c f L)) (P ++ docsOf [f]) _ _ hstep
      (fun g hg => hm g (List.mem_cons_of_mem _ hg))
      (by rw [List.append_assoc, ← hd]; exact hmax)
    simp only [List.map_cons, List.foldl_cons]
    rw [List.append_assoc, ← hd] at this
    refine ⟨this.ids_eq, fun k => ?_, fun k => ?_⟩
    · have h := this.hist_eq k
      have e1 : sdCnt c k (f :: fs) = sdCnt c k [f] + sdCnt c k fs := by
        rw [← sdCnt_append]; rfl
      have e2 : cntBucket c.hi k (docsOf (f :: fs)) = cntBucket c.hi k (docsOf [f]) + cntBucket c.hi k (docsOf fs) := by
        rw [hd, cntBucket_append]
      omega
    · have h := this.ba k
      have e1 : sdCnt c k (f :: fs) = sdCnt c k [f] + sdCnt c k fs := by
        rw [← sdCnt_append]; rfl
      have e2 : cntBucket c.hi k (docsOf (f :: fs)) = cntBucket c.hi k (docsOf [f]) + cntBucket c.hi k (docsOf fs) := by
        rw [hd, cntBucket_append]
      omega

theorem sdCnt_perm (c : Cfg) (k : Nat) {a b : List Frac} (h : a.Perm b) : sdCnt c k a = sdCnt c k b :=
  List.Perm.sum_nat (List.Perm.map _ h)

/-- **async = sync on the histogram, duplicates allowed**: with the fold at the request's interval (the repaired
code) and a per-fraction limit that does not cut, every bucket of the fetched histogram equals the synchronous one -/
theorem fetch_eq_sync_hist_full (c : Cfg) (hhi : c.hi > 0) (fs : List Frac) (from_ to_ L : Nat)
    (hvis : ∀ f, f ∈ fs → f.docs ≠ [] → isIntersecting f from_ to_ = true)
    (hmax : c.maxHits = 0 ∨ (filterInRange fs from_ to_).length ≤ c.maxHits)
    (hsize : (docsOf fs).length ≤ L) (hL : L ≤ maxInt) :
    ∃ q, searchDocs c fs from_ to_ L = some q ∧
      ∀ k, histGet (fetchFoldWith c.hi c.desc ((filterInRange fs from_ to_).map (fracSearch c · L))).hist k
          = histGet q.hist k := by
  have hprep : prepareFracs c fs from_ to_ = some (sortFracs c.desc (filterInRange fs from_ to_)) := by
    unfold prepareFracs
    split
    · rename_i h; omega
    · rfl
  have hfil := docsOf_filterInRange fs from_ to_ hvis
  have hperm := sortFracs_perm c.desc (filterInRange fs from_ to_)
  have hdperm := docsOf_perm hperm
  have hlenF : (docsOf (filterInRange fs from_ to_)).length ≤ L := by rw [hfil]; exact hsize
  -- the async side
  have hA := fetch_fold_hacc c hhi L (filterInRange fs from_ to_) zeroQPR [] _ _
    (hacc_zero c zeroQPR rfl (fun k => rfl))
    (fun f hf => by
      have h1 := length_sd_le c.desc f.docs
      have h2 := length_docs_le_docsOf _ f hf
      omega)
    (by simp only [List.nil_append]; omega)
  unfold searchDocs
  rw [hprep]
  simp only
  split
  · rename_i hz
    have hlen : (sortFracs c.desc (filterInRange fs from_ to_)).length = 0 := by
      split at hz
      · exact hz
      · rename_i hp; omega
    rw [length_sortFracs] at hlen
    have hnil := List.eq_nil_of_length_eq_zero hlen
    refine ⟨emptyQPR, rfl, fun k => ?_⟩
    rw [hnil]
    simp [fetchFoldWith, zeroQPR, emptyQPR, histGet, Hist.get]
  · rename_i n hn
    refine ⟨_, rfl, fun k => ?_⟩
    have hS := searchLoop_hacc c hhi n L emptyQPR (sortFracs c.desc (filterInRange fs from_ to_)) L [] _ _
      (hacc_zero c emptyQPR rfl (fun k => by simp [emptyQPR, histGet, Hist.get]))
      (by simp only [List.nil_append]; rw [hdperm.length_eq]; exact hlenF)
      (by rw [hdperm.length_eq]; exact hlenF)
    have ea := hA.hist_eq k
    have es := hS.hist_eq k
    simp only [List.nil_append, Nat.zero_add] at ea es
    have e1 := sdCnt_perm c k hperm
    have e2 := cntBucket_perm c.hi k hdperm
    have e3 : sd c.desc (docsOf (sortFracs c.desc (filterInRange fs from_ to_))) = sd c.desc (docsOf (filterInRange fs from_ to_)) :=
      sd_congr c.desc _ _ (fun v => hdperm.mem_iff)
    rw [e3] at es
    simp only [fetchFoldWith]
    omega

end SV.Async
