/-!
# C16 fetch side: `lessFuncPosBased`, `mergedDocStream`, `newNMergedStreams`, `mergedStreamIterator`,
`grpcStreamIterator`, `uniqueIDIterator`, `groupIDsBySource` (proxy/search)

A Go panic is a value.  Streams are lazy in the code; here a stream is a state and `next` returns the answer and
the new state, so that "who is compared with whom, and when" is exactly the code's.  The only re-arrangement:
the `if !m.init` block of every `mergedDocStream` is executed by `initNode` when the tree is built - in the code all
nodes are initialised, children first, by the first `Next` of the root, which `newMergedStreamIterator` issues
before returning, and nothing but a panic can cut that first call short.  Core-only.
-/
namespace SV.DocsMerge

abbrev ID := Nat × Nat

/-- `seq.IDSource`; `hint = 0` is the empty string -/
structure IDS where
  id : ID
  src : Nat
  hint : Nat
deriving DecidableEq, Repr

/-- `StreamingDoc`; `data = 0` is the empty payload (only emptiness is ever inspected) -/
structure Doc where
  id : ID
  src : Nat
  data : Nat
deriving DecidableEq, Repr

def zeroDoc : Doc := ⟨(0, 0), 0, 0⟩

/-- `StreamingDoc.IDSource()`: no hint -/
def Doc.key (d : Doc) : IDS := ⟨d.id, d.src, 0⟩

def Doc.isEmpty (d : Doc) : Bool := d.data == 0

/-- `positions[IDSource{ID, Source}] = i` for i, id in ids: the last occurrence wins -/
def posGo (k : IDS) : Nat → List IDS → Option Nat → Option Nat
  | _, [], acc => acc
  | i, x :: xs, acc => posGo k (i + 1) xs (if (⟨x.id, x.src, 0⟩ : IDS) = k then some i else acc)

/-- map lookup `positions[k]`: the key is the whole struct, hint included -/
def pos (ids : List IDS) (k : IDS) : Option Nat := posGo k 0 ids none

/-- a comparison closure; `none` = panic("attempt to compare unknown IDSources") -/
abbrev Cmp := IDS → IDS → Option Bool

def cmpPos (pa pb : Option Nat) : Option Bool :=
  match pa, pb with
  | some pa, some pb => some (decide (pa < pb))
  | none, none => none
  | none, some _ => some true
  | some _, none => some false

/-- `IDSource` with the hint cleared -/
def IDS.strip (a : IDS) : IDS := ⟨a.id, a.src, 0⟩

/-- the closure returned by `lessFuncPosBased(ids)`: `a.Hint, b.Hint = "", ""`, then the two map lookups -/
def less (ids : List IDS) : Cmp := fun a b => cmpPos (pos ids a.strip) (pos ids b.strip)

/-- the closure as it was before the fix `6801ca4`: the arguments were looked up with their hints, so a requested
    ID that carries a hint was never found (kept for the counterexample in Props/C16.lean) -/
def lessOld (ids : List IDS) : Cmp := fun a b => cmpPos (pos ids a) (pos ids b)

inductive Res
  | doc (d : Doc)
  | eof                     -- io.EOF or any other error: the consumers below treat them alike
  | panic
deriving DecidableEq, Repr

/-- iterator states.  `leaf` = a per-source iterator with the documents it will still deliver before its first
    error / EOF; `done` = a child that was set to nil; `merged` = an initialised `mergedDocStream`. -/
inductive Stream
  | leaf (docs : List Doc)
  | done
  | merged (a b : Stream) (da db : Doc)
deriving Repr

def Stream.isDone : Stream → Bool
  | .done => true
  | _ => false

/-- `m.docX, err = m.x.Next(); if err != nil { m.x = nil }` given the child's answer; `none` = panic -/
def pull (r : Res × Stream) (cur : Doc) : Option (Stream × Doc) :=
  match r.1 with
  | .doc d => some (r.2, d)
  | .eof => some (.done, cur)
  | .panic => none

/-- `Next()` of a leaf iterator / of an initialised `mergedDocStream` -/
def next (lt : Cmp) : Stream → Res × Stream
  | .leaf [] => (.eof, .leaf [])
  | .leaf (d :: ds) => (.doc d, .leaf ds)
  | .done => (.eof, .done)
  | .merged a b da db =>
    let readA : Res × Stream :=
      match pull (next lt a) da with
      | none => (.panic, .merged a b da db)
      | some x => (.doc da, .merged x.1 b x.2 db)
    let readB : Res × Stream :=
      match pull (next lt b) db with
      | none => (.panic, .merged a b da db)
      | some x => (.doc db, .merged a x.1 da x.2)
    if a.isDone && b.isDone then (.eof, .merged a b da db)
    else if a.isDone then readB
    else if b.isDone then readA
    else
      match lt db.key da.key with
      | none => (.panic, .merged a b da db)
      | some true => readB
      | some false => readA

/-- `newMergedDocsStream(a, b, less)` followed by its `if !m.init { readA(); readB() }` block -/
def initNode (lt : Cmp) (a b : Stream) : Option Stream :=
  match pull (next lt a) zeroDoc with
  | none => none
  | some x =>
    match pull (next lt b) zeroDoc with
    | none => none
    | some y => some (.merged x.1 y.1 x.2 y.2)

/-- `newNMergedStreams` -/
def nMerged (lt : Cmp) : List Stream → Option Stream
  | [] => some (.leaf [])
  | [s] => initNode lt s (.leaf [])
  | s0 :: s1 :: rest => rest.foldl (fun acc s => acc.bind fun m => initNode lt m s) (initNode lt s0 s1)

/-- the (stream, nextDoc, nextErr) part of `mergedStreamIterator` -/
structure Cur where
  s : Stream
  d : Doc
  e : Bool
deriving Repr

/-- `loadNextDoc`; `none` = panic -/
def load (lt : Cmp) (s : Stream) : Option Cur :=
  match next lt s with
  | (.doc d, s') => some ⟨s', d, false⟩
  | (.eof, s') => some ⟨s', zeroDoc, true⟩
  | (.panic, _) => none

inductive Out (α : Type)
  | val (a : α)
  | panic
  | nofuel           -- artefact of the fuel below; `ff_fuel` shows it is never produced
deriving Repr, DecidableEq

/-- 1 for a live child (its `docA` / `docB` slot holds a document), 0 for a child set to nil -/
def live (s : Stream) : Nat := if s.isDone then 0 else 1

/-- upper bound on the documents a stream can still deliver -/
def size : Stream → Nat
  | .leaf ds => ds.length
  | .done => 0
  | .merged a b _ _ => size a + size b + live a + live b

/-- the fast-forward loop `for ; m.nextErr == nil && m.less(m.nextDoc.IDSource(), currentID); m.loadNextDoc()` -/
def ff (lt : Cmp) (cur : IDS) : Nat → Cur → Out Cur
  | 0, _ => .nofuel
  | fuel + 1, c =>
    if c.e then .val c
    else
      match lt c.d.key cur with
      | none => .panic
      | some false => .val c
      | some true =>
        match load lt c.s with
        | none => .panic
        | some c' => ff lt cur fuel c'

structure MSI where
  lt : Cmp              -- m.less
  rest : List IDS       -- m.ids
  cur : Cur

/-- `newMergedStreamIterator(ctx, streams, ids)`; `none` = panic -/
def msiNew (lt : Cmp) (ids : List IDS) (streams : List Stream) : Option MSI :=
  match nMerged lt streams with
  | none => none
  | some s =>
    match load lt s with
    | none => none
    | some c => some ⟨lt, ids, c⟩

/-- `IDSource.Equal`: ID and Source, not the hint -/
def sameIDS (a : IDS) (d : Doc) : Bool := a.id == d.id && a.src == d.src

/-- `mergedStreamIterator.Next` (context not cancelled); `.val (none, _)` = io.EOF -/
def msiNext (m : MSI) : Out (Option Doc × MSI) :=
  match m.rest with
  | [] => .val (none, m)
  | cur :: rest =>
    match ff m.lt cur (size m.cur.s + 2) m.cur with
    | .panic => .panic
    | .nofuel => .nofuel
    | .val c =>
      if c.e || !sameIDS cur c.d then .val (some ⟨cur.id, cur.src, 0⟩, ⟨m.lt, rest, c⟩)   -- not found
      else
        match load m.lt c.s with
        | none => .panic
        | some c' => .val (some c.d, ⟨m.lt, rest, c'⟩)

/-- `n` calls of `Next` (what `makeProtoDocs` does with `n = len(qpr.IDs)`), stopping at EOF -/
def drain : Nat → MSI → Out (List Doc)
  | 0, _ => .val []
  | n + 1, m =>
    match msiNext m with
    | .panic => .panic
    | .nofuel => .nofuel
    | .val (none, _) => .val []
    | .val (some d, m') =>
      match drain n m' with
      | .val ds => .val (d :: ds)
      | .panic => .panic
      | .nofuel => .nofuel

/-- build the iterator over `streams` and read it to the end -/
def mergedDocsWith (lt : Cmp) (ids : List IDS) (streams : List (List Doc)) : Out (List Doc) :=
  match msiNew lt ids (streams.map Stream.leaf) with
  | none => .panic
  | some m => drain ids.length m

/-- `newMergedStreamIterator(ctx, streams, ids)` read to the end -/
def mergedDocs (ids : List IDS) (streams : List (List Doc)) : Out (List Doc) := mergedDocsWith (less ids) ids streams

/-- the same when the request context is done after `k` calls of `Next` (a deadline firing during the fetch phase):
    `mergedStreamIterator.Next` starts with `util.IsCancelled(m.ctx)` and answers io.EOF from then on -/
def mergedDocsWithC (lt : Cmp) (ids : List IDS) (streams : List (List Doc)) (k : Nat) : Out (List Doc) :=
  match msiNew lt ids (streams.map Stream.leaf) with
  | none => .panic
  | some m => drain (min ids.length k) m

def mergedDocsC (ids : List IDS) (streams : List (List Doc)) (k : Nat) : Out (List Doc) :=
  mergedDocsWithC (less ids) ids streams k

/-! ### grpcStreamIterator -/

/-- what `stream.Recv()` delivers: a document block (ID from the block header, payload) or an error; the list is
    followed by io.EOF -/
inductive Ev
  | doc (id : ID) (data : Nat)
  | err
deriving DecidableEq, Repr

inductive End | eof | wrongCount | recvErr
deriving DecidableEq, Repr

/-- `grpcStreamIterator` drained: the documents returned before the first non-nil error, and that error -/
def grpcIter (src total : Nat) : Nat → List Ev → List Doc × End
  | fetched, [] => ([], if fetched ≠ total then .wrongCount else .eof)
  | _, .err :: _ => ([], .recvErr)
  | fetched, .doc id data :: rest =>
    let r := grpcIter src total (if data = 0 then fetched else fetched + 1) rest
    (⟨id, src, data⟩ :: r.1, r.2)

/-! ### groupIDsBySource, FetchDocsStream -/

def groupBySource (ids : List IDS) (src : Nat) : List IDS := ids.filter fun x => x.src == src

/-- sources in order of first occurrence (the code iterates a map: any order; see `order` below) -/
def sources : List IDS → List Nat
  | [] => []
  | x :: xs => x.src :: (sources xs).filter (· ≠ x.src)

/-- `FetchDocsStream`: `behav src = none` - opening the stream failed; otherwise the events it will deliver.
    `order` = the order in which the map iteration visits the sources.  `none` = error "all shards requests failed". -/
def fetchDocsStream (ids : List IDS) (order : List Nat) (behav : Nat → Option (List Ev)) : Option (Out (List Doc)) :=
  let opened := order.filterMap fun s => (behav s).map fun evs => (grpcIter s (groupBySource ids s).length 0 evs).1
  if opened.isEmpty && !order.isEmpty then none
  else some (mergedDocs ids opened)

/-- `FetchDocsStream` + the `Next` calls when the context is done after `k` of them -/
def fetchDocsStreamC (ids : List IDS) (order : List Nat) (behav : Nat → Option (List Ev)) (k : Nat) :
    Option (Out (List Doc)) :=
  let opened := order.filterMap fun s => (behav s).map fun evs => (grpcIter s (groupBySource ids s).length 0 evs).1
  if opened.isEmpty && !order.isEmpty then none
  else some (mergedDocsC ids opened k)

/-! ### uniqueIDIterator -/

/-- `uniqueIDIterator` drained over the items its inner iterator yields before its first error -/
def uniqGo (found prev : Doc) : List Doc → List Doc
  | [] => [found]
  | d :: ds =>
    if d.id = prev.id then uniqGo (if d.isEmpty then found else d) d ds
    else found :: uniqGo d d ds

def uniq : List Doc → List Doc
  | [] => []
  | d :: ds => uniqGo d d ds

end SV.DocsMerge
