import SeqVerif.Model.AggRun
set_option linter.unusedSimpArgs false
set_option linter.unusedVariables false
/-!
Helper lemmas for C06, part 4: counting maps (`m[k]++`) and the TwoSourceAggregator.
-/
namespace SV.Agg

/-! ## counting maps -/

section counting
variable {κ : Type} [DecidableEq κ]

def countMap (m0 : List (κ × Nat)) (ks : List κ) : List (κ × Nat) := ks.foldl (fun m k => incr k m) m0

/-- the multiset of keys a counting map stands for -/
def expand (m : List (κ × Nat)) : List κ := m.flatMap fun kc => List.replicate kc.2 kc.1

def AllPos (m : List (κ × Nat)) : Prop := ∀ kc, kc ∈ m → 0 < kc.2

theorem mem_incr_key (k k' : κ) (m : List (κ × Nat)) :
    k' ∈ (incr k m).map (·.1) ↔ k' = k ∨ k' ∈ m.map (·.1) := by
  induction m with
  | nil => simp [incr]
  | cons x m ih =>
    obtain ⟨kx, n⟩ := x
    by_cases hx : kx = k
    · subst hx; simp [incr]
    · simp only [incr, hx, if_false, List.map_cons, List.mem_cons, ih]
      constructor
      · rintro (h | h | h)
        · exact Or.inr (Or.inl h)
        · exact Or.inl h
        · exact Or.inr (Or.inr h)
      · rintro (h | h | h)
        · exact Or.inr (Or.inl h)
        · exact Or.inl h
        · exact Or.inr (Or.inr h)

theorem incr_nodup (k : κ) (m : List (κ × Nat)) (h : KeysNodup m) : KeysNodup (incr k m) := by
  induction m with
  | nil => simp [incr, KeysNodup]
  | cons x m ih =>
    obtain ⟨kx, n⟩ := x
    have h' : kx ∉ m.map (·.1) ∧ KeysNodup m := by simpa [KeysNodup] using h
    by_cases hx : kx = k
    · subst hx; simpa [incr, KeysNodup] using h
    · simp only [incr, hx, if_false, KeysNodup, List.map_cons, List.nodup_cons]
      refine ⟨?_, ih h'.2⟩
      intro hm
      rcases (mem_incr_key k kx m).mp hm with e | e
      · exact hx e
      · exact h'.1 e

theorem incr_pos (k : κ) (m : List (κ × Nat)) (h : AllPos m) : AllPos (incr k m) := by
  induction m with
  | nil => intro kc hkc; simp [incr] at hkc; subst hkc; simp
  | cons x m ih =>
    obtain ⟨kx, n⟩ := x
    have h1 : 0 < n := h (kx, n) (by simp)
    have h2 : AllPos m := fun kc hkc => h kc (List.mem_cons_of_mem _ hkc)
    by_cases hx : kx = k
    · subst hx
      intro kc hkc
      simp [incr] at hkc
      rcases hkc with rfl | hkc
      · simp
      · exact h2 kc hkc
    · intro kc hkc
      simp [incr, hx] at hkc
      rcases hkc with rfl | hkc
      · exact h1
      · exact ih h2 kc hkc

theorem expand_incr (k : κ) (m : List (κ × Nat)) : (expand (incr k m)).Perm (k :: expand m) := by
  induction m with
  | nil => simp [incr, expand]
  | cons x m ih =>
    obtain ⟨kx, n⟩ := x
    by_cases hx : kx = k
    · subst hx
      simp [incr, expand, List.replicate_succ]
    · simp only [incr, hx, if_false, expand, List.flatMap_cons]
      have : (List.replicate n kx ++ expand (incr k m)).Perm (List.replicate n kx ++ k :: expand m) :=
        List.Perm.append_left _ ih
      exact this.trans List.perm_middle

theorem countMap_props (m0 : List (κ × Nat)) (ks : List κ) (hn : KeysNodup m0) (hp : AllPos m0) :
    KeysNodup (countMap m0 ks) ∧ AllPos (countMap m0 ks) ∧ (expand (countMap m0 ks)).Perm (expand m0 ++ ks) := by
  induction ks generalizing m0 with
  | nil => simp [countMap, hn, hp]
  | cons k ks ih =>
    have := ih (incr k m0) (incr_nodup k m0 hn) (incr_pos k m0 hp)
    refine ⟨this.1, this.2.1, ?_⟩
    have h1 : (expand (incr k m0) ++ ks).Perm ((k :: expand m0) ++ ks) := List.Perm.append_right _ (expand_incr k m0)
    have h2 : ((k :: expand m0) ++ ks).Perm (expand m0 ++ k :: ks) := by
      simpa using (List.perm_middle (a := k) (l₁ := expand m0) (l₂ := ks)).symm
    exact this.2.2.trans (h1.trans h2)

theorem expand_filter (p : κ → Bool) (m : List (κ × Nat)) :
    expand (m.filter fun kc => p kc.1) = (expand m).filter p := by
  induction m with
  | nil => rfl
  | cons x m ih =>
    obtain ⟨k, n⟩ := x
    by_cases h : p k = true
    · simp [List.filter_cons, h, expand, List.filter_append] at *
      rw [ih]
    · have h' : p k = false := by simpa using h
      simp [List.filter_cons, h', expand, List.filter_append] at *
      rw [ih]

end counting

/-! ## TwoSourceAggregator -/

/-- (tally bin, group source) of the documents without the field, in document order -/
def twoK1 (pb : Bool) (evs : List Ev) : List (Nat × Nat) :=
  evs.filterMap fun ev => if ev.f.isNone then ev.g.map fun g => (missingBin pb ev.bin, g) else none

/-- (bin, group source, field source) of the documents that carry both, in document order -/
def twoK2 (evs : List Ev) : List (Nat × Nat × Nat) :=
  evs.filterMap fun ev => match ev.g, ev.f with | some g, some f => some (ev.bin, g, f) | _, _ => none

/-- the three tallies after `Next` over all documents -/
theorem twoStep_fold (pb : Bool) (evs : List Ev) (st : TwoSt) :
    evs.foldl (twoStep pb) st =
      ⟨st.groupNotExists + (evs.filter fun ev => ev.g.isNone && ev.f.isSome).length,
       countMap st.groupByNotExists (twoK1 pb evs), countMap st.countBySource (twoK2 evs)⟩ := by
  unfold twoK1 twoK2
  induction evs generalizing st with
  | nil => simp [countMap]
  | cons ev evs ih =>
    simp only [List.foldl_cons]
    rw [ih]
    cases hg : ev.g <;> cases hf : ev.f <;>
      simp [twoStep, hg, hf, countMap, List.filter_cons, List.filterMap_cons, Nat.add_assoc, Nat.add_comm 1]

/-- second loop seen from one bin: the entries that land in it are inserted one after the other -/
theorem twoIns_rep (lim : Nat) (pick : List Int → Nat) (collect : Bool) (es : List ((Nat × Nat × Nat) × Int × Nat))
    (xs : List Int) (ne : Nat) (c : SC) (h : Rep xs ne collect c) (hpos : ∀ e, e ∈ es → 0 < e.2.2)
    (hl : collect = true → xs.length + (es.flatMap fun e => List.replicate e.2.2 e.2.1).length ≤ lim) :
    Rep (xs ++ es.flatMap fun e => List.replicate e.2.2 e.2.1) ne collect
      (es.foldl (fun c e => twoIns lim pick collect e.2.1 e.2.2 c) c) := by
  induction es generalizing xs c with
  | nil => simpa using h
  | cons e es ih =>
    simp only [List.foldl_cons, List.flatMap_cons]
    have h' : Rep (xs ++ List.replicate e.2.2 e.2.1) ne collect (twoIns lim pick collect e.2.1 e.2.2 c) := by
      unfold twoIns
      exact Rep.insert h e.2.1 e.2.2 (hpos e (by simp))
        (by intro hc; have := hl hc; simp at this ⊢; omega)
    have := ih _ _ h' (fun e' he' => hpos e' (List.mem_cons_of_mem _ he'))
      (by intro hc; have := hl hc; simp at this ⊢; omega)
    simpa [List.append_assoc] using this

end SV.Agg

namespace SV.Agg

theorem twoParse_ok (fval : Nat → Option Int) (entries : List ((Nat × Nat × Nat) × Nat))
    (h : ∀ kc, kc ∈ entries → (fval kc.1.2.2).isSome = true) :
    twoParse fval entries = some (entries.map fun kc => (kc.1, (fval kc.1.2.2).getD 0, kc.2)) := by
  unfold twoParse
  induction entries with
  | nil => rfl
  | cons kc es ih =>
    have h1 := h kc (by simp)
    have h2 := ih (fun x hx => h x (List.mem_cons_of_mem _ hx))
    cases hv : fval kc.1.2.2 with
    | none => simp [hv] at h1
    | some num =>
      rw [List.mapM_cons, hv]
      simp only [Option.map_some, Option.bind_eq_bind]
      rw [h2]; simp [hv]

theorem filter_key_le_one {κ : Type} [DecidableEq κ] (m : List (κ × Nat)) (h : KeysNodup m) (k : κ) :
    (m.filter fun kc => kc.1 = k) = [] ∨ ∃ c, (m.filter fun kc => kc.1 = k) = [(k, c)] := by
  induction m with
  | nil => left; rfl
  | cons x m ih =>
    obtain ⟨kx, n⟩ := x
    have h' : kx ∉ m.map (·.1) ∧ KeysNodup m := by simpa [KeysNodup] using h
    by_cases hx : kx = k
    · subst hx
      right
      refine ⟨n, ?_⟩
      have : m.filter (fun kc => kc.1 = kx) = [] := by
        rw [List.filter_eq_nil_iff]
        intro a ha; simp only [decide_eq_true_eq]
        intro e; exact h'.1 (by rw [← e]; exact List.mem_map_of_mem ha)
      simp [List.filter_cons, this]
    · simpa [List.filter_cons, hx] using ih h'.2

theorem expand_map {κ β : Type} (h : κ → β) (m : List (κ × Nat)) :
    (expand m).map h = m.flatMap fun kc => List.replicate kc.2 (h kc.1) := by
  induction m with
  | nil => rfl
  | cons x m ih => simp [expand, List.flatMap_cons, ← ih]

/-- the documents of bin `m` and group source `g` that carry the field -/
def twoDocs (m g : Nat) (evs : List Ev) : List Ev :=
  evs.filter fun ev => ev.bin = m ∧ ev.g = some g ∧ ev.f.isSome

/-- the documents of group source `g` without the field that are tallied under bin `m` -/
def twoMissing (pb : Bool) (m g : Nat) (evs : List Ev) : Nat :=
  (evs.filter fun ev => missingBin pb ev.bin = m ∧ ev.g = some g ∧ ev.f.isNone).length

theorem twoKeys_filter (fv : Nat → Int) (m g : Nat) (evs : List Ev) :
    ((twoK2 evs).filter fun key => key.1 = m ∧ key.2.1 = g).map (fun key => fv key.2.2) = evVals fv (twoDocs m g evs) := by
  unfold twoK2
  induction evs with
  | nil => rfl
  | cons ev evs ih =>
    cases hg : ev.g <;> cases hf : ev.f <;>
      simp [List.filterMap_cons, hg, hf, twoDocs, List.filter_cons, evVals] at ih ⊢
    · exact ih
    · exact ih
    · exact ih
    · rename_i g' f'
      by_cases h1 : ev.bin = m <;> by_cases h2 : g' = g <;> simp [h1, h2, ih, List.filterMap_cons, hf]

theorem missingKeys_filter (pb : Bool) (m g : Nat) (evs : List Ev) :
    ((twoK1 pb evs).filter fun k => k = (m, g)).length = twoMissing pb m g evs := by
  unfold twoK1 twoMissing
  induction evs with
  | nil => rfl
  | cons ev evs ih =>
    cases hg : ev.g <;> cases hf : ev.f <;>
      simp [List.filterMap_cons, hg, hf, List.filter_cons] at ih ⊢
    · exact ih
    · exact ih
    · rename_i g'
      by_cases h1 : missingBin pb ev.bin = m <;> by_cases h2 : g' = g <;> simp [h1, h2, ih]
    · exact ih

end SV.Agg
