import SeqVerif.Model.WritePathInv
/-!
# C01 - the store's `Bulk` handler chain

`storeapi.GrpcV1.Bulk` -> `doBulk` -> `fracmanager.FracManager.Append` (retry loop) -> `proxyFrac.Append` ->
`frac.Active.Append`, statement by statement:

* `Bulk`: `err := g.doBulk(ctx, req); ...; return &g.blank, err` - the answer is OK iff `doBulk` returned nil;
* `doBulk`: `req.Count == 0` -> protocol error; more in-flight bulks than `Bulk.RequestsLimit` -> error; otherwise
  the result of `g.fracManager.Append(ctx, req.Docs, req.Metas)`;
* `FracManager.Append`: `for { select { case <-ctx.Done(): return ctx.Err(); default: if fm.Writer().Append(docs,
  metas) == nil { return nil } } }` - the context is looked at before every try; a refused try is repeated;
* one try (`proxyFrac.Append`): the writer fraction is not writable (being sealed) -> refused, nothing written; otherwise
  `Active.Append(docs, metas)` with exactly these two blocks: `ActiveWriter.Write` + index = an acknowledged bulk of
  the write-path model (`WPath.Ev.bulk`).  I/O errors of the write are outside C01's crash model.

What the environment decides is an `Env`: the state of the context at each look, the outcome of each try, the number
of bulks in flight.  The loop has no bound in the code; `fuel` bounds the model's, `spinning` = still retrying.
Core-only.
-/
namespace SV.BulkH

inductive Try where
  | notWritable          -- proxyFrac.Append: "fraction is not writable"
  | acked                -- Active.Append returned nil
deriving DecidableEq, Repr

structure Env where
  ctxDone : Nat → Bool     -- `<-ctx.Done()` is ready at the i-th look (i = number of tries made so far)
  tries : Nat → Try        -- outcome of the i-th `fm.Writer().Append`
  inflight : Nat           -- g.inflightBulks after the increment
  limit : Nat              -- config.Bulk.RequestsLimit

inductive Out where
  | ok (attempt : Nat)     -- nil: the attempt with this index was acknowledged
  | ctxErr                 -- ctx.Err()
  | protoErr               -- "wrong protocol, count=0"
  | limitErr               -- "too many bulk requests"
  | spinning               -- still in the retry loop after `fuel` tries
deriving DecidableEq, Repr

/-- `FracManager.Append` from its i-th look at the context on -/
def fmAppend : Nat → Env → Nat → Out
  | 0, _, _ => .spinning
  | fuel + 1, e, i =>
    if e.ctxDone i then .ctxErr
    else
      match e.tries i with
      | .acked => .ok i
      | .notWritable => fmAppend fuel e (i + 1)

/-- `GrpcV1.doBulk` -/
def doBulk (fuel count : Nat) (e : Env) : Out :=
  if count = 0 then .protoErr
  else if e.limit < e.inflight then .limitErr
  else fmAppend fuel e 0

/-- `GrpcV1.Bulk` answers OK (nil error) exactly when `doBulk` returned nil -/
def answersOK : Out → Bool
  | .ok _ => true
  | _ => false

theorem fmAppend_ok (fuel : Nat) (e : Env) (i k : Nat) :
    fmAppend fuel e i = .ok k ↔
      i ≤ k ∧ k < i + fuel ∧ e.tries k = .acked ∧ (∀ j, i ≤ j → j < k → e.tries j = .notWritable) ∧
        ∀ j, i ≤ j → j ≤ k → e.ctxDone j = false := by
  induction fuel generalizing i with
  | zero => simp [fmAppend]; intro h1 h2; omega
  | succ fuel ih =>
    simp only [fmAppend]
    by_cases hc : e.ctxDone i = true
    · simp only [hc, if_true]
      constructor
      · intro h; cases h
      · intro ⟨h1, _, _, _, h5⟩
        have := h5 i (Nat.le_refl _) h1
        rw [hc] at this; cases this
    · have hc' : e.ctxDone i = false := by simpa using hc
      simp only [hc', Bool.false_eq_true, if_false]
      cases ht : e.tries i with
      | acked =>
        simp only [Out.ok.injEq]
        constructor
        · intro h; subst h
          exact ⟨Nat.le_refl _, by omega, ht, fun j h1 h2 => by omega, fun j h1 h2 => by
            have : j = i := by omega
            subst this; exact hc'⟩
        · intro ⟨h1, _, _, h4, _⟩
          rcases Nat.lt_or_ge i k with h | h
          · have := h4 i (Nat.le_refl _) h
            rw [ht] at this; cases this
          · omega
      | notWritable =>
        simp only
        rw [ih]
        constructor
        · intro ⟨h1, h2, h3, h4, h5⟩
          refine ⟨by omega, by omega, h3, ?_, ?_⟩
          · intro j hj1 hj2
            rcases Nat.lt_or_ge i j with h | h
            · exact h4 j h hj2
            · have : j = i := by omega
              subst this; exact ht
          · intro j hj1 hj2
            rcases Nat.lt_or_ge i j with h | h
            · exact h5 j h hj2
            · have : j = i := by omega
              subst this; exact hc'
        · intro ⟨h1, h2, h3, h4, h5⟩
          have hne : i ≠ k := by
            intro h; subst h; rw [ht] at h3; cases h3
          exact ⟨by omega, by omega, h3, fun j a b => h4 j (by omega) b, fun j a b => h5 j (by omega) b⟩

/-! ## what a call does to the store -/

/-- one thing that happens to a store: a `Bulk` call served by the handler, a crash inside a bulk (the caller never
gets an answer), a restart -/
inductive Item where
  | call (count : Nat) (d m : WPath.Blk) (e : Env) (fuel : Nat)
  | crashed (d m : WPath.Blk) (pt : WPath.CrashPt)
  | restart

/-- the write-path events of the store: a call contributes an acknowledged bulk of exactly the request's two blocks
when (and only when) one of its tries was acknowledged -/
def effect : Item → List WPath.Ev
  | .call count d m e fuel => if answersOK (doBulk fuel count e) then [.bulk d m] else []
  | .crashed d m pt => [.tornBulk d m pt]
  | .restart => [.restart]

def histOf (items : List Item) : List WPath.Ev := items.flatMap effect

theorem ackedOf_append (a b : List WPath.Ev) : WPath.ackedOf (a ++ b) = WPath.ackedOf a ++ WPath.ackedOf b := by
  induction a with
  | nil => rfl
  | cons e a ih => cases e <;> simp [WPath.ackedOf, ih]

end SV.BulkH
