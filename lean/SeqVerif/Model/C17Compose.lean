import SeqVerif.Model.DedupLemmas
import SeqVerif.Proofs.C03FracProofs
import SeqVerif.Model.WritePathInv
/-!
# C17 composed with C03 (sealing) and C01 (replay) - glue definitions and lemmas

* C03's `SV.C03.Active` is the quiescent active fraction *as the sealer and the data provider read it*: `MIDs`/`RIDs`,
  the all-documents posting list and, per field, the tokens with their sorted posting lists.  All of it is read
  from exactly the two things `SV.Collector.Same` compares: the id table and the token queues.  A `View` is any such
  reading; `viewC03` is the concrete one (`GetLIDs`: sort by descending id then LID, drop equal LIDs).
* C01's store state carries `idx : List Entry`, the blocks handed to the index worker (after a restart: by `Replay`).
  `fracOfEntries` is the active fraction the index worker derives from them (`dec` = decompression + record loop).
C03 / C01 modules are imported read-only.
-/
namespace SV.C17Compose
open SV.Collector

/-- a reading of the quiescent index state: id table and token queues -> what `Seal` / the data provider see -/
abbrev View := List ID → (Bytes → List Nat) → SV.C03.Active

theorem view_congr (view : View) (a a' : Active) (h : Same a a') :
    view a.ids (queue a) = view a'.ids (queue a') := by
  have hq : queue a = queue a' := funext h.2.1
  rw [h.1, hq]

/-! ## the concrete reading -/

/-- all-documents order: descending id, then descending LID (`queueIDs.Less`) -/
def lidBefore (ids : List ID) (l l' : Nat) : Bool :=
  let a := ids.getD l (0, 0)
  let b := ids.getD l' (0, 0)
  a.1 > b.1 || (a.1 == b.1 && (a.2 > b.2 || (a.2 == b.2 && l ≥ l')))

def insertBy (before : Nat → Nat → Bool) (x : Nat) : List Nat → List Nat
  | [] => [x]
  | y :: ys => if before x y then x :: y :: ys else y :: insertBy before x ys

def dedup : List Nat → List Nat
  | [] => []
  | x :: xs => if x ∈ dedup xs then dedup xs else x :: dedup xs

/-- `TokenLIDs.GetLIDs`: the queued LIDs sorted, equal LIDs merged -/
def getLIDs (ids : List ID) (q : List Nat) : List Nat := (dedup q).foldr (insertBy (lidBefore ids)) []

/-- `U`: per field (sorted) its tokens (sorted) as (full `key:value` bytes, value bytes) -/
def viewC03 (U : List (List (Bytes × SV.C03.Tok))) : View := fun ids queue =>
  { mids := ids.map (·.1), rids := ids.map (·.2), allDocs := getLIDs ids (queue allToken),
    fields := U.map fun fl => fl.filterMap fun tv =>
      if queue tv.1 = [] then none else some ⟨tv.2, getLIDs ids (queue tv.1)⟩ }

/-! ## replay -/

/-- the active fraction the index worker builds from the blocks it is handed, in order -/
def fracOfEntries (dec : Bytes → List Meta) (es : List SV.WPath.Entry) : Active :=
  run Active.empty (es.map fun e => dec e.blk)

/-- C01 (`c01_restart_transparent`, re-derived from the same lemmas): a restart between two bulks leaves exactly
the store that never went down - in particular `Replay` hands the indexer the same entries in the same order -/
theorem restart_same_store (h1 h2 : List SV.WPath.Ev) (hwf : ∀ e ∈ h1, e.WF) :
    SV.WPath.run true SV.WPath.init (h1 ++ .restart :: h2) = SV.WPath.run true SV.WPath.init (h1 ++ h2) := by
  have hinv := SV.WPath.run_fixed h1 SV.WPath.init [] SV.WPath.inv_init hwf
  have hr : SV.WPath.restart true (SV.WPath.run true SV.WPath.init h1).docs (SV.WPath.run true SV.WPath.init h1).mfile
      = SV.WPath.run true SV.WPath.init h1 :=
    SV.WPath.InvD_unique _ _ _ (SV.WPath.restart_inv _ [] [] _ _ hinv.wf (.inl rfl) hinv.docs hinv.mfile).2 hinv
  simp only [SV.WPath.run, List.foldl_append, List.foldl_cons, SV.WPath.step] at hr ⊢
  rw [hr]

end SV.C17Compose
