import SeqVerif.Model.DedupLemmas
import SeqVerif.Proofs.C03FracProofs
import SeqVerif.Model.WritePathInv
import SeqVerif.Model.WPConcurrent
import SeqVerif.Model.FetchArrange
/-!
# C17 composed with C03 (sealing) and C01 (replay) - glue definitions and lemmas

* C03's `SV.C03.Active` is the quiescent active fraction *as the sealer and the data provider read it*: `MIDs`/`RIDs`,
  the all-documents posting list and, per field, the tokens with their sorted posting lists.  All of it is read
  from exactly the two things `SV.Collector.Same` compares: the id table and the token queues.  A `View` is any such
  reading; `viewC03` is the concrete one (`GetLIDs`: sort by descending id then LID, drop equal LIDs).
* C01's store state carries `idx : List Entry`, the blocks handed to the index worker (after a restart: by `Replay`).
  `fracOfEntries` is the active fraction the index worker derives from them (`dec` = decompression + record loop).
C03 / C01 modules are imported read-only.
-/
namespace SV.C17Compose
open SV.Collector

/-- a reading of the quiescent index state: id table and token queues -> what `Seal` / the data provider see -/
abbrev View := List ID → (Bytes → List Nat) → SV.C03.Active

theorem view_congr (view : View) (a a' : Active) (h : Same a a') :
    view a.ids (queue a) = view a'.ids (queue a') := by
  have hq : queue a = queue a' := funext h.2.1
  rw [h.1, hq]

/-! ## the concrete reading -/

/-- all-documents order: descending id, then descending LID (`queueIDs.Less`) -/
def lidBefore (ids : List ID) (l l' : Nat) : Bool :=
  let a := ids.getD l (0, 0)
  let b := ids.getD l' (0, 0)
  a.1 > b.1 || (a.1 == b.1 && (a.2 > b.2 || (a.2 == b.2 && l ≥ l')))

def insertBy (before : Nat → Nat → Bool) (x : Nat) : List Nat → List Nat
  | [] => [x]
  | y :: ys => if before x y then x :: y :: ys else y :: insertBy before x ys

def dedup : List Nat → List Nat
  | [] => []
  | x :: xs => if x ∈ dedup xs then dedup xs else x :: dedup xs

/-- `TokenLIDs.GetLIDs`: the queued LIDs sorted, equal LIDs merged -/
def getLIDs (ids : List ID) (q : List Nat) : List Nat := (dedup q).foldr (insertBy (lidBefore ids)) []

/-- `U`: per field (sorted) its tokens (sorted) as (full `key:value` bytes, value bytes) -/
def viewC03 (U : List (List (Bytes × SV.C03.Tok))) : View := fun ids queue =>
  { mids := ids.map (·.1), rids := ids.map (·.2), allDocs := getLIDs ids (queue allToken),
    fields := U.map fun fl => fl.filterMap fun tv =>
      if queue tv.1 = [] then none else some ⟨tv.2, getLIDs ids (queue tv.1)⟩ }

/-! ## replay -/

/-- the active fraction the index worker builds from the blocks it is handed, in order -/
def fracOfEntries (dec : Bytes → List Meta) (es : List SV.WPath.Entry) : Active :=
  run Active.empty (es.map fun e => dec e.blk)

/-- C01 (`c01_restart_transparent`, re-derived from the same lemmas): a restart between two bulks leaves exactly
the store that never went down - in particular `Replay` hands the indexer the same entries in the same order -/
theorem restart_same_store (h1 h2 : List SV.WPath.Ev) (hwf : ∀ e ∈ h1, e.WF) :
    SV.WPath.run true SV.WPath.init (h1 ++ .restart :: h2) = SV.WPath.run true SV.WPath.init (h1 ++ h2) := by
  have hinv := SV.WPath.run_fixed h1 SV.WPath.init [] SV.WPath.inv_init hwf
  have hr : SV.WPath.restart true (SV.WPath.run true SV.WPath.init h1).docs (SV.WPath.run true SV.WPath.init h1).mfile
      = SV.WPath.run true SV.WPath.init h1 :=
    SV.WPath.InvD_unique _ _ _ (SV.WPath.restart_inv _ [] [] _ _ hinv.wf (.inl rfl) hinv.docs hinv.mfile).2 hinv
  simp only [SV.WPath.run, List.foldl_append, List.foldl_cons, SV.WPath.step] at hr ⊢
  rw [hr]

/-- the store after any well-formed history is a fixpoint of the (repaired) start-up: restarting it changes nothing -/
theorem restart_fixpoint (h : List SV.WPath.Ev) (hwf : ∀ e ∈ h, e.WF) :
    SV.WPath.restart true (SV.WPath.run true SV.WPath.init h).docs (SV.WPath.run true SV.WPath.init h).mfile
      = SV.WPath.run true SV.WPath.init h := by
  have hinv := SV.WPath.run_fixed h SV.WPath.init [] SV.WPath.inv_init hwf
  exact SV.WPath.InvD_unique _ _ _ (SV.WPath.restart_inv _ [] [] _ _ hinv.wf (.inl rfl) hinv.docs hinv.mfile).2 hinv

theorem run_not_panicked (h : List SV.WPath.Ev) (hwf : ∀ e ∈ h, e.WF) :
    (SV.WPath.run true SV.WPath.init h).panicked = false :=
  (SV.WPath.run_fixed h SV.WPath.init [] SV.WPath.inv_init hwf).up

/-- two concurrent `ActiveWriter.Write` calls under the mutex (`SV.WPath.crun true`, C01's `serial_run` /
`c01_mutex_serialises`), both finished: the store is the store of a history that ends with the two bulks in one of
the two orders -/
theorem concurrent_writers_serial (h : List SV.WPath.Ev) (hwf : ∀ e ∈ h, e.WF) (a b : SV.WPath.Blk × SV.WPath.Blk)
    (sched : List Bool)
    (hfin : (SV.WPath.crun true (SV.WPath.enc a.1) (SV.WPath.enc a.2) (SV.WPath.enc b.1) (SV.WPath.enc b.2)
      (SV.WPath.cinit (SV.WPath.run true SV.WPath.init h)) sched).pa = 3 ∧
      (SV.WPath.crun true (SV.WPath.enc a.1) (SV.WPath.enc a.2) (SV.WPath.enc b.1) (SV.WPath.enc b.2)
      (SV.WPath.cinit (SV.WPath.run true SV.WPath.init h)) sched).pb = 3) :
    (SV.WPath.crun true (SV.WPath.enc a.1) (SV.WPath.enc a.2) (SV.WPath.enc b.1) (SV.WPath.enc b.2)
      (SV.WPath.cinit (SV.WPath.run true SV.WPath.init h)) sched).st
        = SV.WPath.run true SV.WPath.init (h ++ [.bulk a.1 a.2, .bulk b.1 b.2]) ∨
    (SV.WPath.crun true (SV.WPath.enc a.1) (SV.WPath.enc a.2) (SV.WPath.enc b.1) (SV.WPath.enc b.2)
      (SV.WPath.cinit (SV.WPath.run true SV.WPath.init h)) sched).st
        = SV.WPath.run true SV.WPath.init (h ++ [.bulk b.1 b.2, .bulk a.1 a.2]) := by
  have hs := SV.WPath.serial_run (SV.WPath.run true SV.WPath.init h) (SV.WPath.enc a.1) (SV.WPath.enc a.2)
    (SV.WPath.enc b.1) (SV.WPath.enc b.2) sched (SV.WPath.cinit _) (.inl ⟨rfl, rfl, rfl, rfl⟩)
  have hup := run_not_panicked h hwf
  have e1 : ∀ x y : SV.WPath.Blk × SV.WPath.Blk, SV.WPath.run true SV.WPath.init (h ++ [.bulk x.1 x.2, .bulk y.1 y.2])
      = SV.WPath.append (SV.WPath.append (SV.WPath.run true SV.WPath.init h) (SV.WPath.enc x.1) (SV.WPath.enc x.2))
          (SV.WPath.enc y.1) (SV.WPath.enc y.2) := by
    intro x y
    simp only [SV.WPath.run, List.foldl_append, List.foldl_cons, List.foldl_nil, SV.WPath.step]
    have hup' : (List.foldl (SV.WPath.step true) SV.WPath.init h).panicked = false := hup
    simp [hup', SV.WPath.append]
  rw [e1 a b, e1 b a]
  simp only [SV.WPath.Serial] at hs
  obtain ⟨ha, hb⟩ := hfin
  rcases hs with hs | hs | hs | hs | hs | hs | hs | hs | hs | hs | hs | hs <;>
    first
    | exact hs.2.2.2
    | exact absurd (ha.symm.trans hs.1) (by decide)
    | exact absurd (hb.symm.trans hs.2.1) (by decide)

end SV.C17Compose
