import SeqVerif.Model.ApiSearch
import SeqVerif.Model.SearchDocsTotals
/-!
Lemmas about the API boundary (C05): the proxy request, the store request and the store's parameters describe the same
`meaning`; `GrpcV1.Search` and `Ingestor.Search` implement it over any partition of the documents.
-/
namespace SV.Api
open SV SV.Merge SV.Go

/-- a fraction as the store holds it: `From ≤ mid ≤ To` for its documents, and it is not "fresh" when it has any -/
def RawFrac.OK (f : RawFrac) : Prop := (∀ d, d ∈ f.docs → f.from_ ≤ midOf d ∧ midOf d ≤ f.to_) ∧ (f.docs ≠ [] → f.docsTotal ≠ 0)

def inWin (from_ to_ : Nat) (d : Nat) : Bool := decide (from_ ≤ midOf d) && decide (midOf d ≤ to_)

/-- all matching documents of a store inside a window -/
def windowDocs (fs : List RawFrac) (from_ to_ : Nat) : List Nat := (fs.flatMap (·.docs)).filter (inWin from_ to_)

theorem docsOf_toFrac (fs : List RawFrac) (from_ to_ : Nat) :
    docsOf (fs.map (·.toFrac from_ to_)) = windowDocs fs from_ to_ := by
  unfold docsOf windowDocs
  induction fs with
  | nil => simp
  | cons f fs ih =>
    simp only [List.map_cons, List.flatMap_cons, List.filter_append, ih]
    rfl

/-- **proxy request → store request → store parameters = the meaning of the request** (no information is lost in
`int64(sr.From)` … `seq.MID(req.From)`, and every shard is asked for `offset+size`) -/
theorem params_of_valid (r : ProxyReq) (hv : r.valid) :
    ∃ sr p, apiRequest r = some sr ∧ storeParams sr = some p ∧
      p.from_ = (meaning r).from_ ∧ p.to_ = (meaning r).to_ ∧ p.limit = ((meaning r).offset + (meaning r).size : Nat) ∧
      p.hi = (meaning r).hi ∧ p.desc = (meaning r).desc ∧ p.withTotal = (meaning r).withTotal ∧ p.hasAgg = false := by
  obtain ⟨ho, hs, hof, hsum, hf, ht, hi⟩ := hv
  have hord : (r.order : Int) = 0 ∨ (r.order : Int) = 1 := by omega
  have h1 : apiRequest r = some ⟨wrapI64 r.from_, wrapI64 r.to_, r.size, r.offset, wrapI64 r.interval, r.withTotal, r.order, false⟩ := by
    simp [apiRequest, ho]
  have h2 : storeParams ⟨wrapI64 r.from_, wrapI64 r.to_, r.size, r.offset, wrapI64 r.interval, r.withTotal, r.order, false⟩
      = some ⟨(wrapU64 (wrapI64 r.from_)).toNat, (wrapU64 (wrapI64 r.to_)).toNat, wrapI64 (r.size + r.offset),
          (wrapU64 (wrapI64 r.interval)).toNat, r.withTotal, decide ((r.order : Int) = 0), false⟩ := by
    simp only [storeParams, hord, if_true]
  refine ⟨_, _, h1, h2, ?_, ?_, ?_, ?_, ?_, ?_, rfl⟩
  · simp only [meaning, wrapU64, wrapI64]; omega
  · simp only [meaning, wrapU64, wrapI64]; omega
  · simp only [meaning, wrapI64]; omega
  · simp only [meaning, wrapU64, wrapI64]; omega
  · simp only [meaning]
    by_cases h0 : r.order = 0
    · simp [h0]
    · have : ¬ ((r.order : Int) = 0) := by omega
      simp [h0]
  · simp [meaning]

theorem toFrac_inv (f : RawFrac) (hok : f.OK) (from_ to_ : Nat) : FracInv (f.toFrac from_ to_) := by
  intro d hd
  simp only [RawFrac.toFrac, List.mem_filter] at hd
  exact hok.1 d hd.1

theorem toFrac_vis (f : RawFrac) (hok : f.OK) (from_ to_ : Nat) (hne : (f.toFrac from_ to_).docs ≠ []) :
    isIntersecting (f.toFrac from_ to_) from_ to_ = true := by
  obtain ⟨d, hd⟩ := List.exists_mem_of_ne_nil _ hne
  have hd' := hd
  simp only [RawFrac.toFrac, List.mem_filter, Bool.and_eq_true, decide_eq_true_eq] at hd'
  apply isIntersecting_of_doc _ from_ to_ d (toFrac_inv f hok from_ to_) hd hd'.2
  exact hok.2 (List.ne_nil_of_mem hd'.1)

/-- **`GrpcV1.Search` over any partition**: a store that does not refuse answers with the first `size+offset`
distinct IDs (in the requested order) of all matching documents inside the request's window -/
theorem grpcSearch_ids (s : StoreCfg) (fs : List RawFrac) (sr : StoreReq) (p : Params)
    (hp : storeParams sr = some p) (hlim : 0 ≤ p.limit)
    (hhot : (s.hot && s.mature && (decide (s.oldestCT = 0) || decide (s.oldestCT > (wrapU64 sr.from_).toNat))) = false)
    (hok : ∀ f, f ∈ fs → f.OK)
    (hmax : s.maxHits = 0 ∨ (filterInRange (fs.map (·.toFrac p.from_ p.to_)) p.from_ p.to_).length ≤ s.maxHits) :
    ∃ q, grpcSearch s fs sr = .ok q ∧ q.ids = (sd p.desc (windowDocs fs p.from_ p.to_)).take p.limit.toNat := by
  have hinv : ∀ g, g ∈ fs.map (·.toFrac p.from_ p.to_) → FracInv g := by
    intro g hg
    rcases List.mem_map.mp hg with ⟨f, hf, rfl⟩
    exact toFrac_inv f (hok f hf) _ _
  have hvis : ∀ g, g ∈ fs.map (·.toFrac p.from_ p.to_) → g.docs ≠ [] → isIntersecting g p.from_ p.to_ = true := by
    intro g hg hne
    rcases List.mem_map.mp hg with ⟨f, hf, rfl⟩
    exact toFrac_vis f (hok f hf) _ _ hne
  obtain ⟨q, h1, h2⟩ := searchDocs_ids (p.cfg s) _ p.from_ p.to_ p.limit.toNat hinv hvis hmax
  refine ⟨q, ?_, by rw [h2, docsOf_toFrac]; rfl⟩
  unfold grpcSearch
  simp only [hhot, Bool.false_eq_true, if_false, hp]
  have : ¬ p.limit < 0 := by omega
  simp only [this, if_false, h1]

theorem collect_map_ok (qs : List QPR) : collect (qs.map Resp.ok) = some qs := by
  induction qs with
  | nil => rfl
  | cons q qs ih => simp [collect, ih]

theorem windowDocs_flatten (shards : List (List RawFrac)) (from_ to_ : Nat) :
    (shards.map (fun fs => windowDocs fs from_ to_)).flatten = windowDocs shards.flatten from_ to_ := by
  unfold windowDocs
  induction shards with
  | nil => simp
  | cons s ss ih => simp [List.flatMap_append, List.filter_append, ih]

/-- **`Ingestor.Search` over any shards × fractions**: for a valid request, when every shard's store answers (whatever
its `FractionsPerIteration`, whichever replica), the proxy returns the window `[offset, offset+size)` of the duplicate-free
ordered list of all matching documents inside the request's time range -/
theorem proxySearch_page (r : ProxyReq) (hv : r.valid) (shards : List (List RawFrac)) (cfgs : List StoreCfg)
    (hcfg : cfgs.length = shards.length)
    (hcold : ∀ s, s ∈ cfgs → s.hot = false ∧ s.maxHits = 0)
    (hok : ∀ fs, fs ∈ shards → ∀ f, f ∈ fs → f.OK) :
    ∃ sr q, apiRequest r = some sr ∧
      proxySearch r ((cfgs.zip shards).map fun cs => grpcSearch cs.1 cs.2 sr) = .ok q ∧
      q.ids = ((sd (meaning r).desc (windowDocs shards.flatten (meaning r).from_ (meaning r).to_)).drop (meaning r).offset).take
        (meaning r).size := by
  obtain ⟨sr, p, hsr, hp, hf, ht, hl, hhi, hd, hw, _⟩ := params_of_valid r hv
  refine ⟨sr, ?_⟩
  -- every shard answers
  have hans : ∀ cs, cs ∈ cfgs.zip shards → ∃ q, grpcSearch cs.1 cs.2 sr = .ok q ∧
      q.ids = (sd p.desc (windowDocs cs.2 p.from_ p.to_)).take p.limit.toNat := by
    intro cs hcs
    have hc := hcold cs.1 (List.of_mem_zip hcs).1
    exact grpcSearch_ids cs.1 cs.2 sr p hp (by omega) (by simp [hc.1]) (hok cs.2 (List.of_mem_zip hcs).2) (Or.inl hc.2)
  -- turn the answers into a list of QPRs
  have hex : ∃ qs : List QPR, ((cfgs.zip shards).map fun cs => grpcSearch cs.1 cs.2 sr) = qs.map Resp.ok ∧
      qs.map (·.ids) = (cfgs.zip shards).map (fun cs => (sd p.desc (windowDocs cs.2 p.from_ p.to_)).take p.limit.toNat) := by
    generalize cfgs.zip shards = l at hans
    induction l with
    | nil => exact ⟨[], rfl, rfl⟩
    | cons cs l ih =>
      obtain ⟨q, hq1, hq2⟩ := hans cs (by simp)
      obtain ⟨qs, h1, h2⟩ := ih (fun c hc => hans c (List.mem_cons_of_mem _ hc))
      exact ⟨q :: qs, by simp [hq1, h1], by simp [hq2, h2]⟩
  obtain ⟨qs, hqs1, hqs2⟩ := hex
  have hzip : (cfgs.zip shards).map (·.2) = shards := by
    rw [List.map_snd_zip]; omega
  have hids : qs.map (·.ids) = (shards.map (fun fs => windowDocs fs p.from_ p.to_)).map
      (fun d => (sd p.desc d).take ((meaning r).offset + (meaning r).size)) := by
    rw [hqs2]
    have hlimeq : p.limit.toNat = (meaning r).offset + (meaning r).size := by omega
    have e : (cfgs.zip shards).map (fun cs => (sd p.desc (windowDocs cs.2 p.from_ p.to_)).take p.limit.toNat)
        = ((cfgs.zip shards).map (·.2)).map (fun fs => (sd p.desc (windowDocs fs p.from_ p.to_)).take p.limit.toNat) := by
      rw [List.map_map]; rfl
    rw [e, hzip, List.map_map, hlimeq]
    rfl
  obtain ⟨ho, hs, hof, hsum, _, _, _⟩ := hv
  refine ⟨proxyMerge (decide (r.order = 0)) qs r.offset.toNat r.size.toNat r.interval, hsr, ?_, ?_⟩
  · unfold proxySearch
    have h1 : ¬ (r.size < 0 ∨ r.offset < 0) := by omega
    have h2 : ¬ wrapI64 (r.offset + r.size) < 0 := by simp only [wrapI64]; omega
    simp only [h1, if_false, hsr, Option.isNone_some, Bool.false_eq_true, hqs1, collect_map_ok, h2]
    have ha : ∀ (x : Resp), (qs.map Resp.ok).any (· == x) = true → ∃ q, x = Resp.ok q := by
      intro x hx
      simp only [List.any_eq_true, List.mem_map, beq_iff_eq] at hx
      obtain ⟨y, ⟨q, _, rfl⟩, rfl⟩ := hx
      exact ⟨q, rfl⟩
    have n1 : (qs.map Resp.ok).any (· == Resp.tooManyFractions) = false := by
      cases h : (qs.map Resp.ok).any (· == Resp.tooManyFractions) with
      | false => rfl
      | true => obtain ⟨q, hq⟩ := ha _ h; cases hq
    have n2 : (qs.map Resp.ok).any (· == Resp.panic) = false := by
      cases h : (qs.map Resp.ok).any (· == Resp.panic) with
      | false => rfl
      | true => obtain ⟨q, hq⟩ := ha _ h; cases hq
    simp only [n1, n2, Bool.false_eq_true, if_false]
  · have := proxyMerge_ids (decide (r.order = 0)) (shards.map (fun fs => windowDocs fs p.from_ p.to_)) qs
      r.offset.toNat r.size.toNat r.interval (by
        rw [hids]
        have e : p.desc = decide (r.order = 0) := by rw [hd]; rfl
        simp [meaning, e])
    rw [this, windowDocs_flatten, hf, ht]
    rfl

end SV.Api
