/-!
# C20 - the fields filter of a fetch (`storeapi/grpc_fetch.go: docFieldsFilter.filterFields`)

A decoded document is the ordered list of its top-level fields; a field is `(tag, key, val)` where `tag` is the
identity of the insane-json node (its position in the stored document), `key` the unescaped name and `val` the
value, opaque (insane-json appends value bytes verbatim when it re-encodes).
`swapRemove` is insane-json's `Node.Suicide` on an object field: the last field moves into the hole.
Block-list mode: `for field in Fields { decoder.Dig(field).Suicide() }` - `Dig` finds the first field with that
name (linear scan; objects above 16 fields use a name->index map, the same thing when names are unique).
Allow-list mode: collect the value nodes of `AsFields()` whose name is not listed, then `Suicide` each.
-/
namespace SV.Fields
set_option linter.unusedSectionVars false

structure Fld (K V : Type) where
  tag : Nat
  key : K
  val : V
deriving DecidableEq, Repr

/-- insane-json `Suicide` of the object field at index `i` -/
def swapRemove {α : Type} (l : List α) (i : Nat) : List α :=
  match l.getLast? with
  | none => l
  | some last =>
    if i + 1 = l.length then l.dropLast
    else if i < l.length then (l.set i last).dropLast
    else l

variable {K V : Type} [DecidableEq K]

/-- `decoder.Dig(field)`: index of the first field named `k` -/
def digIdx (doc : List (Fld K V)) (k : K) : Option Nat := doc.findIdx? fun f => f.key = k

/-- `decoder.Dig(field).Suicide()` (a missing field is a nil node, `Suicide` on nil does nothing) -/
def exceptStep (doc : List (Fld K V)) (k : K) : List (Fld K V) :=
  match digIdx doc k with
  | some i => swapRemove doc i
  | none => doc

/-- block-list mode -/
def filterExcept (fields : List K) (doc : List (Fld K V)) : List (Fld K V) := fields.foldl exceptStep doc

/-- `node.Suicide()` for a collected node: it is found again by identity (`findSelf`) -/
def removeTag (doc : List (Fld K V)) (t : Nat) : List (Fld K V) :=
  match doc.findIdx? fun f => f.tag = t with
  | some i => swapRemove doc i
  | none => doc

/-- allow-list mode -/
def filterAllow (fields : List K) (doc : List (Fld K V)) : List (Fld K V) :=
  ((doc.filter fun f => !fields.contains f.key).map (·.tag)).foldl removeTag doc

inductive Out (K V : Type) where
  /-- the stored bytes are returned as they are -/
  | verbatim
  /-- the document is re-encoded from these fields -/
  | encoded (fs : List (Fld K V))
deriving Repr

/-- `filterFields`: `emptyDoc` = `len(doc) == 0` (not found), `isObject` = the bytes decode and are an object -/
def filterFields (allowList : Bool) (fields : List K) (emptyDoc isObject : Bool) (doc : List (Fld K V)) : Out K V :=
  if fields.isEmpty ∨ emptyDoc then .verbatim
  else if !isObject then .verbatim
  else if allowList then .encoded (filterAllow fields doc)
  else .encoded (filterExcept fields doc)

/-- `tryParseFieldsFilter`: the first `fields` pipe of the parsed query decides; `none` = no filtering.
A pipe is `some (fields, except)` for a `fields` pipe and `none` for any other kind. -/
def firstFieldsPipe (pipes : List (Option (List K × Bool))) : Option (List K × Bool) :=
  match pipes.find? Option.isSome with
  | some (some (fs, except)) => some (fs, !except)
  | _ => none

/-! ## swap-remove removes exactly one element -/

theorem swapRemove_perm {α : Type} (l : List α) (i : Nat) (h : i < l.length) :
    (l[i] :: swapRemove l i).Perm l := by
  unfold swapRemove
  cases hl : l.getLast? with
  | none =>
    have : l = [] := List.getLast?_eq_none_iff.mp hl
    subst this; cases h
  | some last =>
    obtain ⟨ys, rfl⟩ := List.getLast?_eq_some_iff.mp hl
    dsimp only
    by_cases hi : i + 1 = (ys ++ [last]).length
    · rw [if_pos hi, List.dropLast_concat]
      have hiy : i = ys.length := by simp at hi; omega
      subst hiy
      simp only [List.getElem_append_right (Nat.le_refl _), Nat.sub_self, List.getElem_cons_zero]
      exact (List.perm_append_comm (l₁ := [last]) (l₂ := ys))
    · rw [if_neg hi, if_pos h]
      have hiy : i < ys.length := by simp at h hi; omega
      rw [List.set_append_left _ _ hiy, List.dropLast_concat, List.getElem_append_left hiy]
      rw [List.set_eq_take_append_cons_drop, if_pos hiy]
      have hys : ys = ys.take i ++ ys[i] :: ys.drop (i + 1) := by
        rw [List.getElem_cons_drop, List.take_append_drop]
      conv => rhs; rw [hys]
      rw [List.append_assoc]
      refine (List.perm_middle.symm).trans ?_
      apply List.Perm.append_left
      simp only [List.cons_append]
      apply List.Perm.cons
      exact (List.perm_append_comm (l₁ := [last]) (l₂ := ys.drop (i + 1)))

theorem swapRemove_mem {α : Type} (l : List α) (i : Nat) (h : i < l.length) (hnd : l.Nodup) (x : α) :
    x ∈ swapRemove l i ↔ x ∈ l ∧ x ≠ l[i] := by
  have hp := swapRemove_perm l i h
  have hnd' : (l[i] :: swapRemove l i).Nodup := (hp.nodup_iff).mpr hnd
  rw [List.nodup_cons] at hnd'
  constructor
  · intro hx
    refine ⟨(hp.mem_iff).mp (List.mem_cons_of_mem _ hx), ?_⟩
    intro heq; subst heq; exact hnd'.1 hx
  · rintro ⟨hx, hne⟩
    rcases List.mem_cons.mp ((hp.mem_iff).mpr hx) with heq | hm
    · exact absurd heq hne
    · exact hm

theorem swapRemove_nodup {α : Type} (l : List α) (i : Nat) (hnd : l.Nodup) : (swapRemove l i).Nodup := by
  by_cases h : i < l.length
  · have hp := swapRemove_perm l i h
    have hnd' : (l[i] :: swapRemove l i).Nodup := (hp.nodup_iff).mpr hnd
    exact (List.nodup_cons.mp hnd').2
  · unfold swapRemove
    cases l.getLast? with
    | none => exact hnd
    | some last =>
      dsimp only
      rw [if_neg (by omega), if_neg h]; exact hnd

/-! ## block-list mode -/

theorem exceptStep_nodup (doc : List (Fld K V)) (k : K) (hnd : doc.Nodup) : (exceptStep doc k).Nodup := by
  unfold exceptStep
  cases digIdx doc k with
  | none => exact hnd
  | some i => exact swapRemove_nodup doc i hnd

/-- with unique names, one step removes exactly the field named `k` -/
theorem exceptStep_mem (doc : List (Fld K V)) (k : K) (hnd : doc.Nodup) (hkeys : (doc.map (·.key)).Nodup)
    (x : Fld K V) : x ∈ exceptStep doc k ↔ x ∈ doc ∧ x.key ≠ k := by
  unfold exceptStep digIdx
  cases hf : doc.findIdx? (fun f => decide (f.key = k)) with
  | none =>
    dsimp only
    have hnone := List.findIdx?_eq_none_iff.mp hf
    constructor
    · intro hx
      exact ⟨hx, by have := hnone x hx; simpa using this⟩
    · exact fun h => h.1
  | some i =>
    dsimp only
    obtain ⟨hi, hki, _⟩ := List.findIdx?_eq_some_iff_getElem.mp hf
    have hki' : doc[i].key = k := by simpa using hki
    rw [swapRemove_mem doc i hi hnd]
    constructor
    · rintro ⟨hx, hne⟩
      refine ⟨hx, fun hk => hne ?_⟩
      -- two fields with the same name are the same field
      rcases List.getElem_of_mem hx with ⟨j, hj, rfl⟩
      have hinj := List.pairwise_iff_getElem.mp (List.nodup_iff_pairwise_ne.mp hkeys)
      by_cases hji : j = i
      · subst hji; rfl
      · exfalso
        rcases Nat.lt_or_gt_of_ne hji with hlt | hgt
        · exact hinj j i (by simpa using hj) (by simpa using hi) hlt (by simp [hk, hki'])
        · exact hinj i j (by simpa using hi) (by simpa using hj) hgt (by simp [hk, hki'])
    · rintro ⟨hx, hne⟩
      exact ⟨hx, fun heq => hne (by rw [heq]; exact hki')⟩

theorem exceptStep_keys_nodup (doc : List (Fld K V)) (k : K) (hkeys : (doc.map (·.key)).Nodup) :
    ((exceptStep doc k).map (·.key)).Nodup := by
  unfold exceptStep
  cases digIdx doc k with
  | none => exact hkeys
  | some i =>
    dsimp only
    by_cases h : i < doc.length
    · have hp := (swapRemove_perm doc i h).map (·.key)
      have := (hp.nodup_iff).mpr hkeys
      simp only [List.map_cons, List.nodup_cons] at this
      exact this.2
    · unfold swapRemove
      cases doc.getLast? with
      | none => exact hkeys
      | some last => dsimp only; rw [if_neg (by omega), if_neg h]; exact hkeys

/-- **block-list mode, unique names**: what remains are exactly the fields whose name is not listed, each one
unchanged (same node, same value), each once -/
theorem filterExcept_spec (fields : List K) (doc : List (Fld K V)) (hnd : doc.Nodup)
    (hkeys : (doc.map (·.key)).Nodup) :
    (filterExcept fields doc).Nodup ∧ ((filterExcept fields doc).map (·.key)).Nodup ∧
      ∀ x, x ∈ filterExcept fields doc ↔ x ∈ doc ∧ x.key ∉ fields := by
  unfold filterExcept
  induction fields generalizing doc with
  | nil => exact ⟨hnd, hkeys, fun x => by simp⟩
  | cons k rest ih =>
    simp only [List.foldl_cons]
    obtain ⟨h1, h2, h3⟩ := ih (exceptStep doc k) (exceptStep_nodup doc k hnd) (exceptStep_keys_nodup doc k hkeys)
    refine ⟨h1, h2, fun x => ?_⟩
    rw [h3 x, exceptStep_mem doc k hnd hkeys x]
    simp only [List.mem_cons, not_or]
    constructor
    · rintro ⟨⟨a, b⟩, c⟩; exact ⟨a, b, c⟩
    · rintro ⟨a, b, c⟩; exact ⟨⟨a, b⟩, c⟩

/-! ## allow-list mode -/

theorem removeTag_nodup (doc : List (Fld K V)) (t : Nat) (hnd : doc.Nodup) : (removeTag doc t).Nodup := by
  unfold removeTag
  cases doc.findIdx? (fun f => decide (f.tag = t)) with
  | none => exact hnd
  | some i => exact swapRemove_nodup doc i hnd

theorem removeTag_tags_nodup (doc : List (Fld K V)) (t : Nat) (htags : (doc.map (·.tag)).Nodup) :
    ((removeTag doc t).map (·.tag)).Nodup := by
  unfold removeTag
  cases doc.findIdx? (fun f => decide (f.tag = t)) with
  | none => exact htags
  | some i =>
    dsimp only
    by_cases h : i < doc.length
    · have hp := (swapRemove_perm doc i h).map (·.tag)
      have := (hp.nodup_iff).mpr htags
      simp only [List.map_cons, List.nodup_cons] at this
      exact this.2
    · unfold swapRemove
      cases doc.getLast? with
      | none => exact htags
      | some last => dsimp only; rw [if_neg (by omega), if_neg h]; exact htags

theorem nodup_of_tags {doc : List (Fld K V)} (htags : (doc.map (·.tag)).Nodup) : doc.Nodup := by
  rw [List.nodup_iff_pairwise_ne] at htags ⊢
  rw [List.pairwise_map] at htags
  exact htags.imp (fun h heq => h (by rw [heq]))

theorem removeTag_mem (doc : List (Fld K V)) (t : Nat) (htags : (doc.map (·.tag)).Nodup) (x : Fld K V) :
    x ∈ removeTag doc t ↔ x ∈ doc ∧ x.tag ≠ t := by
  have hnd := nodup_of_tags htags
  unfold removeTag
  cases hf : doc.findIdx? (fun f => decide (f.tag = t)) with
  | none =>
    dsimp only
    have hnone := List.findIdx?_eq_none_iff.mp hf
    constructor
    · intro hx
      exact ⟨hx, by have := hnone x hx; simpa using this⟩
    · exact fun h => h.1
  | some i =>
    dsimp only
    obtain ⟨hi, hti, _⟩ := List.findIdx?_eq_some_iff_getElem.mp hf
    have hti' : doc[i].tag = t := by simpa using hti
    rw [swapRemove_mem doc i hi hnd]
    constructor
    · rintro ⟨hx, hne⟩
      refine ⟨hx, fun hk => hne ?_⟩
      rcases List.getElem_of_mem hx with ⟨j, hj, rfl⟩
      have hinj := List.pairwise_iff_getElem.mp (List.nodup_iff_pairwise_ne.mp htags)
      by_cases hji : j = i
      · subst hji; rfl
      · exfalso
        rcases Nat.lt_or_gt_of_ne hji with hlt | hgt
        · exact hinj j i (by simpa using hj) (by simpa using hi) hlt (by simp [hk, hti'])
        · exact hinj i j (by simpa using hi) (by simpa using hj) hgt (by simp [hk, hti'])
    · rintro ⟨hx, hne⟩
      exact ⟨hx, fun heq => hne (by rw [heq]; exact hti')⟩

theorem removeTags_spec (ts : List Nat) (doc : List (Fld K V)) (htags : (doc.map (·.tag)).Nodup) :
    ((ts.foldl removeTag doc).map (·.tag)).Nodup ∧ ∀ x, x ∈ ts.foldl removeTag doc ↔ x ∈ doc ∧ x.tag ∉ ts := by
  induction ts generalizing doc with
  | nil => exact ⟨htags, fun x => by simp⟩
  | cons t rest ih =>
    simp only [List.foldl_cons]
    obtain ⟨h1, h2⟩ := ih (removeTag doc t) (removeTag_tags_nodup doc t htags)
    refine ⟨h1, fun x => ?_⟩
    rw [h2 x, removeTag_mem doc t htags x]
    simp only [List.mem_cons, not_or]
    constructor
    · rintro ⟨⟨a, b⟩, c⟩; exact ⟨a, b, c⟩
    · rintro ⟨a, b, c⟩; exact ⟨⟨a, b⟩, c⟩

/-- **allow-list mode** (any document, duplicate names included): what remains are exactly the fields whose name
is listed, each one unchanged, each once -/
theorem filterAllow_spec (fields : List K) (doc : List (Fld K V)) (htags : (doc.map (·.tag)).Nodup) :
    (filterAllow fields doc).Nodup ∧ ∀ x, x ∈ filterAllow fields doc ↔ x ∈ doc ∧ x.key ∈ fields := by
  unfold filterAllow
  obtain ⟨h1, h2⟩ := removeTags_spec ((doc.filter fun f => !fields.contains f.key).map (·.tag)) doc htags
  refine ⟨nodup_of_tags h1, fun x => ?_⟩
  rw [h2 x]
  constructor
  · rintro ⟨hx, hnot⟩
    refine ⟨hx, ?_⟩
    apply Classical.byContradiction
    intro hk
    apply hnot
    exact List.mem_map.mpr ⟨x, List.mem_filter.mpr ⟨hx, by simpa using hk⟩, rfl⟩
  · rintro ⟨hx, hk⟩
    refine ⟨hx, fun hm => ?_⟩
    rcases List.mem_map.mp hm with ⟨y, hy, hyt⟩
    have hy' := List.mem_filter.mp hy
    -- same tag -> same field
    have : y = x := by
      rcases List.getElem_of_mem hy'.1 with ⟨a, ha, rfl⟩
      rcases List.getElem_of_mem hx with ⟨b, hb, rfl⟩
      have hinj := List.pairwise_iff_getElem.mp (List.nodup_iff_pairwise_ne.mp htags)
      by_cases hab : a = b
      · subst hab; rfl
      · exfalso
        rcases Nat.lt_or_gt_of_ne hab with hlt | hgt
        · exact hinj a b (by simpa using ha) (by simpa using hb) hlt (by simpa using hyt)
        · exact hinj b a (by simpa using hb) (by simpa using ha) hgt (by simpa using hyt.symm)
    subst this
    have := hy'.2
    simp [hk] at this

/-! ## the pipe header (`parser/seqql_pipes.go: parsePipeFields`, `parseFieldList`;
`parser/seqql_filter.go: parseCompositeToken`, `isCompositeToken`) on lexer tokens -/

/-- a lexer token: its text, whether it was quoted (`TokenQuoted`) and whether white space (any `unicode.IsSpace`
rune) or a comment was skipped right before it (`SpaceSkipped`).  The end of the query is the end of the list. -/
structure Tok where
  text : List Char
  quoted : Bool
  space : Bool
  /-- oracle: `unicode.IsLetter(r) || unicode.IsDigit(r)` for the FIRST rune of the text (Go's own answer, supplied
  by the harness); only consulted when that rune is not ASCII -/
  letter : Bool
deriving DecidableEq, Repr

/-- ASCII lower-casing (kept for the statements about ASCII spellings) -/
def asciiLower (s : List Char) : List Char := s.map fun c => if 'A' ≤ c ∧ c ≤ 'Z' then Char.ofNat (c.toNat + 32) else c

/-- Unicode simple case folding restricted to what can meet an ASCII keyword letter: ASCII upper case, and the two
non-ASCII members of the orbits of `s` and `k` - LATIN SMALL LETTER LONG S (U+017F) and KELVIN SIGN (U+212A) -/
def foldChar (c : Char) : Char :=
  if 'A' ≤ c ∧ c ≤ 'Z' then Char.ofNat (c.toNat + 32)
  else if c.toNat = 0x17F then 's'
  else if c.toNat = 0x212A then 'k'
  else c

def foldText (s : List Char) : List Char := s.map foldChar

/-- `lexer.IsKeyword(kw)` for a lower-case ASCII keyword: never a quoted token, otherwise `strings.EqualFold` -/
def isKeyword (t : Tok) (kw : List Char) : Bool := !t.quoted && foldText t.text == kw

/-- `isTokenRune` on an ASCII character: letters, digits, `_`, `.` -/
def isTokenChar (c : Char) : Bool := c.isAlphanum || c == '_' || c == '.'

/-- `isTokenRune` of the first rune `c` of token `t`: computed for ASCII, the token's unicode oracle otherwise
(`€`, `—`, `™`, an emoji are no letters: not token runes; `é`, `ж`, `中`, `٣` are) -/
def firstTokenRune (t : Tok) (c : Char) : Bool := if c.toNat < 128 then isTokenChar c else t.letter

def utf8Len (s : List Char) : Nat := (s.map Char.utf8Size).sum

/-- `isCompositeToken`: not the end of the query; an empty (quoted) token, a quoted token, a token with more than one
byte after its first rune, or a single letter / digit / `_` / `.` / `-` / `*` -/
def isComposite (t : Tok) : Bool :=
  match t.text with
  | [] => t.quoted                       -- unquoted empty token = end of query
  | c :: rest => decide (utf8Len rest > 1) || t.quoted || firstTokenRune t c || c == '-' || c == '*'

/-- the tokens glued to a first composite token: those that follow WITHOUT white space and are composite -/
def joinComposite (acc : List Char) : List Tok → List Char × List Tok
  | [] => (acc, [])
  | t :: rest => if !t.space && isComposite t then joinComposite (acc ++ t.text) rest else (acc, t :: rest)

/-- `parseCompositeToken`: `none` = "unexpected end of query" / "unexpected symbol" -/
def compositeToken : List Tok → Option (List Char × List Tok)
  | [] => none
  | t :: rest => if isComposite t then some (joinComposite t.text rest) else none

theorem joinComposite_length (acc : List Char) (ts : List Tok) : (joinComposite acc ts).2.length ≤ ts.length := by
  induction ts generalizing acc with
  | nil => simp [joinComposite]
  | cons t rest ih =>
    unfold joinComposite
    split
    · exact Nat.le_succ_of_le (ih _)
    · exact Nat.le_refl _

/-- `parseFieldList`: composite names until the next `|` or the end, an optional comma after each name, no trailing
comma, not empty.  `fuel` >= number of tokens; `tr` = a comma was just consumed; `acc` = names so far (reversed). -/
def fieldListGo : Nat → List Tok → Bool → List (List Char) → Option (List (List Char) × List Tok)
  | 0, _, _, _ => none
  | fuel + 1, ts, tr, acc =>
    match ts with
    | [] => if tr ∨ acc.isEmpty then none else some (acc.reverse, [])
    | t :: rest =>
      if isKeyword t ['|'] then (if tr ∨ acc.isEmpty then none else some (acc.reverse, t :: rest))
      else
        match compositeToken (t :: rest) with
        | none => none
        | some (name, after) =>
          match after with
          | c :: after' =>
            if isKeyword c [','] then fieldListGo fuel after' true (name :: acc)
            else fieldListGo fuel after false (name :: acc)
          | [] => fieldListGo fuel [] false (name :: acc)

/-- `parsePipeFields` on the tokens after a `|`: `(except, names, remaining tokens)`; `none` = parse error -/
def parsePipeFields (ts : List Tok) : Option (Bool × List (List Char) × List Tok) :=
  match ts with
  | [] => none
  | f :: rest =>
    if isKeyword f "fields".toList then
      match rest with
      | e :: rest' =>
        if isKeyword e "except".toList then (fieldListGo (rest'.length + 1) rest' false []).map fun r => (true, r.1, r.2)
        else (fieldListGo (rest.length + 1) rest false []).map fun r => (false, r.1, r.2)
      | [] => none
    else none

theorem isKeyword_case (t t' : Tok) (kw : List Char) (hq : t.quoted = t'.quoted)
    (hl : foldText t.text = foldText t'.text) : isKeyword t kw = isKeyword t' kw := by
  unfold isKeyword; rw [hq, hl]

/-- ASCII case changes do not change the folded text -/
theorem foldText_asciiLower (s : List Char) : foldText (asciiLower s) = foldText s := by
  unfold foldText asciiLower
  rw [List.map_map]
  apply List.map_congr_left
  intro c _
  simp only [Function.comp]
  by_cases h : 'A' ≤ c ∧ c ≤ 'Z'
  · have hc : 65 ≤ c.toNat ∧ c.toNat ≤ 90 := by
      constructor
      · exact h.1
      · exact h.2
    have hv : (c.toNat + 32).isValidChar := by
      left; omega
    have hn : (Char.ofNat (c.toNat + 32)).toNat = c.toNat + 32 := by
      rw [Char.ofNat, dif_pos hv]; rfl
    simp only [h, and_self, if_true]
    unfold foldChar
    have h1 : ¬ ('A' ≤ Char.ofNat (c.toNat + 32) ∧ Char.ofNat (c.toNat + 32) ≤ 'Z') := by
      intro hh
      have : (Char.ofNat (c.toNat + 32)).toNat ≤ 90 := hh.2
      omega
    rw [if_neg h1, if_pos h, hn, if_neg (by omega), if_neg (by omega)]
  · simp only [h, if_false]

/-- the parse depends on the two keyword tokens only through their quoting and their folded text -/
theorem parsePipeFields_case (f f' e e' : Tok) (rest : List Tok)
    (hf : f.quoted = f'.quoted ∧ foldText f.text = foldText f'.text) (hfk : isKeyword f "fields".toList = true)
    (he : e.quoted = e'.quoted ∧ foldText e.text = foldText e'.text) (hek : isKeyword e "except".toList = true) :
    parsePipeFields (f :: e :: rest) = parsePipeFields (f' :: e' :: rest) := by
  have hfk' : isKeyword f' "fields".toList = true := by rw [← isKeyword_case f f' _ hf.1 hf.2]; exact hfk
  have hek' : isKeyword e' "except".toList = true := by rw [← isKeyword_case e e' _ he.1 he.2]; exact hek
  simp only [parsePipeFields, hfk, hek, hfk', hek', if_true]

end SV.Fields
