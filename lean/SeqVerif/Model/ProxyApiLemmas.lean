import SeqVerif.Model.ProxyApi
import SeqVerif.Model.DocsMergeLemmas
/-! Helper lemmas for the handler-level theorems of C16 (`Export`, `Fetch`). -/
namespace SV.ProxyApi
open SV.ProxySearch SV.DocsMerge SV.ProxyRead

theorem ids_of_pointwise (ids : List IDS) (out : List Doc) (hl : out.length = ids.length)
    (h : ∀ (i : Nat) (cur : IDS) (d : Doc), ids[i]? = some cur → out[i]? = some d → d.id = cur.id) :
    out.map (·.id) = ids.map (·.id) := by
  induction ids generalizing out with
  | nil => cases out with
    | nil => rfl
    | cons _ _ => simp at hl
  | cons a as ih =>
    cases out with
    | nil => simp at hl
    | cons b bs =>
      simp only [List.map_cons, List.cons.injEq]
      refine ⟨h 0 a b (by simp) (by simp), ih bs (by simpa using hl) ?_⟩
      intro i cur d h1 h2
      exact h (i + 1) cur d (by simpa using h1) (by simpa using h2)

theorem collapse_block (id : DocsMerge.ID) (k : Nat) (rest : List DocsMerge.ID) (h : rest.head? ≠ some id) :
    collapse (List.replicate (k + 1) id ++ rest) = id :: collapse rest := by
  induction k with
  | zero =>
    cases rest with
    | nil => simp [collapse]
    | cons y r =>
      have : id ≠ y := by intro e; apply h; simp [e]
      simp [collapse, this]
  | succ k ih =>
    have : List.replicate (k + 1 + 1) id ++ rest = id :: id :: (List.replicate k id ++ rest) := by
      simp [List.replicate_succ]
    rw [this, collapse]
    simp only [if_true]
    have : id :: (List.replicate k id ++ rest) = List.replicate (k + 1) id ++ rest := by simp [List.replicate_succ]
    rw [this]; exact ih

theorem expand_ids (orig : List ProxySearch.ID) (srcs : List Nat) :
    (expand orig srcs).map (·.id) = orig.flatMap fun id => List.replicate srcs.length id := by
  unfold expand
  induction orig with
  | nil => rfl
  | cons a as ih =>
    simp only [List.flatMap_cons, List.map_append, ih]
    congr 1
    clear ih
    induction srcs with
    | nil => rfl
    | cons s ss ihs => simp only [List.map_cons, List.length_cons, List.replicate_succ, ihs]

/-- one entry per requested ID: the runs of the expanded list collapse to the request itself -/
theorem collapse_expand (orig : List ProxySearch.ID) (srcs : List Nat) (hnd : orig.Nodup) (hs : srcs ≠ []) :
    collapse ((expand orig srcs).map (·.id)) = orig := by
  rw [expand_ids]
  obtain ⟨k, hk⟩ : ∃ k, srcs.length = k + 1 := by
    cases srcs with
    | nil => exact absurd rfl hs
    | cons _ t => exact ⟨t.length, rfl⟩
  rw [hk]
  induction orig with
  | nil => simp [collapse]
  | cons a as ih =>
    have hnd' := List.nodup_cons.mp hnd
    simp only [List.flatMap_cons]
    rw [collapse_block a k, ih hnd'.2]
    cases as with
    | nil => simp
    | cons b bs =>
      simp only [List.flatMap_cons, List.replicate_succ, List.cons_append, List.head?_cons, ne_eq, Option.some.injEq]
      intro e; apply hnd'.1; simp [e]

end SV.ProxyApi
