import SeqVerif.Spec.StoreNum
import SeqVerif.Model.PatternSpec
/-!
# C13 searchers = the oracle-parametric Spec leaf `Leaf.valMatchWith pf`  (no agreement hypothesis)

`valMatchWith num` uses `num` for "is this bound a number", for parsing and for comparison - exactly what
`NewRangeNumberSearch` / `rangeNumberSearch.check` do with `strconv.ParseFloat`.  With `num := pf` (the ParseFloat
key oracle of `PatternRange.lean`) the range searcher equals the Spec leaf for every range and every token; the only
hypothesis left is that the keys of finite floats are bounded by the key of `MaxFloat64` (unbounded ends are
modelled in the code as `±MaxFloat64` inclusive).
-/
namespace SV.Pattern
open SV

/-- **range check = `valMatchWith pf`**, all ranges, all tokens -/
theorem rangeCheck_eq_specWith (pf : Bytes → Option Int) (maxKey : Int)
    (hb : ∀ b x, pf b = some x → -maxKey ≤ x ∧ x ≤ maxKey) (field : Bytes) (r : Range) (v : Bytes) :
    rangeCheck pf maxKey r v = (specLeaf field (.range r)).valMatchWith pf v := by
  obtain ⟨f, t, fi, ti⟩ := r
  simp only [specLeaf, Spec.Leaf.valMatchWith]
  cases f with
  | none =>
    cases t with
    | none =>
      simp only [rangeCheck, newRangeNumberSearch, NumRange.check, Spec.boundIsNumWith, Bool.and_self, if_true, Option.bind]
      cases hpv : pf v with
      | none => rfl
      | some x => have := hb v x hpv; simp [this.1, this.2]
    | some t =>
      cases hpt : pf t with
      | none =>
        simp only [rangeCheck, newRangeNumberSearch, hpt, Option.map_none, Spec.boundIsNumWith, Option.isSome_none,
          Bool.and_false, Bool.false_eq_true, if_false]
        exact checkText_eq_spec ⟨none, some t, fi, ti⟩ v
      | some tx =>
        simp only [rangeCheck, newRangeNumberSearch, hpt, Option.map_some, NumRange.check, Spec.boundIsNumWith,
          Option.isSome_some, Bool.and_self, if_true, Option.bind]
        cases hpv : pf v with
        | none => rfl
        | some x => have h1 := hb v x hpv; cases ti <;> simp [h1.1]
  | some f =>
    cases hpf : pf f with
    | none =>
      simp only [rangeCheck, newRangeNumberSearch, hpf, Option.map_none, Spec.boundIsNumWith, Option.isSome_none,
        Bool.false_and, Bool.false_eq_true, if_false]
      exact checkText_eq_spec ⟨some f, t, fi, ti⟩ v
    | some fx =>
      cases t with
      | none =>
        simp only [rangeCheck, newRangeNumberSearch, hpf, Option.map_some, NumRange.check, Spec.boundIsNumWith,
          Option.isSome_some, Bool.and_self, if_true, Option.bind]
        cases hpv : pf v with
        | none => rfl
        | some x => have h1 := hb v x hpv; cases fi <;> simp [h1.2]
      | some t =>
        cases hpt : pf t with
        | none =>
          simp only [rangeCheck, newRangeNumberSearch, hpf, hpt, Option.map_some, Option.map_none, Spec.boundIsNumWith,
            Option.isSome_none, Bool.and_false, Bool.false_eq_true, if_false]
          exact checkText_eq_spec ⟨some f, some t, fi, ti⟩ v
        | some tx =>
          simp only [rangeCheck, newRangeNumberSearch, hpf, hpt, Option.map_some, NumRange.check, Spec.boundIsNumWith,
            Option.isSome_some, Bool.and_self, if_true, Option.bind]
          cases hpv : pf v with
          | none => rfl
          | some x => cases fi <;> cases ti <;> simp

/-- literal / wildcard tokens: the parsers' well-formedness; ranges: finite float keys are bounded by `maxKey` -/
def SpecOKWith (pf : Bytes → Option Int) (maxKey : Int) : Token → Prop
  | .literal terms => WF terms
  | .range _ => ∀ b x, pf b = some x → -maxKey ≤ x ∧ x ≤ maxKey

theorem kind_eq_specWith (pf : Bytes → Option Int) (maxKey : Int) (field : Bytes) (token : Token)
    (hok : SpecOKWith pf maxKey token) :
    ∃ k, kindOf pf maxKey token = some k ∧ ∀ v, k.check pf v = (specLeaf field token).valMatchWith pf v := by
  cases token with
  | literal terms =>
    obtain ⟨k, hk, hc⟩ := kind_eq_spec pf maxKey field (.literal terms) [] (show WF terms from hok)
    -- the literal case of kind_eq_spec does not use the dictionary: redo it for every v
    have hwf : WF terms := hok
    have hkl := kindOf_literal pf maxKey terms
    rw [hk] at hkl
    refine ⟨k, hk, fun v => ?_⟩
    obtain ⟨b, hb, hbg⟩ := checkTerms_iff_glob terms hwf v
    rw [hkl] at hb
    simp only [Option.some.injEq] at hb
    simp only [specLeaf, Spec.Leaf.valMatchWith]
    rw [hb, Bool.eq_iff_iff, hbg, spec_globMatch_iff]
  | range r =>
    obtain ⟨s, hs, _, _, hchk⟩ := newSearcher_range pf maxKey r ⟨0, [], false⟩
    refine ⟨s.kind, by simp [kindOf, hs], fun v => ?_⟩
    rw [hchk v]
    exact rangeCheck_eq_specWith pf maxKey hok field r v

/-- TIDs of the dictionary tokens that satisfy the Spec leaf under the reading `pf` -/
def specTidsWith (pf : Bytes → Option Int) (l : Spec.Leaf) (base : Nat) (dict : List Bytes) : List Nat :=
  (List.range' base dict.length).filter fun tid => l.valMatchWith pf (dict.getD (tid - base) [])

theorem specTidsWith_numVal (l : Spec.Leaf) (base : Nat) (dict : List Bytes) :
    specTidsWith Spec.numVal l base dict = specTids l base dict := by
  simp only [specTidsWith, specTids, Spec.valMatchWith_numVal]

theorem search_eq_specWith (pf : Bytes → Option Int) (maxKey : Int) (field : Bytes) (token : Token) (base : Nat)
    (dict : List Bytes) (hok : SpecOKWith pf maxKey token) :
    search pf maxKey token ⟨base, dict, false⟩ = some (specTidsWith pf (specLeaf field token) base dict) := by
  obtain ⟨k, hk, hc⟩ := kind_eq_specWith pf maxKey field token hok
  rw [search_unordered, hk, Option.map_some]
  simp only [scanFrom, specTidsWith, hc]

theorem ordered_search_eq_specWith (pf : Bytes → Option Int) (maxKey : Int) (field : Bytes) (token : Token) (base : Nat)
    (dict : List Bytes) (hs : dict.Pairwise bLt) (hok : SpecOKWith pf maxKey token) :
    search pf maxKey token ⟨base, dict, true⟩ = some (specTidsWith pf (specLeaf field token) base dict) := by
  rw [narrow_eq_scan pf maxKey token base dict hs]; exact search_eq_specWith pf maxKey field token base dict hok

theorem sealed_eq_specWith (pf : Bytes → Option Int) (maxKey : Int) (field : Bytes) (token : Token) (base : Nat)
    (blocks : List (List Bytes)) (ok : BlocksOK blocks) (hok : SpecOKWith pf maxKey token) :
    sealedSearch pf maxKey token base blocks = some (specTidsWith pf (specLeaf field token) base blocks.flatten) :=
  sealed_eq_scan pf maxKey token base blocks ok _ (search_eq_specWith pf maxKey field token base blocks.flatten hok)

theorem active_eq_specWith (pf : Bytes → Option Int) (maxKey : Int) (field : Bytes) (token : Token)
    (entries : List (Nat × Bytes)) (hok : SpecOKWith pf maxKey token) :
    activeFind pf maxKey token entries =
      some ((entries.filter fun e => (specLeaf field token).valMatchWith pf e.2).map (·.1)) := by
  simp only [activeFind, search_eq_specWith pf maxKey field token 1 _ hok, Option.map_some, Option.some.injEq,
    specTidsWith, List.length_map]
  exact filter_map_positions ((specLeaf field token).valMatchWith pf) entries 1

/-- selecting by the found TIDs = filtering by the predicate (any carrier `α` of the dictionary values) -/
theorem select_positions {α} (P : Bytes → Bool) (val : α → Bytes) (d : α) (xs : List α) (b : Nat) :
    ((List.range' b xs.length).filter fun tid => P ((xs.map val).getD (tid - b) [])).map
      (fun p => xs.getD (p - b) d) = xs.filter fun e => P (val e) := by
  induction xs generalizing b with
  | nil => simp
  | cons e es ih =>
    have htail : ((List.range' (b + 1) es.length).filter fun tid => P (((e :: es).map val).getD (tid - b) [])).map
        (fun p => (e :: es).getD (p - b) d) = es.filter fun e => P (val e) := by
      rw [← ih (b + 1)]
      have hc : ∀ t, t ∈ List.range' (b + 1) es.length → t - b = (t - (b + 1)) + 1 := by
        intro t ht; rw [List.mem_range'_1] at ht; omega
      rw [List.filter_congr (q := fun tid => P ((es.map val).getD (tid - (b + 1)) []))]
      · apply List.map_congr_left
        intro t ht
        have ht' := (List.mem_filter.mp ht).1
        rw [hc t ht']; simp
      · intro t ht
        rw [hc t ht]; simp
    simp only [List.map_cons] at htail
    simp only [List.length_cons, List.range'_succ, List.filter_cons]
    by_cases hp : P (val e) = true
    · simp only [Nat.sub_self, List.map_cons, List.getD_cons_zero, hp, if_true]
      rw [htail]
    · simp only [Nat.sub_self, List.map_cons, List.getD_cons_zero, hp, if_false, Bool.false_eq_true]
      rw [htail]

end SV.Pattern
