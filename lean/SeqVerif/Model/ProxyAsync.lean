import SeqVerif.Model.MergeTotals
/-!
# The proxy's fan-out of an asynchronous search (proxy/search/async.go) - C19

  * `proxyStart`  : `Ingestor.StartAsyncSearch`: per shard the replicas are tried in order, the first one that accepts
                    keeps the search; a shard none of whose replicas accepts fails the whole call (later shards are not asked)
  * a shard configured with NO replica (a stores configuration no API call can create): `StartAsyncSearch` succeeds
                    without asking anybody, `FetchAsyncSearchResult` dereferences a nil response and panics
                    (`startShardTop`, `fetchShardTop`); the soundness theorem's `Accepted` excludes it (`acc < outs.length`)
  * `fetchShard`  : the inner loop of `FetchAsyncSearchResult`: a replica answering `NotFound` is passed over, any other
                    error ends the whole fetch with that error, the first answer is the shard's; a shard all of whose
                    replicas say `NotFound` is skipped
  * `proxyFetch`  : `done := true; for shards { ...; if !storeResp.Done { done = false } }`, `NotFound` when no shard
                    answered, else `MergeQPRs(&seq.QPR{Aggs: ..}, qprs, r.Size, histInterval, order)`
                    (interval and order are echoed by the stores; `responseToQPR` always makes a histogram map)
-/
namespace SV.ProxyAsync
open SV SV.Merge

/-- what one replica answers to `FetchAsyncSearchResult` -/
inductive ROut where
  | notFound
  | unavailable
  | otherErr
  | ok (done : Bool) (q : QPR)
deriving Repr, DecidableEq

inductive ShardFetch where
  | resp (done : Bool) (q : QPR)
  | skipped
  | fail
  /-- a shard configured with NO replica: the loop body never runs, `err` stays nil and `storeResp` nil - the code
  then dereferences it (`storeResp.HistogramInterval`) -/
  | nilResp
deriving Repr, DecidableEq

def fetchShard : List ROut → ShardFetch
  | [] => .skipped
  | .notFound :: rest => fetchShard rest
  | .unavailable :: _ => .fail
  | .otherErr :: _ => .fail
  | .ok d q :: _ => .resp d q

/-- the inner loop for one shard as configured: an empty replica list is the nil-response case -/
def fetchShardTop (outs : List ROut) : ShardFetch := if outs.isEmpty then .nilResp else fetchShard outs

inductive PFetch where
  | ok (done : Bool) (q : QPR)
  | notFound
  | error
  /-- nil pointer dereference (a shard without replicas) -/
  | panic
deriving Repr, DecidableEq

inductive Gathered where
  | answers (rs : List (Bool × QPR))
  | failed
  | panicked
deriving Repr, DecidableEq

/-- the shards that answered, in shard order (the loop stops at the first shard that fails or panics) -/
def gather : List (List ROut) → Gathered
  | [] => .answers []
  | s :: rest =>
    match fetchShardTop s with
    | .fail => .failed
    | .nilResp => .panicked
    | .skipped => gather rest
    | .resp d q =>
      match gather rest with
      | .answers rs => .answers ((d, q) :: rs)
      | g => g

def proxyFetch (desc : Bool) (size hi : Nat) (shards : List (List ROut)) : PFetch :=
  match gather shards with
  | .failed => .error
  | .panicked => .panic
  | .answers [] => .notFound
  | .answers rs => .ok (rs.all (·.1)) (mergeQPRs desc ⟨[], 0, none⟩ (rs.map (·.2)) size hi)

/-- `StartAsyncSearch`: per shard the accept/refuse outcome of each replica; result: which replicas were called, and
whether the call succeeded -/
def startShard : List Bool → List Bool × Bool
  | [] => ([], false)
  | true :: rest => (true :: rest.map (fun _ => false), true)
  | false :: rest => (true :: (startShard rest).1, (startShard rest).2)

/-- one shard as configured: with no replica the loop body never runs and `err` stays nil - success, nobody asked -/
def startShardTop (s : List Bool) : List Bool × Bool := if s.isEmpty then ([], true) else startShard s

def proxyStart : List (List Bool) → List (List Bool) × Bool
  | [] => ([], true)
  | s :: rest =>
    if (startShardTop s).2 then ((startShardTop s).1 :: (proxyStart rest).1, (proxyStart rest).2)
    else ((startShardTop s).1 :: rest.map (fun r => r.map (fun _ => false)), false)

/-! ## the public handler: `proxyapi.grpcV1.FetchAsyncSearchResult` -/

/-- `Ingestor.FetchAsyncSearchResult` with the request's `Offset`: the code as found merges at `r.Size` and ignores the
offset; the repaired code merges at `r.Offset+r.Size` and paginates (`paginates`, re-extracted) -/
def proxyFetchP (paginates : Bool) (desc : Bool) (offset size hi : Nat) (shards : List (List ROut)) : PFetch :=
  if paginates then
    match proxyFetch desc (offset + size) hi shards with
    | .ok d q => .ok d { q with ids := (q.ids.drop offset).take size }
    | r => r
  else proxyFetch desc size hi shards

/-- `makeProtoDocs(&resp.QPR, nil)`: one document entry per ID.  The code as found calls `docs.Next()` on the nil
iterator for every ID - a nil-interface method call, i.e. a panic as soon as there is one ID; the repaired code
(`nilSafe`, re-extracted) emits the IDs with empty data.  `none` = panic. -/
def protoDocsNil (nilSafe : Bool) (ids : List Nat) : Option (List Nat) :=
  if nilSafe then some ids else if ids.isEmpty then some [] else none

inductive HResp where
  /-- `docs` = the `Id`s of `Response.Docs`; `Total` is the constant 0 -/
  | ok (done : Bool) (docs : List Nat) (q : QPR)
  | notFound
  | error
  | panic
deriving Repr, DecidableEq

def handlerFetch (nilSafe paginates : Bool) (desc : Bool) (offset size hi : Nat) (shards : List (List ROut)) : HResp :=
  match proxyFetchP paginates desc offset size hi shards with
  | .ok d q =>
    match protoDocsNil nilSafe q.ids with
    | some docs => .ok d docs q
    | none => .panic
  | .notFound => .notFound
  | .error => .error
  | .panic => .panic

/-- with the repaired `makeProtoDocs` the handler never panics on IDs and lists exactly the merged IDs, one entry each -/
theorem handlerFetch_docs (paginates : Bool) (desc : Bool) (offset size hi : Nat) (shards : List (List ROut))
    (d : Bool) (docs : List Nat) (q : QPR) (h : handlerFetch true paginates desc offset size hi shards = .ok d docs q) :
    docs = q.ids ∧ proxyFetchP paginates desc offset size hi shards = .ok d q := by
  unfold handlerFetch at h
  cases hp : proxyFetchP paginates desc offset size hi shards with
  | ok d' q' =>
    simp only [hp, protoDocsNil, if_true, HResp.ok.injEq] at h
    obtain ⟨rfl, rfl, rfl⟩ := h
    exact ⟨rfl, rfl⟩
  | notFound => simp [hp] at h
  | error => simp [hp] at h
  | panic => simp [hp] at h

/-- the repaired proxy pages the merged list: IDs `[offset, offset+size)` of the duplicate-free ordered union -/
theorem proxyFetchP_page (desc : Bool) (offset size hi : Nat) (shards : List (List ROut)) (d : Bool) (q : QPR)
    (h : proxyFetchP true desc offset size hi shards = .ok d q) :
    ∃ rs : List (Bool × QPR), gather shards = .answers rs ∧
      q.ids = ((sd desc (rs.flatMap (·.2.ids))).drop offset).take size := by
  unfold proxyFetchP at h
  simp only [if_true] at h
  unfold proxyFetch at h
  cases hg : gather shards with
  | failed => simp [hg] at h
  | panicked => simp [hg] at h
  | answers rs =>
    refine ⟨rs, rfl, ?_⟩
    cases rs with
    | nil => simp [hg] at h
    | cons r rs' =>
      simp only [hg, PFetch.ok.injEq] at h
      rw [← h.2]
      simp only [mergeQPRs_ids, allIds, List.nil_append, List.flatMap_map]
      rw [List.drop_take, List.take_take]
      congr 1
      omega

/-! ## soundness of `done` -/

/-- replicas before the one that accepted the search do not know it (`NotFound`), and the accepting replica has
persisted the request (it does not answer `NotFound` - C19's resume property) -/
def Accepted (outs : List ROut) (acc : Nat) : Prop :=
  acc < outs.length ∧ (∀ j, j < acc → outs[j]? = some .notFound) ∧ outs[acc]? ≠ some .notFound

theorem fetchShard_accepted (outs : List ROut) (acc : Nat) (h : Accepted outs acc) :
    fetchShard outs = match outs[acc]? with
      | some (.ok d q) => .resp d q
      | _ => .fail := by
  induction outs generalizing acc with
  | nil => exact absurd h.1 (by simp)
  | cons o rest ih =>
    cases acc with
    | zero =>
      have h2 := h.2.2
      simp only [List.getElem?_cons_zero] at h2 ⊢
      cases o <;> simp_all [fetchShard]
    | succ a =>
      have h0 := h.2.1 0 (by omega)
      simp only [List.getElem?_cons_zero, Option.some.injEq] at h0
      subst h0
      simp only [fetchShard, List.getElem?_cons_succ]
      apply ih a
      refine ⟨by have := h.1; simp at this; omega, fun j hj => ?_, ?_⟩
      · have := h.2.1 (j + 1) (by omega); simpa using this
      · have := h.2.2; simpa using this

/-- every shard has an accepting replica -/
def AllAccepted : List (List ROut) → List Nat → Prop
  | [], [] => True
  | s :: ss, a :: as => Accepted s a ∧ AllAccepted ss as
  | _, _ => False

/-- `rs` pairs up with the shards: entry `i` is what shard `i`'s accepting replica answered -/
def Paired : List (List ROut) → List Nat → List (Bool × QPR) → Prop
  | [], [], [] => True
  | s :: ss, a :: as, r :: rs => s[a]? = some (.ok r.1 r.2) ∧ Paired ss as rs
  | _, _, _ => False

theorem fetchShardTop_accepted (outs : List ROut) (acc : Nat) (h : Accepted outs acc) :
    fetchShardTop outs = fetchShard outs := by
  unfold fetchShardTop
  have : outs.isEmpty = false := by
    cases outs with
    | nil => exact absurd h.1 (by simp)
    | cons _ _ => rfl
  simp [this]

theorem gather_accepted (ss : List (List ROut)) (as : List Nat) (ha : AllAccepted ss as) :
    ∀ rs, gather ss = .answers rs → Paired ss as rs := by
  induction ss generalizing as with
  | nil =>
    intro rs hrs
    cases as with
    | nil => simp [gather] at hrs; subst hrs; trivial
    | cons _ _ => exact absurd ha (by simp [AllAccepted])
  | cons s ss' ih =>
    intro rs hrs
    cases as with
    | nil => exact absurd ha (by simp [AllAccepted])
    | cons a as' =>
      have h0 : Accepted s a := ha.1
      have hf := fetchShard_accepted s a h0
      simp only [gather, fetchShardTop_accepted s a h0] at hrs
      cases hsa : s[a]? with
      | none => exact absurd h0.1 (by have := List.getElem?_eq_none_iff.mp hsa; omega)
      | some o =>
        cases o with
        | ok d qq =>
          rw [hsa] at hf
          simp only at hf
          rw [hf] at hrs
          cases hgr : gather ss' with
          | answers rs' =>
            simp only [hgr, Gathered.answers.injEq] at hrs
            subst hrs
            exact ⟨by simpa using hsa, ih as' ha.2 rs' hgr⟩
          | failed => simp [hgr] at hrs
          | panicked => simp [hgr] at hrs
        | notFound => exact absurd hsa h0.2.2
        | unavailable => rw [hsa] at hf; simp only at hf; rw [hf] at hrs; simp at hrs
        | otherErr => rw [hsa] at hf; simp only at hf; rw [hf] at hrs; simp at hrs

/-- **done is sound, and then the result is the merge of every shard's result.**  If the proxy answers `ok done q`,
every shard's accepting replica answered (`rs` pairs up with the shards one to one); `done` is the conjunction of what
they reported; `q` is `MergeQPRs` of exactly their results, in shard order, cut to the requested size. -/
theorem proxyFetch_sound (desc : Bool) (size hi : Nat) (shards : List (List ROut)) (accs : List Nat)
    (hacc : AllAccepted shards accs) (done : Bool) (q : QPR) (h : proxyFetch desc size hi shards = .ok done q) :
    ∃ rs : List (Bool × QPR), Paired shards accs rs ∧
      done = rs.all (·.1) ∧ q = mergeQPRs desc ⟨[], 0, none⟩ (rs.map (·.2)) size hi := by
  unfold proxyFetch at h
  cases hgr : gather shards with
  | failed => simp [hgr] at h
  | panicked => simp [hgr] at h
  | answers rs =>
    have := gather_accepted shards accs hacc rs hgr
    cases rs with
    | nil => simp [hgr] at h
    | cons r rs' =>
      simp only [hgr, PFetch.ok.injEq] at h
      exact ⟨r :: rs', this, h.1.symm, h.2.symm⟩

end SV.ProxyAsync
