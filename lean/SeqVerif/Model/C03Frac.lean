import SeqVerif.Model.C03Lids
import SeqVerif.Model.C03Ids
import SeqVerif.Model.C03Tokens
/-!
# C03 - one fraction in two forms: the active index and the index sealed from it

`Active` is the quiescent state of an active fraction as the sealer and the active data provider read it:
`MIDs`/`RIDs` by active LID (slot 0 = system ID), the all-documents posting list (`GetAllDocuments()`, ordered by
descending ID), and per field (sorted) its tokens (sorted) with their posting lists (active LIDs, ordered like the
all-documents list).

* `buildIndex` is the loop shared by `sortSeqIDs` (`index[lid] = i+1`) and `newInverser` (`inversion[v] = i+1`);
* `active*` = `activeIDsIndex` / `activeTokenIndex.GetLIDsFromTIDs` (`inverseLIDs` + `node.NewStatic`);
* `sealFrac` = `writeSealedFraction` restricted to the index (`sortSeqIDs`, ID blocks, LID blocks, token blocks + table);
* `sealed*` = `sealedIDsIndex` / `sealedTokenIndex` on the result.
-/
namespace SV.C03

structure ATok where
  val : Tok
  post : List Nat
deriving Repr, DecidableEq

structure Active where
  mids : List Nat
  rids : List Nat
  allDocs : List Nat
  fields : List (List ATok)
deriving Repr, DecidableEq

/-- `for i, v := range values { arr[v] = i + 1 }` -/
def buildGo : List Nat → Nat → List Nat → List Nat
  | [], _, arr => arr
  | v :: vs, i, arr => buildGo vs (i + 1) (arr.set v (i + 1))

def buildIndex (size : Nat) (values : List Nat) : List Nat := buildGo values 0 (List.replicate size 0)

/-- `oldToNewLIDsIndex` of `sortSeqIDs` = `inverser.inversion` -/
def Active.index (a : Active) : List Nat := buildIndex a.mids.length a.allDocs

def Active.newLID (a : Active) (lid : Nat) : Nat := a.index.getD lid 0

/-! ## the active fraction's index -/

/-- `inverser.Len()` -/
def activeLen (a : Active) : Nat := a.allDocs.length + 1

/-- `activeIDsIndex.GetMID`: `mids[inverser.Revert(lid)]`, `Revert(i) = values[i-1]` -/
def activeGetMID (a : Active) (lid : Nat) : Option Nat :=
  if lid = 0 then none else (a.allDocs[lid - 1]?).bind (a.mids[·]?)

def activeGetRID (a : Active) (lid : Nat) : Option Nat :=
  if lid = 0 then none else (a.allDocs[lid - 1]?).bind (a.rids[·]?)

/-- `activeIDsIndex.LessOrEqual` -/
def activeLessOrEqual (a : Active) (lid : Nat) (id : ID) : Option Bool :=
  match activeGetMID a lid with
  | none => none
  | some m => if m = id.1 then (activeGetRID a lid).map (fun r => decide (r ≤ id.2)) else some (decide (m < id.1))

/-- `inverseLIDs(unmapped, inverser, minLID, maxLID)` -/
def inverseLIDs (inv : List Nat) (unmapped : List Nat) (minL maxL : Nat) : List Nat :=
  unmapped.filterMap fun v =>
    if v < inv.length ∧ inv.getD v 0 > 0 ∧ minL ≤ inv.getD v 0 ∧ inv.getD v 0 ≤ maxL then some (inv.getD v 0) else none

/-- `GetLIDsFromTIDs` of the active fraction for one token: `node.NewStatic(inverse, reverse)` run to exhaustion -/
def activeNode (a : Active) (post : List Nat) (minL maxL : Nat) (reverse : Bool) : List Nat :=
  let l := inverseLIDs a.index post minL maxL
  if reverse then l.reverse else l

/-! ## sealing -/

/-- `sortSeqIDs`: `make([]seq.ID, len(mids))`, slot 0 keeps `(mids[0], rids[0])`, then the IDs of the documents in
all-documents order (slots of LIDs that are not in the all-documents list stay zero) -/
def sealedIDs (a : Active) : List ID :=
  ((a.mids.getD 0 0, a.rids.getD 0 0) :: a.allDocs.map (fun l => (a.mids.getD l 0, a.rids.getD l 0))) ++
    List.replicate (a.mids.length - (a.allDocs.length + 1)) (0, 0)

structure Sealed where
  per : Nat                      -- consts.IDsPerBlock (reader)
  idBlocks : List IDBlockDisk
  idsTable : IDsTable
  lidBlocks : List Block
  lidsTable : Table
  tokBase : Nat
  tok : TW
deriving Repr, DecidableEq

/-- the index part of `writeSealedFraction`; `.error` = the token block generator's panic -/
def sealFrac (idsBlockSize per cap rbs tokBase : Nat) (posOf : ID → Nat) (a : Active) : Except String Sealed :=
  match genTokenBlocks bsNew rbs (a.fields.map (·.map (·.val))) with
  | .error e => .error e
  | .ok tblocks =>
    let ids := sealedIDs a
    let idBlocks := writeIDs idsBlockSize ids posOf
    let index := a.index      -- `oldToNewLIDsIndex` is built once by `sortSeqIDs`
    let lidBlocks := genBlocks cap (fun lid => index.getD lid 0) (a.fields.map (·.map (·.post)))
    .ok { per := per, idBlocks := idBlocks, idsTable := idsTableOf idBlocks ids.length,
          lidBlocks := lidBlocks, lidsTable := tableOf lidBlocks, tokBase := tokBase, tok := writeTokens rbs tokBase tblocks }

/-! ## the sealed fraction's index -/

def sealedLen (s : Sealed) : Nat := s.idsTable.idsTotal
def sealedGetMID (s : Sealed) (lid : Nat) : Option Nat := getMID s.per s.idBlocks lid
def sealedGetRID (s : Sealed) (lid : Nat) : Option Nat := getRID s.per s.idBlocks lid
def sealedLessOrEqual (s : Sealed) (lid : Nat) (id : ID) : Option Bool := lessOrEqual s.per s.idsTable s.idBlocks lid id
def sealedTokenVal (s : Sealed) (tid : Nat) : Option Tok := getValByTID s.tokBase s.tok tid

/-- `GetLIDsFromTIDs` of the sealed fraction for one tid -/
def sealedNode (s : Sealed) (tid minL maxL : Nat) (reverse : Bool) : Except String (List Nat) :=
  if reverse then iterAsc s.lidBlocks s.lidsTable tid minL maxL else iterDesc s.lidBlocks s.lidsTable tid minL maxL

end SV.C03
