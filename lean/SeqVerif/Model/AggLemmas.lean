import SeqVerif.Model.Agg
set_option linter.unusedSimpArgs false
set_option linter.unusedVariables false
/-!
Helper lemmas for C06, part 1: merge algebra of `SC`, merge trees, quantiles, histograms.
-/
namespace SV.Agg

/-! ## associativity of `SamplesContainer.Merge` (up to observational equality) -/

theorem foldl_insertSampleL_length (lim : Nat) (pick : List Int → Nat) (vs s : List Int)
    (h : s.length + vs.length ≤ lim) : (vs.foldl (insertSampleL lim pick) s).length = s.length + vs.length := by
  rw [foldl_insertSampleL_below _ _ _ _ h]; simp

/-- `samples_merge_assoc` -/
theorem SC.merge_assoc (lim : Nat) (pick : List Int → Nat) {a b c : SC} (hb : b.WF)
    (hl : a.samples.length + b.samples.length + c.samples.length ≤ lim) :
    SC.Eqv (SC.merge lim pick (SC.merge lim pick a b) c) (SC.merge lim pick a (SC.merge lim pick b c)) := by
  by_cases h2 : b.total = 0 <;> by_cases h3 : c.total = 0
  · -- both empty
    have := hb h2
    unfold SC.merge
    simp only [h2, h3, if_true]
    exact ⟨rfl, Nat.add_assoc _ _ _, rfl, fun _ => ⟨rfl, rfl⟩, List.Perm.refl _⟩
  · have hb' := hb h2
    unfold SC.merge
    simp only [h2, h3, if_true, if_false]
    have h23 : ¬ (b.total + c.total = 0) := by omega
    simp only [h2, Nat.zero_add, h3, if_false, if_true]
    refine ⟨by simp [h2], Nat.add_assoc _ _ _, by simp [hb'.1], fun _ => by simp [h2], ?_⟩
    simp only [hb'.2]
    rw [foldl_insertSampleL_below _ _ c.samples [] (by simp; omega)]
    simp
  · unfold SC.merge
    simp only [h2, h3, if_true, if_false]
    exact ⟨rfl, Nat.add_assoc _ _ _, rfl, fun _ => ⟨rfl, rfl⟩, List.Perm.refl _⟩
  · unfold SC.merge
    have h23 : ¬ (b.total + c.total = 0) := by omega
    simp only [h2, h3, h23, if_false]
    refine ⟨Nat.add_assoc _ _ _, Nat.add_assoc _ _ _, Int.add_assoc _ _ _, ?_, ?_⟩
    · intro _
      by_cases h1 : a.total = 0
      · have h12 : ¬ (a.total + b.total = 0) := by omega
        simp [h1, h2]
      · have h12 : ¬ (a.total + b.total = 0) := by omega
        simp [h1, h2, h12, Int.min_assoc, Int.max_assoc]
    · rw [foldl_insertSampleL_below _ _ b.samples a.samples (by omega),
        foldl_insertSampleL_below _ _ c.samples b.samples (by omega),
        foldl_insertSampleL_below _ _ c.samples _ (by simp; omega),
        foldl_insertSampleL_below _ _ _ a.samples (by simp; omega)]
      simp

/-! ## merge trees -/

/-- any bracketing of `Merge` calls over partial results -/
inductive MTree (α : Type) where
  | leaf (a : α)
  | node (l r : MTree α)

def MTree.leaves {α : Type} : MTree α → List α
  | .leaf a => [a]
  | .node l r => l.leaves ++ r.leaves

def MTree.eval {α : Type} (op : α → α → α) : MTree α → α
  | .leaf a => a
  | .node l r => op (l.eval op) (r.eval op)

/-- a leaf of a container tree together with the values it summarises -/
structure SLeaf where
  c : SC
  vals : List Int
  ne : Nat

def allVals (ls : List SLeaf) : List Int := ls.flatMap (·.vals)
def allNe (ls : List SLeaf) : Nat := (ls.map (·.ne)).sum

theorem allVals_append (xs ys : List SLeaf) : allVals (xs ++ ys) = allVals xs ++ allVals ys := by
  simp [allVals]

theorem allNe_append (xs ys : List SLeaf) : allNe (xs ++ ys) = allNe xs + allNe ys := by
  simp [allNe]

/-- every merge tree over containers that summarise value lists summarises the concatenation -/
theorem MTree.rep (lim : Nat) (pick : List Int → Nat) (collect : Bool) (t : MTree SLeaf)
    (hleaf : ∀ l, l ∈ t.leaves → Rep l.vals l.ne collect l.c)
    (hl : collect = true → (allVals t.leaves).length ≤ lim) :
    Rep (allVals t.leaves) (allNe t.leaves) collect ((t.eval fun x y => ⟨SC.merge lim pick x.c y.c, [], 0⟩).c) := by
  induction t with
  | leaf a =>
    have := hleaf a (by simp [MTree.leaves])
    simpa [MTree.leaves, MTree.eval, allVals, allNe] using this
  | node l r ihl ihr =>
    simp only [MTree.leaves, MTree.eval, allVals_append, allNe_append] at *
    have h1 := ihl (fun x hx => hleaf x (List.mem_append_left _ hx))
      (fun hc => by have := hl hc; simp at this; omega)
    have h2 := ihr (fun x hx => hleaf x (List.mem_append_right _ hx))
      (fun hc => by have := hl hc; simp at this; omega)
    exact Rep.merge h1 h2 (fun hc => by have := hl hc; simpa using this)

theorem allVals_perm {xs ys : List SLeaf} (p : xs.Perm ys) : (allVals xs).Perm (allVals ys) := by
  induction p with
  | nil => exact List.Perm.refl _
  | cons a _ ih => simpa [allVals] using List.Perm.append_left _ ih
  | swap a b l =>
    simp only [allVals, List.flatMap_cons]
    rw [← List.append_assoc, ← List.append_assoc]
    exact List.Perm.append_right _ List.perm_append_comm
  | trans _ _ ih1 ih2 => exact ih1.trans ih2

theorem allNe_perm {xs ys : List SLeaf} (p : xs.Perm ys) : allNe xs = allNe ys := by
  unfold allNe
  exact (p.map (·.ne)).sum_nat

/-! ## quantiles -/

theorem quantileIndex_lt {len qn qd : Nat} (hlen : 0 < len) (hq : qn ≤ qd) (hd : 0 < qd) :
    quantileIndex len qn qd < len := by
  unfold quantileIndex
  rw [Nat.div_lt_iff_lt_mul (by omega)]
  have h1 : (len - 1) * qn ≤ (len - 1) * qd := Nat.mul_le_mul_left _ hq
  have h2 : (len - 1) * qn * 2 ≤ (len - 1) * qd * 2 := Nat.mul_le_mul_right _ h1
  have h3 : len * (2 * qd) = (len - 1) * qd * 2 + 2 * qd := by
    have : len = (len - 1) + 1 := by omega
    conv => lhs; rw [this]
    rw [Nat.add_mul, Nat.one_mul, Nat.mul_comm 2 qd, ← Nat.mul_assoc]
  omega

theorem quantileIndex_zero (len qd : Nat) (hd : 0 < qd) : quantileIndex len 0 qd = 0 := by
  unfold quantileIndex
  simp
  omega

theorem quantileIndex_one (len qd : Nat) (hd : 0 < qd) : quantileIndex len qd qd = len - 1 := by
  unfold quantileIndex
  have : (len - 1) * qd * 2 + qd = (len - 1) * (2 * qd) + qd := by
    rw [Nat.mul_assoc, Nat.mul_comm qd 2]
  rw [this, Nat.mul_comm (len - 1), Nat.mul_add_div (by omega)]
  have : qd / (2 * qd) = 0 := Nat.div_eq_of_lt (by omega)
  omega

/-- head of a sorted non-empty list is its minimum -/
theorem sorted_head_isMin {l : List Int} (hs : l.Pairwise (· ≤ ·)) (hne : l ≠ []) : IsMin (l.getD 0 0) l := by
  cases l with
  | nil => exact absurd rfl hne
  | cons a l =>
    have := List.pairwise_cons.mp hs
    refine ⟨by simp, ?_⟩
    intro v hv
    rcases List.mem_cons.mp hv with rfl | hv
    · simp
    · simpa using this.1 v hv

theorem sorted_last_isMax {l : List Int} (hs : l.Pairwise (· ≤ ·)) (hne : l ≠ []) :
    IsMax (l.getD (l.length - 1) 0) l := by
  induction l with
  | nil => exact absurd rfl hne
  | cons a l ih =>
    have hp := List.pairwise_cons.mp hs
    cases l with
    | nil => exact ⟨by simp, by intro v hv; simp at hv; simp [hv]⟩
    | cons b l =>
      have ih' := ih hp.2 (by simp)
      have e : (a :: b :: l).getD ((a :: b :: l).length - 1) 0 = (b :: l).getD ((b :: l).length - 1) 0 := by
        simp
      rw [e]
      refine ⟨List.mem_cons_of_mem _ ih'.1, ?_⟩
      intro v hv
      rcases List.mem_cons.mp hv with rfl | hv
      · exact hp.1 _ ih'.1
      · exact ih'.2 v hv

/-- `c06_quantile_exact` core: a container that holds all its values as samples answers every quantile with
the element of the sorted value list at the index formula (`q = 0` / `q = 1` via Min / Max agree with it) -/
theorem Rep.quantile {vals : List Int} {ne : Nat} {c : SC} (h : Rep vals ne true c) (hne : vals ≠ [])
    (fixed : Bool) {qn qd : Nat} (hq : qn ≤ qd) (hd : 0 < qd) :
    c.quantile fixed qn qd = .int ((isort vals).getD (quantileIndex vals.length qn qd) 0) := by
  have hs : c.samples.Perm vals := by simpa using h.samples
  have hsne : c.samples ≠ [] := by
    intro e; rw [e] at hs; exact hne (List.Perm.nil_eq hs).symm
  have htot : c.total ≠ 0 := by
    rw [h.total]; intro e; exact hne (List.eq_nil_of_length_eq_zero e)
  have hsort : isort c.samples = isort vals := isort_perm_eq hs
  have hlen : c.samples.length = vals.length := hs.length_eq
  have hsrt := isort_sorted vals
  have hne' : isort vals ≠ [] := by
    intro e; have := isort_length vals; rw [e] at this; simp at this; exact hne (List.eq_nil_of_length_eq_zero this.symm)
  have key : (if qn = qd then Val.int c.max else if qn = 0 then Val.int c.min
      else Val.int ((isort c.samples).getD (quantileIndex c.samples.length qn qd) 0)) =
      .int ((isort vals).getD (quantileIndex vals.length qn qd) 0) := by
    by_cases h1 : qn = qd
    · subst h1
      simp only [if_true]
      rw [quantileIndex_one _ _ hd]
      have hm := sorted_last_isMax hsrt hne'
      rw [isort_length] at hm
      have := (h.max hne).unique (hm.perm (isort_perm vals))
      simp [Val.int, this]
    · simp only [h1, if_false]
      by_cases h0 : qn = 0
      · subst h0
        simp only [if_true]
        rw [quantileIndex_zero _ _ hd]
        have hm := sorted_head_isMin hsrt hne'
        have := (h.min hne).unique (hm.perm (isort_perm vals))
        simp [Val.int, this]
      · simp only [h0, if_false, hsort, hlen]
  unfold SC.quantile
  cases fixed
  · simp only [Bool.false_eq_true, if_false, hsne]; exact key
  · simp only [if_true, htot, if_false]
    by_cases h1 : qn = qd
    · simpa [h1] using key
    · by_cases h0 : qn = 0
      · simpa [h1, h0] using key
      · simpa [h1, h0, hsne] using key

/-- with the repaired `Quantile`, the 0 and 1 quantiles need no samples: they are the minimum / maximum of the
values, which again is the element of the sorted list at the index formula -/
theorem Rep.quantile_fixed_minmax {vals : List Int} {ne : Nat} {collect : Bool} {c : SC} (h : Rep vals ne collect c)
    (hne : vals ≠ []) {qn qd : Nat} (hq : qn = 0 ∨ qn = qd) (hd : 0 < qd) :
    c.quantile true qn qd = .int ((isort vals).getD (quantileIndex vals.length qn qd) 0) := by
  have htot : c.total ≠ 0 := by
    rw [h.total]; intro e; exact hne (List.eq_nil_of_length_eq_zero e)
  have hsrt := isort_sorted vals
  have hne' : isort vals ≠ [] := by
    intro e; have := isort_length vals; rw [e] at this; simp at this; exact hne (List.eq_nil_of_length_eq_zero this.symm)
  unfold SC.quantile
  simp only [if_true, htot, if_false]
  by_cases h1 : qn = qd
  · subst h1
    simp only [if_true]
    rw [quantileIndex_one _ _ hd]
    have hm := sorted_last_isMax hsrt hne'
    rw [isort_length] at hm
    have := (h.max hne).unique (hm.perm (isort_perm vals))
    simp [Val.int, this]
  · have h0 : qn = 0 := by rcases hq with h | h; exact h; exact absurd h h1
    subst h0
    simp only [h1, if_false, if_true]
    rw [quantileIndex_zero _ _ hd]
    have hm := sorted_head_isMin hsrt hne'
    have := (h.min hne).unique (hm.perm (isort_perm vals))
    simp [Val.int, this]

/-! ## histograms -/

theorem lookup_incr {κ : Type} [DecidableEq κ] (k k' : κ) (m : List (κ × Nat)) :
    ((incr k m).lookup k').getD 0 = (m.lookup k').getD 0 + (if k' = k then 1 else 0) := by
  induction m with
  | nil =>
    by_cases h : k' = k
    · subst h; simp [incr, List.lookup]
    · have : (k' == k) = false := by simp [h]
      simp [incr, List.lookup, h, this]
  | cons x m ih =>
    obtain ⟨kx, n⟩ := x
    by_cases hx : kx = k
    · subst hx
      by_cases h : k' = kx
      · subst h; simp [incr, List.lookup]
      · have : (k' == kx) = false := by simp [h]
        simp [incr, List.lookup, this, h]
    · by_cases h : k' = kx
      · subst h
        have : ¬ k' = k := hx
        simp [incr, hx, List.lookup, this]
      · have hb : (k' == kx) = false := by simp [h]
        simp [incr, hx, List.lookup, hb, ih]

/-- `c06_hist` core: every bucket of the per-fraction histogram holds the number of matching documents whose
MID falls into it -/
theorem histRun_get (interval : Nat) (mids : List Nat) (b : Nat) :
    histGet (histRun interval mids) b = (mids.filter fun m => histBucket interval m = b).length := by
  unfold histRun histGet
  suffices h : ∀ (h0 : Hist), ((mids.foldl (fun h m => incr (histBucket interval m) h) h0).lookup b).getD 0 =
      (h0.lookup b).getD 0 + (mids.filter fun m => histBucket interval m = b).length by
    simpa using h []
  induction mids with
  | nil => intro h0; simp
  | cons m ms ih =>
    intro h0
    simp only [List.foldl_cons]
    rw [ih, lookup_incr]
    by_cases hb : histBucket interval m = b
    · subst hb
      simp [List.filter_cons]; omega
    · have : ¬ b = histBucket interval m := fun e => hb e.symm
      simp [List.filter_cons, hb, this]

theorem histAdd_get (k n k' : Nat) (h : Hist) :
    histGet (histAdd k n h) k' = histGet h k' + (if k' = k then n else 0) := by
  unfold histGet
  induction h with
  | nil => by_cases e : k' = k <;> simp [histAdd, List.lookup, e]
  | cons x h ih =>
    obtain ⟨kx, c⟩ := x
    by_cases hx : kx = k
    · subst hx
      by_cases e : k' = kx
      · subst e; simp [histAdd, List.lookup]
      · have : (k' == kx) = false := by simp [e]
        simp [histAdd, List.lookup, this, e]
    · by_cases e : k' = kx
      · subst e
        have : ¬ k' = k := hx
        simp [histAdd, hx, List.lookup, this]
      · have hb : (k' == kx) = false := by simp [e]
        simp [histAdd, hx, List.lookup, hb, ih]

/-- distinct keys (a Go map) -/
def KeysNodup {κ β : Type} (m : List (κ × β)) : Prop := (m.map (·.1)).Nodup

theorem lookup_none_of_not_mem {κ β : Type} [DecidableEq κ] (k : κ) (m : List (κ × β))
    (h : k ∉ m.map (·.1)) : m.lookup k = none := by
  induction m with
  | nil => rfl
  | cons x m ih =>
    obtain ⟨kx, v⟩ := x
    have h' : k ≠ kx ∧ k ∉ m.map (·.1) := by simpa using h
    have hb : (k == kx) = false := by simp [h'.1]
    simp [List.lookup, hb, ih h'.2]

theorem histMerge_get (dst src : Hist) (hs : KeysNodup src) (k : Nat) :
    histGet (histMerge dst src) k = histGet dst k + histGet src k := by
  unfold histMerge
  induction src generalizing dst with
  | nil => simp [histGet]
  | cons x src ih =>
    obtain ⟨kx, c⟩ := x
    have hn : kx ∉ src.map (·.1) ∧ KeysNodup src := by
      simpa [KeysNodup] using hs
    simp only [List.foldl_cons]
    rw [ih _ hn.2, histAdd_get]
    by_cases e : k = kx
    · subst e
      have : histGet src k = 0 := by
        unfold histGet
        have : src.lookup k = none := lookup_none_of_not_mem k src hn.1
        simp [this]
      simp [histGet, List.lookup, this] at *
      omega
    · have hb : (k == kx) = false := by simp [e]
      simp [histGet, List.lookup, hb, e]

end SV.Agg
