import SeqVerif.Base.GoInt
import SeqVerif.Model.SearchDocs
/-!
# The API boundary of a search (C05): request -> parameters -> SearchDocs -> response

  * `StoreReq`            : `storeapi.SearchRequest` (protobuf: int64 `From/To/Size/Offset/Interval`, enum `Order`)
  * `storeParams`         : `GrpcV1.doSearch`: `from := seq.MID(req.From)`, `to := seq.MID(req.To)` (int64 -> uint64),
                            `limit := int(req.Size + req.Offset)` (int64 addition wraps), `HistInterval: uint64(req.Interval)`,
                            `WithTotal`, `Order: req.Order.MustDocsOrder()` (panics on an unknown enum value)
  * `grpcSearch`          : the hot-store refusal (`StoreMode == hot && Mature() && (OldestCT == 0 || OldestCT > from)`),
                            `SearchDocs`, the refusal code for `ErrTooManyFractionsHit`, and the one way a request makes
                            the call panic: a negative `limit` reaching `MergeQPRs`' `ids[:min(len(ids), limit)]`
  * `ProxyReq`, `apiRequest` : `search.SearchRequest` and `GetAPISearchRequest` (`int64(sr.From)`, ..., `Size` and `Offset`
                            passed separately - every shard computes `Size+Offset` itself)
  * `pickReplica`         : `searchShard`: replicas in `IdxFill` / `IdxShuffle` order, first one that answers
  * `proxySearch`         : `Ingestor.Search`: validation `Size < 0 || Offset < 0`, one answer per shard, `MergeQPRs(..,
                            Offset+Size, Interval, Order)`, `paginateIDs(ids, Offset, Size)`
  * `meaning`             : what a request asks for, as numbers - the single definition store and proxy are proved to implement.

Integers are Go's: `Int` values inside the range of their type with explicit wraps (`Base/GoInt.lean`).  A fraction is given
with ALL its documents matching the query (`RawFrac`); the request window is applied by the model.
-/
namespace SV.Api
open SV SV.Merge SV.Go

structure StoreReq where
  from_ : Int
  to_ : Int
  size : Int
  offset : Int
  interval : Int
  withTotal : Bool
  /-- `storeapi.Order`: 0 = DESC, 1 = ASC, anything else is not a declared enum value -/
  order : Int
  hasAgg : Bool := false
deriving Repr

structure Params where
  from_ : Nat
  to_ : Nat
  /-- Go `int` -/
  limit : Int
  hi : Nat
  withTotal : Bool
  desc : Bool
  hasAgg : Bool
deriving Repr, DecidableEq

/-- `doSearch`'s conversions; `none` = `MustDocsOrder` panics -/
def storeParams (r : StoreReq) : Option Params :=
  if r.order = 0 ∨ r.order = 1 then
    some { from_ := (wrapU64 r.from_).toNat, to_ := (wrapU64 r.to_).toNat, limit := wrapI64 (r.size + r.offset),
           hi := (wrapU64 r.interval).toNat, withTotal := r.withTotal, desc := decide (r.order = 0), hasAgg := r.hasAgg }
  else none

/-- what the store knows of a fraction for one query: `Info` and the keys of ALL its documents matching the query -/
structure RawFrac where
  docsTotal : Nat
  from_ : Nat
  to_ : Nat
  docs : List Nat
deriving Repr

/-- the match set inside the request window -/
def RawFrac.toFrac (f : RawFrac) (from_ to_ : Nat) : Frac :=
  { docsTotal := f.docsTotal, from_ := f.from_, to_ := f.to_,
    docs := f.docs.filter fun d => decide (from_ ≤ midOf d) && decide (midOf d ≤ to_) }

/-- the store's configuration and state read by `doSearch` -/
structure StoreCfg where
  hot : Bool
  mature : Bool
  oldestCT : Nat
  perIter : Nat
  maxHits : Nat
deriving Repr

inductive Resp where
  | ok (q : QPR)
  | wantsOldData
  | tooManyFractions
  /-- a Go panic escapes `GrpcV1.Search` -/
  | panic
deriving Repr, DecidableEq

def Params.cfg (p : Params) (s : StoreCfg) : Cfg :=
  { desc := p.desc, withTotal := p.withTotal, hi := p.hi, hasAgg := p.hasAgg, perIter := s.perIter, maxHits := s.maxHits }

/-- `GrpcV1.Search` / `doSearch` -/
def grpcSearch (s : StoreCfg) (fracs : List RawFrac) (r : StoreReq) : Resp :=
  -- `from := seq.MID(req.From)` and the hot-store check come before the order is converted
  if s.hot && s.mature && (decide (s.oldestCT = 0) || decide (s.oldestCT > (wrapU64 r.from_).toNat)) then .wantsOldData
  else
    match storeParams r with
    | none => .panic
    | some p =>
      let fs := fracs.map (·.toFrac p.from_ p.to_)
      if p.limit < 0 then
        -- `prepareFracs` first; then the loop runs only for scan-all requests, and its `MergeQPRs` slices `ids[:limit]`
        match prepareFracs (p.cfg s) fs p.from_ p.to_ with
        | none => .tooManyFractions
        | some rem => if (p.cfg s).scanAll && !rem.isEmpty then .panic else .ok emptyQPR
      else
        match searchDocs (p.cfg s) fs p.from_ p.to_ p.limit.toNat with
        | none => .tooManyFractions
        | some q => .ok q

/-! ## proxy -/

structure ProxyReq where
  /-- `seq.MID` (uint64) -/
  from_ : Nat
  to_ : Nat
  /-- Go `int` -/
  size : Int
  offset : Int
  /-- `seq.MID` -/
  interval : Nat
  withTotal : Bool
  /-- `seq.DocsOrder`: 0 = desc, 1 = asc -/
  order : Nat
deriving Repr

/-- `SearchRequest.GetAPISearchRequest`; `none` = `MustProtoOrder` panics -/
def apiRequest (r : ProxyReq) : Option StoreReq :=
  if r.order < 2 then
    some { from_ := wrapI64 r.from_, to_ := wrapI64 r.to_, size := r.size, offset := r.offset, interval := wrapI64 r.interval,
           withTotal := r.withTotal, order := r.order }
  else none

/-- `searchShard`: the visiting order is `IdxFill` or the shuffle's permutation; the answer is that of the first
replica in that order that is up (`none`: all down) -/
def pickReplica (order : List Nat) (up : List Bool) : Option Nat := order.find? fun i => up.getD i false

/-- the replicas that receive the request: everything in visiting order up to and including the first one that is up -/
def visited : List Nat → List Bool → List Nat
  | [], _ => []
  | i :: rest, up => if up.getD i false then [i] else i :: visited rest up

inductive PResp where
  | ok (q : QPR)
  | invalidArgument
  | tooManyFractions
  | panic
  | otherError
deriving Repr, DecidableEq

def collect : List Resp → Option (List QPR)
  | [] => some []
  | .ok q :: rest => (collect rest).map (q :: ·)
  | _ :: _ => none

/-- `Ingestor.Search` (no fetch): `answers` = per shard the response of the replica `pickReplica` selects -/
def proxySearch (r : ProxyReq) (answers : List Resp) : PResp :=
  if r.size < 0 ∨ r.offset < 0 then .invalidArgument
  else if (apiRequest r).isNone then .panic
  else if answers.any (· == .tooManyFractions) then .tooManyFractions
  else if answers.any (· == .panic) then .otherError
  else
    match collect answers with
    | none => .otherError
    | some qs =>
      if wrapI64 (r.offset + r.size) < 0 then
        -- `MergeQPRs(.., sr.Offset+sr.Size, ..)` with a wrapped limit: `ids[:limit]`
        .panic
      else
        .ok (proxyMerge (decide (r.order = 0)) qs r.offset.toNat r.size.toNat r.interval)

/-! ## the meaning of a request -/

/-- what a search request asks for -/
structure Meaning where
  from_ : Nat
  to_ : Nat
  desc : Bool
  offset : Nat
  size : Nat
  withTotal : Bool
  hi : Nat
deriving Repr, DecidableEq

/-- requests the API gives a meaning to: a declared order, non-negative page, `offset+size` representable -/
def ProxyReq.valid (r : ProxyReq) : Prop :=
  r.order < 2 ∧ 0 ≤ r.size ∧ 0 ≤ r.offset ∧ r.offset + r.size < 9223372036854775808 ∧
    r.from_ < 18446744073709551616 ∧ r.to_ < 18446744073709551616 ∧ r.interval < 18446744073709551616

def meaning (r : ProxyReq) : Meaning :=
  { from_ := r.from_, to_ := r.to_, desc := decide (r.order = 0), offset := r.offset.toNat, size := r.size.toNat,
    withTotal := r.withTotal, hi := r.interval }

end SV.Api
