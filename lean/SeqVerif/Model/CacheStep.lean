import SeqVerif.Model.CacheAcc
import SeqVerif.Model.CacheVal
/-!
# C18 - the accounting invariant `AInv` is preserved by lookups, saves, failed loads, `Release`, `Rotate`,
`NewCache`, `ReleaseBuckets` (the cleaning steps are in CacheClean)
-/
namespace SV.Cache

theorem AInv.setPc {cfg : Cfg} {s : St} (a : AInv cfg s) (t : Nat) (p : Pc) : AInv cfg (setPc s t p) :=
  ⟨a.gl, a.fresh, a.managed, a.acc, a.loading0, a.inmap, a.orphan, a.valid, a.cachelt⟩

/-! ## lookups -/

theorem ainv_updGen {cfg : Cfg} {s : St} (a : AInv cfg s) {eid : Nat} {e : Entry} (he : s.heap[eid]? = some e)
    (hin : e.inMap = true) : AInv cfg (updGen s eid s.lastGen) := by
  have hmem : e ∈ s.heap := List.mem_of_getElem? he
  have him := a.inmap e hmem hin
  unfold updGen
  rw [he]
  simp only
  split
  · exact a
  · rename_i hne
    have hmem' : ∀ x ∈ s.heap.set eid { e with gen := s.lastGen }, x ∈ s.heap ∨ x = { e with gen := s.lastGen } :=
      fun x hx => List.mem_or_eq_of_mem_set hx
    refine ⟨a.gl, ?_, a.managed, ?_, ?_, ?_, ?_, ?_, ?_⟩
    rotate_right
    · intro x hx
      rcases hmem' x hx with hx | rfl
      · exact a.cachelt x hx
      · exact a.cachelt e hmem
    · intro g hg
      have := a.fresh g hg
      have hg' : s.ngens ≤ g := hg
      have hlt := a.lastGen_lt
      have hlt2 := him.2.2.2.1
      refine ⟨?_, this.2⟩
      show mget 0 (addG (addG s.gsizeL e.gen (-(e.size : Int))) s.lastGen e.size) g = 0
      have h1 : ¬ g = s.lastGen := by omega
      have h2 : ¬ g = e.gen := by omega
      simp only [addG_get, h1, h2, if_false]
      exact this.1
    · intro g hg
      show mget 0 (addG (addG s.gsizeL e.gen (-(e.size : Int))) s.lastGen e.size) g = genLive (s.heap.set eid _) g
      rw [genLive_set _ _ _ _ _ he, addG_get, addG_get, addG_get]
      have hacc := a.acc g hg
      simp only [St.gsize] at hacc
      simp only [contrib, hin, true_and]
      by_cases h1 : g = s.lastGen
      · subst h1
        have h2 : ¬ e.gen = s.lastGen := fun h => hne h.symm
        simp [h2, hne]; omega
      · by_cases h2 : g = e.gen
        · subst h2; simp [h1, hne]; omega
        · have h3 : ¬ e.gen = g := fun h => h2 h.symm
          have h4 : ¬ s.lastGen = g := fun h => h1 h.symm
          simp [h1, h2, h3, h4]; omega
    · intro x hx hst
      rcases hmem' x hx with hx | rfl
      · exact a.loading0 x hx hst
      · exact a.loading0 e hmem hst
    · intro x hx hxin
      rcases hmem' x hx with hx | rfl
      · exact a.inmap x hx hxin
      · exact ⟨him.1, him.2.1, him.2.2.1, a.lastGen_lt, him.2.2.2.2⟩
    · intro x hx hxin hst
      rcases hmem' x hx with hx | rfl
      · exact a.orphan x hx hxin hst
      · simp [hin] at hxin
    · intro x hx hxin hst
      rcases hmem' x hx with hx | rfl
      · exact a.valid x hx hxin hst
      · exact ⟨(a.valid e hmem hin hst).1, Or.inl a.lastGen_mem⟩

theorem ainv_acquire {cfg : Cfg} {s : St} (a : AInv cfg s) (t c k : Nat) (hc : c < s.ncaches)
    (hrel : s.released c = false) : AInv cfg (acquire s t c k).1 := by
  have hcur : s.cur c = s.lastGen := (a.managed c hc hrel).2
  unfold acquire
  split
  · rename_i eid hl
    obtain ⟨e, he, -, -, hin⟩ := lookup_sound hl
    rw [he]
    simp only
    split
    · exact (hcur ▸ ainv_updGen a he hin).setPc t _
    · exact (hcur ▸ ainv_updGen a he hin).setPc t _
  · apply AInv.setPc
    have hmem' : ∀ x ∈ s.heap ++ [(⟨c, k, .loading, 0, s.cur c, 0, false, true⟩ : Entry)],
        x ∈ s.heap ∨ x = ⟨c, k, .loading, 0, s.cur c, 0, false, true⟩ := by
      intro x hx
      rcases List.mem_append.mp hx with h | h
      · exact Or.inl h
      · exact Or.inr (by simpa using h)
    refine ⟨a.gl, a.fresh, a.managed, ?_, ?_, ?_, ?_, ?_, ?_⟩
    rotate_right
    · intro x hx
      rcases hmem' x hx with hx | rfl
      · exact a.cachelt x hx
      · exact hc
    · intro g hg
      show s.gsize g = genLive (s.heap ++ [_]) g
      rw [genLive_append, a.acc g hg]; simp [contrib]
    · intro x hx hst
      rcases hmem' x hx with hx | rfl
      · exact a.loading0 x hx hst
      · rfl
    · intro x hx hxin
      rcases hmem' x hx with hx | rfl
      · exact a.inmap x hx hxin
      · exact ⟨hc, hrel, rfl, hcur ▸ a.lastGen_lt, by simp⟩
    · intro x hx hxin hst
      rcases hmem' x hx with hx | rfl
      · exact a.orphan x hx hxin hst
      · simp at hxin
    · intro x hx hxin hst
      rcases hmem' x hx with hx | rfl
      · exact a.valid x hx hxin hst
      · simp at hst

/-! ## the loader returns -/

theorem ainv_save {cfg : Cfg} (hes : 0 < cfg.entrySize) {s : St} (a : AInv cfg s) (v : VInv s) (t c k eid val sz : Nat)
    (ht : s.pc t = .loading c k eid) : AInv cfg (save cfg s t c k eid val sz).1 := by
  obtain ⟨e, he, hc, hk, hst⟩ := v.loading_own t c k eid ht
  have hmem : e ∈ s.heap := List.mem_of_getElem? he
  have hsz : e.size = 0 := a.loading0 e hmem hst
  unfold save
  rw [he]
  simp only
  split
  · -- evicted or released while loading: published with size 0, not accounted
    rename_i hdel
    have hnin : e.inMap = false := by
      cases h : e.inMap
      · rfl
      · have := (a.inmap e hmem h).2.2.1; rw [hdel] at this; cases this
    apply AInv.setPc
    have hmem' : ∀ x ∈ s.heap.set eid { e with val := val, size := 0, st := .valid },
        x ∈ s.heap ∨ x = { e with val := val, size := 0, st := .valid } := fun x hx => List.mem_or_eq_of_mem_set hx
    refine ⟨a.gl, a.fresh, a.managed, ?_, ?_, ?_, ?_, ?_, ?_⟩
    rotate_right
    · intro x hx
      rcases hmem' x hx with hx | rfl
      · exact a.cachelt x hx
      · exact a.cachelt e hmem
    · intro g hg
      show s.gsize g = genLive (s.heap.set eid _) g
      rw [genLive_set _ _ _ _ _ he, a.acc g hg]; simp [contrib, hnin]
    · intro x hx hxst
      rcases hmem' x hx with hx | rfl
      · exact a.loading0 x hx hxst
      · rfl
    · intro x hx hxin
      rcases hmem' x hx with hx | rfl
      · exact a.inmap x hx hxin
      · simp [hnin] at hxin
    · intro x hx hxin hxst
      rcases hmem' x hx with hx | rfl
      · exact a.orphan x hx hxin hxst
      · simp at hxst
    · intro x hx hxin hxst
      rcases hmem' x hx with hx | rfl
      · exact a.valid x hx hxin hxst
      · simp [hnin] at hxin
  · -- still wanted: it is in the map of a live cache; assigned to the newest generation and accounted
    rename_i hdel
    have hin : e.inMap = true := by
      cases h : e.inMap
      · have := a.orphan e hmem h hst; exact absurd this hdel
      · rfl
    have him := a.inmap e hmem hin
    have hcur : s.cur c = s.lastGen := (a.managed c (hc ▸ him.1) (hc ▸ him.2.1)).2
    apply AInv.setPc
    have hmem' : ∀ x ∈ s.heap.set eid { e with val := val, size := cfg.entrySize + sz, st := .valid, gen := s.cur c },
        x ∈ s.heap ∨ x = { e with val := val, size := cfg.entrySize + sz, st := .valid, gen := s.cur c } :=
      fun x hx => List.mem_or_eq_of_mem_set hx
    refine ⟨a.gl, ?_, a.managed, ?_, ?_, ?_, ?_, ?_, ?_⟩
    rotate_right
    · intro x hx
      rcases hmem' x hx with hx | rfl
      · exact a.cachelt x hx
      · exact a.cachelt e hmem
    · intro g hg
      have := a.fresh g hg
      have hg' : s.ngens ≤ g := hg
      have hlt := a.lastGen_lt
      refine ⟨?_, this.2⟩
      show mget 0 (addG s.gsizeL (s.cur c) ((cfg.entrySize + sz : Nat) : Int)) g = 0
      rw [addG_get, if_neg (by omega)]; exact this.1
    · intro g hg
      show mget 0 (addG s.gsizeL (s.cur c) ((cfg.entrySize + sz : Nat) : Int)) g = genLive (s.heap.set eid _) g
      rw [genLive_set _ _ _ _ _ he, addG_get]
      have hacc := a.acc g hg
      simp only [St.gsize] at hacc
      simp only [contrib, hin, true_and, hsz]
      by_cases h1 : g = s.cur c
      · subst h1; simp; omega
      · have h2 : ¬ s.cur c = g := fun h => h1 h.symm
        simp [h1, h2]; omega
    · intro x hx hxst
      rcases hmem' x hx with hx | rfl
      · exact a.loading0 x hx hxst
      · simp at hxst
    · intro x hx hxin
      rcases hmem' x hx with hx | rfl
      · exact a.inmap x hx hxin
      · exact ⟨him.1, him.2.1, him.2.2.1, hcur ▸ a.lastGen_lt, by simp⟩
    · intro x hx hxin hxst
      rcases hmem' x hx with hx | rfl
      · exact a.orphan x hx hxin hxst
      · simp at hxst
    · intro x hx hxin hxst
      rcases hmem' x hx with hx | rfl
      · exact a.valid x hx hxin hxst
      · exact ⟨by show 0 < cfg.entrySize + sz; omega, Or.inl (hcur ▸ a.lastGen_mem)⟩

theorem ainv_recover {cfg : Cfg} {s : St} (a : AInv cfg s) (v : VInv s) (t c k eid : Nat)
    (ht : s.pc t = .loading c k eid) : AInv cfg (recover s t c k eid) := by
  obtain ⟨e, he, hc, hk, hst⟩ := v.loading_own t c k eid ht
  have hmem : e ∈ s.heap := List.mem_of_getElem? he
  have hsz : e.size = 0 := a.loading0 e hmem hst
  unfold recover
  rw [he]
  simp only
  apply AInv.setPc
  have hmem' : ∀ x ∈ s.heap.set eid { e with st := .abandoned, inMap := false },
      x ∈ s.heap ∨ x = { e with st := .abandoned, inMap := false } := fun x hx => List.mem_or_eq_of_mem_set hx
  refine ⟨a.gl, a.fresh, a.managed, ?_, ?_, ?_, ?_, ?_, ?_⟩
  rotate_right
  · intro x hx
    rcases hmem' x hx with hx | rfl
    · exact a.cachelt x hx
    · exact a.cachelt e hmem
  · intro g hg
    show s.gsize g = genLive (s.heap.set eid _) g
    rw [genLive_set _ _ _ _ _ he, a.acc g hg]; simp [contrib, hsz]
  · intro x hx hxst
    rcases hmem' x hx with hx | rfl
    · exact a.loading0 x hx hxst
    · simp at hxst
  · intro x hx hxin
    rcases hmem' x hx with hx | rfl
    · exact a.inmap x hx hxin
    · simp at hxin
  · intro x hx hxin hxst
    rcases hmem' x hx with hx | rfl
    · exact a.orphan x hx hxin hxst
    · simp at hxst
  · intro x hx hxin hxst
    rcases hmem' x hx with hx | rfl
    · exact a.valid x hx hxin hxst
    · simp at hxin

/-! ## Release -/

theorem ainv_release {cfg : Cfg} {s : St} (a : AInv cfg s) (c : Nat) (hc : c < s.ncaches) : AInv cfg (release s c) := by
  have hm : Managed (release s c) := by
    have : step cfg s (.release c) = some (release s c, .none) := by simp [step, hc]
    exact step_managed cfg a.managed this
  have hrel' : ∀ c', c' ≠ c → (release s c).released c' = s.released c' := by
    intro c' hne
    show mget false (mset false s.relL c true) c' = _
    rw [mget_mset, if_neg hne]; rfl
  refine ⟨a.gl, ?_, hm, ?_, ?_, ?_, ?_, ?_, ?_⟩
  rotate_right
  · intro x hx
    simp only [release, List.mem_map] at hx
    obtain ⟨e, he, rfl⟩ := hx
    show (if e.cache = c then _ else e).cache < s.ncaches
    split <;> exact a.cachelt e he
  · intro g hg
    have := a.fresh g hg
    have hg' : s.ngens ≤ g := hg
    refine ⟨?_, this.2⟩
    show mget 0 (relGens c s.heap s.gsizeL) g = 0
    rw [relGens_get]
    have h0 : relSum c s.heap g = 0 := by
      apply sum_map_zero
      intro e he
      split
      · rename_i h
        have := (a.inmap e he h.2.1).2.2.2.1
        have := h.2.2
        omega
      · rfl
    have := this.1
    simp only [St.gsize] at this
    rw [this, h0]; rfl
  · intro g hg
    show mget 0 (relGens c s.heap s.gsizeL) g = genLive (s.heap.map _) g
    rw [relGens_get, genLive_release]
    have := a.acc g hg
    simp only [St.gsize] at this
    rw [this]
  · intro x hx hst
    simp only [release, List.mem_map] at hx
    obtain ⟨e, he, rfl⟩ := hx
    by_cases hec : e.cache = c
    · simp only [hec, if_true] at hst ⊢; exact a.loading0 e he hst
    · simp only [hec, if_false] at hst ⊢; exact a.loading0 e he hst
  · intro x hx hxin
    simp only [release, List.mem_map] at hx
    obtain ⟨e, he, rfl⟩ := hx
    by_cases hec : e.cache = c
    · simp [hec] at hxin
    · simp only [hec, if_false] at hxin ⊢
      have := a.inmap e he hxin
      exact ⟨this.1, (hrel' e.cache hec).trans this.2.1, this.2.2⟩
  · intro x hx hxin hst
    simp only [release, List.mem_map] at hx
    obtain ⟨e, he, rfl⟩ := hx
    by_cases hec : e.cache = c
    · simp only [hec, if_true] at hxin hst ⊢
      cases hin : e.inMap
      · simp [a.orphan e he hin hst]
      · simp
    · simp only [hec, if_false] at hxin hst ⊢
      exact a.orphan e he hxin hst
  · intro x hx hxin hst
    simp only [release, List.mem_map] at hx
    obtain ⟨e, he, rfl⟩ := hx
    by_cases hec : e.cache = c
    · simp [hec] at hxin
    · simp only [hec, if_false] at hxin hst ⊢
      exact a.valid e he hxin hst

/-! ## Rotate, NewCache, ReleaseBuckets -/

theorem ainv_doRotate {cfg : Cfg} {s : St} (a : AInv cfg s) : AInv cfg (doRotate s) := by
  have hnotin : s.ngens ∉ s.glist := fun h => by have := (a.gl.2.1 _ h).1; omega
  refine ⟨⟨?_, ?_, ?_⟩, ?_, managed_doRotate a.managed, ?_, a.loading0, ?_, a.orphan, ?_, a.cachelt⟩
  · show (s.glist ++ [s.ngens]).Nodup
    rw [List.nodup_append]
    refine ⟨a.gl.1, by simp, ?_⟩
    intro x hx b hb
    simp only [List.mem_singleton] at hb; subst hb
    intro h; subst h; exact hnotin hx
  · intro g hg
    show g < s.ngens + 1 ∧ s.stale g = false
    rcases List.mem_append.mp hg with hg | hg
    · have := a.gl.2.1 g hg; exact ⟨by omega, this.2⟩
    · simp only [List.mem_singleton] at hg; subst hg
      exact ⟨by omega, (a.fresh _ (Nat.le_refl _)).2⟩
  · show (s.glist ++ [s.ngens]).getLast? = some s.ngens
    simp
  · intro g hg
    show s.gsize g = 0 ∧ s.stale g = false
    exact a.fresh g (by have : s.ngens + 1 ≤ g := hg; omega)
  · intro g hg
    show s.gsize g = genLive s.heap g
    rcases List.mem_append.mp hg with hg | hg
    · exact a.acc g hg
    · simp only [List.mem_singleton] at hg; subst hg
      rw [(a.fresh _ (Nat.le_refl _)).1, genLive_fresh a (Nat.le_refl _)]
  · intro e he hin
    have := a.inmap e he hin
    exact ⟨this.1, this.2.1, this.2.2.1, by show e.gen < s.ngens + 1; omega, this.2.2.2.2⟩
  · intro e he hin hst
    have := a.valid e he hin hst
    refine ⟨this.1, ?_⟩
    rcases this.2 with h | h
    · exact Or.inl (List.mem_append_left _ h)
    · exact Or.inr h

theorem ainv_newCache {cfg : Cfg} {s : St} (a : AInv cfg s) : AInv cfg (newCache s) := by
  have hm : Managed (newCache s) := step_managed cfg a.managed (l := .newCache) (o := .none) rfl
  refine ⟨a.gl, a.fresh, hm, a.acc, a.loading0, ?_, a.orphan, a.valid, fun e he => by have := a.cachelt e he; show e.cache < s.ncaches + 1; omega⟩
  intro e he hin
  have := a.inmap e he hin
  refine ⟨by show e.cache < s.ncaches + 1; omega, ?_, this.2.2⟩
  show mget false (mset false s.relL s.ncaches false) e.cache = false
  rw [mget_mset]; split
  · rfl
  · exact this.2.1

theorem ainv_releaseBuckets {cfg : Cfg} {s : St} (a : AInv cfg s) (ht : s.todo = none) :
    AInv cfg { s with buckets := releaseBuckets s.released s.buckets } := by
  have hm : Managed { s with buckets := releaseBuckets s.released s.buckets } := by
    have : step cfg s .releaseBuckets = some ({ s with buckets := releaseBuckets s.released s.buckets },
        .count (s.buckets.length - (releaseBuckets s.released s.buckets).length)) := by
      simp [step, ht]
    exact step_managed cfg a.managed this
  exact ⟨a.gl, a.fresh, hm, a.acc, a.loading0, a.inmap, a.orphan, a.valid, a.cachelt⟩

end SV.Cache
