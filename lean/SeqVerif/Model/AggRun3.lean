import SeqVerif.Model.AggRun2
set_option linter.unusedSimpArgs false
set_option linter.unusedVariables false
/-!
Helper lemmas for C06, part 5: correctness of the TwoSourceAggregator (group by + field).
-/
namespace SV.Agg

theorem mem_expand {κ : Type} [DecidableEq κ] (m : List (κ × Nat)) (hp : AllPos m) (kc : κ × Nat) (h : kc ∈ m) :
    kc.1 ∈ expand m := by
  unfold expand
  rw [List.mem_flatMap]
  exact ⟨kc, h, List.mem_replicate.mpr ⟨by have := hp kc h; omega, rfl⟩⟩

/-- first loop of `Aggregate` seen from one bin -/
theorem firstLoop_lookup (gval : Nat → String) (hinj : ∀ a b, gval a = gval b → a = b)
    (gbne : List ((Nat × Nat) × Nat)) (hn : KeysNodup gbne) (hpos : AllPos gbne) (collect : Bool) (m g : Nat) :
    let bins0 := gbne.foldl (fun bs gc => upsert ⟨gc.1.1, gval gc.1.2⟩ (fun c => { c with notExists := gc.2 }) bs) []
    let N := ((expand gbne).filter fun k => k = (m, g)).length
    (bins0.lookup ⟨m, gval g⟩ = none ∧ N = 0) ∨
    (∃ c, bins0.lookup ⟨m, gval g⟩ = some c ∧ N ≠ 0 ∧ Rep [] N collect c) := by
  intro bins0 N
  have hl := lookup_foldl_upsert (fun gc : (Nat × Nat) × Nat => (⟨gc.1.1, gval gc.1.2⟩ : Bin))
    (fun gc c => { c with notExists := gc.2 }) gbne [] ⟨m, gval g⟩
  have hf : gbne.filter (fun gc => (⟨gc.1.1, gval gc.1.2⟩ : Bin) = ⟨m, gval g⟩) = gbne.filter (fun gc => gc.1 = (m, g)) := by
    apply List.filter_congr
    intro gc _
    simp only [Bin.mk.injEq, decide_eq_decide]
    exact ⟨fun e => Prod.ext e.1 (hinj _ _ e.2), fun e => by rw [e]; exact ⟨rfl, rfl⟩⟩
  rw [hf] at hl
  have hN : N = (expand (gbne.filter fun gc => gc.1 = (m, g))).length := by
    show ((expand gbne).filter fun k => k = (m, g)).length = _
    rw [← expand_filter (fun k => decide (k = (m, g)))]
  rcases filter_key_le_one gbne hn (m, g) with h0 | ⟨c, h1⟩
  · left
    rw [h0] at hl hN
    exact ⟨by simpa using hl, by simpa [expand] using hN⟩
  · right
    rw [h1] at hl hN
    have hc : 0 < c := hpos ((m, g), c) (by
      have : ((m, g), c) ∈ gbne.filter (fun gc => gc.1 = (m, g)) := by rw [h1]; simp
      exact (List.mem_filter.mp this).1)
    have hN' : N = c := by simpa [expand] using hN
    refine ⟨_, by simpa using hl, by omega, ?_⟩
    rw [hN']
    have := Rep.new collect
    exact ⟨this.total, rfl, this.sum, this.min, this.max, this.samples⟩

theorem evVals_length (fv : Nat → Int) (l : List Ev) (h : ∀ ev, ev ∈ l → ev.f.isSome = true) :
    (evVals fv l).length = l.length := by
  induction l with
  | nil => rfl
  | cons ev l ih =>
    have h1 := h ev (by simp)
    cases hf : ev.f with
    | none => simp [hf] at h1
    | some s =>
      have := ih (fun e he => h e (List.mem_cons_of_mem _ he))
      simp [evVals, List.filterMap_cons, hf] at this ⊢
      exact this

/-- **TwoSourceAggregator**: for every time bin `m` and group source `g`, the bin `(m, gval g)` is present exactly
when a matching document of that bin and group carries the field (or, for the bin without time, when documents of the
group lack it), and its container summarises exactly those documents' field values; documents with the field but
without a group are counted in `NotExists`. -/
theorem twoRun_spec (pb : Bool) (lim : Nat) (pick : List Int → Nat) (collect : Bool) (gval : Nat → String)
    (fval : Nat → Option Int) (evs : List Ev)
    (hinj : ∀ a b, gval a = gval b → a = b) (hp : ParseOk fval evs)
    (hl : collect = true → ∀ m g, (twoDocs m g evs).length ≤ lim) :
    ∃ a, twoRun pb lim pick collect gval fval evs = some a ∧
      a.notExists = (evs.filter fun ev => ev.g.isNone && ev.f.isSome).length ∧
      ∀ m g,
        (a.get ⟨m, gval g⟩ = none ∧ twoDocs m g evs = [] ∧ twoMissing pb m g evs = 0) ∨
        (∃ c, a.get ⟨m, gval g⟩ = some c ∧ (twoDocs m g evs ≠ [] ∨ twoMissing pb m g evs ≠ 0) ∧
           Rep (evVals (fun s => (fval s).getD 0) (twoDocs m g evs)) (twoMissing pb m g evs) collect c) := by
  let fv : Nat → Int := fun s => (fval s).getD 0
  have P1 := countMap_props ([] : List ((Nat × Nat) × Nat)) (twoK1 pb evs) (by simp [KeysNodup]) (by intro kc h; simp at h)
  have P2 := countMap_props ([] : List ((Nat × Nat × Nat) × Nat)) (twoK2 evs) (by simp [KeysNodup]) (by intro kc h; simp at h)
  have hparse : ∀ kc, kc ∈ countMap [] (twoK2 evs) → (fval kc.1.2.2).isSome = true := by
    intro kc hkc
    have h1 := mem_expand _ P2.2.1 kc hkc
    have h2 : kc.1 ∈ twoK2 evs := by simpa [expand] using P2.2.2.mem_iff.mp h1
    unfold twoK2 at h2
    obtain ⟨ev, hev, he⟩ := List.mem_filterMap.mp h2
    cases hg : ev.g <;> cases hf : ev.f <;> simp [hg, hf] at he
    rw [← he]
    exact hp ev hev _ hf
  refine ⟨_, by
    unfold twoRun twoAggregate
    rw [twoStep_fold pb]
    simp only [TwoSt.init]
    rw [twoParse_ok fval _ hparse]
    rfl, by simp [TwoSt.init], ?_⟩
  intro m g
  simp only [AS.get, TwoSt.init]
  -- the second loop seen from the bin
  rw [lookup_foldl_upsert (fun e : (Nat × Nat × Nat) × Int × Nat => (⟨e.1.1, gval e.1.2.1⟩ : Bin))
    (fun e c => twoIns lim pick collect e.2.1 e.2.2 c)]
  have hfilter : ((countMap [] (twoK2 evs)).map fun kc => (kc.1, (fval kc.1.2.2).getD 0, kc.2)).filter
      (fun e => (⟨e.1.1, gval e.1.2.1⟩ : Bin) = ⟨m, gval g⟩) =
      ((countMap [] (twoK2 evs)).filter fun kc => kc.1.1 = m ∧ kc.1.2.1 = g).map fun kc => (kc.1, fv kc.1.2.2, kc.2) := by
    rw [List.filter_map]
    congr 1
    apply List.filter_congr
    intro kc _
    simp only [Function.comp, Bin.mk.injEq, decide_eq_decide]
    exact ⟨fun e => ⟨e.1, hinj _ _ e.2⟩, fun e => ⟨e.1, by rw [e.2]⟩⟩
  rw [hfilter]
  -- the values inserted into the bin are the field values of its documents
  have hvals : ((((countMap [] (twoK2 evs)).filter fun kc => kc.1.1 = m ∧ kc.1.2.1 = g).map
        fun kc => (kc.1, fv kc.1.2.2, kc.2)).flatMap fun e => List.replicate e.2.2 e.2.1).Perm
      (evVals fv (twoDocs m g evs)) := by
    rw [List.flatMap_map]
    simp only []
    rw [← expand_map (fun key : Nat × Nat × Nat => fv key.2.2)]
    rw [expand_filter (fun key : Nat × Nat × Nat => decide (key.1 = m ∧ key.2.1 = g))]
    rw [← twoKeys_filter fv m g evs]
    apply List.Perm.map
    apply List.Perm.filter
    simpa [expand] using P2.2.2
  have hposE : ∀ e, e ∈ ((countMap [] (twoK2 evs)).filter fun kc => kc.1.1 = m ∧ kc.1.2.1 = g).map
      (fun kc => (kc.1, fv kc.1.2.2, kc.2)) → 0 < e.2.2 := by
    intro e he
    obtain ⟨kc, hkc, rfl⟩ := List.mem_map.mp he
    exact P2.2.1 kc (List.mem_filter.mp hkc).1
  -- the first loop
  have hN : ((expand (countMap [] (twoK1 pb evs))).filter fun k => k = (m, g)).length = twoMissing pb m g evs := by
    rw [← missingKeys_filter pb m g evs]
    apply List.Perm.length_eq
    apply List.Perm.filter
    simpa [expand] using P1.2.2
  have hfirst := firstLoop_lookup gval hinj (countMap [] (twoK1 pb evs)) P1.1 P1.2.1 collect m g
  simp only [hN] at hfirst
  have hdocs_len : (evVals fv (twoDocs m g evs)).length = (twoDocs m g evs).length :=
    evVals_length fv _ (fun ev hev => by
      have := (List.mem_filter.mp hev).2
      simp only [decide_eq_true_eq] at this
      exact this.2.2)
  -- abbreviations
  generalize hE : (((countMap [] (twoK2 evs)).filter fun kc => kc.1.1 = m ∧ kc.1.2.1 = g).map
      fun kc => (kc.1, fv kc.1.2.2, kc.2)) = Ek at hvals hposE ⊢
  generalize hB : (countMap [] (twoK1 pb evs)).foldl
      (fun bs gc => upsert ⟨gc.1.1, gval gc.1.2⟩ (fun c => { c with notExists := gc.2 }) bs) [] = bins0 at hfirst ⊢
  by_cases hEk : Ek = []
  · subst hEk
    have hv0 : evVals fv (twoDocs m g evs) = [] := by simpa using hvals.symm
    have hd0 : twoDocs m g evs = [] := by
      apply List.eq_nil_of_length_eq_zero; rw [← hdocs_len, hv0]; rfl
    simp only [List.filter_nil, if_true]
    rcases hfirst with ⟨h1, h2⟩ | ⟨c, h1, h3, h4⟩
    · left; exact ⟨h1, hd0, h2⟩
    · right
      refine ⟨c, h1, Or.inr h3, ?_⟩
      rw [hv0]; exact h4
  · right
    simp only [hEk, if_false]
    have hflat_ne : (Ek.flatMap fun e => List.replicate e.2.2 e.2.1) ≠ [] := by
      cases Ek with
      | nil => exact absurd rfl hEk
      | cons e rest =>
        have := hposE e (by simp)
        intro h0
        have : (List.replicate e.2.2 e.2.1).length = 0 := by
          have := congrArg List.length h0
          simp at this; omega
        simp at this; omega
    have hdne : twoDocs m g evs ≠ [] := by
      intro h0
      rw [h0] at hvals
      exact hflat_ne (by simpa [evVals] using hvals)
    have hc0 : Rep [] (twoMissing pb m g evs) collect ((bins0.lookup ⟨m, gval g⟩).getD SC.new) := by
      rcases hfirst with ⟨h1, h2⟩ | ⟨c, h1, h3, h4⟩
      · rw [h1, h2]; exact Rep.new collect
      · rw [h1]; exact h4
    refine ⟨_, rfl, Or.inl hdne, ?_⟩
    have := twoIns_rep lim pick collect Ek [] _ _ hc0 hposE (by
      intro hc
      have h1 := hl hc m g
      have h2 := hvals.length_eq
      simp only [List.length_nil, Nat.zero_add]
      omega)
    exact (by simpa using this : Rep (Ek.flatMap fun e => List.replicate e.2.2 e.2.1) _ collect _).perm hvals

end SV.Agg

namespace SV.Agg

/-- explicit form of a successful TwoSourceAggregator run -/
theorem twoRun_eq (pb : Bool) (lim : Nat) (pick : List Int → Nat) (collect : Bool) (gval : Nat → String)
    (fval : Nat → Option Int) (evs : List Ev) (hp : ParseOk fval evs) :
    twoRun pb lim pick collect gval fval evs = some
      ⟨((countMap [] (twoK2 evs)).map fun kc => (kc.1, (fval kc.1.2.2).getD 0, kc.2)).foldl
          (fun bs e => upsert ⟨e.1.1, gval e.1.2.1⟩ (twoIns lim pick collect e.2.1 e.2.2) bs)
          ((countMap [] (twoK1 pb evs)).foldl
            (fun bs gc => upsert ⟨gc.1.1, gval gc.1.2⟩ (fun c => { c with notExists := gc.2 }) bs) []),
        0 + (evs.filter fun ev => ev.g.isNone && ev.f.isSome).length⟩ := by
  have P2 := countMap_props ([] : List ((Nat × Nat × Nat) × Nat)) (twoK2 evs) (by simp [KeysNodup]) (by intro kc h; simp at h)
  have hparse : ∀ kc, kc ∈ countMap [] (twoK2 evs) → (fval kc.1.2.2).isSome = true := by
    intro kc hkc
    have h1 := mem_expand _ P2.2.1 kc hkc
    have h2 : kc.1 ∈ twoK2 evs := by simpa [expand] using P2.2.2.mem_iff.mp h1
    unfold twoK2 at h2
    obtain ⟨ev, hev, he⟩ := List.mem_filterMap.mp h2
    cases hg : ev.g <;> cases hf : ev.f <;> simp [hg, hf] at he
    rw [← he]
    exact hp ev hev _ hf
  unfold twoRun twoAggregate
  rw [twoStep_fold pb]
  simp only [TwoSt.init]
  rw [twoParse_ok fval _ hparse]
  rfl

/-- a bin whose token is not the value of any group source does not exist in the result -/
theorem twoRun_absent (pb : Bool) (lim : Nat) (pick : List Int → Nat) (collect : Bool) (gval : Nat → String)
    (fval : Nat → Option Int) (evs : List Ev) (hp : ParseOk fval evs) (k : Bin) (hk : ∀ g, gval g ≠ k.token) :
    ∃ a, twoRun pb lim pick collect gval fval evs = some a ∧ a.get k = none := by
  refine ⟨_, twoRun_eq pb lim pick collect gval fval evs hp, ?_⟩
  simp only [AS.get]
  rw [lookup_foldl_upsert (fun e : (Nat × Nat × Nat) × Int × Nat => (⟨e.1.1, gval e.1.2.1⟩ : Bin))
    (fun e c => twoIns lim pick collect e.2.1 e.2.2 c)]
  have h1 : ((countMap [] (twoK2 evs)).map fun kc => (kc.1, (fval kc.1.2.2).getD 0, kc.2)).filter
      (fun e => (⟨e.1.1, gval e.1.2.1⟩ : Bin) = k) = [] := by
    rw [List.filter_eq_nil_iff]
    intro e _
    simp only [decide_eq_true_eq]
    intro h; exact hk e.1.2.1 (by rw [← h])
  rw [h1]
  simp only [if_true]
  rw [lookup_foldl_upsert (fun gc : (Nat × Nat) × Nat => (⟨gc.1.1, gval gc.1.2⟩ : Bin)) (fun gc c => { c with notExists := gc.2 })]
  have h2 : (countMap [] (twoK1 pb evs)).filter (fun gc => (⟨gc.1.1, gval gc.1.2⟩ : Bin) = k) = [] := by
    rw [List.filter_eq_nil_iff]
    intro gc _
    simp only [decide_eq_true_eq]
    intro h; exact hk gc.1.2 (by rw [← h])
  rw [h2]; simp

end SV.Agg
