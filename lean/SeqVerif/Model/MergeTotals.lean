import SeqVerif.Model.MergeLemmas
import SeqVerif.Model.SearchDocs
/-!
Totals and histograms of `MergeQPRs` (helper lemmas for C05, C19): exact values in general, and the plain sums when no
ID is repeated among the inputs.
-/
namespace SV.Merge

theorem mergedTotal_eq (dst : QPR) (qs : List QPR) : mergedTotal dst qs = dst.total + (qs.map (·.total)).sum := by
  unfold mergedTotal
  induction qs generalizing dst with
  | nil => simp
  | cons q qs ih =>
    simp only [List.foldl_cons, List.map_cons, List.sum_cons]
    have := ih { dst with total := dst.total + q.total }
    simp only at this
    rw [this]; omega

theorem mergedAll_eq (desc : Bool) (dst : QPR) (qs : List QPR) : mergedAll desc dst qs = sortIds desc (allIds dst qs) := by
  simp only [mergedAll, allIds, foldl_append_ids]

theorem length_sd_le (desc : Bool) (xs : List Nat) : (sd desc xs).length ≤ xs.length := by
  have := length_removeRepetitions (sortIds desc xs)
  rw [length_sortIds] at this
  unfold sd; omega

/-- the number of repetitions removed = inputs minus distinct -/
theorem length_repetitions (desc : Bool) (xs : List Nat) :
    (repetitions (sortIds desc xs)).length = xs.length - (sd desc xs).length := by
  have := length_removeRepetitions (sortIds desc xs)
  rw [length_sortIds] at this
  unfold sd; omega

theorem length_sd_of_nodup (desc : Bool) (xs : List Nat) (h : xs.Nodup) : (sd desc xs).length = xs.length :=
  List.Perm.length_eq ((List.perm_ext_iff_of_nodup (sortedBy_nodup desc _ (sd_sorted desc xs)) h).mpr
    (fun v => mem_sd desc v xs))

theorem repetitions_nil_of_nodup (desc : Bool) (xs : List Nat) (h : xs.Nodup) : repetitions (sortIds desc xs) = [] := by
  apply List.eq_nil_of_length_eq_zero
  rw [length_repetitions, length_sd_of_nodup desc xs h]; omega

/-- **total of a merge, exactly**: the sum of the totals, minus (when positive, with uint64 wrap) the number of
repeated IDs among the ID lists handed in -/
theorem mergeQPRs_total (desc : Bool) (dst : QPR) (qs : List QPR) (limit hi : Nat) :
    (mergeQPRs desc dst qs limit hi).total =
      subTotal (dst.total + (qs.map (·.total)).sum) ((allIds dst qs).length - (sd desc (allIds dst qs)).length) := by
  simp only [mergeQPRs, mergedAll_eq, length_repetitions, mergedTotal_eq]

theorem subTotal_zero (t : Nat) : subTotal t 0 = t := by
  unfold subTotal; split <;> simp

theorem mergeQPRs_total_nodup (desc : Bool) (dst : QPR) (qs : List QPR) (limit hi : Nat) (h : (allIds dst qs).Nodup) :
    (mergeQPRs desc dst qs limit hi).total = dst.total + (qs.map (·.total)).sum := by
  rw [mergeQPRs_total, length_sd_of_nodup desc _ h, Nat.sub_self, subTotal_zero]

/-! ## histograms -/

/-- the count a Go map iteration over `q` adds to key `k` (keys of a map are unique; then this is `get`) -/
def Hist.sumAt (q : Hist) (k : Nat) : Nat := ((q.filter (fun p => p.1 = k)).map (·.2)).sum

theorem get_addHist (h q : Hist) (k : Nat) : Hist.get (addHist h q) k = Hist.get h k + Hist.sumAt q k := by
  unfold addHist Hist.sumAt
  induction q generalizing h with
  | nil => simp
  | cons p q ih =>
    simp only [List.foldl_cons]
    rw [ih, Hist.get_upd]
    by_cases hk : k = p.1
    · subst hk; simp; omega
    · have : ¬ p.1 = k := fun h => hk h.symm
      simp [hk, this]

theorem sumAt_eq_get (q : Hist) (k : Nat) (h : (q.map (·.1)).Nodup) : Hist.sumAt q k = Hist.get q k := by
  unfold Hist.sumAt
  induction q with
  | nil => simp [Hist.get]
  | cons p q ih =>
    obtain ⟨k', v⟩ := p
    simp only [List.map_cons, List.nodup_cons] at h
    simp only [Hist.get, List.filter_cons]
    by_cases hk : k' = k
    · subst hk
      simp only [decide_true, if_true, List.map_cons, List.sum_cons]
      have : (q.filter (fun p => p.1 = k')) = [] := by
        apply List.filter_eq_nil_iff.mpr
        intro p hp
        simp only [decide_eq_true_eq]
        intro hpk
        exact h.1 (List.mem_map.mpr ⟨p, hp, hpk⟩)
      simp [this]
    · simp only [hk, decide_false, if_false, Bool.false_eq_true]
      exact ih h.2

/-- bucket membership count -/
def cntBucket (hi k : Nat) (xs : List Nat) : Nat := (xs.filter (fun d => bucket hi d = k)).length

theorem cntBucket_append (hi k : Nat) (xs ys : List Nat) :
    cntBucket hi k (xs ++ ys) = cntBucket hi k xs + cntBucket hi k ys := by
  simp [cntBucket, List.filter_append]

theorem cntBucket_nil (hi k : Nat) : cntBucket hi k [] = 0 := rfl

theorem get_foldl_inc (hi : Nat) (docs : List Nat) (h : Hist) (k : Nat) :
    Hist.get (docs.foldl (fun h d => Hist.upd h (bucket hi d) (· + 1)) h) k = Hist.get h k + cntBucket hi k docs := by
  induction docs generalizing h with
  | nil => simp [cntBucket]
  | cons d ds ih =>
    simp only [List.foldl_cons]
    rw [ih, Hist.get_upd]
    by_cases hk : k = bucket hi d
    · subst hk; simp [cntBucket]; omega
    · have : ¬ bucket hi d = k := fun h => hk h.symm
      simp [hk, this, cntBucket]

/-- the histogram of one fraction counts its documents per bucket -/
theorem get_histOf (hi : Nat) (docs : List Nat) (k : Nat) : Hist.get (histOf hi docs) k = cntBucket hi k docs := by
  unfold histOf
  rw [get_foldl_inc]; simp [Hist.get]

theorem keys_upd (h : Hist) (k : Nat) (f : Nat → Nat) (hn : (h.map (·.1)).Nodup) :
    ((Hist.upd h k f).map (·.1)).Nodup ∧ ∀ x, x ∈ (Hist.upd h k f).map (·.1) ↔ x = k ∨ x ∈ h.map (·.1) := by
  induction h with
  | nil => simp [Hist.upd]
  | cons p t ih =>
    obtain ⟨k', v⟩ := p
    simp only [List.map_cons, List.nodup_cons] at hn
    simp only [Hist.upd]
    split
    · rename_i hk; subst hk
      simp only [List.map_cons, List.nodup_cons, List.mem_cons]
      exact ⟨hn, fun x => by grind⟩
    · rename_i hk
      have := ih hn.2
      simp only [List.map_cons, List.nodup_cons, List.mem_cons]
      refine ⟨⟨?_, this.1⟩, fun x => by rw [this.2 x]; grind⟩
      intro hmem
      rcases (this.2 k').mp hmem with h1 | h1
      · exact hk h1
      · exact hn.1 h1

theorem keys_histOf_nodup (hi : Nat) (docs : List Nat) : ((histOf hi docs).map (·.1)).Nodup := by
  unfold histOf
  suffices ∀ h : Hist, (h.map (·.1)).Nodup →
      ((docs.foldl (fun h d => Hist.upd h (bucket hi d) (· + 1)) h).map (·.1)).Nodup from this [] (by simp)
  induction docs with
  | nil => intro h hn; simpa using hn
  | cons d ds ih => intro h hn; exact ih _ (keys_upd h _ _ hn).1

/-- reading an optional (possibly nil) map -/
def histGet (h : Option Hist) (k : Nat) : Nat := Hist.get (h.getD []) k

theorem get_decHist_nil (hi : Nat) (h : Hist) : decHist hi h [] = h := rfl

end SV.Merge
