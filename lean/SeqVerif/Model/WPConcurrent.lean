import SeqVerif.Model.WritePath
/-!
# C01 - two concurrent `ActiveWriter.Write` calls, step by step

Each writer goes through: take `a.mu` (pc 0 -> 1), `a.docs.Write` (the FileWriter reserves the offset and writes,
pc 1 -> 2; the offset is remembered for `SetExt2`), stamp + `a.meta.Write` + hand the block to the indexer + release
(pc 2 -> 3).  `mutex = false` is `ActiveWriter.Write` without the lock.  A schedule is the list of which writer
moves next; a writer that cannot move (lock taken) or has finished skips its turn.  Core-only.
-/
namespace SV.WPath

/-- `a.docs.Write(docs)`: the docs block lands at the current docs offset -/
def docsStep (st : St) (d : Bytes) : St :=
  { st with docs := writeAt st.docs st.offD d, offD := st.offD + d.length }

/-- `SetExt1(len(docs))`, `SetExt2(offset)`, `a.meta.Write(meta)`, `indexer.Index` -/
def metaStep (st : St) (d m : Bytes) (off : Nat) : St :=
  { st with
    mfile := writeAt st.mfile st.offM (stampMeta m d.length off)
    offM := st.offM + (stampMeta m d.length off).length
    idx := st.idx ++ [⟨stampMeta m d.length off, off⟩] }

theorem metaStep_docsStep (st : St) (d m : Bytes) : metaStep (docsStep st d) d m st.offD = append st d m := by
  simp [metaStep, docsStep, append]

structure CS where
  st : St
  pa : Nat          -- pc of writer A: 0 wants the lock, 1 holds it, 2 docs written, 3 done
  pb : Nat
  offA : Nat        -- docs offset writer A was given
  offB : Nat
  lock : Option Bool  -- who holds `a.mu` (false = A, true = B)
deriving DecidableEq, Repr

def cinit (st : St) : CS := ⟨st, 0, 0, 0, 0, none⟩

/-- one move of writer `w` (false = A with blocks `da ma`, true = B) -/
def cstep (mutex : Bool) (da ma db mb : Bytes) (c : CS) (w : Bool) : CS :=
  if w = false then
    match c.pa with
    | 0 => if mutex ∧ c.lock ≠ none then c else { c with pa := 1, lock := if mutex then some false else c.lock }
    | 1 => { c with st := docsStep c.st da, offA := c.st.offD, pa := 2 }
    | 2 => { c with st := metaStep c.st da ma c.offA, pa := 3, lock := if mutex then none else c.lock }
    | _ => c
  else
    match c.pb with
    | 0 => if mutex ∧ c.lock ≠ none then c else { c with pb := 1, lock := if mutex then some true else c.lock }
    | 1 => { c with st := docsStep c.st db, offB := c.st.offD, pb := 2 }
    | 2 => { c with st := metaStep c.st db mb c.offB, pb := 3, lock := if mutex then none else c.lock }
    | _ => c

def crun (mutex : Bool) (da ma db mb : Bytes) (c : CS) (sched : List Bool) : CS :=
  sched.foldl (cstep mutex da ma db mb) c

/-- the states two serialised writers can be in, and what the store looks like in each -/
def Serial (st0 : St) (da ma db mb : Bytes) (c : CS) : Prop :=
  (c.pa = 0 ∧ c.pb = 0 ∧ c.lock = none ∧ c.st = st0) ∨
  (c.pa = 1 ∧ c.pb = 0 ∧ c.lock = some false ∧ c.st = st0) ∨
  (c.pa = 2 ∧ c.pb = 0 ∧ c.lock = some false ∧ c.st = docsStep st0 da ∧ c.offA = st0.offD) ∨
  (c.pa = 3 ∧ c.pb = 0 ∧ c.lock = none ∧ c.st = append st0 da ma) ∨
  (c.pa = 3 ∧ c.pb = 1 ∧ c.lock = some true ∧ c.st = append st0 da ma) ∨
  (c.pa = 3 ∧ c.pb = 2 ∧ c.lock = some true ∧ c.st = docsStep (append st0 da ma) db ∧ c.offB = (append st0 da ma).offD) ∨
  (c.pa = 3 ∧ c.pb = 3 ∧ c.lock = none ∧ (c.st = append (append st0 da ma) db mb ∨ c.st = append (append st0 db mb) da ma)) ∨
  (c.pa = 0 ∧ c.pb = 1 ∧ c.lock = some true ∧ c.st = st0) ∨
  (c.pa = 0 ∧ c.pb = 2 ∧ c.lock = some true ∧ c.st = docsStep st0 db ∧ c.offB = st0.offD) ∨
  (c.pa = 0 ∧ c.pb = 3 ∧ c.lock = none ∧ c.st = append st0 db mb) ∨
  (c.pa = 1 ∧ c.pb = 3 ∧ c.lock = some false ∧ c.st = append st0 db mb) ∨
  (c.pa = 2 ∧ c.pb = 3 ∧ c.lock = some false ∧ c.st = docsStep (append st0 db mb) da ∧ c.offA = (append st0 db mb).offD)

theorem serial_step (st0 : St) (da ma db mb : Bytes) (c : CS) (w : Bool) (h : Serial st0 da ma db mb c) :
    Serial st0 da ma db mb (cstep true da ma db mb c w) := by
  obtain ⟨st, pa, pb, offA, offB, lock⟩ := c
  simp only [Serial] at h
  rcases h with h | h | h | h | h | h | h | h | h | h | h | h <;>
    (cases w <;> simp only [cstep] <;> simp_all [Serial, metaStep_docsStep])

theorem serial_run (st0 : St) (da ma db mb : Bytes) (sched : List Bool) (c : CS) (h : Serial st0 da ma db mb c) :
    Serial st0 da ma db mb (crun true da ma db mb c sched) := by
  induction sched generalizing c with
  | nil => exact h
  | cons w ws ih => exact ih _ (serial_step st0 da ma db mb c w h)

/-- `ActiveWriter.Write` that trusts the client's Ext1 (does not call `SetExt1`) -/
def appendKeepExt1 (st : St) (d m : Bytes) : St :=
  { st with
    docs := writeAt st.docs st.offD d
    mfile := writeAt st.mfile st.offM (setExt2 m st.offD)
    offD := st.offD + d.length
    offM := st.offM + (setExt2 m st.offD).length
    idx := st.idx ++ [⟨setExt2 m st.offD, st.offD⟩] }

end SV.WPath
