import SeqVerif.Model.FracInfo
import SeqVerif.Extracted.C14
/-! The constants of frac/info.go as re-extracted from /repo on every run (shared by Props/C14 and Drv/C14). -/
namespace SV.FracInfo

def extractedConsts : Consts :=
  ⟨SV.Extracted.C14.distributionMaxInterval, SV.Extracted.C14.distributionBucket,
   SV.Extracted.C14.distributionSpreadThreshold⟩

end SV.FracInfo
