import SeqVerif.Model.WPIndex
/-!
# C01 - the uncompressed codec (`disk.CodecNo`, `PackDocBlock`) and the binary layout of `frac.MetaData`
(`MarshalBinaryTo` version 1: magic 0x3F7C, version, MID, RID, size, token count, tokens as length-prefixed
key and value), each record prefixed by its 4-byte length (`DocProvider.appendMeta`).  Used by the driver for the
`index` channel and as the concrete instance in the non-vacuity examples.  Core-only.
-/
namespace SV.WPath

/-- `n` tokens: `le32 klen, key, le32 vlen, value`; the collector indexes `key:value` -/
def parseTokens : Nat → Bytes → List Bytes
  | 0, _ => []
  | n + 1, b =>
    let kl := rdLE 4 b
    let key := (b.drop 4).take kl
    let b1 := b.drop (4 + kl)
    let vl := rdLE 4 b1
    let val := (b1.drop 4).take vl
    (key ++ [58] ++ val) :: parseTokens n (b1.drop (4 + vl))

/-- one record (after its length prefix) -/
def parseMeta (r : Bytes) : DocMeta :=
  ⟨(rdLE 8 (r.drop 4), rdLE 8 (r.drop 12)), rdLE 4 (r.drop 20), parseTokens (rdLE 4 (r.drop 24)) (r.drop 28)⟩

/-- the record loop of `appendWorker` -/
def parseMetas : Nat → Bytes → List DocMeta
  | 0, _ => []
  | fuel + 1, b =>
    if b.length < 4 then []
    else parseMeta ((b.drop 4).take (rdLE 4 b)) :: parseMetas fuel (b.drop (4 + rdLE 4 b))

/-- blocks written by `PackDocBlock` (codec 0): the payload is the raw data -/
def plainCodec : IdxCodec where
  metaDocs blk := if getCodec blk = 0 then parseMetas blk.length (blk.drop headerLen) else []
  docsRaw blk := if headerLen ≤ blk.length ∧ getCodec blk = 0 then some (blk.drop headerLen) else none

theorem enc_drop_header' (b : Blk) : (enc b).drop headerLen = b.payload := by
  simp only [enc, headerLen]
  exact drop_len_append _ _ _ (hdr_length ..)

theorem getCodec_enc' (b : Blk) : getCodec (enc b) = b.codec := by simp [getCodec, enc, hdr]

/-- `MetaToken.MarshalBinaryTo` for a token given as (key, value) -/
def encToken (kv : Bytes × Bytes) : Bytes := leN 4 kv.1.length ++ kv.1 ++ leN 4 kv.2.length ++ kv.2

/-- `MetaData.MarshalBinaryTo` (magic, version 1, MID, RID, size, tokens) with the record length in front -/
def encMeta (id : DocID) (size : Nat) (toks : List (Bytes × Bytes)) : Bytes :=
  let r := leN 2 0x3F7C ++ leN 2 1 ++ leN 8 id.1 ++ leN 8 id.2 ++ leN 4 size ++ leN 4 toks.length ++ (toks.map encToken).flatten
  leN 4 r.length ++ r

theorem plainCodec_extFree (b : Blk) (e1 e2 : Nat) :
    plainCodec.metaDocs (enc { b with ext1 := e1, ext2 := e2 }) = plainCodec.metaDocs (enc b) := by
  simp only [plainCodec, getCodec_enc', enc_length, enc_drop_header']

theorem enc_drop_header (b : Blk) : (enc b).drop headerLen = b.payload := by
  simp only [enc, headerLen]
  exact drop_len_append _ _ _ (hdr_length ..)

theorem getCodec_enc (b : Blk) : getCodec (enc b) = b.codec := by simp [getCodec, enc, hdr]

end SV.WPath
