import SeqVerif.Model.ActiveConcLemmas
/-!
Inductive invariant of the active-index transition system: a shared part, one clause per writer position, one
per reader; every local clause is stable under growth of the shared state (`Ext`), so a step only has to
re-establish the shared part and the clause of the acting thread.
-/
namespace SV.ActiveConc

structure ShInv (sh : Sh) : Prop where
  allLt : ∀ l, l ∈ sh.all → l < sh.ids.length
  tokOk : ∀ t l, l ∈ sh.tok t → ∃ d, sh.ids[l]? = some d ∧ t ∈ d.toks
  posOk : ∀ id b off, sh.pos.lookup id = some (b, off) → b < sh.blocks
  idsPos : ∀ d, d ∈ sh.ids → ∃ p, sh.pos.lookup d.id = some p
  idsSub : ∀ d, d ∈ sh.ids → d ∈ sh.submitted

/-- the shared state only grows -/
structure Ext (a b : Sh) : Prop where
  ids : ∃ extra, b.ids = a.ids ++ extra
  all : ∀ l, l ∈ a.all → l ∈ b.all
  tok : ∀ t l, l ∈ a.tok t → l ∈ b.tok t
  pos : ∀ id p, a.pos.lookup id = some p → b.pos.lookup id = some p
  blocks : a.blocks ≤ b.blocks
  range : ∀ m, inR a.range m = true → inR b.range m = true
  sub : ∀ d, d ∈ a.submitted → d ∈ b.submitted

theorem Ext.refl (a : Sh) : Ext a a :=
  ⟨⟨[], by simp⟩, fun _ h => h, fun _ _ h => h, fun _ _ h => h, Nat.le_refl _, fun _ h => h, fun _ h => h⟩

theorem Ext.get {a b : Sh} (h : Ext a b) {l : Nat} {d : Doc} (hd : a.ids[l]? = some d) : b.ids[l]? = some d := by
  obtain ⟨extra, e⟩ := h.ids
  rw [e]
  have hl : l < a.ids.length := by
    rcases Nat.lt_or_ge l a.ids.length with h' | h'
    · exact h'
    · rw [List.getElem?_eq_none h'] at hd; cases hd
  rw [List.getElem?_append_left hl]; exact hd

theorem Ext.len {a b : Sh} (h : Ext a b) : a.ids.length ≤ b.ids.length := by
  obtain ⟨extra, e⟩ := h.ids
  rw [e, List.length_append]; omega

def WInv (sh : Sh) (w : W) : Prop :=
  (w.pc ≠ .idle → ∀ d, d ∈ w.docs → d ∈ sh.submitted) ∧
  (w.pc ≠ .idle → w.pc ≠ .start → w.blk < sh.blocks) ∧
  (w.pc ≠ .idle → w.pc ≠ .start → w.pc ≠ .block → ∀ d, d ∈ w.docs → ∃ off, sh.pos.lookup d.id = some (w.blk, off)) ∧
  (w.pc ≠ .idle → w.pc ≠ .start → w.pc ≠ .block → w.pc ≠ .pos →
      ∀ k d, w.docs[k]? = some d → sh.ids[w.base + k]? = some d) ∧
  (∀ t ls, (t, ls) ∈ w.todo → ∀ l, l ∈ ls → ∃ d, sh.ids[l]? = some d ∧ ∀ t', t = some t' → t' ∈ d.toks)

theorem WInv.mono {a b : Sh} {w : W} (h : WInv a w) (e : Ext a b) : WInv b w := by
  obtain ⟨h1, h2, h3, h4, h5⟩ := h
  refine ⟨fun hp d hd => e.sub _ (h1 hp d hd), fun hp hq => Nat.lt_of_lt_of_le (h2 hp hq) e.blocks, ?_, ?_, ?_⟩
  · intro hp hq hr d hd
    obtain ⟨off, ho⟩ := h3 hp hq hr d hd
    exact ⟨off, e.pos _ _ ho⟩
  · intro hp hq hr hs k d hd
    exact e.get (h4 hp hq hr hs k d hd)
  · intro t ls hm l hl
    obtain ⟨d, hd, ht⟩ := h5 t ls hm l hl
    exact ⟨d, e.get hd, ht⟩

structure RInv (sh : Sh) (r : R) : Prop where
  range : ∀ m, inR r.range m = true → inR sh.range m = true
  nblocks : r.nblocks ≤ sh.blocks
  nids : r.nidsAt ≤ sh.ids.length
  atPos : ∀ l, l < r.nidsAt → ∃ d b off, sh.ids[l]? = some d ∧ sh.pos.lookup d.id = some (b, off) ∧ b < r.nblocks
  early : r.pc = .idle ∨ r.pc = .start ∨ r.pc = .info ∨ r.pc = .blocks → r.mapping = []
  earlyN : r.pc = .idle ∨ r.pc = .start ∨ r.pc = .info ∨ r.pc = .blocks → r.nmids = 0
  noFetch : r.pc = .idle ∨ r.pc = .start ∨ r.pc = .info → r.fetched = []
  noGot : r.pc ≠ .rids → r.pc ≠ .done → r.got = []
  noRes : r.pc ≠ .done → r.result = []
  mapAll : ∀ l, l ∈ r.mapping → l ∈ sh.all
  nmids : r.nmids ≤ sh.ids.length
  nrids : r.nrids ≤ sh.ids.length
  mapMids : r.pc = .mids ∨ r.pc = .rids ∨ r.pc = .done → ∀ l, l ∈ r.mapping → l < r.nmids
  mapRids : r.pc = .rids ∨ r.pc = .done → r.nmids ≤ r.nrids
  got : ∀ t ls, (t, ls) ∈ r.got → ∀ l, l ∈ ls → l ∈ sh.tok t ∧ l ∈ r.mapping
  res : ∀ l, l ∈ r.result → l ∈ r.mapping ∧ ∃ d, sh.ids[l]? = some d ∧ inR r.range d.mid = true ∧
      r.qfrom ≤ d.mid ∧ d.mid ≤ r.qto ∧ (r.q.positive = true → sat r.q d = true)
  fetched : ∀ id res, (id, res) ∈ r.fetched → ∀ l d, l < r.nidsAt → sh.ids[l]? = some d → d.id = id →
      ∃ b off, res = .found b off

theorem RInv.mono {a b : Sh} {r : R} (h : RInv a r) (e : Ext a b) : RInv b r := by
  refine ⟨fun m hm => e.range m (h.range m hm), Nat.le_trans h.nblocks e.blocks, Nat.le_trans h.nids e.len, ?_,
    h.early, h.earlyN, h.noFetch, h.noGot, h.noRes, fun l hl => e.all l (h.mapAll l hl), Nat.le_trans h.nmids e.len,
    Nat.le_trans h.nrids e.len, h.mapMids, h.mapRids, ?_, ?_, ?_⟩
  · intro l hl
    obtain ⟨d, b', off, h1, h2, h3⟩ := h.atPos l hl
    exact ⟨d, b', off, e.get h1, e.pos _ _ h2, h3⟩
  · intro t ls hm l hl
    exact ⟨e.tok t l (h.got t ls hm l hl).1, (h.got t ls hm l hl).2⟩
  · intro l hl
    obtain ⟨h1, d, h2, h3⟩ := h.res l hl
    exact ⟨h1, d, e.get h2, h3⟩
  · intro id res hm l d hl hd hid
    obtain ⟨d', b', off, h1, h2, h3⟩ := h.atPos l hl
    have : d' = d := by
      have := e.get h1; rw [hd] at this; cases this; rfl
    subst this
    exact h.fetched id res hm l d' hl h1 hid

structure Inv (s : St) : Prop where
  sh : ShInv s.sh
  ws : ∀ i, WInv s.sh (s.ws i)
  rs : ∀ i, RInv s.sh (s.rs i)

theorem rinv_default (sh : Sh) : RInv sh {} := by
  constructor <;> simp [inR]

theorem inv_init : Inv init := by
  refine ⟨?_, ?_, ?_⟩
  · constructor <;> simp [init]
  · intro i; simp [init, WInv]
  · intro i; exact rinv_default _

end SV.ActiveConc
