import SeqVerif.Model.DocsMerge
/-! Helper lemmas for C16 (fetch side): every document an iterator hands out was delivered by a per-source stream,
    the fuel of the fast-forward loop is sufficient, the output is positionally aligned with the IDs. -/
namespace SV.DocsMerge

/-- the documents a stream state still holds (in leaves and in the `docA` / `docB` slots of live children) -/
def docsOf : Stream → List Doc
  | .leaf ds => ds
  | .done => []
  | .merged a b da db => (if a.isDone then [] else [da]) ++ docsOf a ++ ((if b.isDone then [] else [db]) ++ docsOf b)

theorem pull_spec (r : Res × Stream) (cur : Doc) (x : Stream × Doc) (h : pull r cur = some x) :
    (r.1 = .eof ∧ x.1 = .done) ∨ (r.1 = .doc x.2 ∧ x.1 = r.2) := by
  unfold pull at h
  split at h
  · rename_i d hd; injection h with h; subst h; exact Or.inr ⟨hd, rfl⟩
  · rename_i hd; injection h with h; subst h; exact Or.inl ⟨hd, rfl⟩
  · cases h

theorem live_le (s : Stream) : live s ≤ 1 := by unfold live; split <;> omega
theorem live_done : live .done = 0 := rfl
theorem live_of_not_done {s : Stream} (h : s.isDone = false) : live s = 1 := by simp [live, h]
theorem isDone_done : Stream.done.isDone = true := rfl

theorem isDone_iff (s : Stream) : s.isDone = true ↔ s = .done := by
  cases s <;> simp [Stream.isDone]

/-- what `next` hands out was held, and the new state holds nothing new; a delivered document shrinks the state -/
theorem next_spec (lt : Cmp) (s : Stream) :
    (∀ d, (next lt s).1 = .doc d → d ∈ docsOf s) ∧ (∀ x ∈ docsOf (next lt s).2, x ∈ docsOf s) ∧
    (∀ d, (next lt s).1 = .doc d → size (next lt s).2 + 1 ≤ size s) ∧ size (next lt s).2 ≤ size s := by
  induction s with
  | leaf ds =>
    cases ds with
    | nil => simp [next, docsOf, size]
    | cons d ds => simp [next, docsOf, size]; intro x hx; exact Or.inr hx
  | done => simp [next, docsOf, size]
  | merged a b da db iha ihb =>
    -- the two read helpers
    have readA : a.isDone = false → ∀ r : Res × Stream,
        (r = match pull (next lt a) da with
          | none => (Res.panic, Stream.merged a b da db)
          | some x => (Res.doc da, Stream.merged x.1 b x.2 db)) →
        (∀ d, r.1 = .doc d → d ∈ docsOf (.merged a b da db)) ∧ (∀ x ∈ docsOf r.2, x ∈ docsOf (.merged a b da db)) ∧
        (∀ d, r.1 = .doc d → size r.2 + 1 ≤ size (.merged a b da db)) ∧ size r.2 ≤ size (.merged a b da db) := by
      intro hda r hr
      cases hp : pull (next lt a) da with
      | none => rw [hp] at hr; subst hr; simp
      | some x =>
        rw [hp] at hr; subst hr
        rcases pull_spec _ _ _ hp with ⟨h1, h2⟩ | ⟨h1, h2⟩
        · refine ⟨?_, ?_, ?_, ?_⟩
          · intro d hd; injection hd with hd; subst hd; simp [docsOf, hda]
          · intro y hy
            simp only [docsOf, h2, isDone_done, if_true, List.nil_append, List.mem_append] at hy
            simp only [docsOf, List.mem_append]
            exact Or.inr hy
          · intro d _; simp only [size, h2, live_done, live_of_not_done hda]; omega
          · simp only [size, h2, live_done, live_of_not_done hda]; omega
        · refine ⟨?_, ?_, ?_, ?_⟩
          · intro d hd; injection hd with hd; subst hd; simp [docsOf, hda]
          · intro y hy
            simp only [docsOf, h2, List.mem_append] at hy
            simp only [docsOf, List.mem_append, hda]
            rcases hy with (hy | hy) | hy
            · split at hy
              · simp at hy
              · simp at hy; subst hy
                exact Or.inl (Or.inr (iha.1 _ h1))
            · exact Or.inl (Or.inr (iha.2.1 y hy))
            · exact Or.inr hy
          · intro d _
            have := iha.2.2.1 _ h1
            have := live_le (next lt a).2
            simp only [size, h2, live_of_not_done hda]
            omega
          · have := iha.2.2.1 _ h1
            have := live_le (next lt a).2
            simp only [size, h2, live_of_not_done hda]
            omega
    have readB : b.isDone = false → ∀ r : Res × Stream,
        (r = match pull (next lt b) db with
          | none => (Res.panic, Stream.merged a b da db)
          | some x => (Res.doc db, Stream.merged a x.1 da x.2)) →
        (∀ d, r.1 = .doc d → d ∈ docsOf (.merged a b da db)) ∧ (∀ x ∈ docsOf r.2, x ∈ docsOf (.merged a b da db)) ∧
        (∀ d, r.1 = .doc d → size r.2 + 1 ≤ size (.merged a b da db)) ∧ size r.2 ≤ size (.merged a b da db) := by
      intro hdb r hr
      cases hp : pull (next lt b) db with
      | none => rw [hp] at hr; subst hr; simp
      | some x =>
        rw [hp] at hr; subst hr
        rcases pull_spec _ _ _ hp with ⟨h1, h2⟩ | ⟨h1, h2⟩
        · refine ⟨?_, ?_, ?_, ?_⟩
          · intro d hd; injection hd with hd; subst hd; simp [docsOf, hdb]
          · intro y hy
            simp only [docsOf, h2, isDone_done, if_true, List.mem_append, List.append_nil] at hy
            simp only [docsOf, List.mem_append]
            exact Or.inl hy
          · intro d _; simp only [size, h2, live_done, live_of_not_done hdb]; omega
          · simp only [size, h2, live_done, live_of_not_done hdb]; omega
        · refine ⟨?_, ?_, ?_, ?_⟩
          · intro d hd; injection hd with hd; subst hd; simp [docsOf, hdb]
          · intro y hy
            simp only [docsOf, h2, List.mem_append] at hy
            simp only [docsOf, List.mem_append, hdb]
            rcases hy with hy | (hy | hy)
            · exact Or.inl hy
            · split at hy
              · simp at hy
              · simp at hy; subst hy
                exact Or.inr (Or.inr (ihb.1 _ h1))
            · exact Or.inr (Or.inr (ihb.2.1 y hy))
          · intro d _
            have := ihb.2.2.1 _ h1
            have := live_le (next lt b).2
            simp only [size, h2, live_of_not_done hdb]
            omega
          · have := ihb.2.2.1 _ h1
            have := live_le (next lt b).2
            simp only [size, h2, live_of_not_done hdb]
            omega
    simp only [next]
    cases hda : a.isDone <;> cases hdb : b.isDone
    · -- both live: comparison decides
      simp only [Bool.false_and, Bool.false_eq_true, if_false]
      split
      · simp
      · exact readB hdb _ rfl
      · exact readA hda _ rfl
    · simp only [Bool.and_true, Bool.false_eq_true, if_false, if_true]
      exact readA hda _ rfl
    · simp only [Bool.and_false, Bool.false_eq_true, if_false, if_true]
      exact readB hdb _ rfl
    · simp

theorem initNode_spec (lt : Cmp) (a b m : Stream) (h : initNode lt a b = some m) :
    ∀ x ∈ docsOf m, x ∈ docsOf a ∨ x ∈ docsOf b := by
  unfold initNode at h
  cases hpa : pull (next lt a) zeroDoc with
  | none => rw [hpa] at h; cases h
  | some x =>
    rw [hpa] at h
    cases hpb : pull (next lt b) zeroDoc with
    | none => rw [hpb] at h; cases h
    | some y =>
      rw [hpb] at h
      injection h with h
      subst h
      intro z hz
      simp only [docsOf, List.mem_append] at hz
      have ha := next_spec lt a
      have hb := next_spec lt b
      rcases hz with (hz | hz) | (hz | hz)
      · rcases pull_spec _ _ _ hpa with ⟨_, h2⟩ | ⟨h1, h2⟩
        · simp [h2, Stream.isDone] at hz
        · split at hz
          · simp at hz
          · simp at hz; subst hz; exact Or.inl (ha.1 _ h1)
      · rcases pull_spec _ _ _ hpa with ⟨_, h2⟩ | ⟨_, h2⟩
        · simp [h2, docsOf] at hz
        · rw [h2] at hz; exact Or.inl (ha.2.1 z hz)
      · rcases pull_spec _ _ _ hpb with ⟨_, h2⟩ | ⟨h1, h2⟩
        · simp [h2, Stream.isDone] at hz
        · split at hz
          · simp at hz
          · simp at hz; subst hz; exact Or.inr (hb.1 _ h1)
      · rcases pull_spec _ _ _ hpb with ⟨_, h2⟩ | ⟨_, h2⟩
        · simp [h2, docsOf] at hz
        · rw [h2] at hz; exact Or.inr (hb.2.1 z hz)

theorem foldl_init_spec (lt : Cmp) (rest : List Stream) (acc : Option Stream) (m : Stream) (P : Doc → Prop)
    (hacc : ∀ a, acc = some a → ∀ x ∈ docsOf a, P x) (hrest : ∀ s ∈ rest, ∀ x ∈ docsOf s, P x)
    (h : rest.foldl (fun acc s => acc.bind fun m => initNode lt m s) acc = some m) : ∀ x ∈ docsOf m, P x := by
  induction rest generalizing acc with
  | nil => simp only [List.foldl] at h; exact hacc m h
  | cons s rest ih =>
    simp only [List.foldl] at h
    refine ih _ ?_ (fun t ht => hrest t (List.mem_cons_of_mem _ ht)) h
    intro a ha x hx
    cases acc with
    | none => simp at ha
    | some a0 =>
      simp only [Option.bind] at ha
      rcases initNode_spec lt a0 s a ha x hx with h' | h'
      · exact hacc a0 rfl x h'
      · exact hrest s List.mem_cons_self x h'

theorem nMerged_spec (lt : Cmp) (streams : List Stream) (m : Stream) (h : nMerged lt streams = some m) :
    ∀ x ∈ docsOf m, ∃ s ∈ streams, x ∈ docsOf s := by
  match streams, h with
  | [], h => simp only [nMerged] at h; injection h with h; subst h; simp [docsOf]
  | [s], h =>
    simp only [nMerged] at h
    intro x hx
    rcases initNode_spec lt _ _ _ h x hx with h' | h'
    · exact ⟨s, by simp, h'⟩
    · simp [docsOf] at h'
  | s0 :: s1 :: rest, h =>
    simp only [nMerged] at h
    refine foldl_init_spec lt rest _ m (fun x => ∃ s ∈ s0 :: s1 :: rest, x ∈ docsOf s) ?_ ?_ h
    · intro a ha x hx
      rcases initNode_spec lt _ _ _ ha x hx with h' | h'
      · exact ⟨s0, by simp, h'⟩
      · exact ⟨s1, by simp, h'⟩
    · intro s hs x hx
      exact ⟨s, by simp [hs], hx⟩

/-- documents held by the iterator's cursor -/
def curDocs (c : Cur) : List Doc := (if c.e then [] else [c.d]) ++ docsOf c.s

theorem load_spec (lt : Cmp) (s : Stream) (c : Cur) (h : load lt s = some c) :
    (∀ x ∈ curDocs c, x ∈ docsOf s) ∧ (c.e = false → size c.s + 1 ≤ size s) ∧ size c.s ≤ size s := by
  have hn := next_spec lt s
  unfold load at h
  split at h
  · rename_i d s' heq
    injection h with h; subst h
    have h1 : (next lt s).1 = .doc d := by rw [heq]
    have h2 : (next lt s).2 = s' := by rw [heq]
    refine ⟨?_, ?_, ?_⟩
    · intro x hx
      simp only [curDocs, Bool.false_eq_true, if_false, List.mem_append, List.mem_singleton] at hx
      rcases hx with hx | hx
      · subst hx; exact hn.1 _ h1
      · rw [← h2] at hx; exact hn.2.1 x hx
    · intro _; have := hn.2.2.1 _ h1; rw [h2] at this; exact this
    · have := hn.2.2.2; rw [h2] at this; exact this
  · rename_i s' heq
    injection h with h; subst h
    have h2 : (next lt s).2 = s' := by rw [heq]
    refine ⟨?_, by simp, ?_⟩
    · intro x hx
      simp only [curDocs, if_true, List.nil_append] at hx
      rw [← h2] at hx; exact hn.2.1 x hx
    · have := hn.2.2.2; rw [h2] at this; exact this
  · cases h

theorem ff_spec (lt : Cmp) (cur : IDS) (fuel : Nat) (c c' : Cur) (h : ff lt cur fuel c = .val c') :
    ∀ x ∈ curDocs c', x ∈ curDocs c := by
  induction fuel generalizing c with
  | zero => simp [ff] at h
  | succ fuel ih =>
    simp only [ff] at h
    split at h
    · injection h with h; subst h; exact fun x hx => hx
    · split at h
      · cases h
      · injection h with h; subst h; exact fun x hx => hx
      · split at h
        · cases h
        · rename_i c1 hl
          intro x hx
          have := (load_spec lt c.s c1 hl).1 x (ih c1 h x hx)
          simp only [curDocs, List.mem_append]
          exact Or.inr this

/-- the fuel handed to the fast-forward loop is never exhausted -/
theorem ff_fuel (lt : Cmp) (cur : IDS) (fuel : Nat) (c : Cur)
    (hf : (c.e = true ∧ 1 ≤ fuel) ∨ size c.s + 2 ≤ fuel) : ff lt cur fuel c ≠ .nofuel := by
  induction fuel generalizing c with
  | zero => rcases hf with ⟨_, h⟩ | h <;> omega
  | succ fuel ih =>
    simp only [ff]
    split
    · simp
    · rename_i he
      have hf' : size c.s + 2 ≤ fuel + 1 := by
        rcases hf with ⟨h, _⟩ | h
        · exact absurd h he
        · exact h
      split
      · simp
      · simp
      · split
        · simp
        · rename_i c1 hl
          have hs := load_spec lt c.s c1 hl
          apply ih
          cases hce : c1.e with
          | true => left; exact ⟨rfl, by omega⟩
          | false => right; have := hs.2.1 hce; omega

theorem ff_val_size (lt : Cmp) (cur : IDS) (fuel : Nat) (c c' : Cur) (h : ff lt cur fuel c = .val c') :
    size c'.s ≤ size c.s := by
  induction fuel generalizing c with
  | zero => simp [ff] at h
  | succ fuel ih =>
    simp only [ff] at h
    split at h
    · injection h with h; subst h; exact Nat.le_refl _
    · split at h
      · cases h
      · injection h with h; subst h; exact Nat.le_refl _
      · split at h
        · cases h
        · rename_i c1 hl
          have := (load_spec lt c.s c1 hl).2.2
          have := ih c1 h
          omega

/-- one `Next` of the merged iterator: the item carries the current ID; its bytes are empty or held before -/
theorem msiNext_spec (m : MSI) :
    msiNext m ≠ .nofuel ∧
    ∀ od m', msiNext m = .val (od, m') →
      (m.rest = [] ∧ od = none) ∨
      (∃ cur rest d, m.rest = cur :: rest ∧ od = some d ∧ m'.rest = rest ∧ m'.lt = m.lt ∧
        d.id = cur.id ∧ d.src = cur.src ∧ (d.data = 0 ∨ d ∈ curDocs m.cur) ∧ (∀ x ∈ curDocs m'.cur, x ∈ curDocs m.cur)) := by
  unfold msiNext
  cases hr : m.rest with
  | nil => simp
  | cons cur rest =>
    simp only
    have hfuel := ff_fuel m.lt cur (size m.cur.s + 2) m.cur (Or.inr (Nat.le_refl _))
    cases hff : ff m.lt cur (size m.cur.s + 2) m.cur with
    | nofuel => exact absurd hff hfuel
    | panic => simp
    | val c =>
      have hsub := ff_spec _ _ _ _ _ hff
      simp only
      split
      · refine ⟨by simp, ?_⟩
        intro od m' h
        injection h with h
        injection h with h1 h2
        subst h1 h2
        exact Or.inr ⟨cur, rest, _, rfl, rfl, rfl, rfl, rfl, rfl, Or.inl rfl, hsub⟩
      · rename_i hcond
        simp only [Bool.or_eq_true, Bool.not_eq_true', not_or, Bool.not_eq_true, Bool.not_eq_false] at hcond
        cases hl : load m.lt c.s with
        | none => simp
        | some c' =>
          refine ⟨by simp, ?_⟩
          intro od m' h
          injection h with h
          injection h with h1 h2
          subst h1 h2
          have hsame := hcond.2
          simp only [sameIDS, Bool.and_eq_true, beq_iff_eq] at hsame
          have hcd : c.d ∈ curDocs c := by simp [curDocs, hcond.1]
          refine Or.inr ⟨cur, rest, _, rfl, rfl, rfl, rfl, hsame.1.symm, hsame.2.symm, Or.inr (hsub _ hcd), ?_⟩
          intro x hx
          apply hsub
          simp only [curDocs, List.mem_append]
          exact Or.inr ((load_spec _ _ _ hl).1 x hx)

/-- positional alignment of the output with the ID list -/
inductive Aligned (R : IDS → Doc → Prop) : List IDS → List Doc → Prop
  | nil : Aligned R [] []
  | cons {a : IDS} {b : Doc} {as : List IDS} {bs : List Doc} : R a b → Aligned R as bs → Aligned R (a :: as) (b :: bs)

theorem Aligned.length {R : IDS → Doc → Prop} {ids : List IDS} {out : List Doc} (h : Aligned R ids out) :
    out.length = ids.length := by
  induction h with
  | nil => rfl
  | cons _ _ ih => simp [ih]

theorem Aligned.get {R : IDS → Doc → Prop} {ids : List IDS} {out : List Doc} (h : Aligned R ids out) :
    ∀ (i : Nat) (cur : IDS) (d : Doc), ids[i]? = some cur → out[i]? = some d → R cur d := by
  induction h with
  | nil => intro i cur d h; simp at h
  | cons hr _ ih =>
    intro i cur d h1 h2
    cases i with
    | zero => simp at h1 h2; subst h1 h2; exact hr
    | succ i => simp at h1 h2; exact ih i cur d h1 h2

/-- `n = len(ids)` calls of `Next`: one item per ID, aligned -/
theorem drain_spec (n : Nat) (m : MSI) (D : Doc → Prop) (hD : ∀ x ∈ curDocs m.cur, D x) (hn : n = m.rest.length) :
    drain n m ≠ .nofuel ∧
    ∀ out, drain n m = .val out →
      Aligned (fun (cur : IDS) (d : Doc) => d.id = cur.id ∧ d.src = cur.src ∧ (d.data = 0 ∨ D d)) m.rest out := by
  induction n generalizing m with
  | zero =>
    have : m.rest = [] := List.eq_nil_of_length_eq_zero hn.symm
    simp only [drain, this]
    refine ⟨by simp, ?_⟩
    intro out ho
    injection ho with ho
    subst ho
    exact Aligned.nil
  | succ n ih =>
    have hs := msiNext_spec m
    simp only [drain]
    cases hm : msiNext m with
    | nofuel => exact absurd hm hs.1
    | panic => simp
    | val p =>
      obtain ⟨od, m'⟩ := p
      rcases hs.2 od m' hm with ⟨h1, _⟩ | ⟨cur, rest, d, h1, h2, h3, h4, h5, h6, h7, h8⟩
      · rw [h1] at hn; simp at hn
      · subst h2
        have hn' : n = m'.rest.length := by rw [h3]; rw [h1] at hn; simpa using hn
        have ih' := ih m' (fun x hx => hD x (h8 x hx)) hn'
        simp only
        cases hd : drain n m' with
        | nofuel => exact absurd hd ih'.1
        | panic => simp
        | val ds =>
          refine ⟨by simp, ?_⟩
          intro out ho
          injection ho with ho
          subst ho
          rw [h1]
          refine Aligned.cons ⟨h5, h6, ?_⟩ ?_
          · rcases h7 with h7 | h7
            · exact Or.inl h7
            · exact Or.inr (hD _ h7)
          · have := ih'.2 ds hd
            rw [h3] at this
            exact this

theorem mergedDocsWith_spec (lt : Cmp) (ids : List IDS) (streams : List (List Doc)) :
    mergedDocsWith lt ids streams ≠ .nofuel ∧
    ∀ out, mergedDocsWith lt ids streams = .val out →
      Aligned (fun (cur : IDS) (d : Doc) => d.id = cur.id ∧ d.src = cur.src ∧ (d.data = 0 ∨ ∃ s ∈ streams, d ∈ s)) ids out := by
  unfold mergedDocsWith
  cases hm : msiNew lt ids (streams.map Stream.leaf) with
  | none => simp
  | some m =>
    simp only
    unfold msiNew at hm
    cases hn : nMerged lt (streams.map Stream.leaf) with
    | none => rw [hn] at hm; cases hm
    | some s =>
      rw [hn] at hm
      simp only at hm
      cases hl : load lt s with
      | none => rw [hl] at hm; cases hm
      | some c =>
        rw [hl] at hm
        injection hm with hm
        subst hm
        have hD : ∀ x ∈ curDocs c, ∃ s ∈ streams, x ∈ s := by
          intro x hx
          obtain ⟨t, ht, hxt⟩ := nMerged_spec lt _ s hn x ((load_spec lt s c hl).1 x hx)
          obtain ⟨l, hl', rfl⟩ := List.mem_map.mp ht
          exact ⟨l, hl', hxt⟩
        exact drain_spec ids.length ⟨lt, ids, c⟩ (fun d => ∃ s ∈ streams, d ∈ s) hD rfl

/-! ### grpcStreamIterator: what it hands out is what `Recv` delivered, stamped with the iterator's source -/

theorem grpcIter_mem (src total : Nat) (fetched : Nat) (evs : List Ev) (d : Doc) :
    d ∈ (grpcIter src total fetched evs).1 → d.src = src ∧ Ev.doc d.id d.data ∈ evs := by
  induction evs generalizing fetched with
  | nil => simp [grpcIter]
  | cons e rest ih =>
    cases e with
    | err => simp [grpcIter]
    | doc id data =>
      simp only [grpcIter, List.mem_cons]
      rintro (h | h)
      · subst h; simp
      · have := ih _ h; exact ⟨this.1, Or.inr this.2⟩

/-! ### uniqueIDIterator -/

theorem uniqGo_mem (found prev : Doc) (l : List Doc) : ∀ d ∈ uniqGo found prev l, d = found ∨ d ∈ l := by
  induction l generalizing found prev with
  | nil => simp [uniqGo]
  | cons x xs ih =>
    intro d hd
    simp only [uniqGo] at hd
    split at hd
    · rcases ih _ _ d hd with h | h
      · split at h
        · exact Or.inl h
        · exact Or.inr (by simp [h])
      · exact Or.inr (List.mem_cons_of_mem _ h)
    · rcases List.mem_cons.mp hd with h | h
      · exact Or.inl h
      · rcases ih _ _ d h with h | h
        · exact Or.inr (by simp [h])
        · exact Or.inr (List.mem_cons_of_mem _ h)

theorem uniq_mem (l : List Doc) : ∀ d ∈ uniq l, d ∈ l := by
  cases l with
  | nil => simp [uniq]
  | cons x xs =>
    intro d hd
    rcases uniqGo_mem x x xs d hd with h | h
    · simp [h]
    · exact List.mem_cons_of_mem _ h

/-- removal of adjacent repetitions -/
def collapse : List ID → List ID
  | [] => []
  | [x] => [x]
  | x :: y :: rest => if x = y then collapse (y :: rest) else x :: collapse (y :: rest)

theorem uniqGo_ids (found prev : Doc) (l : List Doc) (hf : found.id = prev.id) :
    (uniqGo found prev l).map (·.id) = collapse (prev.id :: l.map (·.id)) := by
  induction l generalizing found prev with
  | nil => simp [uniqGo, collapse, hf]
  | cons x xs ih =>
    simp only [uniqGo, List.map_cons, collapse]
    by_cases h : x.id = prev.id
    · rw [if_pos h, if_pos h.symm]
      apply ih
      split
      · rw [hf, h]
      · rfl
    · rw [if_neg h, if_neg (fun e => h e.symm)]
      simp only [List.map_cons, hf]
      congr 1
      exact ih x x rfl

theorem uniq_ids (l : List Doc) : (uniq l).map (·.id) = collapse (l.map (·.id)) := by
  cases l with
  | nil => simp [uniq, collapse]
  | cons x xs =>
    simp only [uniq]
    rw [uniqGo_ids x x xs rfl]
    simp only [List.map_cons]

/-- a non-empty copy is preferred over an empty one -/
theorem uniqGo_nonempty (found prev : Doc) (l : List Doc) (hf : found.isEmpty = false ∨ ∃ x ∈ l, x.isEmpty = false) :
    ∃ d ∈ uniqGo found prev l, d.isEmpty = false := by
  induction l generalizing found prev with
  | nil =>
    rcases hf with h | ⟨x, hx, _⟩
    · exact ⟨found, by simp [uniqGo], h⟩
    · simp at hx
  | cons y ys ih =>
    simp only [uniqGo]
    split
    · apply ih
      rcases hf with h | ⟨x, hx, hxe⟩
      · cases hy : y.isEmpty with
        | true => left; simp [h]
        | false => left; simp [hy]
      · rcases List.mem_cons.mp hx with h | h
        · subst h; left; simp [hxe]
        · exact Or.inr ⟨x, h, hxe⟩
    · rcases hf with h | ⟨x, hx, hxe⟩
      · exact ⟨found, by simp, h⟩
      · rcases List.mem_cons.mp hx with h | h
        · subst h
          obtain ⟨d, hd, hde⟩ := ih x x (Or.inl hxe)
          exact ⟨d, List.mem_cons_of_mem _ hd, hde⟩
        · obtain ⟨d, hd, hde⟩ := ih y y (Or.inr ⟨x, h, hxe⟩)
          exact ⟨d, List.mem_cons_of_mem _ hd, hde⟩

end SV.DocsMerge
