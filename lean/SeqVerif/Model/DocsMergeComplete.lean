import SeqVerif.Model.DocsMergeLemmas
/-!
C16, fetch side, "delivered => returned": a requested document that its stream delivers after only documents
that are requested *earlier* (or not at all) is handed out by the merged iterator at its position - whatever the
other streams do (short of a panic).  The invariant (`Sm`): while that document `x` is still somewhere in the tree,
every slot on the way from it to the root holds a document that is not requested later than `x`.
-/
namespace SV.DocsMerge

/-! ### positions -/

theorem posGo_notin (k : IDS) (j : Nat) (xs : List IDS) (acc : Option Nat) (h : ∀ x ∈ xs, x.strip ≠ k) :
    posGo k j xs acc = acc := by
  induction xs generalizing j acc with
  | nil => rfl
  | cons x xs ih =>
    simp only [posGo]
    have hx : (⟨x.id, x.src, 0⟩ : IDS) ≠ k := h x List.mem_cons_self
    rw [if_neg hx]
    exact ih _ _ (fun y hy => h y (List.mem_cons_of_mem _ hy))

theorem posGo_last (k : IDS) (j : Nat) (l1 : List IDS) (x : IDS) (l2 : List IDS) (acc : Option Nat)
    (hx : x.strip = k) (h2 : ∀ y ∈ l2, y.strip ≠ k) : posGo k j (l1 ++ x :: l2) acc = some (j + l1.length) := by
  induction l1 generalizing j acc with
  | nil =>
    simp only [List.nil_append, posGo]
    have : (⟨x.id, x.src, 0⟩ : IDS) = k := hx
    rw [if_pos this, posGo_notin k _ l2 _ h2]; simp
  | cons y l1 ih =>
    simp only [List.cons_append, posGo]
    rw [ih]; simp; omega

theorem posGo_some (k : IDS) (j : Nat) (xs : List IDS) (acc : Option Nat) (i : Nat)
    (h : posGo k j xs acc = some i) : acc = some i ∨ (j ≤ i ∧ ∃ x, xs[i - j]? = some x ∧ x.strip = k) := by
  induction xs generalizing j acc with
  | nil => exact Or.inl h
  | cons x xs ih =>
    simp only [posGo] at h
    rcases ih _ _ h with h' | ⟨h1, y, h2, h3⟩
    · split at h'
      · rename_i hk
        injection h' with h'
        subst h'
        exact Or.inr ⟨Nat.le_refl _, x, by simp, hk⟩
      · exact Or.inl h'
    · refine Or.inr ⟨by omega, y, ?_, h3⟩
      have : i - j = (i - (j + 1)) + 1 := by omega
      rw [this]; simpa using h2

theorem pos_inj (ids : List IDS) (k1 k2 : IDS) (i : Nat) (h1 : pos ids k1 = some i) (h2 : pos ids k2 = some i) :
    k1 = k2 := by
  rcases posGo_some _ _ _ _ _ h1 with h | ⟨_, x, hx, hk⟩
  · cases h
  · rcases posGo_some _ _ _ _ _ h2 with h | ⟨_, y, hy, hk'⟩
    · cases h
    · rw [hx] at hy; injection hy with hy; subst hy; rw [← hk, ← hk']

theorem pos_of_nodup (pre : List IDS) (cur : IDS) (rest : List IDS)
    (hnd : ((pre ++ cur :: rest).map IDS.strip).Nodup) : pos (pre ++ cur :: rest) cur.strip = some pre.length := by
  unfold pos
  rw [posGo_last cur.strip 0 pre cur rest none rfl]
  · simp
  · intro y hy heq
    rw [List.map_append, List.map_cons] at hnd
    have := (List.nodup_cons.mp (List.nodup_append.mp hnd).2.1).1
    exact this (heq ▸ List.mem_map_of_mem hy)

/-! ### nothing is lost -/

theorem key_strip (d : Doc) : d.key.strip = d.key := rfl

/-- shape of `Next` on an initialised merged node -/
theorem next_merged_cases (lt : Cmp) (a b : Stream) (da db : Doc) :
    (next lt (.merged a b da db)).1 = .panic ∨
    ((next lt (.merged a b da db)) = (.eof, .merged a b da db) ∧ a.isDone = true ∧ b.isDone = true) ∨
    (∃ x, pull (next lt a) da = some x ∧ a.isDone = false ∧
      next lt (.merged a b da db) = (.doc da, .merged x.1 b x.2 db) ∧ (b.isDone = true ∨ lt db.key da.key = some false)) ∨
    (∃ x, pull (next lt b) db = some x ∧ b.isDone = false ∧
      next lt (.merged a b da db) = (.doc db, .merged a x.1 da x.2) ∧ (a.isDone = true ∨ lt db.key da.key = some true)) := by
  simp only [next]
  cases hda : a.isDone <;> cases hdb : b.isDone
  · simp only [Bool.false_and, Bool.false_eq_true, if_false]
    cases hl : lt db.key da.key with
    | none => simp
    | some r =>
      cases r with
      | true =>
        simp only
        cases hp : pull (next lt b) db with
        | none => simp
        | some x => simp
      | false =>
        simp only
        cases hp : pull (next lt a) da with
        | none => simp
        | some x => simp
  · simp only [Bool.and_true, Bool.false_eq_true, if_false, if_true]
    cases hp : pull (next lt a) da with
    | none => simp
    | some x => simp
  · simp only [Bool.and_false, Bool.false_eq_true, if_false, if_true]
    cases hp : pull (next lt b) db with
    | none => simp
    | some x => simp
  · simp

theorem docsOf_done_of_isDone {s : Stream} (h : s.isDone = true) : docsOf s = [] := by
  rw [(isDone_iff s).mp h]; rfl

/-- an iterator that reports the end holds nothing, before or after -/
theorem next_eof (lt : Cmp) (s : Stream) (h : (next lt s).1 = .eof) : docsOf s = [] ∧ docsOf (next lt s).2 = [] := by
  cases s with
  | leaf ds => cases ds with
    | nil => simp [next, docsOf]
    | cons d ds => simp [next] at h
  | done => simp [next, docsOf]
  | merged a b da db =>
    rcases next_merged_cases lt a b da db with hc | ⟨hc, ha, hb⟩ | ⟨x, _, _, hc, _⟩ | ⟨x, _, _, hc, _⟩
    · rw [hc] at h; cases h
    · rw [hc]; simp [docsOf, ha, hb, docsOf_done_of_isDone]
    · rw [hc] at h; cases h
    · rw [hc] at h; cases h

/-- a delivered document leaves the state; every other held document stays -/
theorem next_keep (lt : Cmp) (s : Stream) (d : Doc) (h : (next lt s).1 = .doc d) :
    ∀ y ∈ docsOf s, y = d ∨ y ∈ docsOf (next lt s).2 := by
  induction s generalizing d with
  | leaf ds =>
    cases ds with
    | nil => simp [next] at h
    | cons e ds =>
      simp only [next] at h ⊢
      injection h with h; subst h
      intro y hy
      simpa [docsOf] using hy
  | done => simp [next] at h
  | merged a b da db iha ihb =>
    rcases next_merged_cases lt a b da db with hc | ⟨hc, _, _⟩ | ⟨x, hp, hda, hc, _⟩ | ⟨x, hp, hdb, hc, _⟩
    · rw [hc] at h; cases h
    · rw [hc] at h; cases h
    · rw [hc] at h ⊢
      injection h with h; subst h
      intro y hy
      simp only [docsOf, hda, Bool.false_eq_true, if_false, List.mem_append, List.mem_singleton] at hy
      simp only [docsOf, List.mem_append]
      rcases hy with (hy | hy) | hy
      · exact Or.inl hy
      · rcases pull_spec _ _ _ hp with ⟨h1, _⟩ | ⟨h1, h2⟩
        · rw [(next_eof lt a h1).1] at hy; simp at hy
        · rcases iha _ h1 y hy with h' | h'
          · right; left; left
            subst h'
            have : x.1.isDone = false := by
              rw [h2]
              cases hd : (next lt a).2.isDone with
              | false => rfl
              | true =>
                have := (isDone_iff _).mp hd
                -- a live child never turns into `done` by itself
                cases a with
                | leaf ds => cases ds <;> simp [next] at this
                | done => simp [Stream.isDone] at hda
                | merged a1 b1 d1 d2 =>
                  rcases next_merged_cases lt a1 b1 d1 d2 with hc' | ⟨hc', _, _⟩ | ⟨z, _, _, hc', _⟩ | ⟨z, _, _, hc', _⟩
                  · rw [hc'] at h1; cases h1
                  · rw [hc'] at this; cases this
                  · rw [hc'] at this; cases this
                  · rw [hc'] at this; cases this
            simp [this]
          · right; left; right; rw [h2]; exact h'
      · exact Or.inr (Or.inr hy)
    · rw [hc] at h ⊢
      injection h with h; subst h
      intro y hy
      simp only [docsOf, hdb, Bool.false_eq_true, if_false, List.mem_append, List.mem_singleton] at hy
      simp only [docsOf, List.mem_append]
      rcases hy with hy | (hy | hy)
      · exact Or.inr (Or.inl hy)
      · exact Or.inl hy
      · rcases pull_spec _ _ _ hp with ⟨h1, _⟩ | ⟨h1, h2⟩
        · rw [(next_eof lt b h1).1] at hy; simp at hy
        · rcases ihb _ h1 y hy with h' | h'
          · right; right; left
            subst h'
            have : x.1.isDone = false := by
              rw [h2]
              cases hd : (next lt b).2.isDone with
              | false => rfl
              | true =>
                have := (isDone_iff _).mp hd
                cases b with
                | leaf ds => cases ds <;> simp [next] at this
                | done => simp [Stream.isDone] at hdb
                | merged a1 b1 d1 d2 =>
                  rcases next_merged_cases lt a1 b1 d1 d2 with hc' | ⟨hc', _, _⟩ | ⟨z, _, _, hc', _⟩ | ⟨z, _, _, hc', _⟩
                  · rw [hc'] at h1; cases h1
                  · rw [hc'] at this; cases this
                  · rw [hc'] at this; cases this
                  · rw [hc'] at this; cases this
            simp [this]
          · right; right; right; rw [h2]; exact h'

/-! ### the guard invariant -/

/-- `y` is not requested later than position `p` (unrequested documents qualify) -/
def small (ids : List IDS) (p : Nat) (y : Doc) : Prop := ∀ q, pos ids y.key = some q → q ≤ p

/-- every occurrence of `x` in a stream is preceded only by documents that are not requested later than `p` -/
def Guard (ids : List IDS) (p : Nat) (x : Doc) (ds : List Doc) : Prop :=
  ∀ l1 l2, ds = l1 ++ x :: l2 → ∀ y ∈ l1, small ids p y

/-- while `x` is below a slot, the slot's document is small -/
def Sm (ids : List IDS) (p : Nat) (x : Doc) : Stream → Prop
  | .leaf ds => Guard ids p x ds
  | .done => True
  | .merged a b da db => Sm ids p x a ∧ Sm ids p x b ∧
      (a.isDone = false → x ∈ docsOf a → small ids p da) ∧ (b.isDone = false → x ∈ docsOf b → small ids p db)

theorem less_false_small (ids : List IDS) (p : Nat) (da db : Doc) (h : less ids db.key da.key = some false)
    (hs : small ids p db) : small ids p da := by
  unfold less cmpPos at h
  simp only [key_strip] at h
  intro q hq
  rw [hq] at h
  cases hb : pos ids db.key with
  | none => rw [hb] at h; simp at h
  | some pb =>
    rw [hb] at h
    simp only [Option.some.injEq, decide_eq_false_iff_not] at h
    have := hs pb hb
    omega

theorem less_true_small (ids : List IDS) (p : Nat) (da db : Doc) (h : less ids db.key da.key = some true)
    (hs : small ids p da) : small ids p db := by
  unfold less cmpPos at h
  simp only [key_strip] at h
  intro q hq
  rw [hq] at h
  cases ha : pos ids da.key with
  | none => rw [ha] at h; simp at h
  | some pa =>
    rw [ha] at h
    simp only [Option.some.injEq, decide_eq_true_eq] at h
    have := hs pa ha
    omega

theorem mem_docsOf_merged {a b : Stream} {da db y : Doc} :
    y ∈ docsOf (.merged a b da db) ↔
      (a.isDone = false ∧ (y = da ∨ y ∈ docsOf a)) ∨ (b.isDone = false ∧ (y = db ∨ y ∈ docsOf b)) := by
  simp only [docsOf, List.mem_append]
  cases ha : a.isDone <;> cases hb : b.isDone <;>
    simp [docsOf_done_of_isDone, ha, hb]

theorem next_sm (ids : List IDS) (p : Nat) (x : Doc) (hx : small ids p x) (s : Stream) (h : Sm ids p x s) :
    ∀ d, (next (less ids) s).1 = .doc d →
      Sm ids p x (next (less ids) s).2 ∧ (x ∈ docsOf s → small ids p d) := by
  induction s with
  | leaf ds =>
    cases ds with
    | nil => simp [next]
    | cons e ds =>
      simp only [next]
      intro d hd
      injection hd with hd; subst hd
      refine ⟨?_, ?_⟩
      · intro l1 l2 hl y hy
        exact h (e :: l1) l2 (by simp [hl]) y (List.mem_cons_of_mem _ hy)
      · intro hxin
        simp only [docsOf] at hxin
        obtain ⟨l1, l2, hl⟩ := List.append_of_mem hxin
        cases l1 with
        | nil => simp at hl; rw [hl.1]; exact hx
        | cons z l1 =>
          simp at hl
          exact h (z :: l1) l2 (by simp [hl.1, hl.2]) e (by simp [hl.1])
  | done => simp [next]
  | merged a b da db iha ihb =>
    obtain ⟨ha, hb, hsa, hsb⟩ := h
    have iha' := iha ha
    have ihb' := ihb hb
    have hsubA := (next_spec (less ids) a).2.1
    have hsubB := (next_spec (less ids) b).2.1
    -- smallness of whichever slot is handed out
    have smallA : (b.isDone = true ∨ less ids db.key da.key = some false) → a.isDone = false →
        x ∈ docsOf (.merged a b da db) → small ids p da := by
      intro hcmp hda hxin
      rcases mem_docsOf_merged.mp hxin with ⟨_, hxa | hxa⟩ | ⟨hdb, hxb⟩
      · rw [← hxa]; exact hx
      · exact hsa hda hxa
      · rcases hcmp with hcmp | hcmp
        · rw [hcmp] at hdb; cases hdb
        · apply less_false_small ids p _ _ hcmp
          rcases hxb with hxb | hxb
          · rw [← hxb]; exact hx
          · exact hsb hdb hxb
    have smallB : (a.isDone = true ∨ less ids db.key da.key = some true) → b.isDone = false →
        x ∈ docsOf (.merged a b da db) → small ids p db := by
      intro hcmp hdb hxin
      rcases mem_docsOf_merged.mp hxin with ⟨hda, hxa⟩ | ⟨_, hxb | hxb⟩
      · rcases hcmp with hcmp | hcmp
        · rw [hcmp] at hda; cases hda
        · apply less_true_small ids p _ _ hcmp
          rcases hxa with hxa | hxa
          · rw [← hxa]; exact hx
          · exact hsa hda hxa
      · rw [← hxb]; exact hx
      · exact hsb hdb hxb
    intro d hd
    rcases next_merged_cases (less ids) a b da db with hc | ⟨hc, _, _⟩ | ⟨z, hp, hda, hc, hcmp⟩ | ⟨z, hp, hdb, hc, hcmp⟩
    · rw [hc] at hd; cases hd
    · rw [hc] at hd; cases hd
    · rw [hc] at hd ⊢
      injection hd with hd; subst hd
      refine ⟨?_, smallA hcmp hda⟩
      rcases pull_spec _ _ _ hp with ⟨h1, h2⟩ | ⟨h1, h2⟩
      · exact ⟨by rw [h2]; trivial, hb, by rw [h2]; simp [Stream.isDone], hsb⟩
      · refine ⟨by rw [h2]; exact (iha' _ h1).1, hb, ?_, hsb⟩
        intro _ hxin
        rw [h2] at hxin
        exact (iha' _ h1).2 (hsubA x hxin)
    · rw [hc] at hd ⊢
      injection hd with hd; subst hd
      refine ⟨?_, smallB hcmp hdb⟩
      rcases pull_spec _ _ _ hp with ⟨h1, h2⟩ | ⟨h1, h2⟩
      · exact ⟨ha, by rw [h2]; trivial, hsa, by rw [h2]; simp [Stream.isDone]⟩
      · refine ⟨ha, by rw [h2]; exact (ihb' _ h1).1, hsa, ?_⟩
        intro _ hxin
        rw [h2] at hxin
        exact (ihb' _ h1).2 (hsubB x hxin)

theorem next_not_done (lt : Cmp) (s : Stream) (d : Doc) (h : (next lt s).1 = .doc d) : (next lt s).2.isDone = false := by
  cases s with
  | leaf ds => cases ds <;> simp [next, Stream.isDone] at h ⊢
  | done => simp [next] at h
  | merged a b da db =>
    rcases next_merged_cases lt a b da db with hc | ⟨hc, _, _⟩ | ⟨z, _, _, hc, _⟩ | ⟨z, _, _, hc, _⟩
    · rw [hc] at h; cases h
    · rw [hc] at h; cases h
    · rw [hc]; rfl
    · rw [hc]; rfl

/-! ### the cursor of the merged iterator -/

def CurSm (ids : List IDS) (p : Nat) (x : Doc) (c : Cur) : Prop :=
  (c.e = false → Sm ids p x c.s ∧ (x ∈ docsOf c.s → small ids p c.d)) ∧ (c.e = true → docsOf c.s = [])

theorem load_sm (ids : List IDS) (p : Nat) (x : Doc) (hx : small ids p x) (s : Stream) (h : Sm ids p x s) (c : Cur)
    (hl : load (less ids) s = some c) : CurSm ids p x c ∧ ∀ y ∈ docsOf s, y ∈ curDocs c := by
  unfold load at hl
  split at hl
  · rename_i d s' heq
    injection hl with hl; subst hl
    have h1 : (next (less ids) s).1 = .doc d := by rw [heq]
    have h2 : (next (less ids) s).2 = s' := by rw [heq]
    have hs := next_sm ids p x hx s h d h1
    have hsub := (next_spec (less ids) s).2.1
    refine ⟨⟨fun _ => ⟨by rw [← h2]; exact hs.1, fun hxin => hs.2 (hsub x (by rw [h2]; exact hxin))⟩, by simp⟩, ?_⟩
    intro y hy
    simp only [curDocs, Bool.false_eq_true, if_false, List.mem_append, List.mem_singleton]
    rcases next_keep _ s d h1 y hy with h' | h'
    · exact Or.inl h'
    · rw [h2] at h'; exact Or.inr h'
  · rename_i s' heq
    injection hl with hl; subst hl
    have h1 : (next (less ids) s).1 = .eof := by rw [heq]
    have h2 : (next (less ids) s).2 = s' := by rw [heq]
    have := next_eof _ s h1
    refine ⟨⟨by simp, fun _ => by rw [← h2]; exact this.2⟩, ?_⟩
    intro y hy; rw [this.1] at hy; simp at hy
  · cases hl

theorem less_doc_cur (ids : List IDS) (d : Doc) (cur : IDS) (j : Nat) (hj : pos ids cur.strip = some j) :
    less ids d.key cur = cmpPos (pos ids d.key) (some j) := by
  unfold less; rw [key_strip, hj]

theorem ff_sm (ids : List IDS) (p : Nat) (x : Doc) (hx : small ids p x) (hxp : pos ids x.key = some p)
    (cur : IDS) (j : Nat) (hj : pos ids cur.strip = some j) (hjp : j ≤ p) (fuel : Nat) (c c' : Cur)
    (hc : CurSm ids p x c) (hxin : x ∈ curDocs c) (h : ff (less ids) cur fuel c = .val c') :
    CurSm ids p x c' ∧ x ∈ curDocs c' ∧ (c'.e = false → ∃ q, pos ids c'.d.key = some q ∧ j ≤ q) := by
  induction fuel generalizing c with
  | zero => simp [ff] at h
  | succ fuel ih =>
    simp only [ff] at h
    split at h
    · rename_i he
      injection h with h; subst h
      exact ⟨hc, hxin, fun h' => by rw [he] at h'; cases h'⟩
    · rename_i he
      have he' : c.e = false := by simpa using he
      rw [less_doc_cur ids c.d cur j hj] at h
      split at h
      · cases h
      · rename_i hcmp
        injection h with h; subst h
        refine ⟨hc, hxin, fun _ => ?_⟩
        unfold cmpPos at hcmp
        cases hq : pos ids c.d.key with
        | none => rw [hq] at hcmp; simp at hcmp
        | some q =>
          rw [hq] at hcmp
          simp only [Option.some.injEq, decide_eq_false_iff_not] at hcmp
          exact ⟨q, rfl, by omega⟩
      · rename_i hcmp
        split at h
        · cases h
        · rename_i c1 hl
          have hne : x ≠ c.d := by
            intro heq
            rw [← heq, hxp] at hcmp
            simp [cmpPos] at hcmp
            omega
          have hxs : x ∈ docsOf c.s := by
            simp only [curDocs, he', Bool.false_eq_true, if_false, List.mem_append, List.mem_singleton] at hxin
            rcases hxin with h' | h'
            · exact absurd h' hne
            · exact h'
          have hl' := load_sm ids p x hx c.s (hc.1 he').1 c1 hl
          exact ih c1 hl'.1 (hl'.2 x hxs) h

theorem sameIDS_of_key (cur : IDS) (d : Doc) (h : d.key = cur.strip) : sameIDS cur d = true := by
  simp only [Doc.key, IDS.strip, IDS.mk.injEq] at h
  simp [sameIDS, h.1, h.2.1]

theorem key_of_sameIDS (cur : IDS) (d : Doc) (h : sameIDS cur d = true) : d.key = cur.strip := by
  simp only [sameIDS, Bool.and_eq_true, beq_iff_eq] at h
  simp [Doc.key, IDS.strip, h.1, h.2]

/-- one `Next` while `x` is still awaited (`j < p`) keeps it; at its turn (`j = p`) a held document is returned -/
theorem msiNext_sm (ids : List IDS) (p : Nat) (x : Doc) (hx : small ids p x) (hxp : pos ids x.key = some p)
    (m : MSI) (hlt : m.lt = less ids) (cur : IDS) (rest : List IDS) (hr : m.rest = cur :: rest)
    (j : Nat) (hj : pos ids cur.strip = some j) (hjp : j ≤ p)
    (hc : CurSm ids p x m.cur) (hxin : x ∈ curDocs m.cur) (od : Option Doc) (m' : MSI)
    (h : msiNext m = .val (od, m')) :
    (j < p → CurSm ids p x m'.cur ∧ x ∈ curDocs m'.cur) ∧ (j = p → ∃ d, od = some d ∧ d ∈ curDocs m.cur) := by
  unfold msiNext at h
  rw [hr, hlt] at h
  simp only at h
  cases hff : ff (less ids) cur (size m.cur.s + 2) m.cur with
  | nofuel => rw [hff] at h; cases h
  | panic => rw [hff] at h; cases h
  | val c =>
    rw [hff] at h
    simp only at h
    obtain ⟨hc1, hx1, hstop⟩ := ff_sm ids p x hx hxp cur j hj hjp _ _ _ hc hxin hff
    have hsub := ff_spec _ _ _ _ _ hff
    split at h
    · rename_i hcond
      injection h with h
      injection h with h1 h2
      subst h1 h2
      refine ⟨fun _ => ⟨hc1, hx1⟩, fun hjp' => ?_⟩
      exfalso
      subst hjp'
      cases he : c.e with
      | true =>
        have := hc1.2 he
        simp [curDocs, he, this] at hx1
      | false =>
        obtain ⟨q, hq, hjq⟩ := hstop he
        have hkey : c.d.key = x.key := by
          simp only [curDocs, he, Bool.false_eq_true, if_false, List.mem_append, List.mem_singleton] at hx1
          rcases hx1 with h' | h'
          · rw [h']
          · have := (hc1.1 he).2 h' q hq
            have : q = j := by omega
            subst this
            exact pos_inj ids _ _ _ hq hxp
        have hxk : x.key = cur.strip := pos_inj ids _ _ _ hxp hj
        have := sameIDS_of_key cur c.d (hkey.trans hxk)
        simp [he, this] at hcond
    · rename_i hcond
      simp only [Bool.or_eq_true, Bool.not_eq_true', not_or, Bool.not_eq_true, Bool.not_eq_false] at hcond
      cases hl : load (less ids) c.s with
      | none => rw [hl] at h; cases h
      | some c2 =>
        rw [hl] at h
        injection h with h
        injection h with h1 h2
        subst h1 h2
        have hcd : c.d ∈ curDocs c := by simp [curDocs, hcond.1]
        refine ⟨fun hlt' => ?_, fun _ => ⟨c.d, rfl, hsub _ hcd⟩⟩
        have hk := key_of_sameIDS cur c.d hcond.2
        have hne : x ≠ c.d := by
          intro heq
          rw [heq, hk, hj] at hxp
          injection hxp with hxp; omega
        have hxs : x ∈ docsOf c.s := by
          simp only [curDocs, hcond.1, Bool.false_eq_true, if_false, List.mem_append, List.mem_singleton] at hx1
          rcases hx1 with h' | h'
          · exact absurd h' hne
          · exact h'
        have hl' := load_sm ids p x hx c.s (hc1.1 hcond.1).1 c2 hl
        exact ⟨hl'.1, hl'.2 x hxs⟩

theorem drain_complete (ids : List IDS) (p : Nat) (x : Doc) (hx : small ids p x) (hxp : pos ids x.key = some p)
    (hnd : (ids.map IDS.strip).Nodup) (D : Doc → Prop) (n : Nat) (m : MSI) (pre : List IDS)
    (hlt : m.lt = less ids) (hids : ids = pre ++ m.rest) (hn : n = m.rest.length) (hpre : pre.length ≤ p)
    (hc : CurSm ids p x m.cur) (hxin : x ∈ curDocs m.cur) (hD : ∀ y ∈ curDocs m.cur, D y)
    (out : List Doc) (h : drain n m = .val out) : ∀ d, out[p - pre.length]? = some d → D d := by
  induction n generalizing m pre out with
  | zero => simp only [drain] at h; injection h with h; subst h; simp
  | succ n ih =>
    simp only [drain] at h
    cases hm : msiNext m with
    | nofuel => rw [hm] at h; cases h
    | panic => rw [hm] at h; cases h
    | val pr =>
      obtain ⟨od, m'⟩ := pr
      rw [hm] at h
      rcases (msiNext_spec m).2 od m' hm with ⟨h1, _⟩ | ⟨cur, rest, d0, h1, h2, h3, h4, _, _, _, h8⟩
      · rw [h1] at hn; simp at hn
      · subst h2
        simp only at h
        have hj : pos ids cur.strip = some pre.length := by
          rw [hids, h1]; rw [hids, h1] at hnd; exact pos_of_nodup pre cur rest hnd
        have hstep := msiNext_sm ids p x hx hxp m hlt cur rest h1 pre.length hj hpre hc hxin _ _ hm
        cases hd : drain n m' with
        | nofuel => rw [hd] at h; cases h
        | panic => rw [hd] at h; cases h
        | val ds =>
          rw [hd] at h
          injection h with h; subst h
          intro d hget
          by_cases heq : pre.length = p
          · obtain ⟨d1, hd1, hd2⟩ := hstep.2 heq
            injection hd1 with hd1; subst hd1
            have : p - pre.length = 0 := by omega
            rw [this] at hget
            simp at hget; subst hget
            exact hD _ hd2
          · have hlt' : pre.length < p := by omega
            obtain ⟨hc', hx'⟩ := hstep.1 hlt'
            have := ih m' (pre ++ [cur]) (by rw [h4]; exact hlt) (by rw [h3, hids, h1]; simp)
              (by rw [h3]; rw [h1] at hn; simpa using hn) (by simp; omega) hc' hx'
              (fun y hy => hD y (h8 y hy)) ds hd d
            apply this
            have e : p - pre.length = (p - (pre ++ [cur]).length) + 1 := by simp; omega
            rw [e] at hget
            simpa using hget

/-! ### construction -/

theorem initNode_sm (ids : List IDS) (p : Nat) (x : Doc) (hx : small ids p x) (a b m : Stream)
    (ha : Sm ids p x a) (hb : Sm ids p x b) (h : initNode (less ids) a b = some m) :
    Sm ids p x m ∧ (∀ y ∈ docsOf a, y ∈ docsOf m) ∧ (∀ y ∈ docsOf b, y ∈ docsOf m) := by
  unfold initNode at h
  cases hpa : pull (next (less ids) a) zeroDoc with
  | none => rw [hpa] at h; cases h
  | some u =>
    rw [hpa] at h
    cases hpb : pull (next (less ids) b) zeroDoc with
    | none => rw [hpb] at h; cases h
    | some v =>
      rw [hpb] at h
      injection h with h; subst h
      have side : ∀ (s : Stream) (w : Stream × Doc), Sm ids p x s → pull (next (less ids) s) zeroDoc = some w →
          Sm ids p x w.1 ∧ (w.1.isDone = false → x ∈ docsOf w.1 → small ids p w.2) ∧
          (∀ y ∈ docsOf s, w.1.isDone = false ∧ (y = w.2 ∨ y ∈ docsOf w.1)) := by
        intro s w hs hp
        rcases pull_spec _ _ _ hp with ⟨h1, h2⟩ | ⟨h1, h2⟩
        · refine ⟨by rw [h2]; trivial, by rw [h2]; simp [Stream.isDone], ?_⟩
          intro y hy; rw [(next_eof _ s h1).1] at hy; simp at hy
        · have hs' := next_sm ids p x hx s hs _ h1
          refine ⟨by rw [h2]; exact hs'.1, ?_, ?_⟩
          · intro _ hxin
            rw [h2] at hxin
            exact hs'.2 ((next_spec (less ids) s).2.1 x hxin)
          · intro y hy
            refine ⟨by rw [h2]; exact next_not_done _ s _ h1, ?_⟩
            rcases next_keep _ s _ h1 y hy with h' | h'
            · exact Or.inl h'
            · rw [h2]; exact Or.inr h'
      have sa := side a u ha hpa
      have sb := side b v hb hpb
      refine ⟨⟨sa.1, sb.1, sa.2.1, sb.2.1⟩, ?_, ?_⟩
      · intro y hy; exact mem_docsOf_merged.mpr (Or.inl (sa.2.2 y hy))
      · intro y hy; exact mem_docsOf_merged.mpr (Or.inr (sb.2.2 y hy))

theorem foldl_init_sm (ids : List IDS) (p : Nat) (x : Doc) (hx : small ids p x) (rest : List Stream)
    (acc : Option Stream) (m : Stream) (Q : Doc → Prop)
    (hacc : ∀ a, acc = some a → Sm ids p x a ∧ ∀ y, Q y → y ∈ docsOf a)
    (hrest : ∀ s ∈ rest, Sm ids p x s)
    (h : rest.foldl (fun acc s => acc.bind fun m => initNode (less ids) m s) acc = some m) :
    Sm ids p x m ∧ (∀ y, Q y → y ∈ docsOf m) ∧ ∀ s ∈ rest, ∀ y ∈ docsOf s, y ∈ docsOf m := by
  induction rest generalizing acc Q with
  | nil =>
    simp only [List.foldl] at h
    exact ⟨(hacc m h).1, (hacc m h).2, by simp⟩
  | cons s rest ih =>
    simp only [List.foldl] at h
    have := ih (acc.bind fun m => initNode (less ids) m s) (fun y => Q y ∨ y ∈ docsOf s) ?_
      (fun t ht => hrest t (List.mem_cons_of_mem _ ht)) h
    · refine ⟨this.1, fun y hy => this.2.1 y (Or.inl hy), ?_⟩
      intro t ht y hy
      rcases List.mem_cons.mp ht with h' | h'
      · subst h'; exact this.2.1 y (Or.inr hy)
      · exact this.2.2 t h' y hy
    · intro a ha
      cases acc with
      | none => simp at ha
      | some a0 =>
        simp only [Option.bind] at ha
        have hi := initNode_sm ids p x hx a0 s a (hacc a0 rfl).1 (hrest s List.mem_cons_self) ha
        refine ⟨hi.1, ?_⟩
        rintro y (hy | hy)
        · exact hi.2.1 y ((hacc a0 rfl).2 y hy)
        · exact hi.2.2 y hy

theorem nMerged_sm (ids : List IDS) (p : Nat) (x : Doc) (hx : small ids p x) (streams : List Stream) (m : Stream)
    (hs : ∀ s ∈ streams, Sm ids p x s) (h : nMerged (less ids) streams = some m) :
    Sm ids p x m ∧ ∀ s ∈ streams, ∀ y ∈ docsOf s, y ∈ docsOf m := by
  match streams, hs, h with
  | [], _, h => simp only [nMerged] at h; injection h with h; subst h; exact ⟨by intro l1 l2 hl; cases l1 <;> simp at hl, by simp⟩
  | [s], hs, h =>
    simp only [nMerged] at h
    have := initNode_sm ids p x hx s (.leaf []) m (hs s (by simp)) (by intro l1 l2 hl; cases l1 <;> simp at hl) h
    exact ⟨this.1, by intro t ht y hy; simp at ht; subst ht; exact this.2.1 y hy⟩
  | s0 :: s1 :: rest, hs, h =>
    simp only [nMerged] at h
    have := foldl_init_sm ids p x hx rest (initNode (less ids) s0 s1) m (fun y => y ∈ docsOf s0 ∨ y ∈ docsOf s1) ?_
      (fun t ht => hs t (by simp [ht])) h
    · refine ⟨this.1, ?_⟩
      intro t ht y hy
      rcases List.mem_cons.mp ht with h' | h'
      · subst h'; exact this.2.1 y (Or.inl hy)
      · rcases List.mem_cons.mp h' with h'' | h''
        · subst h''; exact this.2.1 y (Or.inr hy)
        · exact this.2.2 t h'' y hy
    · intro a ha
      have hi := initNode_sm ids p x hx s0 s1 a (hs s0 (by simp)) (hs s1 (by simp)) ha
      refine ⟨hi.1, ?_⟩
      rintro y (hy | hy)
      · exact hi.2.1 y hy
      · exact hi.2.2 y hy

theorem pos_of_getElem (ids : List IDS) (hnd : (ids.map IDS.strip).Nodup) (i : Nat) (cur : IDS)
    (h : ids[i]? = some cur) : pos ids cur.strip = some i := by
  have hlt : i < ids.length := by
    rcases Nat.lt_or_ge i ids.length with h' | h'
    · exact h'
    · rw [List.getElem?_eq_none h'] at h; cases h
  have hsplit : ids = ids.take i ++ cur :: ids.drop (i + 1) := by
    have := List.getElem_of_getElem? h
    obtain ⟨_, hget⟩ := this
    rw [← hget]
    exact (List.take_append_drop i ids).symm.trans (by rw [List.drop_eq_getElem_cons hlt])
  have := pos_of_nodup (ids.take i) cur (ids.drop (i + 1)) (by rw [← hsplit]; exact hnd)
  rw [← hsplit] at this
  rw [this]; simp [List.length_take]; omega

/-- **delivered => returned**, for one requested document `x` (position `p` in the request): if every stream hands
`x` out only after documents requested no later than `p` (or not requested at all), then the item at position `p`
is a document some stream delivered - never the synthesized empty one. -/
theorem mergedDocs_complete (ids : List IDS) (hnd : (ids.map IDS.strip).Nodup) (streams : List (List Doc))
    (p : Nat) (x : Doc) (hxp : pos ids x.key = some p) (hG : ∀ s ∈ streams, Guard ids p x s)
    (hxs : ∃ s ∈ streams, x ∈ s) (out : List Doc) (h : mergedDocs ids streams = .val out) :
    ∀ d, out[p]? = some d → ∃ s ∈ streams, d ∈ s := by
  have hx : small ids p x := by intro q hq; rw [hxp] at hq; injection hq with hq; omega
  unfold mergedDocs mergedDocsWith at h
  cases hm : msiNew (less ids) ids (streams.map Stream.leaf) with
  | none => rw [hm] at h; cases h
  | some m =>
    rw [hm] at h
    simp only at h
    unfold msiNew at hm
    cases hn : nMerged (less ids) (streams.map Stream.leaf) with
    | none => rw [hn] at hm; cases hm
    | some s =>
      rw [hn] at hm
      simp only at hm
      cases hl : load (less ids) s with
      | none => rw [hl] at hm; cases hm
      | some c =>
        rw [hl] at hm
        injection hm with hm
        subst hm
        have hsm := nMerged_sm ids p x hx (streams.map Stream.leaf) s
          (by intro t ht; obtain ⟨l, hl', rfl⟩ := List.mem_map.mp ht; exact hG l hl') hn
        have hload := load_sm ids p x hx s hsm.1 c hl
        obtain ⟨sx, hsx, hxin⟩ := hxs
        have hxc : x ∈ curDocs c := hload.2 x (hsm.2 (.leaf sx) (List.mem_map_of_mem hsx) x hxin)
        have hD : ∀ y ∈ curDocs c, ∃ s ∈ streams, y ∈ s := by
          intro y hy
          obtain ⟨t, ht, hyt⟩ := nMerged_spec (less ids) _ s hn y ((load_spec (less ids) s c hl).1 y hy)
          obtain ⟨l, hl', rfl⟩ := List.mem_map.mp ht
          exact ⟨l, hl', hyt⟩
        have := drain_complete ids p x hx hxp hnd (fun d => ∃ s ∈ streams, d ∈ s) ids.length ⟨less ids, ids, c⟩ []
          rfl (by simp) rfl (by simp) hload.1 hxc hD out h
        simpa using this

end SV.DocsMerge
