import SeqVerif.Model.WPIndex
import SeqVerif.Model.WritePathInv
/-!
# C01 - document level: with distinct IDs the index built from the replayed (or appended) blocks serves every
document of every complete bulk: fetch by ID returns its bytes, each of its tokens leads to it.
-/
namespace SV.WPath

/-! ## documents inside one docs block -/

def docOffsets : Nat → List LDoc → List (LDoc × Nat)
  | _, [] => []
  | off, d :: ds => (d, off) :: docOffsets (off + d.body.length + 4) ds

theorem rdLE_leN_lt (k n : Nat) (rest : Bytes) (h : n < 256 ^ k) : rdLE k (leN k n ++ rest) = n := by
  rw [rdLE_leN, Nat.mod_eq_of_lt h]

theorem docAt_head (pre : Bytes) (body rest : Bytes) (h : body.length < 256 ^ 4) :
    docAt (pre ++ (leN 4 body.length ++ body ++ rest)) pre.length = some body := by
  have hd : (pre ++ (leN 4 body.length ++ body ++ rest)).drop pre.length = leN 4 body.length ++ (body ++ rest) := by
    rw [drop_len_append _ _ _ rfl, List.append_assoc]
  have hn : rdLE 4 ((pre ++ (leN 4 body.length ++ body ++ rest)).drop pre.length) = body.length := by
    rw [hd, rdLE_leN_lt _ _ _ h]
  have hd4 : (pre ++ (leN 4 body.length ++ body ++ rest)).drop (pre.length + 4) = body ++ rest := by
    rw [← List.drop_drop, hd, drop_len_append _ _ _ (leN_length 4 _)]
  unfold docAt
  rw [hn, hd4]
  have hl : (pre ++ (leN 4 body.length ++ body ++ rest)).length = pre.length + 4 + body.length + rest.length := by
    simp [List.length_append]; omega
  rw [if_neg (by omega), if_neg (by omega), take_len_append _ _ _ rfl]

theorem docAt_docOffsets (ds : List LDoc) (hsz : ∀ d ∈ ds, d.body.length < 256 ^ 4) (pre : Bytes) (off : Nat)
    (hpre : pre.length = off) :
    ∀ p ∈ docOffsets off ds, docAt (pre ++ rawDocs ds) p.2 = some p.1.body := by
  induction ds generalizing pre off with
  | nil => intro p hp; simp [docOffsets] at hp
  | cons d ds ih =>
    intro p hp
    simp only [docOffsets, List.mem_cons] at hp
    have hraw : rawDocs (d :: ds) = leN 4 d.body.length ++ d.body ++ rawDocs ds := by simp [rawDocs]
    rcases hp with hp | hp
    · subst hp
      rw [hraw, ← hpre]
      exact docAt_head pre d.body (rawDocs ds) (hsz d (by simp))
    · have := ih (fun x hx => hsz x (by simp [hx])) (pre ++ (leN 4 d.body.length ++ d.body))
        (off + d.body.length + 4) (by simp [hpre]; omega) p hp
      rw [hraw]
      simpa [List.append_assoc] using this

theorem docPositions_metasOf (bi : Nat) (ds : List LDoc) (hpos : ∀ d ∈ ds, 0 < d.body.length) (off : Nat)
    (prev : Option Pos) :
    docPositions bi off prev (metasOf ds) = (docOffsets off ds).map fun p => (p.1.id, (bi, p.2)) := by
  induction ds generalizing off prev with
  | nil => simp [metasOf, docPositions, docOffsets]
  | cons d ds ih =>
    have h0 : d.body.length ≠ 0 := by have := hpos d (by simp); omega
    have := ih (fun x hx => hpos x (by simp [hx])) (off + d.body.length + 4) (some (bi, off))
    simp only [metasOf, List.map_cons, docPositions, h0, if_false, docOffsets] at this ⊢
    rw [this]

theorem mem_docOffsets (ds : List LDoc) (off : Nat) (x : LDoc) (hx : x ∈ ds) : ∃ o, (x, o) ∈ docOffsets off ds := by
  induction ds generalizing off with
  | nil => simp at hx
  | cons d ds ih =>
    simp only [List.mem_cons] at hx
    rcases hx with rfl | hx
    · exact ⟨off, by simp [docOffsets]⟩
    · obtain ⟨o, ho⟩ := ih (off + d.body.length + 4) hx
      exact ⟨o, by simp [docOffsets, ho]⟩

theorem docPositions_ids (bi off : Nat) (prev : Option Pos) (ms : List DocMeta) :
    (docPositions bi off prev ms).map (·.1) = ms.map (·.id) := by
  induction ms generalizing off prev with
  | nil => simp [docPositions]
  | cons m ms ih =>
    by_cases h : m.size = 0 <;> simp [docPositions, h, ih]

/-! ## the position map -/

theorem lookupPos_none (ps : List (DocID × Pos)) (i : DocID) (h : i ∉ ps.map (·.1)) : lookupPos ps i = none := by
  simp only [lookupPos, Option.map_eq_none_iff, List.find?_eq_none]
  intro p hp hpi
  exact h (by simp only [List.mem_map]; exact ⟨p, hp, by simpa using hpi⟩)

theorem lookupPos_mem (ps : List (DocID × Pos)) (i : DocID) (q : Pos) (hnd : (ps.map (·.1)).Nodup) (h : (i, q) ∈ ps) :
    lookupPos ps i = some q := by
  induction ps with
  | nil => simp at h
  | cons p ps ih =>
    simp only [List.map_cons, List.nodup_cons] at hnd
    simp only [List.mem_cons] at h
    rcases h with h | h
    · subst h; simp [lookupPos]
    · have hne : p.1 ≠ i := by
        intro he
        exact hnd.1 (by rw [he]; simp only [List.mem_map]; exact ⟨(i, q), h, rfl⟩)
      have := ih hnd.2 h
      simp only [lookupPos, List.find?_cons] at this ⊢
      simp [hne, this]

theorem setMultiple_fresh (ps new : List (DocID × Pos)) (hnd : (ps.map (·.1) ++ new.map (·.1)).Nodup) :
    setMultiple ps new = (ps ++ new, new.map fun _ => true) := by
  induction new generalizing ps with
  | nil => simp [setMultiple]
  | cons x new ih =>
    obtain ⟨i, p⟩ := x
    have hi : i ∉ ps.map (·.1) := by
      intro hmem
      have := (List.nodup_append.mp hnd).2.2 i hmem i (by simp)
      exact this rfl
    have hnd' : ((ps ++ [(i, p)]).map (·.1) ++ new.map (·.1)).Nodup := by
      simpa [List.append_assoc] using hnd
    simp only [setMultiple, lookupPos_none ps i hi, ih _ hnd', List.map_cons]
    simp

theorem appendedIDs_all (ps : List (DocID × Pos)) : appendedIDs ps (ps.map fun _ => true) = ps.map (·.1) := by
  induction ps with
  | nil => simp [appendedIDs]
  | cons p ps ih => simp [appendedIDs, ih]

theorem entryPostings_all (ms : List DocMeta) (app : List DocID) (h : ∀ m ∈ ms, m.id ∈ app) :
    entryPostings ms app = ms.flatMap fun m => m.tokens.map fun t => (t, m.id) := by
  unfold entryPostings
  induction ms with
  | nil => rfl
  | cons m ms ih =>
    simp only [List.flatMap_cons, h m (by simp), if_true]
    rw [ih (fun x hx => h x (by simp [hx]))]

/-! ## the whole index -/

def pairsFrom (cd : IdxCodec) : Nat → List Entry → List (DocID × Pos)
  | _, [] => []
  | j, e :: es => docPositions j 0 none (cd.metaDocs e.blk) ++ pairsFrom cd (j + 1) es

def idsOf (cd : IdxCodec) (es : List Entry) : List DocID := es.flatMap fun e => (cd.metaDocs e.blk).map (·.id)

def postingsOf (cd : IdxCodec) (es : List Entry) : List (Bytes × DocID) :=
  es.flatMap fun e => (cd.metaDocs e.blk).flatMap fun m => m.tokens.map fun t => (t, m.id)

theorem pairsFrom_ids (cd : IdxCodec) (j : Nat) (es : List Entry) : (pairsFrom cd j es).map (·.1) = idsOf cd es := by
  induction es generalizing j with
  | nil => simp [pairsFrom, idsOf]
  | cons e es ih =>
    simp only [pairsFrom, List.map_append, docPositions_ids, ih, idsOf, List.flatMap_cons]

theorem pairsFrom_append (cd : IdxCodec) (j : Nat) (a b : List Entry) :
    pairsFrom cd j (a ++ b) = pairsFrom cd j a ++ pairsFrom cd (j + a.length) b := by
  induction a generalizing j with
  | nil => simp [pairsFrom]
  | cons e a ih =>
    simp only [List.cons_append, pairsFrom, ih, List.append_assoc, List.length_cons]
    have : j + 1 + a.length = j + (a.length + 1) := by omega
    rw [this]

theorem foldl_indexEntry (cd : IdxCodec) (es : List Entry) (ix : Index)
    (hnd : (ix.positions.map (·.1) ++ idsOf cd es).Nodup) :
    es.foldl (indexEntry cd) ix =
      ⟨ix.blocks ++ es.map (·.pos), ix.positions ++ pairsFrom cd ix.blocks.length es, ix.postings ++ postingsOf cd es⟩ := by
  induction es generalizing ix with
  | nil => simp [pairsFrom, postingsOf]
  | cons e es ih =>
    have hsplit : idsOf cd (e :: es) = (cd.metaDocs e.blk).map (·.id) ++ idsOf cd es := by simp [idsOf]
    rw [hsplit, ← List.append_assoc] at hnd
    have hnd1 : (ix.positions.map (·.1) ++
        (docPositions ix.blocks.length 0 none (cd.metaDocs e.blk)).map (·.1)).Nodup := by
      rw [docPositions_ids]; exact (List.nodup_append.mp hnd).1
    have hstep : indexEntry cd ix e =
        ⟨ix.blocks ++ [e.pos], ix.positions ++ docPositions ix.blocks.length 0 none (cd.metaDocs e.blk),
          ix.postings ++ (cd.metaDocs e.blk).flatMap fun m => m.tokens.map fun t => (t, m.id)⟩ := by
      simp only [indexEntry, setMultiple_fresh _ _ hnd1, appendedIDs_all, docPositions_ids]
      rw [entryPostings_all _ _ (fun m hm => by simp only [List.mem_map]; exact ⟨m, hm, rfl⟩)]
    simp only [List.foldl_cons, hstep]
    rw [ih]
    · simp [pairsFrom, postingsOf, List.append_assoc]
    · simpa [docPositions_ids, List.append_assoc] using hnd

theorem buildIndex_eq (cd : IdxCodec) (es : List Entry) (hnd : (idsOf cd es).Nodup) :
    buildIndex cd es = ⟨es.map (·.pos), pairsFrom cd 0 es, postingsOf cd es⟩ := by
  have := foldl_indexEntry cd es Index.empty (by simpa [Index.empty] using hnd)
  simpa [buildIndex, Index.empty] using this

/-! ## from the history invariant to documents -/

/-- decompression does not look at the ext fields -/
def IdxCodec.ExtFree (cd : IdxCodec) : Prop :=
  ∀ (b : Blk) (e1 e2 : Nat), cd.metaDocs (enc { b with ext1 := e1, ext2 := e2 }) = cd.metaDocs (enc b)

/-- IDs of the documents of complete bulks -/
def bulkIDs (cd : IdxCodec) (bs : List (Blk × Blk)) : List DocID := bs.flatMap fun b => (cd.metaDocs (enc b.2)).map (·.id)

theorem idsOf_entriesOf (cd : IdxCodec) (hcd : cd.ExtFree) (bs : List (Blk × Blk)) (off : Nat) :
    idsOf cd (entriesOf bs off) = bulkIDs cd bs := by
  induction bs generalizing off with
  | nil => simp [idsOf, entriesOf, stamped, bulkIDs]
  | cons x bs ih =>
    obtain ⟨d, m⟩ := x
    have := ih (off + (enc d).length)
    simp only [idsOf, entriesOf, bulkIDs, stamped, List.map_cons, List.flatMap_cons] at this ⊢
    rw [this, hcd m]

/-- **documents of a complete bulk are served** -/
theorem inv_docs_served (cd : IdxCodec) (hcd : cd.ExtFree) (st : St) (bs : List (Blk × Blk)) (junk torn : Bytes)
    (hinv : InvD st bs junk torn) (hnd : (bulkIDs cd bs).Nodup)
    (d m : Blk) (hb : (d, m) ∈ bs) (ds : List LDoc)
    (hdocs : cd.docsRaw (enc d) = some (rawDocs ds)) (hmeta : cd.metaDocs (enc m) = metasOf ds)
    (hsz : ∀ x ∈ ds, 0 < x.body.length ∧ x.body.length < 256 ^ 4) :
    ∀ x ∈ ds, fetch cd st.docs (buildIndex cd st.idx) x.id = some x.body ∧
      ∀ t ∈ x.tokens, x.id ∈ search (buildIndex cd st.idx) t := by
  intro x hx
  obtain ⟨b1, b2, hbs⟩ := List.append_of_mem hb
  -- the entry of this bulk and its neighbours
  have hst : stamped bs 0 = stamped b1 0 ++
      (d, { m with ext1 := (enc d).length, ext2 := (docsOf b1).length }, (docsOf b1).length) ::
        stamped b2 ((docsOf b1).length + (enc d).length) := by
    rw [hbs, stamped_append]; simp [stamped]
  let sm : Blk := { m with ext1 := (enc d).length, ext2 := (docsOf b1).length }
  let e : Entry := ⟨enc sm, (docsOf b1).length⟩
  let E1 : List Entry := entriesOf b1 0
  let E2 : List Entry := entriesOf b2 ((docsOf b1).length + (enc d).length)
  have hidx : st.idx = E1 ++ e :: E2 := by
    rw [hinv.idx, entriesOf, hst]; simp [E1, E2, e, sm, entriesOf]
  have hids : (idsOf cd st.idx).Nodup := by rw [hinv.idx, idsOf_entriesOf cd hcd]; exact hnd
  rw [buildIndex_eq cd st.idx hids]
  have hmd : cd.metaDocs e.blk = metasOf ds := by simp only [e, sm]; rw [hcd m, hmeta]
  obtain ⟨o, ho⟩ := mem_docOffsets ds 0 x hx
  constructor
  · -- fetch
    have hpair : (x.id, (E1.length, o)) ∈ pairsFrom cd 0 st.idx := by
      rw [hidx, pairsFrom_append]
      simp only [pairsFrom, Nat.zero_add, List.mem_append]
      refine .inr (.inl ?_)
      rw [hmd, docPositions_metasOf _ ds (fun y hy => (hsz y hy).1)]
      simp only [List.mem_map]
      exact ⟨(x, o), ho, rfl⟩
    have hlook : lookupPos (pairsFrom cd 0 st.idx) x.id = some (E1.length, o) :=
      lookupPos_mem _ _ _ (by rw [pairsFrom_ids]; exact hids) hpair
    have hblock : (st.idx.map (·.pos))[E1.length]? = some (docsOf b1).length := by
      rw [hidx]; simp [e]
    have hread : readBlockAt st.docs (docsOf b1).length = some (enc d) := by
      have := readBlockAt_stamped bs hinv.wf [] junk 0 rfl
        (d, { m with ext1 := (enc d).length, ext2 := (docsOf b1).length }, (docsOf b1).length) (by rw [hst]; simp)
      simpa [hinv.docs] using this
    have hdoc : docAt (rawDocs ds) o = some x.body := by
      have := docAt_docOffsets ds (fun y hy => (hsz y hy).2) [] 0 rfl (x, o) ho
      simpa using this
    simp only [fetch, hlook, hblock, hread, hdocs, hdoc]
  · -- search
    intro t ht
    simp only [search, List.mem_map, List.mem_filter, decide_eq_true_eq]
    refine ⟨(t, x.id), ⟨?_, rfl⟩, rfl⟩
    simp only [postingsOf, List.mem_flatMap, List.mem_map]
    refine ⟨e, by rw [hidx]; simp, ⟨x.id, x.body.length, x.tokens⟩, ?_, t, ht, rfl⟩
    rw [hmd]; simp only [metasOf, List.mem_map]
    exact ⟨x, hx, rfl⟩

end SV.WPath

namespace SV.WPath

/-- the order in which the blocks reach `DocBlocks` does not matter: whatever list of tasks `es` the index was built
from, a task whose docs offset yields the docs block of its documents serves them, provided the IDs are distinct -/
theorem served_of_mem (cd : IdxCodec) (docs : Bytes) (es : List Entry) (hnd : (idsOf cd es).Nodup) (e : Entry)
    (he : e ∈ es) (blk : Bytes) (hread : readBlockAt docs e.pos = some blk) (ds : List LDoc)
    (hdocs : cd.docsRaw blk = some (rawDocs ds)) (hmeta : cd.metaDocs e.blk = metasOf ds)
    (hsz : ∀ x ∈ ds, 0 < x.body.length ∧ x.body.length < 256 ^ 4) :
    ∀ x ∈ ds, fetch cd docs (buildIndex cd es) x.id = some x.body ∧
      ∀ t ∈ x.tokens, x.id ∈ search (buildIndex cd es) t := by
  intro x hx
  obtain ⟨E1, E2, hes⟩ := List.append_of_mem he
  rw [buildIndex_eq cd es hnd]
  obtain ⟨o, ho⟩ := mem_docOffsets ds 0 x hx
  constructor
  · have hpair : (x.id, (E1.length, o)) ∈ pairsFrom cd 0 es := by
      rw [hes, pairsFrom_append]
      simp only [pairsFrom, Nat.zero_add, List.mem_append]
      refine .inr (.inl ?_)
      rw [hmeta, docPositions_metasOf _ ds (fun y hy => (hsz y hy).1)]
      simp only [List.mem_map]
      exact ⟨(x, o), ho, rfl⟩
    have hlook : lookupPos (pairsFrom cd 0 es) x.id = some (E1.length, o) :=
      lookupPos_mem _ _ _ (by rw [pairsFrom_ids]; exact hnd) hpair
    have hblock : (es.map (·.pos))[E1.length]? = some e.pos := by rw [hes]; simp
    have hdoc : docAt (rawDocs ds) o = some x.body := by
      have := docAt_docOffsets ds (fun y hy => (hsz y hy).2) [] 0 rfl (x, o) ho
      simpa using this
    simp only [fetch, hlook, hblock, hread, hdocs, hdoc]
  · intro t ht
    simp only [search, List.mem_map, List.mem_filter, decide_eq_true_eq]
    refine ⟨(t, x.id), ⟨?_, rfl⟩, rfl⟩
    simp only [postingsOf, List.mem_flatMap, List.mem_map]
    refine ⟨e, he, ⟨x.id, x.body.length, x.tokens⟩, ?_, t, ht, rfl⟩
    rw [hmeta]; simp only [metasOf, List.mem_map]
    exact ⟨x, hx, rfl⟩

/-- documents of a complete bulk are served by the index built from the tasks in **any order** -/
theorem inv_docs_served_perm (cd : IdxCodec) (hcd : cd.ExtFree) (st : St) (bs : List (Blk × Blk)) (junk torn : Bytes)
    (hinv : InvD st bs junk torn) (hnd : (bulkIDs cd bs).Nodup) (es : List Entry) (hperm : es.Perm st.idx)
    (d m : Blk) (hb : (d, m) ∈ bs) (ds : List LDoc)
    (hdocs : cd.docsRaw (enc d) = some (rawDocs ds)) (hmeta : cd.metaDocs (enc m) = metasOf ds)
    (hsz : ∀ x ∈ ds, 0 < x.body.length ∧ x.body.length < 256 ^ 4) :
    ∀ x ∈ ds, fetch cd st.docs (buildIndex cd es) x.id = some x.body ∧
      ∀ t ∈ x.tokens, x.id ∈ search (buildIndex cd es) t := by
  obtain ⟨t, ht, h1, e1, e2, h2⟩ := mem_stamped_of_mem bs 0 d m hb
  have hids : (idsOf cd es).Nodup := by
    have hp : (idsOf cd es).Perm (idsOf cd st.idx) := List.Perm.flatMap_right _ hperm
    rw [hp.nodup_iff, hinv.idx, idsOf_entriesOf cd hcd]; exact hnd
  have he : (⟨enc t.2.1, t.2.2⟩ : Entry) ∈ es := by
    rw [hperm.mem_iff, hinv.idx, entriesOf, List.mem_map]; exact ⟨t, ht, rfl⟩
  have hread : readBlockAt st.docs t.2.2 = some (enc d) := by
    have := readBlockAt_stamped bs hinv.wf [] junk 0 rfl t ht
    rw [h1] at this
    simpa [hinv.docs] using this
  exact served_of_mem cd st.docs es hids ⟨enc t.2.1, t.2.2⟩ he (enc d) hread ds hdocs
    (by simp only [h2]; rw [hcd m, hmeta]) hsz

end SV.WPath
