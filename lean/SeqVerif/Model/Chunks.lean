namespace SV.Chunks

def W : Nat := 4294967296          -- 2^32
def marker : Nat := 4294967295     -- math.MaxUint32

/-- uint32 addition of an int64 delta: lid += uint32(delta) -/
def addDelta (lid : Nat) (delta : Int) : Nat := (((lid : Int) + delta) % 4294967296).toNat

/-- Chunks.Pack for one chunk: deltas, threading lastLID -/
def packChunk : List Nat → Nat → List Int × Nat
  | [], last => ([], last)
  | lid :: rest, last =>
    let r := packChunk rest lid
    (((lid : Int) - last) :: r.1, r.2)

/-- Chunks.Pack: end marker after every chunk except the last one unless IsLastLID -/
def pack : List (List Nat) → Bool → Nat → List Int
  | [], _, _ => []
  | [c], isLast, last =>
    let r := packChunk c last
    if isLast then r.1 ++ [(-1 : Int) - r.2] else r.1
  | c :: c' :: cs, isLast, last =>
    let r := packChunk c last
    r.1 ++ [(-1 : Int) - r.2] ++ pack (c' :: cs) isLast r.2

/-- Chunks.unpack state: current lid, finished chunks (reversed), current chunk (reversed) -/
structure U where
  lid : Nat
  done : List (List Nat)
  cur : List Nat

def step (u : U) (delta : Int) : U :=
  let lid' := addDelta u.lid delta
  if lid' = marker then { u with done := u.cur.reverse :: u.done, cur := [] }   -- lid restored
  else { lid := lid', done := u.done, cur := lid' :: u.cur }

def finish (u : U) : List (List Nat) × Bool :=
  if u.cur.isEmpty then (u.done.reverse, true) else ((u.cur.reverse :: u.done).reverse, false)

def unpack (ds : List Int) : List (List Nat) × Bool := finish (ds.foldl step ⟨0, [], []⟩)

def Small (c : List Nat) : Prop := ∀ l, l ∈ c → l < marker

theorem addDelta_lid (last lid : Nat) (hl : lid < marker) (hlast : last < W) :
    addDelta last ((lid : Int) - last) = lid := by
  unfold addDelta W marker at *
  omega

theorem addDelta_marker (last : Nat) (hlast : last < W) :
    addDelta last ((-1 : Int) - last) = marker := by
  unfold addDelta W marker at *
  omega

theorem foldl_packChunk (c : List Nat) (hc : Small c) (u : U) (hu : u.lid < marker) :
    (packChunk c u.lid).1.foldl step u =
      { lid := (packChunk c u.lid).2, done := u.done, cur := c.reverse ++ u.cur } ∧
    (packChunk c u.lid).2 < marker := by
  induction c generalizing u with
  | nil => simp [packChunk]; exact hu
  | cons l rest ih =>
    have hl : l < marker := hc l (by simp)
    have hrest : Small rest := fun x hx => hc x (List.mem_cons_of_mem _ hx)
    simp only [packChunk, List.foldl_cons]
    have hstep : step u ((l : Int) - u.lid) = { lid := l, done := u.done, cur := l :: u.cur } := by
      unfold step
      rw [addDelta_lid u.lid l hl (by unfold marker W at *; omega)]
      have : l ≠ marker := by omega
      simp [this]
    rw [hstep]
    have := ih hrest { lid := l, done := u.done, cur := l :: u.cur } hl
    simp only at this
    refine ⟨?_, this.2⟩
    rw [this.1]
    simp

theorem step_marker (u : U) (hu : u.lid < marker) :
    step u ((-1 : Int) - u.lid) = { u with done := u.cur.reverse :: u.done, cur := [] } := by
  unfold step
  rw [addDelta_marker u.lid (by unfold marker W at *; omega)]
  simp

/-- round trip on the accumulator: all chunks small; when not IsLastLID the last chunk is non-empty -/
theorem finish_foldl_pack (cs : List (List Nat)) (isLast : Bool) (hne : cs ≠ [])
    (hs : ∀ c, c ∈ cs → Small c) (hlast : isLast = false → cs.getLast hne ≠ [])
    (u : U) (hu : u.lid < marker) (hcur : u.cur = []) :
    finish ((pack cs isLast u.lid).foldl step u) = (u.done.reverse ++ cs, isLast) := by
  induction cs generalizing u with
  | nil => exact absurd rfl hne
  | cons c cs ih =>
    have hc := hs c (by simp)
    have hp := foldl_packChunk c hc u hu
    cases cs with
    | nil =>
      simp only [pack]
      cases isLast with
      | true =>
        simp only [if_true, List.foldl_append, List.foldl_cons, List.foldl_nil]
        rw [hp.1, step_marker _ hp.2]
        simp [finish, hcur]
      | false =>
        have hcne : c ≠ [] := by simpa using hlast rfl
        simp only [Bool.false_eq_true, if_false]
        rw [hp.1]
        have : (c.reverse ++ u.cur).isEmpty = false := by
          cases c with
          | nil => exact absurd rfl hcne
          | cons a t => simp [hcur]
        simp [finish, hcur, hcne]
    | cons c' cs' =>
      have hcs : ∀ d, d ∈ c' :: cs' → Small d := fun d hd => hs d (List.mem_cons_of_mem _ hd)
      simp only [pack, List.foldl_append, List.foldl_cons, List.foldl_nil]
      rw [hp.1, step_marker _ hp.2]
      simp only [hcur, List.append_nil, List.reverse_reverse]
      have := ih (by simp) hcs (by simpa using hlast)
        { lid := (packChunk c u.lid).2, done := c :: u.done, cur := [] } hp.2 rfl
      simp only at this
      rw [this]
      simp

/-- C03 codec core: unpack (pack chunks) = chunks, for every chunk list the generator can produce -/
theorem unpack_pack (cs : List (List Nat)) (isLast : Bool) (hne : cs ≠ [])
    (hs : ∀ c, c ∈ cs → Small c) (hlast : isLast = false → cs.getLast hne ≠ []) :
    unpack (pack cs isLast 0) = (cs, isLast) := by
  have := finish_foldl_pack cs isLast hne hs hlast ⟨0, [], []⟩ (by decide) rfl
  simpa [unpack] using this

example : unpack (pack [[3, 7], [], [9]] false 0) = ([[3, 7], [], [9]], false) := by decide

end SV.Chunks
