import SeqVerif.Model.SeqQLFilter
import SeqVerif.Model.ParserCoreLemmas
/-!
Lemmas about the SeqQL field-filter parser over lexer tokens (C12 level B): progress (every successful parser
consumes at least one token), fuel sufficiency, NAND-free output, no panic once the type switch returns an error,
and the meaning of text filters (conjunction of words) and in-lists (disjunction of values).
-/
namespace SV.Parser

theorem PRes.bind_eq_ok {β γ : Type} {x : PRes β} {g : β → PRes γ} {c : γ} :
    x.bind g = .ok c ↔ ∃ b, x = .ok b ∧ g b = .ok c := by
  cases x <;> simp [PRes.bind]

theorem PRes.bind_ne_oof {β γ : Type} {x : PRes β} {g : β → PRes γ}
    (hx : x ≠ .oof) (hg : ∀ b, x = .ok b → g b ≠ .oof) : x.bind g ≠ .oof := by
  cases x with
  | ok b => exact hg b rfl
  | err => simp [PRes.bind]
  | panic => simp [PRes.bind]
  | oof => exact absurd rfl hx

theorem PRes.bind_ne_panic' {β γ : Type} {x : PRes β} {g : β → PRes γ}
    (hx : x ≠ .panic) (hg : ∀ b, x = .ok b → g b ≠ .panic) : x.bind g ≠ .panic := by
  cases x with
  | ok b => exact hg b rfl
  | err => simp [PRes.bind]
  | panic => exact absurd rfl hx
  | oof => simp [PRes.bind]

/-! ## composite tokens -/

theorem joinComposite_len (acc : List Rn) (r : List LTok) : (joinComposite acc r).2.length ≤ r.length := by
  induction r generalizing acc with
  | nil => simp [joinComposite]
  | cons t r ih =>
    simp only [joinComposite]
    split
    · have := ih (acc ++ t.rs); simp only [List.length_cons]; omega
    · simp

theorem compositeToken_ok {toks : List LTok} {v : List Rn} {rest : List LTok}
    (h : compositeToken toks = .ok (v, rest)) : rest.length < toks.length := by
  cases toks with
  | nil => simp [compositeToken] at h
  | cons t r =>
    simp only [compositeToken] at h
    split at h
    · simp at h
    · split at h
      · simp at h
      · simp only [PRes.ok.injEq] at h
        have := joinComposite_len t.rs r
        rw [h] at this
        simp only [List.length_cons]
        exact Nat.lt_succ_of_le this

theorem compositeToken_ne (toks : List LTok) : compositeToken toks ≠ .oof ∧ compositeToken toks ≠ .panic := by
  cases toks with
  | nil => simp [compositeToken]
  | cons t r =>
    simp only [compositeToken]
    split
    · simp
    · split <;> simp

/-! ## text filters: conjunction of the words -/

theorem foldl_and_noNand (field : List Nat) (ls : List (List Term)) (t : Ast Leaf) (ht : t.NoNand) :
    (ls.foldl (fun t x => Ast.bin .and t (.leaf (.lit field x))) t).NoNand := by
  induction ls generalizing t with
  | nil => exact ht
  | cons l ls ih => exact ih _ ⟨by decide, ht, trivial⟩

theorem buildAndTree_noNand (field : List Nat) (ls : List (List Term)) : (buildAndTree field ls).NoNand := by
  cases ls with
  | nil => trivial
  | cons l ls => exact foldl_and_noNand field ls _ trivial

theorem foldl_and_eval (env : Leaf → Bool) (field : List Nat) (ls : List (List Term)) (t : Ast Leaf) :
    (ls.foldl (fun t x => Ast.bin .and t (.leaf (.lit field x))) t).eval env
      = (t.eval env && ls.all fun x => env (.lit field x)) := by
  induction ls generalizing t with
  | nil => simp
  | cons l ls ih => rw [List.foldl_cons, ih]; simp [Ast.eval, Bool.and_assoc]

/-- **several words on a text field are a conjunction**: the tree `buildAndTree` makes from the literals of
`parseSeqQLText` selects a document iff every literal does -/
theorem buildAndTree_eval (env : Leaf → Bool) (field : List Nat) (ls : List (List Term)) (h : ls ≠ []) :
    (buildAndTree field ls).eval env = ls.all fun x => env (.lit field x) := by
  cases ls with
  | nil => exact absurd rfl h
  | cons l ls => simp [buildAndTree, foldl_and_eval, Ast.eval]

theorem ite_nonempty {β : Type} (l : List β) (x : β) : (if l.isEmpty then [x] else l) ≠ [] := by
  cases l <;> simp

theorem seqqlText_ne_nil (cs : Bool) (v : List Rn) : seqqlText cs v ≠ [] := by
  unfold seqqlText
  split
  · simp
  · exact ite_nonempty _ _

/-! ## one value -/

theorem fulltextFilter_ok {dp : Bool} {field : List Nat} {t : FT} {cs : Bool} {toks : List LTok} {a : Ast Leaf} {rest : List LTok}
    (h : fulltextFilter dp field t cs toks = .ok (a, rest)) : rest.length < toks.length ∧ a.NoNand := by
  unfold fulltextFilter at h
  obtain ⟨p, hp, h⟩ := PRes.bind_eq_ok.mp h
  obtain ⟨v, r⟩ := p
  have hl := compositeToken_ok hp
  cases t <;> simp only at h
  all_goals first
    | (simp only [PRes.ok.injEq, Prod.mk.injEq] at h; obtain ⟨rfl, rfl⟩ := h; exact ⟨hl, trivial⟩)
    | (simp only [PRes.ok.injEq, Prod.mk.injEq] at h; obtain ⟨rfl, rfl⟩ := h; exact ⟨hl, buildAndTree_noNand _ _⟩)
    | (split at h <;> simp at h)

theorem fulltextFilter_ne_oof (dp : Bool) (field : List Nat) (t : FT) (cs : Bool) (toks : List LTok) :
    fulltextFilter dp field t cs toks ≠ .oof := by
  unfold fulltextFilter
  refine PRes.bind_ne_oof (compositeToken_ne toks).1 ?_
  intro b _
  cases t <;> simp only <;> first | (simp; done) | (split <;> simp)

theorem fulltextFilter_ne_panic (field : List Nat) (t : FT) (cs : Bool) (toks : List LTok) :
    fulltextFilter false field t cs toks ≠ .panic := by
  unfold fulltextFilter
  refine PRes.bind_ne_panic' (compositeToken_ne toks).2 ?_
  intro b _
  cases t <;> simp

theorem rangeTerm_ok {cs : Bool} {toks : List LTok} {t : Term} {rest : List LTok}
    (h : rangeTerm cs toks = .ok (t, rest)) : rest.length < toks.length := by
  unfold rangeTerm at h
  obtain ⟨p, hp, h⟩ := PRes.bind_eq_ok.mp h
  have hl := compositeToken_ok (v := p.1) (rest := p.2) (by simpa using hp)
  split at h <;> simp only [PRes.ok.injEq, Prod.mk.injEq, reduceCtorEq] at h
  · rw [← h.2]; exact hl
  · rw [← h.2]; exact hl

theorem rangeTerm_ne (cs : Bool) (toks : List LTok) : rangeTerm cs toks ≠ .oof ∧ rangeTerm cs toks ≠ .panic := by
  unfold rangeTerm
  constructor
  · refine PRes.bind_ne_oof (compositeToken_ne toks).1 ?_
    intro b _; split <;> simp
  · refine PRes.bind_ne_panic' (compositeToken_ne toks).2 ?_
    intro b _; split <;> simp

theorem tokenRange_ok {field : List Nat} {cs : Bool} {toks : List LTok} {a : Ast Leaf} {rest : List LTok}
    (h : tokenRange field cs toks = .ok (a, rest)) : rest.length < toks.length ∧ a.NoNand := by
  cases toks with
  | nil => simp [tokenRange] at h
  | cons t r =>
    simp only [tokenRange] at h
    split at h
    · simp at h
    · obtain ⟨p1, hp1, h⟩ := PRes.bind_eq_ok.mp h
      have l1 := rangeTerm_ok (t := p1.1) (rest := p1.2) (by simpa using hp1)
      split at h
      · simp at h
      · rename_i t2 r2 heq
        split at h
        · simp at h
        · obtain ⟨p2, hp2, h⟩ := PRes.bind_eq_ok.mp h
          have l2 := rangeTerm_ok (t := p2.1) (rest := p2.2) (by simpa using hp2)
          split at h
          · simp at h
          · rename_i t3 r3 heq3
            split at h
            · simp at h
            · simp only [PRes.ok.injEq, Prod.mk.injEq] at h
              obtain ⟨rfl, rfl⟩ := h
              rw [heq] at l1
              rw [heq3] at l2
              simp only [List.length_cons] at l1 l2 ⊢
              exact ⟨by omega, trivial⟩

theorem tokenRange_ne (field : List Nat) (cs : Bool) (toks : List LTok) :
    tokenRange field cs toks ≠ .oof ∧ tokenRange field cs toks ≠ .panic := by
  cases toks with
  | nil => simp [tokenRange]
  | cons t r =>
    simp only [tokenRange]
    split
    · simp
    · constructor
      · refine PRes.bind_ne_oof (rangeTerm_ne cs r).1 ?_
        intro b _
        split
        · simp
        · split
          · simp
          · refine PRes.bind_ne_oof (rangeTerm_ne cs _).1 ?_
            intro b2 _
            split
            · simp
            · split <;> simp
      · refine PRes.bind_ne_panic' (rangeTerm_ne cs r).2 ?_
        intro b _
        split
        · simp
        · split
          · simp
          · refine PRes.bind_ne_panic' (rangeTerm_ne cs _).2 ?_
            intro b2 _
            split
            · simp
            · split <;> simp

/-! ## in-lists: disjunction of the values -/

/-- `toks` is `, v1 , v2 ... , vn` followed by `rest` (which does not start with a comma), value `i` parsing to `items[i]` -/
inductive InItems (dp : Bool) (field : List Nat) (t : FT) (cs : Bool) : List LTok → List (Ast Leaf) → List LTok → Prop
  | stopNil : InItems dp field t cs [] [] []
  | stop {tk : LTok} {r : List LTok} : kwIn tk [.comma] = false → InItems dp field t cs (tk :: r) [] (tk :: r)
  | item {tk : LTok} {r r' rest : List LTok} {a : Ast Leaf} {items : List (Ast Leaf)} :
      kwIn tk [.comma] = true → fulltextFilter dp field t cs r = .ok (a, r') → InItems dp field t cs r' items rest →
      InItems dp field t cs (tk :: r) (a :: items) rest

theorem inLoop_spec (dp : Bool) (field : List Nat) (t : FT) (cs : Bool) :
    ∀ (f : Nat) (root : Ast Leaf) (toks : List LTok), toks.length + 1 ≤ f →
      inLoop dp field t cs f root toks ≠ .oof ∧
      ∀ a rest, inLoop dp field t cs f root toks = .ok (a, rest) →
        rest.length ≤ toks.length ∧ (root.NoNand → a.NoNand) ∧
        ∃ items, InItems dp field t cs toks items rest ∧ a = items.foldl (fun x y => Ast.bin .or x y) root := by
  intro f
  induction f with
  | zero => intro root toks h; omega
  | succ f ih =>
    intro root toks h
    cases toks with
    | nil =>
      simp only [inLoop]
      refine ⟨by simp, ?_⟩
      intro a rest h'
      simp only [PRes.ok.injEq, Prod.mk.injEq] at h'
      obtain ⟨rfl, rfl⟩ := h'
      exact ⟨by simp, id, [], .stopNil, rfl⟩
    | cons tk r =>
      simp only [inLoop]
      simp only [List.length_cons] at h
      split
      · rename_i hc
        cases hft : fulltextFilter dp field t cs r with
        | ok p =>
          obtain ⟨x, r'⟩ := p
          have hx := fulltextFilter_ok hft
          have := ih (.bin .or root x) r' (by omega)
          simp only [PRes.bind_ok]
          refine ⟨this.1, ?_⟩
          intro a rest h'
          obtain ⟨h1, h2, items, h3, h4⟩ := this.2 a rest h'
          refine ⟨by simp only [List.length_cons]; omega, fun hr => h2 ⟨by decide, hr, hx.2⟩, x :: items, .item hc hft h3, ?_⟩
          simpa using h4
        | err => simp
        | panic => simp
        | oof => exact absurd hft (fulltextFilter_ne_oof _ _ _ _ _)
      · rename_i hc
        refine ⟨by simp, ?_⟩
        intro a rest h'
        simp only [PRes.ok.injEq, Prod.mk.injEq] at h'
        obtain ⟨rfl, rfl⟩ := h'
        exact ⟨by simp, id, [], .stop (by simpa using hc), rfl⟩

theorem inLoop_ne_panic (field : List Nat) (t : FT) (cs : Bool) :
    ∀ (f : Nat) (root : Ast Leaf) (toks : List LTok), inLoop false field t cs f root toks ≠ .panic := by
  intro f
  induction f with
  | zero => intro root toks; simp [inLoop]
  | succ f ih =>
    intro root toks
    cases toks with
    | nil => simp [inLoop]
    | cons tk r =>
      simp only [inLoop]
      split
      · exact PRes.bind_ne_panic' (fulltextFilter_ne_panic _ _ _ _) (fun b _ => ih _ _)
      · simp

theorem foldl_or_eval (env : Leaf → Bool) (items : List (Ast Leaf)) (root : Ast Leaf) :
    (items.foldl (fun x y => Ast.bin .or x y) root).eval env = (root.eval env || items.any fun x => x.eval env) := by
  induction items generalizing root with
  | nil => simp
  | cons x xs ih => rw [List.foldl_cons, ih]; simp [Ast.eval, Bool.or_assoc]

theorem filterIn_ok {dp : Bool} {field : List Nat} {t : FT} {cs : Bool} {toks : List LTok} {a : Ast Leaf} {rest : List LTok}
    (h : filterIn dp field t cs toks = .ok (a, rest)) :
    rest.length < toks.length ∧ a.NoNand ∧
    ∃ (r1 r2 : List LTok) (first : Ast Leaf) (items : List (Ast Leaf)) (open_ close : LTok),
      toks = open_ :: r1 ∧ fulltextFilter dp field t cs r1 = .ok (first, r2) ∧
      InItems dp field t cs r2 items (close :: rest) ∧ kwIn close [.rp] = true ∧
      ∀ env, a.eval env = (first.eval env || items.any fun x => x.eval env) := by
  cases toks with
  | nil => simp [filterIn] at h
  | cons tk r =>
    simp only [filterIn] at h
    split at h
    · simp at h
    · cases r with
      | nil =>
        simp only at h
        obtain ⟨p, _, h⟩ := PRes.bind_eq_ok.mp h
        simp at h
      | cons t2 r2 =>
        simp only at h
        split at h
        · simp at h
        · obtain ⟨p, hp, h⟩ := PRes.bind_eq_ok.mp h
          obtain ⟨first, r'⟩ := p
          obtain ⟨q, hq, h⟩ := PRes.bind_eq_ok.mp h
          obtain ⟨a', r''⟩ := q
          have h1 := fulltextFilter_ok hp
          obtain ⟨l2, nn, items, hit, ha⟩ := (inLoop_spec dp field t cs (r'.length + 1) first r' (Nat.le_refl _)).2 a' r'' hq
          simp only at h
          split at h
          · simp at h
          · rename_i t3 r3
            split at h
            · rename_i hclose
              simp only [PRes.ok.injEq, Prod.mk.injEq] at h
              obtain ⟨rfl, rfl⟩ := h
              refine ⟨?_, nn h1.2, t2 :: r2, r', first, items, tk, t3, rfl, hp, hit, hclose, ?_⟩
              · simp only [List.length_cons] at l2 h1 ⊢; omega
              · intro env; rw [ha, foldl_or_eval]
            · simp at h

theorem filterIn_ne (dp : Bool) (field : List Nat) (t : FT) (cs : Bool) (toks : List LTok) :
    filterIn dp field t cs toks ≠ .oof ∧ (dp = false → filterIn dp field t cs toks ≠ .panic) := by
  cases toks with
  | nil => simp [filterIn]
  | cons tk r =>
    simp only [filterIn]
    split
    · simp
    · cases r with
      | nil =>
        simp only
        constructor
        · exact PRes.bind_ne_oof (fulltextFilter_ne_oof _ _ _ _ _) (fun _ _ => by simp)
        · intro hd; subst hd
          exact PRes.bind_ne_panic' (fulltextFilter_ne_panic _ _ _ _) (fun _ _ => by simp)
      | cons t2 r2 =>
        simp only
        split
        · simp
        · constructor
          · refine PRes.bind_ne_oof (fulltextFilter_ne_oof _ _ _ _ _) ?_
            intro b _
            refine PRes.bind_ne_oof (inLoop_spec dp field t cs _ _ _ (Nat.le_refl _)).1 ?_
            intro q _
            split
            · simp
            · split <;> simp
          · intro hd; subst hd
            refine PRes.bind_ne_panic' (fulltextFilter_ne_panic _ _ _ _) ?_
            intro b _
            refine PRes.bind_ne_panic' (inLoop_ne_panic _ _ _ _ _ _) ?_
            intro q _
            split
            · simp
            · split <;> simp

/-! ## the whole field filter -/

theorem fieldFilter_ok {c : Cfg} {toks : List LTok} {a : Ast Leaf} {rest : List LTok}
    (h : fieldFilter c toks = .ok (a, rest)) : rest.length < toks.length ∧ a.NoNand := by
  unfold fieldFilter at h
  obtain ⟨p, hp, h⟩ := PRes.bind_eq_ok.mp h
  obtain ⟨v, r⟩ := p
  have hl := compositeToken_ok hp
  simp only at h
  split at h
  · simp at h
  · split at h
    · simp at h
    · split at h
      · simp at h
      · rename_i tc r1
        split at h
        · simp at h
        · split at h
          · simp at h
          · rename_i tv r2
            split at h
            · simp at h
            · simp only [List.length_cons] at hl
              split at h
              · have := tokenRange_ok h
                simp only [List.length_cons] at this
                exact ⟨by omega, this.2⟩
              · split at h
                · have := filterIn_ok h
                  exact ⟨by omega, this.2.1⟩
                · have := fulltextFilter_ok h
                  simp only [List.length_cons] at this
                  exact ⟨by omega, this.2⟩

theorem fieldFilter_ne (c : Cfg) (toks : List LTok) :
    fieldFilter c toks ≠ .oof ∧ (c.dp = false → fieldFilter c toks ≠ .panic) := by
  unfold fieldFilter
  constructor
  · refine PRes.bind_ne_oof (compositeToken_ne toks).1 ?_
    intro p _
    simp only
    split
    · simp
    · split
      · simp
      · split
        · simp
        · split
          · simp
          · split
            · simp
            · split
              · simp
              · split
                · exact (tokenRange_ne _ _ _).1
                · split
                  · exact (filterIn_ne _ _ _ _ _).1
                  · exact fulltextFilter_ne_oof _ _ _ _ _
  · intro hd
    refine PRes.bind_ne_panic' (compositeToken_ne toks).2 ?_
    intro p _
    simp only
    split
    · simp
    · split
      · simp
      · split
        · simp
        · split
          · simp
          · split
            · simp
            · split
              · simp
              · split
                · exact (tokenRange_ne _ _ _).2
                · split
                  · exact (filterIn_ne _ _ _ _ _).2 hd
                  · rw [hd]; exact fulltextFilter_ne_panic _ _ _ _

/-! ## pipes -/

theorem fieldList_spec : ∀ (f : Nat) (acc : List (List Nat)) (tr : Bool) (toks : List LTok), toks.length + 1 ≤ f →
    fieldList f acc tr toks ≠ .oof ∧ fieldList f acc tr toks ≠ .panic ∧
    ∀ fs rest, fieldList f acc tr toks = .ok (fs, rest) → rest.length ≤ toks.length := by
  intro f
  induction f with
  | zero => intro acc tr toks h; omega
  | succ f ih =>
    intro acc tr toks h
    rw [fieldList]
    by_cases hs : atStop toks [.pipe, .empty] = true
    · simp only [hs, if_true]
      by_cases htr : tr = true
      · simp [htr]
      · by_cases hacc : acc.isEmpty = true
        · simp [htr, hacc]
        · simp only [htr, hacc, Bool.false_eq_true, if_false]
          refine ⟨by simp, by simp, ?_⟩
          intro fs rest h'
          simp only [PRes.ok.injEq, Prod.mk.injEq] at h'
          rw [← h'.2]; exact Nat.le_refl _
    · simp only [hs, Bool.false_eq_true, if_false]
      cases hc : compositeToken toks with
      | ok p =>
        obtain ⟨v, r⟩ := p
        have hl := compositeToken_ok hc
        simp only [PRes.bind_ok]
        cases r with
        | nil =>
          simp only
          have := ih (acc ++ [nameBytes v]) false [] (by simp; omega)
          exact ⟨this.1, this.2.1, fun fs rest h' => by have := this.2.2 fs rest h'; simp at this; simp [this]⟩
        | cons t r' =>
          simp only [List.length_cons] at hl
          simp only
          split
          · have := ih (acc ++ [nameBytes v]) true r' (by omega)
            exact ⟨this.1, this.2.1, fun fs rest h' => by have := this.2.2 fs rest h'; omega⟩
          · have := ih (acc ++ [nameBytes v]) false (t :: r') (by simp only [List.length_cons]; omega)
            exact ⟨this.1, this.2.1, fun fs rest h' => by have := this.2.2 fs rest h'; simp only [List.length_cons] at this; omega⟩
      | err => simp
      | panic => exact absurd hc (compositeToken_ne toks).2
      | oof => exact absurd hc (compositeToken_ne toks).1

theorem skipExcept_len (r : List LTok) : (skipExcept r).2.length ≤ r.length := by
  cases r with
  | nil => simp [skipExcept]
  | cons t r => simp only [skipExcept]; split <;> simp

theorem pipeFields_spec (toks : List LTok) :
    pipeFields toks ≠ .oof ∧ pipeFields toks ≠ .panic ∧
    ∀ p rest, pipeFields toks = .ok (p, rest) → rest.length < toks.length := by
  cases toks with
  | nil => simp [pipeFields]
  | cons t r =>
    simp only [pipeFields]
    split
    · simp
    · have hlen := skipExcept_len r
      have := fieldList_spec _ [] false (skipExcept r).2 (Nat.le_refl _)
      refine ⟨PRes.bind_ne_oof this.1 (fun _ _ => by simp), PRes.bind_ne_panic' this.2.1 (fun _ _ => by simp), ?_⟩
      intro p rest h'
      obtain ⟨q, hq, h'⟩ := PRes.bind_eq_ok.mp h'
      simp only [PRes.ok.injEq, Prod.mk.injEq] at h'
      have := this.2.2 q.1 q.2 (by simpa using hq)
      rw [← h'.2]
      simp only [List.length_cons]
      omega

theorem pipes_spec : ∀ (f cnt : Nat) (acc : List PipeFields) (toks : List LTok), toks.length ≤ f →
    pipes f cnt acc toks ≠ .oof ∧ pipes f cnt acc toks ≠ .panic := by
  intro f
  induction f with
  | zero =>
    intro cnt acc toks h
    cases toks with
    | nil => simp [pipes]
    | cons t r => simp at h
  | succ f ih =>
    intro cnt acc toks h
    cases toks with
    | nil => simp [pipes]
    | cons t r =>
      simp only [pipes]
      split
      · simp
      · cases r with
        | nil => simp
        | cons t2 r2 =>
          simp only
          split
          · have hp := pipeFields_spec (t2 :: r2)
            constructor
            · refine PRes.bind_ne_oof hp.1 ?_
              intro b hb
              split
              · simp
              · have := hp.2.2 b.1 b.2 (by simpa using hb)
                simp only [List.length_cons] at this h
                exact (ih _ _ _ (by omega)).1
            · refine PRes.bind_ne_panic' hp.2.1 ?_
              intro b hb
              split
              · simp
              · have := hp.2.2 b.1 b.2 (by simpa using hb)
                simp only [List.length_cons] at this h
                exact (ih _ _ _ (by omega)).2
          · simp

/-! ## the skeleton instance is good -/

theorem seqqlSkel_good (c : Cfg) (mx : Option Nat) : (seqqlSkel c mx).Good :=
  ⟨fun _ _ _ h => (fieldFilter_ok h).1, fun _ _ _ h => (fieldFilter_ok h).2, fun toks => (fieldFilter_ne c toks).1⟩

theorem seqqlSkel_pipes (c : Cfg) (mx : Option Nat) (toks : List LTok) :
    (seqqlSkel c mx).pipes toks ≠ .panic ∧ (seqqlSkel c mx).pipes toks ≠ .oof := by
  have := pipes_spec toks.length 0 [] toks (Nat.le_refl _)
  exact ⟨PRes.bind_ne_panic' this.2 (fun _ _ => by simp), PRes.bind_ne_oof this.1 (fun _ _ => by simp)⟩

end SV.Parser
