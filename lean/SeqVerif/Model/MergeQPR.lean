import SeqVerif.Model.TopK
/-!
# Model of `seq.MergeQPRs` (seq/qpr.go) - used by C05 (and C19)

A `seq.ID{MID,RID}` is represented by the single number `key mid rid = mid * 2^64 + rid`; `seq.Less` is the
order of that number (`key_lt_iff`).  `IDSource.Source/Hint` are not modelled: `sort.Sort` is not stable, so which
of two equal IDs survives `removeRepetitionsAdvanced` is unspecified by the code, and the property only talks
about IDs.

`MergeQPRs(dst, qprs, limit, histInterval, order)` statement by statement:
  * `dst.Total += qpr.Total`                                         -> `mergedTotal`
  * `dst.Histogram[time] += count` (map created when a source has one) -> `mergedHist`
  * `dst.IDs = append(dst.IDs, qpr.IDs...)`, `sort.Sort` / `sort.Reverse` -> `mergedAll`
  * `removeRepetitionsAdvanced` (scan with `lastID`)                  -> `removeRepetitions`, `repetitions`
  * `removeHistogramRepetition`  (`histogram[bucket]--`, uint64)      -> `Hist.dec` at `bucket`
  * `if dst.Total > 0 { dst.Total -= repetitionsCount }` (uint64)     -> `subTotal`
  * `dst.IDs = ids[:min(len(ids), limit)]`                            -> `List.take`
Aggregations are modelled in `Model/AggMerge.lean`; `Errors` (appended) are not part of the property.
-/
namespace SV.Merge

/-! ## IDs -/

/-- 2^64 -/
def R : Nat := 18446744073709551616

def key (mid rid : Nat) : Nat := mid * R + rid
def midOf (k : Nat) : Nat := k / R
def ridOf (k : Nat) : Nat := k % R

/-- `seq.Less` -/
def idLess (m1 r1 m2 r2 : Nat) : Bool := if m1 = m2 then decide (r1 < r2) else decide (m1 < m2)

theorem key_lt_iff (m1 r1 m2 r2 : Nat) (h1 : r1 < R) (h2 : r2 < R) :
    key m1 r1 < key m2 r2 ↔ idLess m1 r1 m2 r2 = true := by
  unfold key idLess R at *
  split <;> simp <;> omega

theorem midOf_key (m r : Nat) (h : r < R) : midOf (key m r) = m := by
  unfold midOf key R at *; omega

theorem midOf_mono {a b : Nat} (h : a ≤ b) : midOf a ≤ midOf b := by
  unfold midOf; exact Nat.div_le_div_right h

/-! ## sort.Sort on IDs (by key only) -/

/-- non-strict order used by the sort: `a` may stand before `b` -/
abbrev LeBy (desc : Bool) (a b : Nat) : Prop := lessFn desc b a = false

def insertId (desc : Bool) (a : Nat) : List Nat → List Nat
  | [] => [a]
  | b :: bs => if lessFn desc b a then b :: insertId desc a bs else a :: b :: bs

/-- the ID sequence after `sort.Sort(dst.IDs)` (asc) / `sort.Sort(sort.Reverse(dst.IDs))` (desc): the sorted
permutation of the keys (every sorting algorithm yields this key sequence) -/
def sortIds (desc : Bool) : List Nat → List Nat
  | [] => []
  | a :: as => insertId desc a (sortIds desc as)

theorem mem_insertId (desc : Bool) (a v : Nat) (l : List Nat) : v ∈ insertId desc a l ↔ v = a ∨ v ∈ l := by
  induction l with
  | nil => simp [insertId]
  | cons b bs ih =>
    unfold insertId
    split
    · simp only [List.mem_cons, ih]; grind
    · simp only [List.mem_cons]

theorem mem_sortIds (desc : Bool) (v : Nat) (l : List Nat) : v ∈ sortIds desc l ↔ v ∈ l := by
  induction l with
  | nil => simp [sortIds]
  | cons a as ih => simp only [sortIds, mem_insertId, ih, List.mem_cons]

theorem length_insertId (desc : Bool) (a : Nat) (l : List Nat) : (insertId desc a l).length = l.length + 1 := by
  induction l with
  | nil => simp [insertId]
  | cons b bs ih => unfold insertId; split <;> simp [ih]

theorem length_sortIds (desc : Bool) (l : List Nat) : (sortIds desc l).length = l.length := by
  induction l with
  | nil => simp [sortIds]
  | cons a as ih => simp [sortIds, length_insertId, ih]

theorem leBy_of_not_less (desc : Bool) {a b : Nat} (h : ¬ lessFn desc b a = true) : LeBy desc a b := by
  simpa using h

theorem leBy_of_less (desc : Bool) {a b : Nat} (h : lessFn desc a b = true) : LeBy desc a b :=
  lessFn_asymm desc h

theorem leBy_trans (desc : Bool) {a b c : Nat} (h1 : LeBy desc a b) (h2 : LeBy desc b c) : LeBy desc a c := by
  unfold LeBy lessFn at *
  cases desc <;> simp at * <;> omega

theorem insertId_sorted (desc : Bool) (a : Nat) (l : List Nat) (hl : l.Pairwise (LeBy desc)) :
    (insertId desc a l).Pairwise (LeBy desc) := by
  induction l with
  | nil => simp [insertId]
  | cons b bs ih =>
    have hl' := List.pairwise_cons.mp hl
    unfold insertId
    split
    · rename_i hlt
      refine List.pairwise_cons.mpr ⟨?_, ih hl'.2⟩
      intro v hv
      rcases (mem_insertId desc a v bs).mp hv with h | h
      · subst h; exact leBy_of_less desc hlt
      · exact hl'.1 v h
    · rename_i hlt
      refine List.pairwise_cons.mpr ⟨?_, hl⟩
      intro v hv
      have hab : LeBy desc a b := leBy_of_not_less desc hlt
      rcases List.mem_cons.mp hv with h | h
      · subst h; exact hab
      · exact leBy_trans desc hab (hl'.1 v h)

theorem sortIds_sorted (desc : Bool) (l : List Nat) : (sortIds desc l).Pairwise (LeBy desc) := by
  induction l with
  | nil => simp [sortIds]
  | cons a as ih => exact insertId_sorted desc a _ ih

/-! ## removeRepetitionsAdvanced -/

/-- the kept IDs of the loop `for i := 1; ...` with `lastID = last` -/
def dedupGo : Nat → List Nat → List Nat
  | _, [] => []
  | last, x :: xs => if last ≠ x then x :: dedupGo x xs else dedupGo last xs

/-- the `lastID`s handed to `removeHistogramRepetition`, in loop order -/
def repsGo : Nat → List Nat → List Nat
  | _, [] => []
  | last, x :: xs => if last ≠ x then repsGo x xs else last :: repsGo last xs

/-- first component of `removeRepetitionsAdvanced` -/
def removeRepetitions : List Nat → List Nat
  | [] => []
  | x :: xs => x :: dedupGo x xs

/-- the repetitions met by `removeRepetitionsAdvanced` (its second component is the length of this list) -/
def repetitions : List Nat → List Nat
  | [] => []
  | x :: xs => repsGo x xs

theorem length_dedupGo_repsGo (last : Nat) (xs : List Nat) :
    (dedupGo last xs).length + (repsGo last xs).length = xs.length := by
  induction xs generalizing last with
  | nil => simp [dedupGo, repsGo]
  | cons x xs ih =>
    unfold dedupGo repsGo
    split
    · have := ih x; simp; omega
    · have := ih last; simp; omega

theorem length_removeRepetitions (l : List Nat) :
    (removeRepetitions l).length + (repetitions l).length = l.length := by
  cases l with
  | nil => simp [removeRepetitions, repetitions]
  | cons x xs => have := length_dedupGo_repsGo x xs; simp [removeRepetitions, repetitions]; omega

theorem mem_dedupGo (last v : Nat) (xs : List Nat) : v ∈ last :: dedupGo last xs ↔ v ∈ last :: xs := by
  induction xs generalizing last with
  | nil => simp [dedupGo]
  | cons x xs ih =>
    unfold dedupGo
    split
    · have := ih x; simp only [List.mem_cons] at *; grind
    · rename_i h
      have hx : last = x := by simpa using h
      subst hx
      have := ih last; simp only [List.mem_cons] at *; grind

theorem dedupGo_sorted (desc : Bool) (last : Nat) (xs : List Nat) (h : (last :: xs).Pairwise (LeBy desc)) :
    SortedBy desc (last :: dedupGo last xs) := by
  induction xs generalizing last with
  | nil => simp [dedupGo]
  | cons x xs ih =>
    have h' := List.pairwise_cons.mp h
    have h'' := List.pairwise_cons.mp h'.2
    unfold dedupGo
    split
    · rename_i hne
      have hlx : lessFn desc last x = true := by
        have := h'.1 x (by simp)
        rcases lessFn_tri desc last x with h1 | h1 | h1
        · exact h1
        · exact absurd h1 hne
        · simp [LeBy] at this; simp_all
      have ihx := ih x h'.2
      refine List.pairwise_cons.mpr ⟨?_, ihx⟩
      intro v hv
      have ihx' := List.pairwise_cons.mp ihx
      rcases List.mem_cons.mp hv with hv | hv
      · subst hv; exact hlx
      · exact lessFn_trans desc hlx (ihx'.1 v hv)
    · apply ih last
      exact List.pairwise_cons.mpr ⟨fun v hv => h'.1 v (List.mem_cons_of_mem _ hv), h''.2⟩

theorem removeRepetitions_sorted (desc : Bool) (l : List Nat) (h : l.Pairwise (LeBy desc)) :
    SortedBy desc (removeRepetitions l) := by
  cases l with
  | nil => simp [removeRepetitions]
  | cons x xs => exact dedupGo_sorted desc x xs h

theorem mem_removeRepetitions (v : Nat) (l : List Nat) : v ∈ removeRepetitions l ↔ v ∈ l := by
  cases l with
  | nil => simp [removeRepetitions]
  | cons x xs => exact mem_dedupGo x v xs

/-- sort, then remove adjacent repetitions: the ID list `MergeQPRs` has before the cut -/
def sd (desc : Bool) (xs : List Nat) : List Nat := removeRepetitions (sortIds desc xs)

theorem sd_sorted (desc : Bool) (xs : List Nat) : SortedBy desc (sd desc xs) :=
  removeRepetitions_sorted desc _ (sortIds_sorted desc xs)

theorem mem_sd (desc : Bool) (v : Nat) (xs : List Nat) : v ∈ sd desc xs ↔ v ∈ xs := by
  simp [sd, mem_removeRepetitions, mem_sortIds]

/-- `sd` depends only on the set of members: any regrouping / reordering / duplication of the inputs -/
theorem sd_congr (desc : Bool) (xs ys : List Nat) (h : ∀ v, v ∈ xs ↔ v ∈ ys) : sd desc xs = sd desc ys :=
  sortedBy_ext desc _ _ (sd_sorted desc xs) (sd_sorted desc ys) (fun v => by simp [mem_sd, h])

theorem sd_of_sorted (desc : Bool) (xs : List Nat) (h : SortedBy desc xs) : sd desc xs = xs :=
  sortedBy_ext desc _ _ (sd_sorted desc xs) h (fun v => mem_sd desc v xs)

theorem sd_append (desc : Bool) (xs ys : List Nat) :
    sd desc (xs ++ ys) = orMerge desc (sd desc xs) (sd desc ys) :=
  sortedBy_ext desc _ _ (sd_sorted desc _) (orMerge_sorted desc _ _ (sd_sorted desc xs) (sd_sorted desc ys))
    (fun v => by simp [mem_sd, mem_orMerge])

theorem sd_idem (desc : Bool) (xs : List Nat) : sd desc (sd desc xs) = sd desc xs :=
  sd_of_sorted desc _ (sd_sorted desc xs)

theorem orMerge_comm (desc : Bool) (xs ys : List Nat) (hx : SortedBy desc xs) (hy : SortedBy desc ys) :
    orMerge desc xs ys = orMerge desc ys xs :=
  sortedBy_ext desc _ _ (orMerge_sorted desc _ _ hx hy) (orMerge_sorted desc _ _ hy hx)
    (fun v => by simp [mem_orMerge, or_comm])

theorem sortedBy_take (desc : Bool) (n : Nat) (xs : List Nat) (h : SortedBy desc xs) : SortedBy desc (xs.take n) :=
  List.Pairwise.sublist (List.take_sublist n xs) h

theorem sortedBy_nodup (desc : Bool) (xs : List Nat) (h : SortedBy desc xs) : xs.Nodup := by
  apply List.Pairwise.imp _ h
  intro a b hab heq
  subst heq
  simp [lessFn_irrefl] at hab

/-! ## Histogram: `map[MID]uint64` as an association list (first entry of a key counts; keys stay unique) -/

abbrev Hist := List (Nat × Nat)

def Hist.get : Hist → Nat → Nat
  | [], _ => 0
  | (k', v) :: t, k => if k' = k then v else Hist.get t k

/-- `h[k] = f h[k]` (creates the entry like a Go map does) -/
def Hist.upd : Hist → Nat → (Nat → Nat) → Hist
  | [], k, f => [(k, f 0)]
  | (k', v) :: t, k, f => if k' = k then (k', f v) :: t else (k', v) :: Hist.upd t k f

theorem Hist.get_upd (h : Hist) (k : Nat) (f : Nat → Nat) (k2 : Nat) :
    Hist.get (Hist.upd h k f) k2 = if k2 = k then f (Hist.get h k) else Hist.get h k2 := by
  induction h with
  | nil => simp only [Hist.upd, Hist.get]; split <;> simp_all [eq_comm]
  | cons p t ih =>
    obtain ⟨k', v⟩ := p
    simp only [Hist.upd]
    split
    · rename_i hk; subst hk
      simp only [Hist.get]
      by_cases hk2 : k2 = k'
      · subst hk2; simp
      · have : ¬ k' = k2 := fun h => hk2 h.symm
        simp [hk2, this]
    · rename_i hk
      simp only [Hist.get]
      split
      · rename_i hk2; subst hk2
        simp [hk]
      · rw [ih]

/-- `histogram[bucket]--` on uint64 -/
def decU64 (c : Nat) : Nat := if 1 ≤ c then c - 1 else R - 1

/-- `bucket := id.MID; bucket -= bucket % histInterval` -/
def bucket (hi : Nat) (k : Nat) : Nat := midOf k - midOf k % hi

/-- `for time, count := range qpr.Histogram { dst.Histogram[time] += count }` -/
def addHist (h q : Hist) : Hist := q.foldl (fun acc p => Hist.upd acc p.1 (· + p.2)) h

/-- all `removeHistogramRepetition` calls of one `removeRepetitionsAdvanced` run -/
def decHist (hi : Nat) (h : Hist) (reps : List Nat) : Hist :=
  reps.foldl (fun acc r => Hist.upd acc (bucket hi r) decU64) h

/-! ## QPR and MergeQPRs -/

structure QPR where
  ids : List Nat
  total : Nat
  /-- `none` = nil map -/
  hist : Option Hist
deriving Repr, DecidableEq

def mergedTotal (dst : QPR) (qs : List QPR) : Nat := qs.foldl (fun t q => t + q.total) dst.total

def mergedHist (dst : QPR) (qs : List QPR) : Option Hist :=
  qs.foldl (fun h q => match q.hist with
    | none => h
    | some qh => some (addHist (h.getD []) qh)) dst.hist

/-- `dst.IDs` after the appends and the sort -/
def mergedAll (desc : Bool) (dst : QPR) (qs : List QPR) : List Nat :=
  sortIds desc (qs.foldl (fun acc q => acc ++ q.ids) dst.ids)

/-- `if dst.Total > 0 { dst.Total -= repetitionsCount }` on uint64 -/
def subTotal (total reps : Nat) : Nat :=
  if total > 0 then (if reps ≤ total then total - reps else total + R - reps) else total

/-- `removeHistogramRepetition` writes to a nil map: the only panic of `MergeQPRs` -/
def mergePanics (desc : Bool) (dst : QPR) (qs : List QPR) (hi : Nat) : Bool :=
  (mergedHist dst qs).isNone && decide (hi > 0) && !(repetitions (mergedAll desc dst qs)).isEmpty

def mergeQPRs (desc : Bool) (dst : QPR) (qs : List QPR) (limit hi : Nat) : QPR :=
  { ids := (removeRepetitions (mergedAll desc dst qs)).take limit
    total := subTotal (mergedTotal dst qs) (repetitions (mergedAll desc dst qs)).length
    hist := if hi > 0 then (mergedHist dst qs).map (fun h => decHist hi h (repetitions (mergedAll desc dst qs)))
            else mergedHist dst qs }

/-- all IDs that enter a merge -/
def allIds (dst : QPR) (qs : List QPR) : List Nat := dst.ids ++ qs.flatMap (·.ids)

theorem foldl_append_ids (acc : List Nat) (qs : List QPR) :
    qs.foldl (fun acc q => acc ++ q.ids) acc = acc ++ qs.flatMap (·.ids) := by
  induction qs generalizing acc with
  | nil => simp
  | cons q qs ih => simp [ih, List.flatMap_cons, List.append_assoc]

theorem mergeQPRs_ids (desc : Bool) (dst : QPR) (qs : List QPR) (limit hi : Nat) :
    (mergeQPRs desc dst qs limit hi).ids = (sd desc (allIds dst qs)).take limit := by
  simp only [mergeQPRs, mergedAll, sd, allIds, foldl_append_ids]

end SV.Merge
