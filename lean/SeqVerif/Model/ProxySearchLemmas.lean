import SeqVerif.Model.ProxySearch
/-! Helper lemmas for C16 (search side): replica loop, classification loop, sort / de-duplication. -/
namespace SV.ProxySearch

/-! ### searchShard -/

theorem searchShardGo_ok (i : Nat) (e : Bool) (calls : List Call) (rep : Nat) (ids : List ID) (t n : Nat) :
    searchShardGo i e calls = .ok rep ids t n ↔
      ∃ k, rep = i + k ∧ calls[k]? = some (.resp .none ids t n) ∧ ∀ j, j < k → calls[j]? = some .fail := by
  induction calls generalizing i e with
  | nil => simp [searchShardGo]; split <;> simp
  | cons c rest ih =>
    cases c with
    | fail =>
      simp only [searchShardGo]
      rw [ih]
      constructor
      · rintro ⟨k, hk, h1, h2⟩
        refine ⟨k + 1, by omega, by simpa using h1, ?_⟩
        intro j hj
        cases j with
        | zero => simp
        | succ j => simpa using h2 j (by omega)
      · rintro ⟨k, hk, h1, h2⟩
        cases k with
        | zero => simp at h1
        | succ k =>
          refine ⟨k, by omega, by simpa using h1, ?_⟩
          intro j hj
          simpa using h2 (j + 1) (by omega)
    | failWod =>
      simp only [searchShardGo]
      constructor
      · intro h; cases h
      · rintro ⟨k, _, h1, h2⟩
        cases k with
        | zero => simp at h1
        | succ k => have := h2 0 (by omega); simp at this
    | failTmu =>
      simp only [searchShardGo]
      constructor
      · intro h; cases h
      · rintro ⟨k, _, h1, h2⟩
        cases k with
        | zero => simp at h1
        | succ k => have := h2 0 (by omega); simp at this
    | resp code ids' t' n' =>
      cases code with
      | none =>
        simp only [searchShardGo]
        constructor
        · intro h
          injection h with h1 h2 h3 h4
          subst h1 h2 h3 h4
          exact ⟨0, rfl, by simp, by intro j hj; omega⟩
        · rintro ⟨k, hk, h1, h2⟩
          cases k with
          | zero =>
            simp at h1
            obtain ⟨h1, h3, h4⟩ := h1
            subst h1 h3 h4 hk
            rfl
          | succ k => have := h2 0 (by omega); simp at this
      | wod =>
        simp only [searchShardGo]
        constructor
        · intro h; cases h
        · rintro ⟨k, _, h1, h2⟩
          cases k with
          | zero => simp at h1
          | succ k => have := h2 0 (by omega); simp at this
      | tmu =>
        simp only [searchShardGo]
        constructor
        · intro h; cases h
        · rintro ⟨k, _, h1, h2⟩
          cases k with
          | zero => simp at h1
          | succ k => have := h2 0 (by omega); simp at this
      | tmf =>
        simp only [searchShardGo]
        constructor
        · intro h; cases h
        · rintro ⟨k, _, h1, h2⟩
          cases k with
          | zero => simp at h1
          | succ k => have := h2 0 (by omega); simp at this

theorem searchShardGo_nil (i : Nat) (e : Bool) (calls : List Call) :
    searchShardGo i e calls = .nilResp → calls = [] ∧ e = false := by
  induction calls generalizing i e with
  | nil => simp [searchShardGo]
  | cons c rest ih =>
    cases c with
    | fail => simp only [searchShardGo]; intro h; have := ih _ _ h; simp at this
    | failWod => simp [searchShardGo]
    | failTmu => simp [searchShardGo]
    | resp code _ _ _ => cases code <;> simp [searchShardGo]

/-- the shuffled replica loop: the answer is the first asked replica that does not fail, and it carries that
    replica's own index -/
theorem searchShardPGo_ok (e : Bool) (l : List (Nat × Call)) (rep : Nat) (ids : List ID) (t n : Nat) :
    searchShardPGo e l = .ok rep ids t n ↔
      ∃ k : Nat, l[k]? = some (rep, Call.resp .none ids t n) ∧ ∀ j : Nat, j < k → ∃ r : Nat, l[j]? = some (r, Call.fail) := by
  induction l generalizing e with
  | nil => simp [searchShardPGo]; split <;> simp
  | cons a rest ih =>
    obtain ⟨r, c⟩ := a
    cases c with
    | fail =>
      simp only [searchShardPGo]
      rw [ih]
      constructor
      · rintro ⟨k, h1, h2⟩
        refine ⟨k + 1, by simpa using h1, ?_⟩
        intro j hj
        cases j with
        | zero => exact ⟨r, by simp⟩
        | succ j => simpa using h2 j (by omega)
      · rintro ⟨k, h1, h2⟩
        cases k with
        | zero => simp at h1
        | succ k =>
          refine ⟨k, by simpa using h1, ?_⟩
          intro j hj
          simpa using h2 (j + 1) (by omega)
    | failWod =>
      simp only [searchShardPGo]
      constructor
      · intro h; cases h
      · rintro ⟨k, h1, h2⟩
        cases k with
        | zero => simp at h1
        | succ k => obtain ⟨r', hr'⟩ := h2 0 (by omega); simp at hr'
    | failTmu =>
      simp only [searchShardPGo]
      constructor
      · intro h; cases h
      · rintro ⟨k, h1, h2⟩
        cases k with
        | zero => simp at h1
        | succ k => obtain ⟨r', hr'⟩ := h2 0 (by omega); simp at hr'
    | resp code ids' t' n' =>
      cases code with
      | none =>
        simp only [searchShardPGo]
        constructor
        · intro h
          injection h with h0 h1 h2 h3
          subst h0 h1 h2 h3
          exact ⟨0, by simp, by intro j hj; omega⟩
        · rintro ⟨k, h1, h2⟩
          cases k with
          | zero =>
            simp at h1
            obtain ⟨h0, h1, h3, h4⟩ := h1
            subst h0 h1 h3 h4
            rfl
          | succ k => obtain ⟨r', hr'⟩ := h2 0 (by omega); simp at hr'
      | wod =>
        simp only [searchShardPGo]
        constructor
        · intro h; cases h
        · rintro ⟨k, h1, h2⟩
          cases k with
          | zero => simp at h1
          | succ k => obtain ⟨r', hr'⟩ := h2 0 (by omega); simp at hr'
      | tmu =>
        simp only [searchShardPGo]
        constructor
        · intro h; cases h
        · rintro ⟨k, h1, h2⟩
          cases k with
          | zero => simp at h1
          | succ k => obtain ⟨r', hr'⟩ := h2 0 (by omega); simp at hr'
      | tmf =>
        simp only [searchShardPGo]
        constructor
        · intro h; cases h
        · rintro ⟨k, h1, h2⟩
          cases k with
          | zero => simp at h1
          | succ k => obtain ⟨r', hr'⟩ := h2 0 (by omega); simp at hr'

theorem mem_permuted (perm : List Nat) (calls : List Call) (r : Nat) (c : Call) :
    (r, c) ∈ permuted perm calls ↔ r ∈ perm ∧ calls[r]? = some c := by
  simp only [permuted, List.mem_filterMap, Option.map_eq_some_iff]
  constructor
  · rintro ⟨a, ha, c', hc', heq⟩
    injection heq with h1 h2
    subst h1 h2
    exact ⟨ha, hc'⟩
  · rintro ⟨h1, h2⟩
    exact ⟨r, h1, c, h2, rfl⟩

/-- the replica named in a shuffled shard answer is one that was asked and that itself returned those IDs -/
theorem searchShardP_source (perm : List Nat) (calls : List Call) (rep : Nat) (ids : List ID) (t n : Nat)
    (h : searchShardP perm calls = .ok rep ids t n) : rep ∈ perm ∧ calls[rep]? = some (.resp .none ids t n) := by
  obtain ⟨k, hk, _⟩ := (searchShardPGo_ok false _ rep ids t n).mp h
  exact (mem_permuted perm calls rep _).mp (List.mem_of_getElem? hk)

/-- without shuffling (`idx = IdxFill(n)`) the permuted loop is the plain one -/
theorem searchShardPGo_range (i : Nat) (e : Bool) (calls : List Call) :
    searchShardPGo e ((indexed i calls)) = searchShardGo i e calls := by
  induction calls generalizing i e with
  | nil => rfl
  | cons c rest ih =>
    cases c with
    | fail => simp only [indexed, searchShardPGo, searchShardGo]; exact ih _ _
    | failWod => rfl
    | failTmu => rfl
    | resp code _ _ _ => cases code <;> rfl

/-! ### the classification loop -/

def oks : List (Nat × ShardRes) → List QPR
  | [] => []
  | (s, .ok rep ids t e) :: rest => ⟨(s, rep), ids, t, e⟩ :: oks rest
  | _ :: rest => oks rest

def nbad : List (Nat × ShardRes) → Nat
  | [] => 0
  | (_, .tmu) :: rest => nbad rest + 1
  | (_, .failed) :: rest => nbad rest + 1
  | _ :: rest => nbad rest

theorem mem_oks {arr : List (Nat × ShardRes)} {q : QPR} :
    q ∈ oks arr ↔ (q.src.1, ShardRes.ok q.src.2 q.ids q.total q.nerr) ∈ arr := by
  obtain ⟨⟨qs, qr⟩, qi, qt, qe⟩ := q
  induction arr with
  | nil => simp [oks]
  | cons a rest ih =>
    obtain ⟨s, r⟩ := a
    cases r <;> simp only [oks, List.mem_cons, ih, Prod.mk.injEq, reduceCtorEq, and_false, false_or]
    · rename_i rep ids t e
      simp only [QPR.mk.injEq, Prod.mk.injEq, ShardRes.ok.injEq]
      constructor
      · rintro (⟨⟨h1, h2⟩, h3, h4, h5⟩ | h)
        · exact Or.inl ⟨h1, h2, h3, h4, h5⟩
        · exact Or.inr h
      · rintro (⟨h1, h2, h3, h4, h5⟩ | h)
        · exact Or.inl ⟨⟨h1, h2⟩, h3, h4, h5⟩
        · exact Or.inr h

theorem nbad_pos {arr : List (Nat × ShardRes)} :
    0 < nbad arr ↔ ∃ e ∈ arr, e.2 = .tmu ∨ e.2 = .failed := by
  induction arr with
  | nil => simp [nbad]
  | cons a rest ih =>
    obtain ⟨s, r⟩ := a
    cases r <;> simp [nbad, ih]

/-- the loop reaches its epilogue with data exactly when no short-circuit answer is among the arrivals -/
theorem storesLoop_data (arr : List (Nat × ShardRes)) (q : List QPR) (n : Nat) (b : Bool) (qs : List QPR) (p : Bool) :
    storesLoop arr q n b = .data qs p →
      qs = q ++ oks arr ∧ p = decide (0 < n + nbad arr) ∧
      (∀ e ∈ arr, e.2 ≠ .wod ∧ e.2 ≠ .tmf ∧ e.2 ≠ .nilResp) ∧ (p = true → qs ≠ []) := by
  induction arr generalizing q n b with
  | nil =>
    simp only [storesLoop, oks, nbad, List.append_nil, Nat.add_zero]
    split
    · rename_i hn
      split
      · intro h; cases h
      · rename_i hq
        intro h
        injection h with h1 h2
        subst h1 h2
        refine ⟨rfl, (decide_eq_true (by omega)).symm, by simp, fun _ => ?_⟩
        intro h; simp [h] at hq
    · rename_i hn
      intro h
      injection h with h1 h2
      subst h1 h2
      exact ⟨rfl, (decide_eq_false (by omega)).symm, by simp, by simp⟩
  | cons a rest ih =>
    obtain ⟨s, r⟩ := a
    cases r with
    | ok rep ids t e =>
      simp only [storesLoop, oks, nbad]
      intro h
      obtain ⟨h1, h2, h3, h4⟩ := ih _ _ _ h
      refine ⟨by simpa using h1, h2, ?_, h4⟩
      intro e he
      rcases List.mem_cons.mp he with h | h
      · subst h; simp
      · exact h3 e h
    | wod => simp [storesLoop]
    | tmf => simp [storesLoop]
    | nilResp => simp [storesLoop]
    | tmu =>
      simp only [storesLoop, oks, nbad]
      intro h
      obtain ⟨h1, h2, h3, h4⟩ := ih _ _ _ h
      refine ⟨h1, by rw [h2]; congr 1; apply propext; omega, ?_, h4⟩
      intro e he
      rcases List.mem_cons.mp he with h | h
      · subst h; simp
      · exact h3 e h
    | failed =>
      simp only [storesLoop, oks, nbad]
      intro h
      obtain ⟨h1, h2, h3, h4⟩ := ih _ _ _ h
      refine ⟨h1, by rw [h2]; congr 1; apply propext; omega, ?_, h4⟩
      intro e he
      rcases List.mem_cons.mp he with h | h
      · subst h; simp
      · exact h3 e h

theorem storesLoop_wod (arr : List (Nat × ShardRes)) (q : List QPR) (n : Nat) (b : Bool) :
    storesLoop arr q n b = .err .wod → ∃ e ∈ arr, e.2 = .wod := by
  induction arr generalizing q n b with
  | nil => simp only [storesLoop]; split <;> (try split) <;> (try split) <;> simp
  | cons a rest ih =>
    obtain ⟨s, r⟩ := a
    cases r <;> simp only [storesLoop] <;> intro h
    · obtain ⟨e, he, h⟩ := ih _ _ _ h; exact ⟨e, List.mem_cons_of_mem _ he, h⟩
    · exact ⟨_, List.mem_cons_self, rfl⟩
    · obtain ⟨e, he, h⟩ := ih _ _ _ h; exact ⟨e, List.mem_cons_of_mem _ he, h⟩
    · cases h
    · obtain ⟨e, he, h⟩ := ih _ _ _ h; exact ⟨e, List.mem_cons_of_mem _ he, h⟩
    · cases h

theorem storesLoop_panic (arr : List (Nat × ShardRes)) (q : List QPR) (n : Nat) (b : Bool) :
    storesLoop arr q n b = .panic → ∃ e ∈ arr, e.2 = .nilResp := by
  induction arr generalizing q n b with
  | nil => simp only [storesLoop]; split <;> (try split) <;> simp
  | cons a rest ih =>
    obtain ⟨s, r⟩ := a
    cases r <;> simp only [storesLoop] <;> intro h
    · obtain ⟨e, he, h⟩ := ih _ _ _ h; exact ⟨e, List.mem_cons_of_mem _ he, h⟩
    · cases h
    · obtain ⟨e, he, h⟩ := ih _ _ _ h; exact ⟨e, List.mem_cons_of_mem _ he, h⟩
    · cases h
    · obtain ⟨e, he, h⟩ := ih _ _ _ h; exact ⟨e, List.mem_cons_of_mem _ he, h⟩
    · exact ⟨_, List.mem_cons_self, rfl⟩

/-- with a wants-old-data answer among the arrivals and neither too-many-fractions nor a replica-less shard, the
    loop ends with wants-old-data whatever the arrival order -/
theorem storesLoop_wod_of_mem (arr : List (Nat × ShardRes)) (q : List QPR) (n : Nat) (b : Bool)
    (hw : ∃ e ∈ arr, e.2 = .wod) (hn : ∀ e ∈ arr, e.2 ≠ .tmf ∧ e.2 ≠ .nilResp) :
    storesLoop arr q n b = .err .wod := by
  induction arr generalizing q n b with
  | nil => simp at hw
  | cons a rest ih =>
    obtain ⟨s, r⟩ := a
    have hn' : ∀ e ∈ rest, e.2 ≠ .tmf ∧ e.2 ≠ .nilResp := fun e he => hn e (List.mem_cons_of_mem _ he)
    have hw' : r ≠ .wod → ∃ e ∈ rest, e.2 = .wod := by
      intro hr
      obtain ⟨e, he, h⟩ := hw
      rcases List.mem_cons.mp he with h' | h'
      · subst h'; exact absurd h hr
      · exact ⟨e, h', h⟩
    have h0 := hn (s, r) List.mem_cons_self
    cases r <;> simp only [storesLoop]
    · exact ih _ _ _ (hw' (by simp)) hn'
    · exact ih _ _ _ (hw' (by simp)) hn'
    · simp at h0
    · exact ih _ _ _ (hw' (by simp)) hn'
    · simp at h0

/-- without a short-circuit answer the loop always reaches its epilogue -/
theorem storesLoop_noSC (arr : List (Nat × ShardRes)) (q : List QPR) (n : Nat) (b : Bool)
    (h : ∀ e ∈ arr, e.2 ≠ .wod ∧ e.2 ≠ .tmf ∧ e.2 ≠ .nilResp) :
    (0 < n + nbad arr → (q ++ oks arr ≠ [] → storesLoop arr q n b = .data (q ++ oks arr) true) ∧
      (q ++ oks arr = [] → ∃ k, storesLoop arr q n b = .err k ∧ k ≠ .wod ∧ k ≠ .tmf)) ∧
    (n + nbad arr = 0 → storesLoop arr q n b = .data (q ++ oks arr) false) := by
  induction arr generalizing q n b with
  | nil =>
    simp only [storesLoop, oks, nbad, List.append_nil, Nat.add_zero]
    refine ⟨fun hn => ⟨fun hq => ?_, fun hq => ?_⟩, fun hn => ?_⟩
    · rw [if_pos hn]; cases q with
      | nil => exact absurd rfl hq
      | cons x xs => simp
    · rw [if_pos hn, hq]; simp only [List.isEmpty_nil, if_true]
      cases b <;> simp
    · rw [if_neg (by omega)]
  | cons a rest ih =>
    obtain ⟨s, r⟩ := a
    have hrest : ∀ e ∈ rest, e.2 ≠ .wod ∧ e.2 ≠ .tmf ∧ e.2 ≠ .nilResp := fun e he => h e (List.mem_cons_of_mem _ he)
    have h0 := h (s, r) List.mem_cons_self
    cases r with
    | ok rep ids t e =>
      simp only [storesLoop, oks, nbad]
      have := ih (q ++ [⟨(s, rep), ids, t, e⟩]) n b hrest
      simpa [List.append_assoc] using this
    | wod => simp at h0
    | tmf => simp at h0
    | nilResp => simp at h0
    | tmu =>
      simp only [storesLoop, oks, nbad]
      have := ih q (n + 1) true hrest
      refine ⟨fun _ => (this.1 (by omega)), fun hn => by omega⟩
    | failed =>
      simp only [storesLoop, oks, nbad]
      have := ih q (n + 1) b hrest
      refine ⟨fun _ => (this.1 (by omega)), fun hn => by omega⟩

/-! ### order on IDs -/

theorem idLt_irrefl (a : ID) : idLt a a = false := by simp [idLt]

theorem idLt_trans {a b c : ID} (h1 : idLt a b = true) (h2 : idLt b c = true) : idLt a c = true := by
  simp [idLt] at *; omega

theorem idLt_tri (a b : ID) : idLt a b = true ∨ a = b ∨ idLt b a = true := by
  obtain ⟨a1, a2⟩ := a
  obtain ⟨b1, b2⟩ := b
  simp [idLt]; omega

theorem idLt_asymm {a b : ID} (h : idLt a b = true) : idLt b a = false := by
  cases h' : idLt b a with
  | false => rfl
  | true => have := idLt_trans h h'; simp [idLt_irrefl] at this

theorem before_irrefl (rev : Bool) (a : ID) : before rev a a = false := by
  unfold before; split <;> exact idLt_irrefl a

theorem before_trans (rev : Bool) {a b c : ID} (h1 : before rev a b = true) (h2 : before rev b c = true) :
    before rev a c = true := by
  unfold before at *; split at h1 <;> simp_all
  · exact idLt_trans h1 h2
  · exact idLt_trans h2 h1

theorem before_tri (rev : Bool) (a b : ID) : before rev a b = true ∨ a = b ∨ before rev b a = true := by
  unfold before; split
  · exact idLt_tri a b
  · rcases idLt_tri a b with h | h | h
    · exact Or.inr (Or.inr h)
    · exact Or.inr (Or.inl h)
    · exact Or.inl h

theorem before_asymm (rev : Bool) {a b : ID} (h : before rev a b = true) : before rev b a = false := by
  cases h' : before rev b a with
  | false => rfl
  | true => have := before_trans rev h h'; simp [before_irrefl] at this

/-- `a` may stand before `b` in a sorted slice -/
abbrev Le (rev : Bool) (a b : ID × Src) : Prop := before rev b.1 a.1 = false

theorem le_of_before (rev : Bool) {a b : ID} (h : before rev a b = true) : before rev b a = false :=
  before_asymm rev h

theorem before_of_not_le (rev : Bool) {a b : ID} (h : before rev b a = false) (hne : a ≠ b) : before rev a b = true := by
  rcases before_tri rev a b with h' | h' | h'
  · exact h'
  · exact absurd h' hne
  · rw [h] at h'; cases h'

theorem le_trans' (rev : Bool) {a b c : ID} (h1 : before rev b a = false) (h2 : before rev c b = false) :
    before rev c a = false := by
  cases h : before rev c a with
  | false => rfl
  | true =>
    by_cases hab : a = b
    · subst hab; rw [h] at h2; cases h2
    · have h3 := before_of_not_le rev h1 hab
      have := before_trans rev h h3
      rw [h2] at this; cases this

/-! ### sort -/

theorem mem_insertS (rev : Bool) (x y : ID × Src) (l : List (ID × Src)) : y ∈ insertS rev x l ↔ y = x ∨ y ∈ l := by
  induction l with
  | nil => simp [insertS]
  | cons z zs ih =>
    simp only [insertS]
    split
    · simp
    · simp only [List.mem_cons, ih]
      constructor
      · rintro (h | h | h)
        · exact Or.inr (Or.inl h)
        · exact Or.inl h
        · exact Or.inr (Or.inr h)
      · rintro (h | h | h)
        · exact Or.inr (Or.inl h)
        · exact Or.inl h
        · exact Or.inr (Or.inr h)

theorem mem_sortS (rev : Bool) (y : ID × Src) (l : List (ID × Src)) : y ∈ sortS rev l ↔ y ∈ l := by
  induction l with
  | nil => simp [sortS]
  | cons z zs ih =>
    have : sortS rev (z :: zs) = insertS rev z (sortS rev zs) := rfl
    rw [this, mem_insertS, ih]; simp

theorem length_insertS (rev : Bool) (x : ID × Src) (l : List (ID × Src)) : (insertS rev x l).length = l.length + 1 := by
  induction l with
  | nil => simp [insertS]
  | cons z zs ih => simp only [insertS]; split <;> simp [ih]

theorem length_sortS (rev : Bool) (l : List (ID × Src)) : (sortS rev l).length = l.length := by
  induction l with
  | nil => simp [sortS]
  | cons z zs ih =>
    have : sortS rev (z :: zs) = insertS rev z (sortS rev zs) := rfl
    rw [this, length_insertS, ih]; simp

theorem sorted_insertS (rev : Bool) (x : ID × Src) (l : List (ID × Src)) (h : l.Pairwise (Le rev)) :
    (insertS rev x l).Pairwise (Le rev) := by
  induction l with
  | nil => simp [insertS]
  | cons z zs ih =>
    have hz := List.pairwise_cons.mp h
    simp only [insertS]
    split
    · rename_i hb
      refine List.pairwise_cons.mpr ⟨?_, h⟩
      intro y hy
      rcases List.mem_cons.mp hy with h' | h'
      · subst h'; exact before_asymm rev hb
      · exact le_trans' rev (before_asymm rev hb) (hz.1 y h')
    · rename_i hb
      refine List.pairwise_cons.mpr ⟨?_, ih hz.2⟩
      intro y hy
      rcases (mem_insertS rev x y zs).mp hy with h' | h'
      · subst h'; simpa using hb
      · exact hz.1 y h'

theorem sorted_sortS (rev : Bool) (l : List (ID × Src)) : (sortS rev l).Pairwise (Le rev) := by
  induction l with
  | nil => simp [sortS]
  | cons z zs ih => exact sorted_insertS rev z _ ih

/-! ### de-duplication of a sorted slice -/

abbrev Lt (rev : Bool) (a b : ID × Src) : Prop := before rev a.1 b.1 = true

theorem dedupGo_spec (rev : Bool) (last : ID) (ys : List (ID × Src)) (hs : ys.Pairwise (Le rev))
    (hl : ∀ y ∈ ys, before rev y.1 last = false) :
    (∀ y ∈ dedupGo last ys, before rev last y.1 = true ∧ y ∈ ys) ∧ (dedupGo last ys).Pairwise (Lt rev) ∧
      (∀ y ∈ ys, y.1 = last ∨ ∃ z ∈ dedupGo last ys, z.1 = y.1) := by
  induction ys generalizing last with
  | nil => simp [dedupGo]
  | cons y ys ih =>
    have hy := List.pairwise_cons.mp hs
    simp only [dedupGo]
    split
    · rename_i heq
      have := ih last hy.2 (fun z hz => hl z (List.mem_cons_of_mem _ hz))
      refine ⟨fun z hz => ⟨(this.1 z hz).1, List.mem_cons_of_mem _ (this.1 z hz).2⟩, this.2.1, ?_⟩
      intro z hz
      rcases List.mem_cons.mp hz with h | h
      · subst h; exact Or.inl heq
      · exact this.2.2 z h
    · rename_i hne
      have := ih y.1 hy.2 (fun z hz => hy.1 z hz)
      have hly : before rev last y.1 = true := before_of_not_le rev (hl y List.mem_cons_self) (fun h => hne h.symm)
      refine ⟨?_, ?_, ?_⟩
      · intro z hz
        rcases List.mem_cons.mp hz with h | h
        · subst h; exact ⟨hly, List.mem_cons_self⟩
        · exact ⟨before_trans rev hly (this.1 z h).1, List.mem_cons_of_mem _ (this.1 z h).2⟩
      · exact List.pairwise_cons.mpr ⟨fun z hz => (this.1 z hz).1, this.2.1⟩
      · intro z hz
        rcases List.mem_cons.mp hz with h | h
        · subst h; exact Or.inr ⟨z, List.mem_cons_self, rfl⟩
        · rcases this.2.2 z h with h' | ⟨u, hu, h'⟩
          · exact Or.inr ⟨y, List.mem_cons_self, h'.symm⟩
          · exact Or.inr ⟨u, List.mem_cons_of_mem _ hu, h'⟩

theorem dedup_spec (rev : Bool) (l : List (ID × Src)) (hs : l.Pairwise (Le rev)) :
    (∀ y ∈ dedup l, y ∈ l) ∧ (dedup l).Pairwise (Lt rev) ∧ (∀ y ∈ l, ∃ z ∈ dedup l, z.1 = y.1) := by
  cases l with
  | nil => simp [dedup]
  | cons x xs =>
    have hx := List.pairwise_cons.mp hs
    have := dedupGo_spec rev x.1 xs hx.2 (fun z hz => hx.1 z hz)
    simp only [dedup]
    refine ⟨?_, ?_, ?_⟩
    · intro y hy
      rcases List.mem_cons.mp hy with h | h
      · subst h; exact List.mem_cons_self
      · exact List.mem_cons_of_mem _ (this.1 y h).2
    · exact List.pairwise_cons.mpr ⟨fun z hz => (this.1 z hz).1, this.2.1⟩
    · intro y hy
      rcases List.mem_cons.mp hy with h | h
      · subst h; exact ⟨y, List.mem_cons_self, rfl⟩
      · rcases this.2.2 y h with h' | ⟨u, hu, h'⟩
        · exact ⟨x, List.mem_cons_self, h'.symm⟩
        · exact ⟨u, List.mem_cons_of_mem _ hu, h'⟩

theorem mem_allTagged {qprs : List QPR} {p : ID × Src} :
    p ∈ allTagged qprs ↔ ∃ q ∈ qprs, q.src = p.2 ∧ p.1 ∈ q.ids := by
  simp only [allTagged, tagged, List.mem_flatMap, List.mem_map]
  constructor
  · rintro ⟨q, hq, i, hi, rfl⟩; exact ⟨q, hq, rfl, hi⟩
  · rintro ⟨q, hq, h1, h2⟩; exact ⟨q, hq, p.1, h2, by rw [h1]⟩

/-- the de-duplicated sorted slice `MergeQPRs` cuts its result from -/
def mergedFull (rev : Bool) (qprs : List QPR) : List (ID × Src) := dedup (sortS rev (allTagged qprs))

theorem mergedFull_spec (rev : Bool) (qprs : List QPR) :
    (mergedFull rev qprs).Pairwise (Lt rev) ∧
    (∀ p ∈ mergedFull rev qprs, ∃ q ∈ qprs, q.src = p.2 ∧ p.1 ∈ q.ids) ∧
    (∀ q ∈ qprs, ∀ i ∈ q.ids, ∃ p ∈ mergedFull rev qprs, p.1 = i) := by
  have h := dedup_spec rev _ (sorted_sortS rev (allTagged qprs))
  refine ⟨h.2.1, ?_, ?_⟩
  · intro p hp
    exact mem_allTagged.mp ((mem_sortS rev p _).mp (h.1 p hp))
  · intro q hq i hi
    have : (i, q.src) ∈ sortS rev (allTagged qprs) :=
      (mem_sortS rev _ _).mpr (mem_allTagged.mpr ⟨q, hq, rfl, hi⟩)
    exact h.2.2 _ this

theorem paginate_merge (rev : Bool) (qprs : List QPR) (offset size : Nat) :
    paginate (mergeQPRs rev (offset + size) qprs).ids offset size = ((mergedFull rev qprs).drop offset).take size := by
  simp only [paginate, mergeQPRs, mergedFull]
  rw [List.drop_take]
  simp [List.take_take]

/-- strictly sorted lists with the same members are equal: the merged top is unique -/
theorem sorted_ext (rev : Bool) (xs ys : List ID) (hx : xs.Pairwise (fun a b => before rev a b = true))
    (hy : ys.Pairwise (fun a b => before rev a b = true)) (hmem : ∀ v, v ∈ xs ↔ v ∈ ys) : xs = ys := by
  induction xs generalizing ys with
  | nil =>
    cases ys with
    | nil => rfl
    | cons y ys => have := (hmem y).mpr (by simp); simp at this
  | cons x xs ih =>
    cases ys with
    | nil => have := (hmem x).mp (by simp); simp at this
    | cons y ys =>
      have hx' := List.pairwise_cons.mp hx
      have hy' := List.pairwise_cons.mp hy
      have hxy : x = y := by
        have h1 := (hmem x).mp (by simp)
        have h2 := (hmem y).mpr (by simp)
        rcases List.mem_cons.mp h1 with h1 | h1
        · exact h1
        · rcases List.mem_cons.mp h2 with h2 | h2
          · exact h2.symm
          · have a := hy'.1 x h1
            have b := hx'.1 y h2
            have := before_asymm rev a
            rw [b] at this; cases this
      subst hxy
      congr 1
      apply ih ys hx'.2 hy'.2
      intro v
      constructor
      · intro hv
        have := (hmem v).mp (List.mem_cons_of_mem _ hv)
        rcases List.mem_cons.mp this with h | h
        · subst h
          have := hx'.1 v hv
          simp [before_irrefl] at this
        · exact h
      · intro hv
        have := (hmem v).mpr (List.mem_cons_of_mem _ hv)
        rcases List.mem_cons.mp this with h | h
        · subst h
          have := hy'.1 v hv
          simp [before_irrefl] at this
        · exact h

theorem mem_indexed {α : Type} (i : Nat) (l : List α) (k : Nat) (x : α) :
    (k, x) ∈ indexed i l ↔ i ≤ k ∧ l[k - i]? = some x := by
  induction l generalizing i with
  | nil => simp [indexed]
  | cons y ys ih =>
    simp only [indexed, List.mem_cons, Prod.mk.injEq, ih]
    constructor
    · rintro (⟨h1, h2⟩ | ⟨h1, h2⟩)
      · subst h1 h2; simp
      · refine ⟨by omega, ?_⟩
        have : k - i = (k - (i + 1)) + 1 := by omega
        rw [this]; simpa using h2
    · rintro ⟨h1, h2⟩
      by_cases hk : k = i
      · subst hk; simp at h2; exact Or.inl ⟨rfl, h2.symm⟩
      · right
        refine ⟨by omega, ?_⟩
        have : k - i = (k - (i + 1)) + 1 := by omega
        rw [this] at h2; simpa using h2

/-! ### vocabulary of the property and the facts about one tier -/

/-- shard `s` of the tier had an answering replica `rep` (the first one that did not fail) which returned `ids` -/
def Answered (tier : List (List Call)) (s rep : Nat) (ids : List ID) : Prop :=
  ∃ calls t e, tier[s]? = some calls ∧ searchShard calls = .ok rep ids t e

/-- `full` is the merged result over the lists satisfying `P`: strictly ordered, exactly their members -/
def IsMergedTop (rev : Bool) (P : List ID → Prop) (full : List ID) : Prop :=
  full.Pairwise (fun a b => before rev a b = true) ∧ ∀ x, x ∈ full ↔ ∃ l, P l ∧ x ∈ l

theorem isMergedTop_unique (rev : Bool) (P : List ID → Prop) (f g : List ID)
    (hf : IsMergedTop rev P f) (hg : IsMergedTop rev P g) : f = g :=
  sorted_ext rev f g hf.1 hg.1 (fun v => (hf.2 v).trans (hg.2 v).symm)

/-- what an honest answer of `Search` is, for a topology `hot` / `cold` (replica scripts per shard) -/
def Honest (hot cold : List (List Call)) (offset size : Nat) (rev : Bool) : Outcome → Prop
  | .err _ => True
  | .panic => (∃ calls ∈ hot ++ cold, calls = []) ∨ limitWraps offset size = true
  | .ok ids _ nerr partialResp usedCold =>
    let tier := if usedCold then cold else hot
    (∃ full, IsMergedTop rev (fun l => ∃ s rep, Answered tier s rep l) full ∧
      ids.map (·.1) = (full.drop offset).take size) ∧
    (∀ p ∈ ids, ∃ l, Answered tier p.2.1 p.2.2 l ∧ p.1 ∈ l) ∧
    (partialResp = false ↔ ∀ calls ∈ tier, (searchShard calls).isOk = true) ∧
    (partialResp = true → ∃ calls ∈ tier, (searchShard calls).isOk = true) ∧
    (nerr = 0 → ∀ calls ∈ tier, ∀ rep l t e, searchShard calls = .ok rep l t e → e = 0) ∧
    (usedCold = true → ∃ calls ∈ hot, searchShard calls = .wod)

theorem mem_arrival {tier : List (List Call)} {arr : List (Nat × ShardRes)}
    (hp : arr.Perm (indexed 0 (tier.map searchShard))) (s : Nat) (r : ShardRes) :
    (s, r) ∈ arr ↔ ∃ calls, tier[s]? = some calls ∧ searchShard calls = r := by
  rw [hp.mem_iff, mem_indexed]
  simp only [Nat.zero_le, true_and, Nat.sub_zero, List.getElem?_map, Option.map_eq_some_iff]

theorem mem_tier_of_getElem? {tier : List (List Call)} {s : Nat} {calls : List Call} (h : tier[s]? = some calls) :
    calls ∈ tier := List.mem_of_getElem? h

theorem sum_zero_mem (l : List Nat) (h : l.sum = 0) : ∀ x ∈ l, x = 0 := by
  induction l with
  | nil => simp
  | cons y ys ih =>
    simp only [List.sum_cons] at h
    intro x hx
    rcases List.mem_cons.mp hx with h' | h'
    · omega
    · exact ih (by omega) x h'

theorem tier_facts (tier : List (List Call)) (arr : List (Nat × ShardRes))
    (hp : arr.Perm (indexed 0 (tier.map searchShard))) (qs : List QPR) (p : Bool)
    (h : searchStores arr = .data qs p) (offset size : Nat) (rev : Bool) :
    (∃ full, IsMergedTop rev (fun l => ∃ s rep, Answered tier s rep l) full ∧
      (paginate (mergeQPRs rev (offset + size) qs).ids offset size).map (·.1) = (full.drop offset).take size) ∧
    (∀ x ∈ paginate (mergeQPRs rev (offset + size) qs).ids offset size, ∃ l, Answered tier x.2.1 x.2.2 l ∧ x.1 ∈ l) ∧
    (p = false ↔ ∀ calls ∈ tier, (searchShard calls).isOk = true) ∧
    (p = true → ∃ calls ∈ tier, (searchShard calls).isOk = true) ∧
    ((mergeQPRs rev (offset + size) qs).nerr = 0 →
      ∀ calls ∈ tier, ∀ rep l t e, searchShard calls = .ok rep l t e → e = 0) := by
  obtain ⟨h1, h2, h3, h4⟩ := storesLoop_data arr [] 0 false qs p h
  simp only [List.nil_append, Nat.zero_add] at h1 h2
  have hq : ∀ q, q ∈ qs ↔ ∃ calls, tier[q.src.1]? = some calls ∧ searchShard calls = .ok q.src.2 q.ids q.total q.nerr := by
    intro q; rw [h1, mem_oks, mem_arrival hp]
  have hspec := mergedFull_spec rev qs
  refine ⟨⟨(mergedFull rev qs).map (·.1), ⟨?_, ?_⟩, ?_⟩, ?_, ?_, ?_, ?_⟩
  · exact List.pairwise_map.mpr hspec.1
  · intro x
    constructor
    · intro hx
      obtain ⟨pp, hpp, rfl⟩ := List.mem_map.mp hx
      obtain ⟨q, hq', _, hi⟩ := hspec.2.1 pp hpp
      obtain ⟨calls, hc1, hc2⟩ := (hq q).mp hq'
      exact ⟨q.ids, ⟨q.src.1, q.src.2, calls, q.total, q.nerr, hc1, hc2⟩, hi⟩
    · rintro ⟨l, ⟨s, rep, calls, t, e, hc1, hc2⟩, hx⟩
      have : (⟨(s, rep), l, t, e⟩ : QPR) ∈ qs := (hq _).mpr ⟨calls, hc1, hc2⟩
      obtain ⟨pp, hpp, hpe⟩ := hspec.2.2 _ this x hx
      exact List.mem_map.mpr ⟨pp, hpp, hpe⟩
  · rw [paginate_merge, List.map_take, List.map_drop]
  · intro x hx
    rw [paginate_merge] at hx
    have hx' := List.mem_of_mem_drop (List.mem_of_mem_take hx)
    obtain ⟨q, hq', hs, hi⟩ := hspec.2.1 x hx'
    obtain ⟨calls, hc1, hc2⟩ := (hq q).mp hq'
    refine ⟨q.ids, ⟨calls, q.total, q.nerr, ?_, ?_⟩, hi⟩
    · rw [← hs]; exact hc1
    · rw [← hs]; exact hc2
  · rw [h2]
    constructor
    · intro hz calls hc
      have hz' : ¬ 0 < nbad arr := by simpa using hz
      obtain ⟨s, hs⟩ := List.getElem?_of_mem hc
      have hm : (s, searchShard calls) ∈ arr := (mem_arrival hp s _).mpr ⟨calls, hs, rfl⟩
      have h3' := h3 _ hm
      have hb : ¬ ((searchShard calls) = .tmu ∨ (searchShard calls) = .failed) := by
        intro hb; exact hz' (nbad_pos.mpr ⟨_, hm, hb⟩)
      cases hr : searchShard calls <;> simp_all [ShardRes.isOk]
    · intro hall
      have : ¬ 0 < nbad arr := by
        intro hpos
        obtain ⟨e, he, hb⟩ := nbad_pos.mp hpos
        obtain ⟨calls, hc1, hc2⟩ := (mem_arrival hp e.1 e.2).mp he
        have := hall calls (mem_tier_of_getElem? hc1)
        rw [hc2] at this
        rcases hb with hb | hb <;> simp [hb, ShardRes.isOk] at this
      simpa using this
  · intro hp'
    have hne := h4 hp'
    cases qs with
    | nil => exact absurd rfl hne
    | cons q _ =>
      obtain ⟨calls, hc1, hc2⟩ := (hq q).mp List.mem_cons_self
      exact ⟨calls, mem_tier_of_getElem? hc1, by simp [hc2, ShardRes.isOk]⟩
  · intro hz calls hc rep l t e hok
    obtain ⟨s, hs⟩ := List.getElem?_of_mem hc
    have hm : (⟨(s, rep), l, t, e⟩ : QPR) ∈ qs := (hq _).mpr ⟨calls, hs, hok⟩
    simp only [mergeQPRs] at hz
    exact sum_zero_mem _ hz e (List.mem_map.mpr ⟨_, hm, rfl⟩)

/-! ### which replica an ID is attributed to (any replica order) -/

/-- every returned ID is attributed to a (shard, replica) whose own answer, as it arrived, contains it -/
theorem attribution (arr : List (Nat × ShardRes)) (qs : List QPR) (p : Bool) (h : searchStores arr = .data qs p)
    (offset size : Nat) (rev : Bool) :
    ∀ x ∈ paginate (mergeQPRs rev (offset + size) qs).ids offset size,
      ∃ l t e, (x.2.1, ShardRes.ok x.2.2 l t e) ∈ arr ∧ x.1 ∈ l := by
  obtain ⟨h1, _, _, _⟩ := storesLoop_data arr [] 0 false qs p h
  simp only [List.nil_append] at h1
  intro x hx
  rw [paginate_merge] at hx
  have hx' := List.mem_of_mem_drop (List.mem_of_mem_take hx)
  obtain ⟨q, hq, hs, hi⟩ := (mergedFull_spec rev qs).2.1 x hx'
  rw [h1] at hq
  have := mem_oks.mp hq
  rw [hs] at this
  exact ⟨q.ids, q.total, q.nerr, this, hi⟩

/-- a success of `Search` is `finish` of the classification of the arrivals of the tier it names -/
theorem search_ok_tier (hot cold : List (Nat × ShardRes)) (offset size : Nat) (rev : Bool)
    (ids : List (ID × Src)) (t e : Nat) (p c : Bool) (h : search hot cold offset size rev = .ok ids t e p c) :
    ∃ qs, searchStores (if c then cold else hot) = .data qs p ∧
      ids = paginate (mergeQPRs rev (offset + size) qs).ids offset size := by
  unfold search at h
  cases hs : searchStores hot with
  | panic => rw [hs] at h; simp [finish] at h
  | data qs p' =>
    rw [hs] at h
    simp only [finish] at h
    split at h
    · cases h
    · injection h with h1 h2 h3 h4 h5
      subst h5
      exact ⟨qs, by simp [hs, h4], h1.symm⟩
  | err k =>
    rw [hs] at h
    cases k with
    | wod =>
      simp only at h
      split at h
      · cases h
      · cases hc : searchStores cold with
        | err k => rw [hc] at h; simp [finish] at h
        | panic => rw [hc] at h; simp [finish] at h
        | data qs p' =>
          rw [hc] at h
          simp only [finish] at h
          split at h
          · cases h
          · injection h with h1 h2 h3 h4 h5
            subst h5
            exact ⟨qs, by simp [hc, h4], h1.symm⟩
    | tmf => simp [finish] at h
    | tmu => simp [finish] at h
    | other => simp [finish] at h

/-- the shard answers of a tier whose replicas are asked in the orders `perms s` -/
def resultsP (perms : Nat → List Nat) (tier : List (List Call)) : List (Nat × ShardRes) :=
  (indexed 0 tier).map fun sc => (sc.1, searchShardP (perms sc.1) sc.2)

end SV.ProxySearch
