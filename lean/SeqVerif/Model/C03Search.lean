import SeqVerif.Model.C03Frac
import SeqVerif.Model.Nodes
/-!
# C03 - a search processor that only sees the index interface

`Index` is the interface `frac/processor` works against (`idsIndex` + `tokenIndex`, tokens addressed by their
position in the sorted dictionary).  `search` follows `processor.IndexSearch`: `getLIDsBorders` (two
`util.BinSearchInRange` over `LessOrEqual`), the evaluation tree over posting nodes (merge nodes of Model/Nodes.lean),
`iterateEvalTree` (total, IDs through `GetMID`/`GetRID` with the consecutive-duplicate rule and the limit, histogram
buckets).  It exists to state that *any* answer computed this way is the same for both forms of a fraction.
-/
namespace SV.C03

structure Index where
  len : Nat
  getMID : Nat → Option Nat
  getRID : Nat → Option Nat
  lessOrEqual : Nat → ID → Option Bool
  node : Nat → Nat → Nat → Bool → Except String (List Nat)

def activeIndex (a : Active) : Index :=
  { len := activeLen a, getMID := activeGetMID a, getRID := activeGetRID a, lessOrEqual := activeLessOrEqual a,
    node := fun tid minL maxL rev =>
      if tid = 0 then .error "tid" else
      match a.fields.flatten[tid - 1]? with
      | some t => .ok (activeNode a t.post minL maxL rev)
      | none => .error "tid" }

def sealedIndex (s : Sealed) : Index :=
  { len := sealedLen s, getMID := sealedGetMID s, getRID := sealedGetRID s, lessOrEqual := sealedLessOrEqual s,
    node := sealedNode s }

/-- evaluation tree after `propagateNot`: leaves are tokens -/
inductive Q where
  | leaf (tid : Nat)
  | and (l r : Q)
  | or (l r : Q)
  | nand (neg reg : Q)
deriving Repr

def evalQ (ix : Index) (minL maxL : Nat) (rev : Bool) : Q → Except String (List Nat)
  | .leaf t => ix.node t minL maxL rev
  | .and l r =>
    match evalQ ix minL maxL rev l, evalQ ix minL maxL rev r with
    | .ok a, .ok b => .ok (andMerge rev a b)
    | .error e, _ => .error e
    | _, .error e => .error e
  | .or l r =>
    match evalQ ix minL maxL rev l, evalQ ix minL maxL rev r with
    | .ok a, .ok b => .ok (orMerge rev a b)
    | .error e, _ => .error e
    | _, .error e => .error e
  | .nand n r =>
    match evalQ ix minL maxL rev n, evalQ ix minL maxL rev r with
    | .ok a, .ok b => .ok (nandMerge rev a b)
    | .error e, _ => .error e
    | _, .error e => .error e

def maxU64 : Nat := 18446744073709551615

/-- `getLIDsBorders` -/
def borders (ix : Index) (fromMID toMID : Nat) : Nat × Nat :=
  if ix.len = 0 then (0, 0) else
  let minID : ID := if fromMID > 0 then (fromMID - 1, maxU64) else (fromMID, 0)
  let maxID : ID := (toMID, maxU64)
  let minLID := binSearchInRange 1 (ix.len - 1) (fun lid => (ix.lessOrEqual lid maxID).getD false)
  let maxLID := binSearchInRange minLID (ix.len - 1) (fun lid => (ix.lessOrEqual lid minID).getD false) - 1
  (minLID, maxLID)

/-- "lids increase monotonically, it's enough to compare current id with the last one" -/
def dedupConsecutive : List ID → List ID
  | [] => []
  | [x] => [x]
  | x :: y :: rest => if x = y then dedupConsecutive (y :: rest) else x :: dedupConsecutive (y :: rest)

structure Answer where
  total : Nat
  ids : List ID
  hist : List Nat          -- bucket of every hit, in iteration order (the histogram counts them)
deriving Repr, DecidableEq

/-- `GetMID` + `GetRID` of a hit -/
def idOf (ix : Index) (l : Nat) : Option ID :=
  match ix.getMID l, ix.getRID l with
  | some m, some r => some (m, r)
  | _, _ => none

/-- `IndexSearch` with `WithTotal` and a histogram interval (0 = none); `.error` = a panic / missing block -/
def search (ix : Index) (q : Q) (fromMID toMID : Nat) (rev : Bool) (limit histInterval : Nat) : Except String Answer :=
  let b := borders ix fromMID toMID
  match evalQ ix b.1 b.2 rev q with
  | .error e => .error e
  | .ok lids =>
    match lids.mapM (idOf ix) with
    | none => .error "id"
    | some ids =>
      .ok { total := lids.length, ids := (dedupConsecutive ids).take limit,
            hist := if histInterval = 0 then [] else ids.map (fun id => id.1 - id.1 % histInterval) }

end SV.C03
