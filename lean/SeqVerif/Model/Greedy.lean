namespace SV.Greedy

/-- specification of pattern.findSubstring: index just after the leftmost occurrence of `m` in `s` -/
def findEnd (m : List Nat) : List Nat → Option Nat
  | [] => if m.isPrefixOf [] then some m.length else none
  | c :: t => if m.isPrefixOf (c :: t) then some m.length else (findEnd m t).map (· + 1)

/-- pattern.findSequence == len(to): all fragments found left to right, greedily -/
def findSeq : List (List Nat) → List Nat → Bool
  | [], _ => true
  | m :: ms, s =>
    match findEnd m s with
    | none => false
    | some e => findSeq ms (s.drop e)

/-- the fragments occur in order, non-overlapping -/
def Mid : List (List Nat) → List Nat → Prop
  | [], _ => True
  | m :: ms, s => ∃ x rest, s = x ++ m ++ rest ∧ Mid ms rest

theorem isPrefixOf_iff (m s : List Nat) : m.isPrefixOf s = true ↔ ∃ r, s = m ++ r := by
  rw [List.isPrefixOf_iff_prefix]
  constructor
  · rintro ⟨r, h⟩; exact ⟨r, h.symm⟩
  · rintro ⟨r, h⟩; exact ⟨r, h.symm⟩

/-- found: decomposition, and it is the leftmost one -/
theorem findEnd_some (m s : List Nat) (e : Nat) (h : findEnd m s = some e) :
    (∃ x, s = x ++ m ++ s.drop e ∧ e = x.length + m.length) ∧
    (∀ y r, s = y ++ m ++ r → e ≤ y.length + m.length) := by
  induction s generalizing e with
  | nil =>
    simp only [findEnd] at h
    split at h
    · rename_i hp
      obtain ⟨r, hr⟩ := (isPrefixOf_iff m []).mp hp
      have hm : m = [] := by
        have := congrArg List.length hr; simp at this; exact List.eq_nil_of_length_eq_zero (by omega)
      subst hm
      simp at h; subst h
      exact ⟨⟨[], by simp⟩, fun y r _ => by simp⟩
    · simp at h
  | cons c t ih =>
    simp only [findEnd] at h
    split at h
    · rename_i hp
      obtain ⟨r, hr⟩ := (isPrefixOf_iff m (c :: t)).mp hp
      simp at h; subst h
      refine ⟨⟨[], ?_⟩, fun y r _ => by omega⟩
      simp only [List.nil_append, List.length_nil, Nat.zero_add, and_true]
      rw [hr]; simp
    · rename_i hnp
      cases hft : findEnd m t with
      | none => simp [hft] at h
      | some e' =>
        simp [hft] at h; subst h
        obtain ⟨⟨x, hx, hxe⟩, hleft⟩ := ih e' hft
        refine ⟨⟨c :: x, ?_, by simp; omega⟩, ?_⟩
        · simp only [List.cons_append, List.drop_succ_cons]
          rw [← List.cons_append, ← List.cons_append] at *
          congr 1
        · intro y r hy
          cases y with
          | nil =>
            exfalso; apply hnp
            exact (isPrefixOf_iff m (c :: t)).mpr ⟨r, by simpa using hy⟩
          | cons y0 y' =>
            simp only [List.cons_append, List.cons.injEq] at hy
            have := hleft y' r hy.2
            simp; omega

theorem findEnd_none (m s : List Nat) (h : findEnd m s = none) : ¬ ∃ y r, s = y ++ m ++ r := by
  induction s with
  | nil =>
    simp only [findEnd] at h
    split at h
    · simp at h
    · rename_i hnp
      rintro ⟨y, r, hy⟩
      apply hnp
      have hl := congrArg List.length hy
      simp at hl
      have : y = [] := List.eq_nil_of_length_eq_zero (by omega)
      subst this
      exact (isPrefixOf_iff m []).mpr ⟨r, by simpa using hy⟩
  | cons c t ih =>
    simp only [findEnd] at h
    split at h
    · simp at h
    · rename_i hnp
      have hft : findEnd m t = none := by
        cases hx : findEnd m t with
        | none => rfl
        | some e => simp [hx] at h
      rintro ⟨y, r, hy⟩
      cases y with
      | nil => exact hnp ((isPrefixOf_iff m (c :: t)).mpr ⟨r, by simpa using hy⟩)
      | cons y0 y' =>
        simp only [List.cons_append, List.cons.injEq] at hy
        exact ih hft ⟨y', r, hy.2⟩

/-- anything may be put in front: the first gap absorbs it -/
theorem Mid.prepend (ms : List (List Nat)) (y s : List Nat) (h : Mid ms s) : Mid ms (y ++ s) := by
  cases ms with
  | nil => trivial
  | cons m ms =>
    obtain ⟨x, rest, hs, hr⟩ := h
    exact ⟨y ++ x, rest, by rw [hs]; simp [List.append_assoc], hr⟩

/-- greedy left-to-right search is complete -/
theorem findSeq_iff_mid (ms : List (List Nat)) (s : List Nat) : findSeq ms s = true ↔ Mid ms s := by
  induction ms generalizing s with
  | nil => simp [findSeq, Mid]
  | cons m ms ih =>
    simp only [findSeq, Mid]
    cases hfe : findEnd m s with
    | none =>
      simp only [Bool.false_eq_true, false_iff]
      rintro ⟨x, rest, hs, _⟩
      exact findEnd_none m s hfe ⟨x, rest, hs⟩
    | some e =>
      obtain ⟨⟨x0, hx0, he⟩, hleft⟩ := findEnd_some m s e hfe
      simp only
      rw [ih]
      constructor
      · intro h; exact ⟨x0, s.drop e, hx0, h⟩
      · rintro ⟨x, rest, hs, hrest⟩
        have hle := hleft x rest hs
        -- rest is a suffix of s.drop e
        have : s.drop e = (s.drop e).take (x.length + m.length - e) ++ rest := by
          have h1 : s.drop (x.length + m.length) = rest := by
            rw [hs]
            rw [List.drop_left' (by simp)]
          have h2 : s.drop (x.length + m.length) = (s.drop e).drop (x.length + m.length - e) := by
            rw [List.drop_drop]; congr 1; omega
          rw [← h1, h2, List.take_append_drop]
        rw [this]
        exact Mid.prepend ms _ rest hrest

end SV.Greedy
