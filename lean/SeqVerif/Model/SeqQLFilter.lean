import SeqVerif.Model.ParserCore
/-!
# SeqQL field filters, ranges, in-lists and pipes over the lexer's token stream (C12 level B, shared with C11)

Everything of parser/seqql_filter.go, parser/token_range.go (SeqQL part), parser/seqql_pipes.go and the term builders
`parseSeqQLKeyword` / `parseSeqQLText`, written over the list of tokens the lexer delivers.  A token is the state of
`lexer` after `Next()`: its text as runes, `TokenQuoted`, `SpaceSkipped`, and the answer of `lex.IsKeyword(..)` for the
fixed set of keywords the parser asks about (`kw`, computed by `strings.EqualFold` - an oracle of the model).
A rune carries what Go's `unicode` package says about it (letter / number / digit / lower-case mapping) and the bytes
it was decoded from; these are the parameters of the model (supplied by the harness from the real tables).

`[]` is `lex.IsEnd()`; `lex.Next()` is `tail`.
-/
namespace SV.Parser

/-- one rune of a token as `utf8.DecodeRuneInString` sees it -/
structure Rn where
  bytes : List Nat      -- the bytes it was decoded from (a single byte for an invalid sequence)
  cp : Nat              -- code point (0xFFFD for an invalid sequence)
  letter : Bool         -- unicode.IsLetter
  number : Bool         -- unicode.IsNumber
  digit : Bool          -- unicode.IsDigit
  lower : Nat           -- unicode.ToLower
  space : Bool          -- unicode.IsSpace
deriving DecidableEq, Repr

/-- which of the keywords the parser asks about the (unquoted) token equals under `strings.EqualFold` -/
inductive KW
  | none | empty | and | or | not | lp | rp | lbr | rbr | comma | colon | pipe | in_ | to | fields | except | star
deriving DecidableEq, Repr

structure LTok where
  rs : List Rn
  quoted : Bool
  space : Bool
  kw : KW
deriving DecidableEq, Repr

def wildcardCp : Nat := 0xE000

/-- a term: `TermSymbol` (only `*`) or `TermText` with its data as code points -/
structure Term where
  sym : Bool
  data : List Nat
deriving DecidableEq, Repr

inductive Leaf
  | lit (field : List Nat) (terms : List Term)
  | range (field : List Nat) (from_ to : Term) (incFrom incTo : Bool)
deriving DecidableEq, Repr

/-- a `fields` pipe -/
structure PipeFields where
  except : Bool
  fields : List (List Nat)
deriving DecidableEq, Repr

/-! ## composite tokens -/

def isTokenRune (r : Rn) : Bool := r.letter || r.digit || r.cp = 95 || r.cp = 46   -- '_' '.'

def byteLen (rs : List Rn) : Nat := (rs.map fun r => r.bytes.length).sum

/-- `isCompositeToken(lex)` for a present token -/
def isComposite (t : LTok) : Bool :=
  if t.kw = .empty then false                       -- `lex.IsKeyword("")`
  else match t.rs with
    | [] => true                                    -- `lex.Token == ""` (an empty quoted token)
    | r :: rest =>
      if decide (byteLen rest > 1) || t.quoted then true     -- `hasMoreSymbols || lex.TokenQuoted`
      else isTokenRune r || r.cp = 45 || r.cp = 42 || r.cp = wildcardCp   -- '-' '*' wildcard

/-- the joining loop `for ; !lex.SpaceSkipped && isCompositeToken(lex); lex.Next() { b.WriteString(lex.Token) }` -/
def joinComposite (acc : List Rn) : List LTok → List Rn × List LTok
  | [] => (acc, [])
  | t :: r => if !t.space && isComposite t then joinComposite (acc ++ t.rs) r else (acc, t :: r)

/-- `parseCompositeToken(lex)` -/
def compositeToken : List LTok → PRes (List Rn × List LTok)
  | [] => .err                                      -- "unexpected end of query"
  | t :: r =>
    if t.kw = .empty then .err
    else if !isComposite t then .err                -- "unexpected symbol"
    else .ok (joinComposite t.rs r)

/-- the string of a token sequence as bytes, wildcard runes replaced by `*` (`parseCompositeTokenReplaceWildcards`) -/
def nameBytes (rs : List Rn) : List Nat :=
  rs.flatMap fun r => if r.cp = wildcardCp ∧ r.bytes = [0xEE, 0x80, 0x80] then [42] else r.bytes

/-! ## term builders -/

def lowerIf (cs : Bool) (rs : List Rn) : List Nat := rs.map fun r => if cs then r.cp else r.lower

/-- the loop of `parseSeqQLKeyword`: `buf` is the bytes.Buffer (as runes), terms are produced in order -/
def keywordLoop (cs : Bool) : List Rn → List Rn → List Term
  | buf, [] => if buf.isEmpty then [] else [⟨false, lowerIf cs buf⟩]
  | buf, r :: rest =>
    if r.cp = wildcardCp then
      (if buf.isEmpty then [] else [⟨false, lowerIf cs buf⟩]) ++ ⟨true, [42]⟩ :: keywordLoop cs [] rest
    else keywordLoop cs (buf ++ [r]) rest

/-- `parseSeqQLKeyword(token, caseSensitive)` -/
def seqqlKeyword (cs : Bool) (value : List Rn) : List Term :=
  if value.isEmpty then [⟨false, []⟩] else keywordLoop cs [] value

def isWordRune (r : Rn) : Bool := r.letter || r.number || r.cp = 95 || r.cp = 42     -- '_' '*'

/-- state of the `parseSeqQLText` loop: finished literals, terms of the current literal, current term -/
structure TextSt where
  done : List (List Term)
  cur : List Term
  term : List Rn

def TextSt.flushTerm (cs : Bool) (s : TextSt) : TextSt :=
  if s.term.isEmpty then s else { s with cur := s.cur ++ [⟨false, lowerIf cs s.term⟩], term := [] }

def textStep (cs : Bool) (s : TextSt) (r : Rn) : TextSt :=
  if isWordRune r then { s with term := s.term ++ [r] }
  else
    let s1 := s.flushTerm cs
    if r.cp = wildcardCp then { s1 with cur := s1.cur ++ [⟨true, [42]⟩] }
    else if s1.cur.isEmpty then s1
    else { s1 with done := s1.done ++ [s1.cur], cur := [] }

/-- `parseSeqQLText(field, token, sensitive)`: the literals (each a list of terms) -/
def seqqlText (cs : Bool) (value : List Rn) : List (List Term) :=
  if value.isEmpty then [[⟨false, []⟩]]
  else
    let s := (value.foldl (textStep cs) ⟨[], [], []⟩).flushTerm cs
    let toks := if s.cur.isEmpty then s.done else s.done ++ [s.cur]
    if toks.isEmpty then [[⟨false, []⟩]] else toks

/-- `buildAndTree(tokens)`; the list is never empty -/
def buildAndTree (field : List Nat) : List (List Term) → Ast Leaf
  | [] => .leaf (.lit field [])
  | l :: ls => ls.foldl (fun t x => .bin .and t (.leaf (.lit field x))) (.leaf (.lit field l))

/-! ## mapping -/

/-- seq.TokenizerType -/
inductive FT | noop | keyword | text | object | tags | path | nested | exists
deriving DecidableEq, Repr

def tokenAll : List Nat := [95, 97, 108, 108, 95]                        -- "_all_"
def tokenExists : List Nat := [95, 101, 120, 105, 115, 116, 115, 95]     -- "_exists_"
def tokenIndex : List Nat := [95, 105, 110, 100, 101, 120]               -- "_index"

/-- `indexType(userMapping, field)`: `none` is the nil mapping -/
def indexType (m : Option (List (List Nat × FT))) (field : List Nat) : FT :=
  match m with
  | none => .keyword
  | some l =>
    match l.find? (fun p => p.1 = field) with
    | some p => p.2
    | none => if field = tokenAll ∨ field = tokenExists ∨ field = tokenIndex then .keyword else .noop

/-! ## filters -/

structure Cfg where
  /-- `default:` of the type switch is `panic` (before fix c6f1075) -/
  dp : Bool
  /-- conf.CaseSensitive -/
  cs : Bool
  mapping : Option (List (List Nat × FT))
  /-- the legacy parser lower-cases range bounds like literals (`singleTermBuilder.caseSensitive`, the repaired code);
  `false` = bounds are kept as written whatever the configuration (the code before the repair) -/
  rangeLower : Bool

/-- `parseFulltextSearchFilter(lex, fieldName, t, caseSensitive)` -/
def fulltextFilter (dp : Bool) (field : List Nat) (t : FT) (cs : Bool) (toks : List LTok) : PRes (Ast Leaf × List LTok) :=
  (compositeToken toks).bind fun p =>
    match t with
    | .keyword => .ok (.leaf (.lit field (seqqlKeyword cs p.1)), p.2)
    | .path => .ok (.leaf (.lit field (seqqlKeyword cs p.1)), p.2)
    | .text => .ok (buildAndTree field (seqqlText cs p.1), p.2)
    | _ => if dp then .panic else .err

/-- `parseRangeTerm(term, lex, sensitive)` -/
def rangeTerm (cs : Bool) (toks : List LTok) : PRes (Term × List LTok) :=
  (compositeToken toks).bind fun p =>
    match seqqlKeyword cs p.1 with
    | [t] => .ok (t, p.2)
    | [] => .ok (⟨false, []⟩, p.2)
    | _ => .err                                     -- "only single wildcard is allowed"

def kwIn (t : LTok) (ks : List KW) : Bool := !t.quoted && ks.contains t.kw

/-- `parseSeqQLTokenRange(field, lex, sensitive)`; the current token is `(` or `[` -/
def tokenRange (field : List Nat) (cs : Bool) : List LTok → PRes (Ast Leaf × List LTok)
  | [] => .err
  | t :: r =>
    if !kwIn t [.lp, .lbr] then .err                -- "range start not found"
    else
      (rangeTerm cs r).bind fun p1 =>
        match p1.2 with
        | [] => .err
        | t2 :: r2 =>
          if !kwIn t2 [.comma, .to] then .err       -- "expected ',' keyword"
          else
            (rangeTerm cs r2).bind fun p2 =>
              match p2.2 with
              | [] => .err
              | t3 :: r3 =>
                if !kwIn t3 [.rp, .rbr] then .err   -- "range end not found"
                else .ok (.leaf (.range field p1.1 p2.1 (t.kw = .lbr) (t3.kw = .rbr)), r3)

/-- the `for lex.IsKeyword(",")` loop of `parseFilterIn` -/
def inLoop (dp : Bool) (field : List Nat) (t : FT) (cs : Bool) : Nat → Ast Leaf → List LTok → PRes (Ast Leaf × List LTok)
  | 0, _, _ => .oof
  | f+1, root, toks =>
    match toks with
    | [] => .ok (root, [])
    | tk :: r =>
      if kwIn tk [.comma] then
        (fulltextFilter dp field t cs r).bind fun p => inLoop dp field t cs f (.bin .or root p.1) p.2
      else .ok (root, toks)

/-- `parseFilterIn(lex, fieldName, t, caseSensitive)` (called after the `in` keyword was consumed) -/
def filterIn (dp : Bool) (field : List Nat) (t : FT) (cs : Bool) : List LTok → PRes (Ast Leaf × List LTok)
  | [] => .err                                      -- "expect '('"
  | tk :: r =>
    if !kwIn tk [.lp] then .err
    else match r with
      | [] => (fulltextFilter dp field t cs []).bind fun _ => .err
      | t2 :: _ =>
        if kwIn t2 [.rp] then .err                  -- "empty 'in' filter"
        else
          (fulltextFilter dp field t cs r).bind fun p =>
            (inLoop dp field t cs (p.2.length + 1) p.1 p.2).bind fun q =>
              match q.2 with
              | [] => .err
              | t3 :: r3 => if kwIn t3 [.rp] then .ok (q.1, r3) else .err    -- "expect ')'"

/-- `parseSeqQLFieldFilter(lex, mapping)` -/
def fieldFilter (c : Cfg) (toks : List LTok) : PRes (Ast Leaf × List LTok) :=
  (compositeToken toks).bind fun p =>
    let field := nameBytes p.1
    if field.isEmpty then .err                      -- "empty field name"
    else
      let t := indexType c.mapping field
      if t = .noop then .err                        -- "field is not indexed"
      else match p.2 with
        | [] => .err                                -- "missing ':'"
        | tc :: r =>
          if !kwIn tc [.colon] then .err
          else match r with
            | [] => .err                            -- "missing filter value"
            | tv :: r' =>
              if kwIn tv [.empty] then .err
              else
                let cs := if field = tokenExists then true else c.cs
                if kwIn tv [.lbr, .lp] then tokenRange field cs r
                else if kwIn tv [.in_] then filterIn c.dp field t cs r'
                else fulltextFilter c.dp field t cs r

/-! ## pipes -/

/-- the current token is one of the given keywords, or the stream is at its end (`lex.IsKeywords(.., "")`) -/
def atStop (toks : List LTok) (ks : List KW) : Bool :=
  match toks with
  | [] => true
  | t :: _ => kwIn t ks

/-- `parseFieldList(lex)`: state = fields so far, `trailingComma` -/
def fieldList : Nat → List (List Nat) → Bool → List LTok → PRes (List (List Nat) × List LTok)
  | 0, _, _, _ => .oof
  | f+1, acc, trailing, toks =>
    if atStop toks [.pipe, .empty] then
      if trailing then .err                         -- "trailing comma not allowed"
      else if acc.isEmpty then .err                 -- "empty list"
      else .ok (acc, toks)
    else
      (compositeToken toks).bind fun p =>
        match p.2 with
        | t :: r => if kwIn t [.comma] then fieldList f (acc ++ [nameBytes p.1]) true r
                    else fieldList f (acc ++ [nameBytes p.1]) false p.2
        | [] => fieldList f (acc ++ [nameBytes p.1]) false []

/-- `if lex.IsKeyword("except") { except = true; lex.Next() }` -/
def skipExcept (r : List LTok) : Bool × List LTok :=
  match r with
  | t2 :: r2 => if kwIn t2 [.except] then (true, r2) else (false, r)
  | [] => (false, [])

/-- `parsePipeFields(lex)`; the current token is `fields` -/
def pipeFields : List LTok → PRes (PipeFields × List LTok)
  | [] => .err
  | t :: r =>
    if !kwIn t [.fields] then .err
    else
      (fieldList ((skipExcept r).2.length + 1) [] false (skipExcept r).2).bind fun p => .ok (⟨(skipExcept r).1, p.1⟩, p.2)

/-- `parsePipes(lex)` with its `fieldFilters` counter -/
def pipes : Nat → Nat → List PipeFields → List LTok → PRes (List PipeFields)
  | _, _, acc, [] => .ok acc
  | 0, _, _, _ => .oof
  | f+1, cnt, acc, t :: r =>
    if !kwIn t [.pipe] then .err                    -- "expect pipe separator"
    else
      match r with
      | [] => .err                                  -- "unknown pipe"
      | t2 :: _ =>
        if kwIn t2 [.fields] then
          (pipeFields r).bind fun p => if cnt + 1 > 1 then .err else pipes f (cnt + 1) (acc ++ [p.1]) p.2
        else .err

/-! ## the skeleton instance -/

def LTok.kind (t : LTok) : K :=
  if t.quoted then .other
  else match t.kw with
    | .lp => .lp | .rp => .rp | .and => .and | .or => .or | .not => .not | .pipe => .pipe | .star => .star
    | _ => .other

def starLeaf : Leaf := .lit tokenAll [⟨true, [42]⟩]

def seqqlSkel (c : Cfg) (mx : Option Nat) : Skel LTok Leaf :=
  { kind := LTok.kind, atom := fieldFilter c, star := starLeaf,
    pipes := fun toks => (pipes toks.length 0 [] toks).bind fun _ => .ok (), maxNest := mx }

/-- `ParseSeqQL(q, mapping)` over the token stream: root (after `propagateNot`) and pipes -/
def parseSeqQL (c : Cfg) (mx : Option Nat) (toks : List LTok) : PRes (Ast Leaf × List PipeFields) :=
  (sqFilter (seqqlSkel c mx) (fuelFor toks) toks 0 0).bind fun p =>
    match p.2 with
    | [] => .ok (finish p.1, [])
    | t :: _ =>
      if t.kind = .pipe then (pipes p.2.length 0 [] p.2).bind fun ps => .ok (finish p.1, ps)
      else .panic

end SV.Parser
