import SeqVerif.Model.LegacyParser
import SeqVerif.Model.SeqQLFilterLemmas
/-!
Totality of the rune-level legacy parser (C12): no reachable panic (`tp.cur()` past the end, `panic("quote not found")`,
`panic("range start not found")`, `tokens[0]` of an empty slice, the type switch default once it returns an error) and
enough fuel (termination), for every input.
-/
namespace SV.Parser

/-- the input does not start with a space (what every parser function of token_parser.go leaves behind) -/
def NoLead (rs : List Rn) : Prop := ∀ r rest, rs = r :: rest → r.space = false

theorem skipSpaces_len (rs : List Rn) : (skipSpaces rs).length ≤ rs.length := by
  induction rs with
  | nil => simp [skipSpaces]
  | cons r rest ih => simp only [skipSpaces]; split <;> simp <;> omega

theorem skipSpaces_noLead (rs : List Rn) : NoLead (skipSpaces rs) := by
  induction rs with
  | nil => intro r rest h; simp [skipSpaces] at h
  | cons r rest ih =>
    simp only [skipSpaces]
    split
    · exact ih
    · rename_i hs
      intro r' rest' h
      simp only [List.cons.injEq] at h
      rw [← h.1]; simpa using hs

theorem simpleWord_len (rs : List Rn) : (simpleWord rs).1.length + (simpleWord rs).2.length = rs.length := by
  induction rs with
  | nil => simp [simpleWord]
  | cons r rest ih => simp only [simpleWord]; split <;> simp <;> omega

theorem simpleTerm_len (rs : List Rn) : (simpleTerm rs).1.length + (simpleTerm rs).2.length ≤ rs.length := by
  have := simpleWord_len rs
  have := skipSpaces_len (simpleWord rs).2
  simp only [simpleTerm]; omega

theorem simpleTerm_noLead (rs : List Rn) : NoLead (simpleTerm rs).2 := skipSpaces_noLead _

/-- with an empty word and an input that starts with a non-space, nothing is consumed -/
theorem simpleTerm_empty_word {r : Rn} {rest : List Rn} (hr : r.space = false)
    (h : (simpleTerm (r :: rest)).1 = []) : (simpleTerm (r :: rest)).2 = r :: rest := by
  simp only [simpleTerm, simpleWord, hr, Bool.false_or] at h ⊢
  by_cases hsp : isSpecial r = true
  · simp only [hsp, if_true, skipSpaces, hr]
    simp
  · simp only [hsp] at h
    simp at h

theorem errUnexpected_cons {β : Type} (r : Rn) (rest : List Rn) : (errUnexpected (r :: rest) : PRes β) = .err := by
  unfold errUnexpected; split <;> rfl

/-! ## terms -/

theorem parseTerms_spec (s : BSt) (rs : List Rn) :
    parseTerms s rs ≠ .oof ∧ parseTerms s rs ≠ .panic ∧
    ∀ s' rest, parseTerms s rs = .ok (s', rest) → rest.length ≤ rs.length := by
  match rs with
  | [] => simp [parseTerms, skipSpaces]
  | r :: rest =>
    rw [parseTerms.eq_def]
    try simp only
    split
    · cases hw : s.appendWildcard with
      | none => simp
      | some s' =>
        try simp only
        have := parseTerms_spec s' rest
        exact ⟨this.1, this.2.1, fun a b h => by have := this.2.2 a b h; simp only [List.length_cons]; omega⟩
    · split
      · cases rest with
        | nil => simp
        | cons e rest' =>
          try simp only
          split
          · rw [errUnexpected_cons]; simp
          · cases ha : s.appendRune e with
            | none => simp
            | some s' =>
              try simp only
              have hrec := parseTerms_spec s' rest'
              exact ⟨hrec.1, hrec.2.1, fun a b h => by have := hrec.2.2 a b h; simp only [List.length_cons]; omega⟩
      · split
        · refine ⟨by simp, by simp, ?_⟩
          intro s' rest' h
          simp only [PRes.ok.injEq, Prod.mk.injEq] at h
          rw [← h.2]
          exact skipSpaces_len _
        · cases ha : s.appendRune r with
          | none => simp
          | some s' =>
            try simp only
            have := parseTerms_spec s' rest
            exact ⟨this.1, this.2.1, fun a b h => by have := this.2.2 a b h; simp only [List.length_cons]; omega⟩
termination_by rs.length

theorem quotedLoop_spec (s : BSt) (rs : List Rn) :
    quotedLoop s rs ≠ .oof ∧ quotedLoop s rs ≠ .panic ∧
    ∀ s' rest, quotedLoop s rs = .ok (s', rest) → rest.length ≤ rs.length := by
  match rs with
  | [] => simp [quotedLoop]
  | r :: rest =>
    rw [quotedLoop.eq_def]
    try simp only
    split
    · cases rest with
      | nil => simp
      | cons e rest' =>
        try simp only
        split
        · simp
        · rename_i s1 _
          cases ha : s1.appendRune e with
          | none => simp
          | some s2 =>
            try simp only
            have := quotedLoop_spec s2 rest'
            exact ⟨this.1, this.2.1, fun a b h => by have := this.2.2 a b h; simp only [List.length_cons]; omega⟩
    · split
      · cases hw : s.appendWildcard with
        | none => simp
        | some s' =>
          try simp only
          have := quotedLoop_spec s' rest
          exact ⟨this.1, this.2.1, fun a b h => by have := this.2.2 a b h; simp only [List.length_cons]; omega⟩
      · split
        · refine ⟨by simp, by simp, ?_⟩
          intro s' rest' h
          simp only [PRes.ok.injEq, Prod.mk.injEq] at h
          rw [← h.2]
          have := skipSpaces_len rest
          simp only [List.length_cons]; omega
        · cases ha : s.appendRune r with
          | none => simp
          | some s' =>
            try simp only
            have := quotedLoop_spec s' rest
            exact ⟨this.1, this.2.1, fun a b h => by have := this.2.2 a b h; simp only [List.length_cons]; omega⟩
termination_by rs.length

theorem parseQuotedTerms_spec (s : BSt) (r : Rn) (rest : List Rn) (hq : r.cp = 34) :
    parseQuotedTerms s (r :: rest) ≠ .oof ∧ parseQuotedTerms s (r :: rest) ≠ .panic ∧
    ∀ s' rest', parseQuotedTerms s (r :: rest) = .ok (s', rest') → rest'.length < (r :: rest).length := by
  simp only [parseQuotedTerms, hq, if_true]
  have := quotedLoop_spec s rest
  exact ⟨this.1, this.2.1, fun a b h => by have := this.2.2 a b h; simp only [List.length_cons]; omega⟩

theorem errUnexpected_of_ne {β : Type} {rs : List Rn} (h : rs ≠ []) : (errUnexpected rs : PRes β) = .err := by
  cases rs with
  | nil => exact absurd rfl h
  | cons r rest => exact errUnexpected_cons r rest

theorem eofOrUnexpected_eq {β : Type} (rs : List Rn) : (eofOrUnexpected rs : PRes β) = .err := by
  cases rs with
  | nil => rfl
  | cons r rest => exact errUnexpected_cons r rest

theorem legacyRangeTerm_spec (cs : Bool) (rs : List Rn) :
    legacyRangeTerm cs rs ≠ .oof ∧ legacyRangeTerm cs rs ≠ .panic ∧
    ∀ t rest, legacyRangeTerm cs rs = .ok (t, rest) → rest.length ≤ rs.length := by
  unfold legacyRangeTerm
  simp only [eofOrUnexpected_eq]
  generalize hq : startsWithQuote rs = q
  have hparse :
      (if q = true then parseQuotedTerms (newBuilder .single cs) rs else parseTerms (newBuilder .single cs) rs) ≠ .oof ∧
      (if q = true then parseQuotedTerms (newBuilder .single cs) rs else parseTerms (newBuilder .single cs) rs) ≠ .panic ∧
      ∀ s' rest, (if q = true then parseQuotedTerms (newBuilder .single cs) rs else parseTerms (newBuilder .single cs) rs)
        = .ok (s', rest) → rest.length ≤ rs.length := by
    cases q with
    | false => simpa using parseTerms_spec (newBuilder .single cs) rs
    | true =>
      cases rs with
      | nil => simp [startsWithQuote] at hq
      | cons r rest =>
        have h34 : r.cp = 34 := by simpa [startsWithQuote] using hq
        have := parseQuotedTerms_spec (newBuilder .single cs) r rest h34
        simp only [if_true]
        exact ⟨this.1, this.2.1, fun a b h => Nat.le_of_lt (this.2.2 a b h)⟩
  refine ⟨PRes.bind_ne_oof hparse.1 ?_, PRes.bind_ne_panic' hparse.2.1 ?_, ?_⟩
  · intro b _; (try simp only); split <;> simp
  · intro b _; (try simp only); split <;> simp
  · intro t rest h
    obtain ⟨p, hp, h⟩ := PRes.bind_eq_ok.mp h
    have hl := hparse.2.2 p.1 p.2 (by simpa using hp)
    try simp only at h
    split at h
    · simp at h
    · simp only [PRes.ok.injEq, Prod.mk.injEq] at h
      rw [← h.2]; exact hl

theorem simpleTerm_nil : simpleTerm ([] : List Rn) = ([], []) := by simp [simpleTerm, simpleWord, skipSpaces]

theorem legacyRange_spec (field : List Nat) (cs : Bool) (r : Rn) (rest : List Rn) (hb : r.cp = 91 ∨ r.cp = 123) :
    legacyRange field cs (r :: rest) ≠ .oof ∧ legacyRange field cs (r :: rest) ≠ .panic ∧
    ∀ l rest', legacyRange field cs (r :: rest) = .ok (l, rest') → rest'.length < (r :: rest).length := by
  have hnb : ¬ (r.cp ≠ 91 ∧ r.cp ≠ 123) := by omega
  simp only [legacyRange, hnb, if_false]
  have h1 := legacyRangeTerm_spec cs (skipSpaces rest)
  have hsk := skipSpaces_len rest
  -- what follows the first bound
  have key : ∀ p1 : Term × List Rn, p1.2.length ≤ rest.length →
      let X : PRes (Leaf × List Rn) :=
        (let to := simpleTerm p1.2
         if !foldEq to.1 [116, 111] then
           (match to.2 with
            | [] => .err
            | _ :: _ => if to.1.isEmpty then errUnexpected p1.2 else .err)
         else
           (legacyRangeTerm cs to.2).bind fun p2 =>
             match p2.2 with
             | [] => .err
             | c :: rest2 =>
               if c.cp = 93 then .ok (.range field p1.1 p2.1 (r.cp = 91) true, skipSpaces rest2)
               else if c.cp = 125 then .ok (.range field p1.1 p2.1 (r.cp = 91) false, skipSpaces rest2)
               else errUnexpected (c :: rest2))
      X ≠ .oof ∧ X ≠ .panic ∧ ∀ l rest', X = .ok (l, rest') → rest'.length ≤ rest.length := by
    intro p1 hp1
    try simp only
    have hto := simpleTerm_len p1.2
    split
    · -- not "to"
      split
      · simp
      · rename_i x y hcons
        split
        · -- p1.2 is not empty because what follows the word is not
          cases hp : p1.2 with
          | nil => rw [hp, simpleTerm_nil] at hcons; simp at hcons
          | cons a b => rw [errUnexpected_cons]; simp
        · simp
    · have h2 := legacyRangeTerm_spec cs (simpleTerm p1.2).2
      refine ⟨PRes.bind_ne_oof h2.1 ?_, PRes.bind_ne_panic' h2.2.1 ?_, ?_⟩
      · intro b _; split
        · simp
        · rename_i c rest2 heq
          split
          · simp
          · split
            · simp
            · rw [errUnexpected_cons]; simp
      · intro b _; split
        · simp
        · rename_i c rest2 heq
          split
          · simp
          · split
            · simp
            · rw [errUnexpected_cons]; simp
      · intro l rest' h
        obtain ⟨p2, hp2, h⟩ := PRes.bind_eq_ok.mp h
        have hl2 := h2.2.2 p2.1 p2.2 (by simpa using hp2)
        split at h
        · simp at h
        · rename_i c rest2 heq
          have hs2 := skipSpaces_len rest2
          rw [heq] at hl2
          simp only [List.length_cons] at hl2
          split at h
          · simp only [PRes.ok.injEq, Prod.mk.injEq] at h
            rw [← h.2]; omega
          · split at h
            · simp only [PRes.ok.injEq, Prod.mk.injEq] at h
              rw [← h.2]; omega
            · rw [errUnexpected_cons] at h; simp at h
  refine ⟨PRes.bind_ne_oof h1.1 ?_, PRes.bind_ne_panic' h1.2.1 ?_, ?_⟩
  · intro p1 hp1
    have := h1.2.2 p1.1 p1.2 (by simpa using hp1)
    exact (key p1 (by omega)).1
  · intro p1 hp1
    have := h1.2.2 p1.1 p1.2 (by simpa using hp1)
    exact (key p1 (by omega)).2.1
  · intro l rest' h
    obtain ⟨p1, hp1, h⟩ := PRes.bind_eq_ok.mp h
    have := h1.2.2 p1.1 p1.2 (by simpa using hp1)
    have := (key p1 (by omega)).2.2 l rest' h
    simp only [List.length_cons]; omega

/-! ## literals -/

theorem legacyLiteral_spec (rl csConf : Bool) (field : List Nat) (t : FT) (rs : List Rn) :
    legacyLiteral false rl csConf field t rs ≠ .oof ∧ legacyLiteral false rl csConf field t rs ≠ .panic ∧
    ∀ ls rest, legacyLiteral false rl csConf field t rs = .ok (ls, rest) → rest.length ≤ rs.length ∧ ls ≠ [] := by
  cases rs with
  | nil => simp [legacyLiteral]
  | cons r rest =>
    simp only [legacyLiteral]
    split
    · rename_i hb
      have := legacyRange_spec field (if rl then (if field = tokenExists then true else csConf) else true) r rest hb
      refine ⟨PRes.bind_ne_oof this.1 (fun _ _ => by simp), PRes.bind_ne_panic' this.2.1 (fun _ _ => by simp), ?_⟩
      intro ls rest' h
      obtain ⟨p, hp, h⟩ := PRes.bind_eq_ok.mp h
      have := this.2.2 p.1 p.2 (by simpa using hp)
      simp only [PRes.ok.injEq, Prod.mk.injEq] at h
      rw [← h.1, ← h.2]
      exact ⟨by omega, by simp⟩
    · split
      · simp
      · rename_i k _
        split
        · rename_i hq
          have := parseQuotedTerms_spec (newBuilder k (if field = tokenExists then true else csConf)) r rest hq
          refine ⟨PRes.bind_ne_oof this.1 ?_, PRes.bind_ne_panic' this.2.1 ?_, ?_⟩
          · intro b _; (try simp only); split <;> simp
          · intro b _; (try simp only); split <;> simp
          · intro ls rest' h
            obtain ⟨p, hp, h⟩ := PRes.bind_eq_ok.mp h
            have := this.2.2 p.1 p.2 (by simpa using hp)
            try simp only at h
            split at h
            · simp only [PRes.ok.injEq, Prod.mk.injEq] at h
              rw [← h.1, ← h.2]; exact ⟨by omega, by simp⟩
            · rename_i hne
              simp only [PRes.ok.injEq, Prod.mk.injEq] at h
              rw [← h.1, ← h.2]
              refine ⟨by omega, ?_⟩
              intro hm
              simp only [List.map_eq_nil_iff] at hm
              simp [hm] at hne
        · have := parseTerms_spec (newBuilder k (if field = tokenExists then true else csConf)) (r :: rest)
          refine ⟨PRes.bind_ne_oof this.1 ?_, PRes.bind_ne_panic' this.2.1 ?_, ?_⟩
          · intro b hb; (try simp only); split
            · split
              · rename_i hlen
                cases hb2 : b.2 with
                | nil => rw [hb2] at hlen; simp at hlen
                | cons x y => rw [errUnexpected_cons]; simp
              · simp
            · simp
          · intro b hb; (try simp only); split
            · split
              · rename_i hlen
                cases hb2 : b.2 with
                | nil => rw [hb2] at hlen; simp at hlen
                | cons x y => rw [errUnexpected_cons]; simp
              · simp
            · simp
          · intro ls rest' h
            obtain ⟨p, hp, h⟩ := PRes.bind_eq_ok.mp h
            have := this.2.2 p.1 p.2 (by simpa using hp)
            try simp only at h
            split at h
            · split at h
              · rename_i hlen
                cases hb2 : p.2 with
                | nil => rw [hb2] at hlen; simp at hlen
                | cons x y => rw [hb2, errUnexpected_cons] at h; simp at h
              · simp at h
            · rename_i hne
              simp only [PRes.ok.injEq, Prod.mk.injEq] at h
              rw [← h.1, ← h.2]
              refine ⟨this, ?_⟩
              intro hm
              simp only [List.map_eq_nil_iff] at hm
              simp [hm] at hne

theorem legacyTokenQuery_spec (rl csConf : Bool) (field : List Nat) (t : FT) (rs : List Rn) :
    legacyTokenQuery false rl csConf field t rs ≠ .oof ∧ legacyTokenQuery false rl csConf field t rs ≠ .panic ∧
    ∀ ls rest, legacyTokenQuery false rl csConf field t rs = .ok (ls, rest) → rest.length < rs.length ∧ ls ≠ [] := by
  cases rs with
  | nil => simp [legacyTokenQuery]
  | cons r rest =>
    simp only [legacyTokenQuery]
    split
    · rw [errUnexpected_cons]; simp
    · have := legacyLiteral_spec rl csConf field t (skipSpaces rest)
      have hs := skipSpaces_len rest
      exact ⟨this.1, this.2.1, fun ls rest' h => by
        have := this.2.2 ls rest' h
        exact ⟨by simp only [List.length_cons]; omega, this.2⟩⟩

theorem legacyAndTree_spec (ls : List Leaf) (h : ls ≠ []) :
    ∃ a, legacyAndTree ls = .ok a ∧ a.NoNand := by
  cases ls with
  | nil => exact absurd rfl h
  | cons l ls =>
    refine ⟨_, rfl, ?_⟩
    have : ∀ (ls : List Leaf) (t : Ast Leaf), t.NoNand → (ls.foldl (fun t x => Ast.bin .and t (.leaf x)) t).NoNand := by
      intro ls
      induction ls with
      | nil => intro t ht; exact ht
      | cons x xs ih => intro t ht; exact ih _ ⟨by decide, ht, trivial⟩
    exact this ls _ trivial

/-! ## the expression level -/

def LSpecSub (c : Cfg) (mx : Option Nat) (f : Nat) : Prop :=
  ∀ rs d n, NoLead rs → 2 * rs.length + 1 ≤ f →
    lgrSub c mx f rs d n ≠ .oof ∧ lgrSub c mx f rs d n ≠ .panic ∧
    ∀ a rest, lgrSub c mx f rs d n = .ok (a, rest) → rest.length < rs.length ∧ a.NoNand

def LSpecExpr (c : Cfg) (mx : Option Nat) (f : Nat) : Prop :=
  ∀ rs d n, NoLead rs → 2 * rs.length + 2 ≤ f →
    lgrExpr c mx f rs d n ≠ .oof ∧ lgrExpr c mx f rs d n ≠ .panic ∧
    ∀ a rest, lgrExpr c mx f rs d n = .ok (a, rest) → rest.length < rs.length ∧ a.NoNand

def LSpecLoop (c : Cfg) (mx : Option Nat) (f : Nat) : Prop :=
  ∀ lo hi rs d n, 2 * rs.length + 1 ≤ f → (∀ x, lo = some x → x.NoNand) → hi.NoNand →
    lgrLoop c mx f lo hi rs d n ≠ .oof ∧ lgrLoop c mx f lo hi rs d n ≠ .panic ∧
    ∀ a rest, lgrLoop c mx f lo hi rs d n = .ok (a, rest) → rest.length ≤ rs.length ∧ a.NoNand

theorem lgr_spec (c : Cfg) (hdp : c.dp = false) (mx : Option Nat) :
    ∀ f, LSpecSub c mx f ∧ LSpecExpr c mx f ∧ LSpecLoop c mx f := by
  intro f
  induction f with
  | zero =>
    refine ⟨?_, ?_, ?_⟩
    · intro rs d n _ h; omega
    · intro rs d n _ h; omega
    · intro lo hi rs d n h; omega
  | succ f ih =>
    obtain ⟨ihS, ihE, ihL⟩ := ih
    refine ⟨?_, ?_, ?_⟩
    · -- sub
      intro rs d n hnl h
      cases rs with
      | nil => simp only [lgrSub]; split <;> simp
      | cons r rest =>
        simp only [lgrSub]
        simp only [List.length_cons] at h
        split
        · simp
        · split
          · -- '('
            have hs := skipSpaces_len rest
            have he := ihE (skipSpaces rest) (d+1) (n+1) (skipSpaces_noLead rest) (by omega)
            refine ⟨PRes.bind_ne_oof he.1 ?_, PRes.bind_ne_panic' he.2.1 ?_, ?_⟩
            · intro b _; split
              · simp
              · split
                · rw [errUnexpected_cons]; simp
                · simp
            · intro b _; split
              · simp
              · split
                · rw [errUnexpected_cons]; simp
                · simp
            · intro a rest' h'
              obtain ⟨p, hp, h'⟩ := PRes.bind_eq_ok.mp h'
              have hl := he.2.2 p.1 p.2 (by simpa using hp)
              split at h'
              · simp at h'
              · rename_i r' rest'' heq
                split at h'
                · rw [errUnexpected_cons] at h'; simp at h'
                · simp only [PRes.ok.injEq, Prod.mk.injEq] at h'
                  have hs2 := skipSpaces_len rest''
                  rw [heq] at hl
                  simp only [List.length_cons] at hl ⊢
                  rw [← h'.2, ← h'.1]
                  exact ⟨by omega, hl.2⟩
          · -- word
            have hr : r.space = false := hnl r rest rfl
            have hlen := simpleTerm_len (r :: rest)
            simp only [List.length_cons] at hlen
            split
            · -- not
              rename_i hnot
              have hw : (simpleTerm (r :: rest)).1 ≠ [] := by
                intro he; rw [he] at hnot; simp [foldEq] at hnot
              have hwl : 0 < (simpleTerm (r :: rest)).1.length := List.length_pos_iff.mpr hw
              have hs := ihS (simpleTerm (r :: rest)).2 d (n+1) (simpleTerm_noLead _) (by omega)
              refine ⟨PRes.bind_ne_oof hs.1 (fun _ _ => by simp), PRes.bind_ne_panic' hs.2.1 (fun _ _ => by simp), ?_⟩
              intro a rest' h'
              obtain ⟨p, hp, h'⟩ := PRes.bind_eq_ok.mp h'
              have hl := hs.2.2 p.1 p.2 (by simpa using hp)
              simp only [PRes.ok.injEq, Prod.mk.injEq] at h'
              rw [← h'.1, ← h'.2]
              simp only [List.length_cons]
              exact ⟨by omega, hl.2⟩
            · split
              · rename_i hempty
                have : (simpleTerm (r :: rest)).1 = [] := by simpa using hempty
                rw [simpleTerm_empty_word hr this, errUnexpected_cons]; simp
              · rename_i hne
                have hw : (simpleTerm (r :: rest)).1 ≠ [] := by simpa using hne
                have hwl : 0 < (simpleTerm (r :: rest)).1.length := List.length_pos_iff.mpr hw
                split
                · simp
                · have hq := legacyTokenQuery_spec c.rangeLower c.cs (wordBytes (simpleTerm (r :: rest)).1)
                    (indexType c.mapping (wordBytes (simpleTerm (r :: rest)).1)) (simpleTerm (r :: rest)).2
                  rw [hdp]
                  refine ⟨PRes.bind_ne_oof hq.1 ?_, PRes.bind_ne_panic' hq.2.1 ?_, ?_⟩
                  · intro b hb
                    obtain ⟨a, ha, _⟩ := legacyAndTree_spec b.1 (hq.2.2 b.1 b.2 (by simpa using hb)).2
                    rw [ha]; simp
                  · intro b hb
                    obtain ⟨a, ha, _⟩ := legacyAndTree_spec b.1 (hq.2.2 b.1 b.2 (by simpa using hb)).2
                    rw [ha]; simp
                  · intro a rest' h'
                    obtain ⟨p, hp, h'⟩ := PRes.bind_eq_ok.mp h'
                    have hl := hq.2.2 p.1 p.2 (by simpa using hp)
                    obtain ⟨a0, ha, hnn⟩ := legacyAndTree_spec p.1 hl.2
                    rw [ha] at h'
                    simp only [PRes.bind_ok, PRes.ok.injEq, Prod.mk.injEq] at h'
                    rw [← h'.1, ← h'.2]
                    simp only [List.length_cons]
                    exact ⟨by omega, hnn⟩
    · -- expr
      intro rs d n hnl h
      simp only [lgrExpr]
      have hs := ihS rs d n hnl (by omega)
      refine ⟨PRes.bind_ne_oof hs.1 ?_, PRes.bind_ne_panic' hs.2.1 ?_, ?_⟩
      · intro b hb
        have hl := hs.2.2 b.1 b.2 (by simpa using hb)
        exact (ihL none b.1 b.2 d n (by omega) (by simp) hl.2).1
      · intro b hb
        have hl := hs.2.2 b.1 b.2 (by simpa using hb)
        exact (ihL none b.1 b.2 d n (by omega) (by simp) hl.2).2.1
      · intro a rest h'
        obtain ⟨p, hp, h'⟩ := PRes.bind_eq_ok.mp h'
        have hl := hs.2.2 p.1 p.2 (by simpa using hp)
        have := (ihL none p.1 p.2 d n (by omega) (by simp) hl.2).2.2 a rest h'
        exact ⟨by omega, this.2⟩
    · -- loop
      intro lo hi rs d n h hlo hhi
      simp only [lgrLoop]
      have hlen := simpleTerm_len rs
      split
      · rename_i hand
        have hw : (simpleTerm rs).1 ≠ [] := by
          intro he; rw [he] at hand; simp [lowerEq] at hand
        have hwl : 0 < (simpleTerm rs).1.length := List.length_pos_iff.mpr hw
        have hs := ihS (simpleTerm rs).2 d n (simpleTerm_noLead _) (by omega)
        refine ⟨PRes.bind_ne_oof hs.1 ?_, PRes.bind_ne_panic' hs.2.1 ?_, ?_⟩
        · intro b hb
          have hl := hs.2.2 b.1 b.2 (by simpa using hb)
          exact (ihL lo (.bin .and hi b.1) b.2 d n (by omega) hlo ⟨by decide, hhi, hl.2⟩).1
        · intro b hb
          have hl := hs.2.2 b.1 b.2 (by simpa using hb)
          exact (ihL lo (.bin .and hi b.1) b.2 d n (by omega) hlo ⟨by decide, hhi, hl.2⟩).2.1
        · intro a rest h'
          obtain ⟨p, hp, h'⟩ := PRes.bind_eq_ok.mp h'
          have hl := hs.2.2 p.1 p.2 (by simpa using hp)
          have := (ihL lo (.bin .and hi p.1) p.2 d n (by omega) hlo ⟨by decide, hhi, hl.2⟩).2.2 a rest h'
          exact ⟨by omega, this.2⟩
      · split
        · rename_i hor
          have hw : (simpleTerm rs).1 ≠ [] := by
            intro he; rw [he] at hor; simp [lowerEq] at hor
          have hwl : 0 < (simpleTerm rs).1.length := List.length_pos_iff.mpr hw
          have hs := ihS (simpleTerm rs).2 d n (simpleTerm_noLead _) (by omega)
          have hj : ∀ x, some (joinOr lo hi) = some x → x.NoNand := by
            intro x hx; cases hx; exact joinOr_noNand hlo hhi
          refine ⟨PRes.bind_ne_oof hs.1 ?_, PRes.bind_ne_panic' hs.2.1 ?_, ?_⟩
          · intro b hb
            have hl := hs.2.2 b.1 b.2 (by simpa using hb)
            exact (ihL _ b.1 b.2 d n (by omega) hj hl.2).1
          · intro b hb
            have hl := hs.2.2 b.1 b.2 (by simpa using hb)
            exact (ihL _ b.1 b.2 d n (by omega) hj hl.2).2.1
          · intro a rest h'
            obtain ⟨p, hp, h'⟩ := PRes.bind_eq_ok.mp h'
            have hl := hs.2.2 p.1 p.2 (by simpa using hp)
            have := (ihL _ p.1 p.2 d n (by omega) hj hl.2).2.2 a rest h'
            exact ⟨by omega, this.2⟩
        · split
          · split
            · refine ⟨by simp, by simp, ?_⟩
              intro a rest h'
              simp only [PRes.ok.injEq, Prod.mk.injEq] at h'
              rw [← h'.1, ← h'.2]
              exact ⟨by simp, joinOr_noNand hlo hhi⟩
            · rename_i r rest heq
              split
              · refine ⟨by simp, by simp, ?_⟩
                intro a rest' h'
                simp only [PRes.ok.injEq, Prod.mk.injEq] at h'
                rw [← h'.1, ← h'.2, ← heq]
                exact ⟨by omega, joinOr_noNand hlo hhi⟩
              · rw [errUnexpected_cons]; simp
          · simp

end SV.Parser
