import SeqVerif.Model.CacheInv
/-!
# C18 - accounting: sums over the heap, the quiescent invariant `QInv`, and `getSize = liveSum`
-/
namespace SV.Cache

/-! ## sums -/

theorem sum_map_add {α} (l : List α) (f g : α → Int) :
    (l.map fun a => f a + g a).sum = (l.map f).sum + (l.map g).sum := by
  induction l with
  | nil => simp
  | cons a l ih => simp only [List.map_cons, List.sum_cons, ih]; omega

theorem sum_map_congr {α} (l : List α) (f g : α → Int) (h : ∀ a ∈ l, f a = g a) : (l.map f).sum = (l.map g).sum := by
  induction l with
  | nil => simp
  | cons a l ih =>
    simp only [List.map_cons, List.sum_cons]
    rw [h a (by simp), ih (fun b hb => h b (by simp [hb]))]

theorem sum_map_zero {α} (l : List α) (f : α → Int) (h : ∀ a ∈ l, f a = 0) : (l.map f).sum = 0 := by
  rw [sum_map_congr l f (fun _ => 0) h]
  induction l with
  | nil => simp
  | cons a l ih => simpa using ih (fun b hb => h b (by simp [hb]))

theorem sum_map_nonneg {α} (l : List α) (f : α → Int) (h : ∀ a ∈ l, 0 ≤ f a) : 0 ≤ (l.map f).sum := by
  induction l with
  | nil => simp
  | cons a l ih =>
    simp only [List.map_cons, List.sum_cons]
    have := h a (by simp); have := ih (fun b hb => h b (by simp [hb])); omega

theorem le_sum_map_of_mem {α} (l : List α) (f : α → Int) (h : ∀ a ∈ l, 0 ≤ f a) {a : α} (ha : a ∈ l) :
    f a ≤ (l.map f).sum := by
  induction l with
  | nil => cases ha
  | cons b l ih =>
    simp only [List.map_cons, List.sum_cons]
    rcases List.mem_cons.mp ha with rfl | ha'
    · have := sum_map_nonneg l f (fun b hb => h b (by simp [hb])); omega
    · have := ih (fun b hb => h b (by simp [hb])) ha'; have := h b (by simp); omega

theorem sum_indicator (l : List Nat) (a : Nat) (x : Int) (hn : l.Nodup) :
    (l.map fun g => if a = g then x else 0).sum = if a ∈ l then x else 0 := by
  induction l with
  | nil => simp
  | cons b l ih =>
    have hn' := List.nodup_cons.mp hn
    simp only [List.map_cons, List.sum_cons, ih hn'.2, List.mem_cons]
    by_cases hab : a = b
    · subst hab; simp [hn'.1]
    · simp [hab]

theorem sum_map_set {α} (l : List α) (f : α → Int) (i : Nat) (a b : α) (hi : l[i]? = some a) :
    ((l.set i b).map f).sum = (l.map f).sum - f a + f b := by
  induction l generalizing i with
  | nil => simp at hi
  | cons x xs ih =>
    cases i with
    | zero => simp at hi; subst hi; simp; omega
    | succ i =>
      simp only [List.getElem?_cons_succ] at hi
      simp only [List.set_cons_succ, List.map_cons, List.sum_cons, ih i hi]; omega

/-! ## per-generation live size -/

/-- what entry `e` contributes to generation `g` -/
def contrib (g : Nat) (e : Entry) : Int := if e.inMap = true ∧ e.gen = g then (e.size : Int) else 0

/-- sum of the sizes of the map entries accounted to generation `g` -/
def genLive (heap : List Entry) (g : Nat) : Int := (heap.map (contrib g)).sum

theorem contrib_nonneg (g : Nat) (e : Entry) : 0 ≤ contrib g e := by
  unfold contrib; split <;> omega

theorem genLive_append (h : List Entry) (e : Entry) (g : Nat) : genLive (h ++ [e]) g = genLive h g + contrib g e := by
  simp [genLive, List.sum_append]

theorem genLive_set (h : List Entry) (i : Nat) (e e' : Entry) (g : Nat) (hi : h[i]? = some e) :
    genLive (h.set i e') g = genLive h g - contrib g e + contrib g e' :=
  sum_map_set h (contrib g) i e e' hi

theorem genLive_map (h : List Entry) (f : Entry → Entry) (g : Nat) (hf : ∀ e ∈ h, contrib g (f e) = contrib g e) :
    genLive (h.map f) g = genLive h g := by
  simp only [genLive, List.map_map]
  exact sum_map_congr h _ _ (fun e he => hf e he)

theorem le_genLive (h : List Entry) {e : Entry} (he : e ∈ h) (hin : e.inMap = true) : (e.size : Int) ≤ genLive h e.gen := by
  have := le_sum_map_of_mem h (contrib e.gen) (fun a _ => contrib_nonneg _ a) he
  simp only [contrib, hin, and_self, if_true] at this
  exact this

theorem liveSum_eq (h : List Entry) (gl : List Nat) (hn : gl.Nodup)
    (hin : ∀ e ∈ h, e.inMap = true → e.gen ∈ gl ∨ e.size = 0) : liveSum h = (gl.map (genLive h)).sum := by
  induction h with
  | nil =>
    simp only [liveSum, genLive, List.map_nil, List.sum_nil]
    exact (sum_map_zero gl _ (fun _ _ => rfl)).symm
  | cons e es ih =>
    have h1 : (gl.map (genLive (e :: es))).sum = (gl.map fun g => contrib g e + genLive es g).sum := by
      apply sum_map_congr; intro g _; simp [genLive]
    rw [h1, sum_map_add, ← ih (fun a ha => hin a (by simp [ha]))]
    have h2 : (gl.map fun g => contrib g e).sum = if e.inMap then (e.size : Int) else 0 := by
      by_cases hm : e.inMap = true
      · have : (gl.map fun g => contrib g e).sum = (gl.map fun g => if e.gen = g then (e.size : Int) else 0).sum := by
          apply sum_map_congr; intro g _; simp [contrib, hm]
        rw [this, sum_indicator gl e.gen _ hn]
        rcases hin e (by simp) hm with h | h
        · rw [if_pos h]; simp [hm]
        · simp [hm, h]
      · have : (gl.map fun g => contrib g e).sum = 0 := sum_map_zero gl _ (fun g _ => by simp [contrib, hm])
        rw [this]; simp [hm]
    rw [h2]; simp [liveSum]

/-! ## `Release` -/

/-- what `Release` of cache `c` subtracts from generation `g` -/
def relSum (c : Nat) (h : List Entry) (g : Nat) : Int :=
  (h.map fun e => if e.cache = c ∧ e.inMap = true ∧ e.gen = g then (e.size : Int) else 0).sum

theorem addG_get (l : List Int) (g : Nat) (d : Int) (g' : Nat) :
    mget 0 (addG l g d) g' = if g' = g then mget 0 l g + d else mget 0 l g' := by
  simp [addG, mget_mset]

theorem relGens_get (c : Nat) (h : List Entry) (gs : List Int) (g : Nat) :
    mget 0 (relGens c h gs) g = mget 0 gs g - relSum c h g := by
  induction h generalizing gs with
  | nil => simp [relGens, relSum]
  | cons e es ih =>
    simp only [relGens, relSum, List.map_cons, List.sum_cons]
    rw [ih]
    simp only [relSum]
    by_cases h1 : e.cache = c ∧ e.inMap = true
    · rw [if_pos h1, addG_get]
      by_cases h2 : g = e.gen
      · subst h2; simp [h1.1, h1.2]; omega
      · have : ¬ e.gen = g := fun h => h2 h.symm
        simp [h2, this]
    · rw [if_neg h1]
      have : ¬ (e.cache = c ∧ e.inMap = true ∧ e.gen = g) := fun h => h1 ⟨h.1, h.2.1⟩
      simp [this]

theorem genLive_release (c : Nat) (h : List Entry) (g : Nat) :
    genLive (h.map fun e => if e.cache = c then { e with inMap := false, deleted := e.inMap || e.deleted } else e) g =
      genLive h g - relSum c h g := by
  induction h with
  | nil => simp [genLive, relSum]
  | cons e es ih =>
    simp only [genLive, relSum, List.map_cons, List.sum_cons] at ih ⊢
    rw [ih]
    by_cases h1 : e.cache = c
    · by_cases h2 : e.inMap = true ∧ e.gen = g
      · simp [contrib, h1, h2.1, h2.2]; omega
      · have : ¬ (e.cache = c ∧ e.inMap = true ∧ e.gen = g) := fun h => h2 h.2
        simp [contrib, h1, h2]
    · have : ¬ (e.cache = c ∧ e.inMap = true ∧ e.gen = g) := fun h => h1 h.1
      simp [h1]; omega

/-! ## the accounting invariant (all interleavings) -/

/-- caches the running `Cleanup` pass still has to visit -/
def St.pending (s : St) : List Nat := s.todo.getD []

structure AInv (cfg : Cfg) (s : St) : Prop where
  /-- the generation list: no duplicates, allocated, not stale, ends with `lastGen` -/
  gl : s.glist.Nodup ∧ (∀ g ∈ s.glist, g < s.ngens ∧ s.stale g = false) ∧ s.glist.getLast? = some s.lastGen
  /-- generations that were never created -/
  fresh : ∀ g, s.ngens ≤ g → s.gsize g = 0 ∧ s.stale g = false
  managed : Managed s
  /-- every listed generation counts exactly the map entries assigned to it -/
  acc : ∀ g ∈ s.glist, s.gsize g = genLive s.heap g
  /-- an entry that is being loaded has no size yet -/
  loading0 : ∀ e ∈ s.heap, e.st = .loading → e.size = 0
  /-- map entries belong to live caches, are not marked deleted, and sit in an allocated generation -/
  inmap : ∀ e ∈ s.heap, e.inMap = true →
    e.cache < s.ncaches ∧ s.released e.cache = false ∧ e.deleted = false ∧ e.gen < s.ngens ∧ e.st ≠ .abandoned
  /-- an entry that left its map while loading is marked, so that `save` will not account it -/
  orphan : ∀ e ∈ s.heap, e.inMap = false → e.st = .loading → e.deleted = true
  /-- a valid map entry has a positive size and a listed generation - or a stale one while the running `Cleanup`
  pass has not visited its cache yet -/
  valid : ∀ e ∈ s.heap, e.inMap = true → e.st = .valid →
    0 < e.size ∧ (e.gen ∈ s.glist ∨ (s.stale e.gen = true ∧ e.cache ∈ s.pending))
  /-- every entry ever created names an existing cache -/
  cachelt : ∀ e ∈ s.heap, e.cache < s.ncaches

theorem AInv.lastGen_mem {cfg : Cfg} {s : St} (a : AInv cfg s) : s.lastGen ∈ s.glist :=
  List.mem_of_getLast? a.gl.2.2

theorem AInv.lastGen_lt {cfg : Cfg} {s : St} (a : AInv cfg s) : s.lastGen < s.ngens :=
  (a.gl.2.1 _ a.lastGen_mem).1

/-- **accounting**, whenever no `Cleanup` pass is in progress - loads may be in flight: the size the cleaner reports
is the sum of the sizes of the map entries -/
theorem AInv.accounting {cfg : Cfg} {s : St} (a : AInv cfg s) (ht : s.todo = none) : getSize s = liveSum s.heap := by
  rw [liveSum_eq s.heap s.glist a.gl.1]
  · exact sum_map_congr _ _ _ a.acc
  · intro e he hin
    cases hst : e.st with
    | loading => exact Or.inr (a.loading0 e he hst)
    | abandoned => exact absurd hst (a.inmap e he hin).2.2.2.2
    | valid =>
      rcases (a.valid e he hin hst).2 with h | h
      · exact Or.inl h
      · simp [St.pending, ht] at h

theorem genLive_fresh {cfg : Cfg} {s : St} (a : AInv cfg s) {g : Nat} (hg : s.ngens ≤ g) : genLive s.heap g = 0 := by
  apply sum_map_zero
  intro e he
  unfold contrib
  split
  · rename_i h
    have := (a.inmap e he h.1).2.2.2.1
    omega
  · rfl

theorem ainv_init (cfg : Cfg) : AInv cfg init := by
  refine ⟨?_, ?_, managed_init, ?_, by simp [init], by simp [init], by simp [init], by simp [init], by simp [init]⟩
  · simp [init, St.stale, mget]
  · intro g _; simp [init, St.gsize, St.stale, mget]
  · simp [init, St.gsize, mget, genLive]

end SV.Cache
