import SeqVerif.Model.AggWalk
set_option linter.unusedSimpArgs false
set_option linter.unusedVariables false
/-!
C06: the aggregation limits (`AggLimits`, the seq-db binary's defaults 2000 / 1000000 / 100000) switch on two
things in `SourcedNodeIterator`: the count of distinct sources seen (`countBySource`, error above the limit) and the
token cache of `ValueBySource`.  Below the limit neither changes a result.
-/
namespace SV.Agg

/-- `ConsumeTokenSource` with `uniqSourcesLimit = limit > 0`: `seen` = the keys of `countBySource`;
the first component is `none` for `ErrTooManyUniqValues` -/
def consumeLim (rev : Bool) (limit : Nat) (s : Stream) (seen : List Nat) (lid : Nat) :
    Option (Option Nat) × Stream × List Nat :=
  let r := consume rev s lid
  match r.1 with
  | none => (some none, r.2, seen)
  | some src =>
    let seen' := if src ∈ seen then seen else src :: seen
    if seen'.length > limit then (none, r.2, seen') else (some (some src), r.2, seen')

/-- successive calls; `none` = the aggregation fails with the limit error -/
def walkLim (rev : Bool) (limit : Nat) : Stream → List Nat → List Nat → Option (List (Option Nat))
  | _, _, [] => some []
  | s, seen, lid :: lids =>
    match consumeLim rev limit s seen lid with
    | (none, _, _) => none
    | (some r, s', seen') => (walkLim rev limit s' seen' lids).map (r :: ·)

/-- at most `limit` distinct sources occur in the stream -/
def SourcesWithin (limit : Nat) (s : Stream) : Prop :=
  ∀ seen : List Nat, seen.Nodup → (∀ x, x ∈ seen → x ∈ s.map (·.2)) → seen.length ≤ limit

theorem consume_snd_sub (rev : Bool) (s : Stream) (lid : Nat) (x : Nat)
    (h : x ∈ (consume rev s lid).2.map (·.2)) : x ∈ s.map (·.2) := by
  rw [consume_snd] at h
  obtain ⟨p, hp, rfl⟩ := List.mem_map.mp h
  exact List.mem_map_of_mem ((List.dropWhile_sublist _).subset hp)

theorem consume_fst_mem (rev : Bool) (s : Stream) (lid src : Nat) (h : (consume rev s lid).1 = some src) :
    src ∈ s.map (·.2) := by
  induction s with
  | nil => simp [consume] at h
  | cons p s ih =>
    obtain ⟨id, sr⟩ := p
    unfold consume at h
    by_cases h1 : lessFn rev id lid = true
    · simp [h1] at h; exact List.mem_cons_of_mem _ (ih h)
    · simp only [h1] at h
      by_cases e : id = lid
      · simp [e] at h; simp [h]
      · simp [e] at h

/-- **limits below the threshold do not change the walk**: when the field has at most `limit` distinct tokens in
the window, the limited iterator never fails and returns exactly what the unlimited one returns -/
theorem walkLim_eq (rev : Bool) (limit : Nat) (s0 s : Stream) (seen : List Nat) (lids : List Nat)
    (hw : SourcesWithin limit s0) (hsub : ∀ x, x ∈ s.map (·.2) → x ∈ s0.map (·.2))
    (hn : seen.Nodup) (hseen : ∀ x, x ∈ seen → x ∈ s0.map (·.2)) :
    walkLim rev limit s seen lids = some (walk rev s lids) := by
  induction lids generalizing s seen with
  | nil => rfl
  | cons lid lids ih =>
    simp only [walkLim, walk, consumeLim]
    cases hc : (consume rev s lid).1 with
    | none =>
      simp only []
      rw [ih _ _ (fun x hx => hsub x (consume_snd_sub rev s lid x hx)) hn hseen]
      simp
    | some src =>
      have hsrc : src ∈ s0.map (·.2) := hsub _ (consume_fst_mem rev s lid src hc)
      have hn' : (if src ∈ seen then seen else src :: seen).Nodup := by
        split
        · exact hn
        · exact List.nodup_cons.mpr ⟨by assumption, hn⟩
      have hseen' : ∀ x, x ∈ (if src ∈ seen then seen else src :: seen) → x ∈ s0.map (·.2) := by
        intro x hx
        split at hx
        · exact hseen x hx
        · rcases List.mem_cons.mp hx with rfl | hx
          · exact hsrc
          · exact hseen x hx
      have hle := hw _ hn' hseen'
      have : ¬ (if src ∈ seen then seen else src :: seen).length > limit := by omega
      simp only [this, if_false]
      rw [ih _ _ (fun x hx => hsub x (consume_snd_sub rev s lid x hx)) hn' hseen']
      simp

/-! ## the token cache of `ValueBySource` -/

/-- `ValueBySource(source)`: `count` = `countBySource`, `val` = `ti.GetValByTID(tids[·])`, `cache` = `tokensCache`
(looked up and stored under the *source*); returns the value and the cache afterwards -/
def valueBySource (count : Nat → Nat) (val : Nat → String) (cache : List (Nat × String)) (source : Nat) :
    String × List (Nat × String) :=
  if count source < 2 then (val source, cache)
  else
    match cache.lookup source with
    | some v => (v, cache)
    | none => (val source, (source, val source) :: cache)

/-- every cached text is the token of its key -/
def CacheOk (val : Nat → String) (cache : List (Nat × String)) : Prop := ∀ kv, kv ∈ cache → kv.2 = val kv.1

/-- **the cache is an optimisation**: with a coherent cache `ValueBySource` answers the uncached token text and
leaves the cache coherent - for every counting state, i.e. whether or not limits are configured -/
theorem valueBySource_eq (count : Nat → Nat) (val : Nat → String) (cache : List (Nat × String)) (source : Nat)
    (h : CacheOk val cache) :
    (valueBySource count val cache source).1 = val source ∧ CacheOk val (valueBySource count val cache source).2 := by
  unfold valueBySource
  by_cases hc : count source < 2
  · simp [hc, h]
  · simp only [hc, if_false]
    cases hl : cache.lookup source with
    | none =>
      refine ⟨rfl, ?_⟩
      intro kv hkv
      rcases List.mem_cons.mp hkv with rfl | hkv
      · rfl
      · exact h kv hkv
    | some v =>
      refine ⟨?_, h⟩
      have hm : (source, v) ∈ cache := by
        clear h hc
        induction cache with
        | nil => simp at hl
        | cons x cache ih =>
          obtain ⟨k, w⟩ := x
          by_cases e : source = k
          · subst e; simp [List.lookup] at hl; simp [hl]
          · have hb : (source == k) = false := by simp [e]
            simp [List.lookup, hb] at hl
            exact List.mem_cons_of_mem _ (ih hl)
      exact h _ hm

end SV.Agg
