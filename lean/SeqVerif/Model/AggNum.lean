/-!
# C06: the numeric value of a field token (`parseNum` = `strconv.ParseFloat(str, 64)`, NaN / Inf / errors rejected)

`parseNumSpec` is the grammar of Go's `strconv.ParseFloat` written out (readFloat in strconv/atof.go) with the exact
rational value of the literal; `ParseFloat` returns the float64 nearest to that value (correct rounding is the
standard library's contract, trusted).  Underscores are skipped between digits and validated afterwards by
`underscoreOK` (strconv/atoi.go), as Go does - so `1_000` IS the number 1000 for `parseNum`.

A token is a number iff it is: optional sign, then either decimal digits with at most one `.` (at least one digit)
and an optional exponent `e|E [sign] digits`, or `0x|0X` hexadecimal digits with at most one `.` and a MANDATORY
exponent `p|P [sign] digits` - digits possibly separated by single underscores - and nothing else (no spaces, no `0b` / `0o` / octal reading of leading zeros, no
`inf` / `infinity` / `nan` in any spelling, since `parseNum` rejects them), with a value inside the float64 range.
-/
namespace SV.Agg

def digitVal (hex : Bool) (c : Char) : Option Nat :=
  if '0' ≤ c ∧ c ≤ '9' then some (c.toNat - '0'.toNat)
  else if hex ∧ 'a' ≤ c ∧ c ≤ 'f' then some (c.toNat - 'a'.toNat + 10)
  else if hex ∧ 'A' ≤ c ∧ c ≤ 'F' then some (c.toNat - 'A'.toNat + 10)
  else none

/-- longest prefix of digits and underscores: (value accumulated in the base, number of digits, rest);
underscores are skipped here and validated by `underscoreOK` -/
def readDigits (hex : Bool) : List Char → Nat → Nat → Nat × Nat × List Char
  | [], acc, n => (acc, n, [])
  | c :: cs, acc, n =>
    if c = '_' then readDigits hex cs acc n else
    match digitVal hex c with
    | some d => readDigits hex cs (acc * (if hex then 16 else 10) + d) (n + 1)
    | none => (acc, n, c :: cs)

def lowerC (c : Char) : Char := if 'A' ≤ c ∧ c ≤ 'Z' then Char.ofNat (c.toNat + 32) else c

/-- the scan of `underscoreOK`: `saw` = last class seen (`'0'` digit / base prefix, `'_'`, `'!'` other, `'^'` start) -/
def underscoreScan (hex : Bool) : List Char → Char → Bool
  | [], saw => saw ≠ '_'
  | c :: cs, saw =>
    if ('0' ≤ c ∧ c ≤ '9') ∨ (hex ∧ 'a' ≤ lowerC c ∧ lowerC c ≤ 'f') then underscoreScan hex cs '0'
    else if c = '_' then (if saw ≠ '0' then false else underscoreScan hex cs '_')
    else if saw = '_' then false
    else underscoreScan hex cs '!'

/-- `strconv.underscoreOK`: underscores only between digits, or between a base prefix and a digit -/
def underscoreOK (s : List Char) : Bool :=
  let s := match s with
    | '+' :: r => r
    | '-' :: r => r
    | r => r
  match s with
  | '0' :: p :: r =>
    if lowerC p = 'b' ∨ lowerC p = 'o' ∨ lowerC p = 'x' then underscoreScan (lowerC p = 'x') r '0'
    else underscoreScan false s '^'
  | _ => underscoreScan false s '^' 

def readSign : List Char → Bool × List Char
  | '+' :: cs => (false, cs)
  | '-' :: cs => (true, cs)
  | cs => (false, cs)

/-- largest magnitude that still rounds to a finite float64: below 2^1024 - 2^970 -/
def overflowBound : Nat :=
  179769313486231580793728971405303415079934132710037826936173778980444968292764750946649017977587207096330286416692887910946555547851940402630657488671505820681908902000708383676273854845817711531764475730270069855571366959622842914819860834936475292719074168444365510704342711559699508093042880177904174497792

/-- the value `num / den` of a token, `none` if `parseNum` returns an error -/
def parseNumSpec (s : List Char) : Option (Int × Nat) :=
  let (neg, s1) := readSign s
  let (hex, s2) := match s1 with
    | '0' :: 'x' :: r => (true, r)
    | '0' :: 'X' :: r => (true, r)
    | r => (false, r)
  let (m1, n1, s3) := readDigits hex s2 0 0
  let (m, n2, s4) := match s3 with
    | '.' :: r => readDigits hex r m1 0
    | r => (m1, 0, r)
  if n1 + n2 = 0 then none else
  let isExp := fun (c : Char) => if hex then c = 'p' ∨ c = 'P' else c = 'e' ∨ c = 'E'
  let expPart : Option (Int × List Char) := match s4 with
    | c :: r =>
      if isExp c then
        let (eneg, r1) := readSign r
        let (e, ne, r2) := readDigits false r1 0 0
        if ne = 0 then none else some (if eneg then -(e : Int) else (e : Int), r2)
      else if hex then none else some (0, c :: r)
    | [] => if hex then none else some (0, [])
  match expPart with
  | none => none
  | some (e, rest) =>
    if rest ≠ [] then none else
    if s.contains '_' ∧ ¬ underscoreOK s then none else
    let base : Nat := if hex then 2 else 10
    let scale : Int := e - (if hex then 4 * n2 else n2 : Nat)
    let (num, den) : Nat × Nat := if scale ≥ 0 then (m * base ^ scale.toNat, 1) else (m, base ^ (-scale).toNat)
    if num ≥ overflowBound * den then none
    else some (if neg then -(num : Int) else (num : Int), den)

/-- the integer value of a token, if it is a number with an integral value (what the exact-arithmetic model
of the aggregators takes as `fval`) -/
def tokenInt (s : String) : Option Int :=
  match parseNumSpec s.toList with
  | some (n, d) => if n % (d : Int) = 0 then some (n / (d : Int)) else none
  | none => none

end SV.Agg
