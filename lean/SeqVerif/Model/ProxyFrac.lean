/-!
# Model of `fracmanager/proxy_frac.go` as a transition system (C07)

One `proxyFrac` with the `frac.Active` it was created with and the `frac.Sealed` that `Seal` publishes.
Every label is one critical section of the code (the region between a `Lock`/`RLock` and its unlock, one
`WaitGroup` operation, or one call into the environment); `step` is enabled exactly when the code could
execute that section in the given state.  Any number of `Append` callers and data-provider holders
(counters), one `Seal` caller that gets past the state check (further callers take the stateless
`sealFail` step), one `Suicide` caller (`FracManager.shiftFirstFrac` removes the fraction from the list
before calling it).

```
Append      appendBegin   RLock; isActiveState; active := f.active; indexWg.Add(1); RUnlock
            appendFail    RLock; !isActiveState; RUnlock; return error
            appendWrite   active.Append: writer.Write ok; indexer.Index(...) queued
            appendWriteErr  active.Append: writer.Write failed -> return err  (nobody calls indexWg.Done)
            indexDone     appendWorker: index updated, UpdateStats, task.Wg.Done()
Seal        sealBegin     Lock; isActiveState; readonly = true; sealWg.Add(1); Unlock
            sealFail      Lock; suicided or not active; Unlock; return error
            sealIdle      WaitWriteIdle returned (indexWg == 0)
            sealBuilt     frac.Seal(active) returned the preloaded index (reads the whole active index)
            sealBuildErr  frac.Seal failed -> FracManager.seal -> logger.Fatal (process ends)
            sealPublish   Lock; f.sealed = sealed; f.active = nil; Unlock
            sealWgDone    sealWg.Done()
            sealRelease   active.Release(): active.useMu.Lock; released = true; Unlock   (needs no reader)
Suicide     suTry         trySetSuicided under Lock: not sealing -> take and clear both pointers
            suWoken       sealWg.Wait() returned (sealWg == 0)
            suRetry       second trySetSuicided
            suActive      active.Suicide(): useMu.Lock; suicided = released = true   (needs no reader)
            suSealed      sealed.Suicide(): useMu.Lock; suicided = true              (needs no reader)
readers     dpAcquire k   proxyFrac.DataProvider under RLock -> Active/Sealed.DataProvider under their RLock
            dpRelease k   release closure (RUnlock)
```
Ghost fields (`begun` .. `lostWrites`) do not influence enabledness; they only name what the theorems
talk about.
-/
namespace SV.ProxyFrac

inductive SealPc
  | idle | waitIdle | building | built | published | releasing | finished
deriving DecidableEq, Repr

inductive SuPc
  | idle | waiting | woken
  | got (a s : Bool)      -- pointers returned by trySetSuicided still to be suicided (active first)
deriving DecidableEq, Repr

/-- kind of data provider handed out -/
inductive Dp
  | active | sealed | empty
deriving DecidableEq, Repr

structure St where
  -- proxyFrac fields
  active : Bool := true          -- f.active != nil
  sealed : Bool := false         -- f.sealed != nil
  readonly : Bool := false
  indexWg : Nat := 0
  sealWg : Nat := 0
  -- frac.Active
  aReaders : Nat := 0            -- holders of Active.useMu.RLock (data providers)
  aReleased : Bool := false
  aSuicided : Bool := false
  -- frac.Sealed
  sReaders : Nat := 0
  sSuicided : Bool := false
  -- program counters
  sealPc : SealPc := .idle
  suPc : SuPc := .idle
  fatal : Bool := false          -- logger.Fatal was called: the process is gone
  -- ghost
  begun : Nat := 0               -- Append calls that passed the state check
  pendW : Nat := 0               -- ... whose active.Append has not run yet
  queued : Nat := 0              -- written, index task queued
  indexed : Nat := 0             -- index task finished
  failedW : Nat := 0             -- writer.Write returned an error
  sealedDocs : Nat := 0          -- bulks in the active index when frac.Seal read it
  lostWrites : Nat := 0          -- active.Append executed on an Active already released by Seal
  suicidedWrites : Nat := 0      -- active.Append executed on an Active deleted by Suicide
deriving DecidableEq, Repr

def init : St := {}

def St.isActive (s : St) : Bool := s.active && !s.sealed && !s.readonly
def St.isSealing (s : St) : Bool := s.active && !s.sealed && s.readonly
def St.isSuicided (s : St) : Bool := !s.active && !s.sealed

inductive Label
  | appendBegin | appendFail | appendWrite | appendWriteErr | indexDone
  | sealBegin | sealFail (suicided : Bool) | sealIdle | sealBuilt | sealBuildErr | sealPublish | sealWgDone | sealRelease
  | suTry (a s sealing : Bool) | suWoken | suRetry (a s sealing : Bool) | suActive | suSealed
  | dpAcquire (k : Dp) | dpRelease (k : Dp)
deriving DecidableEq, Repr

/-- `trySetSuicided`: returns the pointers, clears them unless sealing -/
def trySet (s : St) : St :=
  if s.isSealing then s else { s with active := false, sealed := false }

/-- `fx` = the code calls `indexWg.Done()` when `active.Append` returns an error (extracted fact
`SV.Extracted.C07.appendErrorPath`; false for the code as first read, true once repaired) -/
def step (fx : Bool) (s : St) : Label → Option St
  | .appendBegin =>
    if !s.fatal && s.isActive then
      some { s with indexWg := s.indexWg + 1, begun := s.begun + 1, pendW := s.pendW + 1 } else none
  | .appendFail => if !s.fatal && !s.isActive then some s else none
  | .appendWrite =>
    if !s.fatal && 0 < s.pendW then
      some { s with pendW := s.pendW - 1, queued := s.queued + 1,
                    lostWrites := if s.aReleased && !s.aSuicided then s.lostWrites + 1 else s.lostWrites,
                    suicidedWrites := if s.aSuicided then s.suicidedWrites + 1 else s.suicidedWrites }
    else none
  | .appendWriteErr =>
    if !s.fatal && 0 < s.pendW && (!fx || 0 < s.indexWg) then
      some { s with pendW := s.pendW - 1, failedW := s.failedW + 1, indexWg := if fx then s.indexWg - 1 else s.indexWg }
    else none
  | .indexDone =>
    if !s.fatal && 0 < s.queued && 0 < s.indexWg then
      some { s with queued := s.queued - 1, indexed := s.indexed + 1, indexWg := s.indexWg - 1 } else none
  | .sealBegin =>
    if !s.fatal && s.isActive && s.sealPc = .idle then
      some { s with readonly := true, sealWg := s.sealWg + 1, sealPc := .waitIdle } else none
  | .sealFail su => if !s.fatal && !s.isActive && su = s.isSuicided then some s else none
  | .sealIdle =>
    if !s.fatal && s.sealPc = .waitIdle && s.indexWg = 0 then some { s with sealPc := .building } else none
  | .sealBuilt =>
    if !s.fatal && s.sealPc = .building then some { s with sealPc := .built, sealedDocs := s.indexed } else none
  | .sealBuildErr => if !s.fatal && s.sealPc = .building then some { s with fatal := true } else none
  | .sealPublish =>
    if !s.fatal && s.sealPc = .built then some { s with sealed := true, active := false, sealPc := .published }
    else none
  | .sealWgDone =>
    if !s.fatal && s.sealPc = .published && 0 < s.sealWg then
      some { s with sealWg := s.sealWg - 1, sealPc := .releasing } else none
  | .sealRelease =>
    if !s.fatal && s.sealPc = .releasing && s.aReaders = 0 then
      some { s with aReleased := true, sealPc := .finished } else none
  | .suTry a sl sealing =>
    if !s.fatal && s.suPc = .idle && a = s.active && sl = s.sealed && sealing = s.isSealing then
      some (if s.isSealing then { s with suPc := .waiting } else { trySet s with suPc := .got a sl })
    else none
  | .suWoken => if !s.fatal && s.suPc = .waiting && s.sealWg = 0 then some { s with suPc := .woken } else none
  | .suRetry a sl sealing =>
    if !s.fatal && s.suPc = .woken && a = s.active && sl = s.sealed && sealing = s.isSealing then
      some { trySet s with suPc := .got a sl }
    else none
  | .suActive =>
    if !s.fatal && s.aReaders = 0 then
      match s.suPc with
      | .got true sl => some { s with aSuicided := true, aReleased := true, suPc := .got false sl }
      | _ => none
    else none
  | .suSealed =>
    if !s.fatal && s.sReaders = 0 then
      match s.suPc with
      | .got false true => some { s with sSuicided := true, suPc := .got false false }
      | _ => none
    else none
  | .dpAcquire .active =>
    if !s.fatal && s.active && !s.aReleased && !s.aSuicided then some { s with aReaders := s.aReaders + 1 } else none
  | .dpAcquire .sealed =>
    if !s.fatal && !s.active && s.sealed && !s.sSuicided then some { s with sReaders := s.sReaders + 1 } else none
  | .dpAcquire .empty =>
    -- Empty is what the code answers for: no pointer at all, a released/suicided object, or an active
    -- fraction whose Info().DocsTotal is still 0.  The last test reads a counter published by the
    -- index workers outside this state machine, so `empty` is modelled as always possible.
    if !s.fatal then some s else none
  | .dpRelease .active => if !s.fatal && 0 < s.aReaders then some { s with aReaders := s.aReaders - 1 } else none
  | .dpRelease .sealed => if !s.fatal && 0 < s.sReaders then some { s with sReaders := s.sReaders - 1 } else none
  | .dpRelease .empty => if !s.fatal then some s else none

/-- run a list of labels; `none` when some step is not enabled -/
def run (fx : Bool) : St → List Label → Option St
  | s, [] => some s
  | s, l :: ls => match step fx s l with
    | some s' => run fx s' ls
    | none => none

/-- index of the first label that is not enabled (for the driver) -/
def firstBad (fx : Bool) : St → List Label → Nat → Option Nat
  | _, [], _ => none
  | s, l :: ls, i => match step fx s l with
    | some s' => firstBad fx s' ls (i + 1)
    | none => some i

def Reachable (fx : Bool) (s : St) : Prop := ∃ tr, run fx init tr = some s

theorem run_append (fx : Bool) (s : St) (a b : List Label) :
    run fx s (a ++ b) = (run fx s a).bind (fun s' => run fx s' b) := by
  induction a generalizing s with
  | nil => simp [run]
  | cons l ls ih =>
    simp only [List.cons_append, run]
    cases step fx s l with
    | none => simp
    | some s' => simpa using ih s'

theorem reachable_step {fx : Bool} {s s' : St} {l : Label} (h : Reachable fx s) (hs : step fx s l = some s') :
    Reachable fx s' := by
  obtain ⟨tr, htr⟩ := h
  refine ⟨tr ++ [l], ?_⟩
  rw [run_append, htr]
  simp [run, hs]

/-- induction principle: a predicate that holds initially and is preserved by every step holds on every
reachable state -/
theorem reachable_induct (fx : Bool) (P : St → Prop) (h0 : P init)
    (hstep : ∀ s l s', P s → step fx s l = some s' → P s') : ∀ s, Reachable fx s → P s := by
  intro s ⟨tr, htr⟩
  have : ∀ (tr : List Label) (a b : St), P a → run fx a tr = some b → P b := by
    intro tr
    induction tr with
    | nil => intro a b ha h; simp [run] at h; exact h ▸ ha
    | cons l ls ih =>
      intro a b ha h
      simp only [run] at h
      cases hs : step fx a l with
      | none => simp [hs] at h
      | some a' => rw [hs] at h; exact ih a' b (hstep a l a' ha hs) h
  exact this tr init s h0 htr

end SV.ProxyFrac
