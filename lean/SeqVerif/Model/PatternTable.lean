import SeqVerif.Model.PatternNarrow
/-!
# SelectEntries keeps every block that can hold a match; the sealed path = scan of the whole dictionary (C13)

`blocks` = the token-table entries of one field: non-empty consecutive runs of the strictly sorted dictionary
`blocks.flatten`; `MinVal` = first token, `MaxVal i` = last token of run `i` (frac/disk_blocks.go,
frac/disk_blocks_writer.go).
-/
namespace SV.Pattern
open SV

structure BlocksOK (blocks : List (List Bytes)) : Prop where
  nonempty : blocks ≠ []
  runs : ∀ b ∈ blocks, b ≠ []
  sorted : blocks.flatten.Pairwise bLt

theorem le_last {b : List Bytes} (hp : b.Pairwise bLt) {t : Bytes} (ht : t ∈ b) : bLe t (b.getLast?.getD []) := by
  have hne : b ≠ [] := List.ne_nil_of_mem ht
  rw [List.getLast?_eq_some_getLast hne, Option.getD_some]
  rw [← List.dropLast_concat_getLast hne] at hp ht
  rw [List.pairwise_append] at hp
  rcases List.mem_append.mp ht with h | h
  · exact bLe_of_bLt (hp.2.2 t h _ (by simp))
  · simp at h; rw [h]; exact bLe_refl _

theorem head_le {b : List Bytes} (hp : b.Pairwise bLt) {t : Bytes} (ht : t ∈ b) : bLe (b.headD []) t := by
  cases b with
  | nil => simp at ht
  | cons a as =>
    simp only [List.headD_cons]
    rw [List.pairwise_cons] at hp
    rcases List.mem_cons.mp ht with h | h
    · rw [h]; exact bLe_refl _
    · exact bLe_of_bLt (hp.1 t h)

theorem cross_block {blocks : List (List Bytes)} (hs : blocks.flatten.Pairwise bLt) {i j : Nat} (hij : i < j)
    (hj : j < blocks.length) {a b : Bytes} (ha : a ∈ blocks[i]'(by omega)) (hb : b ∈ blocks[j]) : bLt a b := by
  have := (List.pairwise_flatten.mp hs).2
  exact List.pairwise_iff_getElem.mp this i j (by omega) hj hij a ha b hb

theorem within_block {blocks : List (List Bytes)} (hs : blocks.flatten.Pairwise bLt) {i : Nat}
    (hi : i < blocks.length) : (blocks[i]).Pairwise bLt :=
  (List.pairwise_flatten.mp hs).1 _ (List.getElem_mem hi)

theorem maxVals_getD (blocks : List (List Bytes)) (i : Nat) (hi : i < blocks.length) :
    (maxValsOf blocks).getD i [] = (blocks[i]).getLast?.getD [] := by
  simp [maxValsOf, List.getD_eq_getElem?_getD, hi]

theorem last_mem {b : List Bytes} (hne : b ≠ []) : b.getLast?.getD [] ∈ b := by
  rw [List.getLast?_eq_some_getLast hne, Option.getD_some]; exact List.getLast_mem hne

/-- the `MaxVal`s are non-decreasing -/
theorem maxVals_mono {blocks : List (List Bytes)} (ok : BlocksOK blocks) {a b : Nat} (hab : a ≤ b) (hb : b < blocks.length) :
    bLe ((maxValsOf blocks).getD a []) ((maxValsOf blocks).getD b []) := by
  rw [maxVals_getD blocks a (by omega), maxVals_getD blocks b hb]
  by_cases h : a = b
  · subst h; exact bLe_refl _
  · exact bLe_of_bLt (cross_block ok.sorted (by omega) hb
      (last_mem (ok.runs _ (List.getElem_mem _))) (last_mem (ok.runs _ (List.getElem_mem _))))

theorem minVal_le {blocks : List (List Bytes)} (ok : BlocksOK blocks) {i : Nat} (hi : i < blocks.length) {t : Bytes}
    (ht : t ∈ blocks[i]) : bLe (minValOf blocks) t := by
  have h0 : 0 < blocks.length := by omega
  have hhd : blocks.headD [] = blocks[0] := by
    cases blocks with
    | nil => simp at h0
    | cons b bs => simp
  unfold minValOf
  rw [hhd]
  by_cases h : i = 0
  · subst h; exact head_le (within_block ok.sorted h0) ht
  · have hne := ok.runs _ (List.getElem_mem h0)
    have hm : (blocks[0]).headD [] ∈ blocks[0] := by
      cases hb : blocks[0] with
      | nil => exact absurd hb hne
      | cons a as => simp
    exact bLe_of_bLt (cross_block ok.sorted (by omega) hi hm ht)

/-- **SelectEntries is sound**: a token having the hint as prefix lies in a selected block -/
theorem selectEntries_sound {blocks : List (List Bytes)} (ok : BlocksOK blocks) (hint : Bytes) :
    let lr := selectEntries hint (minValOf blocks) (maxValsOf blocks)
    lr.2 ≤ blocks.length ∧
    ∀ (i : Nat) (hi : i < blocks.length) (t : Bytes), t ∈ blocks[i] → cut t hint.length = hint → lr.1 ≤ i ∧ i < lr.2 := by
  have hn : 0 < blocks.length := List.length_pos_iff.mpr ok.nonempty
  have hlen : (maxValsOf blocks).length = blocks.length := by simp [maxValsOf]
  simp only [selectEntries]
  by_cases h0 : hint = []
  · simp only [h0, if_true, hlen]
    exact ⟨Nat.le_refl _, fun i hi _ _ _ => ⟨Nat.zero_le _, hi⟩⟩
  · simp only [h0, if_false]
    by_cases hmin : (bcmp hint (cut (minValOf blocks) hint.length) == .lt) = true
    · simp only [hmin, if_true]
      refine ⟨Nat.zero_le _, fun i hi t ht hc => ?_⟩
      exfalso
      have h1 := cut_mono hint.length (minVal_le ok hi ht)
      rw [hc] at h1
      rw [beq_iff_eq] at hmin
      exact bLt_irrefl _ (bLt_of_bLt_of_bLe hmin h1)
    · simp only [hmin]
      rw [hlen]
      let c : Nat → Bytes := fun i => cut ((maxValsOf blocks).getD i []) hint.length
      have hcm : ∀ a b, a ≤ b → b < blocks.length → bLe (c a) (c b) :=
        fun a b hab hb => cut_mono _ (maxVals_mono ok hab hb)
      let fr : Nat → Bool := fun i => bcmp hint (c i) == .lt
      have hmr : Mono fr 0 (blocks.length - 1) := by
        intro a b _ hab hb hfa
        simp only [fr, beq_iff_eq] at hfa ⊢
        exact bLt_of_bLt_of_bLe hfa (hcm a b hab (by omega))
      obtain ⟨hr0, hbr, har⟩ := searchGo_least fr (blocks.length - 1) hmr
      show 1 + searchGo fr 0 (blocks.length - 1) ≤ blocks.length ∧ _
      generalize searchGo fr 0 (blocks.length - 1) = r0 at *
      let fl : Nat → Bool := fun i => bcmp hint (c i) != .gt
      have hml : Mono fl 0 (1 + r0) := by
        intro a b _ hab hb hfa
        simp only [fl, bne_iff_ne, ne_eq] at hfa ⊢
        have h1 : bLe hint (c a) := hfa
        exact bLe_trans h1 (hcm a b hab (by omega))
      obtain ⟨hl0, hbl, hal⟩ := searchGo_least fl (1 + r0) hml
      refine ⟨by omega, fun i hi t ht hc => ?_⟩
      show searchGo fl 0 (1 + r0) ≤ i ∧ i < 1 + r0
      generalize searchGo fl 0 (1 + r0) = l at *
      have hwb := within_block ok.sorted hi
      have htmax : bLe hint (c i) := by
        have := cut_mono hint.length (le_last hwb ht)
        rw [hc, ← maxVals_getD blocks i hi] at this
        exact this
      constructor
      · -- l ≤ i
        by_cases hli : l ≤ i
        · exact hli
        · exfalso
          have := hbl i (by omega)
          simp only [fl, bne_eq_false_iff_eq] at this
          exact htmax this
      · -- i ≤ r0
        by_cases hir : i < 1 + r0
        · exact hir
        · exfalso
          have hr0lt : r0 < blocks.length - 1 := by omega
          have h1 := har r0 (Nat.le_refl _) hr0lt
          simp only [fr, beq_iff_eq] at h1
          -- max_{r0} < t, so cut(max_{r0}) ≤ cut t = hint
          have h2 : bLt ((maxValsOf blocks).getD r0 []) t := by
            rw [maxVals_getD blocks r0 (by omega)]
            exact cross_block ok.sorted (by omega) hi (last_mem (ok.runs _ (List.getElem_mem _))) ht
          have h3 := cut_mono hint.length (bLe_of_bLt h2)
          rw [hc] at h3
          exact bLt_irrefl _ (bLt_of_bLt_of_bLe h1 h3)

/-! ## scanning -/

/-- the unnarrowed loop of `Search` over a dictionary starting at TID `base` -/
def scanFrom (pf : Bytes → Option Int) (k : Kind) (base : Nat) (dict : List Bytes) : List Nat :=
  (List.range' base dict.length).filter fun tid => k.check pf (dict.getD (tid - base) [])

theorem scanFrom_append (pf : Bytes → Option Int) (k : Kind) (base : Nat) (x y : List Bytes) :
    scanFrom pf k base (x ++ y) = scanFrom pf k base x ++ scanFrom pf k (base + x.length) y := by
  simp only [scanFrom, List.length_append]
  rw [← List.range'_append_1, List.filter_append]
  congr 1
  · apply List.filter_congr
    intro t ht
    rw [List.mem_range'_1] at ht
    have : t - base < x.length := by omega
    simp [List.getD_eq_getElem?_getD, List.getElem?_append_left this]
  · apply List.filter_congr
    intro t ht
    rw [List.mem_range'_1] at ht
    have h1 : x.length ≤ t - base := by omega
    simp only [List.getD_eq_getElem?_getD, List.getElem?_append_right h1]
    congr 3; omega

theorem scanFrom_nil_of_false (pf : Bytes → Option Int) (k : Kind) (base : Nat) (x : List Bytes)
    (h : ∀ v ∈ x, k.check pf v = false) : scanFrom pf k base x = [] := by
  simp only [scanFrom, List.filter_eq_nil_iff, List.mem_range'_1]
  intro t ht
  have hlt : t - base < x.length := by omega
  rw [List.getD_eq_getElem?_getD, List.getElem?_eq_getElem hlt, Option.getD_some, h _ (List.getElem_mem hlt)]
  simp

/-- the searcher kind `newSearcher` builds for an unordered provider (it does not depend on the provider) -/
def kindOf (pf : Bytes → Option Int) (maxKey : Int) (token : Token) : Option Kind :=
  (newSearcher pf maxKey token ⟨0, [], false⟩).map (·.kind)

theorem search_unordered (pf : Bytes → Option Int) (maxKey : Int) (token : Token) (base : Nat) (dict : List Bytes) :
    search pf maxKey token ⟨base, dict, false⟩ = (kindOf pf maxKey token).map fun k => scanFrom pf k base dict := by
  have hrun : ∀ k : Kind, (⟨base, base + dict.length, k⟩ : Searcher).run pf ⟨base, dict, false⟩ = scanFrom pf k base dict := by
    intro k; simp [Searcher.run, scanFrom, Provider.getToken]
  cases token with
  | range r =>
    simp only [search, kindOf, newSearcher, Provider.firstTID, Provider.lastP1]
    cases newRangeNumberSearch pf maxKey r <;> simp [hrun]
  | literal terms =>
    simp only [search, kindOf]
    match terms with
    | [.text d] => simp [newSearcher, Provider.firstTID, Provider.lastP1, hrun]
    | [] => simp [newSearcher, newWildcardSearch]
    | [.star] =>
      simp only [newSearcher, Provider.firstTID, Provider.lastP1]
      cases newWildcardSearch [.star] <;> simp [hrun]
    | t0 :: t1 :: rest =>
      simp only [newSearcher, Provider.firstTID, Provider.lastP1]
      cases newWildcardSearch (t0 :: t1 :: rest) <;> simp [hrun]

/-- whatever the searcher accepts has the hint as prefix -/
theorem check_has_hint (pf : Bytes → Option Int) (maxKey : Int) (token : Token) (k : Kind) (hint : Bytes)
    (hk : kindOf pf maxKey token = some k) (hh : getHint token = some hint) (v : Bytes)
    (hv : k.check pf v = true) : cut v hint.length = hint := by
  cases token with
  | range r =>
    simp only [getHint, Option.some.injEq] at hh
    subst hh; simp [cut]
  | literal terms =>
    match terms with
    | [] => simp [getHint] at hh
    | [.text d] =>
      simp only [getHint, Option.some.injEq] at hh
      simp only [kindOf, newSearcher, Bool.false_eq_true, if_false, Option.map_some, Option.some.injEq] at hk
      subst hh hk
      simp only [Kind.check, Lit.check, Bool.false_eq_true, if_false, beq_iff_eq] at hv
      subst hv; simp [cut]
    | [.star] =>
      simp only [getHint, Option.some.injEq] at hh
      subst hh; simp [cut]
    | t0 :: t1 :: rest =>
      simp only [kindOf, newSearcher] at hk
      cases hw : newWildcardSearch (t0 :: t1 :: rest) with
      | none => simp [hw] at hk
      | some s =>
        simp only [hw, Bool.false_eq_true, if_false, Option.map_some, Option.some.injEq] at hk
        subst hk
        have hpre : s.pre = hint ∧ s.narrowed = false := by
          simp only [newWildcardSearch] at hw
          split at hw
          · simp at hw
          · simp only [Option.some.injEq] at hw
            rw [← hw]
            cases t0 with
            | star => simp only [getHint, Option.some.injEq] at hh; simp [Term.isText, hh]
            | text d => simp only [getHint, Option.some.injEq] at hh; simp [Term.isText, Term.data, hh]
        simp only [Kind.check, Wild.check, Bool.and_eq_true] at hv
        have hs_eq : s = { s with narrowed := false } := by
          cases s; simp at hpre; simp [hpre.2]
        have := hv.1.1
        rw [hs_eq] at this
        have := (checkPrefix_unnarrowed s v).mp this
        rw [hpre.1] at this
        exact this

/-! ## the sealed path -/

theorem take_drop_split {α} (xs : List α) (l r : Nat) (hlr : l ≤ r) :
    xs = xs.take l ++ ((xs.take r).drop l ++ xs.drop r) := by
  conv => lhs; rw [← List.take_append_drop r xs]
  rw [← List.append_assoc]
  congr 1
  conv => lhs; rw [← List.take_append_drop l (xs.take r)]
  rw [List.take_take, Nat.min_eq_left hlr]

theorem sealed_eq_scan (pf : Bytes → Option Int) (maxKey : Int) (token : Token) (base : Nat)
    (blocks : List (List Bytes)) (ok : BlocksOK blocks) (res : List Nat)
    (hres : search pf maxKey token ⟨base, blocks.flatten, false⟩ = some res) :
    sealedSearch pf maxKey token base blocks = some res := by
  rw [search_unordered] at hres
  cases hk : kindOf pf maxKey token with
  | none => simp [hk] at hres
  | some k =>
    simp only [hk, Option.map_some, Option.some.injEq] at hres
    cases hh : getHint token with
    | none =>
      exfalso
      cases token with
      | range r => simp [getHint] at hh
      | literal terms =>
        match terms with
        | [] => simp [kindOf, newSearcher, newWildcardSearch] at hk
        | .text d :: _ => simp [getHint] at hh
        | .star :: _ => simp [getHint] at hh
    | some hint =>
      simp only [sealedSearch, hh]
      have hsound := selectEntries_sound ok hint
      change (selectEntries hint (minValOf blocks) (maxValsOf blocks)).2 ≤ blocks.length ∧ _ at hsound
      generalize selectEntries hint (minValOf blocks) (maxValsOf blocks) = lr at *
      obtain ⟨l, r⟩ := lr
      obtain ⟨hrn, hsel⟩ := hsound
      simp only at hrn hsel ⊢
      -- tokens outside the selected blocks never match
      have hprefix := check_has_hint pf maxKey token k hint hk hh
      have hout : ∀ (i : Nat) (hi : i < blocks.length), (i < l ∨ r ≤ i) → ∀ t ∈ blocks[i], k.check pf t = false := by
        intro i hi hio t ht
        cases hc : k.check pf t with
        | false => rfl
        | true =>
          have := hsel i hi t ht (hprefix t hc)
          omega
      have houtL : ∀ j, ∀ v ∈ (blocks.take j).flatten, j ≤ l → k.check pf v = false := by
        intro j v hv hjl
        obtain ⟨b, hb, hvb⟩ := List.mem_flatten.mp hv
        obtain ⟨i, hi, rfl⟩ := List.mem_take_iff_getElem.mp hb
        exact hout i (by omega) (Or.inl (by omega)) v hvb
      have houtR : ∀ v ∈ (blocks.drop r).flatten, k.check pf v = false := by
        intro v hv
        obtain ⟨b, hb, hvb⟩ := List.mem_flatten.mp hv
        obtain ⟨i, hi, rfl⟩ := List.mem_drop_iff_getElem.mp hb
        exact hout (r + i) (by omega) (Or.inr (by omega)) v hvb
      by_cases hlr : l ≤ r
      · -- dictionary = before ++ selected ++ after
        have hsplit := take_drop_split blocks l r hlr
        have hflat : blocks.flatten = (blocks.take l).flatten ++ (((blocks.take r).drop l).flatten ++ (blocks.drop r).flatten) := by
          conv => lhs; rw [hsplit]
          simp [List.flatten_append]
        have hscan : res = scanFrom pf k (base + (blocks.take l).flatten.length) ((blocks.take r).drop l).flatten := by
          rw [← hres, hflat, scanFrom_append, scanFrom_append,
            scanFrom_nil_of_false pf k base _ (fun v hv => houtL l v hv (Nat.le_refl _)),
            scanFrom_nil_of_false pf k _ _ houtR]
          simp
        have hsorted : ((blocks.take r).drop l).flatten.Pairwise bLt := by
          have := ok.sorted
          rw [hflat, List.pairwise_append] at this
          exact (List.pairwise_append.mp this.2.1).1
        by_cases hempty : ((blocks.take r).drop l).length = 0
        · simp only [hempty, if_true]
          have : (blocks.take r).drop l = [] := List.eq_nil_of_length_eq_zero hempty
          rw [hscan, this]; simp [scanFrom]
        · simp only [hempty, if_false]
          rw [narrow_eq_scan pf maxKey token _ _ hsorted, search_unordered, hk]
          simp only [Option.map_some, Option.some.injEq]
          rw [hscan, List.length_flatten]
      · -- empty selection
        have hempty : ((blocks.take r).drop l).length = 0 := by simp; omega
        simp only [hempty, if_true, Option.some.injEq]
        rw [← hres]
        symm
        apply scanFrom_nil_of_false
        intro v hv
        obtain ⟨b, hb, hvb⟩ := List.mem_flatten.mp hv
        obtain ⟨i, hi, rfl⟩ := List.mem_iff_getElem.mp hb
        exact hout i hi (by omega) v hvb

/-- a sequence of calls on one sealed index: every answer is the scan of that call's own field with that call's own
token - earlier calls (other hints, other fields) have no influence -/
theorem sealedSearchSeq_stateless (pf : Bytes → Option Int) (maxKey : Int) (fields : List (Nat × List (List Bytes)))
    (hok : ∀ fb ∈ fields, BlocksOK fb.2) (calls : List (Nat × Token))
    (hc : ∀ c ∈ calls, c.1 < fields.length ∧
      (search pf maxKey c.2 ⟨(fields.getD c.1 (0, [])).1, (fields.getD c.1 (0, [])).2.flatten, false⟩).isSome = true) :
    sealedSearchSeq pf maxKey fields calls =
      calls.map fun c => search pf maxKey c.2 ⟨(fields.getD c.1 (0, [])).1, (fields.getD c.1 (0, [])).2.flatten, false⟩ := by
  simp only [sealedSearchSeq]
  apply List.map_congr_left
  intro c hcm
  obtain ⟨hlt, hsome⟩ := hc c hcm
  have hmem : fields.getD c.1 (0, []) ∈ fields := by
    rw [List.getD_eq_getElem?_getD, List.getElem?_eq_getElem hlt, Option.getD_some]; exact List.getElem_mem hlt
  obtain ⟨res, hres⟩ := Option.isSome_iff_exists.mp hsome
  rw [hres]
  exact sealed_eq_scan pf maxKey c.2 _ _ (hok _ hmem) res hres

end SV.Pattern
