import SeqVerif.Model.AggRun3
set_option linter.unusedSimpArgs false
set_option linter.unusedVariables false
/-!
Helper lemmas for C06, part 6: SingleSourceCountAggregator and SingleSourceUniqueAggregator.
-/
namespace SV.Agg

def countK (evs : List Ev) : List (Nat × Nat) := evs.filterMap fun ev => ev.g.map fun s => (ev.bin, s)

theorem countStep_fold (evs : List Ev) (st : CountSt) :
    evs.foldl countStep st =
      ⟨countMap st.counts (countK evs), st.notExists + (evs.filter fun ev => ev.g.isNone).length⟩ := by
  unfold countK
  induction evs generalizing st with
  | nil => simp [countMap]
  | cons ev evs ih =>
    simp only [List.foldl_cons]
    rw [ih]
    cases hg : ev.g <;>
      simp [countStep, hg, countMap, List.filter_cons, List.filterMap_cons, Nat.add_assoc, Nat.add_comm 1]

theorem countK_filter (m s : Nat) (evs : List Ev) :
    ((countK evs).filter fun k => k = (m, s)).length = (evs.filter fun ev => ev.bin = m ∧ ev.g = some s).length := by
  unfold countK
  induction evs with
  | nil => rfl
  | cons ev evs ih =>
    cases hg : ev.g with
    | none => simpa [List.filterMap_cons, hg, List.filter_cons] using ih
    | some s' =>
      by_cases h1 : ev.bin = m <;> by_cases h2 : s' = s <;>
        simp [List.filterMap_cons, hg, List.filter_cons, h1, h2] at ih ⊢ <;> exact ih

/-- **SingleSourceCountAggregator**: the bin `(m, gval s)` holds the number of matching documents of time bin `m`
whose group token is `gval s` (and is absent when there is none); documents without the group are counted in
`NotExists` and - legacy format - in a bin `_not_exists` without time.  (Bins that collide with the legacy bin
are excluded: recorded assumption.) -/
theorem countRun_spec (gval : Nat → String) (evs : List Ev) (hinj : ∀ a b, gval a = gval b → a = b) :
    (countRun gval evs).notExists = (evs.filter fun ev => ev.g.isNone).length ∧
    ((countRun gval evs).notExists > 0 →
      (countRun gval evs).get legacyNotExists = some ⟨0, 0, 0, (countRun gval evs).notExists, 0, []⟩) ∧
    ∀ m s, (⟨m, gval s⟩ : Bin) ≠ legacyNotExists ∨ (evs.filter fun ev => ev.g.isNone).length = 0 →
      let n := (evs.filter fun ev => ev.bin = m ∧ ev.g = some s).length
      (n = 0 → (countRun gval evs).get ⟨m, gval s⟩ = none) ∧
      (n ≠ 0 → ∃ c, (countRun gval evs).get ⟨m, gval s⟩ = some c ∧ c.total = n) := by
  have P := countMap_props ([] : List ((Nat × Nat) × Nat)) (countK evs) (by simp [KeysNodup]) (by intro kc h; simp at h)
  have hrun : countRun gval evs = countAggregate gval ⟨countMap [] (countK evs), (evs.filter fun ev => ev.g.isNone).length⟩ := by
    unfold countRun; rw [countStep_fold]; simp [CountSt.init]
  rw [hrun]
  refine ⟨rfl, ?_, ?_⟩
  · intro h
    simp only [countAggregate] at h ⊢
    simp only [AS.get, h, if_true]
    rw [lookup_put]; simp
  · intro m s hcoll n
    -- the bins before the legacy entry
    have hl := lookup_foldl_upsert (fun kc : (Nat × Nat) × Nat => (⟨kc.1.1, gval kc.1.2⟩ : Bin))
      (fun kc c => { c with total := kc.2 }) (countMap [] (countK evs)) [] ⟨m, gval s⟩
    have hf : (countMap [] (countK evs)).filter (fun kc => (⟨kc.1.1, gval kc.1.2⟩ : Bin) = ⟨m, gval s⟩) =
        (countMap [] (countK evs)).filter (fun kc => kc.1 = (m, s)) := by
      apply List.filter_congr
      intro kc _
      simp only [Bin.mk.injEq, decide_eq_decide]
      constructor
      · intro e; exact Prod.ext e.1 (hinj _ _ e.2)
      · intro e; rw [e]; exact ⟨rfl, rfl⟩
    rw [hf] at hl
    have hn : n = (expand ((countMap [] (countK evs)).filter fun kc => kc.1 = (m, s))).length := by
      show (evs.filter fun ev => ev.bin = m ∧ ev.g = some s).length = _
      rw [← countK_filter, expand_filter (fun k => decide (k = (m, s)))]
      apply List.Perm.length_eq
      apply List.Perm.filter
      simpa [expand] using P.2.2.symm
    have hget : ∀ bins : Bins, (countAggregate gval ⟨countMap [] (countK evs), (evs.filter fun ev => ev.g.isNone).length⟩).get ⟨m, gval s⟩ =
        ((countMap [] (countK evs)).foldl
          (fun bs kc => upsert ⟨kc.1.1, gval kc.1.2⟩ (fun c => { c with total := kc.2 }) bs) []).lookup ⟨m, gval s⟩ := by
      intro _
      simp only [countAggregate, AS.get]
      split
      · rename_i hpos
        rw [lookup_put]
        rcases hcoll with h | h
        · simp [h]
        · omega
      · rfl
    rw [hget []]
    rcases filter_key_le_one (countMap [] (countK evs)) P.1 (m, s) with h0 | ⟨c, h1⟩
    · rw [h0] at hl hn
      have : n = 0 := by simpa [expand] using hn
      exact ⟨fun _ => by simpa using hl, fun h => absurd this h⟩
    · rw [h1] at hl hn
      have hc : n = c := by simpa [expand] using hn
      have hpos : 0 < c := P.2.1 ((m, s), c) (by
        have : ((m, s), c) ∈ (countMap [] (countK evs)).filter (fun kc => kc.1 = (m, s)) := by rw [h1]; simp
        exact (List.mem_filter.mp this).1)
      refine ⟨fun h => by omega, fun _ => ⟨_, by simpa using hl, by simp [hc]⟩⟩

/-! ## SingleSourceUniqueAggregator -/

theorem uniqStep_fold (evs : List Ev) (st : UniqSt) :
    (evs.foldl uniqStep st).notExists = st.notExists + (evs.filter fun ev => ev.g.isNone).length ∧
    ∀ s, s ∈ (evs.foldl uniqStep st).values ↔ s ∈ st.values ∨ ∃ ev, ev ∈ evs ∧ ev.g = some s := by
  induction evs generalizing st with
  | nil => simp
  | cons ev evs ih =>
    simp only [List.foldl_cons]
    have := ih (uniqStep st ev)
    cases hg : ev.g with
    | none =>
      have e : uniqStep st ev = { st with notExists := st.notExists + 1 } := by simp [uniqStep, hg]
      rw [e] at this ⊢
      refine ⟨by rw [this.1]; simp [List.filter_cons, hg]; omega, fun s => ?_⟩
      rw [this.2]
      simp only [List.mem_cons]
      constructor
      · rintro (h | ⟨e', h1, h2⟩)
        · exact Or.inl h
        · exact Or.inr ⟨e', Or.inr h1, h2⟩
      · rintro (h | ⟨e', h1 | h1, h2⟩)
        · exact Or.inl h
        · subst h1; rw [hg] at h2; cases h2
        · exact Or.inr ⟨e', h1, h2⟩
    | some s' =>
      by_cases hm : s' ∈ st.values
      · have e : uniqStep st ev = st := by simp [uniqStep, hg, hm]
        rw [e] at this ⊢
        refine ⟨by rw [this.1]; simp [List.filter_cons, hg], fun s => ?_⟩
        rw [this.2]
        simp only [List.mem_cons]
        constructor
        · rintro (h | ⟨e', h1, h2⟩)
          · exact Or.inl h
          · exact Or.inr ⟨e', Or.inr h1, h2⟩
        · rintro (h | ⟨e', h1 | h1, h2⟩)
          · exact Or.inl h
          · subst h1; rw [hg] at h2; cases h2; exact Or.inl hm
          · exact Or.inr ⟨e', h1, h2⟩
      · have e : uniqStep st ev = { st with values := st.values ++ [s'] } := by simp [uniqStep, hg, hm]
        rw [e] at this ⊢
        refine ⟨by rw [this.1]; simp [List.filter_cons, hg], fun s => ?_⟩
        rw [this.2]
        simp only [List.mem_cons, List.mem_append, List.mem_singleton, List.not_mem_nil, or_false]
        constructor
        · rintro ((h | h) | ⟨e', h1, h2⟩)
          · exact Or.inl h
          · exact Or.inr ⟨ev, Or.inl rfl, by rw [hg, h]⟩
          · exact Or.inr ⟨e', Or.inr h1, h2⟩
        · rintro (h | ⟨e', h1 | h1, h2⟩)
          · exact Or.inl (Or.inl h)
          · subst h1; rw [hg] at h2; cases h2; exact Or.inl (Or.inr rfl)
          · exact Or.inr ⟨e', h1, h2⟩

/-- **SingleSourceUniqueAggregator**: a bin `(0, gval s)` exists exactly for the group tokens that occur in a
matching document; documents without the group are counted in `NotExists` -/
theorem uniqRun_spec (gval : Nat → String) (evs : List Ev) (hinj : ∀ a b, gval a = gval b → a = b) :
    (uniqRun gval evs).notExists = (evs.filter fun ev => ev.g.isNone).length ∧
    ∀ s, ((uniqRun gval evs).get ⟨0, gval s⟩).isSome = true ↔ ∃ ev, ev ∈ evs ∧ ev.g = some s := by
  have hf := uniqStep_fold evs ⟨[], 0⟩
  unfold uniqRun uniqAggregate
  refine ⟨by simpa using hf.1, fun s => ?_⟩
  simp only [AS.get]
  rw [lookup_foldl_upsert (fun s' : Nat => (⟨0, gval s'⟩ : Bin)) (fun _ c => id c)]
  have hfl : (evs.foldl uniqStep ⟨[], 0⟩).values.filter (fun s' => (⟨0, gval s'⟩ : Bin) = ⟨0, gval s⟩) = [] ↔
      s ∉ (evs.foldl uniqStep ⟨[], 0⟩).values := by
    rw [List.filter_eq_nil_iff]
    constructor
    · intro h hm; exact h s hm (by simp)
    · intro h a ha
      simp only [Bin.mk.injEq, true_and, decide_eq_true_eq]
      intro e; exact h (by rw [← hinj _ _ e]; exact ha)
  rw [← (by simpa using hf.2 s : s ∈ (evs.foldl uniqStep ⟨[], 0⟩).values ↔ ∃ ev, ev ∈ evs ∧ ev.g = some s)]
  by_cases hm : s ∈ (evs.foldl uniqStep ⟨[], 0⟩).values
  · have : ¬ ((evs.foldl uniqStep ⟨[], 0⟩).values.filter (fun s' => (⟨0, gval s'⟩ : Bin) = ⟨0, gval s⟩) = []) :=
      fun h => (hfl.mp h) hm
    simp only [this, if_false, Option.isSome_some, true_iff]; exact hm
  · have := hfl.mpr hm
    simp only [this, if_true, List.lookup_nil, Option.isSome_none, Bool.false_eq_true, false_iff]; exact hm

end SV.Agg
