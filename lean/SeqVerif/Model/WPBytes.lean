/-!
# C01 - byte level of the write path: little-endian fields, the 33-byte DocBlock header, `WriteAt`

Follows `disk/doc_block.go` (header `C : LLLLLLLL : UUUUUUUU : EEEEEEEE : EEEEEEEE`, offsets 0/1/9/17/25,
`DocBlockHeaderLen = 33`, `binary.LittleEndian.(Put)Uint64`) and `os.File.WriteAt`.
Bytes are `Nat`s (the encoders only produce values `< 256`).  Core-only.
-/
namespace SV.WPath

abbrev Bytes := List Nat

/-- `binary.LittleEndian.PutUint64` generalised to `k` bytes -/
def leN : Nat → Nat → Bytes
  | 0, _ => []
  | k + 1, n => n % 256 :: leN k (n / 256)

/-- `binary.LittleEndian.Uint64` generalised to `k` bytes (missing bytes read as 0; callers check lengths) -/
def rdLE : Nat → Bytes → Nat
  | 0, _ => 0
  | _ + 1, [] => 0
  | k + 1, b :: bs => b + 256 * rdLE k bs

@[simp] theorem leN_length (k n : Nat) : (leN k n).length = k := by
  induction k generalizing n with
  | zero => rfl
  | succ k ih => simp [leN, ih]

theorem rdLE_leN (k n : Nat) (rest : Bytes) : rdLE k (leN k n ++ rest) = n % 256 ^ k := by
  induction k generalizing n with
  | zero => simp [rdLE, Nat.mod_one]
  | succ k ih =>
    simp only [leN, List.cons_append, rdLE, ih]
    rw [Nat.pow_succ, Nat.mul_comm (256 ^ k) 256, Nat.mod_mul]

theorem drop_len_append {α} (a b : List α) (n : Nat) (h : a.length = n) : (a ++ b).drop n = b := by
  subst h; simp

theorem take_len_append {α} (a b : List α) (n : Nat) (h : a.length = n) : (a ++ b).take n = a := by
  subst h; simp

/-! ## header -/

def headerLen : Nat := 33
def offLen : Nat := 1
def offRaw : Nat := 9
def offExt1 : Nat := 17
def offExt2 : Nat := 25
def two64 : Nat := 18446744073709551616

/-- the five header fields in file order -/
def hdr (codec len raw e1 e2 : Nat) : Bytes :=
  [codec] ++ (leN 8 len ++ (leN 8 raw ++ (leN 8 e1 ++ leN 8 e2)))

theorem hdr_length (c l r e1 e2 : Nat) : (hdr c l r e1 e2).length = 33 := by simp [hdr]

def getCodec (b : Bytes) : Nat := b.headD 0
def getLen (b : Bytes) : Nat := rdLE 8 (b.drop offLen)
def getRaw (b : Bytes) : Nat := rdLE 8 (b.drop offRaw)
def getExt1 (b : Bytes) : Nat := rdLE 8 (b.drop offExt1)
def getExt2 (b : Bytes) : Nat := rdLE 8 (b.drop offExt2)

/-- `DocBlock.SetExt1`: overwrite bytes 17..24 (callers guarantee `33 ≤ b.length`) -/
def setExt1 (b : Bytes) (v : Nat) : Bytes := b.take offExt1 ++ leN 8 v ++ b.drop (offExt1 + 8)
/-- `DocBlock.SetExt2`: overwrite bytes 25..32 -/
def setExt2 (b : Bytes) (v : Nat) : Bytes := b.take offExt2 ++ leN 8 v ++ b.drop (offExt2 + 8)

theorem two64_eq : two64 = 256 ^ 8 := by decide

theorem getLen_hdr (c l r e1 e2 : Nat) (rest : Bytes) : getLen (hdr c l r e1 e2 ++ rest) = l % two64 := by
  have h : (hdr c l r e1 e2 ++ rest).drop offLen = leN 8 l ++ (leN 8 r ++ (leN 8 e1 ++ (leN 8 e2 ++ rest))) := by
    have : hdr c l r e1 e2 ++ rest = [c] ++ (leN 8 l ++ (leN 8 r ++ (leN 8 e1 ++ (leN 8 e2 ++ rest)))) := by
      simp [hdr]
    rw [this]
    exact drop_len_append _ _ _ (by simp [offLen])
  rw [getLen, h, rdLE_leN, two64_eq]

theorem getExt1_hdr (c l r e1 e2 : Nat) (rest : Bytes) : getExt1 (hdr c l r e1 e2 ++ rest) = e1 % two64 := by
  have h : (hdr c l r e1 e2 ++ rest).drop offExt1 = leN 8 e1 ++ (leN 8 e2 ++ rest) := by
    have : hdr c l r e1 e2 ++ rest = ([c] ++ leN 8 l ++ leN 8 r) ++ (leN 8 e1 ++ (leN 8 e2 ++ rest)) := by
      simp [hdr]
    rw [this]
    exact drop_len_append _ _ _ (by simp [offExt1])
  rw [getExt1, h, rdLE_leN, two64_eq]

theorem getExt2_hdr (c l r e1 e2 : Nat) (rest : Bytes) : getExt2 (hdr c l r e1 e2 ++ rest) = e2 % two64 := by
  have h : (hdr c l r e1 e2 ++ rest).drop offExt2 = leN 8 e2 ++ rest := by
    have : hdr c l r e1 e2 ++ rest = ([c] ++ leN 8 l ++ leN 8 r ++ leN 8 e1) ++ (leN 8 e2 ++ rest) := by
      simp [hdr]
    rw [this]
    exact drop_len_append _ _ _ (by simp [offExt2])
  rw [getExt2, h, rdLE_leN, two64_eq]

theorem setExt1_hdr (c l r e1 e2 v : Nat) (rest : Bytes) :
    setExt1 (hdr c l r e1 e2 ++ rest) v = hdr c l r v e2 ++ rest := by
  have e : hdr c l r e1 e2 ++ rest = ([c] ++ leN 8 l ++ leN 8 r) ++ (leN 8 e1 ++ (leN 8 e2 ++ rest)) := by
    simp [hdr]
  have ht : (hdr c l r e1 e2 ++ rest).take offExt1 = [c] ++ leN 8 l ++ leN 8 r := by
    rw [e]; exact take_len_append _ _ _ (by simp [offExt1])
  have hd : (hdr c l r e1 e2 ++ rest).drop (offExt1 + 8) = leN 8 e2 ++ rest := by
    have e' : hdr c l r e1 e2 ++ rest = ([c] ++ leN 8 l ++ leN 8 r ++ leN 8 e1) ++ (leN 8 e2 ++ rest) := by
      simp [hdr]
    rw [e']; exact drop_len_append _ _ _ (by simp [offExt1])
  rw [setExt1, ht, hd]
  simp [hdr]

theorem setExt2_hdr (c l r e1 e2 v : Nat) (rest : Bytes) :
    setExt2 (hdr c l r e1 e2 ++ rest) v = hdr c l r e1 v ++ rest := by
  have e : hdr c l r e1 e2 ++ rest = ([c] ++ leN 8 l ++ leN 8 r ++ leN 8 e1) ++ (leN 8 e2 ++ rest) := by
    simp [hdr]
  have ht : (hdr c l r e1 e2 ++ rest).take offExt2 = [c] ++ leN 8 l ++ leN 8 r ++ leN 8 e1 := by
    rw [e]; exact take_len_append _ _ _ (by simp [offExt2])
  have hd : (hdr c l r e1 e2 ++ rest).drop (offExt2 + 8) = rest := by
    have e' : hdr c l r e1 e2 ++ rest = ([c] ++ leN 8 l ++ leN 8 r ++ leN 8 e1 ++ leN 8 e2) ++ rest := by
      simp [hdr]
    rw [e']; exact drop_len_append _ _ _ (by simp [offExt2])
  rw [setExt2, ht, hd]
  simp [hdr]

/-! ## blocks -/

/-- a DocBlock: header fields + (compressed, opaque) payload; `Len` is always the payload length
(`CompressDocBlock` / `PackDocBlock` call `CalcLen`) -/
structure Blk where
  codec : Nat
  rawLen : Nat
  ext1 : Nat
  ext2 : Nat
  payload : Bytes
deriving Repr, DecidableEq

def enc (b : Blk) : Bytes := hdr b.codec b.payload.length b.rawLen b.ext1 b.ext2 ++ b.payload

theorem enc_length (b : Blk) : (enc b).length = 33 + b.payload.length := by
  simp [enc, hdr_length]

/-- `make([]byte, n)` panics (len out of range) above this size on 64-bit platforms -/
def maxAlloc : Nat := 281474976710656

/-- a block as the ingestion path produces it: fields fit their 8 bytes, the whole block is allocatable -/
structure Blk.WF (b : Blk) : Prop where
  size : 33 + b.payload.length ≤ maxAlloc
  ext1 : b.ext1 < two64
  ext2 : b.ext2 < two64

theorem getLen_enc (b : Blk) (h : 33 + b.payload.length ≤ maxAlloc) (rest : Bytes) :
    getLen (enc b ++ rest) = b.payload.length := by
  rw [enc, List.append_assoc, getLen_hdr]
  apply Nat.mod_eq_of_lt
  have : maxAlloc < two64 := by decide
  omega

theorem getExt1_enc (b : Blk) (h : b.ext1 < two64) (rest : Bytes) : getExt1 (enc b ++ rest) = b.ext1 := by
  rw [enc, List.append_assoc, getExt1_hdr]
  exact Nat.mod_eq_of_lt h

theorem getExt2_enc (b : Blk) (h : b.ext2 < two64) (rest : Bytes) : getExt2 (enc b ++ rest) = b.ext2 := by
  rw [enc, List.append_assoc, getExt2_hdr]
  exact Nat.mod_eq_of_lt h

theorem setExt1_enc (b : Blk) (v : Nat) : setExt1 (enc b) v = enc { b with ext1 := v } := by
  simp only [enc]; rw [setExt1_hdr]

theorem setExt2_enc (b : Blk) (v : Nat) : setExt2 (enc b) v = enc { b with ext2 := v } := by
  simp only [enc]; rw [setExt2_hdr]

/-! ## files -/

/-- `os.File.WriteAt`: overwrite/extend at `off`; a gap beyond the end reads as zeros -/
def writeAt (f : Bytes) (off : Nat) (data : Bytes) : Bytes :=
  f.take off ++ List.replicate (off - f.length) 0 ++ data ++ f.drop (off + data.length)

theorem writeAt_end (f data : Bytes) : writeAt f f.length data = f ++ data := by
  simp [writeAt]

end SV.WPath
