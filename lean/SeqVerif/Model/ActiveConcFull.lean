import SeqVerif.Model.ActiveConcStep
/-!
Second invariant layer of the active-index system, for the repaired code (`_all_` queued last AND `TokenList.Append`
one critical section): every LID visible in `_all_` is already in the list of every token of its document and all
those tokens are registered; hence a reader's leaf lists are EXACT on its mapping snapshot and the evaluation of any
query (negations included) equals `sat` on the documents of the snapshot.
-/
namespace SV.ActiveConc

def Full (c : Cfg) : Prop := c.allLast = true ∧ c.tlLock = true

def afterToks (pc : WPc) : Prop := pc = .queue ∨ pc = .stats ∨ pc = .done

/-! ### small list facts -/

theorem mem_dedup (xs : List Nat) (x : Nat) : x ∈ dedup xs ↔ x ∈ xs := by
  induction xs with
  | nil => simp [dedup]
  | cons y ys ih =>
    simp only [dedup, List.mem_cons, List.mem_filter, bne_iff_ne, ne_eq]
    constructor
    · rintro (h | ⟨h, _⟩)
      · exact Or.inl h
      · exact Or.inr (ih.mp h)
    · rintro (h | h)
      · exact Or.inl h
      · by_cases e : x = y
        · exact Or.inl e
        · exact Or.inr ⟨ih.mpr h, e⟩

theorem mem_bulkToks (bulk : List Doc) (d : Doc) (t : Nat) (hd : d ∈ bulk) (ht : t ∈ d.toks) : t ∈ bulkToks bulk := by
  simp only [bulkToks, mem_dedup, List.mem_flatMap]
  exact ⟨d, hd, ht⟩

theorem lidsWith_complete (t : Nat) (ds : List Doc) (base k : Nat) (d : Doc) (hk : ds[k]? = some d) (ht : t ∈ d.toks) :
    base + k ∈ lidsWith t ds base := by
  induction ds generalizing base k with
  | nil => simp at hk
  | cons x xs ih =>
    cases k with
    | zero =>
      simp only [List.getElem?_cons_zero, Option.some.injEq] at hk
      subst hk
      simp [lidsWith, ht]
    | succ k =>
      simp only [List.getElem?_cons_succ] at hk
      have := ih (base + 1) k hk
      have e : base + 1 + k = base + (k + 1) := by omega
      rw [e] at this
      simp only [lidsWith]
      split
      · exact List.mem_cons_of_mem _ this
      · exact this

theorem Ext.get_rev {a b : Sh} (h : Ext a b) {l : Nat} {d : Doc} (hl : l < a.ids.length) (hd : b.ids[l]? = some d) :
    a.ids[l]? = some d := by
  obtain ⟨extra, e⟩ := h.ids
  rw [e, List.getElem?_append_left hl] at hd
  exact hd

/-! ### exact evaluation -/

theorem evalQ_exact (q : Query) (g rest : List (Nat × List Nat)) (l : Nat) (d : Doc)
    (hal : g.map Prod.fst = q.leaves) (hex : ∀ t ls, (t, ls) ∈ g → (l ∈ ls ↔ t ∈ d.toks)) :
    evalQ q (g ++ rest) l = (sat q d, rest) := by
  induction q generalizing g rest with
  | tok t =>
    simp only [Query.leaves] at hal
    match g, hal with
    | [(t', ls)], hal =>
      simp only [List.map_cons, List.map_nil, List.cons.injEq, and_true] at hal
      subst hal
      have := hex t' ls (List.mem_cons_self ..)
      simp only [List.cons_append, List.nil_append, evalQ, beq_self_eq_true, Bool.true_and, sat, List.contains_eq_mem]
      congr 1
      by_cases h : l ∈ ls
      · simp [h, this.mp h]
      · simp only [h, decide_false]
        exact (Bool.eq_false_iff.mpr (fun h' => h (this.mpr (by simpa using h')))).symm
  | and a b iha ihb =>
    simp only [Query.leaves] at hal
    obtain ⟨ga, gb, rfl, h1, h2⟩ := List.map_eq_append_iff.mp hal
    have ea := iha ga (gb ++ rest) h1 (fun t ls hm => hex t ls (List.mem_append_left _ hm))
    have eb := ihb gb rest h2 (fun t ls hm => hex t ls (List.mem_append_right _ hm))
    simp only [List.append_assoc, evalQ, ea, eb, sat]
  | or a b iha ihb =>
    simp only [Query.leaves] at hal
    obtain ⟨ga, gb, rfl, h1, h2⟩ := List.map_eq_append_iff.mp hal
    have ea := iha ga (gb ++ rest) h1 (fun t ls hm => hex t ls (List.mem_append_left _ hm))
    have eb := ihb gb rest h2 (fun t ls hm => hex t ls (List.mem_append_right _ hm))
    simp only [List.append_assoc, evalQ, ea, eb, sat]
  | not a iha =>
    simp only [Query.leaves] at hal
    have ea := iha g rest hal hex
    simp only [evalQ, ea, sat]

/-! ### the second invariant -/

structure Sh2 (sh : Sh) : Prop where
  regd : sh.lock = false → ∀ t, t ∈ sh.created → t ∈ sh.dict
  allTok : ∀ l d, l ∈ sh.all → sh.ids[l]? = some d → ∀ t, t ∈ d.toks → l ∈ sh.tok t ∧ t ∈ sh.dict

structure W2 (sh : Sh) (w : W) : Prop where
  sub : w.pc ≠ .idle → ∀ d, d ∈ w.docs → ∀ t, t ∈ d.toks → t ∈ w.toks
  getl : w.pc = .tokget → sh.lock = true ∧ (∀ t, t ∈ sh.created → t ∈ sh.dict ∨ t ∈ w.newToks) ∧
      (∀ t, t ∈ w.toks → t ∈ w.newToks ∨ t ∈ sh.dict)
  dict : afterToks w.pc → ∀ t, t ∈ w.toks → t ∈ sh.dict
  prog : afterToks w.pc → ∀ k d, w.docs[k]? = some d → ∀ t, t ∈ d.toks →
      (w.base + k ∈ sh.tok t) ∨ (some t, lidsWith t w.docs w.base) ∈ w.todo
  shape : w.pc = .queue → w.todo = [] ∨ ∃ pre, w.todo = pre ++ [(none, List.range' w.base w.docs.length)] ∧
      ∀ x, x ∈ pre → x.1 ≠ none
  notq : w.pc ≠ .queue → w.todo = []

structure R2 (sh : Sh) (r : R) : Prop where
  align : r.pc = .rids → r.got.map Prod.fst ++ r.todo = r.q.leaves
  exact : ∀ t ls, (t, ls) ∈ r.got → ∀ l, l ∈ r.mapping → ∀ d, sh.ids[l]? = some d → (l ∈ ls ↔ t ∈ d.toks)
  res : r.pc = .done → ∀ l, l ∈ r.mapping → ∀ d, sh.ids[l]? = some d →
      (l ∈ r.result ↔ (inR r.range d.mid = true ∧ r.qfrom ≤ d.mid ∧ d.mid ≤ r.qto ∧ sat r.q d = true))

structure Inv2 (s : St) : Prop where
  sh : Sh2 s.sh
  ws : ∀ i, W2 s.sh (s.ws i)
  rs : ∀ i, R2 s.sh (s.rs i)
  uniq : ∀ i j, (s.ws i).pc = .tokget → (s.ws j).pc = .tokget → i = j

theorem inv2_init : Inv2 init := by
  refine ⟨⟨by simp [init], by simp [init]⟩, ?_, ?_, by simp [init]⟩
  · intro i; constructor <;> simp [init, afterToks]
  · intro i; constructor <;> simp [init]

/-- a writer's clauses survive any step of somebody else that leaves `created` and `lock` alone -/
theorem W2.frame {a b : Sh} {w : W} (h : W2 a w) (hc : b.created = a.created) (hl : b.lock = a.lock)
    (hd : ∀ t, t ∈ a.dict → t ∈ b.dict) (ht : ∀ t l, l ∈ a.tok t → l ∈ b.tok t) : W2 b w := by
  refine ⟨h.sub, ?_, fun hp t ht' => hd t (h.dict hp t ht'), ?_, h.shape, h.notq⟩
  · intro hp
    obtain ⟨h1, h2, h3⟩ := h.getl hp
    refine ⟨by rw [hl]; exact h1, ?_, ?_⟩
    · intro t ht'
      rw [hc] at ht'
      rcases h2 t ht' with h' | h'
      · exact Or.inl (hd t h')
      · exact Or.inr h'
    · intro t ht'
      rcases h3 t ht' with h' | h'
      · exact Or.inl h'
      · exact Or.inr (hd t h')
  · intro hp k d hk t ht'
    rcases h.prog hp k d hk t ht' with h' | h'
    · exact Or.inl (ht t _ h')
    · exact Or.inr h'

/-- a reader's clauses survive growth of the shared state -/
theorem R2.mono {a b : Sh} {r : R} (h : R2 a r) (e : Ext a b) (ha : ShInv a) (hr : RInv a r) : R2 b r := by
  have hlt : ∀ l, l ∈ r.mapping → l < a.ids.length := fun l hl => ha.allLt l (hr.mapAll l hl)
  refine ⟨h.align, ?_, ?_⟩
  · intro t ls hm l hl d hd
    exact h.exact t ls hm l hl d (e.get_rev (hlt l hl) hd)
  · intro hp l hl d hd
    exact h.res hp l hl d (e.get_rev (hlt l hl) hd)

/-- ... or, when the writer is not inside `TokenList.Append`, any step that only grows `dict` and `tok` -/
theorem W2.frame' {a b : Sh} {w : W} (h : W2 a w) (hp : w.pc ≠ .tokget)
    (hd : ∀ t, t ∈ a.dict → t ∈ b.dict) (ht : ∀ t l, l ∈ a.tok t → l ∈ b.tok t) : W2 b w := by
  refine ⟨h.sub, fun e => absurd e hp, fun hq t ht' => hd t (h.dict hq t ht'), ?_, h.shape, h.notq⟩
  intro hq k d hk t ht'
  rcases h.prog hq k d hk t ht' with h' | h'
  · exact Or.inl (ht t _ h')
  · exact Or.inr h'

theorem inv2_of_reader (s : St) (i : Nat) (r' : R) (h2 : Inv2 s) (hr : R2 s.sh r') :
    Inv2 { s with rs := setR s.rs i r' } := by
  refine ⟨h2.sh, h2.ws, ?_, h2.uniq⟩
  intro j
  simp only [setR]
  split
  · exact hr
  · exact h2.rs j

theorem inv2_of_writer (s : St) (i : Nat) (sh' : Sh) (w' : W) (h : Inv s) (h2 : Inv2 s) (e : Ext s.sh sh')
    (hsh : Sh2 sh') (hw : W2 sh' w') (hothers : ∀ j, j ≠ i → W2 sh' (s.ws j))
    (hu : w'.pc = .tokget → ∀ j, j ≠ i → (s.ws j).pc ≠ .tokget) :
    Inv2 { s with sh := sh', ws := setW s.ws i w' } := by
  refine ⟨hsh, ?_, fun j => (h2.rs j).mono e h.sh (h.rs j), ?_⟩
  · intro j
    simp only [setW]
    split
    · exact hw
    · rename_i hj; exact hothers j hj
  · intro a b ha hb
    simp only [setW] at ha hb
    by_cases ea : a = i <;> by_cases eb : b = i
    · rw [ea, eb]
    · simp only [ea, if_true, eb, if_false] at ha hb
      exact absurd hb (hu ha b eb)
    · simp only [ea, if_false, eb, if_true] at ha hb
      exact absurd ha (hu hb a ea)
    · simp only [ea, if_false, eb] at ha hb
      exact h2.uniq a b ha hb

/-! ### writer steps -/

theorem sh2_same (a b : Sh) (h : Sh2 a) (h1 : b.lock = a.lock) (h2 : b.created = a.created) (h3 : b.dict = a.dict)
    (h4 : b.all = a.all) (h5 : b.ids = a.ids) (h6 : b.tok = a.tok) : Sh2 b :=
  ⟨by rw [h1, h2, h3]; exact h.regd, by rw [h4, h5, h6, h3]; exact h.allTok⟩

theorem inv2_wNew (c : Cfg) (s s' : St) (i : Nat) (bulk : List Doc) (h : Inv s) (h2 : Inv2 s)
    (hs : step c s (.wNew i bulk) = some s') : Inv2 s' := by
  simp only [step] at hs
  split at hs <;> cases hs
  apply inv2_of_writer s i _ _ h h2
  · exact ⟨⟨[], by simp⟩, fun _ h => h, fun _ _ h => h, fun _ _ h => h, Nat.le_refl _, fun _ h => h,
      fun d hd => List.mem_append_left _ hd⟩
  · exact sh2_same _ _ h2.sh rfl rfl rfl rfl rfl rfl
  · refine ⟨fun _ d hd t ht => mem_bulkToks bulk d t hd ht, ?_, ?_, ?_, ?_, ?_⟩ <;> simp [afterToks]
  · intro j _; exact (h2.ws j).frame rfl rfl (fun _ h => h) (fun _ _ h => h)
  · simp

theorem inv2_wBlock (c : Cfg) (s s' : St) (i : Nat) (h : Inv s) (h2 : Inv2 s)
    (hs : step c s (.wBlock i) = some s') : Inv2 s' := by
  simp only [step] at hs
  split at hs <;> cases hs
  rename_i hpc
  have hw := h2.ws i
  apply inv2_of_writer s i _ _ h h2
  · exact ⟨⟨[], by simp⟩, fun _ h => h, fun _ _ h => h, fun _ _ h => h, Nat.le_succ _, fun _ h => h, fun _ h => h⟩
  · exact sh2_same _ _ h2.sh rfl rfl rfl rfl rfl rfl
  · refine ⟨fun _ => hw.sub (by simp [hpc]), ?_, ?_, ?_, ?_, fun _ => hw.notq (by simp [hpc])⟩ <;> simp [afterToks]
  · intro j _; exact (h2.ws j).frame rfl rfl (fun _ h => h) (fun _ _ h => h)
  · simp

theorem inv2_wPos (c : Cfg) (s s' : St) (i : Nat) (h : Inv s) (h2 : Inv2 s)
    (hs : step c s (.wPos i) = some s') : Inv2 s' := by
  simp only [step] at hs
  split at hs <;> cases hs
  rename_i hpc
  have hw := h2.ws i
  apply inv2_of_writer s i _ _ h h2
  · exact ⟨⟨[], by simp⟩, fun _ h => h, fun _ _ h => h, fun id p hp => setMultiple_keeps _ _ _ _ id p hp,
      Nat.le_refl _, fun _ h => h, fun _ h => h⟩
  · exact sh2_same _ _ h2.sh rfl rfl rfl rfl rfl rfl
  · refine ⟨fun _ d hd => hw.sub (by simp [hpc]) d (List.mem_filter.mp hd).1, ?_, ?_, ?_, ?_,
      fun _ => hw.notq (by simp [hpc])⟩ <;> simp [afterToks]
  · intro j _; exact (h2.ws j).frame rfl rfl (fun _ h => h) (fun _ _ h => h)
  · simp

theorem inv2_wIds (c : Cfg) (s s' : St) (i : Nat) (h : Inv s) (h2 : Inv2 s)
    (hs : step c s (.wIds i) = some s') : Inv2 s' := by
  simp only [step] at hs
  split at hs <;> cases hs
  rename_i hpc
  have hw := h2.ws i
  have e : Ext s.sh { s.sh with ids := s.sh.ids ++ (s.ws i).docs } :=
    ⟨⟨_, rfl⟩, fun _ h => h, fun _ _ h => h, fun _ _ h => h, Nat.le_refl _, fun _ h => h, fun _ h => h⟩
  apply inv2_of_writer s i _ _ h h2 e
  · refine ⟨h2.sh.regd, ?_⟩
    intro l d hl hd
    exact h2.sh.allTok l d hl (e.get_rev (h.sh.allLt l hl) hd)
  · refine ⟨fun _ => hw.sub (by simp [hpc]), ?_, ?_, ?_, ?_, fun _ => hw.notq (by simp [hpc])⟩ <;> simp [afterToks]
  · intro j _; exact (h2.ws j).frame rfl rfl (fun _ h => h) (fun _ _ h => h)
  · simp

theorem inv2_wTokGet (c : Cfg) (hf : Full c) (s s' : St) (i : Nat) (h : Inv s) (h2 : Inv2 s)
    (hs : step c s (.wTokGet i) = some s') : Inv2 s' := by
  simp only [step] at hs
  split at hs <;> cases hs
  rename_i hpc
  have hw := h2.ws i
  have hlock : s.sh.lock = false := hpc.2 hf.2
  have hnone : ∀ j, (s.ws j).pc ≠ .tokget := by
    intro j hj
    have := ((h2.ws j).getl hj).1
    rw [hlock] at this; cases this
  apply inv2_of_writer s i _ _ h h2
  · exact ext_same _ _ rfl rfl rfl rfl rfl rfl rfl
  · refine ⟨?_, h2.sh.allTok⟩
    intro hl
    simp only [hf.2] at hl
    cases hl
  · refine ⟨fun _ => hw.sub (by simp [hpc.1]), ?_, ?_, ?_, ?_, fun _ => hw.notq (by simp [hpc.1])⟩
    · intro _
      refine ⟨hf.2, ?_, ?_⟩
      · intro t ht
        rcases List.mem_append.mp ht with ht | ht
        · exact Or.inl (h2.sh.regd hlock t ht)
        · exact Or.inr ht
      · intro t ht
        by_cases hc : s.sh.created.contains t = true
        · exact Or.inr (h2.sh.regd hlock t (by simpa using hc))
        · exact Or.inl (List.mem_filter.mpr ⟨ht, by simpa using hc⟩)
    · simp [afterToks]
    · simp [afterToks]
    · simp
  · intro j _; exact (h2.ws j).frame' (hnone j) (fun _ h => h) (fun _ _ h => h)
  · intro _ j _; exact hnone j

theorem inv2_wToks (c : Cfg) (hf : Full c) (s s' : St) (i : Nat) (h : Inv s) (h2 : Inv2 s)
    (hs : step c s (.wToks i) = some s') : Inv2 s' := by
  simp only [step] at hs
  split at hs <;> cases hs
  rename_i hpc
  have hw := h2.ws i
  obtain ⟨g1, g2, g3⟩ := hw.getl hpc
  have hdict : ∀ t, t ∈ s.sh.dict → t ∈ s.sh.dict ++ (s.ws i).newToks := fun t ht => List.mem_append_left _ ht
  apply inv2_of_writer s i _ _ h h2
  · exact ext_same _ _ rfl rfl rfl rfl rfl rfl rfl
  · refine ⟨?_, ?_⟩
    · intro _ t ht
      rcases g2 t ht with h' | h'
      · exact List.mem_append_left _ h'
      · exact List.mem_append_right _ h'
    · intro l d hl hd t ht
      obtain ⟨a1, a2⟩ := h2.sh.allTok l d hl hd t ht
      exact ⟨a1, hdict t a2⟩
  · refine ⟨fun _ => hw.sub (by simp [hpc]), by simp, ?_, ?_, ?_, by simp⟩
    · intro _ t ht
      rcases g3 t ht with h' | h'
      · exact List.mem_append_right _ h'
      · exact List.mem_append_left _ h'
    · intro _ k d hk t ht
      right
      have htk : t ∈ (s.ws i).toks := hw.sub (by simp [hpc]) d (List.mem_of_getElem? hk) t ht
      simp only [queueCalls, hf.1, if_true, List.mem_append, List.mem_map, List.mem_reverse, List.mem_singleton]
      exact Or.inl ⟨t, htk, rfl⟩
    · intro _
      right
      refine ⟨(s.ws i).toks.reverse.map (fun t => (some t, lidsWith t (s.ws i).docs (s.ws i).base)), ?_, ?_⟩
      · simp [queueCalls, hf.1]
      · intro x hx
        simp only [List.mem_map] at hx
        obtain ⟨t, _, rfl⟩ := hx
        simp
  · intro j hj
    have : (s.ws j).pc ≠ .tokget := fun e => hj (h2.uniq j i e hpc)
    exact (h2.ws j).frame' this hdict (fun _ _ h => h)
  · simp

theorem inv2_wQueue (c : Cfg) (s s' : St) (i : Nat) (h : Inv s) (h2 : Inv2 s)
    (hs : step c s (.wQueue i) = some s') : Inv2 s' := by
  simp only [step] at hs
  split at hs
  · rename_i hpc
    split at hs
    · cases hs
    · rename_i t0 ls rest htodo
      cases hs
      have hw := h2.ws i
      have haft : afterToks (s.ws i).pc := Or.inl hpc
      obtain ⟨w1, w2, w3, w4, w5⟩ := h.ws i
      have htokmono : ∀ t l, l ∈ s.sh.tok t → l ∈ (putQueue s.sh t0 ls).tok t := by
        intro t l hl
        cases t0 with
        | none => simpa [putQueue] using hl
        | some u =>
          simp only [putQueue]
          split
          · exact List.mem_append_left _ hl
          · exact hl
      have e : Ext s.sh (putQueue s.sh t0 ls) := by
        refine ⟨⟨[], by cases t0 <;> simp [putQueue]⟩, ?_, htokmono, fun _ _ h => by cases t0 <;> simpa [putQueue] using h,
          by cases t0 <;> simp [putQueue], fun _ h => by cases t0 <;> simpa [putQueue] using h,
          fun _ h => by cases t0 <;> simpa [putQueue] using h⟩
        intro l hl
        cases t0 with
        | none => exact List.mem_append_left _ hl
        | some u => exact hl
      have hids : (putQueue s.sh t0 ls).ids = s.sh.ids := by cases t0 <;> rfl
      have hdictE : (putQueue s.sh t0 ls).dict = s.sh.dict := by cases t0 <;> rfl
      apply inv2_of_writer s i _ _ h h2 e
      · refine ⟨?_, ?_⟩
        · have h1 : (putQueue s.sh t0 ls).lock = s.sh.lock := by cases t0 <;> rfl
          have h2' : (putQueue s.sh t0 ls).created = s.sh.created := by cases t0 <;> rfl
          rw [h1, h2', hdictE]; exact h2.sh.regd
        · intro l d hl hd t ht
          rw [hids] at hd
          rw [hdictE]
          cases t0 with
          | some u =>
            obtain ⟨a1, a2⟩ := h2.sh.allTok l d (by simpa [putQueue] using hl) hd t ht
            exact ⟨htokmono t l a1, a2⟩
          | none =>
            simp only [putQueue] at hl
            rcases List.mem_append.mp hl with hl | hl
            · obtain ⟨a1, a2⟩ := h2.sh.allTok l d hl hd t ht
              exact ⟨htokmono t l a1, a2⟩
            · -- the `_all_` call of writer i: it is the last one
              rcases hw.shape hpc with hsh | ⟨pre, hsh, hpre⟩
              · rw [hsh] at htodo; cases htodo
              · have hpre0 : pre = [] := by
                  cases pre with
                  | nil => rfl
                  | cons x xs =>
                    rw [htodo] at hsh
                    simp only [List.cons_append, List.cons.injEq] at hsh
                    have := hpre x (List.mem_cons_self ..)
                    rw [← hsh.1] at this
                    exact absurd rfl this
                subst hpre0
                rw [htodo] at hsh
                simp only [List.nil_append, List.cons.injEq, Prod.mk.injEq, true_and] at hsh
                obtain ⟨hls, hrest⟩ := hsh
                subst hls
                rw [List.mem_range'_1] at hl
                have hk : l - (s.ws i).base < (s.ws i).docs.length := by omega
                have hdk : (s.ws i).docs[l - (s.ws i).base]? = some (s.ws i).docs[l - (s.ws i).base] := by simp [hk]
                have hid := w4 (by simp [hpc]) (by simp [hpc]) (by simp [hpc]) (by simp [hpc]) _ _ hdk
                have hbl : (s.ws i).base + (l - (s.ws i).base) = l := by omega
                rw [hbl, hd] at hid
                cases hid
                have htk := hw.sub (by simp [hpc]) _ (List.getElem_mem hk) t ht
                refine ⟨?_, hw.dict haft t htk⟩
                rcases hw.prog haft _ _ hdk t ht with h' | h'
                · rw [hbl] at h'; exact htokmono t l h'
                · rw [htodo, hrest] at h'
                  simp at h'
      · refine ⟨hw.sub, fun e => by simp [hpc] at e, ?_, ?_, ?_, fun e => absurd hpc e⟩
        · intro hq t ht; rw [hdictE]; exact hw.dict hq t ht
        · intro hq k d hk t ht
          rcases hw.prog hq k d hk t ht with h' | h'
          · exact Or.inl (htokmono t _ h')
          · rw [htodo] at h'
            rcases List.mem_cons.mp h' with h' | h'
            · left
              simp only [Prod.mk.injEq] at h'
              obtain ⟨rfl, rfl⟩ := h'
              simp only [putQueue, if_true]
              exact List.mem_append_right _ (lidsWith_complete t _ _ k d hk ht)
            · exact Or.inr h'
        · intro _
          rcases hw.shape hpc with hsh | ⟨pre, hsh, hpre⟩
          · rw [hsh] at htodo; cases htodo
          · cases pre with
            | nil =>
              rw [htodo] at hsh
              simp only [List.nil_append, List.cons.injEq] at hsh
              exact Or.inl hsh.2
            | cons x xs =>
              rw [htodo] at hsh
              simp only [List.cons_append, List.cons.injEq] at hsh
              exact Or.inr ⟨xs, hsh.2, fun y hy => hpre y (List.mem_cons_of_mem _ hy)⟩
      · intro j _
        exact (h2.ws j).frame (by cases t0 <;> rfl) (by cases t0 <;> rfl) (fun t ht => by rw [hdictE]; exact ht) htokmono
      · intro e; simp [hpc] at e
  · cases hs

theorem inv2_wStats (c : Cfg) (s s' : St) (i : Nat) (h : Inv s) (h2 : Inv2 s)
    (hs : step c s (.wStats i) = some s') : Inv2 s' := by
  simp only [step] at hs
  split at hs <;> cases hs
  rename_i hpc
  have hw := h2.ws i
  have haft : afterToks (s.ws i).pc := Or.inl hpc.1
  apply inv2_of_writer s i _ _ h h2
  · exact ⟨⟨[], by simp⟩, fun _ h => h, fun _ _ h => h, fun _ _ h => h, Nat.le_refl _,
      fun m hm => inR_merge _ _ m hm, fun _ h => h⟩
  · exact sh2_same _ _ h2.sh rfl rfl rfl rfl rfl rfl
  · exact ⟨fun _ => hw.sub (by simp [hpc.1]), by simp, fun _ => hw.dict haft, fun _ => hw.prog haft, by simp,
      fun _ => hpc.2⟩
  · intro j _; exact (h2.ws j).frame rfl rfl (fun _ h => h) (fun _ _ h => h)
  · simp

theorem inv2_wDone (c : Cfg) (s s' : St) (i : Nat) (h : Inv s) (h2 : Inv2 s)
    (hs : step c s (.wDone i) = some s') : Inv2 s' := by
  simp only [step] at hs
  split at hs <;> cases hs
  rename_i hpc
  have hw := h2.ws i
  have haft : afterToks (s.ws i).pc := Or.inr (Or.inl hpc)
  have := inv2_of_writer s i s.sh { s.ws i with pc := .done } h h2 (Ext.refl _) h2.sh
    ⟨fun _ => hw.sub (by simp [hpc]), by simp, fun _ => hw.dict haft, fun _ => hw.prog haft, by simp,
      fun _ => hw.notq (by simp [hpc])⟩
    (fun j _ => h2.ws j) (by simp)
  exact this

/-! ### reader steps -/

theorem inv2_rNew (c : Cfg) (s s' : St) (i : Nat) (q : Query) (a b : Nat) (h2 : Inv2 s)
    (hs : step c s (.rNew i q a b) = some s') : Inv2 s' := by
  simp only [step] at hs
  split at hs <;> cases hs
  apply inv2_of_reader s i _ h2
  constructor <;> simp

theorem inv2_rInfo (c : Cfg) (s s' : St) (i : Nat) (h2 : Inv2 s)
    (hs : step c s (.rInfo i) = some s') : Inv2 s' := by
  simp only [step] at hs
  split at hs
  · rename_i hpc
    have hr := h2.rs i
    split at hs <;> cases hs
    · apply inv2_of_reader s i _ h2
      constructor <;> simp
    · apply inv2_of_reader s i _ h2
      exact ⟨by simp, hr.exact, by simp⟩
  · cases hs

theorem inv2_rBlocks (c : Cfg) (s s' : St) (i : Nat) (h2 : Inv2 s)
    (hs : step c s (.rBlocks i) = some s') : Inv2 s' := by
  simp only [step] at hs
  split at hs <;> cases hs
  apply inv2_of_reader s i _ h2
  exact ⟨by simp, (h2.rs i).exact, by simp⟩

theorem inv2_rMapping (c : Cfg) (s s' : St) (i : Nat) (h : Inv s) (h2 : Inv2 s)
    (hs : step c s (.rMapping i) = some s') : Inv2 s' := by
  simp only [step] at hs
  split at hs <;> cases hs
  rename_i hpc
  have hgot := (h.rs i).noGot (by simp [hpc]) (by simp [hpc])
  apply inv2_of_reader s i _ h2
  refine ⟨by simp, ?_, by simp⟩
  intro t ls hm
  simp only [hgot] at hm
  cases hm

theorem inv2_rMids (c : Cfg) (s s' : St) (i : Nat) (h2 : Inv2 s)
    (hs : step c s (.rMids i) = some s') : Inv2 s' := by
  simp only [step] at hs
  split at hs <;> cases hs
  apply inv2_of_reader s i _ h2
  exact ⟨by simp, (h2.rs i).exact, by simp⟩

theorem inv2_rRids (c : Cfg) (s s' : St) (i : Nat) (h : Inv s) (h2 : Inv2 s)
    (hs : step c s (.rRids i) = some s') : Inv2 s' := by
  simp only [step] at hs
  split at hs <;> cases hs
  rename_i hpc
  have hgot := (h.rs i).noGot (by simp [hpc]) (by simp [hpc])
  apply inv2_of_reader s i _ h2
  exact ⟨by simp [hgot], (h2.rs i).exact, by simp⟩

theorem inv2_rLeaf (c : Cfg) (s s' : St) (i : Nat) (h : Inv s) (h2 : Inv2 s)
    (hs : step c s (.rLeaf i) = some s') : Inv2 s' := by
  simp only [step] at hs
  split at hs
  · rename_i hpc
    split at hs
    · cases hs
    · rename_i t rest htodo
      cases hs
      have hr := h2.rs i
      have hri := h.rs i
      apply inv2_of_reader s i _ h2
      refine ⟨?_, ?_, by simp [hpc]⟩
      · intro _
        have := hr.align hpc
        rw [htodo] at this
        simpa using this
      · intro t' ls hm l hl d hd
        rcases List.mem_append.mp hm with hm | hm
        · exact hr.exact t' ls hm l hl d hd
        · simp only [List.mem_singleton, Prod.mk.injEq] at hm
          obtain ⟨rfl, rfl⟩ := hm
          constructor
          · intro hin
            split at hin
            · simp only [List.mem_filter] at hin
              obtain ⟨d', hd', ht'⟩ := h.sh.tokOk t' l hin.1
              rw [hd] at hd'; cases hd'; exact ht'
            · cases hin
          · intro ht
            obtain ⟨a1, a2⟩ := h2.sh.allTok l d (hri.mapAll l hl) hd t' ht
            have hlt := hri.mapMids (by simp [hpc]) l hl
            simp only [List.contains_eq_mem, a2, decide_true, if_true, List.mem_filter, a1, hlt, hl, Bool.and_self, and_self]
  · cases hs

theorem inv2_rEval (c : Cfg) (s s' : St) (i : Nat) (h2 : Inv2 s)
    (hs : step c s (.rEval i) = some s') : Inv2 s' := by
  simp only [step] at hs
  split at hs <;> cases hs
  rename_i hpc
  have hr := h2.rs i
  apply inv2_of_reader s i _ h2
  refine ⟨by simp, hr.exact, ?_⟩
  intro _ l hl d hd
  have hal := hr.align hpc.1
  rw [hpc.2, List.append_nil] at hal
  have hev := evalQ_exact (s.rs i).q (s.rs i).got [] l d hal (fun t ls hm => hr.exact t ls hm l hl d hd)
  rw [List.append_nil] at hev
  simp only [List.mem_filter, hl, true_and, hd, hev, Bool.and_eq_true, decide_eq_true_eq]
  constructor
  · rintro ⟨⟨⟨a, b⟩, c'⟩, d'⟩; exact ⟨a, b, c', d'⟩
  · rintro ⟨a, b, c', d'⟩; exact ⟨⟨⟨a, b⟩, c'⟩, d'⟩

theorem inv2_rFetch (c : Cfg) (s s' : St) (i : Nat) (id : ID) (h2 : Inv2 s)
    (hs : step c s (.rFetch i id) = some s') : Inv2 s' := by
  simp only [step] at hs
  split at hs <;> cases hs
  rename_i hpc
  apply inv2_of_reader s i _ h2
  exact ⟨by simp [hpc], (h2.rs i).exact, by simp [hpc]⟩

theorem inv2_rClose (c : Cfg) (s s' : St) (i : Nat) (h : Inv s) (h2 : Inv2 s)
    (hs : step c s (.rClose i) = some s') : Inv2 s' := by
  simp only [step] at hs
  split at hs <;> cases hs
  rename_i hpc
  have hmap := (h.rs i).early (by simp [hpc])
  apply inv2_of_reader s i _ h2
  refine ⟨by simp, (h2.rs i).exact, ?_⟩
  intro _ l hl
  simp only [hmap] at hl
  cases hl

theorem inv2_step (c : Cfg) (hf : Full c) (s : St) (l : Label) (s' : St) (h : Inv s) (h2 : Inv2 s)
    (hs : step c s l = some s') : Inv2 s' := by
  cases l with
  | wNew i b => exact inv2_wNew c s s' i b h h2 hs
  | wBlock i => exact inv2_wBlock c s s' i h h2 hs
  | wPos i => exact inv2_wPos c s s' i h h2 hs
  | wIds i => exact inv2_wIds c s s' i h h2 hs
  | wTokGet i => exact inv2_wTokGet c hf s s' i h h2 hs
  | wToks i => exact inv2_wToks c hf s s' i h h2 hs
  | wQueue i => exact inv2_wQueue c s s' i h h2 hs
  | wStats i => exact inv2_wStats c s s' i h h2 hs
  | wDone i => exact inv2_wDone c s s' i h h2 hs
  | rNew i q a b => exact inv2_rNew c s s' i q a b h2 hs
  | rInfo i => exact inv2_rInfo c s s' i h2 hs
  | rBlocks i => exact inv2_rBlocks c s s' i h2 hs
  | rMapping i => exact inv2_rMapping c s s' i h h2 hs
  | rMids i => exact inv2_rMids c s s' i h2 hs
  | rRids i => exact inv2_rRids c s s' i h h2 hs
  | rLeaf i => exact inv2_rLeaf c s s' i h h2 hs
  | rEval i => exact inv2_rEval c s s' i h2 hs
  | rFetch i id => exact inv2_rFetch c s s' i id h2 hs
  | rClose i => exact inv2_rClose c s s' i h h2 hs

theorem inv2_reachable (c : Cfg) (hf : Full c) (s : St) (h : Reachable c s) : Inv s ∧ Inv2 s :=
  reachable_induct c (fun s => Inv s ∧ Inv2 s) ⟨inv_init, inv2_init⟩
    (fun s l s' hi hs => ⟨inv_step c s l s' hi.1 hs, inv2_step c hf s l s' hi.1 hi.2 hs⟩) s h

end SV.ActiveConc
