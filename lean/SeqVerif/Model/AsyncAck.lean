/-!
# Durable before ack: the life of asynchronous search requests across crashes (C19)

`StartSearch` = `updateSearchInfo` (write `<id>.info` atomically, then register in the in-memory map), start the worker
when there is something to search, `return nil` (the acknowledgement).  A crash forgets the memory; `MustStartAsync`
reloads the requests from the `.info` files.  Workers (`processRequest`: wait for a `rateLimit` slot, `doSearch`) only add
result files and finally rewrite the info with `Done = true`; nothing removes an info file.
-/
namespace SV.AsyncAck

structure Sys where
  /-- ids with a complete `<id>.info` on disk, with their done flag -/
  disk : List (String × Bool)
  /-- ids in `as.requests` -/
  mem : List String
  /-- ids whose `StartSearch` returned nil -/
  acked : List String
deriving Repr

inductive Op where
  /-- `StartSearch` of a request with (`false`) or without (`true`) fractions in range, run to its return -/
  | start (id : String) (noFracs : Bool)
  /-- `StartSearch` interrupted by a crash before its info write completed: nothing durable, no ack -/
  | startTorn (id : String)
  /-- a worker finishes `doSearch` for a request it knows -/
  | finish (id : String)
  /-- a worker is waiting for / holding the `rateLimit` slot, or writes a partial result: no request-level change -/
  | work
  /-- crash and restart -/
  | crash
deriving Repr

def setDone (id : String) : List (String × Bool) → List (String × Bool)
  | [] => []
  | (k, d) :: r => if k = id then (k, true) :: r else (k, d) :: setDone id r

def step (s : Sys) : Op → Sys
  | .start id noFracs =>
    if s.mem.contains id then s   -- "async search already started": nothing happens (and the caller gets nil again)
    else { disk := (id, noFracs) :: s.disk, mem := id :: s.mem, acked := id :: s.acked }
  | .startTorn _ => { s with mem := s.disk.map (·.1) }  -- the process died inside StartSearch
  | .finish id => if s.mem.contains id then { s with disk := setDone id s.disk } else s
  | .work => s
  | .crash => { s with mem := s.disk.map (·.1) }

def run (ops : List Op) : Sys := ops.foldl step ⟨[], [], []⟩

theorem keys_setDone (id : String) (d : List (String × Bool)) : (setDone id d).map (·.1) = d.map (·.1) := by
  induction d with
  | nil => rfl
  | cons x r ih =>
    obtain ⟨k, v⟩ := x
    simp only [setDone]
    split <;> simp [ih]

/-- the invariant: every acknowledged id has its info on disk -/
def Inv (s : Sys) : Prop := ∀ id, id ∈ s.acked → id ∈ s.disk.map (·.1)

theorem inv_step (s : Sys) (o : Op) (h : Inv s) : Inv (step s o) := by
  cases o with
  | start id nf =>
    simp only [step]
    split
    · exact h
    · intro x hx
      simp only [List.mem_cons] at hx
      rcases hx with rfl | hx
      · simp
      · simp only [List.map_cons, List.mem_cons]; exact Or.inr (h x hx)
  | startTorn id => exact h
  | finish id =>
    simp only [step]
    split
    · intro x hx; rw [keys_setDone]; exact h x hx
    · exact h
  | work => exact h
  | crash => exact h

theorem inv_run (ops : List Op) : Inv (run ops) := by
  unfold run
  suffices ∀ s, Inv s → Inv (ops.foldl step s) from this _ (by intro id h; simp at h)
  induction ops with
  | nil => intro s h; exact h
  | cons o r ih => intro s h; exact ih _ (inv_step s o h)

/-- after a restart the store knows every acknowledged search -/
theorem known_after_crash (ops : List Op) (id : String) (h : id ∈ (run ops).acked) :
    id ∈ (step (run ops) .crash).mem := by
  simp only [step]
  exact inv_run ops id h

end SV.AsyncAck
