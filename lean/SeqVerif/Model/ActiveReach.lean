import SeqVerif.Model.DedupLemmas
import SeqVerif.Model.ActiveIndexProofs
/-!
# Every reachable active fraction is well-formed for search  (C02 on top of C17's append pipeline)

C17 models `appendWorker` (`SV.Collector.indexBulk`, `run`): ids appended at the next arrival LIDs, per token the
queue of arrival LIDs.  Here that state is read as the `SV.ActiveIndex.Active` the search side starts from
(`TokenLIDs.GetLIDs` = `getLIDs` of the queue, proved history independent in `ActiveMerge`), and the hypothesis
`AWF` of the active-fraction theorem is shown to hold after *any* history of bulks.
Imports C17's modules read-only.
-/
namespace SV.ActiveReach
open SV SV.Spec

def toID (p : SV.Collector.ID) : ID := ⟨p.1, p.2⟩

/-- `copyAndSplit`: a token `key:value` back into field and value (field names contain no ':'; Go uses the
recorded key length) -/
def splitTok (b : Bytes) : Bytes × Bytes := (b.takeWhile (· != 58), (b.dropWhile (· != 58)).drop 1)

/-- the index state of C17's model as the search side sees it: arrival id table, and per token of the token list
the arrival LIDs queued for it -/
def toActive (a : SV.Collector.Active) : SV.ActiveIndex.Active :=
  { ids := a.ids.map toID,
    toks := a.tokens.map fun e => ⟨(splitTok e.1).1, (splitTok e.1).2, SV.Collector.queue a e.1⟩ }

/-- every queued LID is the arrival LID of an appended document -/
def QueuesInRange (a : SV.Collector.Active) : Prop :=
  ∀ t, ∀ v ∈ SV.Collector.queue a t, 1 ≤ v ∧ v < a.ids.length

theorem mem_postingsT_lids (toks : List (List Bytes)) (lids : List Nat) (t : Bytes) (v : Nat)
    (h : v ∈ SV.Collector.postingsT toks lids t) : v ∈ lids := by
  unfold SV.Collector.postingsT at h
  rcases List.mem_flatMap.mp h with ⟨x, hx, hv⟩
  have := (List.mem_replicate.mp hv).2
  rw [this]
  exact (List.of_mem_zip hx).2

theorem queuesInRange_empty : QueuesInRange SV.Collector.Active.empty := by
  intro t v hv
  unfold SV.Collector.queue SV.Collector.Active.empty at hv
  simp only [List.lookup] at hv
  split at hv <;> simp at hv

theorem queuesInRange_step (a : SV.Collector.Active) (ms : List SV.Collector.Meta) (hA : SV.Collector.AInv a)
    (hq : QueuesInRange a) (h1 : (ms.map (·.id)).Nodup) (hs : ∀ m ∈ ms, m.size ≠ 0) :
    QueuesInRange (SV.Collector.indexBulk a ms) := by
  obtain ⟨hids, hqueue, -⟩ := SV.Collector.indexBulk_spec a ms hA h1 hs
  intro t v hv
  rw [hqueue t] at hv
  rw [hids, List.length_append, List.length_map]
  rcases List.mem_append.mp hv with hv | hv
  · have := hq t v hv; omega
  · have := List.mem_range'_1.mp (mem_postingsT_lids _ _ _ _ hv)
    have := hA.ids1
    omega

theorem run_queuesInRange (a : SV.Collector.Active) (h : List (List SV.Collector.Meta)) (hA : SV.Collector.AInv a)
    (hq : QueuesInRange a) (hd : SV.Collector.DistinctBulks h) (hs : SV.Collector.NonEmptyDocs h) :
    QueuesInRange (SV.Collector.run a h) := by
  induction h generalizing a with
  | nil => exact hq
  | cons b h ih =>
    have hb := SV.Collector.indexBulk_spec a b hA (hd b (by simp)) (hs b (by simp))
    exact ih (SV.Collector.indexBulk a b) hb.2.2.2.2.2.2.2
      (queuesInRange_step a b hA hq (hd b (by simp)) (hs b (by simp)))
      (fun b' hb' => hd b' (List.mem_cons_of_mem _ hb')) (fun b' hb' => hs b' (List.mem_cons_of_mem _ hb'))

/-- ids are uint64 pairs and none is `{0,0}` (the proxy takes the mid from the document time, the rid from a
random source; see `c02_borders_zero_id_witness` for why `{0,0}` is excluded) -/
def GoodIDs (h : List (List SV.Collector.Meta)) : Prop :=
  ∀ b ∈ h, ∀ m ∈ b, m.id.1 ≤ SV.Borders.maxU64 ∧ m.id.2 ≤ SV.Borders.maxU64 ∧ m.id ≠ (0, 0)

/-- **Reachable states are well-formed.**  After any history of bulks (pairwise distinct ids inside a bulk,
documents re-delivered any number of times, no nested metas) the index state satisfies `AWF`. -/
theorem reachable_awf (h : List (List SV.Collector.Meta)) (hd : SV.Collector.DistinctBulks h)
    (hs : SV.Collector.NonEmptyDocs h) (hg : GoodIDs h) :
    SV.ActiveIndex.AWF (toActive (SV.Collector.run SV.Collector.Active.empty h)) := by
  obtain ⟨hA, hmem⟩ := SV.Collector.run_inv SV.Collector.Active.empty h SV.Collector.ainv_empty hd hs
  have hq := run_queuesInRange SV.Collector.Active.empty h SV.Collector.ainv_empty queuesInRange_empty hd hs
  generalize SV.Collector.run SV.Collector.Active.empty h = a at hA hmem hq
  constructor
  · simpa [toActive] using hA.ids1
  · intro t' ht' v hv
    simp only [toActive, List.mem_map] at ht'
    rcases ht' with ⟨e, _, rfl⟩
    simpa [toActive] using hq e.1 v hv
  · intro v h1 h2
    have hmemd := SV.ActiveIndex.idOf_mem_drop (toActive a).ids v h1 h2
    have hdrop : (toActive a).ids.drop 1 = (SV.Collector.docIds a).map toID := by
      simp [toActive, SV.Collector.docIds]
    rw [hdrop] at hmemd
    rcases List.mem_map.mp hmemd with ⟨p, hp, hpe⟩
    have hall := (hmem p).mp hp
    have : p ∈ SV.Collector.allIds h := by
      rcases hall with h0 | h0
      · simp [SV.Collector.Active.empty, SV.Collector.docIds] at h0
      · exact h0
    unfold SV.Collector.allIds at this
    rcases List.mem_flatMap.mp this with ⟨b, hb, hpb⟩
    rcases List.mem_map.mp hpb with ⟨m, hm, rfl⟩
    have hgm := hg b hb m hm
    rw [← hpe]
    refine ⟨hgm.2.1, hgm.1, ?_⟩
    intro hz
    apply hgm.2.2
    unfold toID at hz
    have h1' : m.id.1 = 0 := by injection hz
    have h2' : m.id.2 = 0 := by injection hz
    exact Prod.ext h1' h2'

/-- **C02 on every reachable active fraction.** -/
theorem reachable_search_eq_spec (h : List (List SV.Collector.Meta)) (hd : SV.Collector.DistinctBulks h)
    (hs : SV.Collector.NonEmptyDocs h) (hg : GoodIDs h) (q : Query) (from_ to : Nat) (asc : Bool) (limit : Nat)
    (withTotal : Bool) :
    SV.ActiveIndex.search (toActive (SV.Collector.run SV.Collector.Active.empty h)) q from_ to asc limit withTotal =
      Spec.search (SV.ActiveIndex.arrivalDocs (toActive (SV.Collector.run SV.Collector.Active.empty h)))
        q from_ to asc limit withTotal :=
  SV.ActiveIndex.search_eq_spec _ (reachable_awf h hd hs hg) q from_ to asc limit withTotal

end SV.ActiveReach

/-! ## the documents of a reachable fraction are the delivered ones -/

namespace SV.ActiveReach
open SV SV.Spec

/-- the metas a history actually appends, in arrival order: of every bulk those whose id the fraction does not hold
yet (`SetMultiple` / `Filter` drop the rest) -/
def keptRun (a : SV.Collector.Active) : List (List SV.Collector.Meta) → List SV.Collector.Meta
  | [] => []
  | b :: h => SV.Collector.kept a b ++ keptRun (SV.Collector.indexBulk a b) h

theorem postingsT_append (A B : List (List Bytes)) (s : Nat) (t : Bytes) :
    SV.Collector.postingsT (A ++ B) (List.range' s (A.length + B.length)) t =
      SV.Collector.postingsT A (List.range' s A.length) t ++
        SV.Collector.postingsT B (List.range' (s + A.length) B.length) t := by
  unfold SV.Collector.postingsT
  rw [← List.range'_append_1, List.zip_append (by simp), List.flatMap_append]

theorem run_spec (a : SV.Collector.Active) (h : List (List SV.Collector.Meta)) (hA : SV.Collector.AInv a)
    (hd : SV.Collector.DistinctBulks h) (hs : SV.Collector.NonEmptyDocs h) :
    (SV.Collector.run a h).ids = a.ids ++ (keptRun a h).map (·.id) ∧
    ∀ t, SV.Collector.queue (SV.Collector.run a h) t = SV.Collector.queue a t ++
      SV.Collector.postingsT (SV.Collector.toksOf (keptRun a h)) (List.range' a.ids.length (keptRun a h).length) t := by
  induction h generalizing a with
  | nil => simp [SV.Collector.run, keptRun, SV.Collector.postingsT, SV.Collector.toksOf]
  | cons b h ih =>
    obtain ⟨hids, hqueue, -, -, -, -, -, hA'⟩ :=
      SV.Collector.indexBulk_spec a b hA (hd b (by simp)) (hs b (by simp))
    obtain ⟨i1, i2⟩ := ih (SV.Collector.indexBulk a b) hA' (fun b' hb' => hd b' (List.mem_cons_of_mem _ hb'))
      (fun b' hb' => hs b' (List.mem_cons_of_mem _ hb'))
    constructor
    · show (SV.Collector.run (SV.Collector.indexBulk a b) h).ids = _
      rw [i1, hids, keptRun, List.map_append, List.append_assoc]
    · intro t
      show SV.Collector.queue (SV.Collector.run (SV.Collector.indexBulk a b) h) t = _
      rw [i2 t, hqueue t, hids, keptRun, List.length_append, List.length_map, List.append_assoc]
      congr 1
      have := postingsT_append (SV.Collector.toksOf (SV.Collector.kept a b))
        (SV.Collector.toksOf (keptRun (SV.Collector.indexBulk a b) h)) a.ids.length t
      simp only [SV.Collector.toksOf, List.length_map] at this ⊢
      rw [List.map_append, List.length_append, this]

theorem mem_postingsT (toks : List (List Bytes)) (s : Nat) (t : Bytes) (v : Nat) :
    v ∈ SV.Collector.postingsT toks (List.range' s toks.length) t ↔
      ∃ i, ∃ (hi : i < toks.length), v = s + i ∧ t ∈ toks[i] := by
  unfold SV.Collector.postingsT
  rw [List.mem_flatMap]
  constructor
  · rintro ⟨x, hx, hv⟩
    rcases List.mem_iff_getElem.mp hx with ⟨i, hi, rfl⟩
    have hi' : i < toks.length := by simp [List.length_zip] at hi; exact hi
    rw [List.getElem_zip] at hv
    have hr := List.mem_replicate.mp hv
    refine ⟨i, hi', ?_, ?_⟩
    · rw [hr.2]; simp [List.getElem_range']
    · exact List.count_pos_iff.mp (Nat.pos_of_ne_zero hr.1)
  · rintro ⟨i, hi, rfl, ht⟩
    have hz : i < (toks.zip (List.range' s toks.length)).length := by simp [List.length_zip]; exact hi
    refine ⟨(toks.zip (List.range' s toks.length))[i], List.getElem_mem hz, ?_⟩
    rw [List.getElem_zip]
    apply List.mem_replicate.mpr
    refine ⟨?_, by simp [List.getElem_range']⟩
    have := List.count_pos_iff.mpr ht
    simp only
    omega

/-- **The documents a reachable fraction answers for are the delivered ones.**  With `K` the appended metas (first
deliveries, arrival order): the arrival documents have `K`'s ids in `K`'s order, and the document at arrival LID
`1 + i` carries the token `(field, value)` iff `K[i]` has a token that splits into it. -/
theorem reachable_docs (h : List (List SV.Collector.Meta)) (hd : SV.Collector.DistinctBulks h)
    (hs : SV.Collector.NonEmptyDocs h) :
    (SV.ActiveIndex.arrivalDocs (toActive (SV.Collector.run SV.Collector.Active.empty h))).map (·.id) =
        (keptRun SV.Collector.Active.empty h).map (fun m => toID m.id) ∧
    ∀ i, ∀ (hi : i < (keptRun SV.Collector.Active.empty h).length), ∀ fv : Bytes × Bytes,
      fv ∈ (SV.ActiveIndex.arrivalDoc (toActive (SV.Collector.run SV.Collector.Active.empty h)) (1 + i)).tokens ↔
        ∃ tok ∈ ((keptRun SV.Collector.Active.empty h)[i]).tokens, splitTok tok.bytes = fv := by
  obtain ⟨hids, hq⟩ := run_spec SV.Collector.Active.empty h SV.Collector.ainv_empty hd hs
  generalize hK : keptRun SV.Collector.Active.empty h = K at hids hq
  generalize SV.Collector.run SV.Collector.Active.empty h = a at hids hq
  have hids' : a.ids = SV.Collector.systemID :: K.map (·.id) := by simpa [SV.Collector.Active.empty] using hids
  have hq' : ∀ t v, v ∈ SV.Collector.queue a t ↔
      ∃ i, ∃ (hi : i < K.length), v = 1 + i ∧ t ∈ (K[i]).tokens.map SV.Collector.MetaToken.bytes := by
    intro t v
    rw [hq t]
    have h0 : SV.Collector.queue SV.Collector.Active.empty t = [] := by
      unfold SV.Collector.queue SV.Collector.Active.empty
      simp only [List.lookup]
      split <;> rfl
    have hlen : (SV.Collector.toksOf K).length = K.length := by simp [SV.Collector.toksOf]
    have e : List.range' SV.Collector.Active.empty.ids.length K.length =
        List.range' 1 (SV.Collector.toksOf K).length := by rw [hlen]; rfl
    rw [h0, List.nil_append, e, mem_postingsT]
    simp only [SV.Collector.toksOf, List.getElem_map, List.length_map]
  constructor
  · unfold SV.ActiveIndex.arrivalDocs
    apply List.ext_getElem
    · simp [toActive, hids']
    · intro i h1 h2
      have hi : i < K.length := by simpa using h2
      simp only [List.getElem_map, List.getElem_range', toActive, hids', List.map_cons, List.map_map]
      show SV.ActiveIndex.idOf _ (1 + 1 * i) = _
      simp only [SV.ActiveIndex.idOf, List.getD, show 1 + 1 * i = i + 1 by omega, List.getElem?_cons_succ]
      rw [List.getElem?_eq_getElem (by simpa using hi)]
      simp
  · intro i hi fv
    simp only [SV.ActiveIndex.arrivalDoc, toActive, List.mem_map, List.mem_filter, List.contains_iff_mem]
    constructor
    · rintro ⟨e', ⟨⟨e, he, rfl⟩, hc⟩, rfl⟩
      simp only at hc
      rcases (hq' e.1 (1 + i)).mp hc with ⟨j, hj, hij, ht⟩
      have : j = i := by omega
      subst this
      rcases List.mem_map.mp ht with ⟨tok, htok, hb⟩
      exact ⟨tok, htok, by rw [hb]⟩
    · rintro ⟨tok, htok, rfl⟩
      have hmem : 1 + i ∈ SV.Collector.queue a tok.bytes :=
        (hq' tok.bytes (1 + i)).mpr ⟨i, hi, rfl, List.mem_map.mpr ⟨tok, htok, rfl⟩⟩
      -- a non-empty queue means the token is in the token list
      unfold SV.Collector.queue at hmem
      cases hl : a.tokens.lookup tok.bytes with
      | none => simp [hl] at hmem
      | some q =>
        rcases List.lookup_eq_some_iff.mp hl with ⟨l1, l2, hsplit, -⟩
        have he : (tok.bytes, q) ∈ a.tokens := by rw [hsplit]; simp
        refine ⟨⟨(splitTok tok.bytes).1, (splitTok tok.bytes).2, SV.Collector.queue a tok.bytes⟩,
          ⟨⟨(tok.bytes, q), he, rfl⟩, ?_⟩, rfl⟩
        simp only [SV.Collector.queue, hl, Option.getD_some]
        simpa [hl] using hmem

end SV.ActiveReach
