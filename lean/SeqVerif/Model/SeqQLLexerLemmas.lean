import SeqVerif.Model.SeqQLLexer
import SeqVerif.Model.SeqQLFilterLemmas
/-!
Progress and termination of the SeqQL lexer model (C12): every `Next()` on a non-empty rest of the query consumes at
least one rune, so the token stream is finite (at most one token per rune) and `lexAll` never runs out of fuel.
-/
namespace SV.Parser

theorem lexSkipSpaces_len (sp : Bool) (q : List QRn) : (lexSkipSpaces sp q).2.length ≤ q.length := by
  induction q generalizing sp with
  | nil => simp [lexSkipSpaces]
  | cons h t ih =>
    simp only [lexSkipSpaces]
    split
    · have := ih true; simp only [List.length_cons]; omega
    · simp

theorem dropWhile_len {β : Type} (p : β → Bool) (l : List β) : (l.dropWhile p).length ≤ l.length := by
  induction l with
  | nil => simp
  | cons a l ih => simp only [List.dropWhile]; split <;> simp <;> omega

theorem dropComment_len (h : QRn) (t : List QRn) : (dropComment (h :: t)).length < (h :: t).length := by
  simp only [dropComment, List.length_cons]
  exact Nat.lt_succ_of_le (dropWhile_len _ _)

theorem spanToken_len (q : List QRn) : (spanToken q).2.length ≤ q.length := by
  induction q with
  | nil => simp [spanToken]
  | cons h t ih => simp only [spanToken]; split <;> simp <;> omega

theorem spanToken_lt (h : QRn) (t : List QRn) (hh : isTokenRune h.r = true) :
    (spanToken (h :: t)).2.length < (h :: t).length := by
  simp only [spanToken, hh, if_true, List.length_cons]
  exact Nat.lt_succ_of_le (spanToken_len t)

theorem splitAt_len (c : Nat) (q : List QRn) (inner after : List QRn) (h : splitAt c q = some (inner, after)) :
    after.length < q.length := by
  induction q generalizing inner with
  | nil => simp [splitAt] at h
  | cons x t ih =>
    simp only [splitAt] at h
    split at h
    · simp only [Option.some.injEq, Prod.mk.injEq] at h
      rw [← h.2]; simp
    · cases hs : splitAt c t with
      | none => rw [hs] at h; simp at h
      | some p =>
        rw [hs] at h
        simp only [Option.map_some, Option.some.injEq, Prod.mk.injEq] at h
        have := ih p.1 (by rw [hs, ← h.2])
        simp only [List.length_cons]; omega

theorem unquoteLoop_spec (quote : Nat) : ∀ (f : Nat) (acc : List Rn) (q : List QRn), q.length + 1 ≤ f →
    unquoteLoop quote f acc q ≠ .oof ∧ unquoteLoop quote f acc q ≠ .panic ∧
    ∀ out rest, unquoteLoop quote f acc q = .ok (out, rest) → rest.length < q.length := by
  intro f
  induction f with
  | zero => intro acc q h; omega
  | succ f ih =>
    intro acc q h
    cases q with
    | nil => simp [unquoteLoop]
    | cons p rest =>
      simp only [unquoteLoop]
      simp only [List.length_cons] at h
      split
      · refine ⟨by simp, by simp, ?_⟩
        intro out r h'
        simp only [PRes.ok.injEq, Prod.mk.injEq] at h'
        rw [← h'.2]; simp
      · split
        · have := ih (acc ++ [backslashRn]) rest (by omega)
          exact ⟨this.1, this.2.1, fun a b hh => by have := this.2.2 a b hh; simp only [List.length_cons]; omega⟩
        · rename_i ch k _
          have hd : ((p :: rest).drop (max 1 k)).length ≤ rest.length := by
            simp only [List.length_drop, List.length_cons]; omega
          have := ih (acc ++ [ch]) ((p :: rest).drop (max 1 k)) (by omega)
          exact ⟨this.1, this.2.1, fun a b hh => by have := this.2.2 a b hh; simp only [List.length_cons]; omega⟩

theorem unquotePrefix_spec (h : QRn) (t : List QRn) :
    unquotePrefix (h :: t) ≠ .oof ∧ unquotePrefix (h :: t) ≠ .panic ∧
    ∀ out rest, unquotePrefix (h :: t) = .ok (out, rest) → rest.length < t.length := by
  simp only [unquotePrefix]
  cases hs : splitAt h.r.cp t with
  | none => simp
  | some p =>
    obtain ⟨inner, after⟩ := p
    simp only
    split
    · refine ⟨by simp, by simp, ?_⟩
      intro out rest h'
      simp only [PRes.ok.injEq, Prod.mk.injEq] at h'
      rw [← h'.2]
      exact splitAt_len _ _ _ _ hs
    · exact unquoteLoop_spec h.r.cp (t.length + 1) [] t (Nat.le_refl _)

theorem rawPrefix_spec (h : QRn) (t : List QRn) :
    rawPrefix (h :: t) ≠ .oof ∧ rawPrefix (h :: t) ≠ .panic ∧
    ∀ out rest, rawPrefix (h :: t) = .ok (out, rest) → rest.length < t.length := by
  simp only [rawPrefix]
  cases hs : splitAt 96 t with
  | none => simp
  | some p =>
    obtain ⟨inner, after⟩ := p
    refine ⟨by simp, by simp, ?_⟩
    intro out rest h'
    simp only [PRes.ok.injEq, Prod.mk.injEq] at h'
    rw [← h'.2]
    exact splitAt_len _ _ _ _ hs

/-- **Progress of `Next()`**: never a panic, enough fuel, and on a non-empty input strictly less input remains -/
theorem lexNext_spec : ∀ (f : Nat) (sp : Bool) (q : List QRn), q.length + 1 ≤ f →
    lexNext f sp q ≠ .oof ∧ lexNext f sp q ≠ .panic ∧
    ∀ tok rest, lexNext f sp q = .ok (tok, rest) → rest.length ≤ q.length ∧ (q ≠ [] → rest.length < q.length) := by
  intro f
  induction f with
  | zero => intro sp q h; omega
  | succ f ih =>
    intro sp q h
    cases q with
    | nil =>
      simp only [lexNext]
      refine ⟨by simp, by simp, ?_⟩
      intro tok rest h'
      simp only [PRes.ok.injEq, Prod.mk.injEq] at h'
      rw [← h'.2]; simp
    | cons x t =>
      simp only [lexNext]
      simp only [List.length_cons] at h
      split
      · refine ⟨by simp, by simp, ?_⟩
        intro tok rest h'
        simp only [PRes.ok.injEq, Prod.mk.injEq] at h'
        rw [← h'.2]; simp
      · have hsk := lexSkipSpaces_len sp (x :: t)
        simp only [List.length_cons] at hsk
        split
        · refine ⟨by simp, by simp, ?_⟩
          intro tok rest h'
          simp only [PRes.ok.injEq, Prod.mk.injEq] at h'
          rw [← h'.2]; simp
        · rename_i h2 t2 heq
          rw [heq] at hsk
          simp only [List.length_cons] at hsk
          split
          · -- comment
            have hd := dropComment_len h2 t2
            simp only [List.length_cons] at hd
            have := ih (lexSkipSpaces sp (x :: t)).1 (dropComment (h2 :: t2)) (by omega)
            refine ⟨this.1, this.2.1, ?_⟩
            intro tok rest h'
            have := (this.2.2 tok rest h').1
            simp only [List.length_cons]
            exact ⟨by omega, fun _ => by omega⟩
          · split
            · rename_i htr
              have := spanToken_lt h2 t2 htr
              simp only [List.length_cons] at this
              refine ⟨by simp, by simp, ?_⟩
              intro tok rest h'
              simp only [PRes.ok.injEq, Prod.mk.injEq] at h'
              rw [← h'.2]
              simp only [List.length_cons]
              exact ⟨by omega, fun _ => by omega⟩
            · split
              · refine ⟨by simp, by simp, ?_⟩
                intro tok rest h'
                simp only [PRes.ok.injEq, Prod.mk.injEq] at h'
                rw [← h'.2]
                simp only [List.length_cons]
                exact ⟨by omega, fun _ => by omega⟩
              · split
                · have hu := unquotePrefix_spec h2 t2
                  cases hup : unquotePrefix (h2 :: t2) with
                  | ok p =>
                    have := hu.2.2 p.1 p.2 (by rw [hup])
                    simp only
                    refine ⟨by simp, by simp, ?_⟩
                    intro tok rest h'
                    simp only [PRes.ok.injEq, Prod.mk.injEq] at h'
                    rw [← h'.2]
                    simp only [List.length_cons]
                    exact ⟨by omega, fun _ => by omega⟩
                  | err =>
                    simp only
                    refine ⟨by simp, by simp, ?_⟩
                    intro tok rest h'
                    simp only [PRes.ok.injEq, Prod.mk.injEq] at h'
                    rw [← h'.2]
                    simp only [List.length_cons]
                    exact ⟨by omega, fun _ => by omega⟩
                  | panic => exact absurd hup hu.2.1
                  | oof => exact absurd hup hu.1
                · split
                  · have hu := rawPrefix_spec h2 t2
                    cases hup : rawPrefix (h2 :: t2) with
                    | ok p =>
                      have := hu.2.2 p.1 p.2 (by rw [hup])
                      simp only
                      refine ⟨by simp, by simp, ?_⟩
                      intro tok rest h'
                      simp only [PRes.ok.injEq, Prod.mk.injEq] at h'
                      rw [← h'.2]
                      simp only [List.length_cons]
                      exact ⟨by omega, fun _ => by omega⟩
                    | err =>
                      simp only
                      refine ⟨by simp, by simp, ?_⟩
                      intro tok rest h'
                      simp only [PRes.ok.injEq, Prod.mk.injEq] at h'
                      rw [← h'.2]
                      simp only [List.length_cons]
                      exact ⟨by omega, fun _ => by omega⟩
                    | panic => exact absurd hup hu.2.1
                    | oof => exact absurd hup hu.1
                  · refine ⟨by simp, by simp, ?_⟩
                    intro tok rest h'
                    simp only [PRes.ok.injEq, Prod.mk.injEq] at h'
                    rw [← h'.2]
                    simp only [List.length_cons]
                    exact ⟨by omega, fun _ => by omega⟩

/-- **The lexer terminates**: with fuel `len + 1` the loop "call `Next()` until `IsEnd()`" finishes, never panics, and
produces at most one token per rune of the query -/
theorem lexAll_spec : ∀ (f : Nat) (q : List QRn), q.length + 1 ≤ f →
    lexAll f q ≠ .oof ∧ lexAll f q ≠ .panic ∧ ∀ ts, lexAll f q = .ok ts → ts.length ≤ q.length := by
  intro f
  induction f with
  | zero => intro q h; omega
  | succ f ih =>
    intro q h
    simp only [lexAll]
    have hn := lexNext_spec (q.length + 1) false q (Nat.le_refl _)
    cases hl : lexNext (q.length + 1) false q with
    | ok p =>
      obtain ⟨tok, rest⟩ := p
      have hr := hn.2.2 tok rest hl
      simp only [PRes.bind_ok]
      split
      · refine ⟨by simp, by simp, ?_⟩
        intro ts h'
        simp only [PRes.ok.injEq] at h'
        rw [← h']; simp
      · rename_i hend
        -- not at the end: the query was not empty, so the rest is strictly shorter
        have hq : q ≠ [] := by
          intro hq
          subst hq
          simp only [lexNext, PRes.ok.injEq, Prod.mk.injEq] at hl
          rw [← hl.1, ← hl.2] at hend
          simp [RawTok.isEnd] at hend
        have hlt := hr.2 hq
        have := ih rest (by omega)
        refine ⟨PRes.bind_ne_oof this.1 (fun _ _ => by simp), PRes.bind_ne_panic' this.2.1 (fun _ _ => by simp), ?_⟩
        intro ts h'
        obtain ⟨ts', hts, h'⟩ := PRes.bind_eq_ok.mp h'
        have := this.2.2 ts' hts
        simp only [PRes.ok.injEq] at h'
        rw [← h']
        simp only [List.length_cons]; omega
    | err => simp
    | panic => exact absurd hl hn.2.1
    | oof => exact absurd hl hn.1


/-! ## a quoted literal is accepted only if an (unescaped) closing quote terminates it -/

theorem splitAt_spec (c : Nat) (q inner after : List QRn) (h : splitAt c q = some (inner, after)) :
    ∃ p, q = inner ++ p :: after ∧ p.r.cp = c := by
  induction q generalizing inner with
  | nil => simp [splitAt] at h
  | cons x t ih =>
    simp only [splitAt] at h
    split at h
    · rename_i hx
      simp only [Option.some.injEq, Prod.mk.injEq] at h
      exact ⟨x, by rw [← h.1, ← h.2]; rfl, hx⟩
    · cases hs : splitAt c t with
      | none => rw [hs] at h; simp at h
      | some pr =>
        rw [hs] at h
        simp only [Option.map_some, Option.some.injEq, Prod.mk.injEq] at h
        obtain ⟨p, hp, hc⟩ := ih pr.1 (by rw [hs, ← h.2])
        exact ⟨p, by rw [← h.1, hp]; rfl, hc⟩

/-- the unquoting loop stops successfully only at a rune equal to the quote that it meets at an iteration boundary
(i.e. not consumed as part of an escape sequence); what remains is exactly what follows that quote -/
theorem unquoteLoop_closing (quote : Nat) : ∀ (f : Nat) (acc : List Rn) (q : List QRn) (out : List Rn) (rest : List QRn),
    unquoteLoop quote f acc q = .ok (out, rest) → ∃ pre p, q = pre ++ p :: rest ∧ p.r.cp = quote := by
  intro f
  induction f with
  | zero => intro acc q out rest h; cases q <;> simp [unquoteLoop] at h
  | succ f ih =>
    intro acc q out rest h
    cases q with
    | nil => simp [unquoteLoop] at h
    | cons p tl =>
      simp only [unquoteLoop] at h
      split at h
      · rename_i hp
        simp only [PRes.ok.injEq, Prod.mk.injEq] at h
        exact ⟨[], p, by rw [← h.2]; rfl, hp⟩
      · split at h
        · obtain ⟨pre, p', hq, hc⟩ := ih _ _ _ _ h
          exact ⟨p :: pre, p', by rw [hq]; rfl, hc⟩
        · rename_i ch k _
          obtain ⟨pre, p', hq, hc⟩ := ih _ _ _ _ h
          refine ⟨(p :: tl).take (max 1 k) ++ pre, p', ?_, hc⟩
          rw [List.append_assoc, ← hq, List.take_append_drop]

/-- **`unquotePrefix` accepts only terminated literals**: if it returns a token, the input is the opening quote, some
runes, a closing rune equal to the opening quote, and then exactly the returned rest; with no such rune it is an error
(`lexer.Next` then emits the quote character as a one-rune token, and the parsers reject it). -/
theorem unquotePrefix_closing (h : QRn) (t : List QRn) (out : List Rn) (rest : List QRn)
    (hok : unquotePrefix (h :: t) = .ok (out, rest)) : ∃ pre p, t = pre ++ p :: rest ∧ p.r.cp = h.r.cp := by
  simp only [unquotePrefix] at hok
  cases hs : splitAt h.r.cp t with
  | none => rw [hs] at hok; simp at hok
  | some pr =>
    obtain ⟨inner, after⟩ := pr
    rw [hs] at hok
    simp only at hok
    split at hok
    · simp only [PRes.ok.injEq, Prod.mk.injEq] at hok
      obtain ⟨p, hp, hc⟩ := splitAt_spec _ _ _ _ hs
      exact ⟨inner, p, by rw [← hok.2]; exact hp, hc⟩
    · exact unquoteLoop_closing _ _ _ _ _ _ hok

theorem unquotePrefix_no_quote (h : QRn) (t : List QRn) (hn : ∀ x, x ∈ t → x.r.cp ≠ h.r.cp) :
    unquotePrefix (h :: t) = .err := by
  have : splitAt h.r.cp t = none := by
    induction t with
    | nil => rfl
    | cons x tl ih =>
      simp only [splitAt, hn x (by simp), if_false]
      rw [ih (fun y hy => hn y (by simp [hy]))]; rfl
  simp [unquotePrefix, this]

end SV.Parser
