/-!
# util.Bitmask at byte level (util/bitmask.go)

`bin : List Nat` holds the bytes (every element `< 256`, `WF`).  The Go operators are modelled literally:
`&` = `Nat.land`, `|` = `Nat.lor`, `byte(x << k)` = `(x <<< k) % 256`, `>>` = `>>>`, `^mask` = `255 - mask`.
An index outside the slice panics in Go: the `?`-variants return `none` exactly then; the total variants
(`getD .. 0`) are what the theorems talk about, and `*_eq_some` lemmas connect the two.
-/
namespace SV.Bitmask

structure Bitmask where
  size : Int
  bin : List Nat
deriving Repr, DecidableEq

/-- number of bytes `(size+bitsInByte-1)/bitsInByte` (Go `int` division truncates towards zero) -/
def nbytes (size : Int) : Nat := (Int.tdiv (size + 7) 8).toNat

/-- `NewBitmask(size)`: `make([]byte, (size+7)/8)` -/
def new (size : Int) : Bitmask := ⟨size, List.replicate (nbytes size) 0⟩

/-- `make` with a negative length panics -/
def new? (size : Int) : Option Bitmask := if Int.tdiv (size + 7) 8 < 0 then none else some (new size)

def byteAt (bin : List Nat) (i : Nat) : Nat := bin.getD i 0

/-- `Get(pos)`: `(b.bin[pos/8] & (1 << (pos%8))) > 0` -/
def get (bin : List Nat) (pos : Nat) : Bool := decide (byteAt bin (pos / 8) &&& (1 <<< (pos % 8)) > 0)

def get? (bin : List Nat) (pos : Nat) : Option Bool :=
  if pos / 8 < bin.length then some (get bin pos) else none

/-- `Set(pos, state)`: `bin[i] |= mask` or `bin[i] &= ^mask` with `mask = byte(1 << (pos%8))` -/
def set (bin : List Nat) (pos : Nat) (state : Bool) : List Nat :=
  let mask := (1 <<< (pos % 8)) % 256
  if state then bin.set (pos / 8) (byteAt bin (pos / 8) ||| mask)
  else bin.set (pos / 8) (byteAt bin (pos / 8) &&& (255 - mask))

def set? (bin : List Nat) (pos : Nat) (state : Bool) : Option (List Nat) :=
  if pos / 8 < bin.length then some (set bin pos state) else none

/-- the loop `for i := leftIndex + 1; i < rightIndex; i++ { if b.bin[i] > 0 { return true } }` as a count-down
on the number of remaining iterations -/
def anyNonzero (bin : List Nat) (i : Nat) : Nat → Bool
  | 0 => false
  | n + 1 => if byteAt bin i > 0 then true else anyNonzero bin (i + 1) n

def leftMask (left : Nat) : Nat := (255 <<< (left % 8)) % 256
def rightMask (right : Nat) : Nat := 255 >>> (8 - (right % 8 + 1))

/-- `HasBitsIn(left, right)` statement by statement -/
def hasBitsIn (bin : List Nat) (left right : Nat) : Bool :=
  let li := left / 8
  let ri := right / 8
  if li = ri then decide (byteAt bin li &&& leftMask left &&& rightMask right > 0)
  else if byteAt bin li &&& leftMask left > 0 then true
  else if byteAt bin ri &&& rightMask right > 0 then true
  else anyNonzero bin (li + 1) (ri - (li + 1))

/-- the same with Go's index panics: `b.bin[leftIndex]` is evaluated first in both branches, `b.bin[rightIndex]`
only when the left byte had no bit under the mask; the loop indices lie below `rightIndex` -/
def hasBitsIn? (bin : List Nat) (left right : Nat) : Option Bool :=
  let li := left / 8
  let ri := right / 8
  if li ≥ bin.length then none
  else if li = ri then some (hasBitsIn bin left right)
  else if byteAt bin li &&& leftMask left > 0 then some true
  else if ri ≥ bin.length then none
  else some (hasBitsIn bin left right)

/-- `LoadBitmask(size, data)`: `append(b.bin[:0], data[:len(b.bin)]...)`; a shorter `data` panics
(when its capacity is also shorter - the harness only builds exact-capacity slices) -/
def load? (size : Int) (data : List Nat) : Option Bitmask :=
  if Int.tdiv (size + 7) 8 < 0 then none
  else if data.length < nbytes size then none else some ⟨size, data.take (nbytes size)⟩

/-- every element is a byte -/
def WF (bin : List Nat) : Prop := ∀ x, x ∈ bin → x < 256

instance (bin : List Nat) : Decidable (WF bin) := by unfold WF; infer_instance

/-! ## bit view -/

/-- bit `pos` of the bitmap: bit `pos % 8` of byte `pos / 8` -/
def bit (bin : List Nat) (pos : Nat) : Bool := (byteAt bin (pos / 8)).testBit (pos % 8)

theorem byteAt_lt {bin : List Nat} (h : WF bin) (i : Nat) : byteAt bin i < 256 := by
  unfold byteAt
  by_cases hi : i < bin.length
  · have e : bin.getD i 0 = bin[i] := by simp [List.getD_eq_getElem?_getD, hi]
    rw [e]; exact h _ (List.getElem_mem hi)
  · have e : bin.getD i 0 = 0 := by simp [List.getD_eq_getElem?_getD, hi]
    rw [e]; omega

theorem pos_iff_testBit (x : Nat) : x > 0 ↔ ∃ j, x.testBit j = true := by
  constructor
  · intro h; exact Nat.exists_testBit_of_ne_zero (by omega)
  · rintro ⟨j, hj⟩
    rcases Nat.eq_zero_or_pos x with h | h
    · subst h; simp at hj
    · exact h

theorem get_eq_bit (bin : List Nat) (pos : Nat) : get bin pos = bit bin pos := by
  unfold get bit
  generalize byteAt bin (pos / 8) = x
  have hk : pos % 8 < 8 := Nat.mod_lt _ (by omega)
  generalize pos % 8 = k at hk
  rw [Bool.eq_iff_iff, decide_eq_true_iff, pos_iff_testBit]
  constructor
  · rintro ⟨j, hj⟩
    rw [Nat.testBit_and, Nat.one_shiftLeft, Nat.testBit_two_pow] at hj
    simp at hj
    rw [hj.2]; exact hj.1
  · intro h
    refine ⟨k, ?_⟩
    rw [Nat.testBit_and, Nat.one_shiftLeft, Nat.testBit_two_pow]
    simp [h]

theorem testBit_leftMask (l j : Nat) : (leftMask l).testBit j = (decide (l % 8 ≤ j) && decide (j < 8)) := by
  unfold leftMask
  have hk : l % 8 < 8 := Nat.mod_lt _ (by omega)
  generalize l % 8 = k at hk
  have h255 : (255 : Nat) = 2 ^ 8 - 1 := by decide
  have h256 : (256 : Nat) = 2 ^ 8 := by decide
  rw [h256, Nat.testBit_mod_two_pow, Nat.testBit_shiftLeft, h255, Nat.testBit_two_pow_sub_one]
  by_cases h1 : j < 8 <;> by_cases h2 : k ≤ j <;> simp [h1, h2] <;> omega

theorem testBit_rightMask (r j : Nat) : (rightMask r).testBit j = decide (j ≤ r % 8) := by
  unfold rightMask
  have hk : r % 8 < 8 := Nat.mod_lt _ (by omega)
  generalize r % 8 = k at hk
  have h255 : (255 : Nat) = 2 ^ 8 - 1 := by decide
  rw [Nat.testBit_shiftRight, h255, Nat.testBit_two_pow_sub_one]
  by_cases h2 : j ≤ k <;> simp [h2] <;> omega

theorem testBit_ge_8 {x : Nat} (hx : x < 256) {j : Nat} (hj : 8 ≤ j) : x.testBit j = false := by
  apply Nat.testBit_lt_two_pow
  calc x < 2 ^ 8 := by omega
    _ ≤ 2 ^ j := Nat.pow_le_pow_right (by omega) hj

/-- one byte under both masks -/
theorem both_masks (x l r : Nat) :
    (x &&& leftMask l &&& rightMask r > 0) ↔ ∃ j, l % 8 ≤ j ∧ j ≤ r % 8 ∧ x.testBit j = true := by
  have hr : r % 8 < 8 := Nat.mod_lt _ (by omega)
  rw [pos_iff_testBit]
  constructor
  · rintro ⟨j, hj⟩
    rw [Nat.testBit_and, Nat.testBit_and, testBit_leftMask, testBit_rightMask] at hj
    simp at hj
    exact ⟨j, hj.1.2.1, hj.2, hj.1.1⟩
  · rintro ⟨j, h1, h2, h3⟩
    refine ⟨j, ?_⟩
    rw [Nat.testBit_and, Nat.testBit_and, testBit_leftMask, testBit_rightMask]
    simp [h1, h2, h3]; omega

theorem left_mask (x l : Nat) (_hx : x < 256) :
    (x &&& leftMask l > 0) ↔ ∃ j, l % 8 ≤ j ∧ j < 8 ∧ x.testBit j = true := by
  rw [pos_iff_testBit]
  constructor
  · rintro ⟨j, hj⟩
    rw [Nat.testBit_and, testBit_leftMask] at hj
    simp at hj
    exact ⟨j, hj.2.1, hj.2.2, hj.1⟩
  · rintro ⟨j, h1, h2, h3⟩
    refine ⟨j, ?_⟩
    rw [Nat.testBit_and, testBit_leftMask]
    simp [h1, h2, h3]

theorem right_mask (x r : Nat) :
    (x &&& rightMask r > 0) ↔ ∃ j, j ≤ r % 8 ∧ x.testBit j = true := by
  rw [pos_iff_testBit]
  constructor
  · rintro ⟨j, hj⟩
    rw [Nat.testBit_and, testBit_rightMask] at hj
    simp at hj
    exact ⟨j, hj.2, hj.1⟩
  · rintro ⟨j, h1, h2⟩
    refine ⟨j, ?_⟩
    rw [Nat.testBit_and, testBit_rightMask]
    simp [h1, h2]

theorem anyNonzero_iff (bin : List Nat) (i n : Nat) :
    anyNonzero bin i n = true ↔ ∃ k, i ≤ k ∧ k < i + n ∧ byteAt bin k > 0 := by
  induction n generalizing i with
  | zero => simp [anyNonzero]; intro k h1 h2; omega
  | succ n ih =>
    unfold anyNonzero
    by_cases h : byteAt bin i > 0
    · simp only [h, if_true, true_iff]
      exact ⟨i, by omega, by omega, h⟩
    · simp only [h, if_false]
      rw [ih]
      constructor
      · rintro ⟨k, h1, h2, h3⟩; exact ⟨k, by omega, by omega, h3⟩
      · rintro ⟨k, h1, h2, h3⟩
        by_cases hk : k = i
        · subst hk; exact absurd h3 h
        · exact ⟨k, by omega, by omega, h3⟩

/-- a byte of a well-formed bitmap is non-zero iff one of its 8 bits is set -/
theorem byte_pos_iff {bin : List Nat} (h : WF bin) (k : Nat) :
    byteAt bin k > 0 ↔ ∃ j, j < 8 ∧ bit bin (8 * k + j) = true := by
  rw [pos_iff_testBit]
  constructor
  · rintro ⟨j, hj⟩
    have hj8 : j < 8 := by
      by_cases hj8 : j < 8
      · exact hj8
      · rw [testBit_ge_8 (byteAt_lt h k) (by omega)] at hj; simp at hj
    refine ⟨j, hj8, ?_⟩
    unfold bit
    have e1 : (8 * k + j) / 8 = k := by omega
    have e2 : (8 * k + j) % 8 = j := by omega
    rw [e1, e2]; exact hj
  · rintro ⟨j, hj8, hj⟩
    unfold bit at hj
    have e1 : (8 * k + j) / 8 = k := by omega
    have e2 : (8 * k + j) % 8 = j := by omega
    rw [e1, e2] at hj
    exact ⟨j, hj⟩

/-- **HasBitsIn is exact**: for `left ≤ right` it answers whether some bit in `[left, right]` is set. -/
theorem hasBitsIn_iff {bin : List Nat} (h : WF bin) (l r : Nat) (hlr : l ≤ r) :
    hasBitsIn bin l r = true ↔ ∃ i, l ≤ i ∧ i ≤ r ∧ bit bin i = true := by
  unfold hasBitsIn
  simp only
  by_cases he : l / 8 = r / 8
  · simp only [he, if_true, decide_eq_true_iff]
    rw [both_masks]
    constructor
    · rintro ⟨j, h1, h2, h3⟩
      refine ⟨8 * (r / 8) + j, by omega, by omega, ?_⟩
      unfold bit
      have e1 : (8 * (r / 8) + j) / 8 = r / 8 := by omega
      have e2 : (8 * (r / 8) + j) % 8 = j := by omega
      rw [e1, e2]; exact h3
    · rintro ⟨i, h1, h2, h3⟩
      unfold bit at h3
      have e1 : i / 8 = r / 8 := by omega
      rw [e1] at h3
      exact ⟨i % 8, by omega, by omega, h3⟩
  · simp only [he, if_false]
    have hlt : l / 8 < r / 8 := by omega
    by_cases hL : byteAt bin (l / 8) &&& leftMask l > 0
    · simp only [hL, if_true, true_iff]
      rcases (left_mask _ l (byteAt_lt h _)).1 hL with ⟨j, h1, h2, h3⟩
      refine ⟨8 * (l / 8) + j, by omega, by omega, ?_⟩
      unfold bit
      have e1 : (8 * (l / 8) + j) / 8 = l / 8 := by omega
      have e2 : (8 * (l / 8) + j) % 8 = j := by omega
      rw [e1, e2]; exact h3
    · simp only [hL, if_false]
      by_cases hR : byteAt bin (r / 8) &&& rightMask r > 0
      · simp only [hR, if_true, true_iff]
        rcases (right_mask _ r).1 hR with ⟨j, h1, h2⟩
        refine ⟨8 * (r / 8) + j, by omega, by omega, ?_⟩
        unfold bit
        have e1 : (8 * (r / 8) + j) / 8 = r / 8 := by omega
        have e2 : (8 * (r / 8) + j) % 8 = j := by omega
        rw [e1, e2]; exact h2
      · simp only [hR, if_false]
        rw [anyNonzero_iff]
        constructor
        · rintro ⟨k, h1, h2, h3⟩
          rcases (byte_pos_iff h k).1 h3 with ⟨j, hj8, hj⟩
          exact ⟨8 * k + j, by omega, by omega, hj⟩
        · rintro ⟨i, h1, h2, h3⟩
          have hbit := h3
          unfold bit at h3
          by_cases c1 : i / 8 = l / 8
          · exfalso; apply hL
            rw [c1] at h3
            exact (left_mask _ l (byteAt_lt h _)).2 ⟨i % 8, by omega, by omega, h3⟩
          · by_cases c2 : i / 8 = r / 8
            · exfalso; apply hR
              rw [c2] at h3
              exact (right_mask _ r).2 ⟨i % 8, by omega, h3⟩
            · refine ⟨i / 8, by omega, by omega, ?_⟩
              rw [pos_iff_testBit]; exact ⟨i % 8, h3⟩

/-- no panic when both byte indices are inside the slice -/
theorem hasBitsIn?_eq_some (bin : List Nat) (l r : Nat) (hl : l / 8 < bin.length) (hr : r / 8 < bin.length) :
    hasBitsIn? bin l r = some (hasBitsIn bin l r) := by
  unfold hasBitsIn?
  simp only
  have h1 : ¬ (l / 8 ≥ bin.length) := by omega
  have h2 : ¬ (r / 8 ≥ bin.length) := by omega
  simp only [h1, h2, if_false]
  by_cases he : l / 8 = r / 8
  · simp [he]
  · simp only [he, if_false]
    by_cases hL : byteAt bin (l / 8) &&& leftMask l > 0
    · simp only [hL, if_true]
      unfold hasBitsIn; simp [he, hL]
    · simp [hL]

/-! ## Set -/

theorem length_set (bin : List Nat) (pos : Nat) (st : Bool) : (set bin pos st).length = bin.length := by
  unfold set; cases st <;> simp

theorem byteAt_set_other (bin : List Nat) (i : Nat) (v : Nat) (k : Nat) (hk : k ≠ i) :
    byteAt (bin.set i v) k = byteAt bin k := by
  unfold byteAt
  simp [List.getD_eq_getElem?_getD, Ne.symm hk]

theorem byteAt_set_same (bin : List Nat) (i : Nat) (v : Nat) (hi : i < bin.length) :
    byteAt (bin.set i v) i = v := by
  unfold byteAt
  simp [List.getD_eq_getElem?_getD, hi]

theorem testBit_mask (k j : Nat) (hk : k < 8) : ((1 <<< k) % 256).testBit j = decide (k = j) := by
  have h256 : (256 : Nat) = 2 ^ 8 := by decide
  rw [h256, Nat.testBit_mod_two_pow, Nat.one_shiftLeft, Nat.testBit_two_pow]
  by_cases h : k = j <;> simp [h] <;> omega

/-- `Set(pos, true)` sets bit `pos` and keeps every other bit -/
theorem bit_set_true (bin : List Nat) (pos q : Nat) (hp : pos / 8 < bin.length) :
    bit (set bin pos true) q = (decide (q = pos) || bit bin q) := by
  unfold set bit
  simp only [if_true]
  by_cases hq : q / 8 = pos / 8
  · rw [hq, byteAt_set_same _ _ _ hp, Nat.testBit_or, testBit_mask _ _ (Nat.mod_lt _ (by omega))]
    by_cases h : q = pos
    · subst h; simp
    · have : ¬ (pos % 8 = q % 8) := by omega
      simp [h, this]
  · rw [byteAt_set_other _ _ _ _ hq]
    have : q ≠ pos := by intro h; apply hq; rw [h]
    simp [this]

theorem wf_set_true {bin : List Nat} (h : WF bin) (pos : Nat) : WF (set bin pos true) := by
  unfold set
  simp only [if_true]
  intro x hx
  rcases List.mem_or_eq_of_mem_set hx with hx | hx
  · exact h x hx
  · subst hx
    have h1 := byteAt_lt h (pos / 8)
    have h2 : (1 <<< (pos % 8)) % 256 < 256 := Nat.mod_lt _ (by omega)
    have h256 : (256 : Nat) = 2 ^ 8 := by decide
    rw [h256] at h1 h2 ⊢
    exact Nat.or_lt_two_pow h1 h2

theorem wf_replicate (n : Nat) : WF (List.replicate n 0) := by
  intro x hx
  rw [List.mem_replicate] at hx
  omega

theorem bit_replicate (n pos : Nat) : bit (List.replicate n 0) pos = false := by
  unfold bit byteAt
  by_cases h : pos / 8 < n
  · simp [List.getD_eq_getElem?_getD, h]
  · simp [List.getD_eq_getElem?_getD, h]

end SV.Bitmask
