/-!
# C03 - the doc-block cache of `disk.DocsReader` (disk/docs_reader.go `ReadDocsFunc`)

`r.cache.GetWithError(uint32(blockOffset), load)`: a read-through cache keyed by the block's file offset truncated to
uint32.  `readThrough` is one call, `readSeq` a sequence of calls on one reader (cold, then warm).  Other properties
treat the cache as `get k load = load k`; that is sound exactly when the key is injective on the block offsets that
occur - proved here for docs files below 4 GiB, with the collision beyond 4 GiB as an explicit witness.
-/
namespace SV.C03

/-- `uint32(blockOffset)` -/
def docsCacheKey (blockOffset : Nat) : Nat := blockOffset % 4294967296

/-- one `ReadDocsFunc` block look-up: cached value for the key, else load and remember -/
def readThrough {α} (key : Nat → Nat) (load : Nat → α) (cache : List (Nat × α)) (off : Nat) : α × List (Nat × α) :=
  match cache.find? (fun p => p.1 == key off) with
  | some p => (p.2, cache)
  | none => (load off, (key off, load off) :: cache)

/-- a sequence of look-ups on one reader -/
def readSeq {α} (key : Nat → Nat) (load : Nat → α) : List (Nat × α) → List Nat → List α
  | _, [] => []
  | cache, off :: rest => (readThrough key load cache off).1 :: readSeq key load (readThrough key load cache off).2 rest

theorem docsCacheKey_injective (a b : Nat) (ha : a < 4294967296) (hb : b < 4294967296)
    (h : docsCacheKey a = docsCacheKey b) : a = b := by
  unfold docsCacheKey at h; omega

/-- beyond 4 GiB two different block offsets share a key -/
theorem docsCacheKey_collides : docsCacheKey (4294967296 + 64) = docsCacheKey 64 ∧ (4294967296 + 64 ≠ 64) := by decide

/-- every cached value is the block of some offset of the domain with that key -/
def CacheOK {α} (key : Nat → Nat) (load : Nat → α) (dom : Nat → Prop) (cache : List (Nat × α)) : Prop :=
  ∀ p, p ∈ cache → ∃ o, dom o ∧ key o = p.1 ∧ p.2 = load o

theorem readThrough_spec {α} (key : Nat → Nat) (load : Nat → α) (dom : Nat → Prop)
    (hinj : ∀ a b, dom a → dom b → key a = key b → a = b) (cache : List (Nat × α)) (off : Nat)
    (hc : CacheOK key load dom cache) (ho : dom off) :
    (readThrough key load cache off).1 = load off ∧ CacheOK key load dom (readThrough key load cache off).2 := by
  unfold readThrough
  cases hf : cache.find? (fun p => p.1 == key off) with
  | some p =>
    have hm := List.mem_of_find?_eq_some hf
    have hk := List.find?_some hf
    obtain ⟨o, h1, h2, h3⟩ := hc p hm
    have : o = off := hinj o off h1 ho (by rw [h2]; simpa using hk)
    subst this
    exact ⟨h3, hc⟩
  | none =>
    refine ⟨rfl, ?_⟩
    intro p hp
    rcases List.mem_cons.mp hp with rfl | hp
    · exact ⟨off, ho, rfl, rfl⟩
    · exact hc p hp

/-- **the cache is transparent**: with a key that is injective on the offsets that occur, any sequence of reads on
one reader (cold or warm, any order, repetitions) returns for every offset the block stored at that offset -/
theorem readSeq_spec {α} (key : Nat → Nat) (load : Nat → α) (dom : Nat → Prop)
    (hinj : ∀ a b, dom a → dom b → key a = key b → a = b) :
    ∀ (offs : List Nat) (cache : List (Nat × α)), CacheOK key load dom cache → (∀ o, o ∈ offs → dom o) →
      readSeq key load cache offs = offs.map load := by
  intro offs
  induction offs with
  | nil => intro _ _ _; rfl
  | cons o rest ih =>
    intro cache hc hd
    obtain ⟨h1, h2⟩ := readThrough_spec key load dom hinj cache o hc (hd o (by simp))
    simp only [readSeq, List.map_cons, h1]
    rw [ih _ h2 (fun x hx => hd x (List.mem_cons_of_mem _ hx))]

end SV.C03
