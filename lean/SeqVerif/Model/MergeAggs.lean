import SeqVerif.Model.AggMerge
/-!
# The aggregation part of `seq.MergeQPRs` (C05), composed with C06's model of `SamplesContainer` / `AggregatableSamples`

```go
if qpr.Aggs != nil && dst.Aggs == nil { dst.Aggs = make([]AggregatableSamples, len(qpr.Aggs)) }
for i := range qpr.Aggs { dst.Aggs[i].Merge(qpr.Aggs[i]) }
```
`SV.Agg.SC` / `SC.merge` / `AS.merge` (Model/AggSamples.lean, Model/Agg.lean) are the containers and their `Merge`;
`ATree.rep` (Model/AggMerge.lean) is the any-bracketing theorem this file specialises.  `none` for a slice = nil.
-/
namespace SV.Merge
open SV.Agg

/-- `maxHistogramSamples` -/
def sampleLim : Nat := 8096
/-- the replacement index once a container is full (fastrand) - not reached by the channels of C05 -/
def pick0 : List Int → Nat := fun _ => 0

def zipMerge : List AS → List AS → List AS
  | d :: ds, a :: as => AS.merge sampleLim pick0 d a :: zipMerge ds as
  | ds, [] => ds
  | [], _ :: _ => []

/-- one `qpr` of the loop; outer `none` = `dst.Aggs[i]` index out of range -/
def mergeAggsStep (dst : Option (List AS)) (q : Option (List AS)) : Option (Option (List AS)) :=
  match q with
  | none => some dst
  | some qa =>
    let d := match dst with
      | none => qa.map (fun _ => AS.empty)
      | some d => d
    if qa.length ≤ d.length then some (some (zipMerge d qa)) else none

def mergeAggs : Option (List AS) → List (Option (List AS)) → Option (Option (List AS))
  | dst, [] => some dst
  | dst, q :: qs =>
    match mergeAggsStep dst q with
    | none => none
    | some d => mergeAggs d qs

/-- **`SamplesContainer.Merge`: `NotExists` is additive whatever the two `Total`s are**, `Total` and `Sum` are additive -/
theorem sc_merge_additive (lim : Nat) (pick : List Int → Nat) (h hist : SC) (hwf : hist.WF) :
    (SC.merge lim pick h hist).notExists = h.notExists + hist.notExists ∧
    (SC.merge lim pick h hist).total = h.total + hist.total ∧
    (SC.merge lim pick h hist).sum = h.sum + hist.sum := by
  unfold SC.merge
  split
  · rename_i h0
    have := hwf h0
    simp [h0, this.1]
  · simp

/-- what a merge tree over partial results leaves in one bin: the counts and sums of everything that went in -/
theorem tree_bin_sums (t : MTree ALeaf)
    (hleaf : ∀ l, l ∈ t.leaves → KeysNodup l.a.bins ∧ ∀ k, ORep (l.pres k) (l.vals k) (l.ne k) false (l.a.get k))
    (k : Bin) (c : SC) (hc : (t.eval (mergeLeaf sampleLim pick0)).a.get k = some c) :
    c.total = (binVals t.leaves k).length ∧ c.notExists = binNe t.leaves k ∧ c.sum = (binVals t.leaves k).sum := by
  have h := (ATree.rep sampleLim pick0 false t hleaf (by intro hc; cases hc)).2.2 k
  cases hp : binPres t.leaves k with
  | false =>
    have := h.1.absent hp
    rw [this.1] at hc; cases hc
  | true =>
    obtain ⟨c', h1, h2⟩ := h.1.present hp
    rw [h1] at hc; cases hc
    exact ⟨h2.total, h2.notExists, h2.sum⟩

theorem binNe_perm {a b : List ALeaf} (h : a.Perm b) (k : Bin) : binNe a k = binNe b k :=
  List.Perm.sum_nat (List.Perm.map _ h)

theorem binVals_perm {a b : List ALeaf} (h : a.Perm b) (k : Bin) : (binVals a k).Perm (binVals b k) := by
  unfold binVals
  exact List.Perm.flatMap_right _ h

/-- **any order, any grouping**: two merge trees over the same partial results (in any order, bracketed in any way -
fractions per iteration, shards, merge order desc/asc) leave, in every bin, the same `Total`, `NotExists` and `Sum` -/
theorem trees_agree (t1 t2 : MTree ALeaf) (hp : t1.leaves.Perm t2.leaves)
    (hleaf : ∀ l, l ∈ t1.leaves → KeysNodup l.a.bins ∧ ∀ k, ORep (l.pres k) (l.vals k) (l.ne k) false (l.a.get k))
    (k : Bin) (c1 c2 : SC) (h1 : (t1.eval (mergeLeaf sampleLim pick0)).a.get k = some c1)
    (h2 : (t2.eval (mergeLeaf sampleLim pick0)).a.get k = some c2) :
    c1.total = c2.total ∧ c1.notExists = c2.notExists ∧ c1.sum = c2.sum := by
  have a1 := tree_bin_sums t1 hleaf k c1 h1
  have a2 := tree_bin_sums t2 (fun l hl => hleaf l (hp.mem_iff.mpr hl)) k c2 h2
  have hv := binVals_perm hp k
  exact ⟨by rw [a1.1, a2.1, hv.length_eq], by rw [a1.2.1, a2.2.1, binNe_perm hp k], by
    rw [a1.2.2, a2.2.2]; exact sum_perm hv⟩

end SV.Merge
