import SeqVerif.Model.EvalTree
/-!
# IndexSearch refines Spec.search  (C02, the composition proof)

`getLIDsBorders ; buildEvalTree ; iterateEvalTree` on a well-formed index equals the abstract search over the
documents the index stores.
-/
namespace SV.EvalTree
open SV SV.Spec SV.Borders

/-- the predicate the Spec filters with, on LIDs -/
def hitLid (idx : Index) (q : Query) (from_ to : Nat) (lid : Nat) : Bool :=
  inWindow from_ to (docAt idx lid) && docMatches q (docAt idx lid)

theorem docAt_id (idx : Index) (lid : Nat) : (docAt idx lid).id = idAt idx.ids lid := rfl

/-- step 1: the tree yields the LIDs `1..n` in iteration order, filtered by window and query -/
theorem evalTree_eq_filter (idx : Index) (hwf : WF idx) (hs : SortedDesc idx.ids)
    (hr : ∀ id ∈ idx.ids, id.rid ≤ maxU64) (q : Query) (from_ to : Nat)
    (h0 : 0 < from_ ∨ ∀ id ∈ idx.ids, id ≠ ⟨0, 0⟩) (asc : Bool) :
    evalTree idx asc (getLIDsBorders from_ to idx.ids).1 (getLIDsBorders from_ to idx.ids).2 q =
      (rangeNode asc 1 idx.ids.length).filter (hitLid idx q from_ to) := by
  have hd := evalTree_denotes idx hwf asc (getLIDsBorders from_ to idx.ids).1 (getLIDsBorders from_ to idx.ids).2 q
  have hb := getLIDsBorders_range from_ to idx.ids
  apply sortedBy_ext asc _ _ hd.1 (List.Pairwise.filter _ (rangeNode_sorted asc 1 idx.ids.length))
  intro v
  rw [hd.2 v, List.mem_filter, mem_rangeNode]
  unfold hitLid inWindow
  simp only [Bool.and_eq_true, docAt_id]
  constructor
  · rintro ⟨h1, h2, h3⟩
    have hv1 : 1 ≤ v := by omega
    have hv2 : v ≤ idx.ids.length := by omega
    have := (getLIDsBorders_exact from_ to idx.ids hs hr h0 v hv1 hv2).mp ⟨h1, h2⟩
    exact ⟨⟨hv1, hv2⟩, ⟨decide_eq_true this.1, decide_eq_true this.2⟩, h3⟩
  · rintro ⟨⟨hv1, hv2⟩, hw, h3⟩
    have := (getLIDsBorders_exact from_ to idx.ids hs hr h0 v hv1 hv2).mpr ⟨of_decide_eq_true hw.1, of_decide_eq_true hw.2⟩
    exact ⟨this.1, this.2, h3⟩

/-- the IDs of the Spec's hits, in LID order -/
theorem hits_ids (idx : Index) (q : Query) (from_ to : Nat) :
    (hits (docsOf idx) q from_ to).map (·.id) =
      ((List.range' 1 idx.ids.length).filter (hitLid idx q from_ to)).map (idAt idx.ids) := by
  unfold hits docsOf
  rw [List.filter_map, List.map_map]
  rfl

theorem rangeNode_asc (n : Nat) : rangeNode false 1 n = List.range' 1 n := by simp [rangeNode]
theorem rangeNode_desc (n : Nat) : rangeNode true 1 n = (List.range' 1 n).reverse := by simp [rangeNode]

/-- the stored IDs of any filtered run of LIDs are sorted descending -/
theorem filter_ids_sortedDesc (tbl : List ID) (hs : SortedDesc tbl) (p : Nat → Bool) :
    SortedDesc (((List.range' 1 tbl.length).filter p).map (idAt tbl)) := by
  apply List.pairwise_map.mpr
  have hp : ((List.range' 1 tbl.length).filter p).Pairwise
      (fun a b => a < b ∧ 1 ≤ a ∧ b ≤ tbl.length) := by
    apply List.Pairwise.filter
    have h1 := List.pairwise_lt_range' (s := 1) (n := tbl.length)
    have h2 : ∀ a, a ∈ List.range' 1 tbl.length → 1 ≤ a ∧ a ≤ tbl.length := by
      intro a ha; have := List.mem_range'_1.mp ha; omega
    generalize List.range' 1 tbl.length = l at h1 h2
    induction l with
    | nil => exact List.Pairwise.nil
    | cons x xs ih =>
      have h1' := List.pairwise_cons.mp h1
      refine List.pairwise_cons.mpr ⟨?_, ih h1'.2 (fun a ha => h2 a (List.mem_cons_of_mem _ ha))⟩
      intro b hb
      exact ⟨h1'.1 b hb, (h2 x (by simp)).1, (h2 b (List.mem_cons_of_mem _ hb)).2⟩
  refine List.Pairwise.imp ?_ hp
  rintro a b ⟨hab, ha, hb⟩
  exact idAt_mono tbl hs a b ha (by omega) hb

/-- **IndexSearch = Spec.search** on the documents of a well-formed index. -/
theorem search_eq_spec (idx : Index) (hwf : WF idx) (hs : SortedDesc idx.ids)
    (hr : ∀ id ∈ idx.ids, id.rid ≤ maxU64) (q : Query) (from_ to : Nat)
    (h0 : 0 < from_ ∨ ∀ id ∈ idx.ids, id ≠ ⟨0, 0⟩) (asc : Bool) (limit : Nat) (withTotal : Bool) :
    search idx q from_ to asc limit withTotal = Spec.search (docsOf idx) q from_ to asc limit withTotal := by
  unfold search Spec.search
  simp only []
  rw [evalTree_eq_filter idx hwf hs hr q from_ to h0 asc]
  have hic := iterate_correct idx.ids limit withTotal ((rangeNode asc 1 idx.ids.length).filter (hitLid idx q from_ to))
  have hX := hits_ids idx q from_ to
  have hXs := filter_ids_sortedDesc idx.ids hs (hitLid idx q from_ to)
  -- the model's ID sequence is the sorted hit IDs
  have hsort : sortBy (orderLe asc) ((hits (docsOf idx) q from_ to).map (·.id)) =
      ((rangeNode asc 1 idx.ids.length).filter (hitLid idx q from_ to)).map (idAt idx.ids) := by
    apply sortBy_orderLe_eq
    · cases asc
      · rw [rangeNode_asc]
        simpa [orderLe] using hXs
      · rw [rangeNode_desc, List.filter_reverse, List.map_reverse]
        apply List.pairwise_reverse.mpr
        simpa [orderLe] using hXs
    · rw [hX]
      cases asc
      · rw [rangeNode_asc]
      · rw [rangeNode_desc, List.filter_reverse, List.map_reverse]
        exact List.reverse_perm _
  have hlen : (hits (docsOf idx) q from_ to).length =
      ((rangeNode asc 1 idx.ids.length).filter (hitLid idx q from_ to)).length := by
    have := congrArg List.length hX
    simp only [List.length_map] at this
    rw [this]
    cases asc
    · rw [rangeNode_asc]
    · rw [rangeNode_desc, List.filter_reverse, List.length_reverse]
  rw [hsort, hic.1]
  cases withTotal
  · simp
  · simp [hic.2 rfl, hlen]

end SV.EvalTree
