import SeqVerif.Model.ActiveIndexProofs
/-!
# frac/active_lids.go: mergeSorted  (C02)

`TokenLIDs.GetLIDs` sorts the queued LIDs (`sort.Sort(queueIDs)`) and merges them into the sorted list with
`mergeSorted`.  For inputs strictly sorted by (mid, rid, lid) descending the loop returns the strictly sorted
union - hence, whatever the history of queue merges, `GetLIDs` returns `getLIDs ids (all LIDs of the token)`.
-/
namespace SV.ActiveIndex
open SV SV.Spec SV.Borders SV.EvalTree

theorem compare_zero (ids : List ID) (a b : Nat) : compare ids a b = 0 ↔ a = b := by
  unfold compare
  simp only []
  by_cases hab : a = b
  · subst hab; simp
  · generalize idOf ids a = x
    generalize idOf ids b = y
    repeat' split
    all_goals simp
    all_goals omega

theorem compare_one (ids : List ID) (a b : Nat) : compare ids a b = 1 ↔ (keyGe ids a b = true ∧ a ≠ b) := by
  by_cases hab : a = b
  · subst hab
    have := (compare_zero ids a a).mpr rfl
    simp [this]
  · rw [keyGe_iff]
    unfold compare
    simp only []
    generalize idOf ids a = x
    generalize idOf ids b = y
    repeat' split
    all_goals simp
    all_goals omega

theorem compare_neg (ids : List ID) (a b : Nat) (h0 : compare ids a b ≠ 0) (h1 : compare ids a b ≠ 1) :
    keyGe ids b a = true ∧ a ≠ b := by
  have hne : a ≠ b := fun h => h0 ((compare_zero ids a b).mpr h)
  refine ⟨?_, hne⟩
  rcases keyGe_total ids a b with h | h
  · exact absurd ((compare_one ids a b).mpr ⟨h, hne⟩) h1
  · exact h

theorem appendDedup_eq (l : List Nat) (p : Nat) (hn : l.Nodup) (hp : p ∉ l) : appendDedup l p = l := by
  induction l generalizing p with
  | nil => rfl
  | cons v rest ih =>
    have hn' := List.nodup_cons.mp hn
    unfold appendDedup
    have : v ≠ p := fun h => hp (by simp [h])
    simp only [this, if_false]
    rw [ih v hn'.2 hn'.1]

theorem keySorted_nodup (ids : List ID) (l : List Nat) (h : KeySorted ids l) : l.Nodup := h.imp (fun h => h.2)

/-- the loop invariant: `prev` (the last value written) does not occur in what is left -/
theorem mergeLoop_spec (ids : List ID) (right left : List Nat) (prev : Nat)
    (hr : KeySorted ids right) (hl : KeySorted ids left) (hpr : prev ∉ right) (hpl : prev ∉ left) :
    KeySorted ids (mergeLoop ids right left prev) ∧
      ∀ v, v ∈ mergeLoop ids right left prev ↔ v ∈ right ∨ v ∈ left := by
  fun_induction mergeLoop ids right left prev with
  | case1 left prev =>
    rw [appendDedup_eq left prev (keySorted_nodup ids left hl) hpl]
    exact ⟨hl, by simp⟩
  | case2 right prev hne =>
    exact ⟨hr, by simp⟩
  | case3 => exact absurd (by simp) hpr
  | case4 ri rs li ls prev c h0 hp ih =>
    have hrl : ri = li := (compare_zero ids ri li).mp h0
    subst hrl
    have hr' := List.pairwise_cons.mp hr
    have hl' := List.pairwise_cons.mp hl
    have h := ih hr'.2 hl'.2 (fun hm => (hr'.1 _ hm).2 rfl) (fun hm => (hl'.1 _ hm).2 rfl)
    refine ⟨List.pairwise_cons.mpr ⟨?_, h.1⟩, fun v => ?_⟩
    · intro v hv
      rcases (h.2 v).mp hv with hv | hv
      · exact hr'.1 v hv
      · exact hl'.1 v hv
    · simp only [List.mem_cons, h.2 v]
      constructor
      · rintro (h | h | h)
        · exact Or.inl (Or.inl h)
        · exact Or.inl (Or.inr h)
        · exact Or.inr (Or.inr h)
      · rintro ((h | h) | (h | h))
        · exact Or.inl h
        · exact Or.inr (Or.inl h)
        · exact Or.inl h
        · exact Or.inr (Or.inr h)
  | case5 => exact absurd (by simp) hpr
  | case6 ri rs li ls prev c h0 h1 hp ih =>
    have hgt := (compare_one ids ri li).mp h1
    have hr' := List.pairwise_cons.mp hr
    have hl' := List.pairwise_cons.mp hl
    have hnl : ri ∉ li :: ls := by
      intro hm
      rcases List.mem_cons.mp hm with h | h
      · exact hgt.2 h
      · have := hl'.1 ri h
        exact hgt.2 (keyGe_antisymm ids ri li hgt.1 this.1)
    have h := ih hr'.2 hl (fun hm => (hr'.1 _ hm).2 rfl) hnl
    refine ⟨List.pairwise_cons.mpr ⟨?_, h.1⟩, fun v => ?_⟩
    · intro v hv
      rcases (h.2 v).mp hv with hv | hv
      · exact hr'.1 v hv
      · rcases List.mem_cons.mp hv with rfl | hv
        · exact hgt
        · exact ⟨keyGe_trans ids ri li v hgt.1 (hl'.1 v hv).1, fun e => hnl (by rw [e]; exact List.mem_cons_of_mem _ hv)⟩
    · simp only [List.mem_cons, h.2 v]
      constructor
      · rintro (h | h | h)
        · exact Or.inl (Or.inl h)
        · exact Or.inl (Or.inr h)
        · exact Or.inr h
      · rintro ((h | h) | h)
        · exact Or.inl h
        · exact Or.inr (Or.inl h)
        · exact Or.inr (Or.inr h)
  | case7 => exact absurd (by simp) hpl
  | case8 ri rs li ls prev c h0 h1 hp ih =>
    have hlt := compare_neg ids ri li h0 h1
    have hr' := List.pairwise_cons.mp hr
    have hl' := List.pairwise_cons.mp hl
    have hnr : li ∉ ri :: rs := by
      intro hm
      rcases List.mem_cons.mp hm with h | h
      · exact hlt.2 h.symm
      · have := hr'.1 li h
        exact hlt.2 (keyGe_antisymm ids ri li this.1 hlt.1)
    have h := ih hr hl'.2 hnr (fun hm => (hl'.1 _ hm).2 rfl)
    refine ⟨List.pairwise_cons.mpr ⟨?_, h.1⟩, fun v => ?_⟩
    · intro v hv
      rcases (h.2 v).mp hv with hv | hv
      · rcases List.mem_cons.mp hv with rfl | hv
        · exact ⟨hlt.1, fun e => hlt.2 e.symm⟩
        · exact ⟨keyGe_trans ids li ri v hlt.1 (hr'.1 v hv).1, fun e => hnr (by rw [e]; exact List.mem_cons_of_mem _ hv)⟩
      · exact hl'.1 v hv
    · simp only [List.mem_cons, h.2 v]
      constructor
      · rintro (h | h | h)
        · exact Or.inr (Or.inl h)
        · exact Or.inl h
        · exact Or.inr (Or.inr h)
      · rintro (h | h | h)
        · exact Or.inr (Or.inl h)
        · exact Or.inl h
        · exact Or.inr (Or.inr h)

/-- strictly key-sorted lists with the same members are equal -/
theorem keySorted_ext (ids : List ID) (xs ys : List Nat) (hx : KeySorted ids xs) (hy : KeySorted ids ys)
    (hmem : ∀ v, v ∈ xs ↔ v ∈ ys) : xs = ys := by
  apply List.Perm.eq_of_pairwise (le := fun a b => keyGe ids a b = true ∧ a ≠ b)
  · intro a b _ _ h1 h2; exact keyGe_antisymm ids a b h1.1 h2.1
  · exact hx
  · exact hy
  · exact (List.perm_ext_iff_of_nodup (keySorted_nodup ids xs hx) (keySorted_nodup ids ys hy)).mpr hmem

/-- **mergeSorted** on strictly sorted inputs (LIDs below MaxUint32, the initial `prev`) is the strictly sorted
union ... -/
theorem mergeSorted_spec (ids : List ID) (right left : List Nat) (hr : KeySorted ids right) (hl : KeySorted ids left)
    (hmr : maxU32 ∉ right) (hml : maxU32 ∉ left) :
    KeySorted ids (mergeSorted ids right left) ∧ ∀ v, v ∈ mergeSorted ids right left ↔ v ∈ right ∨ v ∈ left :=
  mergeLoop_spec ids right left maxU32 hr hl hmr hml

/-- ... so merging the sorted queue into the sorted list gives what `getLIDs` describes: `GetLIDs` does not
depend on how the token's LIDs were split over queue flushes. -/
theorem mergeSorted_getLIDs (ids : List ID) (old queued : List Nat) (ho : maxU32 ∉ old) (hq : maxU32 ∉ queued) :
    mergeSorted ids (getLIDs ids old) (getLIDs ids queued) = getLIDs ids (old ++ queued) := by
  have h := mergeSorted_spec ids _ _ (getLIDs_strict ids old) (getLIDs_strict ids queued)
    (fun hm => ho ((mem_getLIDs ids old _).mp hm)) (fun hm => hq ((mem_getLIDs ids queued _).mp hm))
  apply keySorted_ext ids _ _ h.1 (getLIDs_strict ids _)
  intro v
  rw [h.2 v, mem_getLIDs, mem_getLIDs, mem_getLIDs, List.mem_append]

end SV.ActiveIndex

namespace SV.ActiveIndex
open SV SV.Spec SV.Borders SV.EvalTree

/-- `inverser.Revert(i)`: `values[i-1]` -/
def revert (mapping : List Nat) (i : Nat) : Nat := mapping.getD (i - 1) 0

/-- `Revert (Inverse v) = v` for every LID known to the inverser -/
theorem revert_inverse (m : List Nat) (size v w : Nat) (h : inverse m size v = some w) : revert m w = v := by
  unfold inverse at h
  split at h
  · cases h
  · split at h
    · rename_i hm
      cases h
      have hlt := List.idxOf_lt_length_iff.mpr hm
      unfold revert
      simp [List.getD, List.getElem?_eq_getElem hlt, List.getElem_idxOf hlt]
    · cases h

/-- `activeIDsIndex.GetMID/GetRID(lid)` read the arrival tables at `Revert(lid)` -/
theorem toIndex_idAt (a : Active) (lid : Nat) (h1 : 1 ≤ lid) (h2 : lid ≤ (mapping a).length) :
    idAt (toIndex a).ids lid = idOf a.ids (revert (mapping a) lid) := by
  rw [toIndex_ids, idAt_eq _ lid h1 (by simpa using h2)]
  unfold revert
  simp [List.getD, List.getElem?_eq_getElem (show lid - 1 < (mapping a).length by omega)]

end SV.ActiveIndex
