import SeqVerif.Model.Kmp
/-!
# KMP as written in pattern/substring.go finds the end of the leftmost occurrence (C13)

`M p t k`  : the first `k` bytes of the pattern `p` are a suffix of the text read so far `t`.
`IsMax p t c` : `c` is the largest such `k` - the automaton state.
`PfOK p pf n` : the first `n` entries of the table are the prefix function of `p`.
Main results: `calcPrefFunc_ok`, `kmp_first_occurrence : findSubstring s ⟨p, calcPrefFunc p⟩ = findEnd p s`.
-/
namespace SV.Kmp
open SV.Greedy

def M (p t : List Nat) (k : Nat) : Prop := k ≤ p.length ∧ p.take k <:+ t

def IsMax (p t : List Nat) (c : Nat) : Prop := M p t c ∧ ∀ k, M p t k → k ≤ c

def PfOK (p pf : List Nat) (n : Nat) : Prop := ∀ j, j < n → IsMax p (p.tail.take j) (pf.getD j 0)

theorem M_zero (p t : List Nat) : M p t 0 := ⟨Nat.zero_le _, by simp⟩

theorem M_le_length {p t : List Nat} {k : Nat} (h : M p t k) : k ≤ t.length := by
  have := h.2.length_le
  simp only [List.length_take] at this
  have := h.1
  omega

theorem M_nil {p : List Nat} {k : Nat} (h : M p [] k) : k = 0 := by
  have := M_le_length h; simpa using this

theorem IsMax_nil (p : List Nat) : IsMax p [] 0 := ⟨M_zero _ _, fun _ h => by rw [M_nil h]; exact Nat.le_refl 0⟩

theorem take_succ_getD (p : List Nat) (k : Nat) (hk : k < p.length) :
    p.take (k + 1) = p.take k ++ [p.getD k 0] := by
  rw [List.take_add_one, List.getD_eq_getElem?_getD, List.getElem?_eq_getElem hk]
  rfl

theorem concat_suffix_concat (x t : List Nat) (a b : Nat) : (x ++ [a]) <:+ (t ++ [b]) ↔ a = b ∧ x <:+ t := by
  rw [← List.reverse_prefix, List.reverse_append, List.reverse_append]
  simp only [List.reverse_cons, List.reverse_nil, List.nil_append, List.cons_append]
  rw [List.cons_prefix_cons, List.reverse_prefix]

/-- one more byte of text: state `k+1` is reachable exactly from state `k` with `p[k] = b` -/
theorem M_step (p t : List Nat) (b k : Nat) (hk : k < p.length) :
    M p (t ++ [b]) (k + 1) ↔ M p t k ∧ p.getD k 0 = b := by
  unfold M
  rw [take_succ_getD p k hk, concat_suffix_concat]
  constructor
  · rintro ⟨_, h1, h2⟩; exact ⟨⟨by omega, h2⟩, h1⟩
  · rintro ⟨⟨_, h2⟩, h1⟩; exact ⟨by omega, h1, h2⟩

theorem take_pos_eq (p : List Nat) (c : Nat) (hc : 0 < c) (hp : p ≠ []) :
    p.take c = p.head hp :: p.tail.take (c - 1) := by
  cases p with
  | nil => exact absurd rfl hp
  | cons a as =>
    obtain ⟨c', rfl⟩ : ∃ c', c = c' + 1 := ⟨c - 1, by omega⟩
    simp

/-- shorter matches of the text are exactly the proper borders of the current match -/
theorem M_transfer (p t : List Nat) (c j : Nat) (hc : M p t c) (hj : j < c) :
    M p t j ↔ M p (p.tail.take (c - 1)) j := by
  have hp : p ≠ [] := by
    intro h; have := hc.1; rw [h] at this; simp at this; omega
  have hc1 := hc.1
  have hlenc : (p.take c).length = c := by rw [List.length_take]; omega
  have hlenj : (p.take j).length = j := by rw [List.length_take]; omega
  have htl : (p.tail.take (c - 1)).length = c - 1 := by
    rw [List.length_take, List.length_tail]; omega
  unfold M
  constructor
  · rintro ⟨h1, h2⟩
    refine ⟨h1, ?_⟩
    have h3 : p.take j <:+ p.take c := List.suffix_of_suffix_length_le h2 hc.2 (by omega)
    rw [take_pos_eq p c (by omega) hp, List.suffix_cons_iff] at h3
    rcases h3 with h3 | h3
    · have := congrArg List.length h3
      simp only [List.length_cons] at this
      omega
    · exact h3
  · rintro ⟨h1, h2⟩
    refine ⟨h1, ?_⟩
    have h3 : p.take j <:+ p.take c := by
      rw [take_pos_eq p c (by omega) hp]
      exact List.suffix_cons_iff.mpr (Or.inr h2)
    exact h3.trans hc.2

/-- the fall-back loop ends in the largest state that can be extended by `b` (or in 0) -/
theorem fallback_spec (p pf t : List Nat) (b n : Nat) (hpf : PfOK p pf n) (hnl : n ≤ pf.length) :
    ∀ (fuel c : Nat), c ≤ fuel → M p t c → c < p.length → c ≤ n →
      (∀ k, M p t k → c < k → k < p.length → p.getD k 0 ≠ b) →
      M p t (fallback p pf b fuel c) ∧ fallback p pf b fuel c ≤ c ∧
      (fallback p pf b fuel c = 0 ∨ p.getD (fallback p pf b fuel c) 0 = b) ∧
      (∀ k, M p t k → k < p.length → p.getD k 0 = b → k ≤ fallback p pf b fuel c) ∧
      fallbackOK p pf b fuel c = true := by
  intro fuel
  induction fuel with
  | zero =>
    intro c hcf hM hcl hcn hinv
    have : c = 0 := by omega
    subst this
    show M p t 0 ∧ 0 ≤ 0 ∧ (0 = 0 ∨ p.getD 0 0 = b) ∧ (∀ k, M p t k → k < p.length → p.getD k 0 = b → k ≤ 0) ∧ true = true
    refine ⟨hM, Nat.le_refl _, Or.inl rfl, ?_, rfl⟩
    intro k hk hkl hkb
    cases Nat.eq_zero_or_pos k with
    | inl h => omega
    | inr h => exact absurd hkb (hinv k hk h hkl)
  | succ fuel ih =>
    intro c hcf hM hcl hcn hinv
    simp only [fallback, fallbackOK]
    split
    · rename_i hcond
      obtain ⟨hc0, hne⟩ := hcond
      have hmax := hpf (c - 1) (by omega)
      have hc' : pf.getD (c - 1) 0 < c := by
        have := M_le_length hmax.1
        simp only [List.length_take] at this
        omega
      have hM' : M p t (pf.getD (c - 1) 0) := (M_transfer p t c _ hM hc').mpr hmax.1
      have := ih (pf.getD (c - 1) 0) (by omega) hM' (by omega) (by omega) (by
        intro k hk hck hkl
        by_cases h1 : c < k
        · exact hinv k hk h1 hkl
        · by_cases h2 : k = c
          · subst h2; exact fun h => hne h.symm
          · have hkc : k < c := by omega
            have := hmax.2 k ((M_transfer p t c k hM hkc).mp hk)
            omega)
      obtain ⟨r1, r2, r3, r4, r5⟩ := this
      refine ⟨r1, by omega, r3, r4, ?_⟩
      have h1 : c - 1 < pf.length := by omega
      rw [if_pos hc0, if_pos hne]
      simp only [Bool.and_eq_true, decide_eq_true_eq]
      exact ⟨hcl, h1, r5⟩
    · rename_i hcond
      refine ⟨hM, Nat.le_refl _, ?_, ?_, ?_⟩
      · by_cases h0 : c = 0
        · exact Or.inl h0
        · right
          by_cases hb : b = p.getD c 0
          · exact hb.symm
          · exact absurd ⟨by omega, hb⟩ hcond
      · intro k hk hkl hkb
        by_cases h1 : c < k
        · exact absurd hkb (hinv k hk h1 hkl)
        · omega
      · by_cases h0 : 0 < c
        · have hb : b = p.getD c 0 := by
            by_cases hb : b = p.getD c 0
            · exact hb
            · exact absurd ⟨h0, hb⟩ hcond
          rw [if_pos h0, if_neg (fun h => h hb)]
          simp only [Bool.and_true, decide_eq_true_eq]
          exact hcl
        · rw [if_neg h0]

/-- one loop body keeps "state = longest matched prefix" -/
theorem kmpStep_spec (p pf t : List Nat) (b n c : Nat) (hpf : PfOK p pf n) (hnl : n ≤ pf.length)
    (hmax : IsMax p t c) (hcl : c < p.length) (hcn : c ≤ n) :
    (IsMax p (t ++ [b]) (kmpStep p pf b c) ∧ kmpStep p pf b c ≤ c + 1) ∧ kmpStepOK p pf b c = true := by
  obtain ⟨r1, r2, r3, r4, r5⟩ := fallback_spec p pf t b n hpf hnl c c (Nat.le_refl _) hmax.1 hcl hcn
    (fun k hk hck _ => by have := hmax.2 k hk; omega)
  refine ⟨?_, by simp only [kmpStepOK, r5, Bool.true_and, decide_eq_true_eq]; omega⟩
  clear r5
  simp only [kmpStep]
  generalize fallback p pf b c c = r at *
  have hrl : r < p.length := by omega
  split
  · rename_i hb
    refine ⟨⟨(M_step p t b r hrl).mpr ⟨r1, hb.symm⟩, ?_⟩, by omega⟩
    intro k hk
    cases k with
    | zero => omega
    | succ k =>
      have hkl : k < p.length := by have := hk.1; omega
      have := (M_step p t b k hkl).mp hk
      have := r4 k this.1 hkl this.2
      omega
  · rename_i hb
    have hr0 : r = 0 := by
      rcases r3 with h | h
      · exact h
      · exact absurd h.symm hb
    subst hr0
    refine ⟨⟨M_zero _ _, ?_⟩, by omega⟩
    intro k hk
    cases k with
    | zero => omega
    | succ k =>
      have hkl : k < p.length := by have := hk.1; omega
      have h1 := (M_step p t b k hkl).mp hk
      have := r4 k h1.1 hkl h1.2
      have hk0 : k = 0 := by omega
      subst hk0
      exact absurd h1.2.symm hb

theorem getD_set (pf : List Nat) (i c j : Nat) (hi : i < pf.length) :
    (pf.set i c).getD j 0 = if i = j then c else pf.getD j 0 := by
  simp only [List.getD_eq_getElem?_getD, List.getElem?_set]
  split
  · simp
  · rfl

theorem calcLoop_spec (p : List Nat) :
    ∀ (rest done : List Nat) (i cur : Nat) (pf : List Nat),
      p.tail = done ++ rest → done.length = i → IsMax p done cur → pf.length = p.length →
      PfOK p pf (i + 1) →
      PfOK p (calcLoop p rest i cur pf) p.length ∧ (calcLoop p rest i cur pf).length = p.length ∧
        calcLoopOK p rest i cur pf = true := by
  intro rest
  induction rest with
  | nil =>
    intro done i cur pf hsplit hlen _ hpflen hpf
    simp only [calcLoop, calcLoopOK]
    have : p.length ≤ i + 1 := by
      have := congrArg List.length hsplit
      simp at this; omega
    refine ⟨?_, hpflen, trivial⟩
    intro j hj
    exact hpf j (by omega)
  | cons b rest ih =>
    intro done i cur pf hsplit hlen hmax hpflen hpf
    simp only [calcLoop, calcLoopOK]
    have hpl : i + 1 < p.length := by
      have := congrArg List.length hsplit
      simp at this; omega
    have hcur : cur ≤ i := by have := M_le_length hmax.1; omega
    obtain ⟨⟨hs1, _⟩, hok⟩ := kmpStep_spec p pf done b (i + 1) cur hpf (by omega) hmax (by omega) (by omega)
    have hw : (decide (i + 1 < pf.length)) = true := by simp; omega
    rw [hok, hw, Bool.true_and, Bool.true_and]
    apply ih (done ++ [b]) (i + 1) (kmpStep p pf b cur)
    · rw [hsplit]; simp
    · simp [hlen]
    · exact hs1
    · simp [hpflen]
    · intro j hj
      rw [getD_set pf (i + 1) _ j (by omega)]
      split
      · rename_i hij
        subst hij
        have : p.tail.take (i + 1) = done ++ [b] := by
          rw [hsplit, ← hlen]
          rw [show done ++ b :: rest = (done ++ [b]) ++ rest by simp]
          exact List.take_left' (by simp)
        rw [this]; exact hs1
      · exact hpf j (by omega)

/-- `calcPrefFunc` computes the prefix function: entry `j` is the longest proper border of `p[0..j]` -/
theorem calcPrefFunc_all (p : List Nat) (hp : p ≠ []) :
    PfOK p (calcPrefFunc p) p.length ∧ (calcPrefFunc p).length = p.length ∧
      calcLoopOK p p.tail 0 0 (List.replicate p.length 0) = true := by
  unfold calcPrefFunc
  apply calcLoop_spec p p.tail [] 0 0 _ (by simp) rfl (IsMax_nil p) (by simp)
  intro j hj
  have hj0 : j = 0 := by omega
  subst hj0
  have hpos : 0 < p.length := List.length_pos_iff.mpr hp
  simp only [List.take_zero, List.getD_eq_getElem?_getD, List.getElem?_replicate, hpos, if_true, Option.getD_some]
  exact IsMax_nil p

theorem calcPrefFunc_ok (p : List Nat) (hp : p ≠ []) : PfOK p (calcPrefFunc p) p.length :=
  (calcPrefFunc_all p hp).1

/-- an occurrence of `p` in `s` ending at `e` -/
def Occ (p s : List Nat) (e : Nat) : Prop := e ≤ s.length ∧ p <:+ s.take e

theorem findLoop_spec (p pf : List Nat) (hpf : PfOK p pf p.length) (hpl : p.length ≤ pf.length) (s : List Nat) :
    ∀ (rest done : List Nat) (i cur : Nat),
      s = done ++ rest → done.length = i → IsMax p done cur → cur < p.length →
      (∀ e, e ≤ i → ¬ Occ p s e) →
      (match findLoop p pf rest i cur with
      | some e => Occ p s e ∧ ∀ e', e' < e → ¬ Occ p s e'
      | none => ∀ e', ¬ Occ p s e') ∧ findLoopOK p pf rest cur = true := by
  intro rest
  induction rest with
  | nil =>
    intro done i cur hs hlen _ _ hno
    simp only [findLoop, findLoopOK]
    refine ⟨?_, trivial⟩
    intro e' hocc
    have : e' ≤ i := by have := hocc.1; rw [hs] at this; simp at this; omega
    exact hno e' this hocc
  | cons b rest ih =>
    intro done i cur hs hlen hmax hcl hno
    simp only [findLoop, findLoopOK]
    obtain ⟨⟨hs1, hs2⟩, hok⟩ := kmpStep_spec p pf done b p.length cur hpf hpl hmax hcl (by omega)
    rw [hok, Bool.true_and]
    have htake : s.take (i + 1) = done ++ [b] := by
      rw [hs, ← hlen, show done ++ b :: rest = (done ++ [b]) ++ rest by simp]
      exact List.take_left' (by simp)
    have hil : i + 1 ≤ s.length := by rw [hs]; simp; omega
    by_cases hfull : kmpStep p pf b cur = p.length
    · rw [if_pos hfull, if_pos hfull]
      refine ⟨⟨⟨hil, ?_⟩, fun e' he' => hno e' (by omega)⟩, rfl⟩
      rw [htake]
      have := hs1.1.2
      rw [hfull, List.take_length] at this
      exact this
    · rw [if_neg hfull, if_neg hfull]
      have hlt : kmpStep p pf b cur < p.length := by
        have := hs1.1.1; omega
      apply ih (done ++ [b]) (i + 1) (kmpStep p pf b cur) (by rw [hs]; simp) (by simp [hlen]) hs1 hlt
      intro e he hocc
      by_cases h1 : e ≤ i
      · exact hno e h1 hocc
      · have he1 : e = i + 1 := by omega
        subst he1
        have hM : M p (done ++ [b]) p.length := ⟨Nat.le_refl _, by rw [List.take_length, ← htake]; exact hocc.2⟩
        have := hs1.2 _ hM
        omega

theorem occ_iff (p s : List Nat) (e : Nat) : Occ p s e ↔ ∃ y r, s = y ++ p ++ r ∧ e = y.length + p.length := by
  constructor
  · rintro ⟨h1, ⟨y, hy⟩⟩
    refine ⟨y, s.drop e, ?_, ?_⟩
    · rw [hy, List.take_append_drop]
    · have := congrArg List.length hy
      simp only [List.length_append, List.length_take] at this
      omega
  · rintro ⟨y, r, rfl, rfl⟩
    refine ⟨by simp, ?_⟩
    rw [List.take_left' (by simp)]
    exact List.suffix_append y p

/-- **KMP as written equals the leftmost-occurrence specification.** -/
theorem kmp_first_occurrence (p s : List Nat) (hp : p ≠ []) :
    findSubstring s ⟨p, calcPrefFunc p⟩ = findEnd p s := by
  have hpos : 0 < p.length := List.length_pos_iff.mpr hp
  have h := (findLoop_spec p (calcPrefFunc p) (calcPrefFunc_ok p hp) (by rw [(calcPrefFunc_all p hp).2.1]; exact Nat.le_refl _)
      s s [] 0 0 (by simp) rfl (IsMax_nil p) hpos
    (by
      intro e he hocc
      have he0 : e = 0 := by omega
      subst he0
      have := hocc.2.length_le
      rw [List.take_zero, List.length_nil] at this
      omega)).1
  simp only [findSubstring]
  cases hk : findLoop p (calcPrefFunc p) s 0 0 with
  | none =>
    rw [hk] at h
    cases hf : findEnd p s with
    | none => rfl
    | some e =>
      exfalso
      obtain ⟨⟨x, hx, he⟩, _⟩ := findEnd_some p s e hf
      exact h e ((occ_iff p s e).mpr ⟨x, _, hx, he⟩)
  | some e1 =>
    rw [hk] at h
    obtain ⟨hocc, hleft⟩ := h
    obtain ⟨y, r, hy, hey⟩ := (occ_iff p s e1).mp hocc
    cases hf : findEnd p s with
    | none => exact absurd ⟨y, r, hy⟩ (findEnd_none p s hf)
    | some e2 =>
      obtain ⟨⟨x, hx, he⟩, hmin⟩ := findEnd_some p s e2 hf
      have h1 : e2 ≤ e1 := by have := hmin y r hy; omega
      have h2 : ¬ e2 < e1 := fun hlt => hleft e2 hlt ((occ_iff p s e2).mpr ⟨x, _, hx, he⟩)
      have : e1 = e2 := by omega
      rw [this]

/-- **No out-of-range access in the KMP loops**, for every non-empty fragment and every text: all reads of
`val[..]` / `prefFunc[..]` and the write `prefFunc[i+1]` in `calcPrefFunc` and `findSubstring` are in range. -/
theorem kmp_in_range (p : List Nat) (hp : p ≠ []) :
    calcLoopOK p p.tail 0 0 (List.replicate p.length 0) = true ∧
    ∀ s, findLoopOK p (calcPrefFunc p) s 0 = true := by
  have hall := calcPrefFunc_all p hp
  refine ⟨hall.2.2, fun s => ?_⟩
  have hpos : 0 < p.length := List.length_pos_iff.mpr hp
  exact (findLoop_spec p (calcPrefFunc p) hall.1 (by rw [hall.2.1]; exact Nat.le_refl _) s s [] 0 0 (by simp) rfl
    (IsMax_nil p) hpos (by
      intro e he hocc
      have he0 : e = 0 := by omega
      subst he0
      have := hocc.2.length_le
      rw [List.take_zero, List.length_nil] at this
      omega)).2

end SV.Kmp
