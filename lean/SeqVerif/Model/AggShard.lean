/-!
# C06: what the proxy makes of a store's response code (`proxy/search.Ingestor.searchShard` / `search`)

A store that refuses a request answers with a normal `SearchResponse` whose `Code` is not `NO_ERROR` and whose body
is empty.  `searchShard` switches over the code; an arm returns an error, no arm means "this is data".  `search`
turns the shards' results into: an error (nothing usable / a fatal refusal), a partial response (flagged), or the
list of partial results to merge.  The arms are re-extracted from the source on every run (`shardCodeArms`).
-/
namespace SV.Agg

/-- `storeapi.SearchErrorCode` (all declared values; `c06_x_shard_codes` checks the list against the .pb.go) -/
inductive Code | noError | wantsOldData | tooManyUniq | tooManyFractions
deriving DecidableEq, Repr

def Code.all : List Code := [.noError, .wantsOldData, .tooManyUniq, .tooManyFractions]

def Code.name : Code → String
  | .noError => "SearchErrorCode_NO_ERROR"
  | .wantsOldData => "SearchErrorCode_INGESTOR_QUERY_WANTS_OLD_DATA"
  | .tooManyUniq => "SearchErrorCode_TOO_MANY_UNIQ_VALUES"
  | .tooManyFractions => "SearchErrorCode_TOO_MANY_FRACTIONS_HIT"

inductive ShardOutcome | data | refused (c : Code)
deriving DecidableEq, Repr

/-- `searchShard` after a transport-level success: `arms` = the case labels of `switch resp.Code` (each returns an error) -/
def shardOutcome (arms : List String) (c : Code) : ShardOutcome :=
  if ("storeapi." ++ c.name) ∈ arms then .refused c else .data

inductive Outcome | ok (merged : Nat) | partialResponse (merged : Nat) | error
deriving DecidableEq, Repr

/-- `Ingestor.search` over the shards' outcomes: old-data and too-many-fractions refusals are fatal, other
refusals make the response partial when at least one shard delivered data, an error otherwise -/
def searchOutcome (outs : List ShardOutcome) : Outcome :=
  if outs.any (fun o => o = .refused .wantsOldData ∨ o = .refused .tooManyFractions) then .error
  else
    let nData := (outs.filter (· = .data)).length
    if outs.any (· ≠ .data) then (if nData ≠ 0 then .partialResponse nData else .error)
    else .ok nData

/-- with an arm for every code but `NO_ERROR`, a refusal is never taken for data -/
theorem shardOutcome_total (arms : List String)
    (h : ∀ c, c ∈ Code.all → c ≠ .noError → ("storeapi." ++ c.name) ∈ arms) (c : Code) (hc : c ≠ .noError) :
    shardOutcome arms c = .refused c := by
  unfold shardOutcome
  have : c ∈ Code.all := by cases c <;> simp [Code.all]
  simp [h c this hc]

/-- **never silently short**: when the proxy reports plain success, every shard answered `NO_ERROR` and every
shard's result is merged -/
theorem searchOutcome_ok (arms : List String)
    (h : ∀ c, c ∈ Code.all → c ≠ .noError → ("storeapi." ++ c.name) ∈ arms)
    (codes : List Code) (n : Nat) (hok : searchOutcome (codes.map (shardOutcome arms)) = .ok n) :
    n = codes.length ∧ ∀ c, c ∈ codes → c = .noError := by
  unfold searchOutcome at hok
  split at hok
  · cases hok
  · simp only at hok
    split at hok
    · split at hok <;> cases hok
    · rename_i hany
      have hall : ∀ c, c ∈ codes → shardOutcome arms c = .data := by
        intro c hc
        cases hd : shardOutcome arms c with
        | data => rfl
        | refused c' =>
          exfalso
          apply hany
          exact List.any_eq_true.mpr ⟨_, List.mem_map_of_mem hc, by simp [hd]⟩
      have hno : ∀ c, c ∈ codes → c = .noError := by
        intro c hc
        cases hce : decide (c = .noError) with
        | true => exact of_decide_eq_true hce
        | false =>
          have hne : c ≠ .noError := of_decide_eq_false hce
          have := shardOutcome_total arms h c hne
          rw [hall c hc] at this
          cases this
      refine ⟨?_, hno⟩
      simp only [Outcome.ok.injEq] at hok
      rw [← hok, List.filter_eq_self.mpr]
      · simp
      · intro o ho
        obtain ⟨c, hc, rfl⟩ := List.mem_map.mp ho
        simp [hall c hc]

end SV.Agg
