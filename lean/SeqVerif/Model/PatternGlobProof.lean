import SeqVerif.Model.PatternGlob
import SeqVerif.Model.KmpProof
/-!
# wildcardSearch.check / literalSearch.check = glob semantics (C13)

`WF terms` is what the parsers guarantee: non-empty, never two text terms next to each other, no empty text
term strictly inside (parser/seqql_filter.go:parseSeqQLKeyword/parseSeqQLText, parser/term_builder.go).
-/
namespace SV.Pattern
open SV.Kmp SV.Greedy

def texts (l : List Term) : List Bytes := (l.filter Term.isText).map Term.data

def lastData (l : List Term) : Bytes := (l.getLast?.getD .star).data

/-! ## fragments: KMP-based `findSequence` = greedy specification -/

theorem findSequence_le (s : List Nat) (sps : List SubPat) : findSequence s sps ≤ sps.length := by
  induction sps generalizing s with
  | nil => simp [findSequence]
  | cons t ts ih =>
    simp only [findSequence]
    split
    · exact Nat.zero_le _
    · rename_i e _
      have := ih (s.drop e)
      simp only [List.length_cons]; omega

theorem beq_succ_aux (x n : Nat) : (1 + x == n + 1) = (x == n) := by
  rw [Bool.eq_iff_iff]; simp only [beq_iff_eq]; omega

theorem findSequence_eq_findSeq (ms : List Bytes) (sps : List SubPat) (h : newSubstringPatterns ms = some sps)
    (s : List Nat) : (findSequence s sps == sps.length) = findSeq ms s := by
  induction ms generalizing sps s with
  | nil =>
    simp only [newSubstringPatterns, Option.some.injEq] at h
    subst h; simp [findSequence, findSeq]
  | cons m ms ih =>
    simp only [newSubstringPatterns] at h
    split at h
    · rename_i x xs hx hxs
      simp only [Option.some.injEq] at h
      subst h
      simp only [newSubstringPattern] at hx
      split at hx
      · simp at hx
      · rename_i hm
        simp only [Option.some.injEq] at hx
        subst hx
        simp only [findSequence, findSeq]
        rw [kmp_first_occurrence m s hm]
        cases findEnd m s with
        | none => simp
        | some e =>
          simp only
          rw [← ih xs hxs (s.drop e)]
          have := findSequence_le (s.drop e) xs
          simp only [List.length_cons]
          exact beq_succ_aux _ _
    · simp at h

theorem Mid_length (ms : List Bytes) (s : Bytes) (h : Mid ms s) : (ms.map List.length).sum ≤ s.length := by
  induction ms generalizing s with
  | nil => simp
  | cons m ms ih =>
    obtain ⟨x, rest, hs, hr⟩ := h
    have := ih rest hr
    rw [hs]; simp; omega

theorem newSubstringPatterns_length (ms : List Bytes) (sps : List SubPat) (h : newSubstringPatterns ms = some sps) :
    sps.length = ms.length := by
  induction ms generalizing sps with
  | nil => simp only [newSubstringPatterns, Option.some.injEq] at h; subst h; rfl
  | cons m ms ih =>
    simp only [newSubstringPatterns] at h
    split at h
    · rename_i x xs hx hxs
      simp only [Option.some.injEq] at h
      subst h; simp [ih xs hxs]
    · simp at h

theorem newSubstringPatterns_some (ms : List Bytes) (h : ∀ d ∈ ms, d ≠ []) :
    ∃ sps, newSubstringPatterns ms = some sps := by
  induction ms with
  | nil => exact ⟨[], rfl⟩
  | cons m ms ih =>
    obtain ⟨xs, hxs⟩ := ih (fun d hd => h d (List.mem_cons_of_mem _ hd))
    have hm : m ≠ [] := h m (List.mem_cons_self ..)
    refine ⟨⟨m, calcPrefFunc m⟩ :: xs, ?_⟩
    simp [newSubstringPatterns, newSubstringPattern, hm, hxs]

/-! ## the three checks = "prefix ++ core ++ suffix with the fragments inside core" -/

/-- the slice handed to `findSequence` -/
def coreOf (pre suf v : Bytes) : Bytes := (v.take (v.length - suf.length)).drop pre.length

theorem prefix_suffix_iff (s : Wild) (hn : s.narrowed = false) (v : Bytes) :
    (s.checkPrefix v && s.checkSuffix v) = true ↔ v = s.pre ++ coreOf s.pre s.suf v ++ s.suf := by
  simp only [Wild.checkPrefix, Wild.checkSuffix, hn, coreOf, Bool.and_eq_true]
  constructor
  · rintro ⟨hp, hsf⟩
    -- prefix part
    have hpre : s.pre.length ≤ v.length ∧ v.take s.pre.length = s.pre := by
      by_cases h0 : s.pre.length = 0
      · have : s.pre = [] := List.eq_nil_of_length_eq_zero h0
        simp [this]
      · simp only [Bool.false_eq_true, h0, or_self, if_false] at hp
        split at hp
        · simp at hp
        · rename_i hle
          exact ⟨by omega, (beq_iff_eq.mp hp).symm⟩
    have hsuf : s.suf.length + s.pre.length ≤ v.length ∧ v.drop (v.length - s.suf.length) = s.suf := by
      by_cases h0 : s.suf.length = 0
      · have : s.suf = [] := List.eq_nil_of_length_eq_zero h0
        simp [this]; exact hpre.1
      · simp only [h0, if_false] at hsf
        split at hsf
        · simp at hsf
        · exact ⟨by omega, beq_iff_eq.mp hsf⟩
    obtain ⟨hp1, hp2⟩ := hpre
    obtain ⟨hs1, hs2⟩ := hsuf
    have h1 : v = v.take (v.length - s.suf.length) ++ s.suf := by
      conv => lhs; rw [← List.take_append_drop (v.length - s.suf.length) v, hs2]
    have h2 : v.take (v.length - s.suf.length) =
        s.pre ++ (v.take (v.length - s.suf.length)).drop s.pre.length := by
      conv => lhs; rw [← List.take_append_drop s.pre.length (v.take (v.length - s.suf.length))]
      congr 1
      rw [List.take_take, Nat.min_eq_left (by omega)]
      exact hp2
    conv => lhs; rw [h1, h2]
  · intro hv
    have hlen : v.length = s.pre.length + (coreOf s.pre s.suf v).length + s.suf.length := by
      have := congrArg List.length hv
      simp [coreOf] at this ⊢; omega
    constructor
    · by_cases h0 : s.pre.length = 0
      · simp [h0]
      · simp only [Bool.false_eq_true, h0, or_self, if_false]
        rw [if_neg (by omega)]
        rw [beq_iff_eq]
        conv => rhs; rw [hv]
        simp [List.append_assoc]
    · by_cases h0 : s.suf.length = 0
      · simp [h0]
      · simp only [h0, if_false]
        rw [if_neg (by omega)]
        rw [beq_iff_eq]
        conv => lhs; rw [hv]
        rw [List.drop_left' (by simp [coreOf] at hlen ⊢; omega)]

theorem wild_check_iff (s : Wild) (ms : List Bytes) (hn : s.narrowed = false)
    (hms : newSubstringPatterns ms = some s.middle) (hlen : s.middleLen = (ms.map List.length).sum) (v : Bytes) :
    s.check v = true ↔ ∃ core, v = s.pre ++ core ++ s.suf ∧ Mid ms core := by
  have hmid : ∀ core, v = s.pre ++ core ++ s.suf → (s.checkMiddle v = true ↔ Mid ms core) := by
    intro core hv
    have hvl : v.length = s.pre.length + core.length + s.suf.length := by
      have := congrArg List.length hv; simp at this; omega
    have hcore : (v.take (v.length - s.suf.length)).drop s.pre.length = core := by
      rw [hv, List.take_left' (by simp; omega), List.drop_left' rfl]
    simp only [Wild.checkMiddle]
    have hl := newSubstringPatterns_length ms s.middle hms
    by_cases h0 : s.middle.length = 0
    · have : ms = [] := List.eq_nil_of_length_eq_zero (by omega)
      simp [h0, this, Mid]
    · simp only [h0, if_false]
      by_cases hg : v.length < s.middleLen + s.pre.length + s.suf.length
      · simp only [hg, if_true, Bool.false_eq_true, false_iff]
        intro hM
        have := Mid_length ms core hM
        omega
      · simp only [hg, if_false]
        rw [hcore, findSequence_eq_findSeq ms s.middle hms core, findSeq_iff_mid]
  simp only [Wild.check, Bool.and_eq_true]
  constructor
  · rintro ⟨hps, hm⟩
    have hv := (prefix_suffix_iff s hn v).mp (by simpa [Bool.and_eq_true] using hps)
    exact ⟨_, hv, (hmid _ hv).mp hm⟩
  · rintro ⟨core, hv, hM⟩
    have hc : coreOf s.pre s.suf v = core := by
      have hvl : v.length = s.pre.length + core.length + s.suf.length := by
        have := congrArg List.length hv; simp at this; omega
      simp only [coreOf]
      rw [hv, List.take_left' (by simp; omega), List.drop_left' rfl]
    have := (prefix_suffix_iff s hn v).mpr (by rw [hc]; exact hv)
    exact ⟨by simpa [Bool.and_eq_true] using this, (hmid core hv).mpr hM⟩

/-! ## glob of a star-led term list -/

theorem glob_star_led : ∀ (ts : List Term) (w : Bytes), noAdj (.star :: ts) = true →
    (Glob (.star :: ts) w ↔
      ∃ core, w = core ++ lastData (.star :: ts) ∧ Mid (texts ((Term.star :: ts).dropLast)) core)
  | [], w, _ => by
    rw [glob_star_iff]
    simp only [lastData, texts, Mid, List.getLast?_singleton, Option.getD_some, Term.data, List.append_nil,
      List.dropLast_singleton, List.filter_nil, List.map_nil, and_true]
    constructor
    · intro _; exact ⟨w, rfl⟩
    · intro _; exact ⟨w, [], by simp, .nil⟩
  | .star :: ts', w, h => by
    have h' : noAdj (.star :: ts') = true := by simpa [noAdj, Term.isText] using h
    rw [glob_star_iff]
    have hl : lastData (.star :: .star :: ts') = lastData (.star :: ts') := by simp [lastData]
    have ht : texts ((Term.star :: .star :: ts').dropLast) = texts ((Term.star :: ts').dropLast) := by
      simp [List.dropLast, texts, Term.isText]
    rw [hl, ht]
    constructor
    · rintro ⟨x, w', rfl, hg⟩
      obtain ⟨core, rfl, hM⟩ := (glob_star_led ts' w' h').mp hg
      exact ⟨x ++ core, by simp, Mid.prepend _ x core hM⟩
    · rintro ⟨core, rfl, hM⟩
      exact ⟨[], _, rfl, (glob_star_led ts' _ h').mpr ⟨core, rfl, hM⟩⟩
  | [.text m], w, _ => by
    rw [glob_star_iff]
    simp only [lastData, texts, Term.data, List.dropLast, List.filter, Term.isText, List.map_nil, Mid,
      List.getLast?_cons_cons, List.getLast?_singleton, Option.getD_some, and_true]
    constructor
    · rintro ⟨x, w', rfl, hg⟩
      obtain ⟨u, rfl, hu⟩ := (glob_text_iff m [] w').mp hg
      rw [(glob_nil_iff u).mp hu]
      exact ⟨x, by simp⟩
    · rintro ⟨core, rfl⟩
      exact ⟨core, m, rfl, by simpa using Glob.text m .nil⟩
  | .text m :: .star :: ts'', w, h => by
    have h' : noAdj (.star :: ts'') = true := by simpa [noAdj, Term.isText] using h
    have hl : lastData (.star :: .text m :: .star :: ts'') = lastData (.star :: ts'') := by simp [lastData]
    have ht : texts ((Term.star :: .text m :: .star :: ts'').dropLast) = m :: texts ((Term.star :: ts'').dropLast) := by
      simp [List.dropLast, texts, Term.isText, Term.data, List.filter]
    rw [hl, ht, glob_star_iff]
    simp only [Mid]
    constructor
    · rintro ⟨x, w', rfl, hg⟩
      obtain ⟨u, rfl, hu⟩ := (glob_text_iff m _ w').mp hg
      obtain ⟨core, rfl, hM⟩ := (glob_star_led ts'' u h').mp hu
      exact ⟨x ++ m ++ core, by simp, x, core, rfl, hM⟩
    · rintro ⟨core, rfl, x, rest, rfl, hM⟩
      refine ⟨x, m ++ (rest ++ lastData (.star :: ts'')), by simp, ?_⟩
      exact Glob.text m ((glob_star_led ts'' _ h').mpr ⟨rest, rfl, hM⟩)
  | .text _ :: .text _ :: _, _, h => by simp [noAdj, Term.isText] at h

/-! ## the theorem -/

theorem checkTerms_iff_glob (terms : List Term) (hwf : WF terms) (v : Bytes) :
    ∃ b, checkTerms terms false v = some b ∧ (b = true ↔ Glob terms v) := by
  unfold WF wfB at hwf
  simp only [Bool.and_eq_true, Bool.not_eq_true', List.all_eq_true] at hwf
  obtain ⟨⟨hne, hadj⟩, hmid⟩ := hwf
  have hmid' : ∀ d ∈ middleTerms terms, d ≠ [] := by
    intro d hd; have := hmid d hd; simpa using this
  match terms, hne, hadj, hmid' with
  | [], hne, _, _ => simp at hne
  | [.text d], _, _, _ =>
    refine ⟨_, rfl, ?_⟩
    simp only [Lit.check, Bool.false_eq_true, if_false, beq_iff_eq]
    rw [glob_text_iff]
    constructor
    · rintro rfl; exact ⟨[], by simp, .nil⟩
    · rintro ⟨w, rfl, hw⟩; rw [(glob_nil_iff w).mp hw]; simp
  | [.star], _, _, _ =>
    refine ⟨true, by simp [checkTerms, newWildcardSearch, middleTerms, newSubstringPatterns, Term.isText,
      Wild.check, Wild.checkPrefix, Wild.checkSuffix, Wild.checkMiddle], ?_⟩
    simp only [true_iff]
    exact (glob_star_iff [] v).mpr ⟨v, [], by simp, .nil⟩
  | .text a :: .text _ :: _, _, hadj, _ => simp [noAdj, Term.isText] at hadj
  | .text a :: .star :: rest, _, hadj, hmid' =>
    have hadj' : noAdj (.star :: rest) = true := by simpa [noAdj, Term.isText] using hadj
    have hmt : middleTerms (.text a :: .star :: rest) = texts ((Term.star :: rest).dropLast) := by
      simp [middleTerms, texts]
    obtain ⟨sps, hsps⟩ := newSubstringPatterns_some _ hmid'
    have hcheck : checkTerms (.text a :: .star :: rest) false v =
        some (Wild.check ⟨a, lastData (.star :: rest), sps,
          ((middleTerms (.text a :: .star :: rest)).map List.length).sum, false⟩ v) := by
      simp only [checkTerms, newWildcardSearch, hsps, Term.isText, Term.data, if_true, Option.map_some]
      congr 2
      simp only [lastData, List.getLast?_cons_cons]
      cases h : (List.getLast? (Term.star :: rest)).getD Term.star <;> simp [Term.data]
    refine ⟨_, hcheck, ?_⟩
    rw [wild_check_iff _ (middleTerms (.text a :: .star :: rest)) rfl hsps rfl, glob_text_iff]
    simp only [hmt]
    constructor
    · rintro ⟨core, rfl, hM⟩
      exact ⟨core ++ lastData (.star :: rest), by simp, (glob_star_led rest _ hadj').mpr ⟨core, rfl, hM⟩⟩
    · rintro ⟨w, rfl, hg⟩
      obtain ⟨core, rfl, hM⟩ := (glob_star_led rest w hadj').mp hg
      exact ⟨core, by simp, hM⟩
  | .star :: t1 :: rest, _, hadj, hmid' =>
    have hmt : middleTerms (.star :: t1 :: rest) = texts ((Term.star :: t1 :: rest).dropLast) := by
      simp [middleTerms, texts, List.dropLast, Term.isText]
    obtain ⟨sps, hsps⟩ := newSubstringPatterns_some _ hmid'
    have hcheck : checkTerms (.star :: t1 :: rest) false v =
        some (Wild.check ⟨[], lastData (.star :: t1 :: rest), sps,
          ((middleTerms (.star :: t1 :: rest)).map List.length).sum, false⟩ v) := by
      simp only [checkTerms, newWildcardSearch, hsps, Term.isText, Option.map_some]
      congr 2
      simp only [lastData]
      cases h : (List.getLast? (Term.star :: t1 :: rest)).getD Term.star <;> simp [Term.data]
    refine ⟨_, hcheck, ?_⟩
    rw [wild_check_iff _ (middleTerms (.star :: t1 :: rest)) rfl hsps rfl, glob_star_led (t1 :: rest) v hadj]
    simp only [hmt, List.nil_append]

end SV.Pattern
