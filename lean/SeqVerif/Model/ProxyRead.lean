import SeqVerif.Model.ProxySearch
import SeqVerif.Model.DocsMerge
/-!
# C16: `Ingestor.Search` end to end - search, merge, paginate, then `FetchDocsStream` over the returned IDs and
`len(ids)` calls of `Next` (what `proxyapi.makeProtoDocs` does).  Core-only.
-/
namespace SV.ProxyRead
open SV.ProxySearch SV.DocsMerge

/-- a store's `source` number: the harness names the replica `rep` of shard `s` (cold tier: +10000) -/
def srcNat (cold : Bool) (s : Src) : Nat := (if cold then 10000 else 0) + s.1 * 100 + s.2

def toIDS (cold : Bool) (hint : Nat) (p : ProxySearch.ID × Src) : IDS := ⟨p.1, srcNat cold p.2, hint⟩

inductive Full
  | err (k : ErrKind)
  | panic
  | fetchErr                       -- "all shards requests failed"
  | ok (ids : List (ProxySearch.ID × Src)) (total nerr : Nat) (partialResp cold : Bool) (docs : List Doc)
deriving Repr, DecidableEq

/-- `Search` with `ShouldFetch`; `hint` is the hint every store attaches to its IDs (0 = none), `order` the order in
    which the per-source map of `FetchDocsStream` is visited, `behav` the per-source fetch behaviour -/
def searchAndFetch (hot cold : List (Nat × ShardRes)) (offset size : Nat) (rev : Bool) (hint : Nat)
    (shouldFetch : Bool) (order : List Nat) (behav : Nat → Option (List Ev)) : Full :=
  match search hot cold offset size rev with
  | .err k => .err k
  | .panic => .panic
  | .ok ids total nerr p c =>
    if shouldFetch && !ids.isEmpty then
      match fetchDocsStream (ids.map (toIDS c hint)) order behav with
      | none => .fetchErr
      | some .panic => .panic
      | some .nofuel => .panic
      | some (.val docs) => .ok ids total nerr p c docs
    else .ok ids total nerr p c []

/-- `searchAndFetch` when the request context is done after `k` calls of the document iterator's `Next`
    (`none`: never).  What was read so far is kept; `makeProtoDocs` fills the rest with empty documents. -/
def searchAndFetchC (hot cold : List (Nat × ShardRes)) (offset size : Nat) (rev : Bool) (hint : Nat)
    (shouldFetch : Bool) (order : List Nat) (behav : Nat → Option (List Ev)) (cancelAfter : Option Nat) : Full :=
  match cancelAfter with
  | none => searchAndFetch hot cold offset size rev hint shouldFetch order behav
  | some k =>
    match search hot cold offset size rev with
    | .err e => .err e
    | .panic => .panic
    | .ok ids total nerr p c =>
      if shouldFetch && !ids.isEmpty then
        match fetchDocsStreamC (ids.map (toIDS c hint)) order behav k with
        | none => .fetchErr
        | some .panic => .panic
        | some .nofuel => .panic
        | some (.val docs) => .ok ids total nerr p c docs
      else .ok ids total nerr p c []

/-! ### proxyapi: `doSearch` + `Search` / `ComplexSearch` - what the client sees -/

inductive ApiOut
  | status (invalidArgument : Bool)   -- a gRPC status error: InvalidArgument (wants old data) or Internal
  | refused                           -- a response carrying only Error{TOO_MANY_FRACTIONS_HIT}
  | panic                             -- left to the recover interceptor
  | resp (ids : List ProxySearch.ID) (docs : List Nat) (partialResp : Bool) (total : Nat)
deriving DecidableEq, Repr

/-- `int64(qpr.Total)` -/
def toInt64 (t : Nat) : Int := if t % 18446744073709551616 ≥ 9223372036854775808 then (t % 18446744073709551616 : Nat) - 18446744073709551616 else (t % 18446744073709551616 : Nat)

/-- `makeProtoDocs`: one entry per ID; `d, _ := docs.Next()` yields the zero document once the stream has ended -/
def protoDocs : Nat → List Doc → List Nat
  | 0, _ => []
  | n + 1, [] => 0 :: protoDocs n []
  | n + 1, d :: ds => d.data :: protoDocs n ds

/-- `doSearch` (parseProxyError, the ErrPartialResponse branch, processSearchErrors) followed by the response
    assembly of `Search` -/
def api : Full → ApiOut
  | .err .tmf => .refused
  | .err .wod => .status true
  | .err _ => .status false
  | .fetchErr => .status false
  | .panic => .panic
  | .ok ids total nerr p _ docs =>
    if p then .resp (ids.map (·.1)) (protoDocs ids.length docs) true total
    else if nerr > 0 then .status false                       -- store-reported errors: codes.Internal
    else .resp (ids.map (·.1)) (protoDocs ids.length docs) false total

/-- what the client receives over gRPC: the server's recover interceptor (`grpcutil.RecoverUnaryInterceptor`, installed by
    `initServer`) turns a panic of the handler into `codes.Internal` -/
def overWire : ApiOut → ApiOut
  | .panic => .status false
  | x => x

end SV.ProxyRead
