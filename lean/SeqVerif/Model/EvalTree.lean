import SeqVerif.Model.Nodes
import SeqVerif.Model.TopK
import SeqVerif.Model.Borders
/-!
# frac/processor: IndexSearch = getLIDsBorders ; buildEvalTree ; iterateEvalTree   (C02)

The fraction index as `IndexSearch` sees it through `searchIndex`: the ids table (`Borders`) and a token
dictionary with one posting list of LIDs per token.  Lazy nodes are modelled by the list they produce when
drained (the correspondence channels drain the real nodes); `iterateEvalTree` consumes a prefix of it.
-/
namespace SV.EvalTree
open SV SV.Spec SV.Borders

structure TokenEntry where
  field : Bytes
  val : Bytes
  /-- LIDs of the documents carrying the token, ascending -/
  lids : List Nat
deriving Repr

structure Index where
  ids : List ID
  toks : List TokenEntry
deriving Repr

/-! ## leaves -/

/-- `GetLIDsFromTIDs` for one tid: the posting list cut to `[lo, hi]`, in iteration order
(active: `inverseLIDs` + `NewStatic(.., reverse)`; sealed: `lids.IteratorAsc/Desc` with `minLID/maxLID`) -/
def narrow (rev : Bool) (lo hi : Nat) (lids : List Nat) : List Nat :=
  let l := lids.filter fun v => decide (lo ≤ v) && decide (v ≤ hi)
  if rev then l.reverse else l

/-- `node.BuildORTree` = `TreeFold(NewOr, emptyNode, nodes)`: balanced tree, split at `len/2` -/
def treeFold (rev : Bool) (vs : List (List Nat)) : List Nat :=
  if h : vs.length ≤ 1 then vs.headD []
  else orMerge rev (treeFold rev (vs.take (vs.length / 2))) (treeFold rev (vs.drop (vs.length / 2)))
termination_by vs.length
decreasing_by
  · simp only [List.length_take]; omega
  · simp only [List.length_drop]; omega

/-- `GetTIDsByTokenExpr`: the tokens of the leaf's field whose value satisfies the leaf
(`pattern.Search`; that it equals `Leaf.valMatch` is property C13) -/
def leafTokens (idx : Index) (l : Leaf) : List TokenEntry :=
  idx.toks.filter fun t => t.field == l.field && l.valMatch t.val

/-- `evalLeaf` -/
def evalLeaf (idx : Index) (rev : Bool) (lo hi : Nat) (l : Leaf) : List Nat :=
  treeFold rev ((leafTokens idx l).map fun t => narrow rev lo hi t.lids)

/-- `buildEvalTree`, drained: And(children[0], children[1]), Or(..), NAnd(neg = children[0], reg = children[1]),
Not(child, minVal, maxVal) -/
def evalTree (idx : Index) (rev : Bool) (lo hi : Nat) : Query → List Nat
  | .leaf l => evalLeaf idx rev lo hi l
  | .and a b => andMerge rev (evalTree idx rev lo hi a) (evalTree idx rev lo hi b)
  | .or a b => orMerge rev (evalTree idx rev lo hi a) (evalTree idx rev lo hi b)
  | .nand a b => nandMerge rev (evalTree idx rev lo hi a) (evalTree idx rev lo hi b)
  | .not a => notNode rev (evalTree idx rev lo hi a) lo hi

/-! ## iterateEvalTree (ids, total; no histogram, no aggregations) -/

structure IterState where
  total : Nat
  ids : List ID
  lastID : ID
deriving Repr

/-- the `for` loop of `iterateEvalTree` over the LIDs the tree yields -/
def iterate (tbl : List ID) (limit : Nat) (scanAll : Bool) : List Nat → IterState → IterState
  | [], s => s
  | lid :: rest, s =>
    let needMore := decide (s.ids.length < limit)
    if !needMore && !scanAll then s
    else
      let s1 : IterState :=
        if needMore then
          let id := idAt tbl lid
          { total := s.total,
            ids := if s.total == 0 || s.lastID != id then s.ids ++ [id] else s.ids,
            lastID := id }
        else s
      iterate tbl limit scanAll rest { s1 with total := s1.total + 1 }

/-- `IndexSearch` restricted to IDs and total -/
def search (idx : Index) (q : Query) (from_ to : Nat) (asc : Bool) (limit : Nat) (withTotal : Bool) : Result :=
  let b := getLIDsBorders from_ to idx.ids
  let lids := evalTree idx asc b.1 b.2 q
  let s := iterate idx.ids limit withTotal lids ⟨0, [], ⟨0, 0⟩⟩
  { ids := s.ids, total := if withTotal then s.total else 0 }

/-! ## what the index stores -/

/-- the document a LID stands for: its ID and every token whose posting list contains the LID -/
def docAt (idx : Index) (lid : Nat) : Doc :=
  { id := idAt idx.ids lid,
    tokens := (idx.toks.filter fun t => t.lids.contains lid).map fun t => (t.field, t.val) }

/-- the stored documents in LID order -/
def docsOf (idx : Index) : List Doc := (List.range' 1 idx.ids.length).map (docAt idx)

/-- posting lists are strictly ascending lists of valid LIDs -/
structure WF (idx : Index) : Prop where
  sorted : ∀ t ∈ idx.toks, SortedBy false t.lids
  inRange : ∀ t ∈ idx.toks, ∀ v ∈ t.lids, 1 ≤ v ∧ v ≤ idx.ids.length

/-! ## sortedness helpers -/

theorem lessFn_flip (a b : Nat) : lessFn true a b = lessFn false b a := by simp [lessFn]

theorem sortedBy_reverse (rev : Bool) (l : List Nat) (h : SortedBy rev l) : SortedBy (!rev) l.reverse := by
  apply List.pairwise_reverse.mpr
  refine List.Pairwise.imp ?_ h
  intro a b hab
  cases rev <;> simp_all [lessFn]

theorem narrow_sorted (rev : Bool) (lo hi : Nat) (l : List Nat) (h : SortedBy false l) :
    SortedBy rev (narrow rev lo hi l) := by
  unfold narrow
  cases rev
  · simpa using List.Pairwise.filter _ h
  · simpa using sortedBy_reverse false _ (List.Pairwise.filter _ h)

theorem mem_narrow (rev : Bool) (lo hi : Nat) (l : List Nat) (v : Nat) :
    v ∈ narrow rev lo hi l ↔ v ∈ l ∧ lo ≤ v ∧ v ≤ hi := by
  unfold narrow
  cases rev <;> simp

theorem rangeNode_sorted (rev : Bool) (lo hi : Nat) : SortedBy rev (rangeNode rev lo hi) := by
  have h : SortedBy false (List.range' lo (hi + 1 - lo)) := by
    refine List.Pairwise.imp ?_ (List.pairwise_lt_range' (s := lo) (n := hi + 1 - lo))
    intro a b hab; simpa [lessFn] using hab
  unfold rangeNode
  cases rev
  · simpa using h
  · simpa using sortedBy_reverse false _ h

theorem mem_treeFold (rev : Bool) (vs : List (List Nat)) (v : Nat) :
    v ∈ treeFold rev vs ↔ ∃ l ∈ vs, v ∈ l := by
  fun_induction treeFold rev vs with
  | case1 vs h =>
    match vs, h with
    | [], _ => simp
    | [l], _ => simp
    | _ :: _ :: _, h => simp at h
  | case2 vs h ih1 ih2 =>
    rw [mem_orMerge, ih1, ih2]
    constructor
    · rintro (⟨l, hl, hv⟩ | ⟨l, hl, hv⟩)
      · exact ⟨l, List.mem_of_mem_take hl, hv⟩
      · exact ⟨l, List.mem_of_mem_drop hl, hv⟩
    · rintro ⟨l, hl, hv⟩
      rw [← List.take_append_drop (vs.length / 2) vs] at hl
      rcases List.mem_append.mp hl with hl | hl
      · exact Or.inl ⟨l, hl, hv⟩
      · exact Or.inr ⟨l, hl, hv⟩

theorem treeFold_sorted (rev : Bool) (vs : List (List Nat)) (hs : ∀ l ∈ vs, SortedBy rev l) :
    SortedBy rev (treeFold rev vs) := by
  fun_induction treeFold rev vs with
  | case1 vs h =>
    match vs, h with
    | [], _ => simp
    | [l], _ => simpa using hs l (by simp)
    | _ :: _ :: _, h => simp at h
  | case2 vs h ih1 ih2 =>
    exact orMerge_sorted rev _ _ (ih1 fun l hl => hs l (List.mem_of_mem_take hl))
      (ih2 fun l hl => hs l (List.mem_of_mem_drop hl))

/-! ## evalTree_denotes -/

theorem hasLeaf_docAt (idx : Index) (lid : Nat) (l : Leaf) :
    (docAt idx lid).hasLeaf l = true ↔ ∃ t ∈ leafTokens idx l, lid ∈ t.lids := by
  unfold Doc.hasLeaf docAt leafTokens
  simp only [List.any_map, List.any_eq_true, List.mem_filter, Function.comp]
  constructor
  · rintro ⟨t, ⟨ht, hc⟩, hm⟩
    exact ⟨t, ⟨ht, hm⟩, by simpa using hc⟩
  · rintro ⟨t, ⟨ht, hm⟩, hc⟩
    exact ⟨t, ⟨ht, by simpa using hc⟩, hm⟩

theorem evalLeaf_denotes (idx : Index) (hwf : WF idx) (rev : Bool) (lo hi : Nat) (l : Leaf) :
    SortedBy rev (evalLeaf idx rev lo hi l) ∧
    ∀ v, v ∈ evalLeaf idx rev lo hi l ↔ (lo ≤ v ∧ v ≤ hi ∧ (docAt idx v).hasLeaf l = true) := by
  unfold evalLeaf
  constructor
  · apply treeFold_sorted
    intro x hx
    rcases List.mem_map.mp hx with ⟨t, ht, rfl⟩
    exact narrow_sorted rev lo hi _ (hwf.sorted t (List.mem_filter.mp ht).1)
  · intro v
    rw [mem_treeFold, hasLeaf_docAt]
    constructor
    · rintro ⟨x, hx, hv⟩
      rcases List.mem_map.mp hx with ⟨t, ht, rfl⟩
      have := (mem_narrow rev lo hi _ v).mp hv
      exact ⟨this.2.1, this.2.2, t, ht, this.1⟩
    · rintro ⟨h1, h2, t, ht, hv⟩
      exact ⟨_, List.mem_map.mpr ⟨t, ht, rfl⟩, (mem_narrow rev lo hi _ v).mpr ⟨hv, h1, h2⟩⟩

/-- **evalTree_denotes.**  For every query tree (NOT and NAND at any depth), both directions and any borders,
the eval tree yields - strictly sorted in iteration order - exactly the LIDs inside the borders whose document
satisfies the query. -/
theorem evalTree_denotes (idx : Index) (hwf : WF idx) (rev : Bool) (lo hi : Nat) (q : Query) :
    SortedBy rev (evalTree idx rev lo hi q) ∧
    ∀ v, v ∈ evalTree idx rev lo hi q ↔ (lo ≤ v ∧ v ≤ hi ∧ docMatches q (docAt idx v) = true) := by
  induction q with
  | leaf l => exact evalLeaf_denotes idx hwf rev lo hi l
  | and a b iha ihb =>
    refine ⟨andMerge_sorted rev _ _ iha.1, fun v => ?_⟩
    simp only [evalTree, docMatches, mem_andMerge rev _ _ iha.1 ihb.1, iha.2, ihb.2, Bool.and_eq_true]
    constructor
    · rintro ⟨⟨h1, h2, h3⟩, _, _, h4⟩; exact ⟨h1, h2, h3, h4⟩
    · rintro ⟨h1, h2, h3, h4⟩; exact ⟨⟨h1, h2, h3⟩, h1, h2, h4⟩
  | or a b iha ihb =>
    refine ⟨orMerge_sorted rev _ _ iha.1 ihb.1, fun v => ?_⟩
    simp only [evalTree, docMatches, mem_orMerge, iha.2, ihb.2, Bool.or_eq_true]
    constructor
    · rintro (⟨h1, h2, h3⟩ | ⟨h1, h2, h3⟩)
      · exact ⟨h1, h2, Or.inl h3⟩
      · exact ⟨h1, h2, Or.inr h3⟩
    · rintro ⟨h1, h2, h3 | h3⟩
      · exact Or.inl ⟨h1, h2, h3⟩
      · exact Or.inr ⟨h1, h2, h3⟩
  | not a iha =>
    refine ⟨nandMerge_sorted rev _ _ (rangeNode_sorted rev lo hi), fun v => ?_⟩
    simp only [evalTree, notNode, docMatches, mem_nandMerge rev _ _ iha.1 (rangeNode_sorted rev lo hi),
      mem_rangeNode, iha.2, Bool.not_eq_true']
    constructor
    · rintro ⟨⟨h1, h2⟩, h3⟩
      refine ⟨h1, h2, ?_⟩
      cases hm : docMatches a (docAt idx v) with
      | false => rfl
      | true => exact absurd ⟨h1, h2, hm⟩ h3
    · rintro ⟨h1, h2, h3⟩
      exact ⟨⟨h1, h2⟩, fun h => by simp [h.2.2] at h3⟩
  | nand a b iha ihb =>
    refine ⟨nandMerge_sorted rev _ _ ihb.1, fun v => ?_⟩
    simp only [evalTree, docMatches, mem_nandMerge rev _ _ iha.1 ihb.1, iha.2, ihb.2, Bool.and_eq_true,
      Bool.not_eq_true']
    constructor
    · rintro ⟨⟨h1, h2, h3⟩, h4⟩
      refine ⟨h1, h2, ?_, h3⟩
      cases hm : docMatches a (docAt idx v) with
      | false => rfl
      | true => exact absurd ⟨h1, h2, hm⟩ h4
    · rintro ⟨h1, h2, h3, h4⟩
      exact ⟨⟨h1, h2, h4⟩, fun h => by simp [h.2.2] at h3⟩

/-! ## iterate_correct -/

theorem iterate_ids (tbl : List ID) (limit : Nat) (scanAll : Bool) (lids : List Nat) (s : IterState) :
    (iterate tbl limit scanAll lids s).ids =
      s.ids ++ (dedupPrev (if s.total = 0 then none else some s.lastID) (lids.map (idAt tbl))).take
        (limit - s.ids.length) := by
  induction lids generalizing s with
  | nil => simp [iterate, dedupPrev]
  | cons lid rest ih =>
    unfold iterate
    by_cases hn : s.ids.length < limit
    · simp only [hn, decide_true, Bool.not_true, Bool.false_and, Bool.false_eq_true, if_false, if_true]
      rw [ih]
      simp only [List.map_cons, dedupPrev, Nat.add_eq_zero_iff, Nat.succ_ne_self, and_false, if_false]
      by_cases hz : s.total = 0
      · simp only [hz, beq_self_eq_true, Bool.true_or, if_true, List.length_append, List.length_cons,
          List.length_nil, reduceCtorEq, if_false]
        rw [List.append_assoc]
        congr 1
        rw [show limit - s.ids.length = (limit - (s.ids.length + (0 + 1))) + 1 by omega]
        simp
      · by_cases hl : s.lastID = idAt tbl lid
        · simp [hz, hl]
        · have hl' : ¬ (some s.lastID = some (idAt tbl lid)) := by simpa using hl
          have hc : (s.total == 0 || s.lastID != idAt tbl lid) = true := by simp [hl]
          simp only [hz, hl', if_false, hc, if_true, List.length_append, List.length_cons, List.length_nil]
          rw [List.append_assoc]
          congr 1
          rw [show limit - s.ids.length = (limit - (s.ids.length + (0 + 1))) + 1 by omega]
          simp
    · have h0 : limit - s.ids.length = 0 := by omega
      cases scanAll
      · simp [hn, h0]
      · simp only [hn, decide_false, Bool.not_false, Bool.not_true, Bool.and_false, Bool.false_eq_true, if_false]
        rw [ih]
        simp [h0]

theorem iterate_total (tbl : List ID) (limit : Nat) (lids : List Nat) (s : IterState) :
    (iterate tbl limit true lids s).total = s.total + lids.length := by
  induction lids generalizing s with
  | nil => simp [iterate]
  | cons lid rest ih =>
    unfold iterate
    simp only [Bool.not_true, Bool.and_false, Bool.false_eq_true, if_false]
    rw [ih]
    split <;> simp <;> omega

/-- **iterate_correct.**  The loop returns the first `limit` distinct-adjacent IDs of the LIDs the tree yields,
and - when the whole range is scanned - counts every yielded LID. -/
theorem iterate_correct (tbl : List ID) (limit : Nat) (scanAll : Bool) (lids : List Nat) :
    (iterate tbl limit scanAll lids ⟨0, [], ⟨0, 0⟩⟩).ids = (dedupAdj (lids.map (idAt tbl))).take limit ∧
    (scanAll = true → (iterate tbl limit scanAll lids ⟨0, [], ⟨0, 0⟩⟩).total = lids.length) := by
  constructor
  · rw [iterate_ids]; simp [dedupPrev_none]
  · intro h; subst h; rw [iterate_total]; simp

end SV.EvalTree
