import SeqVerif.Model.WritePath
/-!
# C01 - parsing lemmas: a file that is a concatenation of complete blocks plus a torn tail replays to
exactly those blocks, and each docs block is read back at its offset.
-/
namespace SV.WPath

theorem readDocBlock_enc (b : Blk) (hsz : 33 + b.payload.length ≤ maxAlloc) (rest : Bytes) :
    readDocBlock (enc b ++ rest) = .full (enc b) rest := by
  unfold readDocBlock
  have hl : (enc b ++ rest).length = 33 + b.payload.length + rest.length := by simp [enc_length]
  have hm : maxAlloc < two64 := by decide
  have hget : (getLen (enc b ++ rest) + headerLen) % two64 = 33 + b.payload.length := by
    rw [getLen_enc b hsz, headerLen, Nat.mod_eq_of_lt (by omega)]; omega
  rw [if_neg (by simp only [headerLen]; omega)]
  simp only [hget]
  rw [if_neg (by omega), if_neg (by omega)]
  rw [take_len_append _ _ _ (enc_length b), drop_len_append _ _ _ (enc_length b)]

/-- a torn tail: a strict prefix of the encoding of some allocatable block -/
def Torn (t : Bytes) : Prop :=
  ∃ b : Blk, 33 + b.payload.length ≤ maxAlloc ∧ t.length < (enc b).length ∧ t = (enc b).take t.length

def TornOK (t : Bytes) : Prop := t = [] ∨ Torn t

theorem torn_take (b : Blk) (hsz : 33 + b.payload.length ≤ maxAlloc) (k : Nat) (hk : k < (enc b).length) :
    TornOK ((enc b).take k) := by
  right
  refine ⟨b, hsz, ?_, ?_⟩
  · simp [List.length_take]; omega
  · simp [List.length_take, Nat.min_eq_left (Nat.le_of_lt hk)]

theorem readDocBlock_nil : readDocBlock [] = .eof := by
  simp [readDocBlock, headerLen]

theorem readDocBlock_torn (t : Bytes) (h : TornOK t) :
    readDocBlock t = .eof ∨ readDocBlock t = .partialBlk := by
  rcases h with h | ⟨b, hsz, hlt, htake⟩
  · subst h; exact .inl readDocBlock_nil
  · unfold readDocBlock
    by_cases hH : t.length < headerLen
    · simp [hH]
    · right
      rw [if_neg hH]
      simp only [headerLen] at hH
      have ht : t = hdr b.codec b.payload.length b.rawLen b.ext1 b.ext2 ++ b.payload.take (t.length - 33) := by
        conv => lhs; rw [htake]
        simp only [enc]
        rw [List.take_append]
        rw [List.take_of_length_le (by rw [hdr_length]; omega)]
        simp [hdr_length]
      have hm : maxAlloc < two64 := by decide
      have hget : (getLen t + headerLen) % two64 = 33 + b.payload.length := by
        rw [ht, getLen_hdr, headerLen, Nat.mod_eq_of_lt (a := b.payload.length) (by omega),
          Nat.mod_eq_of_lt (by omega)]; omega
      simp only [hget]
      rw [enc_length] at hlt
      rw [if_neg (by omega), if_pos (by omega)]

/-! ## the complete bulks of a file pair -/

/-- for complete bulks `bs` whose first docs block starts at `off`:
(docs block, stamped meta block, docs offset) in file order -/
def stamped : List (Blk × Blk) → Nat → List (Blk × Blk × Nat)
  | [], _ => []
  | (d, m) :: bs, off => (d, { m with ext1 := (enc d).length, ext2 := off }, off) :: stamped bs (off + (enc d).length)

def docsOf (bs : List (Blk × Blk)) : Bytes := (bs.map fun b => enc b.1).flatten
def metaOf (bs : List (Blk × Blk)) (off : Nat) : Bytes := ((stamped bs off).map fun t => enc t.2.1).flatten
def entriesOf (bs : List (Blk × Blk)) (off : Nat) : List Entry := (stamped bs off).map fun t => ⟨enc t.2.1, t.2.2⟩

def AllWF (bs : List (Blk × Blk)) : Prop := ∀ b ∈ bs, b.1.WF ∧ b.2.WF

theorem docsOf_cons (d m : Blk) (bs : List (Blk × Blk)) : docsOf ((d, m) :: bs) = enc d ++ docsOf bs := by
  simp [docsOf]

theorem docsOf_append (a b : List (Blk × Blk)) : docsOf (a ++ b) = docsOf a ++ docsOf b := by
  simp [docsOf]

theorem stamped_append (a b : List (Blk × Blk)) (off : Nat) :
    stamped (a ++ b) off = stamped a off ++ stamped b (off + (docsOf a).length) := by
  induction a generalizing off with
  | nil => simp [stamped, docsOf]
  | cons x a ih =>
    obtain ⟨d, m⟩ := x
    simp only [List.cons_append, stamped, ih, docsOf_cons, List.length_append]
    simp [Nat.add_assoc]

theorem metaOf_append (a b : List (Blk × Blk)) (off : Nat) :
    metaOf (a ++ b) off = metaOf a off ++ metaOf b (off + (docsOf a).length) := by
  simp [metaOf, stamped_append]

theorem entriesOf_append (a b : List (Blk × Blk)) (off : Nat) :
    entriesOf (a ++ b) off = entriesOf a off ++ entriesOf b (off + (docsOf a).length) := by
  simp [entriesOf, stamped_append]

theorem length_le_metaOf (bs : List (Blk × Blk)) (off : Nat) : bs.length ≤ (metaOf bs off).length := by
  induction bs generalizing off with
  | nil => simp
  | cons x bs ih =>
    obtain ⟨d, m⟩ := x
    have := ih (off + (enc d).length)
    simp only [metaOf, stamped, List.map_cons, List.flatten_cons, List.length_append, List.length_cons,
      enc_length] at this ⊢
    omega

/-- **replay of a well-formed meta file**: complete blocks followed by a torn tail (or nothing) give back
exactly the blocks, their docs offsets (running sum of ext1), the end of the last complete block - no panic -/
theorem replayGo_stamped (bs : List (Blk × Blk)) (hwf : AllWF bs) (t : Bytes) (ht : TornOK t)
    (off mp fuel : Nat) (hf : bs.length < fuel) :
    replayGo fuel (metaOf bs off ++ t) off mp =
      ⟨entriesOf bs off, off + (docsOf bs).length, mp + (metaOf bs off).length, false⟩ := by
  induction bs generalizing off mp fuel with
  | nil =>
    cases fuel with
    | zero => omega
    | succ fuel =>
      simp only [metaOf, stamped, List.map_nil, List.flatten_nil, List.nil_append, replayGo, entriesOf, docsOf,
        List.length_nil, Nat.add_zero]
      rcases readDocBlock_torn t ht with h | h <;> simp [h]
  | cons x bs ih =>
    obtain ⟨d, m⟩ := x
    cases fuel with
    | zero => omega
    | succ fuel =>
      have hx := hwf (d, m) (by simp)
      have hd : d.WF := hx.1
      have hm : m.WF := hx.2
      have hwf' : AllWF bs := fun b hb => hwf b (by simp [hb])
      have hmeta : metaOf ((d, m) :: bs) off ++ t =
          enc { m with ext1 := (enc d).length, ext2 := off } ++ (metaOf bs (off + (enc d).length) ++ t) := by
        simp [metaOf, stamped]
      rw [hmeta]
      simp only [replayGo]
      rw [readDocBlock_enc _ (by exact hm.size)]
      simp only
      have hlen : ¬ (enc { m with ext1 := (enc d).length, ext2 := off }).length < headerLen := by
        rw [enc_length]; simp [headerLen]
      rw [if_neg hlen]
      have hm64 : maxAlloc < two64 := by decide
      have he1 : getExt1 (enc { m with ext1 := (enc d).length, ext2 := off }) = (enc d).length := by
        have := getExt1_enc { m with ext1 := (enc d).length, ext2 := off }
          (by simp only [enc_length]; have := hd.size; omega) []
        simpa using this
      rw [he1, ih hwf' _ _ _ (by simp at hf; omega)]
      rw [setExt2_enc]
      simp only [entriesOf, stamped, List.map_cons, docsOf_cons, metaOf, List.flatten_cons, List.length_append]
      simp [Nat.add_assoc]

theorem replay_stamped (bs : List (Blk × Blk)) (hwf : AllWF bs) (t : Bytes) (ht : TornOK t) :
    replay (metaOf bs 0 ++ t) = ⟨entriesOf bs 0, (docsOf bs).length, (metaOf bs 0).length, false⟩ := by
  have := replayGo_stamped bs hwf t ht 0 0 ((metaOf bs 0 ++ t).length + 1)
    (by have := length_le_metaOf bs 0; simp only [List.length_append]; omega)
  simpa [replay] using this

/-- every docs block is read back whole at the offset recorded for it, whatever follows the complete blocks -/
theorem readBlockAt_stamped (bs : List (Blk × Blk)) (hwf : AllWF bs) (pre junk : Bytes) (off : Nat)
    (hpre : pre.length = off) :
    ∀ t ∈ stamped bs off, readBlockAt (pre ++ (docsOf bs ++ junk)) t.2.2 = some (enc t.1) := by
  induction bs generalizing pre off with
  | nil => intro t ht; simp [stamped] at ht
  | cons x bs ih =>
    obtain ⟨d, m⟩ := x
    intro t ht
    have hd : d.WF := (hwf (d, m) (by simp)).1
    simp only [stamped, List.mem_cons] at ht
    rcases ht with ht | ht
    · subst ht
      simp only [readBlockAt, docsOf_cons, List.append_assoc]
      rw [drop_len_append _ _ _ hpre, readDocBlock_enc _ hd.size]
    · have := ih (fun b hb => hwf b (by simp [hb])) (pre ++ enc d) (off + (enc d).length)
        (by simp [hpre]) t ht
      simpa [docsOf_cons, List.append_assoc] using this

theorem mem_stamped_of_mem (bs : List (Blk × Blk)) (off : Nat) (d m : Blk) (h : (d, m) ∈ bs) :
    ∃ t ∈ stamped bs off, t.1 = d ∧ ∃ e1 e2, t.2.1 = { m with ext1 := e1, ext2 := e2 } := by
  induction bs generalizing off with
  | nil => simp at h
  | cons x bs ih =>
    obtain ⟨d', m'⟩ := x
    simp only [List.mem_cons, Prod.mk.injEq] at h
    rcases h with ⟨h1, h2⟩ | h
    · subst h1; subst h2
      exact ⟨(d, { m with ext1 := (enc d).length, ext2 := off }, off), by simp [stamped], rfl, _, _, rfl⟩
    · obtain ⟨t, ht, h1, h2⟩ := ih (off + (enc d').length) h
      exact ⟨t, by simp [stamped, ht], h1, h2⟩

theorem stamped_origin (bs : List (Blk × Blk)) (off : Nat) :
    ∀ t ∈ stamped bs off, ∃ m, (t.1, m) ∈ bs ∧ ∃ e1 e2, t.2.1 = { m with ext1 := e1, ext2 := e2 } := by
  induction bs generalizing off with
  | nil => intro t ht; simp [stamped] at ht
  | cons x bs ih =>
    obtain ⟨d', m'⟩ := x
    intro t ht
    simp only [stamped, List.mem_cons] at ht
    rcases ht with ht | ht
    · subst ht; exact ⟨m', by simp, _, _, rfl⟩
    · obtain ⟨m, hm, h2⟩ := ih _ t ht
      exact ⟨m, by simp [hm], h2⟩

theorem stampMeta_enc (m : Blk) (a b : Nat) : stampMeta (enc m) a b = enc { m with ext1 := a, ext2 := b } := by
  rw [stampMeta, setExt1_enc, setExt2_enc]

end SV.WPath
