import SeqVerif.Base.Search
/-!
# C03 - LID (posting) blocks: generator, table, iterators

Statement-by-statement model of
* `frac.DiskBlocksProducer.getLIDsBlockGenerator` (frac/disk_blocks_producer.go) with a *parametric* block capacity,
  including `reassignLIDs` (old -> new LID through `oldToNew`),
* `lids.Table` look-ups (frac/lids/table.go),
* `lids.IteratorDesc` / `lids.IteratorAsc` with `narrowLIDsRange` (frac/lids/iterator_{desc,asc}.go), the iterator
  being run to exhaustion (`Next` until `false`).

Representation: `blockLIDs`+`offsets` of the generator and `Chunks{LIDs,Offsets}` are kept as the list of chunks
(`offsets` are the prefix sums of the chunk lengths - the code appends one offset per appended slice).
TIDs/LIDs are unbounded `Nat` (uint32 wrap-around of TIDs is outside the property: < 2^32 tokens).
Input of the generator: per field (sorted by name) the posting lists of its tokens (sorted by value), old LIDs.
-/
namespace SV.C03

structure Block where
  minTID : Nat
  maxTID : Nat
  isContinued : Bool
  chunks : List (List Nat)
  isLastLID : Bool
deriving Repr, DecidableEq

/-- mutable state of the generator closure -/
structure Gen where
  maxTID : Nat
  lastMaxTID : Nat
  isContinued : Bool
  cur : List (List Nat)      -- blockLIDs cut at offsets
  out : List Block           -- blocks pushed so far
deriving Repr, DecidableEq

def Gen.init : Gen := ⟨0, 0, false, [], []⟩

/-- `len(blockLIDs)` -/
def Gen.curLen (g : Gen) : Nat := g.cur.flatten.length

/-- `newBlockFn(isLastLID)` followed by `push` -/
def newBlock (f : Nat → Nat) (isLast : Bool) (g : Gen) : Gen :=
  { maxTID := g.maxTID, lastMaxTID := g.maxTID, isContinued := !isLast, cur := [],
    out := g.out ++ [{ minTID := g.lastMaxTID + 1, maxTID := g.maxTID, isContinued := g.isContinued,
                       chunks := g.cur.map (·.map f), isLastLID := isLast }] }

/-- `for len(tokenLIDs) > 0 { ... }` ; fuel = len(tokenLIDs) (every round consumes at least one LID when cap > len(blockLIDs)) -/
def tokenLoop (cap : Nat) (f : Nat → Nat) : Nat → List Nat → Gen → Gen
  | 0, _, g => g
  | fuel + 1, lids, g =>
    if lids = [] then g else
    let right := min (cap - g.curLen) lids.length
    let g1 : Gen := { g with cur := g.cur ++ [lids.take right] }
    let rest := lids.drop right
    let g2 := if g1.curLen = cap then newBlock f rest.isEmpty g1 else g1
    tokenLoop cap f fuel rest g2

/-- body of `for _, tid := range tids`: `maxTID++`, then the loop over the token's LIDs -/
def genToken (cap : Nat) (f : Nat → Nat) (g : Gen) (lids : List Nat) : Gen :=
  tokenLoop cap f lids.length lids { g with maxTID := g.maxTID + 1 }

/-- body of `for _, field := range fields`: all tokens, then the flush of a partly filled block -/
def genField (cap : Nat) (f : Nat → Nat) (g : Gen) (toks : List (List Nat)) : Gen :=
  let g' := toks.foldl (genToken cap f) g
  if g'.curLen > 0 then newBlock f true g' else g'

/-- all blocks pushed by the generator -/
def genBlocks (cap : Nat) (f : Nat → Nat) (fields : List (List (List Nat))) : List Block :=
  (fields.foldl (genField cap f) Gen.init).out

/-! ## lids.Table -/

structure Table where
  minTIDs : List Nat
  maxTIDs : List Nat
  isContinued : List Bool
deriving Repr, DecidableEq

/-- `Table.Add` for every pushed block (writeLIDsBlocks) -/
def tableOf (bs : List Block) : Table := ⟨bs.map (·.minTID), bs.map (·.maxTID), bs.map (·.isContinued)⟩

def Table.adjMin (t : Table) (i : Nat) : Nat :=
  if t.isContinued.getD i false then t.minTIDs.getD i 0 - 1 else t.minTIDs.getD i 0

def Table.chunksCount (t : Table) (i : Nat) : Nat := t.maxTIDs.getD i 0 - t.adjMin i + 1

/-- `GetFirstBlockIndexForTID`; `none` = one of its two panics -/
def Table.firstBlock (t : Table) (tid : Nat) : Option Nat :=
  let n := t.maxTIDs.length
  if n = 0 then none else
  let index := searchGo (fun i => decide (t.maxTIDs.getD i 0 ≥ tid)) 0 n
  if index = n then none else some index

/-- `GetLastBlockIndexForTID`; `none` = a panic (incl. index -1) -/
def Table.lastBlock (t : Table) (tid : Nat) : Option Nat :=
  if t.maxTIDs.length = 0 then none else
  let n := t.minTIDs.length
  let s := searchGo (fun i => decide (t.adjMin i > tid)) 0 n
  if s = 0 then none else
  if tid > t.maxTIDs.getD (s - 1) 0 then none else some (s - 1)

def Table.hasPrev (t : Table) (bi tid : Nat) : Bool :=
  if bi = 0 then false else t.maxTIDs.getD (bi - 1) 0 == tid

def Table.hasNext (t : Table) (bi tid : Nat) : Bool :=
  if t.minTIDs.length - 1 = bi then false else t.adjMin (bi + 1) == tid

/-! ## narrowLIDsRange -/

def inWin (minL maxL : Nat) (x : Nat) : Bool := decide (minL ≤ x) && decide (x ≤ maxL)

/-- the two `sort.Search` cuts shared by both iterators; returns (lids, cutLeft, cutRight) -/
def cutLeft (minL : Nat) (lids : List Nat) : List Nat :=
  lids.drop (searchGo (fun i => decide (lids.getD i 0 ≥ minL)) 0 lids.length)

def cutRight (maxL : Nat) (lids : List Nat) : List Nat :=
  lids.take (searchGo (fun i => decide (lids.getD i 0 > maxL)) 0 lids.length)

/-- `IteratorDesc.narrowLIDsRange` (lids non-empty) -/
def narrowDesc (minL maxL : Nat) (lids : List Nat) (tn : Bool) : List Nat × Bool :=
  let first := lids.headD 0
  if maxL < first then ([], false) else
  let last := lids.getLastD 0
  if minL > last then ([], tn) else
  let l1 := if minL > first then cutLeft minL lids else lids
  if maxL ≤ last then (cutRight maxL l1, false) else (l1, tn)

/-- `IteratorAsc.narrowLIDsRange` (lids non-empty) -/
def narrowAsc (minL maxL : Nat) (lids : List Nat) (tn : Bool) : List Nat × Bool :=
  let first := lids.headD 0
  if maxL < first then ([], tn) else
  let last := lids.getLastD 0
  if minL > last then ([], false) else
  let l1 := if minL > first then cutLeft minL lids else lids
  let tn1 := if minL > first then false else tn
  if maxL ≤ last then (cutRight maxL l1, tn1) else (l1, tn1)

/-! ## iterators run to exhaustion -/

/-- `loadNextLIDsChunk` without the direction specific part: the chunk of `tid` in block `bi` -/
def loadChunk (bs : List Block) (t : Table) (tid bi : Nat) : Except String (List Nat) :=
  match bs[bi]? with
  | none => .error "load"                       -- GetLIDsChunks error -> logger.Panic
  | some b =>
    if b.chunks.length ≠ t.chunksCount bi then .error "count"      -- "unexpected LIDs count"
    else if tid < t.adjMin bi then .error "chunk-index"            -- uint32 underflow -> index out of range
    else match b.chunks[tid - t.adjMin bi]? with
      | none => .error "chunk-index"
      | some [] => .error "empty-chunk"                             -- lids[0] in narrowLIDsRange
      | some lids => .ok lids

/-- `IteratorDesc.Next` until exhaustion: LIDs in ascending order -/
def descLoop (bs : List Block) (t : Table) (tid minL maxL : Nat) : Nat → Nat → Bool → Except String (List Nat)
  | 0, _, tn => if tn then .error "fuel" else .ok []
  | fuel + 1, bi, tn =>
    if !tn then .ok [] else
    match loadChunk bs t tid bi with
    | .error e => .error e
    | .ok lids =>
      let r := narrowDesc minL maxL lids (t.hasNext bi tid)
      match descLoop bs t tid minL maxL fuel (bi + 1) r.2 with
      | .error e => .error e
      | .ok more => .ok (r.1 ++ more)

/-- `IteratorAsc.Next` until exhaustion: LIDs in descending order (each chunk is consumed from its end) -/
def ascLoop (bs : List Block) (t : Table) (tid minL maxL : Nat) : Nat → Nat → Bool → Except String (List Nat)
  | 0, _, tn => if tn then .error "fuel" else .ok []
  | fuel + 1, bi, tn =>
    if !tn then .ok [] else
    match loadChunk bs t tid bi with
    | .error e => .error e
    | .ok lids =>
      let r := narrowAsc minL maxL lids (t.hasPrev bi tid)
      match ascLoop bs t tid minL maxL fuel (bi - 1) r.2 with
      | .error e => .error e
      | .ok more => .ok (r.1.reverse ++ more)

/-- `GetLIDsFromTIDs` for one tid in normal (descending IDs = ascending LIDs) order -/
def iterDesc (bs : List Block) (t : Table) (tid minL maxL : Nat) : Except String (List Nat) :=
  match t.firstBlock tid with
  | none => .error "no-block"
  | some bi => descLoop bs t tid minL maxL (bs.length + 1) bi true

/-- `GetLIDsFromTIDs` for one tid in reverse order -/
def iterAsc (bs : List Block) (t : Table) (tid minL maxL : Nat) : Except String (List Nat) :=
  match t.lastBlock tid with
  | none => .error "no-block"
  | some bi => ascLoop bs t tid minL maxL (bs.length + 1) bi true

end SV.C03
