import SeqVerif.Model.ApiLemmas
import SeqVerif.Model.StoreSearch
/-!
`GrpcV1.Search(req)` over fraction indexes = `Spec.search` for the request's meaning (C05 ∘ C02 at the API boundary).
-/
namespace SV.Api
open SV SV.Merge SV.Spec SV.EvalTree SV.Borders SV.Go

/-- what the store holds of a fraction index for query `q`: ALL its matching documents (no window) -/
def rawOf (f : FracIdx) (q : Query) : RawFrac :=
  { docsTotal := f.idx.ids.length, from_ := f.from_, to_ := f.to_,
    docs := ((EvalTree.docsOf f.idx).filter (docMatches q)).map (fun d => keyOf d.id) }

theorem rawOf_toFrac (f : FracIdx) (q : Query) (from_ to_ : Nat) (hr : ∀ id ∈ f.idx.ids, id.rid ≤ maxU64) :
    (rawOf f q).toFrac from_ to_ = f.toFrac q from_ to_ := by
  unfold rawOf RawFrac.toFrac FracIdx.toFrac hits
  simp only [List.filter_map, List.filter_filter]
  congr 2
  apply List.filter_congr
  intro d hd
  have hm := midOf_keyOf d.id (hr _ (docsOf_id_mem f.idx d hd))
  simp only [Function.comp, hm, inWindow]

/-- **`GrpcV1.Search(req)` = `Spec.search` for the request's parameters**, over any list of well-formed fraction
indexes, when the store does not refuse and `Size+Offset` is a non-negative `int` -/
theorem grpcSearch_eq_spec (s : StoreCfg) (fs : List FracIdx) (q : Query) (sr : StoreReq) (p : Params)
    (hp : storeParams sr = some p) (hlim : 0 ≤ p.limit)
    (hhot : (s.hot && s.mature && (decide (s.oldestCT = 0) || decide (s.oldestCT > (wrapU64 sr.from_).toNat))) = false)
    (hok : ∀ f, f ∈ fs → f.OK p.from_)
    (hmax : s.maxHits = 0 ∨ (filterInRange (fs.map (·.toFrac q p.from_ p.to_)) p.from_ p.to_).length ≤ s.maxHits) :
    ∃ r, grpcSearch s (fs.map (rawOf · q)) sr = .ok r ∧
      r.ids = (Spec.search (fs.flatMap (fun f => EvalTree.docsOf f.idx)) q p.from_ p.to_ (!p.desc) p.limit.toNat
        p.withTotal).ids.map keyOf := by
  have hmap : (fs.map (rawOf · q)).map (·.toFrac p.from_ p.to_) = fs.map (·.toFrac q p.from_ p.to_) := by
    rw [List.map_map]
    apply List.map_congr_left
    intro f hf
    exact rawOf_toFrac f q _ _ (hok f hf).rid
  obtain ⟨r, h1, h2, _⟩ := storeSearch_eq_spec (p.cfg s) fs q p.from_ p.to_ p.limit.toNat hok hmax
  refine ⟨r, ?_, h2⟩
  unfold grpcSearch
  simp only [hhot, Bool.false_eq_true, if_false, hp]
  have : ¬ p.limit < 0 := by omega
  simp only [this, if_false, hmap, h1]

end SV.Api
