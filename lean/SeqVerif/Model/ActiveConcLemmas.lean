import SeqVerif.Model.ActiveConc
/-!
Lemmas about the sequential pieces of the active-index model (`setMultiple`, `lidsWith`, `queueCalls`,
`evalQ`, `widen`): what one critical section does to the shared state.
-/
namespace SV.ActiveConc

theorem inR_widen (r : Range) (lo hi m : Nat) (h : inR r m = true) : inR (widen r lo hi) m = true := by
  cases r with
  | none => simp [inR] at h
  | some p =>
    obtain ⟨a, b⟩ := p
    simp only [inR, widen, Bool.and_eq_true, decide_eq_true_eq] at *
    omega

theorem inR_merge (r s : Range) (m : Nat) (h : inR r m = true) : inR (merge r s) m = true := by
  cases s with
  | none => simpa [merge] using h
  | some p => obtain ⟨lo, hi⟩ := p; simpa [merge] using inR_widen r lo hi m h

/-! ### setMultiple -/

theorem lookup_cons_ne {α β} [BEq α] [LawfulBEq α] (a k : α) (b : β) (l : List (α × β)) (h : k ≠ a) :
    ((a, b) :: l).lookup k = l.lookup k := by
  have : (k == a) = false := by simpa using h
  simp [List.lookup, this]

theorem setMultiple_keeps (blk : Nat) (ds : List Doc) (k : Nat) (pos : List (ID × (Nat × Nat))) (id : ID) (p : Nat × Nat)
    (h : pos.lookup id = some p) : (setMultiple blk ds k pos).1.lookup id = some p := by
  induction ds generalizing k pos with
  | nil => simpa [setMultiple] using h
  | cons d ds ih =>
    simp only [setMultiple]
    split
    · rename_i hnone
      apply ih
      have : id ≠ d.id := by
        intro e; rw [e] at h; rw [hnone] at h; cases h
      rw [lookup_cons_ne _ _ _ _ this]; exact h
    · split
      · exact ih _ _ h
      · exact ih _ _ h

theorem setMultiple_new (blk : Nat) (ds : List Doc) (k : Nat) (pos : List (ID × (Nat × Nat))) (id : ID) (b off : Nat)
    (h : (setMultiple blk ds k pos).1.lookup id = some (b, off)) : pos.lookup id = some (b, off) ∨ b = blk := by
  induction ds generalizing k pos with
  | nil => left; simpa [setMultiple] using h
  | cons d ds ih =>
    simp only [setMultiple] at h
    split at h
    · rcases ih _ _ h with h' | h'
      · by_cases e : id = d.id
        · subst e; simp [List.lookup] at h'; right; exact h'.1.symm
        · left; rwa [lookup_cons_ne _ _ _ _ e] at h'
      · right; exact h'
    · split at h
      · exact ih _ _ h
      · exact ih _ _ h

theorem setMultiple_set (blk : Nat) (ds : List Doc) (k : Nat) (pos : List (ID × (Nat × Nat))) (d : Doc)
    (h : d ∈ (setMultiple blk ds k pos).2) :
    d ∈ ds ∧ ∃ off, (setMultiple blk ds k pos).1.lookup d.id = some (blk, off) := by
  induction ds generalizing k pos with
  | nil => simp [setMultiple] at h
  | cons x ds ih =>
    simp only [setMultiple] at h ⊢
    split
    · rename_i hnone
      simp only [hnone] at h
      rcases List.mem_cons.mp h with e | h'
      · subst e
        refine ⟨List.mem_cons_self .., k, ?_⟩
        apply setMultiple_keeps
        simp [List.lookup]
      · obtain ⟨h1, h2⟩ := ih _ _ h'
        exact ⟨List.mem_cons_of_mem _ h1, h2⟩
    · rename_i p hsome
      simp only [hsome] at h
      split
      · rename_i hp
        simp only [hp, if_true] at h
        rcases List.mem_cons.mp h with e | h'
        · subst e
          refine ⟨List.mem_cons_self .., k, ?_⟩
          apply setMultiple_keeps
          rw [hsome, hp]
        · obtain ⟨h1, h2⟩ := ih _ _ h'
          exact ⟨List.mem_cons_of_mem _ h1, h2⟩
      · rename_i hp
        simp only [hp, if_false] at h
        obtain ⟨h1, h2⟩ := ih _ _ h
        exact ⟨List.mem_cons_of_mem _ h1, h2⟩

/-! ### queue calls -/

theorem lidsWith_mem (t : Nat) (ds : List Doc) (base l : Nat) (h : l ∈ lidsWith t ds base) :
    ∃ k d, ds[k]? = some d ∧ l = base + k ∧ t ∈ d.toks := by
  induction ds generalizing base with
  | nil => simp [lidsWith] at h
  | cons x ds ih =>
    simp only [lidsWith] at h
    split at h
    · rename_i hc
      rcases List.mem_cons.mp h with e | h'
      · exact ⟨0, x, by simp, by omega, by simpa using hc⟩
      · obtain ⟨k, d, h1, h2, h3⟩ := ih _ h'
        exact ⟨k + 1, d, by simpa using h1, by omega, h3⟩
    · obtain ⟨k, d, h1, h2, h3⟩ := ih _ h
      exact ⟨k + 1, d, by simpa using h1, by omega, h3⟩

theorem queueCalls_mem (allLast : Bool) (toks : List Nat) (docs : List Doc) (base : Nat) (t : Option Nat) (ls : List Nat)
    (h : (t, ls) ∈ queueCalls allLast toks docs base) (l : Nat) (hl : l ∈ ls) :
    ∃ k d, docs[k]? = some d ∧ l = base + k ∧ ∀ t', t = some t' → t' ∈ d.toks := by
  have h' : (t, ls) = (none, List.range' base docs.length) ∨
      ∃ t', t' ∈ toks ∧ (some t', lidsWith t' docs base) = (t, ls) := by
    have hrev : ∀ x, x ∈ toks.reverse ↔ x ∈ toks := fun x => List.mem_reverse
    cases allLast <;> simp only [queueCalls, Bool.false_eq_true, if_false, if_true, List.mem_cons, List.mem_append,
      List.mem_map, hrev] at h
    · exact h
    · rcases h with h | h | h
      · exact Or.inr h
      · exact Or.inl h
      · cases h
  rcases h' with e | ⟨t', _, e⟩
  · cases e
    rw [List.mem_range'_1] at hl
    have hk : l - base < docs.length := by omega
    refine ⟨l - base, docs[l - base], by simp [hk], by omega, by intro t' e; cases e⟩
  · cases e
    obtain ⟨k, d, h1, h2, h3⟩ := lidsWith_mem _ _ _ _ hl
    exact ⟨k, d, h1, h2, by intro t'' e; cases e; exact h3⟩

/-! ### query evaluation over the leaves read -/

theorem evalQ_rest (q : Query) (got : List (Nat × List Nat)) (l : Nat) :
    ∀ x ∈ (evalQ q got l).2, x ∈ got := by
  induction q generalizing got with
  | tok t =>
    intro x hx
    cases got with
    | nil => simp [evalQ] at hx
    | cons g rest => obtain ⟨t', ls⟩ := g; simp only [evalQ] at hx; exact List.mem_cons_of_mem _ hx
  | and a b iha ihb => intro x hx; simp only [evalQ] at hx; exact iha _ _ (ihb _ _ hx)
  | or a b iha ihb => intro x hx; simp only [evalQ] at hx; exact iha _ _ (ihb _ _ hx)
  | not a iha => intro x hx; simp only [evalQ] at hx; exact iha _ _ hx

/-- a positive query that evaluates to true on LID `l` is satisfied by the document behind `l`, provided every
leaf list that contains `l` belongs to a token of that document -/
theorem evalQ_sound (q : Query) (got : List (Nat × List Nat)) (l : Nat) (d : Doc)
    (hgot : ∀ t ls, (t, ls) ∈ got → l ∈ ls → t ∈ d.toks)
    (hpos : q.positive = true) (hev : (evalQ q got l).1 = true) : sat q d = true := by
  induction q generalizing got with
  | tok t =>
    cases got with
    | nil => simp [evalQ] at hev
    | cons g rest =>
      obtain ⟨t', ls⟩ := g
      simp only [evalQ, Bool.and_eq_true, beq_iff_eq, List.contains_eq_mem, decide_eq_true_eq] at hev
      obtain ⟨e, hl⟩ := hev
      subst e
      simpa [sat] using hgot t' ls (List.mem_cons_self ..) hl
  | and a b iha ihb =>
    simp only [Query.positive, Bool.and_eq_true] at hpos
    simp only [evalQ, Bool.and_eq_true] at hev
    simp only [sat, Bool.and_eq_true]
    exact ⟨iha got hgot hpos.1 hev.1,
      ihb _ (fun t ls h => hgot t ls (evalQ_rest a got l _ h)) hpos.2 hev.2⟩
  | or a b iha ihb =>
    simp only [Query.positive, Bool.and_eq_true] at hpos
    simp only [evalQ, Bool.or_eq_true] at hev
    simp only [sat, Bool.or_eq_true]
    rcases hev with h | h
    · exact Or.inl (iha got hgot hpos.1 h)
    · exact Or.inr (ihb _ (fun t ls h' => hgot t ls (evalQ_rest a got l _ h')) hpos.2 h)
  | not a _ => simp [Query.positive] at hpos

end SV.ActiveConc
