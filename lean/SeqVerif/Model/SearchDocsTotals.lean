import SeqVerif.Model.SearchDocsLemmas
import SeqVerif.Model.MergeTotals
/-!
Totals and histograms through `MergeQPRs` and the `SearchDocs` loop when no document is stored twice
(helper lemmas for C05).
-/
namespace SV.Merge

/-! ## the merged histogram -/

theorem histGet_none (k : Nat) : histGet none k = 0 := rfl

theorem mergedHist_get (dst : QPR) (qs : List QPR) (k : Nat) :
    histGet (mergedHist dst qs) k = histGet dst.hist k + (qs.map (fun q => Hist.sumAt (q.hist.getD []) k)).sum := by
  unfold mergedHist
  suffices ∀ h0 : Option Hist,
      histGet (qs.foldl (fun h q => match q.hist with
        | none => h
        | some qh => some (addHist (h.getD []) qh)) h0) k
        = histGet h0 k + (qs.map (fun q => Hist.sumAt (q.hist.getD []) k)).sum from this dst.hist
  induction qs with
  | nil => intro h0; simp
  | cons q qs ih =>
    intro h0
    simp only [List.foldl_cons, List.map_cons, List.sum_cons]
    rw [ih]
    cases hq : q.hist with
    | none => simp [Hist.sumAt]
    | some qh => simp only [histGet, Option.getD_some, get_addHist]; omega

theorem mergedHist_isSome (dst : QPR) (qs : List QPR) (h : dst.hist.isSome = true) :
    (mergedHist dst qs).isSome = true := by
  unfold mergedHist
  suffices ∀ h0 : Option Hist, h0.isSome = true →
      (qs.foldl (fun h q => match q.hist with
        | none => h
        | some qh => some (addHist (h.getD []) qh)) h0).isSome = true from this dst.hist h
  induction qs with
  | nil => intro h0 h; simpa using h
  | cons q qs ih =>
    intro h0 h
    simp only [List.foldl_cons]
    apply ih
    cases q.hist <;> simp [h]

/-- no panic when the destination has a map (`SearchDocs`, the proxy) -/
theorem mergePanics_false (desc : Bool) (dst : QPR) (qs : List QPR) (hi : Nat) (h : dst.hist.isSome = true) :
    mergePanics desc dst qs hi = false := by
  have := mergedHist_isSome dst qs h
  unfold mergePanics
  cases hm : mergedHist dst qs with
  | none => simp [hm] at this
  | some _ => simp

theorem get_decHist (hi : Nat) (reps : List Nat) (h : Hist) (k : Nat) (hle : cntBucket hi k reps ≤ Hist.get h k) :
    Hist.get (decHist hi h reps) k = Hist.get h k - cntBucket hi k reps := by
  unfold decHist
  induction reps generalizing h with
  | nil => simp [cntBucket]
  | cons r rs ih =>
    simp only [List.foldl_cons]
    by_cases hk : k = bucket hi r
    · subst hk
      have hc : cntBucket hi (bucket hi r) (r :: rs) = cntBucket hi (bucket hi r) rs + 1 := by
        simp [cntBucket]
      rw [hc] at hle ⊢
      have hg : Hist.get (Hist.upd h (bucket hi r) decU64) (bucket hi r) = Hist.get h (bucket hi r) - 1 := by
        rw [Hist.get_upd]; simp only [if_true]; unfold decU64; split <;> omega
      rw [ih _ (by rw [hg]; omega), hg]; omega
    · have hne : ¬ bucket hi r = k := fun h => hk h.symm
      have hc : cntBucket hi k (r :: rs) = cntBucket hi k rs := by simp [cntBucket, hne]
      rw [hc] at hle ⊢
      have hg : Hist.get (Hist.upd h (bucket hi r) decU64) k = Hist.get h k := by
        rw [Hist.get_upd]; simp [hk]
      rw [ih _ (by rw [hg]; exact hle), hg]

/-- **histogram of a merge, exactly** (destination with a map, no bucket underflow): the sum of the input counts of
bucket `k`, minus the repetitions whose ID falls into bucket `k` -/
theorem mergeQPRs_hist (desc : Bool) (dst : QPR) (qs : List QPR) (limit hi : Nat) (hhi : hi > 0) (k : Nat)
    (hle : cntBucket hi k (repetitions (sortIds desc (allIds dst qs))) ≤ histGet (mergedHist dst qs) k) :
    histGet (mergeQPRs desc dst qs limit hi).hist k =
      histGet dst.hist k + (qs.map (fun q => Hist.sumAt (q.hist.getD []) k)).sum
        - cntBucket hi k (repetitions (sortIds desc (allIds dst qs))) := by
  rw [← mergedHist_get]
  simp only [mergeQPRs, hhi, if_true, mergedAll_eq]
  cases hm : mergedHist dst qs with
  | none =>
    simp only [hm, histGet_none] at hle
    simp [histGet, Hist.get]
  | some h =>
    simp only [hm, histGet, Option.getD_some] at hle
    simp only [Option.map_some, histGet, Option.getD_some]
    exact get_decHist hi _ h k hle

theorem mergeQPRs_hist_nodup (desc : Bool) (dst : QPR) (qs : List QPR) (limit hi : Nat) (h : (allIds dst qs).Nodup) :
    (mergeQPRs desc dst qs limit hi).hist = mergedHist dst qs := by
  simp only [mergeQPRs, mergedAll_eq, repetitions_nil_of_nodup desc _ h, get_decHist_nil]
  split
  · cases mergedHist dst qs <;> simp
  · rfl

/-- **merge associativity on total and histogram** (no ID handed in twice): two rounds, with any intermediate cut,
give the total and the histogram of one round -/
theorem mergeQPRs_assoc_total_hist (desc : Bool) (dst : QPR) (qs rs : List QPR) (L hi : Nat)
    (h : (allIds dst (qs ++ rs)).Nodup) :
    (mergeQPRs desc (mergeQPRs desc dst qs L hi) rs L hi).total = (mergeQPRs desc dst (qs ++ rs) L hi).total ∧
    ∀ k, histGet (mergeQPRs desc (mergeQPRs desc dst qs L hi) rs L hi).hist k
        = histGet (mergeQPRs desc dst (qs ++ rs) L hi).hist k := by
  have hsplit : allIds dst (qs ++ rs) = allIds dst qs ++ rs.flatMap (·.ids) := by
    simp [allIds, List.flatMap_append, List.append_assoc]
  rw [hsplit] at h
  have hh := List.nodup_append.mp h
  have h2 : (allIds (mergeQPRs desc dst qs L hi) rs).Nodup := by
    unfold allIds
    refine List.nodup_append.mpr ⟨sortedBy_nodup desc _ (mergeQPRs_ids_sorted desc _ _ _ _), hh.2.1, ?_⟩
    intro a ha b hb
    rw [mergeQPRs_ids] at ha
    exact hh.2.2 a ((mem_sd desc a _).mp (List.mem_of_mem_take ha)) b hb
  have h3 : (allIds dst (qs ++ rs)).Nodup := by rw [hsplit]; exact h
  refine ⟨?_, fun k => ?_⟩
  · rw [mergeQPRs_total_nodup _ _ _ _ _ h2, mergeQPRs_total_nodup _ _ _ _ _ hh.1, mergeQPRs_total_nodup _ _ _ _ _ h3]
    simp [List.sum_append]; omega
  · rw [mergeQPRs_hist_nodup _ _ _ _ _ h2, mergeQPRs_hist_nodup _ _ _ _ _ h3, mergedHist_get, mergedHist_get,
      mergeQPRs_hist_nodup _ _ _ _ _ hh.1, mergedHist_get]
    simp [List.sum_append]; omega

/-! ## the loop -/

theorem nodup_cut_flatten (desc : Bool) (m : Nat) (fs : List Frac) (h : (docsOf fs).Nodup) :
    ((fs.map (fun f => (sd desc f.docs).take m)).flatten).Nodup := by
  induction fs with
  | nil => simp
  | cons f fs ih =>
    have h' : (f.docs ++ docsOf fs).Nodup := by simpa [docsOf] using h
    have hh := List.nodup_append.mp h'
    simp only [List.map_cons, List.flatten_cons]
    refine List.nodup_append.mpr ⟨?_, ih hh.2.1, ?_⟩
    · exact sortedBy_nodup desc _ (sortedBy_take desc m _ (sd_sorted desc _))
    · intro a ha b hb
      have ha' : a ∈ f.docs := (mem_sd desc a _).mp (List.mem_of_mem_take ha)
      have hb' : b ∈ docsOf fs := by
        simp only [List.mem_flatten, List.mem_map] at hb
        rcases hb with ⟨l, ⟨g, hg, rfl⟩, hbl⟩
        exact (mem_docsOf fs b).mpr ⟨g, hg, (mem_sd desc b _).mp (List.mem_of_mem_take hbl)⟩
      exact hh.2.2 a ha' b hb'

theorem mem_cut_flatten (desc : Bool) (m : Nat) (fs : List Frac) (v : Nat)
    (hv : v ∈ (fs.map (fun f => (sd desc f.docs).take m)).flatten) : v ∈ docsOf fs := by
  simp only [List.mem_flatten, List.mem_map] at hv
  rcases hv with ⟨l, ⟨g, hg, rfl⟩, hvl⟩
  exact (mem_docsOf fs v).mpr ⟨g, hg, (mem_sd desc v _).mp (List.mem_of_mem_take hvl)⟩

theorem allIds_fracSearch' (c : Cfg) (total : QPR) (fs : List Frac) (m : Nat) :
    allIds total (fs.map (fracSearch c · m)) = total.ids ++ (fs.map (fun f => (sd c.desc f.docs).take m)).flatten := by
  simp [allIds, List.flatMap_def, fracSearch, Function.comp_def]

theorem sum_totals_fracSearch (c : Cfg) (fs : List Frac) (m : Nat) :
    ((fs.map (fracSearch c · m)).map (·.total)).sum = if c.withTotal then (docsOf fs).length else 0 := by
  induction fs with
  | nil => simp [docsOf]
  | cons f fs ih =>
    simp only [List.map_cons, List.sum_cons, ih]
    cases hwt : c.withTotal <;> simp [fracSearch, docsOf, hwt]

theorem sum_hists_fracSearch (c : Cfg) (fs : List Frac) (m k : Nat) :
    ((fs.map (fracSearch c · m)).map (fun q => Hist.sumAt (q.hist.getD []) k)).sum
      = if c.hi > 0 then cntBucket c.hi k (docsOf fs) else 0 := by
  induction fs with
  | nil => simp [docsOf, cntBucket]
  | cons f fs ih =>
    simp only [List.map_cons, List.sum_cons, ih]
    by_cases hhi : c.hi > 0
    · simp only [hhi, if_true, fracSearch, Option.getD_some]
      rw [sumAt_eq_get _ _ (keys_histOf_nodup c.hi f.docs), get_histOf]
      have : docsOf (f :: fs) = f.docs ++ docsOf fs := by simp [docsOf]
      rw [this, cntBucket_append]
    · simp [hhi, fracSearch, Hist.sumAt]

/-- the state of the accumulator w.r.t. the documents `P` seen so far -/
structure Acc (c : Cfg) (total : QPR) (P : List Nat) : Prop where
  total_eq : total.total = if c.withTotal then P.length else 0
  hist_some : total.hist.isSome = true
  hist_eq : ∀ k, histGet total.hist k = if c.hi > 0 then cntBucket c.hi k P else 0
  ids_sub : ∀ v, v ∈ total.ids → v ∈ P
  ids_nodup : total.ids.Nodup

theorem acc_step (c : Cfg) (L m : Nat) (total : QPR) (P : List Nat) (chunk : List Frac)
    (hacc : Acc c total P) (hnd : (P ++ docsOf chunk).Nodup) :
    Acc c (mergeQPRs c.desc total (chunk.map (fracSearch c · m)) L c.hi) (P ++ docsOf chunk) := by
  have hh := List.nodup_append.mp hnd
  have hall : (allIds total (chunk.map (fracSearch c · m))).Nodup := by
    rw [allIds_fracSearch']
    refine List.nodup_append.mpr ⟨hacc.ids_nodup, nodup_cut_flatten c.desc m chunk hh.2.1, ?_⟩
    intro a ha b hb
    exact hh.2.2 a (hacc.ids_sub a ha) b (mem_cut_flatten c.desc m chunk b hb)
  refine ⟨?_, ?_, ?_, ?_, ?_⟩
  · rw [mergeQPRs_total_nodup _ _ _ _ _ hall, hacc.total_eq, sum_totals_fracSearch]
    cases c.withTotal <;> simp
  · rw [mergeQPRs_hist_nodup _ _ _ _ _ hall]; exact mergedHist_isSome _ _ hacc.hist_some
  · intro k
    rw [mergeQPRs_hist_nodup _ _ _ _ _ hall, mergedHist_get, hacc.hist_eq, sum_hists_fracSearch]
    split
    · rw [cntBucket_append]
    · rfl
  · intro v hv
    rw [mergeQPRs_ids] at hv
    have := (mem_sd c.desc v _).mp (List.mem_of_mem_take hv)
    rw [allIds_fracSearch'] at this
    rcases List.mem_append.mp this with h | h
    · exact List.mem_append_left _ (hacc.ids_sub v h)
    · exact List.mem_append_right _ (mem_cut_flatten c.desc m chunk v h)
  · exact sortedBy_nodup c.desc _ (mergeQPRs_ids_sorted c.desc _ _ _ _)

/-- total and histogram at the end of the loop, when no document is stored twice -/
theorem searchLoop_acc (c : Cfg) (n L : Nat) (total : QPR) (rest : List Frac) (limit : Nat) (P : List Nat)
    (hacc : Acc c total P) (hnd : (P ++ docsOf rest).Nodup) :
    (searchLoop c n L total rest limit).total = (if c.withTotal then (P ++ docsOf rest).length else 0) ∧
    (searchLoop c n L total rest limit).hist.isSome = true ∧
    ∀ k, histGet (searchLoop c n L total rest limit).hist k
      = if c.hi > 0 then cntBucket c.hi k (P ++ docsOf rest) else 0 := by
  induction hlen : rest.length using Nat.strongRecOn generalizing total rest limit P with
  | _ j ih =>
    unfold searchLoop
    split
    · rename_i hstop
      rcases hstop with hnil | hlim0
      · subst hnil
        simp only [docsOf, List.flatMap_nil, List.append_nil]
        exact ⟨hacc.total_eq, hacc.hist_some, hacc.hist_eq⟩
      · -- early termination happens only for requests that need neither total nor histogram
        have hsc : c.scanAll = false := by
          simp only [not_or] at hlim0
          cases h : c.scanAll <;> simp_all
        unfold Cfg.scanAll at hsc
        simp only [Bool.or_eq_false_iff, decide_eq_false_iff_not, Nat.not_lt, Nat.le_zero_eq] at hsc
        have hwt := hsc.1.1
        have hhi : ¬ c.hi > 0 := by omega
        refine ⟨by rw [hacc.total_eq, hwt]; simp, hacc.hist_some, fun k => ?_⟩
        rw [hacc.hist_eq]; simp [hhi]
    · rename_i hgo
      have hne : rest ≠ [] := fun h => hgo (Or.inl h)
      have hpos : 0 < rest.length := List.length_pos_iff.mpr hne
      have hsplit : docsOf rest = docsOf (rest.take (n + 1)) ++ docsOf (rest.drop (n + 1)) :=
        (docsOf_take_drop (n + 1) rest).symm
      have hnd' : ((P ++ docsOf (rest.take (n + 1))) ++ docsOf (rest.drop (n + 1))).Nodup := by
        rw [List.append_assoc, ← hsplit]; exact hnd
      have hnd1 : (P ++ docsOf (rest.take (n + 1))).Nodup := (List.nodup_append.mp hnd').1
      have := ih (rest.drop (n + 1)).length (by simp only [List.length_drop]; omega)
        (mergeQPRs c.desc total ((rest.take (n + 1)).map (fracSearch c · limit)) L c.hi)
        (rest.drop (n + 1))
        (L - calcEnsured c.desc
          (mergeQPRs c.desc total ((rest.take (n + 1)).map (fracSearch c · limit)) L c.hi).ids (rest.drop (n + 1)))
        (P ++ docsOf (rest.take (n + 1)))
        (acc_step c L limit total P _ hacc hnd1) hnd' rfl
      rw [List.append_assoc, ← hsplit] at this
      exact this

theorem acc_empty (c : Cfg) : Acc c emptyQPR [] := by
  refine ⟨by simp [emptyQPR], by simp [emptyQPR], fun k => ?_, by simp [emptyQPR], by simp [emptyQPR]⟩
  simp [emptyQPR, histGet, Hist.get, cntBucket]

/-! ## through `prepareFracs` -/

theorem insertFrac_perm (desc : Bool) (a : Frac) (l : List Frac) : (insertFrac desc a l).Perm (a :: l) := by
  induction l with
  | nil => simp [insertFrac]
  | cons b bs ih =>
    unfold insertFrac
    split
    · exact (List.Perm.cons b ih).trans (List.Perm.swap a b bs)
    · exact List.Perm.refl _

theorem sortFracs_perm (desc : Bool) (l : List Frac) : (sortFracs desc l).Perm l := by
  induction l with
  | nil => simp [sortFracs]
  | cons a as ih => exact (insertFrac_perm desc a _).trans (List.Perm.cons a ih)

theorem docsOf_perm {l1 l2 : List Frac} (h : l1.Perm l2) : (docsOf l1).Perm (docsOf l2) := by
  unfold docsOf
  exact List.Perm.flatMap_right _ h

theorem docsOf_filter (p : Frac → Bool) (fs : List Frac) (h : ∀ f, f ∈ fs → p f = false → f.docs = []) :
    docsOf (fs.filter p) = docsOf fs := by
  induction fs with
  | nil => rfl
  | cons f fs ih =>
    have ih' := ih (fun g hg => h g (List.mem_cons_of_mem _ hg))
    simp only [List.filter_cons]
    cases hp : p f with
    | true => simp only [if_true]; simp only [docsOf, List.flatMap_cons] at ih' ⊢; rw [ih']
    | false =>
      simp only [Bool.false_eq_true, if_false]
      have := h f (by simp) hp
      simp only [docsOf, List.flatMap_cons, this, List.nil_append] at ih' ⊢
      exact ih'

theorem cntBucket_perm (hi k : Nat) {l1 l2 : List Nat} (h : l1.Perm l2) : cntBucket hi k l1 = cntBucket hi k l2 := by
  unfold cntBucket
  exact (List.Perm.filter _ h).length_eq

/-- `SearchDocs` as a whole: total and histogram of all documents, when no document is stored twice -/
theorem searchDocs_total_hist (c : Cfg) (fs : List Frac) (from_ to_ L : Nat)
    (hvis : ∀ f, f ∈ fs → f.docs ≠ [] → isIntersecting f from_ to_ = true)
    (hmax : c.maxHits = 0 ∨ (filterInRange fs from_ to_).length ≤ c.maxHits)
    (hnd : (docsOf fs).Nodup) :
    ∃ q, searchDocs c fs from_ to_ L = some q ∧
      q.total = (if c.withTotal then (docsOf fs).length else 0) ∧ q.hist.isSome = true ∧
      ∀ k, histGet q.hist k = if c.hi > 0 then cntBucket c.hi k (docsOf fs) else 0 := by
  have hprep : prepareFracs c fs from_ to_ = some (sortFracs c.desc (filterInRange fs from_ to_)) := by
    unfold prepareFracs
    split
    · rename_i h; omega
    · rfl
  have hfil : docsOf (filterInRange fs from_ to_) = docsOf fs := by
    apply docsOf_filter
    intro f hf hp
    cases hd : f.docs with
    | nil => rfl
    | cons d ds =>
      have := hvis f hf (by simp [hd])
      simp [hp] at this
  have hperm : (docsOf (sortFracs c.desc (filterInRange fs from_ to_))).Perm (docsOf fs) := by
    rw [← hfil]; exact docsOf_perm (sortFracs_perm c.desc _)
  unfold searchDocs
  rw [hprep]
  simp only
  split
  · rename_i hz
    have hlen : (sortFracs c.desc (filterInRange fs from_ to_)).length = 0 := by
      split at hz
      · exact hz
      · rename_i hp; omega
    have hnil := List.eq_nil_of_length_eq_zero hlen
    rw [hnil] at hperm
    have hempty : docsOf fs = [] := List.Perm.eq_nil (by simpa [docsOf] using hperm.symm)
    refine ⟨emptyQPR, rfl, ?_, by simp [emptyQPR], fun k => ?_⟩
    · simp [emptyQPR, hempty]
    · simp [emptyQPR, hempty, histGet, Hist.get, cntBucket]
  · rename_i n hn
    refine ⟨_, rfl, ?_⟩
    have := searchLoop_acc c n L emptyQPR (sortFracs c.desc (filterInRange fs from_ to_)) L [] (acc_empty c)
      (by simpa using hperm.nodup_iff.mpr hnd)
    simp only [List.nil_append] at this
    refine ⟨?_, this.2.1, fun k => ?_⟩
    · rw [this.1, hperm.length_eq]
    · rw [this.2.2 k]; split
      · exact cntBucket_perm c.hi k hperm
      · rfl

end SV.Merge
