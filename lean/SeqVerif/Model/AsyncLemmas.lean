import SeqVerif.Model.Async
/-!
Helper lemmas for C19: the fetch fold, resumption, the key codec.
-/
namespace SV.Async
open SV SV.Merge

/-! ## key codec -/

theorem u64_roundtrip (m : Nat) (h : m < 18446744073709551616) : toU64 (toI64 m) = m := by
  unfold toU64 toI64
  split <;> omega

theorem cutBar_append (a b : List Nat) (h : 124 ∉ a) : cutBar (a ++ 124 :: b) = some (a, b) := by
  induction a with
  | nil => simp [cutBar]
  | cons c cs ih =>
    have hc : c ≠ 124 := fun e => h (by simp [e])
    have hcs : 124 ∉ cs := fun e => h (List.mem_cons_of_mem _ e)
    simp [cutBar, hc, ih hcs]

theorem key_roundtrip (render : Int → List Nat) (parse : List Nat → Option Int)
    (mid : Nat) (tok : List Nat) (hmid : mid < 18446744073709551616)
    (hparse : parse (render (toI64 mid)) = some (toI64 mid)) (hbar : 124 ∉ render (toI64 mid)) :
    fromKey parse (toKey render mid tok) = some (mid, tok) := by
  unfold fromKey toKey
  rw [cutBar_append _ _ hbar]
  simp [hparse, u64_roundtrip mid hmid]

/-! ## fetch fold: IDs -/

theorem foldl_fetch_ids (hi : Nat) (desc : Bool) (qs : List QPR) (acc : QPR) (P : List Nat)
    (hacc : acc.ids = (sd desc P).take maxInt) :
    (qs.foldl (fetchStepWith hi desc) acc).ids = (sd desc (P ++ qs.flatMap (·.ids))).take maxInt := by
  induction qs generalizing acc P with
  | nil => simpa using hacc
  | cons q qs ih =>
    simp only [List.foldl_cons, List.flatMap_cons]
    rw [ih (fetchStepWith hi desc acc q) (P ++ q.ids), List.append_assoc]
    simp only [fetchStepWith, mergeQPRs_ids, allIds, List.flatMap_cons, List.flatMap_nil, List.append_nil]
    rw [hacc, take_sd_take_append]

theorem fetchFoldWith_ids (hi : Nat) (desc : Bool) (qs : List QPR) :
    (fetchFoldWith hi desc qs).ids = (sd desc (qs.flatMap (·.ids))).take maxInt := by
  have := foldl_fetch_ids hi desc qs zeroQPR [] (by simp [zeroQPR, sd, sortIds, removeRepetitions])
  simpa [fetchFoldWith] using this

/-! ## fetch fold: histogram and panic, when no ID is stored twice -/

theorem mergeQPRs_hi_irrelevant (desc : Bool) (dst : QPR) (qs : List QPR) (L hi1 hi2 : Nat)
    (h : (allIds dst qs).Nodup) : mergeQPRs desc dst qs L hi1 = mergeQPRs desc dst qs L hi2 := by
  have e1 := mergeQPRs_hist_nodup desc dst qs L hi1 h
  have e2 := mergeQPRs_hist_nodup desc dst qs L hi2 h
  have i1 := mergeQPRs_ids desc dst qs L hi1
  have i2 := mergeQPRs_ids desc dst qs L hi2
  have t1 := mergeQPRs_total_nodup desc dst qs L hi1 h
  have t2 := mergeQPRs_total_nodup desc dst qs L hi2 h
  cases h1 : mergeQPRs desc dst qs L hi1
  cases h2 : mergeQPRs desc dst qs L hi2
  simp_all

theorem mergePanics_false_of_nodup (desc : Bool) (dst : QPR) (qs : List QPR) (hi : Nat) (h : (allIds dst qs).Nodup) :
    mergePanics desc dst qs hi = false := by
  unfold mergePanics
  rw [mergedAll_eq, repetitions_nil_of_nodup desc _ h]
  simp

/-- invariant of the fold over results with pairwise different IDs -/
structure FAcc (desc : Bool) (acc : QPR) (P : List Nat) (hk : Nat → Nat) : Prop where
  ids_sub : ∀ v, v ∈ acc.ids → v ∈ P
  ids_nodup : acc.ids.Nodup
  hist_eq : ∀ k, histGet acc.hist k = hk k

theorem facc_step (hi : Nat) (desc : Bool) (acc q : QPR) (P : List Nat) (hk : Nat → Nat)
    (hacc : FAcc desc acc P hk) (hnd : (P ++ q.ids).Nodup) :
    FAcc desc (fetchStepWith hi desc acc q) (P ++ q.ids) (fun k => hk k + Hist.sumAt (q.hist.getD []) k) ∧
      mergePanics desc acc [q] hi = false := by
  have hh := List.nodup_append.mp hnd
  have hall : (allIds acc [q]).Nodup := by
    simp only [allIds, List.flatMap_cons, List.flatMap_nil, List.append_nil]
    exact List.nodup_append.mpr ⟨hacc.ids_nodup, hh.2.1, fun a ha b hb => hh.2.2 a (hacc.ids_sub a ha) b hb⟩
  refine ⟨⟨?_, ?_, ?_⟩, mergePanics_false_of_nodup desc acc [q] hi hall⟩
  · intro v hv
    simp only [fetchStepWith, mergeQPRs_ids] at hv
    have := (mem_sd desc v _).mp (List.mem_of_mem_take hv)
    simp only [allIds, List.flatMap_cons, List.flatMap_nil, List.append_nil, List.mem_append] at this
    rcases this with h | h
    · exact List.mem_append_left _ (hacc.ids_sub v h)
    · exact List.mem_append_right _ h
  · exact sortedBy_nodup desc _ (mergeQPRs_ids_sorted desc _ _ _ _)
  · intro k
    simp only [fetchStepWith]
    rw [mergeQPRs_hist_nodup _ _ _ _ _ hall, mergedHist_get, hacc.hist_eq]
    simp

theorem fetch_fold_nodup (hi : Nat) (desc : Bool) (qs : List QPR) (acc : QPR) (P : List Nat) (hk : Nat → Nat)
    (hacc : FAcc desc acc P hk) (hnd : (P ++ qs.flatMap (·.ids)).Nodup) :
    (∀ k, histGet (qs.foldl (fetchStepWith hi desc) acc).hist k
        = hk k + (qs.map (fun q => Hist.sumAt (q.hist.getD []) k)).sum) ∧
      fetchPanicsWith hi desc acc qs = false := by
  induction qs generalizing acc P hk with
  | nil => exact ⟨fun k => by simp [hacc.hist_eq], rfl⟩
  | cons q qs ih =>
    simp only [List.flatMap_cons, ← List.append_assoc] at hnd
    have hnd1 : (P ++ q.ids).Nodup := (List.nodup_append.mp hnd).1
    have hs := facc_step hi desc acc q P hk hacc hnd1
    have := ih (fetchStepWith hi desc acc q) (P ++ q.ids) _ hs.1 hnd
    refine ⟨fun k => ?_, ?_⟩
    · simp only [List.foldl_cons, List.map_cons, List.sum_cons]
      rw [this.1 k]; omega
    · simp only [fetchPanicsWith, hs.2, this.2, Bool.or_self]

/-! ## async = sync -/

theorem flatMap_ids_fracSearch (c : Cfg) (fs : List Frac) (L : Nat) :
    (fs.map (fracSearch c · L)).flatMap (·.ids) = (fs.map (fun f => (sd c.desc f.docs).take L)).flatten := by
  simp [List.flatMap_def, fracSearch, Function.comp_def]

theorem length_docs_le (fs : List Frac) (f : Frac) (hf : f ∈ fs) : f.docs.length ≤ (docsOf fs).length := by
  induction fs with
  | nil => simp at hf
  | cons g gs ih =>
    have : docsOf (g :: gs) = g.docs ++ docsOf gs := by simp [docsOf]
    rw [this, List.length_append]
    rcases List.mem_cons.mp hf with h | h
    · subst h; omega
    · have := ih h; omega

theorem docsOf_filterInRange (fs : List Frac) (from_ to_ : Nat)
    (hvis : ∀ f, f ∈ fs → f.docs ≠ [] → isIntersecting f from_ to_ = true) :
    docsOf (filterInRange fs from_ to_) = docsOf fs := by
  apply docsOf_filter
  intro f hf hp
  cases hd : f.docs with
  | nil => rfl
  | cons d ds =>
    have := hvis f hf (by simp [hd])
    simp [hp] at this

/-- IDs of the fetched async result = IDs of the synchronous search, when the per-fraction limit `L` does not cut -/
theorem fetch_eq_sync_ids (c : Cfg) (fs : List Frac) (from_ to_ L hi : Nat)
    (hinv : ∀ f, f ∈ fs → FracInv f)
    (hvis : ∀ f, f ∈ fs → f.docs ≠ [] → isIntersecting f from_ to_ = true)
    (hmax : c.maxHits = 0 ∨ (filterInRange fs from_ to_).length ≤ c.maxHits)
    (hsize : (docsOf fs).length ≤ L) (hL : L ≤ maxInt) :
    ∃ q, searchDocs c fs from_ to_ L = some q ∧
      (fetchFoldWith hi c.desc ((filterInRange fs from_ to_).map (fracSearch c · L))).ids = q.ids := by
  obtain ⟨q, h1, h2⟩ := searchDocs_ids c fs from_ to_ L hinv hvis hmax
  refine ⟨q, h1, ?_⟩
  rw [h2, fetchFoldWith_ids, flatMap_ids_fracSearch]
  have hmem : ∀ v, v ∈ ((filterInRange fs from_ to_).map (fun f => (sd c.desc f.docs).take L)).flatten ↔ v ∈ docsOf fs := by
    intro v
    constructor
    · intro hv
      have := mem_cut_flatten c.desc L _ v hv
      rwa [docsOf_filterInRange fs from_ to_ hvis] at this
    · intro hv
      obtain ⟨f, hf, hvf⟩ := (mem_docsOf fs v).mp hv
      simp only [List.mem_flatten, List.mem_map]
      refine ⟨_, ⟨f, ?_, rfl⟩, ?_⟩
      · simp only [filterInRange, List.mem_filter]
        exact ⟨hf, hvis f hf (List.ne_nil_of_mem hvf)⟩
      · have hlen : (sd c.desc f.docs).length ≤ L := by
          have := length_sd_le c.desc f.docs
          have := length_docs_le fs f hf
          omega
        rw [List.take_of_length_le hlen]
        exact (mem_sd c.desc v _).mpr hvf
  rw [sd_congr c.desc _ _ hmem]
  have hlen : (sd c.desc (docsOf fs)).length ≤ L := by
    have := length_sd_le c.desc (docsOf fs); omega
  rw [List.take_of_length_le hlen, List.take_of_length_le (by omega)]

/-- histogram of the fetched async result = histogram of the synchronous search, when no document is stored twice
(whatever interval the fold uses), and the fold does not panic -/
theorem fetch_eq_sync_hist (c : Cfg) (fs : List Frac) (from_ to_ L hi : Nat)
    (hvis : ∀ f, f ∈ fs → f.docs ≠ [] → isIntersecting f from_ to_ = true)
    (hmax : c.maxHits = 0 ∨ (filterInRange fs from_ to_).length ≤ c.maxHits)
    (hnd : (docsOf fs).Nodup) :
    ∃ q, searchDocs c fs from_ to_ L = some q ∧
      (∀ k, histGet (fetchFoldWith hi c.desc ((filterInRange fs from_ to_).map (fracSearch c · L))).hist k
          = histGet q.hist k) ∧
      fetchPanicsWith hi c.desc zeroQPR ((filterInRange fs from_ to_).map (fracSearch c · L)) = false := by
  obtain ⟨q, h1, _, _, h4⟩ := searchDocs_total_hist c fs from_ to_ L hvis hmax hnd
  refine ⟨q, h1, ?_⟩
  have hnd' : (([] : List Nat) ++ ((filterInRange fs from_ to_).map (fracSearch c · L)).flatMap (fun q : QPR => q.ids)).Nodup := by
    rw [List.nil_append, flatMap_ids_fracSearch]
    apply nodup_cut_flatten
    rw [docsOf_filterInRange fs from_ to_ hvis]; exact hnd
  have := fetch_fold_nodup hi c.desc _ zeroQPR [] (fun _ => 0)
    ⟨by simp [zeroQPR], by simp [zeroQPR], fun k => by simp [zeroQPR, histGet, Hist.get]⟩ hnd'
  refine ⟨fun k => ?_, this.2⟩
  have hk := this.1 k
  simp only [fetchFoldWith]
  rw [hk, h4 k, sum_hists_fracSearch, docsOf_filterInRange fs from_ to_ hvis]
  simp

/-! ## resumption -/

theorem run_qprs (search : String → QPR) (st : St) (names : List String) :
    run st (names.map (fun n => Write.qpr n (search n))) =
      { st with files := st.files ++ names.map (fun n => (n, search n)) } := by
  induction names generalizing st with
  | nil => simp [run]
  | cons n ns ih =>
    simp only [List.map_cons, run, List.foldl_cons] at ih ⊢
    rw [ih]
    simp [apply, List.append_assoc]

theorem run_append (st : St) (a b : List Write) : run st (a ++ b) = run (run st a) b := by
  simp [run, List.foldl_append]

theorem filter_not_in_take (l : List String) (h : l.Nodup) (j : Nat) :
    l.filter (fun n => !(l.take j).contains n) = l.drop j := by
  induction l generalizing j with
  | nil => simp
  | cons a as ih =>
    have h' := List.nodup_cons.mp h
    cases j with
    | zero => simp
    | succ j =>
      simp only [List.take_succ_cons, List.drop_succ_cons, List.filter_cons]
      have : (a :: as.take j).contains a = true := by simp
      simp only [this, Bool.not_true, Bool.false_eq_true, if_false]
      rw [← ih h'.2 j]
      apply List.filter_congr
      intro x hx
      have hxa : x ≠ a := fun e => h'.1 (e ▸ hx)
      simp [hxa]

theorem run_start_full (search : String → QPR) (fracs : List String) :
    run emptySt (startWrites search fracs) = ⟨some ⟨fracs, true⟩, fracs.map (fun n => (n, search n))⟩ := by
  unfold startWrites
  cases hf : fracs.isEmpty with
  | true =>
    have : fracs = [] := List.isEmpty_iff.mp hf
    subst this
    simp [run, apply, emptySt]
  | false =>
    simp only [Bool.false_eq_true, if_false, run, List.foldl_cons]
    have := run_append (apply emptySt (Write.info ⟨fracs, false⟩)) (fracs.map (fun n => Write.qpr n (search n))) [Write.info ⟨fracs, true⟩]
    simp only [run] at this
    rw [this]
    have h2 := run_qprs search (apply emptySt (Write.info ⟨fracs, false⟩)) fracs
    simp only [run] at h2
    rw [h2]
    simp [apply, emptySt]

/-- crash after `k ≥ 1` atomic writes (the request info is on disk), restart, finish: the same files as an
uninterrupted run -/
theorem crashAndResume_eq (search : String → QPR) (fracs : List String) (hnd : fracs.Nodup) (k : Nat) (hk : 1 ≤ k) :
    crashAndResume search fracs k = run emptySt (startWrites search fracs) := by
  rw [run_start_full]
  obtain ⟨j, rfl⟩ : ∃ j, k = j + 1 := ⟨k - 1, by omega⟩
  unfold crashAndResume startWrites
  cases hf : fracs.isEmpty with
  | true =>
    have : fracs = [] := List.isEmpty_iff.mp hf
    subst this
    simp [run, apply, emptySt, resumeWrites]
  | false =>
    simp only [Bool.false_eq_true, if_false, List.take_succ_cons, run, List.foldl_cons]
    by_cases hj : j ≤ fracs.length
    · have htake : List.take j (fracs.map (fun n => Write.qpr n (search n)) ++ [Write.info ⟨fracs, true⟩])
          = (fracs.take j).map (fun n => Write.qpr n (search n)) := by
        rw [List.take_append_of_le_length (by simpa using hj), List.map_take]
      rw [htake]
      have h2 := run_qprs search (apply emptySt (Write.info ⟨fracs, false⟩)) (fracs.take j)
      simp only [run] at h2
      rw [h2]
      simp only [apply, emptySt, List.nil_append, resumeWrites, processed, List.map_map, Function.comp_def,
        List.map_id', Bool.false_eq_true, if_false]
      rw [filter_not_in_take fracs hnd j]
      have h3 := run_append (⟨some ⟨fracs, false⟩, (fracs.take j).map (fun n => (n, search n))⟩ : St)
        ((fracs.drop j).map (fun n => Write.qpr n (search n))) [Write.info ⟨fracs, true⟩]
      simp only [run] at h3
      rw [h3]
      have h4 := run_qprs search (⟨some ⟨fracs, false⟩, (fracs.take j).map (fun n => (n, search n))⟩ : St) (fracs.drop j)
      simp only [run] at h4
      rw [h4]
      simp only [List.foldl_cons, List.foldl_nil, apply, ← List.map_append, List.take_append_drop]
    · have htake : List.take j (fracs.map (fun n => Write.qpr n (search n)) ++ [Write.info ⟨fracs, true⟩])
          = fracs.map (fun n => Write.qpr n (search n)) ++ [Write.info ⟨fracs, true⟩] := by
        apply List.take_of_length_le; simp; omega
      rw [htake]
      have h3 := run_append (apply emptySt (Write.info ⟨fracs, false⟩)) (fracs.map (fun n => Write.qpr n (search n))) [Write.info ⟨fracs, true⟩]
      simp only [run] at h3
      rw [h3]
      have h2 := run_qprs search (apply emptySt (Write.info ⟨fracs, false⟩)) fracs
      simp only [run] at h2
      rw [h2]
      simp [apply, emptySt, resumeWrites]

end SV.Async
