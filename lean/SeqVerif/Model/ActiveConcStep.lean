import SeqVerif.Model.ActiveConcInv
/-! Every step of the active-index transition system preserves `Inv`. -/
namespace SV.ActiveConc

theorem inv_of_writer (s : St) (i : Nat) (sh' : Sh) (w' : W) (h : Inv s) (e : Ext s.sh sh') (hsh : ShInv sh')
    (hw : WInv sh' w') : Inv { s with sh := sh', ws := setW s.ws i w' } := by
  refine ⟨hsh, ?_, ?_⟩
  · intro j
    simp only [setW]
    split
    · exact hw
    · exact (h.ws j).mono e
  · intro j; exact (h.rs j).mono e

theorem inv_of_reader (s : St) (i : Nat) (r' : R) (h : Inv s) (hr : RInv s.sh r') :
    Inv { s with rs := setR s.rs i r' } := by
  refine ⟨h.sh, h.ws, ?_⟩
  intro j
  simp only [setR]
  split
  · exact hr
  · exact h.rs j

/-! ### writer steps -/

theorem inv_wNew (c : Cfg) (s s' : St) (i : Nat) (bulk : List Doc) (h : Inv s) (hs : step c s (.wNew i bulk) = some s') : Inv s' := by
  simp only [step] at hs
  split at hs <;> cases hs
  apply inv_of_writer s i _ _ h
  · exact ⟨⟨[], by simp⟩, fun _ h => h, fun _ _ h => h, fun _ _ h => h, Nat.le_refl _, fun _ h => h,
      fun d hd => List.mem_append_left _ hd⟩
  · exact ⟨h.sh.allLt, h.sh.tokOk, h.sh.posOk, h.sh.idsPos, fun d hd => List.mem_append_left _ (h.sh.idsSub d hd)⟩
  · refine ⟨fun _ d hd => List.mem_append_right _ hd, ?_, ?_, ?_, ?_⟩ <;> simp

theorem inv_wBlock (c : Cfg) (s s' : St) (i : Nat) (h : Inv s) (hs : step c s (.wBlock i) = some s') : Inv s' := by
  simp only [step] at hs
  split at hs <;> cases hs
  rename_i hpc
  obtain ⟨h1, h2, h3, h4, h5⟩ := h.ws i
  apply inv_of_writer s i _ _ h
  · exact ⟨⟨[], by simp⟩, fun _ h => h, fun _ _ h => h, fun _ _ h => h, Nat.le_succ _, fun _ h => h, fun _ h => h⟩
  · exact ⟨h.sh.allLt, h.sh.tokOk, fun id b off hl => Nat.lt_succ_of_lt (h.sh.posOk id b off hl), h.sh.idsPos, h.sh.idsSub⟩
  · refine ⟨fun _ d hd => h1 (by simp [hpc]) d hd, fun _ _ => Nat.lt_succ_self _, ?_, ?_, h5⟩ <;> simp

theorem inv_wPos (c : Cfg) (s s' : St) (i : Nat) (h : Inv s) (hs : step c s (.wPos i) = some s') : Inv s' := by
  simp only [step] at hs
  split at hs <;> cases hs
  rename_i hpc
  obtain ⟨h1, h2, h3, h4, h5⟩ := h.ws i
  have hblk : (s.ws i).blk < s.sh.blocks := h2 (by simp [hpc]) (by simp [hpc])
  apply inv_of_writer s i _ _ h
  · exact ⟨⟨[], by simp⟩, fun _ h => h, fun _ _ h => h, fun id p hp => setMultiple_keeps _ _ _ _ id p hp,
      Nat.le_refl _, fun _ h => h, fun _ h => h⟩
  · refine ⟨h.sh.allLt, h.sh.tokOk, ?_, ?_, h.sh.idsSub⟩
    · intro id b off hl
      rcases setMultiple_new _ _ _ _ id b off hl with h' | h'
      · exact h.sh.posOk id b off h'
      · rw [h']; exact hblk
    · intro d hd
      obtain ⟨p, hp⟩ := h.sh.idsPos d hd
      exact ⟨p, setMultiple_keeps _ _ _ _ _ p hp⟩
  · refine ⟨fun _ d hd => h1 (by simp [hpc]) d (List.mem_filter.mp hd).1, fun _ _ => hblk, ?_, ?_, h5⟩
    · intro _ _ _ d hd
      have hc := (List.mem_filter.mp hd).2
      simp only [List.contains_eq_mem, List.mem_map, decide_eq_true_eq] at hc
      obtain ⟨d', hd', hid⟩ := hc
      obtain ⟨off, ho⟩ := (setMultiple_set _ _ _ _ d' hd').2
      exact ⟨off, by rw [← hid]; exact ho⟩
    · simp

theorem inv_wIds (c : Cfg) (s s' : St) (i : Nat) (h : Inv s) (hs : step c s (.wIds i) = some s') : Inv s' := by
  simp only [step] at hs
  split at hs <;> cases hs
  rename_i hpc
  obtain ⟨h1, h2, h3, h4, h5⟩ := h.ws i
  have e : Ext s.sh { s.sh with ids := s.sh.ids ++ (s.ws i).docs } :=
    ⟨⟨_, rfl⟩, fun _ h => h, fun _ _ h => h, fun _ _ h => h, Nat.le_refl _, fun _ h => h, fun _ h => h⟩
  apply inv_of_writer s i _ _ h e
  · refine ⟨?_, ?_, h.sh.posOk, ?_, ?_⟩
    · intro l hl
      have := h.sh.allLt l hl
      simp only [List.length_append]; omega
    · intro t l hl
      obtain ⟨d, hd, ht⟩ := h.sh.tokOk t l hl
      exact ⟨d, e.get hd, ht⟩
    · intro d hd
      rcases List.mem_append.mp hd with hd | hd
      · exact h.sh.idsPos d hd
      · obtain ⟨off, ho⟩ := h3 (by simp [hpc]) (by simp [hpc]) (by simp [hpc]) d hd
        exact ⟨_, ho⟩
    · intro d hd
      rcases List.mem_append.mp hd with hd | hd
      · exact h.sh.idsSub d hd
      · exact h1 (by simp [hpc]) d hd
  · refine ⟨fun _ d hd => h1 (by simp [hpc]) d hd, fun _ _ => h2 (by simp [hpc]) (by simp [hpc]),
      fun _ _ _ d hd => h3 (by simp [hpc]) (by simp [hpc]) (by simp [hpc]) d hd, ?_, ?_⟩
    · intro _ _ _ _ k d hd
      show (s.sh.ids ++ (s.ws i).docs)[s.sh.ids.length + k]? = some d
      rw [List.getElem?_append_right (Nat.le_add_right _ _)]
      simpa using hd
    · intro t ls hm l hl
      obtain ⟨d, hd, ht⟩ := h5 t ls hm l hl
      exact ⟨d, e.get hd, ht⟩

theorem ext_same (a b : Sh) (h1 : b.ids = a.ids) (h2 : b.all = a.all) (h3 : b.tok = a.tok) (h4 : b.pos = a.pos)
    (h5 : b.blocks = a.blocks) (h6 : b.range = a.range) (h7 : b.submitted = a.submitted) : Ext a b :=
  ⟨⟨[], by simp [h1]⟩, fun l h => by rw [h2]; exact h, fun t l h => by rw [h3]; exact h,
    fun id p h => by rw [h4]; exact h, by rw [h5]; exact Nat.le_refl _, fun m h => by rw [h6]; exact h,
    fun d h => by rw [h7]; exact h⟩

theorem shinv_same (a b : Sh) (h : ShInv a) (h1 : b.ids = a.ids) (h2 : b.all = a.all) (h3 : b.tok = a.tok)
    (h4 : b.pos = a.pos) (h5 : b.blocks = a.blocks) (h7 : b.submitted = a.submitted) : ShInv b :=
  ⟨by rw [h1, h2]; exact h.allLt, by rw [h1, h3]; exact h.tokOk, by rw [h4, h5]; exact h.posOk,
    by rw [h1, h4]; exact h.idsPos, by rw [h1, h7]; exact h.idsSub⟩

theorem inv_wTokGet (c : Cfg) (s s' : St) (i : Nat) (h : Inv s) (hs : step c s (.wTokGet i) = some s') : Inv s' := by
  simp only [step] at hs
  split at hs <;> cases hs
  rename_i hpc
  obtain ⟨h1, h2, h3, h4, h5⟩ := h.ws i
  apply inv_of_writer s i _ _ h
  · exact ext_same _ _ rfl rfl rfl rfl rfl rfl rfl
  · exact shinv_same _ _ h.sh rfl rfl rfl rfl rfl rfl
  · exact ⟨fun _ d hd => h1 (by simp [hpc.1]) d hd, fun _ _ => h2 (by simp [hpc.1]) (by simp [hpc.1]),
      fun _ _ _ d hd => h3 (by simp [hpc.1]) (by simp [hpc.1]) (by simp [hpc.1]) d hd,
      fun _ _ _ _ k d hd => h4 (by simp [hpc.1]) (by simp [hpc.1]) (by simp [hpc.1]) (by simp [hpc.1]) k d hd, h5⟩

theorem inv_wToks (c : Cfg) (s s' : St) (i : Nat) (h : Inv s) (hs : step c s (.wToks i) = some s') : Inv s' := by
  simp only [step] at hs
  split at hs <;> cases hs
  rename_i hpc
  obtain ⟨h1, h2, h3, h4, h5⟩ := h.ws i
  apply inv_of_writer s i _ _ h
  · exact ext_same _ _ rfl rfl rfl rfl rfl rfl rfl
  · exact shinv_same _ _ h.sh rfl rfl rfl rfl rfl rfl
  · refine ⟨fun _ d hd => h1 (by simp [hpc]) d hd, fun _ _ => h2 (by simp [hpc]) (by simp [hpc]),
      fun _ _ _ d hd => h3 (by simp [hpc]) (by simp [hpc]) (by simp [hpc]) d hd,
      fun _ _ _ _ k d hd => h4 (by simp [hpc]) (by simp [hpc]) (by simp [hpc]) (by simp [hpc]) k d hd, ?_⟩
    intro t ls hm l hl
    obtain ⟨k, d, hk, hl', ht⟩ := queueCalls_mem _ _ _ _ t ls hm l hl
    refine ⟨d, ?_, ht⟩
    rw [hl']
    exact h4 (by simp [hpc]) (by simp [hpc]) (by simp [hpc]) (by simp [hpc]) k d hk

theorem inv_wQueue (c : Cfg) (s s' : St) (i : Nat) (h : Inv s) (hs : step c s (.wQueue i) = some s') : Inv s' := by
  simp only [step] at hs
  split at hs
  · rename_i hpc
    split at hs
    · cases hs
    · rename_i t ls rest htodo
      cases hs
      obtain ⟨h1, h2, h3, h4, h5⟩ := h.ws i
      have hls : ∀ l, l ∈ ls → ∃ d, s.sh.ids[l]? = some d ∧ ∀ t', t = some t' → t' ∈ d.toks :=
        h5 t ls (by rw [htodo]; exact List.mem_cons_self ..)
      have e : Ext s.sh (putQueue s.sh t ls) := by
        cases t with
        | none =>
          exact ⟨⟨[], by simp [putQueue]⟩, fun l hl => List.mem_append_left _ hl, fun _ _ h => h, fun _ _ h => h,
            Nat.le_refl _, fun _ h => h, fun _ h => h⟩
        | some t =>
          refine ⟨⟨[], by simp [putQueue]⟩, fun _ h => h, ?_, fun _ _ h => h, Nat.le_refl _, fun _ h => h, fun _ h => h⟩
          intro u l hl
          simp only [putQueue]
          split
          · exact List.mem_append_left _ hl
          · exact hl
      apply inv_of_writer s i _ _ h e
      · cases t with
        | none =>
          refine ⟨?_, h.sh.tokOk, h.sh.posOk, h.sh.idsPos, h.sh.idsSub⟩
          intro l hl
          simp only [putQueue] at hl
          rcases List.mem_append.mp hl with hl | hl
          · exact h.sh.allLt l hl
          · obtain ⟨d, hd, _⟩ := hls l hl
            rcases Nat.lt_or_ge l s.sh.ids.length with h' | h'
            · exact h'
            · rw [List.getElem?_eq_none h'] at hd; cases hd
        | some t =>
          refine ⟨h.sh.allLt, ?_, h.sh.posOk, h.sh.idsPos, h.sh.idsSub⟩
          intro u l hl
          simp only [putQueue] at hl
          split at hl
          · rename_i hu
            rcases List.mem_append.mp hl with hl | hl
            · exact h.sh.tokOk u l hl
            · obtain ⟨d, hd, ht⟩ := hls l hl
              exact ⟨d, hd, by rw [hu]; exact ht t rfl⟩
          · exact h.sh.tokOk u l hl
      · have hw : WInv (putQueue s.sh t ls) (s.ws i) := (h.ws i).mono e
        obtain ⟨g1, g2, g3, g4, g5⟩ := hw
        refine ⟨g1, g2, g3, g4, ?_⟩
        intro t' ls' hm
        exact g5 t' ls' (by rw [htodo]; exact List.mem_cons_of_mem _ hm)
  · cases hs

theorem inv_wStats (c : Cfg) (s s' : St) (i : Nat) (h : Inv s) (hs : step c s (.wStats i) = some s') : Inv s' := by
  simp only [step] at hs
  split at hs <;> cases hs
  rename_i hpc
  obtain ⟨h1, h2, h3, h4, h5⟩ := h.ws i
  apply inv_of_writer s i _ _ h
  · exact ⟨⟨[], by simp⟩, fun _ h => h, fun _ _ h => h, fun _ _ h => h, Nat.le_refl _,
      fun m hm => inR_merge _ _ m hm, fun _ h => h⟩
  · exact ⟨h.sh.allLt, h.sh.tokOk, h.sh.posOk, h.sh.idsPos, h.sh.idsSub⟩
  · exact ⟨fun _ d hd => h1 (by simp [hpc.1]) d hd, fun _ _ => h2 (by simp [hpc.1]) (by simp [hpc.1]),
      fun _ _ _ d hd => h3 (by simp [hpc.1]) (by simp [hpc.1]) (by simp [hpc.1]) d hd,
      fun _ _ _ _ k d hd => h4 (by simp [hpc.1]) (by simp [hpc.1]) (by simp [hpc.1]) (by simp [hpc.1]) k d hd, h5⟩

theorem inv_wDone (c : Cfg) (s s' : St) (i : Nat) (h : Inv s) (hs : step c s (.wDone i) = some s') : Inv s' := by
  simp only [step] at hs
  split at hs <;> cases hs
  rename_i hpc
  obtain ⟨h1, h2, h3, h4, h5⟩ := h.ws i
  have := inv_of_writer s i s.sh { s.ws i with pc := .done } h (Ext.refl _) h.sh ?_
  · exact this
  · exact ⟨fun _ d hd => h1 (by simp [hpc]) d hd, fun _ _ => h2 (by simp [hpc]) (by simp [hpc]),
      fun _ _ _ d hd => h3 (by simp [hpc]) (by simp [hpc]) (by simp [hpc]) d hd,
      fun _ _ _ _ k d hd => h4 (by simp [hpc]) (by simp [hpc]) (by simp [hpc]) (by simp [hpc]) k d hd, h5⟩

/-! ### reader steps (the shared state does not change) -/

/-- closes every clause of `RInv` that is literally a clause of the old invariant -/
macro "rinv_same" hr:ident : tactic => `(tactic| first
  | exact RInv.range $hr | exact RInv.nblocks $hr | exact RInv.nids $hr | exact RInv.atPos $hr
  | exact RInv.early $hr | exact RInv.earlyN $hr | exact RInv.noFetch $hr | exact RInv.noGot $hr
  | exact RInv.noRes $hr | exact RInv.mapAll $hr | exact RInv.nmids $hr | exact RInv.nrids $hr
  | exact RInv.mapMids $hr | exact RInv.mapRids $hr | exact RInv.got $hr | exact RInv.res $hr
  | exact RInv.fetched $hr)

theorem inv_rNew (c : Cfg) (s s' : St) (i : Nat) (q : Query) (a b : Nat) (h : Inv s) (hs : step c s (.rNew i q a b) = some s') : Inv s' := by
  simp only [step] at hs
  split at hs <;> cases hs
  apply inv_of_reader s i _ h
  constructor <;> simp [inR]

theorem inv_rInfo (c : Cfg) (s s' : St) (i : Nat) (h : Inv s) (hs : step c s (.rInfo i) = some s') : Inv s' := by
  simp only [step] at hs
  split at hs
  · rename_i hpc
    have hr := h.rs i
    split at hs <;> cases hs
    · apply inv_of_reader s i _ h
      constructor <;> simp [inR]
    · apply inv_of_reader s i _ h
      have hres := hr.noRes (by simp [hpc])
      have hmap := hr.early (by simp [hpc])
      have hn := hr.earlyN (by simp [hpc])
      have hf := hr.noFetch (by simp [hpc])
      have hgot := hr.noGot (by simp [hpc]) (by simp [hpc])
      constructor <;> dsimp only <;> try (rinv_same hr)
      all_goals simp_all
  · cases hs

theorem inv_rBlocks (c : Cfg) (s s' : St) (i : Nat) (h : Inv s) (hs : step c s (.rBlocks i) = some s') : Inv s' := by
  simp only [step] at hs
  split at hs <;> cases hs
  rename_i hpc
  have hr := h.rs i
  apply inv_of_reader s i _ h
  have hres := hr.noRes (by simp [hpc])
  have hmap := hr.early (by simp [hpc])
  have hn := hr.earlyN (by simp [hpc])
  have hf := hr.noFetch (by simp [hpc])
  have hgot := hr.noGot (by simp [hpc]) (by simp [hpc])
  constructor <;> dsimp only <;> try (rinv_same hr)
  case atPos =>
    intro l hl
    have hd : s.sh.ids[l]? = some s.sh.ids[l] := by simp [hl]
    obtain ⟨p, hp⟩ := h.sh.idsPos _ (List.getElem_mem hl)
    obtain ⟨b, off⟩ := p
    exact ⟨_, b, off, hd, hp, h.sh.posOk _ b off hp⟩
  all_goals simp_all

theorem inv_rMapping (c : Cfg) (s s' : St) (i : Nat) (h : Inv s) (hs : step c s (.rMapping i) = some s') : Inv s' := by
  simp only [step] at hs
  split at hs <;> cases hs
  rename_i hpc
  have hr := h.rs i
  apply inv_of_reader s i _ h
  have hres := hr.noRes (by simp [hpc])
  have hn := hr.earlyN (by simp [hpc])
  have hgot := hr.noGot (by simp [hpc]) (by simp [hpc])
  constructor <;> dsimp only <;> try (rinv_same hr)
  all_goals simp_all

theorem inv_rMids (c : Cfg) (s s' : St) (i : Nat) (h : Inv s) (hs : step c s (.rMids i) = some s') : Inv s' := by
  simp only [step] at hs
  split at hs <;> cases hs
  rename_i hpc
  have hr := h.rs i
  apply inv_of_reader s i _ h
  have hres := hr.noRes (by simp [hpc])
  have hgot := hr.noGot (by simp [hpc]) (by simp [hpc])
  constructor <;> dsimp only <;> try (rinv_same hr)
  case mapMids => intro _ l hl; exact h.sh.allLt l (hr.mapAll l hl)
  all_goals simp_all

theorem inv_rRids (c : Cfg) (s s' : St) (i : Nat) (h : Inv s) (hs : step c s (.rRids i) = some s') : Inv s' := by
  simp only [step] at hs
  split at hs <;> cases hs
  rename_i hpc
  have hr := h.rs i
  apply inv_of_reader s i _ h
  have hres := hr.noRes (by simp [hpc])
  have hgot := hr.noGot (by simp [hpc]) (by simp [hpc])
  have hmm := hr.mapMids (by simp [hpc])
  constructor <;> dsimp only <;> try (rinv_same hr)
  case mapRids => intro _; exact hr.nmids
  all_goals simp_all

theorem inv_rLeaf (c : Cfg) (s s' : St) (i : Nat) (h : Inv s) (hs : step c s (.rLeaf i) = some s') : Inv s' := by
  simp only [step] at hs
  split at hs
  · rename_i hpc
    split at hs
    · cases hs
    · rename_i t rest htodo
      cases hs
      have hr := h.rs i
      apply inv_of_reader s i _ h
      have hres := hr.noRes (by simp [hpc])
      have hmm := hr.mapMids (by simp [hpc])
      have hmr := hr.mapRids (by simp [hpc])
      constructor <;> dsimp only <;> try (rinv_same hr)
      case got =>
        intro t' ls hm l hl
        rcases List.mem_append.mp hm with hm | hm
        · exact hr.got t' ls hm l hl
        · simp only [List.mem_singleton, Prod.mk.injEq] at hm
          obtain ⟨rfl, rfl⟩ := hm
          split at hl
          · simp only [List.mem_filter, Bool.and_eq_true, decide_eq_true_eq, List.contains_eq_mem] at hl
            exact ⟨hl.1, hl.2.2⟩
          · cases hl
      all_goals simp_all
  · cases hs

theorem inv_rEval (c : Cfg) (s s' : St) (i : Nat) (h : Inv s) (hs : step c s (.rEval i) = some s') : Inv s' := by
  simp only [step] at hs
  split at hs <;> cases hs
  rename_i hpc
  have hr := h.rs i
  apply inv_of_reader s i _ h
  have hmm := hr.mapMids (by simp [hpc.1])
  have hmr := hr.mapRids (by simp [hpc.1])
  constructor <;> dsimp only <;> try (rinv_same hr)
  case res =>
    intro l hl
    simp only [List.mem_filter] at hl
    obtain ⟨hmap, hcond⟩ := hl
    refine ⟨hmap, ?_⟩
    cases hd : s.sh.ids[l]? with
    | none => simp [hd] at hcond
    | some d =>
      simp only [hd, Bool.and_eq_true, decide_eq_true_eq] at hcond
      obtain ⟨⟨⟨h1, h2⟩, h3⟩, h4⟩ := hcond
      refine ⟨d, rfl, h1, h2, h3, ?_⟩
      intro hpos
      apply evalQ_sound _ _ l d _ hpos h4
      intro t ls hm hl'
      obtain ⟨d', hd', ht⟩ := h.sh.tokOk t l (hr.got t ls hm l hl').1
      rw [hd] at hd'; cases hd'; exact ht
  all_goals simp_all

theorem inv_rFetch (c : Cfg) (s s' : St) (i : Nat) (id : ID) (h : Inv s) (hs : step c s (.rFetch i id) = some s') : Inv s' := by
  simp only [step] at hs
  split at hs <;> cases hs
  rename_i hpc
  have hr := h.rs i
  apply inv_of_reader s i _ h
  have hres := hr.noRes (by simp [hpc])
  have hmap := hr.early (by simp [hpc])
  have hn := hr.earlyN (by simp [hpc])
  have hgot := hr.noGot (by simp [hpc]) (by simp [hpc])
  constructor <;> dsimp only <;> try (rinv_same hr)
  case fetched =>
    intro id' res hm l d hl hd hid
    rcases List.mem_append.mp hm with hm | hm
    · exact hr.fetched id' res hm l d hl hd hid
    · simp only [List.mem_singleton, Prod.mk.injEq] at hm
      obtain ⟨rfl, rfl⟩ := hm
      obtain ⟨d', b, off, h1, h2, h3⟩ := hr.atPos l hl
      rw [hd] at h1; cases h1
      refine ⟨b, off, ?_⟩
      simp [fetchOne, ← hid, h2, h3]
  all_goals simp_all

theorem inv_rClose (c : Cfg) (s s' : St) (i : Nat) (h : Inv s) (hs : step c s (.rClose i) = some s') : Inv s' := by
  simp only [step] at hs
  split at hs <;> cases hs
  rename_i hpc
  have hr := h.rs i
  apply inv_of_reader s i _ h
  have hres := hr.noRes (by simp [hpc])
  have hmap := hr.early (by simp [hpc])
  have hn := hr.earlyN (by simp [hpc])
  have hgot := hr.noGot (by simp [hpc]) (by simp [hpc])
  constructor <;> dsimp only <;> try (rinv_same hr)
  all_goals simp_all

theorem inv_step (c : Cfg) (s : St) (l : Label) (s' : St) (h : Inv s) (hs : step c s l = some s') : Inv s' := by
  cases l with
  | wNew i b => exact inv_wNew c s s' i b h hs
  | wBlock i => exact inv_wBlock c s s' i h hs
  | wPos i => exact inv_wPos c s s' i h hs
  | wIds i => exact inv_wIds c s s' i h hs
  | wTokGet i => exact inv_wTokGet c s s' i h hs
  | wToks i => exact inv_wToks c s s' i h hs
  | wQueue i => exact inv_wQueue c s s' i h hs
  | wStats i => exact inv_wStats c s s' i h hs
  | wDone i => exact inv_wDone c s s' i h hs
  | rNew i q a b => exact inv_rNew c s s' i q a b h hs
  | rInfo i => exact inv_rInfo c s s' i h hs
  | rBlocks i => exact inv_rBlocks c s s' i h hs
  | rMapping i => exact inv_rMapping c s s' i h hs
  | rMids i => exact inv_rMids c s s' i h hs
  | rRids i => exact inv_rRids c s s' i h hs
  | rLeaf i => exact inv_rLeaf c s s' i h hs
  | rEval i => exact inv_rEval c s s' i h hs
  | rFetch i id => exact inv_rFetch c s s' i id h hs
  | rClose i => exact inv_rClose c s s' i h hs

theorem inv_reachable (c : Cfg) (s : St) (h : Reachable c s) : Inv s :=
  reachable_induct c Inv inv_init (inv_step c) s h

end SV.ActiveConc
