/-!
# Model of the bulk ingestion path (C10) - framing and the ProcessDocuments loop

Follows, statement by statement where it matters:
* `bufio.Reader.ReadLine` (Go stdlib) with a buffer of `B` bytes: `readLine`
  (first `'\n'` inside the first `B` bytes -> whole line with `\n` / `\r\n` dropped; otherwise a
  prefix chunk of `B` bytes with `isPrefix`, and a trailing `'\r'` of the chunk is put back; an unterminated
  remainder shorter than the buffer is returned as a line without any stripping);
* `proxyapi/http_bulk.go`: `esBulkDocReader.skipActionLine` (`skipAction`), `readDoc` (`readDocLine`,
  `skipLong`), `ReadDoc` (`readDoc`), `acquireESBulkDocReader` (`bufSize`: bufio's minimum of 16);
* `proxy/bulk/ingestor.go`: `processDocsToCompressor` (`processDocs`) and `ProcessDocuments`
  (`processDocuments`): the single `StoreDocuments` call after the whole body was processed.

Environment (oracle parameters, see `Env`): whether the body reader delivers its final bytes together with
the end-of-stream condition (`eager`; this decides how bufio treats an unterminated remainder of exactly
`B` bytes) and whether the stream ends with `io.EOF` or another error (`clean`; e.g. truncated gzip).
`jsonKind` (insane-json `DecodeBytes` + `IsObject`) is an oracle of the processing loop.

All loops are fuelled (`fuel > remaining bytes` is always enough, every `ReadLine` consumes at least one
byte because `B >= 16`); `Err.fuel` is never produced (`c10_model_total` in Props/C10.lean, via
`readAll_render_tail` and `exists_lines` in Model/BulkFrame.lean: every byte string is terminated lines plus an
unterminated remainder, and the reader equals the line-level `frame` on it).
-/
namespace SV.Bulk

abbrev Bytes := List Nat

/-- `bufio.NewReaderSize`: sizes below `minReadBufferSize = 16` are raised to 16 -/
def bufSize (maxDocumentSize : Nat) : Nat := if maxDocumentSize < 16 then 16 else maxDocumentSize

structure Env where
  B : Nat            -- capacity of the bufio buffer (`bufSize maxDocumentSize`)
  eager : Bool       -- the last Read returned its data together with the terminal condition
  clean : Bool       -- the stream ends with io.EOF (true) or with another error (false)
  deriving Repr, DecidableEq

/-- bytes before / after the first `'\n'` -/
def splitNL : Bytes → Option (Bytes × Bytes)
  | [] => none
  | b :: s => if b = 10 then some ([], s) else (splitNL s).map fun p => (b :: p.1, p.2)

/-- ReadLine drops `"\n"` and, when present, the `'\r'` before it -/
def dropCR (l : Bytes) : Bytes := if l.getLast? = some 13 then l.dropLast else l

inductive RL
  | eof                                      -- (nil, false, io.EOF)
  | fail                                     -- (nil, false, some other error)
  | line (l : Bytes) (pre : Bool) (rest : Bytes)
  deriving Repr, DecidableEq

/-- `ReadSlice('\n')` returned `ErrBufferFull`: the first `B` bytes, a trailing `'\r'` put back -/
def chunk (B : Nat) (s : Bytes) : RL :=
  if (s.take B).getLast? = some 13 then .line (s.take (B - 1)) true (s.drop (B - 1))
  else .line (s.take B) true (s.drop B)

/-- `bufio.Reader.ReadLine` on the remaining stream `s` -/
def readLine (E : Env) (s : Bytes) : RL :=
  if s = [] then (if E.clean then .eof else .fail) else
  match splitNL s with
  | some (c, rest) => if c.length + 1 ≤ E.B then .line (dropCR c) false rest else chunk E.B s
  | none => if s.length < E.B ∨ (s.length = E.B ∧ E.eager = true) then .line s false [] else chunk E.B s

inductive Err
  | actionTooLong   -- wrong protocol: action line is too long
  | unknownAction   -- wrong protocol: unknown action line
  | emptyDoc        -- wrong protocol: empty document after action line
  | scan            -- scanning action line: non-EOF stream error
  | readDoc         -- reading document: EOF or stream error
  | badJSON         -- processing doc: the decoder rejected the line
  | store           -- StoreDocuments returned an error
  | fuel            -- model artefact, unreachable with enough fuel
  deriving Repr, DecidableEq

/-- `strings.Contains` -/
def hasSub (pat : Bytes) : Bytes → Bool
  | [] => pat.isEmpty
  | b :: s => pat.isPrefixOf (b :: s) || hasSub pat s

def qCreate : Bytes := [34, 99, 114, 101, 97, 116, 101, 34]   -- `"create"`
def qIndex : Bytes := [34, 105, 110, 100, 101, 120, 34]        -- `"index"`

/-- the check made on the first `actionLinesToCheck = 5` action lines -/
def unknownAction (checkN n : Nat) (l : Bytes) : Bool :=
  decide (n < checkN) && !hasSub qCreate l && !hasSub qIndex l

inductive Act
  | eof
  | err (e : Err)
  | ok (rest : Bytes)
  deriving Repr, DecidableEq

/-- `skipActionLine`: blank lines are skipped, a prefix is a protocol error -/
def skipActionF (E : Env) (checkN n : Nat) : Nat → Bytes → Act
  | 0, _ => .err .fuel
  | f + 1, s =>
    match readLine E s with
    | .eof => .eof
    | .fail => .err .scan
    | .line l pre rest =>
      if pre then .err .actionTooLong
      else if l = [] then skipActionF E checkN n f rest
      else if unknownAction checkN n l then .err .unknownAction
      else .ok rest

def skipAction (E : Env) (checkN n : Nat) (s : Bytes) : Act := skipActionF E checkN n (s.length + 1) s

inductive DocL
  | err (e : Err)
  | doc (d : Bytes) (rest : Bytes)
  | skipped (rest : Bytes)
  deriving Repr, DecidableEq

/-- `for isPrefix { doc, isPrefix, err = r.r.ReadLine() }` -/
def skipLongF (E : Env) : Nat → Bytes → DocL
  | 0, _ => .err .fuel
  | f + 1, s =>
    match readLine E s with
    | .eof => .err .readDoc
    | .fail => .err .readDoc
    | .line _ pre rest => if pre then skipLongF E f rest else .skipped rest

def skipLong (E : Env) (s : Bytes) : DocL := skipLongF E (s.length + 1) s

/-- `esBulkDocReader.readDoc` -/
def readDocLine (E : Env) (s : Bytes) : DocL :=
  match readLine E s with
  | .eof => .err .readDoc
  | .fail => .err .readDoc
  | .line l pre rest => if pre then skipLong E rest else .doc l rest

inductive RD
  | done
  | err (e : Err)
  | doc (d : Bytes) (rest : Bytes) (n : Nat)
  deriving Repr, DecidableEq

/-- second half of one `ReadDoc` iteration (after the action line): `k` is the next loop iteration -/
def docStep (E : Env) (k : Nat → Bytes → RD) (n : Nat) (rest : Bytes) : RD :=
  match readDocLine E rest with
  | .err e => .err e
  | .skipped rest' => k (n + 1) rest'
  | .doc d rest' => if d = [] then .err .emptyDoc else .doc d rest' (n + 1)

/-- `esBulkDocReader.ReadDoc`; `n` = `actionLinesRead` -/
def readDocF (E : Env) (checkN : Nat) : Nat → Nat → Bytes → RD
  | 0, _, _ => .err .fuel
  | f + 1, n, s =>
    match skipAction E checkN n s with
    | .eof => .done
    | .err e => .err e
    | .ok rest => docStep E (readDocF E checkN f) n rest

def readDoc (E : Env) (checkN n : Nat) (s : Bytes) : RD := readDocF E checkN (s.length + 1) n s

/-- how the sequence of `ReadDoc` calls ends -/
inductive End
  | done
  | err (e : Err)
  deriving Repr, DecidableEq

/-- every document `ReadDoc` yields until it reports the end or an error (what a caller that never stops
early observes) -/
def readAllF (E : Env) (checkN : Nat) : Nat → Nat → Bytes → List Bytes × End
  | 0, _, _ => ([], .err .fuel)
  | f + 1, n, s =>
    match readDoc E checkN n s with
    | .done => ([], .done)
    | .err e => ([], .err e)
    | .doc d rest n' => (d :: (readAllF E checkN f n' rest).1, (readAllF E checkN f n' rest).2)

def readAll (E : Env) (checkN : Nat) (s : Bytes) : List Bytes × End := readAllF E checkN (s.length + 1) 0 s

/-! ## ProcessDocuments -/

inductive Kind
  | object      -- decodes and `IsObject()`
  | nonObject   -- decodes, not an object (`errNotAnObject`: logged and skipped)
  | invalid     -- `DecodeBytes` error: the whole request fails
  deriving Repr, DecidableEq

/-- `binary.LittleEndian.AppendUint32` of a length (Go converts with `uint32(len(doc))`) -/
def le32 (n : Nat) : Bytes := [n % 256, n / 256 % 256, n / 65536 % 256, n / 16777216 % 256]

/-- `binaryDocs.B = AppendUint32(binaryDocs.B, len(doc)); binaryDocs.B = append(binaryDocs.B, doc...)` -/
def appendDoc (payload d : Bytes) : Bytes := payload ++ le32 d.length ++ d

/-- `frac.MetaData`: the ID (`MID`, `RID`), `Size` and the tokens as (key, value) byte strings -/
structure Meta where
  mid : Nat
  rid : Nat
  size : Nat
  tokens : List (Bytes × Bytes)
  deriving Repr, DecidableEq

structure St where
  total : Nat
  docs : Bytes          -- binaryDocs.B
  metas : List Meta     -- binaryMetas.B: per document its parent meta followed by the metas of nested fields
  deriving Repr, DecidableEq

def St.init : St := ⟨0, [], []⟩

/-- `mk d` = the metas `proc.Process` returns for document `d` (`p.indexer.Metas()`: the parent meta - ID time by
the time rule, `Size = len(doc)`, tokens - then one `Size = 0` meta per element of a nested field) -/
def St.push (mk : Bytes → List Meta) (st : St) (d : Bytes) : St :=
  ⟨st.total + 1, appendDoc st.docs d, st.metas ++ mk d⟩

/-- result of `processDocsToCompressor`: `(total, err)` with the buffers -/
inductive PR
  | err (e : Err)
  | ok (st : St)
  deriving Repr, DecidableEq

/-- the `for { readNext(); proc.Process(); append }` loop of `processDocsToCompressor` -/
def processDocs (E : Env) (checkN : Nat) (kind : Bytes → Kind) (mk : Bytes → List Meta) : Nat → Nat → Bytes → St → PR
  | 0, _, _, _ => .err .fuel
  | f + 1, n, s, st =>
    match readDoc E checkN n s with
    | .done => .ok st
    | .err e => .err e
    | .doc d rest n' =>
      match kind d with
      | .invalid => .err .badJSON
      | .nonObject => processDocs E checkN kind mk f n' rest st
      | .object => processDocs E checkN kind mk f n' rest (st.push mk d)

/-- `(total, err)` of `ProcessDocuments`: the number of created items of the response, or the error -/
inductive Resp
  | ok (items : Nat)
  | error (e : Err)
  deriving Repr, DecidableEq

/-- what the HTTP handler answers and what reached the storage client -/
structure Result where
  resp : Resp
  stored : Option (Nat × Bytes × List Meta)   -- `(count, docs, metas)` of the single `StoreDocuments` call, if made
  deriving Repr, DecidableEq

/-- `Ingestor.ProcessDocuments` (rate limiting aside): nothing is stored on error or for an empty bulk -/
def processDocuments (E : Env) (checkN : Nat) (kind : Bytes → Kind) (mk : Bytes → List Meta) (storeOk : Bool)
    (body : Bytes) : Result :=
  match processDocs E checkN kind mk (body.length + 1) 0 body St.init with
  | .err e => ⟨.error e, none⟩
  | .ok st =>
    if st.total = 0 then ⟨.ok 0, none⟩
    else if storeOk then ⟨.ok st.total, some (st.total, st.docs, st.metas)⟩
    else ⟨.error .store, some (st.total, st.docs, st.metas)⟩

/-- status code written by `BulkHandler.ServeHTTP`.  `processDocsToCompressor` wraps the reader's and the
processor's errors with `%s`, so `errors.Is(err, errWrongProtocol)` never holds in the handler and every
failure of `ProcessDocuments` modelled here is answered with 500 (429 belongs to the rate limiter) -/
def httpStatus : Resp → Nat
  | .ok _ => 200
  | .error _ => 500

/-- decoder of the docs payload (`packer.BytesUnpacker.GetBinary` in a loop) -/
def decodeDocs : Nat → Bytes → Option (List Bytes)
  | _, [] => some []
  | 0, _ => none
  | f + 1, b0 :: b1 :: b2 :: b3 :: rest =>
    let n := b0 + 256 * b1 + 65536 * b2 + 16777216 * b3
    if rest.length < n then none else (decodeDocs f (rest.drop n)).map fun ds => rest.take n :: ds
  | _ + 1, _ => none

def encodeDocs (ds : List Bytes) : Bytes := ds.foldl appendDoc []

end SV.Bulk
